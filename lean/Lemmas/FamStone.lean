/-
Lemmas about the stone / sparse stone formula model (`Fam/Pebbling.lean`).
-/
import CnfgenModel.Fam.Pebbling
import Lemmas.FamC03aBasic
import Lemmas.FamPebbling
namespace Cnfgen.Fam.Pebbling
open Cnfgen.FamC03a

/-! ### `_uniqify_list`, `itertools.product` -/

theorem mem_uniq {a : Nat} : ∀ {l : List Nat}, a ∈ uniq l ↔ a ∈ l
  | [] => by simp [uniq]
  | x :: xs => by
    simp only [uniq, List.mem_cons, List.mem_filter, mem_uniq (l := xs), bne_iff_ne, ne_eq]
    constructor
    · rintro (h | ⟨h, _⟩)
      · exact Or.inl h
      · exact Or.inr h
    · rintro (h | h)
      · exact Or.inl h
      · by_cases hx : a = x
        · exact Or.inl hx
        · exact Or.inr ⟨h, hx⟩

/-- membership in `product(*(choices p for p in pred))`: one stone per predecessor, allowed on it
and different from `j` -/
theorem mem_patterns (B : BipG) (j : Nat) : ∀ (pred pat : List Nat),
    pat ∈ patterns B pred j ↔
      pat.length = pred.length ∧ ∀ ps ∈ pred.zip pat, ps.2 ∈ B.rnbrs ps.1 ∧ ps.2 ≠ j
  | [], pat => by
    simp only [patterns, List.map_nil, product, List.mem_singleton, List.length_nil, List.zip_nil_left,
      List.not_mem_nil, false_implies, implies_true, and_true]
    exact ⟨fun h => by rw [h]; rfl, fun h => List.eq_nil_of_length_eq_zero h⟩
  | p :: ps, pat => by
    have ih := mem_patterns B j ps
    simp only [patterns, List.map_cons, product, List.mem_flatMap, List.mem_map, List.mem_filter,
      bne_iff_ne, ne_eq] at ih ⊢
    constructor
    · rintro ⟨s, ⟨hs, hne⟩, t, ht, rfl⟩
      obtain ⟨hl, hz⟩ := (ih t).1 ht
      refine ⟨by simp [hl], ?_⟩
      intro q hq
      simp only [List.zip_cons_cons, List.mem_cons] at hq
      rcases hq with rfl | hq
      · exact ⟨hs, hne⟩
      · exact hz q hq
    · rintro ⟨hl, hz⟩
      cases pat with
      | nil => simp at hl
      | cons s t =>
        refine ⟨s, ?_, t, (ih t).2 ⟨by simpa using hl, fun q hq => hz q ?_⟩, rfl⟩
        · exact hz (p, s) (by simp)
        · simp only [List.zip_cons_cons, List.mem_cons]; exact Or.inr hq

theorem mem_zip_left {a b : Nat} : ∀ {l₁ l₂ : List Nat}, (a, b) ∈ l₁.zip l₂ → a ∈ l₁
  | [], _, h => by simp at h
  | _ :: _, [], h => by simp at h
  | x :: xs, y :: ys, h => by
    simp only [List.zip_cons_cons, List.mem_cons, Prod.mk.injEq] at h
    rcases h with ⟨rfl, _⟩ | h
    · exact List.mem_cons_self ..
    · exact List.mem_cons_of_mem _ (mem_zip_left h)

theorem exists_zip_of_mem_right {s : Nat} : ∀ {l₁ l₂ : List Nat}, l₂.length = l₁.length → s ∈ l₂ →
    ∃ p, (p, s) ∈ l₁.zip l₂
  | _, [], _, h => by simp at h
  | [], _ :: _, hl, _ => by simp at hl
  | x :: xs, y :: ys, hl, h => by
    simp only [List.mem_cons] at h
    rcases h with rfl | h
    · exact ⟨x, by simp⟩
    · obtain ⟨p, hp⟩ := exists_zip_of_mem_right (l₁ := xs) (by simpa using hl) h
      exact ⟨p, by simp only [List.zip_cons_cons, List.mem_cons]; exact Or.inr hp⟩

/-! ### identifiers -/

/-- identifier of `R(j)` -/
def Rvar (B : BipG) (j : Nat) : Nat := Vars.blockId 1 [B.r] [j]
/-- identifier of `P(u,v)` -/
def Pvar (B : BipG) (u v : Nat) : Nat := Vars.bipId B (B.r + 1) u v

theorem R_eq (B : BipG) (j : Nat) : R B j = (Rvar B j : Int) := rfl
theorem P_eq (B : BipG) (u v : Nat) : P B u v = (Pvar B u v : Int) := rfl

theorem Rvar_eq (B : BipG) (j : Nat) (h : 1 ≤ j) : Rvar B j = j := by
  simp [Rvar, Vars.blockId, Vars.weights]; omega

theorem Rvar_pos (B : BipG) (j : Nat) : 1 ≤ Rvar B j := by
  simp [Rvar, Vars.blockId, Vars.weights]

/-- `offset[u+1]`: first identifier of the row of left vertex `u+1` -/
def psum (B : BipG) (start : Nat) : Nat → Nat
  | 0 => start
  | k + 1 => psum B start k + (B.rnbrs (k + 1)).length

theorem psum_mono (B : BipG) (start : Nat) {a b : Nat} (h : a ≤ b) : psum B start a ≤ psum B start b := by
  induction b with
  | zero => have : a = 0 := by omega
            subst this; exact Nat.le_refl _
  | succ b ih =>
    by_cases hab : a = b + 1
    · subst hab; exact Nat.le_refl _
    · have := ih (by omega); simp only [psum]; omega

theorem psum_eq_sum (B : BipG) (start : Nat) (k : Nat) :
    psum B start k = start + ((List.range k).map (fun i => (B.rnbrs (i + 1)).length)).sum := by
  induction k with
  | zero => simp [psum]
  | succ k ih => simp [psum, ih, List.range_succ, List.sum_append]; omega

theorem offsets_fold (B : BipG) (start : Nat) (k : Nat) :
    (List.range k).foldl (fun (acc : List Nat × Nat) i =>
      (acc.1 ++ [acc.2], acc.2 + (B.rnbrs (i + 1)).length)) ([], start) =
    ((List.range k).map (psum B start), psum B start k) := by
  induction k with
  | zero => simp [psum]
  | succ k ih => simp [List.range_succ, List.foldl_append, ih, psum]

theorem bipOffsets_get (B : BipG) (start u : Nat) (h1 : 1 ≤ u) (h2 : u ≤ B.l) :
    (Vars.bipOffsets B start).getD u 0 = psum B start (u - 1) := by
  obtain ⟨k, rfl⟩ : ∃ k, u = k + 1 := ⟨u - 1, by omega⟩
  simp only [Vars.bipOffsets, offsets_fold, List.getD_cons_succ, Nat.add_sub_cancel]
  rw [List.getD_eq_getElem?_getD, List.getElem?_map, List.getElem?_range (by omega)]
  rfl

theorem Pvar_eq (B : BipG) (u v : Nat) (h1 : 1 ≤ u) (h2 : u ≤ B.l) :
    Pvar B u v = psum B (B.r + 1) (u - 1) + (B.rnbrs u).idxOf v := by
  unfold Pvar Vars.bipId
  rw [bipOffsets_get B _ u h1 h2]

theorem Pvar_pos (B : BipG) (u v : Nat) (h1 : 1 ≤ u) (h2 : u ≤ B.l) : 1 ≤ Pvar B u v := by
  rw [Pvar_eq B u v h1 h2]
  have := psum_mono B (B.r + 1) (Nat.zero_le (u - 1))
  simp only [psum] at this
  omega

/-- facts about a bipartite graph object used for well-formedness: right neighbours are right
vertices and the adjacency lists account for exactly `number_of_edges()` edges (C16's invariant
of reachable `BipartiteGraph` objects) -/
structure BipOK (B : BipG) : Prop where
  rng : ∀ u, 1 ≤ u → u ≤ B.l → ∀ j ∈ B.rnbrs u, 1 ≤ j ∧ j ≤ B.r
  degsum : ((List.range B.l).map (fun i => (B.rnbrs (i + 1)).length)).sum = B.numberOfEdges

theorem Pvar_bounds (B : BipG) (hB : BipOK B) (u v : Nat) (h1 : 1 ≤ u) (h2 : u ≤ B.l) (hv : v ∈ B.rnbrs u) :
    B.r + 1 ≤ Pvar B u v ∧ Pvar B u v ≤ B.r + B.numberOfEdges := by
  rw [Pvar_eq B u v h1 h2]
  have m0 := psum_mono B (B.r + 1) (Nat.zero_le (u - 1))
  have m1 := psum_mono B (B.r + 1) h2
  have e := psum_eq_sum B (B.r + 1) B.l
  rw [hB.degsum] at e
  have hi : (B.rnbrs u).idxOf v < (B.rnbrs u).length := List.idxOf_lt_length_of_mem hv
  have hs : psum B (B.r + 1) u = psum B (B.r + 1) (u - 1) + (B.rnbrs u).length := by
    obtain ⟨k, rfl⟩ : ∃ k, u = k + 1 := ⟨u - 1, by omega⟩
    simp [psum]
  simp only [psum] at m0
  omega

/-! ### the specification -/

/-- the documented axiom groups, over `on v j` ("stone `j` is on vertex `v`") and `red j` -/
structure StoneSpec (D : DiG) (B : BipG) (on : Nat → Nat → Prop) (red : Nat → Prop) : Prop where
  /-- every vertex carries one of the stones allowed on it -/
  complete : ∀ v, 1 ≤ v → v ≤ B.l → ∃ j ∈ B.rnbrs v, on v j
  /-- if the predecessors of `v` carry red stones (one choice `pat` of stones other than `j`,
  allowed on them), a stone `j` on `v` is red; sources: `pat = []` -/
  propagate : ∀ v, 1 ≤ v → v ≤ D.n → ∀ j ∈ B.rnbrs v, ∀ pat : List Nat,
    pat.length = (D.preds v).length → (∀ ps ∈ (D.preds v).zip pat, ps.2 ∈ B.rnbrs ps.1 ∧ ps.2 ≠ j) →
    (∀ ps ∈ (D.preds v).zip pat, on ps.1 ps.2) → on v j → (∀ s ∈ pat, red s) → red j
  /-- stones on sinks are not red -/
  sink : ∀ v, 1 ≤ v → v ≤ D.n → D.succs v = [] → ∀ j ∈ B.rnbrs v, ¬ (on v j ∧ red j)

theorem stoneClause_holds (B : BipG) (α : Assign) (pred : List Nat) (v j : Nat) (pat : List Nat) :
    clauseHolds α (stoneClause B pred v j pat) = true ↔
      ((∀ ps ∈ pred.zip pat, α (Pvar B ps.1 ps.2) = true) → α (Pvar B v j) = true →
        (∀ s ∈ pat, α (Rvar B s) = true) → α (Rvar B j) = true) := by
  unfold stoneClause
  simp only [cl_append, Bool.or_eq_true, P_eq, R_eq]
  rw [cl_map_neg α (pred.zip pat) (fun ps => Pvar B ps.1 ps.2), cl_map_neg α (uniq pat) (fun s => Rvar B s)]
  simp only [cl_cons, cl_nil, Bool.or_false, lit_neg, lit_pos α _ (Rvar_pos B j), Bool.not_eq_true']
  constructor
  · rintro (((⟨ps, hps, hf⟩ | hf) | ⟨s, hs, hf⟩) | h) h1 h2 h3
    · rw [h1 ps hps] at hf; cases hf
    · rw [h2] at hf; cases hf
    · rw [h3 s (mem_uniq.1 hs)] at hf; cases hf
    · exact h
  · intro h
    by_cases c1 : ∃ ps ∈ pred.zip pat, α (Pvar B ps.1 ps.2) = false
    · exact Or.inl (Or.inl (Or.inl c1))
    by_cases c2 : α (Pvar B v j) = false
    · exact Or.inl (Or.inl (Or.inr c2))
    by_cases c3 : ∃ s ∈ uniq pat, α (Rvar B s) = false
    · exact Or.inl (Or.inr c3)
    right
    refine h (fun ps hps => ?_) ?_ (fun s hs => ?_)
    · cases hα : α (Pvar B ps.1 ps.2)
      · exact absurd ⟨ps, hps, hα⟩ c1
      · rfl
    · cases hα : α (Pvar B v j)
      · exact absurd hα c2
      · rfl
    · cases hα : α (Rvar B s)
      · exact absurd ⟨s, mem_uniq.2 hs, hα⟩ c3
      · rfl

theorem completeClause_holds (B : BipG) (α : Assign) (u : Nat) (h1 : 1 ≤ u) (h2 : u ≤ B.l) :
    clauseHolds α ((Vars.bipRow B (B.r + 1) u).map (fun (i : Nat) => (i : Int))) = true ↔
      ∃ j ∈ B.rnbrs u, α (Pvar B u j) = true := by
  unfold Vars.bipRow
  rw [List.map_map]
  exact cl_map_pos α (B.rnbrs u) (fun j => Pvar B u j) (fun j _ => Pvar_pos B u j h1 h2)

theorem sinkStone_holds (B : BipG) (α : Assign) (v j : Nat) :
    clauseHolds α [- P B v j, - R B j] = true ↔ ¬ (α (Pvar B v j) = true ∧ α (Rvar B j) = true) := by
  simp only [cl_cons, cl_nil, Bool.or_false, P_eq, R_eq, lit_neg]
  cases α (Pvar B v j) <;> cases α (Rvar B j) <;> simp

theorem holds_append' (n : Nat) (A C : List Con) (α : Assign) :
    (⟨n, A ++ C⟩ : Formula).holds α = true ↔
      (∀ c ∈ A, c.holds α = true) ∧ (∀ c ∈ C, c.holds α = true) := by
  simp [Formula.holds, List.all_append]

/-- exactly the documented axioms -/
theorem sstone_holds_iff (D : DiG) (B : BipG) (α : Assign) :
    (sstone D B).holds α = true ↔
      StoneSpec D B (fun v j => α (Pvar B v j) = true) (fun j => α (Rvar B j) = true) := by
  unfold sstone
  rw [holds_append']
  constructor
  · rintro ⟨hA, hC⟩
    refine ⟨?_, ?_, ?_⟩
    · intro v h1 h2
      refine (completeClause_holds B α v h1 h2).1 (hA (Con.clause _) ?_)
      exact List.mem_map.2 ⟨v, mem_verts.2 ⟨h1, h2⟩, rfl⟩
    · intro v h1 h2 j hj pat hl hz
      refine (stoneClause_holds B α (D.preds v) v j pat).1 (hC (Con.clause _) ?_)
      refine List.mem_flatMap.2 ⟨v, mem_verts.2 ⟨h1, h2⟩, List.mem_append_left _ ?_⟩
      exact List.mem_flatMap.2 ⟨j, hj, List.mem_map.2 ⟨pat, (mem_patterns B j _ _).2 ⟨hl, hz⟩, rfl⟩⟩
    · intro v h1 h2 hs j hj
      refine (sinkStone_holds B α v j).1 (hC (Con.clause _) ?_)
      refine List.mem_flatMap.2 ⟨v, mem_verts.2 ⟨h1, h2⟩, List.mem_append_right _ ?_⟩
      simp only [hs, List.length_nil, beq_self_eq_true, if_true]
      exact List.mem_map.2 ⟨j, hj, rfl⟩
  · intro h
    constructor
    · intro c hc
      obtain ⟨v, hv, rfl⟩ := List.mem_map.1 hc
      obtain ⟨h1, h2⟩ := mem_verts.1 hv
      exact (completeClause_holds B α v h1 h2).2 (h.complete v h1 h2)
    · intro c hc
      obtain ⟨v, hv, hc⟩ := List.mem_flatMap.1 hc
      obtain ⟨h1, h2⟩ := mem_verts.1 hv
      rcases List.mem_append.1 hc with hc | hc
      · obtain ⟨j, hj, hc⟩ := List.mem_flatMap.1 hc
        obtain ⟨pat, hp, rfl⟩ := List.mem_map.1 hc
        obtain ⟨hl, hz⟩ := (mem_patterns B j _ _).1 hp
        exact (stoneClause_holds B α (D.preds v) v j pat).2 (h.propagate v h1 h2 j hj pat hl hz)
      · split at hc
        · rename_i hlen
          obtain ⟨j, hj, rfl⟩ := List.mem_map.1 hc
          have hs : D.succs v = [] := by simpa using hlen
          exact (sinkStone_holds B α v j).2 (h.sink v h1 h2 hs j hj)
        · simp at hc

/-! ### unsatisfiability -/

/-- either `j` is already known to be red, or the red stones on the predecessors form a
pattern avoiding `j` -/
theorem choose_pattern (B : BipG) (on : Nat → Nat → Prop) (red : Nat → Prop) (j : Nat) :
    ∀ (preds : List Nat), (∀ p ∈ preds, ∃ s ∈ B.rnbrs p, on p s ∧ red s) →
      red j ∨ ∃ pat : List Nat, pat.length = preds.length ∧
        (∀ ps ∈ preds.zip pat, ps.2 ∈ B.rnbrs ps.1 ∧ ps.2 ≠ j) ∧
        (∀ ps ∈ preds.zip pat, on ps.1 ps.2) ∧ (∀ s ∈ pat, red s)
  | [], _ => Or.inr ⟨[], rfl, by simp, by simp, by simp⟩
  | p :: ps, h => by
    obtain ⟨s, hs, hon, hred⟩ := h p (List.mem_cons_self ..)
    by_cases hsj : s = j
    · subst hsj; exact Or.inl hred
    · rcases choose_pattern B on red j ps (fun q hq => h q (List.mem_cons_of_mem _ hq)) with hr | ⟨pat, hl, h1, h2, h3⟩
      · exact Or.inl hr
      · refine Or.inr ⟨s :: pat, by simp [hl], ?_, ?_, ?_⟩
        · intro q hq
          simp only [List.zip_cons_cons, List.mem_cons] at hq
          rcases hq with rfl | hq
          · exact ⟨hs, hsj⟩
          · exact h1 q hq
        · intro q hq
          simp only [List.zip_cons_cons, List.mem_cons] at hq
          rcases hq with rfl | hq
          · exact hon
          · exact h2 q hq
        · intro t ht
          simp only [List.mem_cons] at ht
          rcases ht with rfl | ht
          · exact hred
          · exact h3 t ht

/-- strong induction along the topological order: every stone placed on a vertex is red -/
theorem all_red (D : DiG) (B : BipG) (hD : TopoDAG D) (hl : B.l = D.n) (on : Nat → Nat → Prop)
    (red : Nat → Prop) (hs : StoneSpec D B on red) :
    ∀ v, 1 ≤ v → v ≤ D.n → ∀ j ∈ B.rnbrs v, on v j → red j := by
  intro v
  induction v using Nat.strongRecOn with
  | _ v ih =>
    intro h1 h2 j hj hon
    have hp : ∀ p ∈ D.preds v, ∃ s ∈ B.rnbrs p, on p s ∧ red s := by
      intro p hp
      have := hD.pred_lt v h1 h2 p hp
      obtain ⟨s, hs1, hs2⟩ := hs.complete p this.1 (by omega)
      exact ⟨s, hs1, hs2, ih p this.2 this.1 (by omega) s hs1 hs2⟩
    rcases choose_pattern B on red j (D.preds v) hp with hr | ⟨pat, hlen, hz, hz2, hz3⟩
    · exact hr
    · exact hs.propagate v h1 h2 j hj pat hlen hz hz2 hon hz3

theorem stoneSpec_false (D : DiG) (B : BipG) (hD : TopoDAG D) (hl : B.l = D.n) (hn : 1 ≤ D.n)
    (on : Nat → Nat → Prop) (red : Nat → Prop) : ¬ StoneSpec D B on red := by
  intro hs
  obtain ⟨j, hj, hon⟩ := hs.complete D.n hn (by omega)
  have hred := all_red D B hD hl on red hs D.n hn (Nat.le_refl _) j hj hon
  have hsink : D.succs D.n = [] := by
    cases hsu : D.succs D.n with
    | nil => rfl
    | cons s t =>
      have := hD.succ_gt D.n hn (Nat.le_refl _) s (by rw [hsu]; exact List.mem_cons_self ..)
      omega
  exact hs.sink D.n hn (Nat.le_refl _) hsink j hj ⟨hon, hred⟩

theorem sstone_unsat (D : DiG) (B : BipG) (hD : TopoDAG D) (hl : B.l = D.n) (hn : 1 ≤ D.n) :
    ¬ ∃ α, (sstone D B).holds α = true := by
  rintro ⟨α, hα⟩
  exact stoneSpec_false D B hD hl hn _ _ ((sstone_holds_iff D B α).1 hα)

/-! ### variable count, well-formedness -/

theorem sstone_nvars (D : DiG) (B : BipG) : (sstone D B).nvars = B.r + B.numberOfEdges := rfl

theorem sstone_wf (D : DiG) (B : BipG) (hD : TopoDAG D) (hl : B.l = D.n) (hB : BipOK B) : (sstone D B).WF := by
  have hP : ∀ u j, 1 ≤ u → u ≤ B.l → j ∈ B.rnbrs u →
      ((Pvar B u j : Int) ≠ 0 ∧ ((Pvar B u j : Int)).natAbs ≤ B.r + B.numberOfEdges) ∧
      (-(Pvar B u j : Int) ≠ 0 ∧ (-(Pvar B u j : Int)).natAbs ≤ B.r + B.numberOfEdges) := by
    intro u j h1 h2 hj
    have := Pvar_bounds B hB u j h1 h2 hj
    omega
  have hR : ∀ j, 1 ≤ j → j ≤ B.r →
      ((Rvar B j : Int) ≠ 0 ∧ ((Rvar B j : Int)).natAbs ≤ B.r + B.numberOfEdges) ∧
      (-(Rvar B j : Int) ≠ 0 ∧ (-(Rvar B j : Int)).natAbs ≤ B.r + B.numberOfEdges) := by
    intro j h1 h2
    rw [Rvar_eq B j h1]; omega
  intro c hc l hlit
  show l ≠ 0 ∧ l.natAbs ≤ B.r + B.numberOfEdges
  unfold sstone at hc
  rcases List.mem_append.1 hc with hc | hc
  · obtain ⟨u, hu, rfl⟩ := List.mem_map.1 hc
    obtain ⟨h1, h2⟩ := mem_verts.1 hu
    simp only [Con.lits, Vars.bipRow, List.map_map, List.mem_map, Function.comp] at hlit
    obtain ⟨j, hj, rfl⟩ := hlit
    exact (hP u j h1 h2 hj).1
  · obtain ⟨v, hv, hc⟩ := List.mem_flatMap.1 hc
    obtain ⟨h1, h2⟩ := mem_verts.1 hv
    rcases List.mem_append.1 hc with hc | hc
    · obtain ⟨j, hj, hc⟩ := List.mem_flatMap.1 hc
      obtain ⟨pat, hp, rfl⟩ := List.mem_map.1 hc
      obtain ⟨hlen, hz⟩ := (mem_patterns B j _ _).1 hp
      simp only [Con.lits, stoneClause, List.mem_append, List.mem_map, List.mem_singleton, P_eq, R_eq] at hlit
      rcases hlit with ((⟨⟨p, s⟩, hps, rfl⟩ | rfl) | ⟨s, hs, rfl⟩) | rfl
      · have hpm := mem_zip_left hps
        have := hD.pred_lt v h1 h2 p hpm
        exact (hP p s this.1 (by omega) (hz (p, s) hps).1).2
      · exact (hP v j h1 (by omega) hj).2
      · obtain ⟨p, hps⟩ := exists_zip_of_mem_right hlen (mem_uniq.1 hs)
        have hpm := mem_zip_left hps
        have hpl := hD.pred_lt v h1 h2 p hpm
        have := hB.rng p hpl.1 (by omega) s (hz (p, s) hps).1
        exact (hR s this.1 this.2).2
      · have := hB.rng v h1 (by omega) j hj
        exact (hR j this.1 this.2).1
    · split at hc
      · obtain ⟨j, hj, rfl⟩ := List.mem_map.1 hc
        simp only [Con.lits, List.mem_cons, List.not_mem_nil, or_false, P_eq, R_eq] at hlit
        have := hB.rng v h1 (by omega) j hj
        rcases hlit with rfl | rfl
        · exact (hP v j h1 (by omega) hj).2
        · exact (hR j this.1 this.2).2
      · simp at hc

/-! ### the complete availability graph and `StoneFormula` -/

theorem complete_rnbrs (l r u : Nat) (h1 : 1 ≤ u) (h2 : u ≤ l) :
    (BipG.complete l r).rnbrs u = (List.range r).map (· + 1) := by
  obtain ⟨k, rfl⟩ : ∃ k, u = k + 1 := ⟨u - 1, by omega⟩
  simp only [BipG.rnbrs, BipG.complete, List.getD_cons_succ]
  rw [List.getD_eq_getElem?_getD, List.getElem?_replicate]
  simp [show k < l by omega]

theorem complete_numEdges (l r : Nat) : (BipG.complete l r).numberOfEdges = l * r := by
  simp only [BipG.numberOfEdges, BipG.complete]
  induction l with
  | zero => simp
  | succ l ih =>
    rw [List.range_succ, List.flatMap_append, List.length_append, ih]
    simp [Nat.succ_mul]

theorem complete_ok (l r : Nat) : BipOK (BipG.complete l r) := by
  constructor
  · intro u h1 h2 j hj
    have hl : (BipG.complete l r).l = l := rfl
    rw [hl] at h2
    rw [complete_rnbrs l r u h1 h2] at hj
    simp only [List.mem_map, List.mem_range] at hj
    obtain ⟨a, ha, rfl⟩ := hj
    have hr : (BipG.complete l r).r = r := rfl
    omega
  · rw [complete_numEdges]
    have hl : (BipG.complete l r).l = l := rfl
    rw [hl]
    have : ∀ k, k ≤ l → ((List.range k).map (fun i => ((BipG.complete l r).rnbrs (i + 1)).length)).sum = k * r := by
      intro k
      induction k with
      | zero => simp
      | succ k ih =>
        intro hk
        rw [List.range_succ, List.map_append, List.sum_append, ih (by omega),
          List.map_singleton, List.sum_singleton, complete_rnbrs l r (k + 1) (by omega) hk]
        simp [Nat.succ_mul]
    exact this l (Nat.le_refl _)

theorem sparseStone_ok (D : DiG) (B : BipG) (hd : D.stillDag = true) (hl : B.l = D.n) :
    sparseStone D B = .ok (sstone D B) := by
  simp [sparseStone, hd, hl]

theorem stone_ok (D : DiG) (k : Nat) (hd : D.stillDag = true) :
    stone D (k : Int) = .ok (sstone D (BipG.complete D.n k)) := by
  have : (BipG.complete D.n k).l = D.n := rfl
  simp [stone, hd, sparseStone, this]

theorem pebbling_ok (D : DiG) (hd : D.stillDag = true) : pebbling D = .ok (peb D) := by
  simp [pebbling, hd]

end Cnfgen.Fam.Pebbling
