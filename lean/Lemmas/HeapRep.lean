/-
C19 heap lemmas — REFINEMENT: what the operations on a formula object do to its deep snapshot is exactly what
the pure model (Core/Sem `CNF.addClause`, Trans/Subst `addAll` / `run`, Trans/Shuffle `core`) does to the value.
-/
import Lemmas.HeapResult
namespace Cnfgen
namespace Heap
local notation "Addr" => Nat

theorem readIntsAll_append {s : Store} : ∀ {as bs : List Addr} {cs ds : List (List Int)},
    readIntsAll s as = some cs → readIntsAll s bs = some ds → readIntsAll s (as ++ bs) = some (cs ++ ds)
  | [], _, cs, _, h1, h2 => by simp [readIntsAll] at h1; subst h1; simpa using h2
  | a :: as, bs, cs, ds, h1, h2 => by
    unfold readIntsAll at h1
    split at h1
    · rename_i x xs e1 e2
      cases h1
      have := readIntsAll_append (as := as) (bs := bs) e2 h2
      simp [readIntsAll, e1, this]
    · cases h1

/-- the snapshot, spelled out cell by cell -/
theorem snap_iff {s : Store} {x : Nat} {R : Snap} :
    snap s x = some R ↔ ∃ cl hd gr as, s[x]? = some (.cnf cl hd gr R.numvar) ∧ s[cl]? = some (.refs as) ∧
      s[hd]? = some (.dict R.header) ∧ s[gr]? = some (.groups R.groups) ∧ readIntsAll s as = some R.clauses := by
  constructor
  · intro h
    unfold snap at h
    cases ho : readCNF s x with
    | none => simp [ho] at h
    | some o =>
      simp only [ho] at h
      unfold readCNF at ho
      split at ho
      · rename_i cl hd gr nv h1
        cases ho
        split at h
        · rename_i as es gs e1 e2 e3
          split at h
          · rename_i cs e4
            cases h
            refine ⟨cl, hd, gr, as, h1, ?_, ?_, ?_, e4⟩
            · unfold readRefs at e1; split at e1
              · rename_i heq; cases e1; exact heq
              · cases e1
            · unfold readDict at e2; split at e2
              · rename_i heq; cases e2; exact heq
              · cases e2
            · unfold readGroups at e3; split at e3
              · rename_i heq; cases e3; exact heq
              · cases e3
          · cases h
        · cases h
      · cases ho
  · rintro ⟨cl, hd, gr, as, h1, h2, h3, h4, h5⟩
    simp [snap, readCNF, readRefs, readDict, readGroups, h1, h2, h3, h4, h5]

/-- the data of a well-formed formula object, with the disequalities that the cell types force -/
structure Layout (s : Store) (x : Nat) (R : Snap) (cl hd gr : Nat) (as : List Addr) : Prop where
  hx : s[x]? = some (.cnf cl hd gr R.numvar)
  hcl : s[cl]? = some (.refs as)
  hhd : s[hd]? = some (.dict R.header)
  hgr : s[gr]? = some (.groups R.groups)
  hcs : readIntsAll s as = some R.clauses

theorem Layout.snap {s : Store} {x : Nat} {R : Snap} {cl hd gr : Nat} {as : List Addr} (L : Layout s x R cl hd gr as) :
    snap s x = some R := snap_iff.mpr ⟨cl, hd, gr, as, L.hx, L.hcl, L.hhd, L.hgr, L.hcs⟩

theorem layout_of_snap {s : Store} {x : Nat} {R : Snap} (h : snap s x = some R) :
    ∃ cl hd gr as, Layout s x R cl hd gr as := by
  obtain ⟨cl, hd, gr, as, h1, h2, h3, h4, h5⟩ := snap_iff.mp h
  exact ⟨cl, hd, gr, as, ⟨h1, h2, h3, h4, h5⟩⟩

/-- overwriting a cell that is none of the clause cells keeps the clause contents -/
theorem readIntsAll_write {s : Store} {as : List Addr} {cs : List (List Int)} {a : Nat} {c0 c : Cell}
    (h : readIntsAll s as = some cs) (h0 : s[a]? = some c0) (hn : ∀ xs, c0 ≠ .ints xs) :
    readIntsAll (write s a c) as = some cs := by
  rw [readIntsAll_congr (s := s) (s' := write s a c)]
  · exact h
  · intro b hb
    obtain ⟨ys, hy⟩ := readIntsAll_typed h b hb
    have : a ≠ b := by rintro rfl; rw [h0] at hy; cases hy; exact hn _ rfl
    exact get_write_ne this

theorem readIntsAll_alloc {s : Store} {as : List Addr} {cs : List (List Int)} (c : Cell)
    (h : readIntsAll s as = some cs) : readIntsAll (alloc s c).1 as = some cs := by
  rw [readIntsAll_congr (s := s) (s' := (alloc s c).1)]
  · exact h
  · intro b hb
    exact get_alloc_lt (readIntsAll_inbounds h b hb)

/-- E2a  `self._numvar = n` -/
theorem snap_write_numvar {s : Store} {x : Nat} {R : Snap} {cl hd gr : Nat} {as : List Addr}
    (L : Layout s x R cl hd gr as) (n : Nat) :
    Layout (write s x (.cnf cl hd gr n)) x { R with numvar := n } cl hd gr as := by
  have nxcl : x ≠ cl := by rintro rfl; have := L.hx; rw [L.hcl] at this; cases this
  have nxhd : x ≠ hd := by rintro rfl; have := L.hx; rw [L.hhd] at this; cases this
  have nxgr : x ≠ gr := by rintro rfl; have := L.hx; rw [L.hgr] at this; cases this
  refine ⟨get_write_eq (lt_size_of_getElem? L.hx), ?_, ?_, ?_, ?_⟩
  · rw [get_write_ne nxcl]; exact L.hcl
  · rw [get_write_ne nxhd]; exact L.hhd
  · rw [get_write_ne nxgr]; exact L.hgr
  · exact readIntsAll_write L.hcs L.hx (by intro xs h; cases h)

/-- E2b  `self.header[...] = …` (any new content of the dictionary) -/
theorem snap_write_header {s : Store} {x : Nat} {R : Snap} {cl hd gr : Nat} {as : List Addr}
    (L : Layout s x R cl hd gr as) (es : Hdr) :
    Layout (write s hd (.dict es)) x { R with header := es } cl hd gr as := by
  have nxhd : hd ≠ x := by rintro rfl; have := L.hx; rw [L.hhd] at this; cases this
  have n2 : hd ≠ cl := by rintro rfl; have := L.hcl; rw [L.hhd] at this; cases this
  have n3 : hd ≠ gr := by rintro rfl; have := L.hgr; rw [L.hhd] at this; cases this
  refine ⟨?_, ?_, get_write_eq (lt_size_of_getElem? L.hhd), ?_, ?_⟩
  · rw [get_write_ne nxhd]; exact L.hx
  · rw [get_write_ne n2]; exact L.hcl
  · rw [get_write_ne n3]; exact L.hgr
  · exact readIntsAll_write L.hcs L.hhd (by intro xs h; cases h)

/-- E2c  `self._groups.append(vg)` -/
theorem snap_write_groups {s : Store} {x : Nat} {R : Snap} {cl hd gr : Nat} {as : List Addr}
    (L : Layout s x R cl hd gr as) (gs : List Vars.Group) :
    Layout (write s gr (.groups gs)) x { R with groups := gs } cl hd gr as := by
  have n1 : gr ≠ x := by rintro rfl; have := L.hx; rw [L.hgr] at this; cases this
  have n2 : gr ≠ cl := by rintro rfl; have := L.hcl; rw [L.hgr] at this; cases this
  have n3 : gr ≠ hd := by rintro rfl; have := L.hhd; rw [L.hgr] at this; cases this
  refine ⟨?_, ?_, ?_, get_write_eq (lt_size_of_getElem? L.hgr), ?_⟩
  · rw [get_write_ne n1]; exact L.hx
  · rw [get_write_ne n2]; exact L.hcl
  · rw [get_write_ne n3]; exact L.hhd
  · exact readIntsAll_write L.hcs L.hgr (by intro xs h; cases h)

/-- a new cell does not disturb the layout -/
theorem layout_alloc {s : Store} {x : Nat} {R : Snap} {cl hd gr : Nat} {as : List Addr}
    (L : Layout s x R cl hd gr as) (c : Cell) : Layout (alloc s c).1 x R cl hd gr as :=
  ⟨by rw [get_alloc_lt (lt_size_of_getElem? L.hx)]; exact L.hx,
   by rw [get_alloc_lt (lt_size_of_getElem? L.hcl)]; exact L.hcl,
   by rw [get_alloc_lt (lt_size_of_getElem? L.hhd)]; exact L.hhd,
   by rw [get_alloc_lt (lt_size_of_getElem? L.hgr)]; exact L.hgr,
   readIntsAll_alloc c L.hcs⟩

/-- E1a  `self._clauses.append(data)` for a list `data` just allocated -/
theorem layout_append {s : Store} {x : Nat} {R : Snap} {cl hd gr : Nat} {as : List Addr}
    (L : Layout s x R cl hd gr as) (d : Nat) (xs : List Int) (hd' : s[d]? = some (.ints xs)) :
    Layout (appendRef s cl d) x { R with clauses := R.clauses ++ [xs] } cl hd gr (as ++ [d]) := by
  have e : appendRef s cl d = write s cl (.refs (as ++ [d])) := by simp [appendRef, L.hcl]
  rw [e]
  have n1 : cl ≠ x := by rintro rfl; have := L.hx; rw [L.hcl] at this; cases this
  have n2 : cl ≠ hd := by rintro rfl; have := L.hhd; rw [L.hcl] at this; cases this
  have n3 : cl ≠ gr := by rintro rfl; have := L.hgr; rw [L.hcl] at this; cases this
  have n4 : cl ≠ d := by rintro rfl; rw [L.hcl] at hd'; cases hd'
  refine ⟨?_, get_write_eq (lt_size_of_getElem? L.hcl), ?_, ?_, ?_⟩
  · rw [get_write_ne n1]; exact L.hx
  · rw [get_write_ne n2]; exact L.hhd
  · rw [get_write_ne n3]; exact L.hgr
  · apply readIntsAll_append (readIntsAll_write L.hcs L.hcl (by intro ys h; cases h))
    simp [readIntsAll, readInts, get_write_ne n4, hd']

/-- E1  `add_clause` = the pure `CNF.addClause` on the snapshot -/
theorem snap_addClauseVals {s : Store} {x : Nat} {R : Snap} (h : snap s x = some R) (xs : List Int) (check : Bool) :
    match R.cnf.addClause xs check with
    | .ok G => (addClauseVals s x xs check).2 = .ok () ∧
        snap (addClauseVals s x xs check).1 x = some { R with numvar := G.nvars, clauses := G.clauses }
    | .error e => (addClauseVals s x xs check).2 = .error e ∧ snap (addClauseVals s x xs check).1 x = some R := by
  obtain ⟨cl, hd, gr, as, L⟩ := layout_of_snap h
  have L1 := layout_alloc L (.ints xs)
  have hd1 : (alloc s (.ints xs)).1[s.size]? = some (.ints xs) := get_alloc_eq
  unfold addClauseVals CNF.addClause
  simp only [readCNF, L.hx, Snap.cnf, alloc]
  by_cases he : xs.isEmpty = true
  · have hx0 : xs = [] := by simpa using he
    subst hx0
    simp only [List.isEmpty_nil, if_true]
    exact ⟨by first | rfl | trivial, (layout_append L1 s.size [] hd1).snap⟩
  · simp only [he]
    cases check with
    | false => exact ⟨by first | rfl | trivial, (layout_append L1 s.size xs hd1).snap⟩
    | true =>
      simp only [if_true]
      cases hc : checkLits R.numvar xs with
      | error e => exact ⟨by first | rfl | trivial, L1.snap⟩
      | ok nv' =>
        simp only []
        refine ⟨by first | rfl | trivial, ?_⟩
        have L2 := snap_write_numvar L1 nv'
        have hd2 : (write (alloc s (.ints xs)).1 x (.cnf cl hd gr nv'))[s.size]? = some (.ints xs) := by
          rw [get_write_ne (by have := lt_size_of_getElem? L.hx; omega)]; exact hd1
        exact (layout_append L2 s.size xs hd2).snap

/-- the snapshot after a block of checked `add_clause` calls = `Subst.addAll` on the snapshot -/
theorem snap_addAllVals_true {x : Nat} : ∀ (cs : List (List Int)) (s : Store) (R : Snap), snap s x = some R →
    match Subst.addAll R.cnf cs with
    | .ok G => (addAllVals s x true cs).2 = .ok () ∧
        snap (addAllVals s x true cs).1 x = some { R with numvar := G.nvars, clauses := G.clauses }
    | .error e => (addAllVals s x true cs).2 = .error e
  | [], s, R, h => by simpa [Subst.addAll, addAllVals, Snap.cnf] using h
  | c :: cs, s, R, h => by
    have h1 := snap_addClauseVals h c true
    unfold Subst.addAll addAllVals
    rcases hp : addClauseVals s x c true with ⟨s1, r⟩
    rw [hp] at h1
    cases hc : R.cnf.addClause c true with
    | error e =>
      simp only [hc] at h1 ⊢
      obtain ⟨e1, _⟩ := h1
      subst e1; rfl
    | ok G =>
      simp only [hc] at h1 ⊢
      obtain ⟨e1, e2⟩ := h1
      subst e1
      have ih := snap_addAllVals_true cs s1 _ e2
      simp only [Snap.cnf] at ih ⊢
      cases hr : Subst.addAll G cs with
      | error e => simp only [hr] at ih ⊢; exact ih
      | ok G' => simp only [hr] at ih ⊢; exact ih

/-- unchecked `add_clause` calls only append -/
theorem snap_addAllVals_false {x : Nat} : ∀ (cs : List (List Int)) (s : Store) (R : Snap), snap s x = some R →
    (addAllVals s x false cs).2 = .ok () ∧
      snap (addAllVals s x false cs).1 x = some { R with clauses := R.clauses ++ cs }
  | [], s, R, h => by simpa [addAllVals] using h
  | c :: cs, s, R, h => by
    have h1 := snap_addClauseVals h c false
    have hp : R.cnf.addClause c false = .ok ⟨R.numvar, R.clauses ++ [c]⟩ := by
      unfold CNF.addClause Snap.cnf
      by_cases he : c.isEmpty = true
      · have : c = [] := by simpa using he
        subst this; simp
      · simp [he]
    simp only [hp] at h1
    unfold addAllVals
    rcases hq : addClauseVals s x c false with ⟨s1, r⟩
    rw [hq] at h1
    obtain ⟨e1, e2⟩ := h1
    simp only [] at e1 e2
    subst e1
    have ih := snap_addAllVals_false cs s1 _ e2
    simpa [List.append_assoc] using ih

end Heap
end Cnfgen
