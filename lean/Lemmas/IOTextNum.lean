/-
Character level, numbers: what the writers print for an integer (`natStr`, `intStr`, `intStrPlus`,
`x<n>`, `~x<n>`) is read back by the lexer (`pyInt?`, `xvar?`, `classify`) as that integer —
for every integer below CPython's limit of `maxStrDigits` decimal digits; and beyond that limit the
printed digits are NOT read as a number (so the bound in the round-trip theorems is necessary).
-/
import Lemmas.IOLex
namespace Cnfgen.IO

/-! ### the decimal printer -/

theorem ioNatStrAux_append (f n : Nat) (acc : Str) : natStrAux f n acc = natStrAux f n [] ++ acc := by
  induction f generalizing n acc with
  | zero => rfl
  | succ f ih =>
    simp only [natStrAux]
    split
    · rfl
    · rw [ih (n / 10) (digitChar (n % 10) :: acc), ih (n / 10) [digitChar (n % 10)]]
      simp

theorem ioNatStrAux_fuel (f f' n : Nat) (h : n < f) (h' : n < f') : natStrAux f n [] = natStrAux f' n [] := by
  induction f generalizing f' n with
  | zero => omega
  | succ f ih =>
    cases f' with
    | zero => omega
    | succ f' =>
      simp only [natStrAux]
      split
      · rfl
      · rw [ioNatStrAux_append f, ioNatStrAux_append f', ih f' (n / 10) (by omega) (by omega)]

/-- one digit -/
theorem ioNatStr_lt10 {n : Nat} (h : n < 10) : natStr n = [digitChar n] := by
  simp [natStr, natStrAux, h]

/-- `str(n) = str(n // 10) + digit(n % 10)` -/
theorem ioNatStr_ge10 {n : Nat} (h : 10 ≤ n) : natStr n = natStr (n / 10) ++ [digitChar (n % 10)] := by
  have hn : ¬ n < 10 := by omega
  have h1 : natStr n = natStrAux n (n / 10) [digitChar (n % 10)] := by
    simp only [natStr, natStrAux, hn, if_false]
  rw [h1, ioNatStrAux_append, ioNatStrAux_fuel n (n / 10 + 1) (n / 10) (by omega) (by omega)]
  rfl

/-- a decimal ASCII digit -/
def IsDigit (c : Char) : Prop := 48 ≤ c.toNat ∧ c.toNat ≤ 57

theorem digitChar_isDigit : ∀ d, d < 10 → IsDigit (digitChar d) ∧ (digitChar d).toNat - 48 = d := by
  unfold IsDigit; decide

theorem digit?_of_isDigit {c : Char} (h : IsDigit c) : digit? c = some (c.toNat - 48) := by
  simp [digit?, h.1, h.2]

theorem isDigit_ne {c : Char} (h : IsDigit c) :
    isSpace c = false ∧ c ≠ '_' ∧ c ≠ '-' ∧ c ≠ '+' ∧ c ≠ 'x' ∧ c ≠ '~' ∧ c ≠ '\n' ∧ c ≠ '\r' := by
  have hs : isSpace c = false := by
    unfold isSpace wsCodes
    have h1 := h.1; have h2 := h.2
    simp only [List.contains_cons, List.contains_nil, Bool.or_false, Bool.or_eq_false_iff, beq_eq_false_iff_ne, ne_eq]
    omega
  refine ⟨hs, ?_, ?_, ?_, ?_, ?_, ?_, ?_⟩ <;> (intro e; subst e; revert h; unfold IsDigit; decide)

/-- value of a digit string read left to right, starting from `acc` -/
def digitsFrom (acc : Nat) (s : Str) : Nat := s.foldl (fun a c => a * 10 + (c.toNat - 48)) acc

theorem natStr_digits (n : Nat) : (∀ c ∈ natStr n, IsDigit c) ∧ natStr n ≠ [] ∧ digitsFrom 0 (natStr n) = n := by
  induction n using Nat.strongRecOn with
  | _ n ih =>
    by_cases h : n < 10
    · rw [ioNatStr_lt10 h]
      have := digitChar_isDigit n h
      refine ⟨by simpa using this.1, by simp, by simp [digitsFrom, this.2]⟩
    · rw [ioNatStr_ge10 (by omega)]
      obtain ⟨h1, _, h3⟩ := ih (n / 10) (by omega)
      have := digitChar_isDigit (n % 10) (by omega)
      refine ⟨?_, by simp, ?_⟩
      · intro c hc
        rcases List.mem_append.1 hc with e | e
        · exact h1 c e
        · simp at e; subst e; exact this.1
      · unfold digitsFrom at h3 ⊢
        rw [List.foldl_append, h3]
        simp only [List.foldl_cons, List.foldl_nil, this.2]
        omega

/-- the number of digits printed: at most `k` exactly for the numbers below `10^k` -/
theorem natStr_length_le (n : Nat) : ∀ k, 1 ≤ k → ((natStr n).length ≤ k ↔ n < 10 ^ k) := by
  induction n using Nat.strongRecOn with
  | _ n ih =>
    intro k hk
    by_cases h : n < 10
    · rw [ioNatStr_lt10 h]
      have : 10 ^ 1 ≤ 10 ^ k := Nat.pow_le_pow_right (by omega) hk
      simp only [List.length_singleton]
      constructor
      · intro _; omega
      · intro _; exact hk
    · rw [ioNatStr_ge10 (by omega)]
      simp only [List.length_append, List.length_singleton]
      have hne : (natStr (n / 10)).length ≥ 1 := by
        have := (natStr_digits (n / 10)).2.1
        cases hs : natStr (n / 10) with
        | nil => exact absurd hs this
        | cons _ _ => simp
      by_cases hk1 : k = 1
      · subst hk1
        constructor
        · intro hh; omega
        · intro hh; simp at hh; omega
      · obtain ⟨j, rfl⟩ : ∃ j, k = j + 1 := ⟨k - 1, by omega⟩
        have := ih (n / 10) (by omega) j (by omega)
        rw [Nat.pow_succ]
        constructor
        · intro hh
          have := this.1 (by omega)
          omega
        · intro hh
          have := this.2 (by omega)
          omega

/-! ### the scanner of `int()` on what the printer prints -/

theorem scanDigits_digits : ∀ (s : Str) (acc nd : Nat) (prev : Bool), (∀ c ∈ s, IsDigit c) → s ≠ [] →
    scanDigits acc nd prev s = some (digitsFrom acc s, nd + s.length)
  | [], _, _, _, _, h => absurd rfl h
  | c :: cs, acc, nd, prev, hd, _ => by
    have hc : IsDigit c := hd c (by simp)
    have hne := isDigit_ne hc
    unfold scanDigits
    rw [if_neg hne.2.1, digit?_of_isDigit hc]
    simp only
    cases cs with
    | nil => simp [scanDigits, digitsFrom]
    | cons d ds =>
      rw [scanDigits_digits (d :: ds) _ _ true (fun x hx => hd x (by simp [hx])) (by simp)]
      simp [digitsFrom]; omega

theorem scanDigits_natStr (n : Nat) : scanDigits 0 0 false (natStr n) = some (n, (natStr n).length) := by
  obtain ⟨h1, h2, h3⟩ := natStr_digits n
  rw [scanDigits_digits _ 0 0 false h1 h2, h3]; simp

/-- no blank among the characters -/
def NoWS (s : Str) : Prop := ∀ c ∈ s, isSpace c = false

theorem dropWhile_noWS : ∀ (s : Str), NoWS s → s.dropWhile isSpace = s
  | [], _ => rfl
  | c :: cs, h => by simp [List.dropWhile, h c (by simp)]

theorem strip_noWS (s : Str) (h : NoWS s) : strip s = s := by
  unfold strip
  rw [dropWhile_noWS s h, dropWhile_noWS s.reverse (fun c hc => h c (by simpa using hc))]
  simp

theorem natStr_noWS (n : Nat) : NoWS (natStr n) := fun c hc => (isDigit_ne ((natStr_digits n).1 c hc)).1

theorem natStr_cons (n : Nat) : ∃ c cs, natStr n = c :: cs ∧ IsDigit c := by
  obtain ⟨h1, h2, _⟩ := natStr_digits n
  cases hs : natStr n with
  | nil => exact absurd hs h2
  | cons c cs => exact ⟨c, cs, rfl, h1 c (by rw [hs]; simp)⟩

/-- `int(str(n)) == n` below the digit limit -/
theorem pyInt_natStr (n : Nat) (h : n < 10 ^ maxStrDigits) : pyInt? (natStr n) = some (n : Int) := by
  obtain ⟨c, cs, hs, hc⟩ := natStr_cons n
  have hne := isDigit_ne hc
  have hlen : ¬ (natStr n).length > maxStrDigits := by
    have := (natStr_length_le n maxStrDigits (by decide)).2 h; omega
  unfold pyInt?
  rw [strip_noWS _ (natStr_noWS n)]
  have hsc := scanDigits_natStr n
  rw [hs] at hsc hlen ⊢
  simp only [hne.2.2.1, hne.2.2.2.1, if_false, hsc, hlen]
  simp

/-- `int('-' + str(n)) == -n` -/
theorem pyInt_neg_natStr (n : Nat) (h : n < 10 ^ maxStrDigits) : pyInt? ('-' :: natStr n) = some (-(n : Int)) := by
  have hlen : ¬ (natStr n).length > maxStrDigits := by
    have := (natStr_length_le n maxStrDigits (by decide)).2 h; omega
  have hw : NoWS ('-' :: natStr n) := by
    intro c hc; rcases List.mem_cons.1 hc with e | e
    · subst e; decide
    · exact natStr_noWS n c e
  unfold pyInt?
  rw [strip_noWS _ hw]
  simp only [if_true, scanDigits_natStr n, hlen]
  simp

/-- `int('+' + str(n)) == n` -/
theorem pyInt_plus_natStr (n : Nat) (h : n < 10 ^ maxStrDigits) : pyInt? ('+' :: natStr n) = some (n : Int) := by
  have hlen : ¬ (natStr n).length > maxStrDigits := by
    have := (natStr_length_le n maxStrDigits (by decide)).2 h; omega
  have hw : NoWS ('+' :: natStr n) := by
    intro c hc; rcases List.mem_cons.1 hc with e | e
    · subst e; decide
    · exact natStr_noWS n c e
  have hpm : ¬ ('+' = '-') := by decide
  unfold pyInt?
  rw [strip_noWS _ hw]
  simp only [hpm, if_true, if_false, scanDigits_natStr n, hlen]
  simp

/-- (a) `int(str(z)) == z` for every integer with at most `maxStrDigits` digits -/
theorem pyInt_intStr (z : Int) (h : z.natAbs < 10 ^ maxStrDigits) : pyInt? (intStr z) = some z := by
  unfold intStr
  split
  · rw [pyInt_neg_natStr _ h]; congr 1; omega
  · rw [pyInt_natStr _ h]; congr 1; omega

/-- `int('{:+}'.format(z)) == z` -/
theorem pyInt_intStrPlus (z : Int) (h : z.natAbs < 10 ^ maxStrDigits) : pyInt? (intStrPlus z) = some z := by
  unfold intStrPlus
  split
  · rw [pyInt_neg_natStr _ h]; congr 1; omega
  · rw [pyInt_plus_natStr _ h]; congr 1; omega

theorem classify_natStr (n : Nat) (h : n < 10 ^ maxStrDigits) : classify (natStr n) = .int (n : Int) := by
  simp [classify, pyInt_natStr n h]

theorem classify_intStr (z : Int) (h : z.natAbs < 10 ^ maxStrDigits) : classify (intStr z) = .int z := by
  simp [classify, pyInt_intStr z h]

theorem classify_intStrPlus (z : Int) (h : z.natAbs < 10 ^ maxStrDigits) : classify (intStrPlus z) = .int z := by
  simp [classify, pyInt_intStrPlus z h]

theorem intStr_noWS (z : Int) : NoWS (intStr z) ∧ intStr z ≠ [] := by
  unfold intStr
  split
  · refine ⟨?_, by simp⟩
    intro c hc; rcases List.mem_cons.1 hc with e | e
    · subst e; decide
    · exact natStr_noWS _ c e
  · exact ⟨natStr_noWS _, (natStr_digits _).2.1⟩

theorem intStrPlus_noWS (z : Int) : NoWS (intStrPlus z) ∧ intStrPlus z ≠ [] := by
  unfold intStrPlus
  split <;> refine ⟨?_, by simp⟩ <;>
  · intro c hc; rcases List.mem_cons.1 hc with e | e
    · subst e; decide
    · exact natStr_noWS _ c e

theorem intStr_noNL (z : Int) : NoNL (intStr z) := by
  unfold intStr
  split
  · intro c hc; rcases List.mem_cons.1 hc with e | e
    · subst e; decide
    · exact natStr_noNL _ c e
  · exact natStr_noNL _

theorem intStrPlus_noNL (z : Int) : NoNL (intStrPlus z) := by
  unfold intStrPlus
  split <;>
  · intro c hc; rcases List.mem_cons.1 hc with e | e
    · subst e; decide
    · exact natStr_noNL _ c e

/-! ### OPB variable tokens -/

theorem plainNat_natStr (n : Nat) (h : n < 10 ^ maxStrDigits) : plainNat? (natStr n) = some n := by
  have hlen : ¬ (natStr n).length > maxStrDigits := by
    have := (natStr_length_le n maxStrDigits (by decide)).2 h; omega
  have hc : ¬ '_' ∈ natStr n := by
    intro hm
    exact (isDigit_ne ((natStr_digits n).1 _ hm)).2.1 rfl
  simp [plainNat?, hc, scanDigits_natStr n, hlen]

/-- a token starting with `x` or `~` is not accepted by `int()` -/
theorem pyInt_x (c : Char) (r : Str) (hc : c = 'x' ∨ c = '~') (hw : NoWS r) : pyInt? (c :: r) = none := by
  have hw' : NoWS (c :: r) := by
    intro d hd; rcases List.mem_cons.1 hd with e | e
    · subst e; rcases hc with rfl | rfl <;> decide
    · exact hw d e
  unfold pyInt?
  rw [strip_noWS _ hw']
  rcases hc with rfl | rfl <;> simp [scanDigits, digit?]

/-- `x<n>` is read as the positive literal of variable `n` -/
theorem classify_x (n : Nat) (h : n < 10 ^ maxStrDigits) : classify ('x' :: natStr n) = .xvar false n := by
  simp [classify, pyInt_x 'x' _ (Or.inl rfl) (natStr_noWS n), xvar?, plainNat_natStr n h]

/-- `~x<n>` is read as the negative literal of variable `n` -/
theorem classify_negx (n : Nat) (h : n < 10 ^ maxStrDigits) : classify ('~' :: 'x' :: natStr n) = .xvar true n := by
  have hw : NoWS ('x' :: natStr n) := by
    intro c hc; rcases List.mem_cons.1 hc with e | e
    · subst e; decide
    · exact natStr_noWS n c e
  simp [classify, pyInt_x '~' _ (Or.inr rfl) hw, xvar?, plainNat_natStr n h]

theorem opbLitText_eq (l : Int) :
    opbLitText l = if l < 0 then '~' :: 'x' :: natStr l.natAbs else 'x' :: natStr l.natAbs := by
  unfold opbLitText intStr
  by_cases h : l < 0
  · have h1 : ¬ l ≥ 0 := by omega
    have h2 : ¬ (-l < 0) := by omega
    simp only [h1, h2, h, if_true, if_false]
    congr 3; omega
  · have h1 : l ≥ 0 := by omega
    simp only [h1, h, if_true, if_false]

theorem classify_opbLit (l : Int) (h : l.natAbs < 10 ^ maxStrDigits) : classify (opbLitText l) = opbLitTok l := by
  rw [opbLitText_eq]
  unfold opbLitTok
  split
  · rename_i hl; rw [classify_negx _ h]; simp [hl]
  · rename_i hl; rw [classify_x _ h]; simp [hl]

theorem opbLitText_noWS (l : Int) : NoWS (opbLitText l) ∧ opbLitText l ≠ [] := by
  rw [opbLitText_eq]
  split <;> refine ⟨?_, by simp⟩
  · intro c hc
    rcases List.mem_cons.1 hc with e | e
    · subst e; decide
    · rcases List.mem_cons.1 e with e | e
      · subst e; decide
      · exact natStr_noWS _ c e
  · intro c hc
    rcases List.mem_cons.1 hc with e | e
    · subst e; decide
    · exact natStr_noWS _ c e

theorem opbLitText_noNL (l : Int) : NoNL (opbLitText l) := by
  rw [opbLitText_eq]
  split
  · intro c hc
    rcases List.mem_cons.1 hc with e | e
    · subst e; decide
    · rcases List.mem_cons.1 e with e | e
      · subst e; decide
      · exact natStr_noNL _ c e
  · intro c hc
    rcases List.mem_cons.1 hc with e | e
    · subst e; decide
    · exact natStr_noNL _ c e

/-! ### beyond the limit -/

/-- a number of more than `maxStrDigits` digits is not read as a number: the token is a plain word
(CPython's `str()` would not even print it) -/
theorem classify_natStr_big (n : Nat) (h : 10 ^ maxStrDigits ≤ n) : classify (natStr n) = .word (natStr n) := by
  obtain ⟨c, cs, hs, hc⟩ := natStr_cons n
  have hne := isDigit_ne hc
  have hlen : (natStr n).length > maxStrDigits := by
    have := (natStr_length_le n maxStrDigits (by decide)).1
    by_cases hh : (natStr n).length ≤ maxStrDigits
    · have := this hh; omega
    · omega
  have h1 : pyInt? (natStr n) = none := by
    unfold pyInt?
    rw [strip_noWS _ (natStr_noWS n)]
    have hsc := scanDigits_natStr n
    rw [hs] at hsc hlen ⊢
    simp only [hne.2.2.1, hne.2.2.2.1, if_false, hsc, hlen]
    simp
  have h2 : xvar? (natStr n) = none := by
    rw [hs]; simp [xvar?, hne.2.2.2.2.1, hne.2.2.2.2.2.1]
  simp [classify, h1, h2]

/-- small numbers are below the limit (for concrete examples) -/
theorem lt_limit_of_le {n : Nat} (h : n ≤ maxStrDigits) : n < 10 ^ maxStrDigits :=
  Nat.lt_of_le_of_lt h (Nat.lt_pow_self (by decide))

/-- numbers below `10^k`, `k ≤ maxStrDigits`, are below the limit -/
theorem lt_limit_of_lt_pow {n : Nat} (k : Nat) (hk : k ≤ maxStrDigits) (h : n < 10 ^ k) : n < 10 ^ maxStrDigits :=
  Nat.lt_of_lt_of_le h (Nat.pow_le_pow_right (by decide) hk)

end Cnfgen.IO
