/-
The `--plant` option of `cnfgen randkcnf|randkxor`: the drawn assignment is total and consistent.
-/
import Lemmas.RandKXOR
namespace Cnfgen.Rand
open Cnfgen

theorem plantFrom_ok {vs : List Int} {ds ds' : List Draw} {a : List Int} (hL : Legal ds)
    (h : plantFrom vs ds = .ok (a, ds')) :
    a.map Int.natAbs = vs.map Int.natAbs ∧ (∀ v ∈ vs, v ∈ a ∨ -v ∈ a) ∧ Legal ds' := by
  induction vs generalizing ds a with
  | nil =>
    have := RandM.pure_eq_ok.1 h
    simp only [Prod.mk.injEq] at this
    obtain ⟨rfl, rfl⟩ := this
    exact ⟨rfl, by simp, hL⟩
  | cons v vs ih =>
    unfold plantFrom at h
    obtain ⟨s, ds1, h1, h2⟩ := RandM.bind_eq_ok.1 h
    obtain ⟨rest, ds2, h3, h4⟩ := RandM.bind_eq_ok.1 h2
    have h4' := RandM.pure_eq_ok.1 h4
    simp only [Prod.mk.injEq] at h4'
    obtain ⟨rfl, rfl⟩ := h4'
    obtain ⟨i, rfl, hs⟩ := choiceFrom_ok h1
    obtain ⟨hd, hL1⟩ := Legal.cons.1 hL
    obtain ⟨e1, e2, hL2⟩ := ih hL1 h3
    have hi : i < 2 := hd
    have hs' : s = -1 ∨ s = 1 := by
      rw [hs]
      rcases (by omega : i = 0 ∨ i = 1) with rfl | rfl <;> simp
    refine ⟨?_, ?_, hL2⟩
    · simp only [List.map_cons, List.cons.injEq]
      refine ⟨?_, e1⟩
      rcases hs' with rfl | rfl <;> simp
    · intro w hw
      rcases List.mem_cons.1 hw with rfl | hw
      · rcases hs' with rfl | rfl
        · right; simp
        · left; simp
      · rcases e2 w hw with h' | h'
        · left; simp [h']
        · right; simp [h']

theorem consistent_of_natAbs_nodup {a : List Int} (hn : (a.map Int.natAbs).Nodup) (hz : ∀ l ∈ a, l ≠ 0) :
    Consistent a := by
  intro l hl hneg
  have := List.inj_on_of_nodup_map hn hl hneg (by simp)
  have := hz l hl
  omega

theorem plantAssignment_ok {n : Nat} {ds ds' : List Draw} {a : List Int} (hL : Legal ds)
    (h : plantAssignment n ds = .ok (a, ds')) : TotalOn n a ∧ Consistent a ∧ Legal ds' := by
  obtain ⟨e1, e2, hL'⟩ := plantFrom_ok hL h
  refine ⟨fun v h1 h2 => e2 v (mem_vars.2 ⟨h1, h2⟩), ?_, hL'⟩
  have hpos := fun v (hv : v ∈ vars n) => (mem_vars.1 hv).1
  apply consistent_of_natAbs_nodup
  · rw [e1]
    refine (vars_nodup n).map_on ?_
    intro x hx y hy hxy
    have := hpos x hx; have := hpos y hy; omega
  · intro l hl h0
    have : l.natAbs ∈ a.map Int.natAbs := List.mem_map_of_mem hl
    rw [e1, List.mem_map] at this
    obtain ⟨v, hv, hvl⟩ := this
    have := hpos v hv
    omega

theorem cliRandKCNF_eq (plant : Bool) (k n m : Nat) (ds : List Draw) :
    cliRandKCNF plant k n m ds =
      if plant then
        match plantAssignment n ds with
        | .error e => .error e
        | .ok (a, ds') => randomKCNF (fun _ => []) k n m none [a] ds'
      else randomKCNF (fun _ => []) k n m none [] ds := by
  unfold cliRandKCNF
  cases plant
  · rfl
  · simp only [if_true]
    rw [RandM.bind_apply]
    cases plantAssignment n ds with
    | error e => rfl
    | ok p => cases p; rfl

theorem cliRandKXORSys_eq (plant : Bool) (k n m : Nat) (ds : List Draw) :
    cliRandKXORSys plant k n m ds =
      if plant then
        match plantAssignment n ds with
        | .error e => .error e
        | .ok (a, ds') => randomKXORSys (fun _ => []) k n m none [a] ds'
      else randomKXORSys (fun _ => []) k n m none [] ds := by
  unfold cliRandKXORSys
  cases plant
  · rfl
  · simp only [if_true]
    rw [RandM.bind_apply]
    cases plantAssignment n ds with
    | error e => rfl
    | ok p => cases p; rfl

end Cnfgen.Rand
