/-
Helper lemmas for the translated family generators (`Props/C01/Generated.lean` …): the formula effect object
(`Core/PyFormula.lean`), the translated `VariablesManager` procedures on a unary / sparse mapping, as the model's
`SMap` describes them.
-/
import Props.C11.GeneratedWrap
import CnfgenModel.Fam.Mapping
import Lemmas.C01Complete
set_option linter.unusedSimpArgs false
namespace Cnfgen.GenFam
open Cnfgen Cnfgen.Vars Cnfgen.PyGen Cnfgen.GenVars Cnfgen.C11 Cnfgen.Fam Cnfgen.PyF

/-! ### the formula object -/

@[simp] theorem add_clause_nocheck (s : FState) (c : List Int) :
    PyF.add_clause s c false = Except.ok (push s (.clause c)) := rfl

@[simp] theorem cardinality_leq_nocheck (s : FState) (l : List Int) (v : Int) :
    PyF.cardinality_leq s l v false = Except.ok (push s (.lin l .le v)) := rfl

@[simp] theorem cardinality_eq_nocheck (s : FState) (l : List Int) (v : Int) :
    PyF.cardinality_eq s l v false = Except.ok (push s (.lin l .eq v)) := rfl

@[simp] theorem cardinality_geq_nocheck (s : FState) (l : List Int) (v : Int) :
    PyF.cardinality_geq s l v false = Except.ok (push s (.lin l .ge v)) := rfl

/-- a loop that adds one constraint per element -/
theorem foldlM_push {α : Type} (xs : List α) (body : FState → α → Except Err FState) (c : α → Con)
    (h : ∀ s x, x ∈ xs → body s x = Except.ok (push s (c x))) (s : FState) :
    List.foldlM body s xs = Except.ok { s with cons := s.cons ++ xs.map c } := by
  induction xs generalizing s with
  | nil => simp
  | cons x xs ih =>
    rw [List.foldlM_cons, h s x (by simp), Py.ok_bind, ih (fun s y hy => h s y (by simp [hy]))]
    simp [push]

/-! ### rows and columns of a sparse mapping through the translated `__call__` -/

theorem unary_call_row (nv : Nat) {G : BipG} (h : G.WF) (x : Nat) (hx : 1 ≤ x ∧ x ≤ G.l) :
    UnaryMappingVariables.call (unarySelf nv G) [some (x : Int), none] =
      Except.ok (Sum.inr ((SMap.mk G (nv + 1)).row x)) := by
  rw [gen_unary_call_eq_model nv h]
  have hx' : (1 : Int) ≤ (x : Int) ∧ (x : Int) ≤ (G.l : Int) := by omega
  simp [Group.call, Group.baseCall, Group.indices, bipIndices, hx', isProjection, resSum, pairList, Group.unsafeId,
    SMap.row, SMap.lit, SMap.var, ints, bind, Except.bind, pure, Except.pure]

theorem unary_call_col (nv : Nat) {G : BipG} (h : G.WF) (y : Nat) (hy : 1 ≤ y ∧ y ≤ G.r) :
    UnaryMappingVariables.call (unarySelf nv G) [none, some (y : Int)] =
      Except.ok (Sum.inr ((SMap.mk G (nv + 1)).col y)) := by
  rw [gen_unary_call_eq_model nv h]
  have hy' : (1 : Int) ≤ (y : Int) ∧ (y : Int) ≤ (G.r : Int) := by omega
  simp [Group.call, Group.baseCall, Group.indices, bipIndices, hy', isProjection, resSum, pairList, Group.unsafeId,
    SMap.col, SMap.lit, SMap.var, ints, bind, Except.bind, pure, Except.pure]

/-! ### registering a group, `new_mapping` / `new_sparse_mapping`-style creation -/

theorem unary_ids (nv : Nat) (G : BipG) :
    (unarySelf nv G).ids = ⟨(nv : Int) + 1, (nv : Int) + (G.numberOfEdges : Nat) + 1⟩ := rfl

theorem range_len' (a : Int) (n : Nat) : Py.Range.len ⟨a + 1, a + (n : Int) + 1⟩ = (n : Int) := by
  simp only [Py.Range.len]
  by_cases h : a + (n : Int) + 1 ≤ a + 1
  · rw [if_pos h]; omega
  · rw [if_neg h]; omega

theorem range_get_first (a : Int) (n : Nat) (hn : 0 < n) : Py.Range.get ⟨a + 1, a + (n : Int) + 1⟩ 0 = Except.ok (a + 1) := by
  unfold Py.Range.get
  rw [range_len']
  have h1 : (0 : Int) < (n : Int) := by omega
  simp [h1]
  omega

theorem range_get_last (a : Int) (n : Nat) (hn : 0 < n) :
    Py.Range.get ⟨a + 1, a + (n : Int) + 1⟩ (-1) = Except.ok (a + (n : Int)) := by
  unfold Py.Range.get
  rw [range_len']
  have h0 : ¬ ((0 : Int) ≤ -1) := by omega
  have h1 : (-(-1 : Int)) ≤ (n : Int) := by omega
  rw [if_neg h0, if_pos h1]
  congr 1
  show a + 1 + (n : Int) + -1 = a + (n : Int)
  omega

/-- `_add_variable_group(vg)` for the group just created on a formula with `nv` variables: the count is raised to
the last identifier of the group (an empty group changes nothing; the overlap test and the `assert` cannot fire) -/
theorem add_variable_group_unary_eq (s : FState) (nv : Nat) (G : BipG) (hs : s.numvar = nv) :
    VariablesManager.add_variable_group_unary s (unarySelf nv G) =
      Except.ok { s with numvar := ((nv + G.numberOfEdges : Nat) : Int) } := by
  simp only [VariablesManager.add_variable_group_unary, UnaryMappingVariables.len, UnaryMappingVariables.getitem,
    unary_ids, range_len']
  by_cases hE : G.numberOfEdges = 0
  · have : ((G.numberOfEdges : Nat) : Int) = 0 := by omega
    rw [if_pos this]
    cases s
    simp only at hs
    simp [hs, hE]
  · have h0 : ¬ (((G.numberOfEdges : Nat) : Int) = 0) := by omega
    rw [if_neg h0, range_get_first _ _ (by omega), range_get_last _ _ (by omega)]
    simp only [Py.ok_bind, PyF.number_of_variables, PyF.update_variable_number, hs]
    have h1 : (nv : Int) + ((G.numberOfEdges : Nat) : Int) ≥ (nv : Int) + 1 := by omega
    have h2 : ¬ ((nv : Int) + 1 ≤ (nv : Int)) := by omega
    have h3 : ¬ ((nv : Int) + ((G.numberOfEdges : Nat) : Int) < 0) := by omega
    have h4 : (nv : Int) + ((G.numberOfEdges : Nat) : Int) > (nv : Int) := by omega
    simp only [h1, if_true, h2, if_false, h3, h4]
    congr 2

/-- `new_mapping(n, m, label)` on a formula with `nv` variables: the sign checks, the label check of the group
constructor, then the unary mapping over the complete bipartite graph and `n·m` more variables -/
theorem new_mapping_eq (s : FState) (nv : Nat) (hs : s.numvar = nv) (n m : Int) (out : Except Err Unit) :
    VariablesManager.new_mapping s n m out =
      if n < 0 ∨ m < 0 then Except.error Err.valueError
      else Py.tryExcept out Err.indexError (Except.error Err.valueError) (fun _ =>
        Except.ok (unarySelf nv (BipG.complete n.toNat m.toNat),
          { s with numvar := ((nv + n.toNat * m.toNat : Nat) : Int) })) := by
  unfold VariablesManager.new_mapping
  by_cases h : n < 0 ∨ m < 0
  · rw [if_pos h, if_pos h]
  · rw [if_neg h, if_neg h]
    simp only [absCompleteBip, if_neg h, Py.ok_bind, hs]
    rw [gen_unary_init_eq nv (BipG.wf_complete _ _)]
    cases out with
    | error e => simp only [Py.tryExcept]; split <;> rfl
    | ok u =>
      simp only [Py.tryExcept, Py.ok_bind]
      rw [add_variable_group_unary_eq s nv _ hs, Py.ok_bind, numberOfEdges_complete]

theorem range'_eq_idx (n : Nat) : List.range' 1 n = idx n := by
  simp [idx, rangeN_eq_range']

theorem force_complete_unary_eq (s : FState) (nv : Nat) {G : BipG} (h : G.WF) :
    VariablesManager.force_complete_mapping_unary s (unarySelf nv G) =
      Except.ok { s with cons := s.cons ++ (SMap.mk G (nv + 1)).forceComplete } := by
  simp only [VariablesManager.force_complete_mapping_unary, gen_unary_domain_none, Py.ok_bind, range'_eq_idx]
  rw [foldlM_push (ints (idx G.l)) _ (fun x => Con.clause ((SMap.mk G (nv + 1)).row x.toNat))]
  · simp [SMap.forceComplete, ints, List.map_map, Function.comp_def]
  · intro s x hx
    simp only [ints, List.mem_map] at hx
    obtain ⟨a, ha, rfl⟩ := hx
    rw [mem_idx] at ha
    simp only [Int.ofNat_eq_natCast, unary_call_row nv h a ha, Py.ok_bind, add_clause_nocheck, Int.toNat_natCast]

theorem force_functional_unary_eq (s : FState) (nv : Nat) {G : BipG} (h : G.WF) :
    VariablesManager.force_functional_mapping_unary s (unarySelf nv G) =
      Except.ok { s with cons := s.cons ++ (SMap.mk G (nv + 1)).forceFunctional } := by
  simp only [VariablesManager.force_functional_mapping_unary, gen_unary_domain_none, Py.ok_bind, range'_eq_idx]
  rw [foldlM_push (ints (idx G.l)) _ (fun x => Con.lin ((SMap.mk G (nv + 1)).row x.toNat) .le 1)]
  · simp [SMap.forceFunctional, ints, List.map_map, Function.comp_def]
  · intro s x hx
    simp only [ints, List.mem_map] at hx
    obtain ⟨a, ha, rfl⟩ := hx
    rw [mem_idx] at ha
    simp only [Int.ofNat_eq_natCast, unary_call_row nv h a ha, Py.ok_bind, cardinality_leq_nocheck, Int.toNat_natCast]

theorem force_surjective_unary_eq (s : FState) (nv : Nat) {G : BipG} (h : G.WF) :
    VariablesManager.force_surjective_mapping_unary s (unarySelf nv G) =
      Except.ok { s with cons := s.cons ++ (SMap.mk G (nv + 1)).forceSurjective } := by
  simp only [VariablesManager.force_surjective_mapping_unary, gen_unary_range_none, Py.ok_bind, range'_eq_idx]
  rw [foldlM_push (ints (idx G.r)) _ (fun y => Con.clause ((SMap.mk G (nv + 1)).col y.toNat))]
  · simp [SMap.forceSurjective, ints, List.map_map, Function.comp_def]
  · intro s y hy
    simp only [ints, List.mem_map] at hy
    obtain ⟨a, ha, rfl⟩ := hy
    rw [mem_idx] at ha
    simp only [Int.ofNat_eq_natCast, unary_call_col nv h a ha, Py.ok_bind, add_clause_nocheck, Int.toNat_natCast]

theorem force_injective_unary_eq (s : FState) (nv : Nat) {G : BipG} (h : G.WF) :
    VariablesManager.force_injective_mapping_unary s (unarySelf nv G) =
      Except.ok { s with cons := s.cons ++ (SMap.mk G (nv + 1)).forceInjective } := by
  simp only [VariablesManager.force_injective_mapping_unary, gen_unary_range_none, Py.ok_bind, range'_eq_idx]
  rw [foldlM_push (ints (idx G.r)) _ (fun y => Con.lin ((SMap.mk G (nv + 1)).col y.toNat) .le 1)]
  · simp [SMap.forceInjective, ints, List.map_map, Function.comp_def]
  · intro s y hy
    simp only [ints, List.mem_map] at hy
    obtain ⟨a, ha, rfl⟩ := hy
    rw [mem_idx] at ha
    simp only [Int.ofNat_eq_natCast, unary_call_col nv h a ha, Py.ok_bind, cardinality_leq_nocheck, Int.toNat_natCast]

end Cnfgen.GenFam
