/-
Helper lemmas for the translated family generators (`Props/C01/Generated.lean` …): the formula effect object
(`Core/PyFormula.lean`), the translated `VariablesManager` procedures on a unary / sparse mapping, as the model's
`SMap` describes them.
-/
import Props.C11.GeneratedWrap
import CnfgenModel.Fam.Mapping
import Lemmas.C01Complete
import Props.C11.GeneratedBinary
import Lemmas.PyFold
set_option linter.unusedSimpArgs false
namespace Cnfgen.GenFam
open Cnfgen Cnfgen.Vars Cnfgen.PyGen Cnfgen.GenVars Cnfgen.C11 Cnfgen.Fam Cnfgen.PyF

/-! ### the formula object -/

@[simp] theorem add_clause_nocheck (s : FState) (c : List Int) :
    PyF.add_clause s c false = Except.ok (push s (.clause c)) := rfl

@[simp] theorem cardinality_leq_nocheck (s : FState) (l : List Int) (v : Int) :
    PyF.cardinality_leq s l v false = Except.ok (push s (.lin l .le v)) := rfl

@[simp] theorem cardinality_eq_nocheck (s : FState) (l : List Int) (v : Int) :
    PyF.cardinality_eq s l v false = Except.ok (push s (.lin l .eq v)) := rfl

@[simp] theorem cardinality_geq_nocheck (s : FState) (l : List Int) (v : Int) :
    PyF.cardinality_geq s l v false = Except.ok (push s (.lin l .ge v)) := rfl

/-- a loop that adds one constraint per element -/
theorem foldlM_push {α : Type} (xs : List α) (body : FState → α → Except Err FState) (c : α → Con)
    (h : ∀ s x, x ∈ xs → body s x = Except.ok (push s (c x))) (s : FState) :
    List.foldlM body s xs = Except.ok { s with cons := s.cons ++ xs.map c } := by
  induction xs generalizing s with
  | nil => simp
  | cons x xs ih =>
    rw [List.foldlM_cons, h s x (by simp), Py.ok_bind, ih (fun s y hy => h s y (by simp [hy]))]
    simp [push]

/-! ### rows and columns of a sparse mapping through the translated `__call__` -/

theorem unary_call_row (nv : Nat) {G : BipG} (h : G.WF) (x : Nat) (hx : 1 ≤ x ∧ x ≤ G.l) :
    UnaryMappingVariables.call (unarySelf nv G) [some (x : Int), none] =
      Except.ok (Sum.inr ((SMap.mk G (nv + 1)).row x)) := by
  rw [gen_unary_call_eq_model nv h]
  have hx' : (1 : Int) ≤ (x : Int) ∧ (x : Int) ≤ (G.l : Int) := by omega
  simp [Group.call, Group.baseCall, Group.indices, bipIndices, hx', isProjection, resSum, pairList, Group.unsafeId,
    SMap.row, SMap.lit, SMap.var, ints, bind, Except.bind, pure, Except.pure]

theorem unary_call_col (nv : Nat) {G : BipG} (h : G.WF) (y : Nat) (hy : 1 ≤ y ∧ y ≤ G.r) :
    UnaryMappingVariables.call (unarySelf nv G) [none, some (y : Int)] =
      Except.ok (Sum.inr ((SMap.mk G (nv + 1)).col y)) := by
  rw [gen_unary_call_eq_model nv h]
  have hy' : (1 : Int) ≤ (y : Int) ∧ (y : Int) ≤ (G.r : Int) := by omega
  simp [Group.call, Group.baseCall, Group.indices, bipIndices, hy', isProjection, resSum, pairList, Group.unsafeId,
    SMap.col, SMap.lit, SMap.var, ints, bind, Except.bind, pure, Except.pure]

/-! ### registering a group, `new_mapping` / `new_sparse_mapping`-style creation -/

theorem unary_ids (nv : Nat) (G : BipG) :
    (unarySelf nv G).ids = ⟨(nv : Int) + 1, (nv : Int) + (G.numberOfEdges : Nat) + 1⟩ := rfl

theorem range_len' (a : Int) (n : Nat) : Py.Range.len ⟨a + 1, a + (n : Int) + 1⟩ = (n : Int) := by
  simp only [Py.Range.len]
  by_cases h : a + (n : Int) + 1 ≤ a + 1
  · rw [if_pos h]; omega
  · rw [if_neg h]; omega

theorem range_get_first (a : Int) (n : Nat) (hn : 0 < n) : Py.Range.get ⟨a + 1, a + (n : Int) + 1⟩ 0 = Except.ok (a + 1) := by
  unfold Py.Range.get
  rw [range_len']
  have h1 : (0 : Int) < (n : Int) := by omega
  simp [h1]
  omega

theorem range_get_last (a : Int) (n : Nat) (hn : 0 < n) :
    Py.Range.get ⟨a + 1, a + (n : Int) + 1⟩ (-1) = Except.ok (a + (n : Int)) := by
  unfold Py.Range.get
  rw [range_len']
  have h0 : ¬ ((0 : Int) ≤ -1) := by omega
  have h1 : (-(-1 : Int)) ≤ (n : Int) := by omega
  rw [if_neg h0, if_pos h1]
  congr 1
  show a + 1 + (n : Int) + -1 = a + (n : Int)
  omega

/-- `_add_variable_group(vg)` for the group just created on a formula with `nv` variables: the count is raised to
the last identifier of the group (an empty group changes nothing; the overlap test and the `assert` cannot fire) -/
theorem add_variable_group_unary_eq (s : FState) (nv : Nat) (G : BipG) (hs : s.numvar = nv) :
    VariablesManager.add_variable_group_unary s (unarySelf nv G) =
      Except.ok { s with numvar := ((nv + G.numberOfEdges : Nat) : Int) } := by
  simp only [VariablesManager.add_variable_group_unary, UnaryMappingVariables.len, UnaryMappingVariables.getitem,
    unary_ids, range_len']
  by_cases hE : G.numberOfEdges = 0
  · have : ((G.numberOfEdges : Nat) : Int) = 0 := by omega
    rw [if_pos this]
    cases s
    simp only at hs
    simp [hs, hE]
  · have h0 : ¬ (((G.numberOfEdges : Nat) : Int) = 0) := by omega
    rw [if_neg h0, range_get_first _ _ (by omega), range_get_last _ _ (by omega)]
    simp only [Py.ok_bind, PyF.number_of_variables, PyF.update_variable_number, hs]
    have h1 : (nv : Int) + ((G.numberOfEdges : Nat) : Int) ≥ (nv : Int) + 1 := by omega
    have h2 : ¬ ((nv : Int) + 1 ≤ (nv : Int)) := by omega
    have h3 : ¬ ((nv : Int) + ((G.numberOfEdges : Nat) : Int) < 0) := by omega
    have h4 : (nv : Int) + ((G.numberOfEdges : Nat) : Int) > (nv : Int) := by omega
    simp only [h1, if_true, h2, if_false, h3, h4]
    congr 2

/-- `new_mapping(n, m, label)` on a formula with `nv` variables: the sign checks, the label check of the group
constructor, then the unary mapping over the complete bipartite graph and `n·m` more variables -/
theorem new_mapping_eq (s : FState) (nv : Nat) (hs : s.numvar = nv) (n m : Int) (out : Except Err Unit) :
    VariablesManager.new_mapping s n m out =
      if n < 0 ∨ m < 0 then Except.error Err.valueError
      else Py.tryExcept out Err.indexError (Except.error Err.valueError) (fun _ =>
        Except.ok (unarySelf nv (BipG.complete n.toNat m.toNat),
          { s with numvar := ((nv + n.toNat * m.toNat : Nat) : Int) })) := by
  unfold VariablesManager.new_mapping
  by_cases h : n < 0 ∨ m < 0
  · rw [if_pos h, if_pos h]
  · rw [if_neg h, if_neg h]
    simp only [absCompleteBip, if_neg h, Py.ok_bind, hs]
    rw [gen_unary_init_eq nv (BipG.wf_complete _ _)]
    cases out with
    | error e => simp only [Py.tryExcept]; split <;> rfl
    | ok u =>
      simp only [Py.tryExcept, Py.ok_bind]
      rw [add_variable_group_unary_eq s nv _ hs, Py.ok_bind, numberOfEdges_complete]

/-- `new_sparse_mapping(B, label)` on a well-formed bipartite graph -/
theorem new_sparse_mapping_eq (s : FState) (nv : Nat) (hs : s.numvar = nv) {G : BipG} (h : G.WF) (out : Except Err Unit) :
    VariablesManager.new_sparse_mapping s (absBip G) out =
      Py.tryExcept out Err.indexError (Except.error Err.valueError) (fun _ =>
        Except.ok (unarySelf nv G, { s with numvar := ((nv + G.numberOfEdges : Nat) : Int) })) := by
  unfold VariablesManager.new_sparse_mapping
  have hb : ¬ ¬ ((absBip G).is_bipartite = true) := by simp [absBip]
  rw [if_neg hb, hs, gen_unary_init_eq nv h]
  cases out with
  | error e => simp only [Py.tryExcept]; split <;> rfl
  | ok u =>
    simp only [Py.tryExcept, Py.ok_bind]
    rw [add_variable_group_unary_eq s nv _ hs, Py.ok_bind]

theorem range'_eq_idx (n : Nat) : List.range' 1 n = idx n := by
  simp [idx, rangeN_eq_range']

theorem force_complete_unary_eq (s : FState) (nv : Nat) {G : BipG} (h : G.WF) :
    VariablesManager.force_complete_mapping_unary s (unarySelf nv G) =
      Except.ok { s with cons := s.cons ++ (SMap.mk G (nv + 1)).forceComplete } := by
  simp only [VariablesManager.force_complete_mapping_unary, gen_unary_domain_none, Py.ok_bind, range'_eq_idx]
  rw [foldlM_push (ints (idx G.l)) _ (fun x => Con.clause ((SMap.mk G (nv + 1)).row x.toNat))]
  · simp [SMap.forceComplete, ints, List.map_map, Function.comp_def]
  · intro s x hx
    simp only [ints, List.mem_map] at hx
    obtain ⟨a, ha, rfl⟩ := hx
    rw [mem_idx] at ha
    simp only [Int.ofNat_eq_natCast, unary_call_row nv h a ha, Py.ok_bind, add_clause_nocheck, Int.toNat_natCast]

theorem force_functional_unary_eq (s : FState) (nv : Nat) {G : BipG} (h : G.WF) :
    VariablesManager.force_functional_mapping_unary s (unarySelf nv G) =
      Except.ok { s with cons := s.cons ++ (SMap.mk G (nv + 1)).forceFunctional } := by
  simp only [VariablesManager.force_functional_mapping_unary, gen_unary_domain_none, Py.ok_bind, range'_eq_idx]
  rw [foldlM_push (ints (idx G.l)) _ (fun x => Con.lin ((SMap.mk G (nv + 1)).row x.toNat) .le 1)]
  · simp [SMap.forceFunctional, ints, List.map_map, Function.comp_def]
  · intro s x hx
    simp only [ints, List.mem_map] at hx
    obtain ⟨a, ha, rfl⟩ := hx
    rw [mem_idx] at ha
    simp only [Int.ofNat_eq_natCast, unary_call_row nv h a ha, Py.ok_bind, cardinality_leq_nocheck, Int.toNat_natCast]

theorem force_surjective_unary_eq (s : FState) (nv : Nat) {G : BipG} (h : G.WF) :
    VariablesManager.force_surjective_mapping_unary s (unarySelf nv G) =
      Except.ok { s with cons := s.cons ++ (SMap.mk G (nv + 1)).forceSurjective } := by
  simp only [VariablesManager.force_surjective_mapping_unary, gen_unary_range_none, Py.ok_bind, range'_eq_idx]
  rw [foldlM_push (ints (idx G.r)) _ (fun y => Con.clause ((SMap.mk G (nv + 1)).col y.toNat))]
  · simp [SMap.forceSurjective, ints, List.map_map, Function.comp_def]
  · intro s y hy
    simp only [ints, List.mem_map] at hy
    obtain ⟨a, ha, rfl⟩ := hy
    rw [mem_idx] at ha
    simp only [Int.ofNat_eq_natCast, unary_call_col nv h a ha, Py.ok_bind, add_clause_nocheck, Int.toNat_natCast]

theorem force_injective_unary_eq (s : FState) (nv : Nat) {G : BipG} (h : G.WF) :
    VariablesManager.force_injective_mapping_unary s (unarySelf nv G) =
      Except.ok { s with cons := s.cons ++ (SMap.mk G (nv + 1)).forceInjective } := by
  simp only [VariablesManager.force_injective_mapping_unary, gen_unary_range_none, Py.ok_bind, range'_eq_idx]
  rw [foldlM_push (ints (idx G.r)) _ (fun y => Con.lin ((SMap.mk G (nv + 1)).col y.toNat) .le 1)]
  · simp [SMap.forceInjective, ints, List.map_map, Function.comp_def]
  · intro s y hy
    simp only [ints, List.mem_map] at hy
    obtain ⟨a, ha, rfl⟩ := hy
    rw [mem_idx] at ha
    simp only [Int.ofNat_eq_natCast, unary_call_col nv h a ha, Py.ok_bind, cardinality_leq_nocheck, Int.toNat_natCast]

/-! ### binary mappings -/

/-- a loop whose body adds a list of constraints per element -/
theorem foldlM_pushAll {α : Type} (xs : List α) (body : FState → α → Except Err FState) (c : α → List Con)
    (h : ∀ s x, x ∈ xs → body s x = Except.ok { s with cons := s.cons ++ c x }) (s : FState) :
    List.foldlM body s xs = Except.ok { s with cons := s.cons ++ xs.flatMap c } := by
  induction xs generalizing s with
  | nil => simp
  | cons x xs ih =>
    rw [List.foldlM_cons, h s x (by simp), Py.ok_bind, ih (fun s y hy => h s y (by simp [hy]))]
    simp

theorem combos2_eq_pairs {α : Type} (l : List α) : Py.combos2 l = pairs l := by
  induction l with
  | nil => rfl
  | cons x xs ih => simp [Py.combos2, pairs, ih]

theorem pairs_map {α β : Type} (f : α → β) (l : List α) :
    pairs (l.map f) = (pairs l).map (fun p => (f p.1, f p.2)) := by
  induction l with
  | nil => rfl
  | cons x xs ih => simp [pairs, ih, List.map_map, Function.comp_def]

theorem binary_ids (nv n m : Nat) :
    (binSelf nv n m).ids = ⟨(nv : Int) + 1, (nv : Int) + ((n * clog2 m : Nat) : Int) + 1⟩ := by
  simp [binSelf]

theorem add_variable_group_binary_eq (s : FState) (nv n m : Nat) (hs : s.numvar = nv) :
    VariablesManager.add_variable_group_binary s (binSelf nv n m) =
      Except.ok { s with numvar := ((nv + n * clog2 m : Nat) : Int) } := by
  simp only [VariablesManager.add_variable_group_binary, BinaryMappingVariables.len, BinaryMappingVariables.getitem,
    binary_ids, range_len']
  by_cases hE : n * clog2 m = 0
  · have : ((n * clog2 m : Nat) : Int) = 0 := by omega
    rw [if_pos this]
    cases s
    simp only at hs
    simp [hs, hE]
  · have h0 : ¬ (((n * clog2 m : Nat) : Int) = 0) := by omega
    rw [if_neg h0, range_get_first _ _ (by omega), range_get_last _ _ (by omega)]
    simp only [Py.ok_bind, PyF.number_of_variables, PyF.update_variable_number, hs]
    have h1 : (nv : Int) + ((n * clog2 m : Nat) : Int) ≥ (nv : Int) + 1 := by omega
    have h2 : ¬ ((nv : Int) + 1 ≤ (nv : Int)) := by omega
    have h3 : ¬ ((nv : Int) + ((n * clog2 m : Nat) : Int) < 0) := by omega
    have h4 : (nv : Int) + ((n * clog2 m : Nat) : Int) > (nv : Int) := by omega
    simp only [h1, if_true, h2, if_false, h3, h4]
    congr 2

theorem new_binary_mapping_eq (s : FState) (nv : Nat) (hs : s.numvar = nv) (n m : Int) :
    VariablesManager.new_binary_mapping s n m =
      if n < 0 ∨ m < 0 then Except.error Err.valueError
      else Except.ok (binSelf nv n.toNat m.toNat,
          { s with numvar := ((nv + n.toNat * clog2 m.toNat : Nat) : Int) }) := by
  unfold VariablesManager.new_binary_mapping
  by_cases h : n < 0 ∨ m < 0
  · rw [if_pos h, if_pos h]
  · rw [if_neg h, if_neg h]
    have h' : ¬ (m < 0 ∨ n < 0) := fun x => h x.symm
    simp only [hs, gen_binary_init_eq, if_neg h', Py.ok_bind]
    rw [add_variable_group_binary_eq s nv _ _ hs, Py.ok_bind]

/-- `f.forbid(i, j)` inside the loops of `force_*` -/
theorem binary_forbid_loop (nv n m i j : Nat) (hi : 1 ≤ i ∧ i ≤ n) (hj : j < 2 ^ clog2 m) :
    BinaryMappingVariables.forbid (binSelf nv n m) (i : Int) (j : Int) =
      Except.ok (forbidLits (nv + 1) (clog2 m) i j) := by
  rw [gen_binary_forbid_eq_model, forbidFull_eq_forbid hi, Fam.forbid_eq, if_neg (by omega)]

theorem range_nat_toList (a b : Nat) : Py.Range.toList ⟨(a : Int), (b : Int)⟩ = ints (rangeN a b) := by
  simp only [Py.Range.toList, rangeI, rangeN, ints, List.map_map]
  have : ((b : Int) - (a : Int)).toNat = b - a := by omega
  rw [this]
  apply List.map_congr_left
  intro i _
  simp; omega

theorem force_complete_binary_eq (s : FState) (nv n m : Nat) :
    VariablesManager.force_complete_mapping_binary s (binSelf nv n m) =
      Except.ok { s with cons := s.cons ++ (idx n).flatMap (fun i =>
        (rangeN m (2 ^ clog2 m)).map (fun j => Con.clause (forbidLits (nv + 1) (clog2 m) i j))) } := by
  have hdom : Py.Range.toList (BinaryMappingVariables.domain (binSelf nv n m)) = ints (idx n) := range_toList_nat n
  have hlen : Py.Range.len (BinaryMappingVariables.range (binSelf nv n m)) = (m : Int) := by
    simp [BinaryMappingVariables.range, binSelf, Py.Range.len]; omega
  have hpow : Py.pow 2 (BinaryMappingVariables.bits (binSelf nv n m)) = ((2 ^ clog2 m : Nat) : Int) := by
    simp [BinaryMappingVariables.bits, binSelf, Py.pow]
  simp only [VariablesManager.force_complete_mapping_binary, hdom, hlen, hpow, range_nat_toList]
  rw [foldlM_pushAll (ints (idx n)) _ (fun i => (rangeN m (2 ^ clog2 m)).map (fun j =>
    Con.clause (forbidLits (nv + 1) (clog2 m) i.toNat j)))]
  · simp [ints, List.flatMap_map]
  · intro s i hi
    simp only [ints, List.mem_map] at hi
    obtain ⟨a, ha, rfl⟩ := hi
    rw [mem_idx] at ha
    rw [foldlM_push (ints (rangeN m (2 ^ clog2 m))) _ (fun j => Con.clause (forbidLits (nv + 1) (clog2 m) a j.toNat))]
    · simp [ints, List.map_map, Function.comp_def]
    · intro s j hj
      simp only [ints, List.mem_map] at hj
      obtain ⟨b, hb, rfl⟩ := hj
      rw [mem_rangeN] at hb
      simp only [Int.ofNat_eq_natCast, binary_forbid_loop nv n m a b ha hb.2, Py.ok_bind, add_clause_nocheck,
        Int.toNat_natCast]

theorem mem_of_mem_pairs' {α : Type} {l : List α} {p : α × α} (h : p ∈ pairs l) : p.1 ∈ l ∧ p.2 ∈ l := by
  induction l with
  | nil => simp [pairs] at h
  | cons x xs ih =>
    simp only [pairs, List.mem_append, List.mem_map] at h
    rcases h with ⟨y, hy, rfl⟩ | h
    · exact ⟨by simp, by simp [hy]⟩
    · exact ⟨by simp [(ih h).1], by simp [(ih h).2]⟩

theorem force_injective_binary_eq (s : FState) (nv n m : Nat) :
    VariablesManager.force_injective_mapping_binary s (binSelf nv n m) =
      Except.ok { s with cons := s.cons ++ (List.range m).flatMap (fun y =>
        (pairs (idx n)).map (fun x => Con.clause (forbidLits (nv + 1) (clog2 m) x.1 y ++ forbidLits (nv + 1) (clog2 m) x.2 y))) } := by
  have hdom : Py.Range.toList (BinaryMappingVariables.domain (binSelf nv n m)) = ints (idx n) := range_toList_nat n
  have hrng : Py.Range.toList (BinaryMappingVariables.range (binSelf nv n m)) = ints (List.range m) := by
    have := Py.range_zero_toList m
    simpa [BinaryMappingVariables.range, binSelf, ints] using this
  simp only [VariablesManager.force_injective_mapping_binary, hdom, hrng, combos2_eq_pairs]
  have hle : m ≤ 2 ^ clog2 m := (clog2_spec m).1
  rw [foldlM_pushAll (ints (List.range m)) _ (fun y => (pairs (idx n)).map (fun x =>
    Con.clause (forbidLits (nv + 1) (clog2 m) x.1 y.toNat ++ forbidLits (nv + 1) (clog2 m) x.2 y.toNat)))]
  · simp [ints, List.flatMap_map]
  · intro s y hy
    simp only [ints, List.mem_map] at hy
    obtain ⟨b, hb, rfl⟩ := hy
    rw [List.mem_range] at hb
    simp only [ints, pairs_map]
    rw [foldlM_push _ _ (fun (x : Int × Int) => Con.clause (forbidLits (nv + 1) (clog2 m) x.1.toNat b ++
      forbidLits (nv + 1) (clog2 m) x.2.toNat b))]
    · simp [List.map_map, Function.comp_def]
    · intro s x hx
      simp only [List.mem_map] at hx
      obtain ⟨p, hp, rfl⟩ := hx
      have hm := mem_of_mem_pairs' hp
      rw [mem_idx, mem_idx] at hm
      simp only [Int.ofNat_eq_natCast, binary_forbid_loop nv n m p.1 b hm.1 (by omega),
        binary_forbid_loop nv n m p.2 b hm.2 (by omega), Py.ok_bind, add_clause_nocheck, Int.toNat_natCast]

end Cnfgen.GenFam
