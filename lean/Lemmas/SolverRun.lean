/-
Helper lemmas for Props/C20/Run.lean: the collecting semantics `execAll` of Solver/Run.lean covers every
run of the interpreter `exec` under every fault schedule (`exec_sound`), and the faults met on the way
are the entries of the schedule, in order, `ok` once the schedule is exhausted (`Agree`).
-/
import CnfgenModel.Solver.Run
namespace Cnfgen.Solver
open Cnfgen.Gen (RSlot ROp RProg)

/-- `Agree path sched rest`: `path` is what a run consumes from `sched` (an exhausted schedule
delivers `ok`), `rest` is what remains -/
inductive Agree : List Fault → List Fault → List Fault → Prop
  | nil (s : List Fault) : Agree [] s s
  | cons (s p r : List Fault) : Agree p s.tail r → Agree (s.headD .ok :: p) s r

theorem Agree.trans {p1 p2 s r1 r2 : List Fault} (h1 : Agree p1 s r1) (h2 : Agree p2 r1 r2) :
    Agree (p1 ++ p2) s r2 := by
  induction h1 with
  | nil s => simpa using h2
  | cons s p r _ ih => exact Agree.cons s (p ++ p2) r2 (ih h2)

/-- the i-th fault met is the i-th entry of the schedule -/
theorem Agree.getD {p s r : List Fault} (h : Agree p s r) (i : Nat) (hi : i < p.length) :
    p.getD i .ok = s.getD i .ok := by
  induction h generalizing i with
  | nil s => simp at hi
  | cons s p r _ ih =>
    cases i with
    | zero => cases s <;> simp
    | succ j =>
      have hj : j < p.length := by simpa using hi
      have := ih j hj
      cases s with
      | nil => simpa using this
      | cons x xs => simpa using this

theorem Agree.rest {p s r : List Fault} (h : Agree p s r) : r = s.drop p.length := by
  induction h with
  | nil s => simp
  | cons s p r _ ih =>
    cases s with
    | nil => simpa using ih
    | cons x xs => simpa using ih

/-- the first `k` resource calls meet no fault -/
def cleanPrefix : Nat → List Fault → Bool
  | 0, _ => true
  | k + 1, s => s.headD .ok == .ok && cleanPrefix k s.tail

theorem Agree.cleanPrefix {p s r : List Fault} (h : Agree p s r) (k : Nat)
    (hk : cleanPrefix k s = true) : cleanPrefix k p = true := by
  induction h generalizing k with
  | nil s => cases k <;> simp [Solver.cleanPrefix]
           ; rename_i n; clear hk
           ; induction n with
             | zero => rfl
             | succ m ihm => simp [Solver.cleanPrefix, ihm]
  | cons s p r _ ih =>
    cases k with
    | zero => rfl
    | succ j =>
      simp only [Solver.cleanPrefix, Bool.and_eq_true] at hk ⊢
      exact ⟨by simpa using hk.1, ih j hk.2⟩

/-- no entry of the schedule is a non-OSError fault -/
def osOnly (s : List Fault) : Bool := s.all (· != .other)

theorem Agree.osOnly {p s r : List Fault} (h : Agree p s r) (hs : osOnly s = true) :
    osOnly p = true := by
  induction h with
  | nil s => rfl
  | cons s p r _ ih =>
    cases s with
    | nil => simpa [Solver.osOnly] using ih (by rfl)
    | cons x xs =>
      simp only [Solver.osOnly, List.all_cons, Bool.and_eq_true] at hs ⊢
      exact ⟨by simpa using hs.1, by simpa [Solver.osOnly] using ih (by simpa [Solver.osOnly] using hs.2)⟩

theorem mem_allFaults (f : Fault) : f ∈ allFaults := by cases f <;> simp [allFaults]

/-- **soundness of the collecting semantics**: whatever the schedule, the run of a program ends
in one of the enumerated (path, state, exception) triples, and the path is what it consumed -/
theorem exec_sound (a b c : Bool) (P : RProg) : ∀ (sched : List Fault) (st : RState),
    ∃ path, (path, (exec a b c P sched st).2.1, (exec a b c P sched st).2.2) ∈ execAll a b c P st ∧
      Agree path sched (exec a b c P sched st).1 := by
  induction P with
  | done => intro sched st; exact ⟨[], by simp [exec, execAll], Agree.nil _⟩
  | op o rest ih =>
    intro sched st
    by_cases hs : skips o st = true
    · obtain ⟨path, hm, ha⟩ := ih sched st
      exact ⟨path, by simpa [exec, execAll, hs] using hm, by simpa [exec, hs] using ha⟩
    · have hs' : skips o st = false := by simpa using hs
      cases hstep : step a b c o (sched.headD .ok) st with
      | mk st' e =>
        cases e with
        | some e =>
          refine ⟨[sched.headD .ok], ?_, ?_⟩
          · simp only [exec, execAll, hs', hstep, Bool.false_eq_true, if_false, List.mem_flatMap]
            exact ⟨sched.headD .ok, mem_allFaults _, by simp only [hstep, List.mem_singleton]⟩
          · simp only [exec, hs', hstep, Bool.false_eq_true, if_false]
            exact Agree.cons sched [] sched.tail (Agree.nil _)
        | none =>
          obtain ⟨path, hm, ha⟩ := ih sched.tail st'
          refine ⟨sched.headD .ok :: path, ?_, ?_⟩
          · simp only [exec, execAll, hs', hstep, Bool.false_eq_true, if_false, List.mem_flatMap]
            refine ⟨sched.headD .ok, mem_allFaults _, ?_⟩
            simp only [hstep, List.mem_map]
            exact ⟨_, hm, rfl⟩
          · simp only [exec, hs', hstep, Bool.false_eq_true, if_false]
            exact Agree.cons sched path _ ha
  | tryStmt body catchOS fin rest ihb ihf ihr =>
    intro sched st
    obtain ⟨p1, hm1, ha1⟩ := ihb sched st
    generalize hb : exec a b c body sched st = rb at hm1 ha1
    obtain ⟨s1, st1, e1⟩ := rb
    obtain ⟨p2, hm2, ha2⟩ := ihf s1 st1
    generalize hf : exec a b c fin s1 st1 = rf at hm2 ha2
    obtain ⟨s2, st2, e2⟩ := rf
    simp only at hm1 ha1 hm2 ha2
    cases e2 with
    | some e2 =>
      refine ⟨p1 ++ p2, ?_, ?_⟩
      · simp only [exec, execAll, hb, hf, List.mem_flatMap]
        exact ⟨_, hm1, _, hm2, by simp⟩
      · simp only [exec, hb, hf]
        exact ha1.trans ha2
    | none =>
      cases hh : afterHandlers catchOS e1 with
      | some e =>
        refine ⟨p1 ++ p2, ?_, ?_⟩
        · simp only [exec, execAll, hb, hf, hh, List.mem_flatMap]
          exact ⟨_, hm1, _, hm2, by simp [hh]⟩
        · simp only [exec, hb, hf, hh]
          exact ha1.trans ha2
      | none =>
        obtain ⟨p3, hm3, ha3⟩ := ihr s2 st2
        refine ⟨p1 ++ p2 ++ p3, ?_, ?_⟩
        · simp only [exec, execAll, hb, hf, hh, List.mem_flatMap]
          refine ⟨_, hm1, _, hm2, ?_⟩
          simp only [hh, List.mem_map]
          exact ⟨_, hm3, rfl⟩
        · simp only [exec, hb, hf, hh]
          exact (ha1.trans ha2).trans ha3

/-- every entry is `ok` -/
def allOk (s : List Fault) : Bool := s.all (· == .ok)

theorem Agree.allOk {p s r : List Fault} (h : Agree p s r) (hs : allOk s = true) : allOk p = true := by
  induction h with
  | nil s => rfl
  | cons s p r _ ih =>
    cases s with
    | nil => simpa [Solver.allOk] using ih (by rfl)
    | cons x xs =>
      simp only [Solver.allOk, List.all_cons, Bool.and_eq_true] at hs ⊢
      exact ⟨by simpa using hs.1, by simpa [Solver.allOk] using ih (by simpa [Solver.allOk] using hs.2)⟩

/-! ### finite checks over all paths, for the eight control-relevant solver behaviours -/

def bools : List Bool := [false, true]

/-- `q rmIn rmOut hasFile path` holds for every path of `P` -/
def forAllPaths (P : RProg) (q : Bool → Bool → Bool → Path → Bool) : Bool :=
  bools.all fun a => bools.all fun b => bools.all fun c => (execAll a b c P RState.init).all (q a b c)

theorem forAllPaths_spec {P : RProg} {q : Bool → Bool → Bool → Path → Bool}
    (h : forAllPaths P q = true) (a b c : Bool) (p : Path)
    (hp : p ∈ execAll a b c P RState.init) : q a b c p = true := by
  have hb : ∀ x : Bool, x ∈ bools := by intro x; cases x <;> simp [bools]
  simp only [forAllPaths, List.all_eq_true] at h
  exact h a (hb a) b (hb b) c (hb c) p hp

/-- **every run, under every schedule and solver behaviour, satisfies what all paths satisfy** -/
theorem run_satisfies {P : RProg} {q : Bool → Bool → Bool → Path → Bool}
    (h : forAllPaths P q = true) (a b c : Bool) (sched : List Fault) :
    ∃ path, Agree path sched (exec a b c P sched RState.init).1 ∧
      q a b c (path, (exec a b c P sched RState.init).2) = true := by
  obtain ⟨path, hm, ha⟩ := exec_sound a b c P sched RState.init
  exact ⟨path, ha, forAllPaths_spec h a b c _ hm⟩

/-- files created by the call that still exist -/
def Path.left (p : Path) : List Nat := p.2.1.created.filter p.2.1.files.contains

end Cnfgen.Solver
