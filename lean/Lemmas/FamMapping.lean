/-
Helper lemmas for the families built on a unary mapping `new_mapping(k, N)`:
iteration (`verts`, `pairs2`), identifier arithmetic (`mapId`), and the arithmetic meaning of
the constraints appended by `force_{complete,functional,surjective,injective,nondecreasing}_mapping`
in terms of the relation `i ↦ j :⇔ α (mapId st N i j)`.
-/
import CnfgenModel.Fam.MapCons
import Lemmas.Linear
namespace Cnfgen
namespace Fam
namespace G2
open Vars

/-! ### iteration -/

theorem mem_verts {n v : Nat} : v ∈ verts n ↔ 1 ≤ v ∧ v ≤ n := by
  simp only [verts, rangeN, List.mem_map, List.mem_range]
  constructor
  · rintro ⟨a, ha, rfl⟩; omega
  · intro h; exact ⟨v - 1, by omega, by omega⟩

theorem verts_pairwise (n : Nat) : (verts n).Pairwise (· < ·) := by
  simp only [verts, rangeN, List.pairwise_map]
  have : (List.range (n + 1 - 1)).Pairwise (· < ·) := List.pairwise_lt_range
  exact this.imp (by intro a b h; omega)

theorem verts_nodup (n : Nat) : (verts n).Nodup :=
  (verts_pairwise n).imp (by intro a b h; omega)

theorem verts_length (n : Nat) : (verts n).length = n := by simp [verts, rangeN]

theorem mem_pairs2_of_sorted {l : List Nat} (h : l.Pairwise (· < ·)) {a b : Nat} :
    (a, b) ∈ pairs2 l ↔ a ∈ l ∧ b ∈ l ∧ a < b := by
  induction l with
  | nil => simp [pairs2]
  | cons x xs ih =>
    rw [List.pairwise_cons] at h
    simp only [pairs2, List.mem_append, List.mem_map, Prod.mk.injEq, List.mem_cons]
    rw [ih h.2]
    constructor
    · rintro (⟨y, hy, rfl, rfl⟩ | ⟨ha, hb, hab⟩)
      · exact ⟨Or.inl rfl, Or.inr hy, h.1 _ hy⟩
      · exact ⟨Or.inr ha, Or.inr hb, hab⟩
    · rintro ⟨ha | ha, hb | hb, hab⟩
      · omega
      · exact Or.inl ⟨b, hb, ha.symm, rfl⟩
      · have := h.1 a ha; omega
      · exact Or.inr ⟨ha, hb, hab⟩

theorem mem_pairs2_verts {n a b : Nat} : (a, b) ∈ pairs2 (verts n) ↔ 1 ≤ a ∧ a < b ∧ b ≤ n := by
  rw [mem_pairs2_of_sorted (verts_pairwise n), mem_verts, mem_verts]; omega

theorem mem_pairs2_range {n a b : Nat} : (a, b) ∈ pairs2 (List.range n) ↔ a < b ∧ b < n := by
  rw [mem_pairs2_of_sorted List.pairwise_lt_range, List.mem_range, List.mem_range]; omega

/-- `pairs2` is `itertools.combinations(·, 2)` of `Core/Iter.lean` -/
theorem pairs2_eq_combos {α : Type} (l : List α) :
    (pairs2 l).map (fun p => [p.1, p.2]) = combos l 2 := by
  induction l with
  | nil => simp [pairs2, combos]
  | cons x xs ih =>
    have h1 : ∀ l : List α, combos l 1 = l.map (fun y => [y]) := by
      intro l; induction l with
      | nil => simp [combos]
      | cons y ys ih => simp [combos, ih]
    simp [pairs2, combos, ih, h1]

/-! ### literals -/

theorem litHolds_nat (α : Assign) {n : Nat} (h : 0 < n) : litHolds α ((n : Nat) : Int) = α n := by
  simp [litHolds]; omega

theorem litHolds_neg_nat (α : Assign) {n : Nat} (_h : 0 < n) : litHolds α (-((n : Nat) : Int)) = !α n := by
  simp [litHolds]

theorem mapId_pos {st N u v : Nat} (h : 1 ≤ st) : 0 < mapId st N u v := by
  unfold mapId; omega

theorem litHolds_mlit (α : Assign) {st N u v : Nat} (h : 1 ≤ st) :
    litHolds α (mlit st N u v) = α (mapId st N u v) := litHolds_nat α (mapId_pos h)

theorem litHolds_neg_mlit (α : Assign) {st N u v : Nat} (h : 1 ≤ st) :
    litHolds α (-(mlit st N u v)) = !α (mapId st N u v) := litHolds_neg_nat α (mapId_pos h)

theorem mapId_lt {st k N u v : Nat} (hu1 : 1 ≤ u) (hu : u ≤ k) (hv1 : 1 ≤ v) (hv : v ≤ N) :
    st ≤ mapId st N u v ∧ mapId st N u v < st + k * N := by
  unfold mapId
  have h1 : (u - 1) * N + N ≤ k * N := by
    have : (u - 1 + 1) * N ≤ k * N := Nat.mul_le_mul_right N (by omega)
    rwa [Nat.add_mul, Nat.one_mul] at this
  omega

theorem mapId_inj {st N u v u' v' : Nat} (hu : 1 ≤ u) (hu' : 1 ≤ u') (hv1 : 1 ≤ v) (hv : v ≤ N)
    (hv1' : 1 ≤ v') (hv' : v' ≤ N) (h : mapId st N u v = mapId st N u' v') : u = u' ∧ v = v' := by
  unfold mapId at h
  have hN : 0 < N := by omega
  have h2 : (u - 1) * N + (v - 1) = (u' - 1) * N + (v' - 1) := by omega
  have e1 : ((u - 1) * N + (v - 1)) / N = u - 1 := by
    rw [Nat.mul_comm, Nat.mul_add_div hN, Nat.div_eq_of_lt (by omega)]; omega
  have e2 : ((u' - 1) * N + (v' - 1)) / N = u' - 1 := by
    rw [Nat.mul_comm, Nat.mul_add_div hN, Nat.div_eq_of_lt (by omega)]; omega
  have m1 : ((u - 1) * N + (v - 1)) % N = v - 1 := by
    rw [Nat.mul_comm, Nat.mul_add_mod, Nat.mod_eq_of_lt (by omega)]
  have m2 : ((u' - 1) * N + (v' - 1)) % N = v' - 1 := by
    rw [Nat.mul_comm, Nat.mul_add_mod, Nat.mod_eq_of_lt (by omega)]
  rw [h2] at e1 m1
  constructor <;> omega

/-- every identifier of the group is the identifier of exactly one pair -/
theorem mapId_surj {st k N x : Nat} (h1 : st ≤ x) (h2 : x < st + k * N) :
    ∃ u v, 1 ≤ u ∧ u ≤ k ∧ 1 ≤ v ∧ v ≤ N ∧ mapId st N u v = x := by
  have hN : 0 < N := by
    rcases Nat.eq_zero_or_pos N with h | h
    · subst h; simp at h2; omega
    · exact h
  refine ⟨(x - st) / N + 1, (x - st) % N + 1, Nat.le_add_left _ _, ?_, Nat.le_add_left _ _, ?_, ?_⟩
  · have : (x - st) / N < k := by
      rw [Nat.div_lt_iff_lt_mul hN]; omega
    omega
  · have := Nat.mod_lt (x - st) hN; omega
  · unfold mapId
    have := Nat.div_add_mod (x - st) N
    simp only [Nat.add_sub_cancel]
    rw [Nat.mul_comm] at this
    omega

/-! ### clauses and at-most-one constraints over a list of variables -/

theorem clauseHolds_map_nat (α : Assign) (l : List Nat) (g : Nat → Nat) (hg : ∀ v ∈ l, 0 < g v) :
    clauseHolds α (l.map (fun v => ((g v : Nat) : Int))) = true ↔ ∃ v ∈ l, α (g v) = true := by
  simp only [clauseHolds, List.any_map, List.any_eq_true, Function.comp]
  constructor
  · rintro ⟨v, hv, h⟩; exact ⟨v, hv, by rwa [litHolds_nat α (hg v hv)] at h⟩
  · rintro ⟨v, hv, h⟩; exact ⟨v, hv, by rwa [litHolds_nat α (hg v hv)]⟩

theorem count_map_nat (α : Assign) (l : List Nat) (g : Nat → Nat) (hg : ∀ v ∈ l, 0 < g v) :
    count α (l.map (fun v => ((g v : Nat) : Int))) = l.countP (fun v => α (g v)) := by
  induction l with
  | nil => simp [count]
  | cons x xs ih =>
    have hx := hg x (List.mem_cons_self)
    have := ih (fun v hv => hg v (List.mem_cons_of_mem _ hv))
    simp only [List.map_cons, count_cons, this, List.countP_cons, litHolds_nat α hx]

theorem countP_le_one_iff {l : List Nat} (hn : l.Nodup) (p : Nat → Bool) :
    l.countP p ≤ 1 ↔ ∀ a ∈ l, ∀ b ∈ l, p a = true → p b = true → a = b := by
  induction l with
  | nil => simp
  | cons x xs ih =>
    rw [List.nodup_cons] at hn
    rw [List.countP_cons]
    by_cases hx : p x = true
    · simp only [hx, if_true]
      constructor
      · intro h
        have h0 : xs.countP p = 0 := by omega
        rw [List.countP_eq_zero] at h0
        intro a ha b hb pa pb
        rcases List.mem_cons.1 ha with rfl | ha
        · rcases List.mem_cons.1 hb with rfl | hb
          · rfl
          · exact absurd pb (h0 b hb)
        · exact absurd pa (h0 a ha)
      · intro h
        have : xs.countP p = 0 := by
          rw [List.countP_eq_zero]
          intro a ha pa
          have := h a (List.mem_cons_of_mem _ ha) x List.mem_cons_self pa hx
          subst this; exact hn.1 ha
        omega
    · simp only [hx, Bool.false_eq_true, if_false, Nat.add_zero]
      rw [ih hn.2]
      constructor
      · intro h a ha b hb pa pb
        rcases List.mem_cons.1 ha with rfl | ha
        · exact absurd pa hx
        · rcases List.mem_cons.1 hb with rfl | hb
          · exact absurd pb hx
          · exact h a ha b hb pa pb
      · intro h a ha b hb pa pb
        exact h a (List.mem_cons_of_mem _ ha) b (List.mem_cons_of_mem _ hb) pa pb

theorem atMostOne_map_nat (α : Assign) {l : List Nat} (hn : l.Nodup) (g : Nat → Nat)
    (hg : ∀ v ∈ l, 0 < g v) :
    Con.holds α (.lin (l.map (fun v => ((g v : Nat) : Int))) .le 1) = true ↔
      ∀ a ∈ l, ∀ b ∈ l, α (g a) = true → α (g b) = true → a = b := by
  simp only [Con.holds, Op.denote, decide_eq_true_eq, count_map_nat α l g hg]
  rw [← countP_le_one_iff hn (fun v => α (g v))]
  omega

/-- a clause of two negated variables -/
theorem clauseHolds_two_neg (α : Assign) {a b : Nat} (ha : 0 < a) (hb : 0 < b) :
    clauseHolds α [-((a : Nat) : Int), -((b : Nat) : Int)] = true ↔ ¬ (α a = true ∧ α b = true) := by
  simp [clauseHolds, litHolds_neg_nat α ha, litHolds_neg_nat α hb]
  cases α a <;> cases α b <;> simp

/-! ### the `force_*_mapping` constraints, read as statements about the relation `α (mapId st N i j)` -/

theorem mRow_eq (st N u : Nat) : mRow st N u = (verts N).map (fun v => ((mapId st N u v : Nat) : Int)) := rfl
theorem mCol_eq (st k N v : Nat) : mCol st k N v = (verts k).map (fun u => ((mapId st N u v : Nat) : Int)) := rfl

theorem forceComplete_holds (α : Assign) {st : Nat} (k N : Nat) (hst : 1 ≤ st) :
    (∀ c ∈ forceComplete st k N, Con.holds α c = true) ↔
      ∀ i, 1 ≤ i → i ≤ k → ∃ j, 1 ≤ j ∧ j ≤ N ∧ α (mapId st N i j) = true := by
  rw [forceComplete, List.forall_mem_map]
  simp only [Con.holds, mem_verts, mRow_eq, and_imp]
  constructor
  · intro h i h1 h2
    obtain ⟨j, hj, hα⟩ := (clauseHolds_map_nat α _ _ (fun v _ => mapId_pos hst)).1 (h i h1 h2)
    rw [mem_verts] at hj; exact ⟨j, hj.1, hj.2, hα⟩
  · intro h i h1 h2
    obtain ⟨j, hj1, hj2, hα⟩ := h i h1 h2
    exact (clauseHolds_map_nat α _ _ (fun v _ => mapId_pos hst)).2 ⟨j, mem_verts.2 ⟨hj1, hj2⟩, hα⟩

theorem forceSurjective_holds (α : Assign) {st : Nat} (k N : Nat) (hst : 1 ≤ st) :
    (∀ c ∈ forceSurjective st k N, Con.holds α c = true) ↔
      ∀ j, 1 ≤ j → j ≤ N → ∃ i, 1 ≤ i ∧ i ≤ k ∧ α (mapId st N i j) = true := by
  rw [forceSurjective, List.forall_mem_map]
  simp only [Con.holds, mem_verts, mCol_eq, and_imp]
  constructor
  · intro h j h1 h2
    obtain ⟨i, hi, hα⟩ := (clauseHolds_map_nat α _ (fun u => mapId st N u j) (fun v _ => mapId_pos hst)).1 (h j h1 h2)
    rw [mem_verts] at hi; exact ⟨i, hi.1, hi.2, hα⟩
  · intro h j h1 h2
    obtain ⟨i, hi1, hi2, hα⟩ := h j h1 h2
    exact (clauseHolds_map_nat α _ (fun u => mapId st N u j) (fun v _ => mapId_pos hst)).2 ⟨i, mem_verts.2 ⟨hi1, hi2⟩, hα⟩

theorem forceFunctional_holds (α : Assign) {st : Nat} (k N : Nat) (hst : 1 ≤ st) :
    (∀ c ∈ forceFunctional st k N, Con.holds α c = true) ↔
      ∀ i, 1 ≤ i → i ≤ k → ∀ j, 1 ≤ j → j ≤ N → ∀ j', 1 ≤ j' → j' ≤ N →
        α (mapId st N i j) = true → α (mapId st N i j') = true → j = j' := by
  rw [forceFunctional, List.forall_mem_map]
  simp only [mem_verts, mRow_eq, and_imp]
  constructor
  · intro h i h1 h2 j hj1 hj2 j' hj1' hj2' ha hb
    exact (atMostOne_map_nat α (verts_nodup N) _ (fun v _ => mapId_pos hst)).1 (h i h1 h2)
      j (mem_verts.2 ⟨hj1, hj2⟩) j' (mem_verts.2 ⟨hj1', hj2'⟩) ha hb
  · intro h i h1 h2
    refine (atMostOne_map_nat α (verts_nodup N) _ (fun v _ => mapId_pos hst)).2 ?_
    intro a ha b hb pa pb
    rw [mem_verts] at ha hb
    exact h i h1 h2 a ha.1 ha.2 b hb.1 hb.2 pa pb

theorem forceInjective_holds (α : Assign) {st : Nat} (k N : Nat) (hst : 1 ≤ st) :
    (∀ c ∈ forceInjective st k N, Con.holds α c = true) ↔
      ∀ j, 1 ≤ j → j ≤ N → ∀ i, 1 ≤ i → i ≤ k → ∀ i', 1 ≤ i' → i' ≤ k →
        α (mapId st N i j) = true → α (mapId st N i' j) = true → i = i' := by
  rw [forceInjective, List.forall_mem_map]
  simp only [mem_verts, mCol_eq, and_imp]
  constructor
  · intro h j h1 h2 i hi1 hi2 i' hi1' hi2' ha hb
    exact (atMostOne_map_nat α (verts_nodup k) (fun u => mapId st N u j) (fun v _ => mapId_pos hst)).1 (h j h1 h2)
      i (mem_verts.2 ⟨hi1, hi2⟩) i' (mem_verts.2 ⟨hi1', hi2'⟩) ha hb
  · intro h j h1 h2
    refine (atMostOne_map_nat α (verts_nodup k) (fun u => mapId st N u j) (fun v _ => mapId_pos hst)).2 ?_
    intro a ha b hb pa pb
    rw [mem_verts] at ha hb
    exact h j h1 h2 a ha.1 ha.2 b hb.1 hb.2 pa pb

theorem clause_two_neg_mlit (α : Assign) {st N a b c d : Nat} (hst : 1 ≤ st) :
    Con.holds α (.clause [-(mlit st N a b), -(mlit st N c d)]) = true ↔
      ¬ (α (mapId st N a b) = true ∧ α (mapId st N c d) = true) :=
  clauseHolds_two_neg α (mapId_pos hst) (mapId_pos hst)

theorem forceNondecreasing_holds (α : Assign) {st : Nat} (k N : Nat) (hst : 1 ≤ st) :
    (∀ c ∈ forceNondecreasing st k N, Con.holds α c = true) ↔
      ∀ i, 1 ≤ i → ∀ i', i < i' → i' ≤ k → ∀ j, 1 ≤ j → j ≤ N → ∀ j', 1 ≤ j' → j' ≤ N →
        α (mapId st N i j) = true → α (mapId st N i' j') = true → j ≤ j' := by
  simp only [forceNondecreasing, List.mem_flatMap, List.mem_filterMap, forall_exists_index, and_imp,
    Prod.forall, mem_pairs2_verts, mem_verts]
  constructor
  · intro h i hi i' hii' hi' j hj1 hj2 j' hj1' hj2' ha hb
    by_cases hlt : j ≤ j'
    · exact hlt
    · have := h _ i i' hi hii' hi' j hj1 hj2 j' hj1' hj2' (if_pos (by omega))
      rw [clause_two_neg_mlit α hst] at this
      exact absurd ⟨ha, hb⟩ this
  · intro h c i i' hi hii' hi' j hj1 hj2 j' hj1' hj2' hc
    split at hc
    · simp only [Option.some.injEq] at hc
      subst hc
      rw [clause_two_neg_mlit α hst]
      rintro ⟨ha, hb⟩
      have := h i hi i' hii' hi' j hj1 hj2 j' hj1' hj2' ha hb
      omega
    · simp at hc

/-! ### well-formedness: literals are non-zero and inside the group -/

/-- all literals of the constraints are non-zero with variable in `lo … hi` -/
def ConsIn (lo hi : Nat) (cs : List Con) : Prop :=
  ∀ c ∈ cs, ∀ l ∈ c.lits, l ≠ 0 ∧ lo ≤ l.natAbs ∧ l.natAbs ≤ hi

theorem ConsIn.append {lo hi : Nat} {a b : List Con} (ha : ConsIn lo hi a) (hb : ConsIn lo hi b) :
    ConsIn lo hi (a ++ b) := by
  intro c hc; rcases List.mem_append.1 hc with h | h
  · exact ha c h
  · exact hb c h

theorem ConsIn.nil {lo hi : Nat} : ConsIn lo hi [] := by intro c hc; simp at hc

theorem ConsIn.mono {lo hi lo' hi' : Nat} {a : List Con} (h : ConsIn lo hi a) (h1 : lo' ≤ lo) (h2 : hi ≤ hi') :
    ConsIn lo' hi' a := by
  intro c hc l hl; have := h c hc l hl; omega

theorem mlit_in {st k N u v : Nat} (hst : 1 ≤ st) (hu1 : 1 ≤ u) (hu : u ≤ k) (hv1 : 1 ≤ v) (hv : v ≤ N) :
    (mlit st N u v ≠ 0 ∧ st ≤ (mlit st N u v).natAbs ∧ (mlit st N u v).natAbs ≤ st + k * N - 1) ∧
    (-(mlit st N u v) ≠ 0 ∧ st ≤ (-(mlit st N u v)).natAbs ∧ (-(mlit st N u v)).natAbs ≤ st + k * N - 1) := by
  have := mapId_lt (st := st) hu1 hu hv1 hv
  unfold mlit
  omega

theorem forceComplete_in {st : Nat} (k N : Nat) (hst : 1 ≤ st) :
    ConsIn st (st + k * N - 1) (forceComplete st k N) := by
  intro c hc l hl
  simp only [forceComplete, List.mem_map, mem_verts] at hc
  obtain ⟨u, hu, rfl⟩ := hc
  simp only [Con.lits, mRow, List.mem_map, mem_verts] at hl
  obtain ⟨v, hv, rfl⟩ := hl
  exact (mlit_in hst hu.1 hu.2 hv.1 hv.2).1

theorem forceFunctional_in {st : Nat} (k N : Nat) (hst : 1 ≤ st) :
    ConsIn st (st + k * N - 1) (forceFunctional st k N) := by
  intro c hc l hl
  simp only [forceFunctional, List.mem_map, mem_verts] at hc
  obtain ⟨u, hu, rfl⟩ := hc
  simp only [Con.lits, mRow, List.mem_map, mem_verts] at hl
  obtain ⟨v, hv, rfl⟩ := hl
  exact (mlit_in hst hu.1 hu.2 hv.1 hv.2).1

theorem forceSurjective_in {st : Nat} (k N : Nat) (hst : 1 ≤ st) :
    ConsIn st (st + k * N - 1) (forceSurjective st k N) := by
  intro c hc l hl
  simp only [forceSurjective, List.mem_map, mem_verts] at hc
  obtain ⟨v, hv, rfl⟩ := hc
  simp only [Con.lits, mCol, List.mem_map, mem_verts] at hl
  obtain ⟨u, hu, rfl⟩ := hl
  exact (mlit_in hst hu.1 hu.2 hv.1 hv.2).1

theorem forceInjective_in {st : Nat} (k N : Nat) (hst : 1 ≤ st) :
    ConsIn st (st + k * N - 1) (forceInjective st k N) := by
  intro c hc l hl
  simp only [forceInjective, List.mem_map, mem_verts] at hc
  obtain ⟨v, hv, rfl⟩ := hc
  simp only [Con.lits, mCol, List.mem_map, mem_verts] at hl
  obtain ⟨u, hu, rfl⟩ := hl
  exact (mlit_in hst hu.1 hu.2 hv.1 hv.2).1

/-- a clause of negated mapping variables with indices in range -/
theorem clause_neg2_in {st k N a b c d : Nat} (hst : 1 ≤ st) (ha1 : 1 ≤ a) (ha : a ≤ k) (hb1 : 1 ≤ b) (hb : b ≤ N)
    (hc1 : 1 ≤ c) (hc : c ≤ k) (hd1 : 1 ≤ d) (hd : d ≤ N) :
    ∀ l ∈ (Con.clause [-(mlit st N a b), -(mlit st N c d)]).lits,
      l ≠ 0 ∧ st ≤ l.natAbs ∧ l.natAbs ≤ st + k * N - 1 := by
  intro l hl
  simp only [Con.lits, List.mem_cons, List.not_mem_nil, or_false] at hl
  rcases hl with rfl | rfl
  · exact (mlit_in hst ha1 ha hb1 hb).2
  · exact (mlit_in hst hc1 hc hd1 hd).2

theorem forceNondecreasing_in {st : Nat} (k N : Nat) (hst : 1 ≤ st) :
    ConsIn st (st + k * N - 1) (forceNondecreasing st k N) := by
  intro c hc
  simp only [forceNondecreasing, List.mem_flatMap, List.mem_filterMap, Prod.exists, mem_pairs2_verts,
    mem_verts] at hc
  obtain ⟨i, i', ⟨hi, hii', hi'⟩, j, ⟨hj1, hj2⟩, j', ⟨hj1', hj2'⟩, hc⟩ := hc
  split at hc
  · simp only [Option.some.injEq] at hc; subst hc
    exact clause_neg2_in hst hi (by omega) hj1 hj2 (by omega) hi' hj1' hj2'
  · simp at hc

end G2
end Fam
end Cnfgen
