/-
C14 (GML) — the text `generate_gml` / `write_gml` / cnfgen's `print` produce is split, tokenized and
parsed by the model of `parse_gml_lines` into the expected token stream and dictionary.
-/
import Lemmas.GmlLex
namespace Cnfgen.Gml
open Cnfgen GraphLex GraphFmt

def keyT (s : String) : Tok := .key s.toList

/-! ### lines and their tokens -/

def nodeLinesT (i : Nat) (p : Nat × Option Bool) : List (Str × List Tok) :=
  [("  node [".toList, [keyT "node", .lb]),
   ("    id ".toList ++ natStr i, [keyT "id", .int (i : Int)]),
   ("    label \"".toList ++ natStr p.1 ++ ['"'], [keyT "label", .str (natStr p.1)])] ++
  (match p.2 with
   | none => []
   | some b => [("    bipartite ".toList ++ (if b then ['1'] else ['0']), [keyT "bipartite", .int (if b then 1 else 0)])]) ++
  [("  ]".toList, [.rb])]

def edgeLinesT (e : Nat × Nat) : List (Str × List Tok) :=
  [("  edge [".toList, [keyT "edge", .lb]),
   ("    source ".toList ++ natStr e.1, [keyT "source", .int (e.1 : Int)]),
   ("    target ".toList ++ natStr e.2, [keyT "target", .int (e.2 : Int)]),
   ("  ]".toList, [.rb])]

def nodesLinesT : Nat → List (Nat × Option Bool) → List (Str × List Tok)
  | _, [] => []
  | i, p :: ps => nodeLinesT i p ++ nodesLinesT (i + 1) ps

def gmlLinesT (X : NxOut) : List (Str × List Tok) :=
  [("graph [".toList, [keyT "graph", .lb])] ++
  (if X.directed then [("  directed 1".toList, [keyT "directed", .int 1])] else []) ++
  (match X.name with
   | none => []
   | some nm => [("  name \"".toList ++ escape nm ++ ['"'], [keyT "name", .str (escape nm)])]) ++
  nodesLinesT 0 X.nodes ++
  (nxEdges X.directed X.nodes.length X.tedges).flatMap edgeLinesT ++
  [("]".toList, [.rb])]

theorem nodeLinesT_fst (i : Nat) (p : Nat × Option Bool) : (nodeLinesT i p).map (·.1) = nodeLines i p := by
  obtain ⟨v, b⟩ := p
  cases b <;> rfl

theorem nodesLinesT_fst (i : Nat) (ps : List (Nat × Option Bool)) : (nodesLinesT i ps).map (·.1) = nodesLines i ps := by
  induction ps generalizing i with
  | nil => rfl
  | cons p ps ih => simp only [nodesLinesT, nodesLines, List.map_append, nodeLinesT_fst, ih]

theorem edgeLinesT_fst (es : List (Nat × Nat)) : (es.flatMap edgeLinesT).map (·.1) = es.flatMap edgeLines := by
  induction es with
  | nil => rfl
  | cons e es ih => simp only [List.flatMap_cons, List.map_append, ih]; rfl

theorem gmlLinesT_fst (X : NxOut) : (gmlLinesT X).map (·.1) = generateGml X := by
  unfold gmlLinesT generateGml
  simp only [List.map_append, nodesLinesT_fst, edgeLinesT_fst]
  have h1 : List.map (fun x : Str × List Tok => x.1)
      (if X.directed then [("  directed 1".toList, [keyT "directed", .int 1])] else []) =
      (if X.directed then ["  directed 1".toList] else []) := by split <;> rfl
  have h2 : List.map (fun x : Str × List Tok => x.1)
      (match X.name with
       | none => []
       | some nm => [("  name \"".toList ++ escape nm ++ ['"'], [keyT "name", .str (escape nm)])]) =
      (match X.name with
       | none => []
       | some nm => ["  name \"".toList ++ escape nm ++ ['"']]) := by cases X.name <;> rfl
  rw [h1, h2]
  rfl

theorem lineOK_fixed_graph : LineOK "graph [".toList [keyT "graph", .lb] := ⟨by decide, by decide, by decide, by decide, by decide⟩
theorem lineOK_fixed_directed : LineOK "  directed 1".toList [keyT "directed", .int 1] := ⟨by decide, by decide, by decide, by decide, by decide⟩
theorem lineOK_fixed_node : LineOK "  node [".toList [keyT "node", .lb] := ⟨by decide, by decide, by decide, by decide, by decide⟩
theorem lineOK_fixed_edge : LineOK "  edge [".toList [keyT "edge", .lb] := ⟨by decide, by decide, by decide, by decide, by decide⟩
theorem lineOK_fixed_close2 : LineOK "  ]".toList [.rb] := ⟨by decide, by decide, by decide, by decide, by decide⟩
theorem lineOK_fixed_close : LineOK "]".toList [.rb] := ⟨by decide, by decide, by decide, by decide, by decide⟩
theorem lineOK_fixed_bip0 : LineOK ("    bipartite ".toList ++ ['0']) [keyT "bipartite", .int 0] := ⟨by decide, by decide, by decide, by decide, by decide⟩
theorem lineOK_fixed_bip1 : LineOK ("    bipartite ".toList ++ ['1']) [keyT "bipartite", .int 1] := ⟨by decide, by decide, by decide, by decide, by decide⟩

theorem lineOK_id (i : Nat) (h : (natStr i).length ≤ maxStrDigits) :
    LineOK ("    id ".toList ++ natStr i) [keyT "id", .int (i : Int)] :=
  lineOK_keyNat 'i' ['d'] (by decide) (by decide) (by decide) (by decide) i h

theorem lineOK_source (i : Nat) (h : (natStr i).length ≤ maxStrDigits) :
    LineOK ("    source ".toList ++ natStr i) [keyT "source", .int (i : Int)] :=
  lineOK_keyNat 's' "ource".toList (by decide) (by decide) (by decide) (by decide) i h

theorem lineOK_target (i : Nat) (h : (natStr i).length ≤ maxStrDigits) :
    LineOK ("    target ".toList ++ natStr i) [keyT "target", .int (i : Int)] :=
  lineOK_keyNat 't' "arget".toList (by decide) (by decide) (by decide) (by decide) i h

theorem lineOK_label (v : Nat) :
    LineOK ("    label \"".toList ++ natStr v ++ ['"']) [keyT "label", .str (natStr v)] := by
  have := lineOK_keyStr "    ".toList (by decide) (by decide) 'l' "abel".toList (by decide) (by decide) (by decide) (by decide)
    (natStr v) (quote_not_mem_digits (natStr_digits v)) (isAscii_of_digits (natStr_digits v)) (noNL_of_digits (natStr_digits v))
  simpa [keyT] using this

theorem lineOK_name (nm : Str) :
    LineOK ("  name \"".toList ++ escape nm ++ ['"']) [keyT "name", .str (escape nm)] := by
  have hp := escape_plain nm
  have := lineOK_keyStr "  ".toList (by decide) (by decide) 'n' "ame".toList (by decide) (by decide) (by decide) (by decide)
    (escape nm) (not_mem_of_plain hp (fun h => h.2.2 rfl)) (isAscii_of_plain hp) (noNL_of_plain hp)
  simpa [keyT] using this

/-- every identifier written can be printed (`str(int)` of more than 4300 digits raises in CPython)
and read back (`int(str)` likewise), and the edges the networkx object reports join its nodes -/
structure Printable (X : NxOut) : Prop where
  digits : (natStr X.nodes.length).length ≤ maxStrDigits
  ends : ∀ e ∈ nxEdges X.directed X.nodes.length X.tedges, e.1 < X.nodes.length ∧ e.2 < X.nodes.length

theorem nodeLinesT_ok (i : Nat) (p : Nat × Option Bool) (h : (natStr i).length ≤ maxStrDigits) :
    ∀ q ∈ nodeLinesT i p, LineOK q.1 q.2 := by
  obtain ⟨v, b⟩ := p
  intro q hq
  cases b with
  | none =>
    simp only [nodeLinesT, List.append_nil, List.cons_append, List.nil_append, List.mem_cons, List.not_mem_nil, or_false] at hq
    rcases hq with rfl | rfl | rfl | rfl
    · exact lineOK_fixed_node
    · exact lineOK_id i h
    · exact lineOK_label v
    · exact lineOK_fixed_close2
  | some b =>
    simp only [nodeLinesT, List.cons_append, List.nil_append, List.mem_cons, List.not_mem_nil, or_false] at hq
    rcases hq with rfl | rfl | rfl | rfl | rfl
    · exact lineOK_fixed_node
    · exact lineOK_id i h
    · exact lineOK_label v
    · cases b
      · exact lineOK_fixed_bip0
      · exact lineOK_fixed_bip1
    · exact lineOK_fixed_close2

theorem nodesLinesT_ok (n : Nat) (hn : (natStr n).length ≤ maxStrDigits) :
    ∀ (ps : List (Nat × Option Bool)) (i : Nat), i + ps.length ≤ n → ∀ q ∈ nodesLinesT i ps, LineOK q.1 q.2 := by
  intro ps
  induction ps with
  | nil => intro i _ q hq; cases hq
  | cons p ps ih =>
    intro i hi q hq
    simp only [List.length_cons] at hi
    simp only [nodesLinesT, List.mem_append] at hq
    rcases hq with hq | hq
    · exact nodeLinesT_ok i p (Nat.le_trans (natStr_length_mono n i (by omega)) hn) q hq
    · exact ih (i + 1) (by omega) q hq

theorem edgeLinesT_ok (n : Nat) (hn : (natStr n).length ≤ maxStrDigits) (es : List (Nat × Nat))
    (he : ∀ e ∈ es, e.1 < n ∧ e.2 < n) : ∀ q ∈ es.flatMap edgeLinesT, LineOK q.1 q.2 := by
  intro q hq
  simp only [List.mem_flatMap] at hq
  obtain ⟨e, hem, hq⟩ := hq
  have h1 := Nat.le_trans (natStr_length_mono n e.1 (by have := (he e hem).1; omega)) hn
  have h2 := Nat.le_trans (natStr_length_mono n e.2 (by have := (he e hem).2; omega)) hn
  simp only [edgeLinesT, List.mem_cons, List.not_mem_nil, or_false] at hq
  rcases hq with rfl | rfl | rfl | rfl
  · exact lineOK_fixed_edge
  · exact lineOK_source e.1 h1
  · exact lineOK_target e.2 h2
  · exact lineOK_fixed_close2

theorem gmlLinesT_ok (X : NxOut) (hp : Printable X) : ∀ q ∈ gmlLinesT X, LineOK q.1 q.2 := by
  intro q hq
  simp only [gmlLinesT, List.mem_append, List.mem_cons, List.not_mem_nil, or_false] at hq
  rcases hq with ((((rfl | hq) | hq) | hq) | hq) | rfl
  · exact lineOK_fixed_graph
  · split at hq
    · simp only [List.mem_cons, List.not_mem_nil, or_false] at hq; subst hq; exact lineOK_fixed_directed
    · cases hq
  · cases hnm : X.name with
    | none => rw [hnm] at hq; cases hq
    | some nm =>
      rw [hnm] at hq
      simp only [List.mem_cons, List.not_mem_nil, or_false] at hq
      subst hq; exact lineOK_name nm
  · exact nodesLinesT_ok X.nodes.length hp.digits X.nodes 0 (by omega) q hq
  · exact edgeLinesT_ok X.nodes.length hp.digits _ hp.ends q hq
  · exact lineOK_fixed_close

/-- the token stream of the written text -/
def gmlToks (X : NxOut) : List Tok := (gmlLinesT X).flatMap (·.2) ++ [.eof]

theorem tokenize_gmlText (u : Bool) (X : NxOut) (hp : Printable X) : tokenize u (gmlText X) = gmlToks X := by
  have hok := gmlLinesT_ok X hp
  have hnl : ∀ l ∈ generateGml X, '\n' ∉ l := by
    intro l hl
    rw [← gmlLinesT_fst] at hl
    obtain ⟨q, hq, rfl⟩ := List.mem_map.1 hl
    exact fun hm => ((hok q hq).nonl _ hm).1 rfl
  have hcr : '\r' ∉ gmlText X := by
    intro hm
    simp only [gmlText, List.mem_append, List.mem_flatMap, List.mem_cons, List.not_mem_nil, or_false] at hm
    rcases hm with ⟨l, hl, hm | hm⟩ | hm
    · rw [← gmlLinesT_fst] at hl
      obtain ⟨q, hq, rfl⟩ := List.mem_map.1 hl
      exact ((hok q hq).nonl _ hm).2 rfl
    · revert hm; decide
    · revert hm; decide
  have htext : (if u then universalNL (gmlText X) else gmlText X) = gmlText X := by
    cases u
    · rfl
    · exact universalNL_id _ hcr
  unfold tokenize
  rw [htext]
  unfold gmlText
  rw [splitNL_lines _ _ hnl]
  have : splitNL ['\n'] = [[]] := by decide
  rw [this, ← gmlLinesT_fst, lexLines_ok _ _ hok, lexLines_last]
  rfl

/-! ### the parser on that token stream -/

def nodeVal (i : Nat) (p : Nat × Option Bool) : Val :=
  .dict ([("id".toList, .int (i : Int)), ("label".toList, .str (natStr p.1))] ++
         (match p.2 with
          | none => []
          | some b => [("bipartite".toList, .int (if b then 1 else 0))]))

def edgeVal (e : Nat × Nat) : Val := .dict [("source".toList, .int (e.1 : Int)), ("target".toList, .int (e.2 : Int))]

/-- what networkx makes of the graph name when it reads it back -/
def nameVal (nm : Str) : Val :=
  if nm = "()".toList then .tuple0 else if nm = "[]".toList then .list0 else .str nm

def nodeItems : Nat → List (Nat × Option Bool) → List (Str × Val)
  | _, [] => []
  | i, p :: ps => ("node".toList, nodeVal i p) :: nodeItems (i + 1) ps

def edgeItems (es : List (Nat × Nat)) : List (Str × Val) := es.map (fun e => ("edge".toList, edgeVal e))

def headItems (X : NxOut) : List (Str × Val) :=
  (if X.directed then [("directed".toList, .int 1)] else []) ++
  (match X.name with
   | none => []
   | some nm => [("name".toList, nameVal nm)])

def graphItems (X : NxOut) : List (Str × Val) :=
  headItems X ++ nodeItems 0 X.nodes ++ edgeItems (nxEdges X.directed X.nodes.length X.tedges)

theorem valOfString_natStr (v : Nat) : valOfString (natStr v) = .ok (.str (natStr v)) := by
  unfold valOfString
  rw [unescape_natStr]
  have hd := natStr_digits v
  have h1 : natStr v ≠ "()".toList := by
    intro e; have := hd '(' (by rw [e]; decide); revert this; decide
  have h2 : natStr v ≠ "[]".toList := by
    intro e; have := hd '[' (by rw [e]; decide); revert this; decide
  simp only [h1, h2, if_false]

theorem valOfString_escape (nm : Str) : valOfString (escape nm) = .ok (nameVal nm) := by
  simp only [valOfString, unescape_escape, nameVal]
  split
  · rfl
  · split <;> rfl

/-- the parser state inside `graph [ … ]` -/
def inGraph (cur : List (Str × Val)) : PState := ⟨[⟨"graph".toList, []⟩], cur, .wantKey, false⟩

theorem runP_node (i : Nat) (p : Nat × Option Bool) (cur : List (Str × Val)) (rest : List Tok) :
    runP (inGraph cur) ((nodeLinesT i p).flatMap (·.2) ++ rest) =
      runP (inGraph (("node".toList, nodeVal i p) :: cur)) rest := by
  obtain ⟨v, b⟩ := p
  have hd : ¬ (maxDepth ≤ 1) := by decide
  cases b with
  | none =>
    simp [nodeLinesT, runP, step, inGraph, keyT, PState.push, valOfString_natStr, nodeVal, hd]
  | some b =>
    cases b <;> simp [nodeLinesT, runP, step, inGraph, keyT, PState.push, valOfString_natStr, nodeVal, hd]

theorem runP_nodes (ps : List (Nat × Option Bool)) : ∀ (i : Nat) (cur : List (Str × Val)) (rest : List Tok),
    runP (inGraph cur) ((nodesLinesT i ps).flatMap (·.2) ++ rest) =
      runP (inGraph ((nodeItems i ps).reverse ++ cur)) rest := by
  induction ps with
  | nil => intro i cur rest; rfl
  | cons p ps ih =>
    intro i cur rest
    simp only [nodesLinesT, List.flatMap_append, List.append_assoc, runP_node, ih, nodeItems, List.reverse_cons,
      List.append_assoc, List.singleton_append]

theorem runP_edge (e : Nat × Nat) (cur : List (Str × Val)) (rest : List Tok) :
    runP (inGraph cur) ((edgeLinesT e).flatMap (·.2) ++ rest) =
      runP (inGraph (("edge".toList, edgeVal e) :: cur)) rest := by
  have hd : ¬ (maxDepth ≤ 1) := by decide
  simp [edgeLinesT, runP, step, inGraph, keyT, PState.push, edgeVal, hd]

theorem runP_edges (es : List (Nat × Nat)) : ∀ (cur : List (Str × Val)) (rest : List Tok),
    runP (inGraph cur) ((es.flatMap edgeLinesT).flatMap (·.2) ++ rest) =
      runP (inGraph ((edgeItems es).reverse ++ cur)) rest := by
  induction es with
  | nil => intro cur rest; rfl
  | cons e es ih =>
    intro cur rest
    simp only [List.flatMap_cons, List.flatMap_append, List.append_assoc, runP_edge, ih, edgeItems, List.map_cons,
      List.reverse_cons, List.append_assoc, List.singleton_append]

def headToks (X : NxOut) : List Tok :=
  (if X.directed then [keyT "directed", .int 1] else []) ++
  (match X.name with
   | none => []
   | some nm => [keyT "name", .str (escape nm)])

theorem gmlLinesT_toks (X : NxOut) : (gmlLinesT X).flatMap (·.2) =
    [keyT "graph", .lb] ++ (headToks X ++ ((nodesLinesT 0 X.nodes).flatMap (·.2) ++
      (((nxEdges X.directed X.nodes.length X.tedges).flatMap edgeLinesT).flatMap (·.2) ++ [.rb]))) := by
  unfold gmlLinesT headToks
  cases X.directed <;> cases X.name <;> simp [List.flatMap_append]

theorem runP_head (X : NxOut) (rest : List Tok) :
    runP (inGraph []) (headToks X ++ rest) = runP (inGraph (headItems X).reverse) rest := by
  unfold headToks headItems
  cases X.directed <;> cases X.name <;>
    simp [runP, step, inGraph, keyT, PState.push, valOfString_escape]

theorem parseToks_gmlToks (X : NxOut) : parseToks (gmlToks X) = .ok [("graph".toList, .dict (graphItems X))] := by
  unfold parseToks gmlToks
  rw [gmlLinesT_toks]
  simp only [List.append_assoc]
  have hd : ¬ (maxDepth ≤ 0) := by decide
  have h0 : ∀ rest, runP initP ([keyT "graph", .lb] ++ rest) = runP (inGraph []) rest := by
    intro rest
    simp [runP, step, initP, inGraph, keyT, hd]
  rw [h0, runP_head, runP_nodes, runP_edges]
  simp [runP, step, inGraph, graphItems, List.reverse_append]

end Cnfgen.Gml
