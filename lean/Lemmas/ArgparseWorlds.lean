/-
The namespaces the extended parser produces for `php` and the `compose_two_parsers` sub-commands belong to one of the
worlds of CnfgenModel/Cli/ArgparseAbs.lean (`parseX_in_world`): what the custom action binds comes from ONE sub-parser,
typed and complete; the other dests are the flags of the main parser or do not exist.  With the soundness of the abstract
interpreter this gives the totality of the interpreter for these sub-commands (`dispatchX_total_special`).
-/
import Lemmas.ArgparseAbsSound
import Lemmas.ArgparseInv
import Lemmas.ArgparseDispatchTotal
namespace Cnfgen.Cli.AP
open Cnfgen.Gen Cnfgen.Cli

/-! ### the action of a positional of a sub-parser -/

theorem subOptOK_parts (o : OptSpec) (h : subOptOK o = true) :
    (o.action == "PHPArgs") = false ∧ (o.action == "compose_two_parsers") = false ∧ isFileType o.ty = false := by
  unfold subOptOK at h
  simp only [Bool.and_eq_true, bne_iff_ne, ne_eq, Bool.not_eq_true'] at h
  exact ⟨by simpa using h.1.1.1.1, by simpa using h.1.1.1.2, h.1.1.2⟩

/-- the value a sub-parser's positional stores is of its kind (`subAV`), or the empty list of the quirk -/
theorem bindBase_sub (o : OptSpec) (h : subOptOK o = true) (toks : List String) (b : Ns)
    (hb : bindBase o toks = .ok b) :
    ∃ v, b = [(o.dest, v)] ∧ (gam (subAV o) v ∨ (v = .ints [] ∧ o.arity = .one)) := by
  obtain ⟨h1, h2, h3⟩ := subOptOK_parts o h
  unfold subOptOK at h
  simp only [Bool.and_eq_true] at h
  have hk := h.2
  unfold bindBase at hb
  simp only [h3, Bool.false_eq_true, if_false] at hb
  split at hb
  · rename_i ha
    simp at hb; subst hb
    exact ⟨_, rfl, Or.inr ⟨rfl, ha⟩⟩
  · rename_i ha
    split at hb
    · rename_i k _
      simp at hb; subst hb
      refine ⟨_, rfl, Or.inl ?_⟩
      simp only [subAV, ha, gam]
      exact ⟨k, [], rfl⟩
    · simp at hb
  · have hbo := liftE_ok _ _ hb
    unfold bindOne at hbo
    simp only [h1, h2, Bool.false_eq_true, if_false] at hbo
    cases har : o.arity with
    | one =>
      rw [har] at hbo hk
      dsimp only at hbo hk
      split at hbo
      · rename_i t
        split at hbo
        · rename_i v hcv
          simp at hbo; subst hbo
          refine ⟨v, rfl, Or.inl ?_⟩
          unfold convertOne at hcv
          simp only [subAV, har]
          by_cases hty : o.ty = ""
          · simp only [hty, beq_self_eq_true, if_true] at hcv
            have hch : o.choices.isEmpty = false := by
              simp only [hty, bne_self_eq_false, Bool.false_or, Bool.not_eq_true'] at hk
              exact hk
            simp only [hch, Bool.false_or] at hcv
            split at hcv
            · rename_i hin
              simp at hcv; subst hcv
              simp [hty, hch, gam]
              simpa using hin
            · simp at hcv
          · have hty' : (o.ty == "") = false := by simpa using hty
            simp only [hty', Bool.false_eq_true, if_false] at hcv
            simp at hcv
            obtain ⟨i, _, rfl⟩ := hcv
            simp [hty, gam]
        · simp at hbo
      · simp at hbo
    | opt =>
      rw [har] at hbo hk
      dsimp only at hbo hk
      simp only [Bool.and_eq_true, bne_iff_ne, ne_eq] at hk
      have hty' : (o.ty == "") = false := by simpa using hk.1
      split at hbo
      · simp at hbo; subst hbo
        refine ⟨_, rfl, Or.inl ?_⟩
        simp only [subAV, har, hk.1, bne_iff_ne, ne_eq, not_false_eq_true, if_true]
        cases hd : o.defaultVal <;> rw [hd] at hk <;> simp at hk <;> simp [gam]
      · rename_i t
        split at hbo
        · rename_i v hcv
          simp at hbo; subst hbo
          refine ⟨v, rfl, Or.inl ?_⟩
          unfold convertOne at hcv
          simp only [hty', Bool.false_eq_true, if_false] at hcv
          simp at hcv
          obtain ⟨i, _, rfl⟩ := hcv
          simp only [subAV, har, hk.1, bne_iff_ne, ne_eq, not_false_eq_true, if_true]
          cases hd : o.defaultVal <;> rw [hd] at hk <;> simp at hk <;> simp [gam]
        · simp at hbo
      · simp at hbo
    | plus =>
      rw [har] at hbo
      dsimp only at hbo
      split at hbo
      · rename_i k _ _ _
        simp at hbo; subst hbo
        refine ⟨_, rfl, Or.inl ?_⟩
        simp only [subAV, har, gam]
        exact ⟨_, _, rfl⟩
      · simp at hbo
    | zero => rw [har] at hk; simp at hk
    | star => rw [har] at hk; simp at hk
    | other => rw [har] at hk; simp at hk

end Cnfgen.Cli.AP
