/-
The namespaces the extended parser produces for `php` and the `compose_two_parsers` sub-commands belong to one of the
worlds of CnfgenModel/Cli/ArgparseAbs.lean (`parseX_in_world`): what the custom action binds comes from ONE sub-parser,
typed and complete; the other dests are the flags of the main parser or do not exist.  With the soundness of the abstract
interpreter this gives the totality of the interpreter for these sub-commands (`dispatchX_total_special`).
-/
import Lemmas.ArgparseAbsSound
import Lemmas.ArgparseInv
import Lemmas.ArgparseDispatchTotal
namespace Cnfgen.Cli.AP
open Cnfgen.Gen Cnfgen.Cli

/-! ### the action of a positional of a sub-parser -/

theorem subOptOK_parts (o : OptSpec) (h : subOptOK o = true) :
    (o.action == "PHPArgs") = false ∧ (o.action == "compose_two_parsers") = false ∧ isFileType o.ty = false := by
  unfold subOptOK at h
  simp only [Bool.and_eq_true, bne_iff_ne, ne_eq, Bool.not_eq_true'] at h
  exact ⟨by simpa using h.1.1.1.1, by simpa using h.1.1.1.2, h.1.1.2⟩

/-- the value a sub-parser's positional stores is of its kind (`subAV`), or the empty list of the quirk -/
theorem bindBase_sub (o : OptSpec) (h : subOptOK o = true) (toks : List String) (b : Ns)
    (hb : bindBase o toks = .ok b) :
    ∃ v, b = [(o.dest, v)] ∧ (gam (subAV o) v ∨ (v = .ints [] ∧ o.arity = .one)) := by
  obtain ⟨h1, h2, h3⟩ := subOptOK_parts o h
  unfold subOptOK at h
  simp only [Bool.and_eq_true] at h
  have hk := h.2
  unfold bindBase at hb
  simp only [h3, Bool.false_eq_true, if_false] at hb
  split at hb
  · rename_i ha
    simp at hb; subst hb
    exact ⟨_, rfl, Or.inr ⟨rfl, ha⟩⟩
  · rename_i ha
    split at hb
    · rename_i k _
      simp at hb; subst hb
      refine ⟨_, rfl, Or.inl ?_⟩
      simp only [subAV, ha, gam]
      exact ⟨k, [], rfl⟩
    · simp at hb
  · have hbo := liftE_ok _ _ hb
    unfold bindOne at hbo
    simp only [h1, h2, Bool.false_eq_true, if_false] at hbo
    cases har : o.arity with
    | one =>
      rw [har] at hbo hk
      dsimp only at hbo hk
      split at hbo
      · rename_i t
        split at hbo
        · rename_i v hcv
          simp at hbo; subst hbo
          refine ⟨v, rfl, Or.inl ?_⟩
          unfold convertOne at hcv
          simp only [subAV, har]
          by_cases hty : o.ty = ""
          · simp only [hty, beq_self_eq_true, if_true] at hcv
            have hch : o.choices.isEmpty = false := by
              simp only [hty, bne_self_eq_false, Bool.false_or, Bool.not_eq_true'] at hk
              exact hk
            simp only [hch, Bool.false_or] at hcv
            split at hcv
            · rename_i hin
              simp at hcv; subst hcv
              simp [hty, hch, gam]
              simpa using hin
            · simp at hcv
          · have hty' : (o.ty == "") = false := by simpa using hty
            simp only [hty', Bool.false_eq_true, if_false] at hcv
            simp at hcv
            obtain ⟨i, _, rfl⟩ := hcv
            simp [hty, gam]
        · simp at hbo
      · simp at hbo
    | opt =>
      rw [har] at hbo hk
      dsimp only at hbo hk
      simp only [Bool.and_eq_true, bne_iff_ne, ne_eq] at hk
      have hty' : (o.ty == "") = false := by simpa using hk.1
      split at hbo
      · simp at hbo; subst hbo
        refine ⟨_, rfl, Or.inl ?_⟩
        simp only [subAV, har, hk.1, bne_iff_ne, ne_eq, not_false_eq_true, if_true]
        cases hd : o.defaultVal <;> rw [hd] at hk <;> simp at hk <;> simp [gam]
      · rename_i t
        split at hbo
        · rename_i v hcv
          simp at hbo; subst hbo
          refine ⟨v, rfl, Or.inl ?_⟩
          unfold convertOne at hcv
          simp only [hty', Bool.false_eq_true, if_false] at hcv
          simp at hcv
          obtain ⟨i, _, rfl⟩ := hcv
          simp only [subAV, har, hk.1, bne_iff_ne, ne_eq, not_false_eq_true, if_true]
          cases hd : o.defaultVal <;> rw [hd] at hk <;> simp at hk <;> simp [gam]
        · simp at hbo
      · simp at hbo
    | plus =>
      rw [har] at hbo
      dsimp only at hbo
      split at hbo
      · rename_i k _ _ _
        simp at hbo; subst hbo
        refine ⟨_, rfl, Or.inl ?_⟩
        simp only [subAV, har, gam]
        exact ⟨_, _, rfl⟩
      · simp at hbo
    | zero => rw [har] at hk; simp at hk
    | star => rw [har] at hk; simp at hk
    | other => rw [har] at hk; simp at hk

/-! ### what a sub-parser binds -/

/-- a binding of a sub-parser: under the dest of one of its positionals, of that positional's kind (or the quirk) -/
def SubB (subps : List OptSpec) (q : String × Val) : Prop :=
  ∃ o ∈ subps, q.1 = o.dest ∧ (gam (subAV o) q.2 ∨ (q.2 = .ints [] ∧ o.arity = .one))

/-- the sub-parser's run: every binding is one of its positionals', and every positional is bound -/
theorem subEngine_facts (subps : List OptSpec) (hok : ∀ o ∈ subps, subOptOK o = true) (toks : List String)
    (b : Ns) (h : engine bindBase ⟨[], subps⟩ toks = .ok b) :
    (∀ q ∈ b, SubB subps q) ∧ (∀ o ∈ subps, ∃ v, (o.dest, v) ∈ b) := by
  constructor
  · have hK : EngInv bindBase (fun _ => False) (fun o => o ∈ subps) (fun _ ns => ∀ q ∈ ns, SubB subps q) := by
      refine ⟨fun o toks b' ps ns hf _ _ => absurd hf id, ?_⟩
      intro o toks' b' ps ns ho hb hk q hq
      rcases List.mem_append.1 hq with hq | hq
      · obtain ⟨v, rfl, hv⟩ := bindBase_sub o (hok o ho) toks' b' hb
        simp at hq; subst hq
        exact ⟨o, ho, rfl, hv⟩
      · exact hk q hq
    exact engine_inv hK ⟨[], subps⟩ (by intro o ho; simp at ho) (by intro o ho; simp at ho) (fun o ho => ho)
      toks b (by intro q hq; simp at hq) h
  · have hK : EngInv bindBase (fun _ => False) (fun o => o ∈ subps)
        (fun ps ns => ∃ done, subps = done ++ ps ∧ ∀ o ∈ done, ∃ v, (o.dest, v) ∈ ns) := by
      refine ⟨fun o toks b' ps ns hf _ _ => absurd hf id, ?_⟩
      intro o toks' b' ps ns ho hb hk
      obtain ⟨done, h1, h2⟩ := hk
      refine ⟨done ++ [o], by simp [h1], fun o' ho' => ?_⟩
      rcases List.mem_append.1 ho' with ho' | ho'
      · obtain ⟨v, hv⟩ := h2 o' ho'
        exact ⟨v, List.mem_append_right _ hv⟩
      · simp at ho'; subst ho'
        obtain ⟨v, rfl, _⟩ := bindBase_sub o' (hok o' ho) toks' b' hb
        exact ⟨v, by simp⟩
    have := engine_inv hK ⟨[], subps⟩ (by intro o ho; simp at ho) (by intro o ho; simp at ho) (fun o ho => ho)
      toks b ⟨[], by simp, by simp⟩ h
    obtain ⟨done, h1, h2⟩ := this
    intro o ho
    rw [h1] at ho
    simp at ho
    exact h2 o ho

/-! ### what the custom action binds: one of the special worlds -/

/-- a binding under a dest of the world `sw`, of its kind — or the empty list of the quirk, under a single-argument dest -/
def SubT (s : CliSpec) (sw : World) (q : String × Val) : Prop :=
  ∃ a, sw.lookup q.1 = some a ∧ (gam a q.2 ∨ (q.2 = .ints [] ∧ quirkDest s q.1 = true))

/-- the bindings are those of the world `sw`, all of them -/
def InWorld (s : CliSpec) (sw : World) (b : Ns) : Prop :=
  (∀ q ∈ b, SubT s sw q) ∧ (∀ p ∈ sw, ∃ v, (p.1, v) ∈ b)

theorem lookup_map_nodup (l : List OptSpec) (g : OptSpec → AV) (h : (l.map (·.dest)).Nodup) (o : OptSpec)
    (ho : o ∈ l) : (l.map (fun x => (x.dest, g x))).lookup o.dest = some (g o) := by
  induction l with
  | nil => simp at ho
  | cons x rest ih =>
    simp only [List.map_cons, List.nodup_cons] at h
    rcases List.mem_cons.1 ho with rfl | ho
    · simp [List.lookup]
    · have hne : o.dest ≠ x.dest := by
        intro e
        exact h.1 (e ▸ List.mem_map.2 ⟨o, ho, rfl⟩)
      have : (o.dest == x.dest) = false := by simpa using hne
      simp only [List.map_cons, List.lookup, this]
      exact ih h.2 ho

/-- `compose_two_parsers`: the bindings are those of the chosen sub-parser's world -/
theorem composeX_world (s : CliSpec) (o : OptSpec) (p1 p2 : String) (hc : o.compose = [p1, p2])
    (hok : ∀ p ∈ [p1, p2], (∀ x ∈ subPositionals s p, subOptOK x = true) ∧
      ((subPositionals s p).map (·.dest)).Nodup)
    (toks : List String) (b : Ns) (h : composeX s o toks = .ok b) :
    ∃ p ∈ [p1, p2], InWorld s (subWorld s p) b := by
  unfold composeX at h
  rw [hc] at h
  cases toks with
  | nil => simp at h
  | cons t r =>
    dsimp only at h
    have key : ∀ p ∈ [p1, p2], engine bindBase ⟨[], subPositionals s p⟩ (t :: r) = .ok b →
        InWorld s (subWorld s p) b := by
      intro p hp he
      obtain ⟨hsub, hnd⟩ := hok p hp
      obtain ⟨f1, f2⟩ := subEngine_facts (subPositionals s p) hsub (t :: r) b he
      constructor
      · intro q hq
        obtain ⟨x, hx, hd, hv⟩ := f1 q hq
        refine ⟨subAV x, ?_, ?_⟩
        · rw [hd]; exact lookup_map_nodup _ subAV hnd x hx
        · rcases hv with hv | ⟨hv, ha⟩
          · exact Or.inl hv
          · refine Or.inr ⟨hv, ?_⟩
            unfold quirkDest
            rw [List.any_eq_true]
            refine ⟨x, ?_, by simp [hd, ha]⟩
            unfold subPositionals at hx
            exact (List.mem_filter.1 hx).1
      · intro pr hpr
        unfold subWorld at hpr
        obtain ⟨x, hx, rfl⟩ := List.mem_map.1 hpr
        exact f2 x hx
    by_cases hfl : pyFloatOk t = true
    · simp only [hfl, if_true] at h
      exact ⟨p1, by simp, key p1 (by simp) h⟩
    · simp only [hfl, Bool.false_eq_true, if_false] at h
      exact ⟨p2, by simp, key p2 (by simp) h⟩

theorem phpInner_facts : (∀ o ∈ phpInner.poss, subOptOK o = true ∧ o.dest = "B" ∧ subAV o = .graphAny ∧
    o.arity = .plus) := by decide

theorem phpArgs_shape (toks : List String) (b : Ns) (h : phpArgs toks = .ok b) :
    (∃ k t, b = [("B", .graph k t)]) ∨
    (∃ d hh p : Int, b = [("degree", .int d), ("holes", .int hh), ("pigeons", .int p)]) := by
  unfold phpArgs at h
  repeat' split at h
  all_goals first
    | (simp at h; done)
    | (simp at h; subst h; exact Or.inl ⟨_, _, rfl⟩)
    | (simp at h; subst h; exact Or.inr ⟨_, _, _, rfl⟩)

/-- `PHPArgs`: the graph form binds `B`, the numeric form binds `degree`, `holes`, `pigeons` -/
theorem phpArgsX_world (s : CliSpec) (toks : List String) (b : Ns) (h : phpArgsX toks = .ok b) :
    ∃ sw ∈ phpWorlds, InWorld s sw b := by
  unfold phpArgsX at h
  cases toks with
  | nil => simp at h
  | cons t r =>
    dsimp only at h
    have graphCase : ∀ k tk, b = [("B", Val.graph k tk)] → ∃ sw ∈ phpWorlds, InWorld s sw b := by
      intro k tk hb
      subst hb
      refine ⟨[("B", .graphAny)], by simp [phpWorlds], ?_, ?_⟩
      · intro q hq
        simp at hq; subst hq
        exact ⟨.graphAny, by simp [List.lookup], Or.inl ⟨k, tk, rfl⟩⟩
      · intro pr hpr
        simp at hpr; subst hpr
        exact ⟨Val.graph k tk, by simp⟩
    split at h
    · -- the inner parser
      obtain ⟨f1, f2⟩ := subEngine_facts phpInner.poss (fun o ho => (phpInner_facts o ho).1) (t :: r) b
        (by simpa [phpInner] using h)
      refine ⟨[("B", .graphAny)], by simp [phpWorlds], ?_, ?_⟩
      · intro q hq
        obtain ⟨o, ho, hd, hv⟩ := f1 q hq
        obtain ⟨_, hdest, hav, har⟩ := phpInner_facts o ho
        refine ⟨.graphAny, by rw [hd, hdest]; simp [List.lookup], ?_⟩
        rcases hv with hv | ⟨_, ha⟩
        · rw [hav] at hv; exact Or.inl hv
        · rw [har] at ha; cases ha
      · intro pr hpr
        simp at hpr; subst hpr
        have : ∃ o, o ∈ phpInner.poss := by
          cases hp : phpInner.poss with
          | nil => simp [phpInner] at hp
          | cons x xs => exact ⟨x, by simp⟩
        obtain ⟨o, ho⟩ := this
        obtain ⟨v, hv⟩ := f2 o ho
        rw [(phpInner_facts o ho).2.1] at hv
        exact ⟨v, hv⟩
    · have hb := liftE_ok _ _ h
      rcases phpArgs_shape (t :: r) b hb with ⟨k, tk, hbk⟩ | ⟨d, hh, pp, hbn⟩
      · exact graphCase k tk hbk
      · subst hbn
        refine ⟨[("degree", .int), ("holes", .int), ("pigeons", .int)], by simp [phpWorlds], ?_, ?_⟩
        · intro q hq
          simp at hq
          rcases hq with rfl | rfl | rfl
          · exact ⟨.int, by simp [List.lookup], Or.inl ⟨_, rfl⟩⟩
          · exact ⟨.int, by simp [List.lookup], Or.inl ⟨_, rfl⟩⟩
          · exact ⟨.int, by simp [List.lookup], Or.inl ⟨_, rfl⟩⟩
        · intro pr hpr
          simp at hpr
          rcases hpr with rfl | rfl | rfl
          · exact ⟨Val.int d, by simp⟩
          · exact ⟨Val.int hh, by simp⟩
          · exact ⟨Val.int pp, by simp⟩

/-! ### the table facts -/

structure WorldTables (s : CliSpec) (sp : OptSpec) : Prop where
  hsp : specialOpts s = [sp]
  hpos : positionals s = [sp]
  hflag : ∀ o ∈ flagOpts s, o.arity = .zero ∧ isFileType o.ty = false ∧ o.positional = false
  hsw : ∀ sw ∈ specialWorlds s, (keysOf sw).Nodup ∧
    ∀ d ∈ keysOf sw, d ∉ (flagOpts s).map (·.dest) ∧ d ∉ (specialOpts s).map (·.dest)
  hfd : ∀ d ∈ (flagOpts s).map (·.dest), d ∉ (specialOpts s).map (·.dest)
  hraise : ∀ t ∈ s.templates, (t.raises == "" || shielded t.raises) = true
  hbind : ∀ toks b, mainBind s sp toks = .ok b → ∃ sw ∈ specialWorlds s, InWorld s sw b

theorem worldTables_of (s : CliSpec) (h : worldTablesOK s = true) : ∃ sp, WorldTables s sp := by
  unfold worldTablesOK at h
  simp only [Bool.and_eq_true] at h
  obtain ⟨⟨⟨⟨⟨⟨h1, h2⟩, h3⟩, h4⟩, h5⟩, h6⟩, h7⟩ := h
  have h1' : positionals s = specialOpts s := by simpa using h1
  obtain ⟨sp, hsp⟩ : ∃ sp, specialOpts s = [sp] := by
    cases hl : specialOpts s with
    | nil => rw [hl] at h2; simp at h2
    | cons x xs =>
      cases xs with
      | nil => exact ⟨x, rfl⟩
      | cons y ys => rw [hl] at h2; simp at h2
  refine ⟨sp, hsp, by rw [h1', hsp], ?_, ?_, ?_, ?_, ?_⟩
  · intro o ho
    have := (List.all_eq_true.1 h3) o ho
    simp only [Bool.and_eq_true, beq_iff_eq, Bool.not_eq_true'] at this
    exact ⟨this.1.1, this.1.2, this.2⟩
  · intro sw hsw
    have := (List.all_eq_true.1 h4) sw hsw
    simp only [Bool.and_eq_true, decide_eq_true_eq, List.all_eq_true, Bool.not_eq_true', List.contains_eq_mem,
      decide_eq_false_iff_not] at this
    exact ⟨this.1, fun d hd => this.2 d hd⟩
  · intro d hd
    have := (List.all_eq_true.1 h5) d hd
    simpa using this
  · exact List.all_eq_true.1 h6
  · -- what the custom action binds
    intro toks b hb
    have hspm : sp ∈ specialOpts s := by rw [hsp]; simp
    by_cases hphp : (s.cls == "PHPCmdHelper") = true
    · simp only [hphp, if_true] at h7
      have hact : sp.action = "PHPArgs" := by simpa using (List.all_eq_true.1 h7) sp hspm
      unfold mainBind at hb
      simp only [hact, beq_self_eq_true, if_true] at hb
      unfold specialWorlds
      simp only [hphp, if_true]
      exact phpArgsX_world s toks b hb
    · have hphp' : (s.cls == "PHPCmdHelper") = false := by simpa using hphp
      simp only [hphp', Bool.false_eq_true, if_false] at h7
      have := (List.all_eq_true.1 h7) sp hspm
      simp only [Bool.and_eq_true, beq_iff_eq, List.all_eq_true, decide_eq_true_eq] at this
      obtain ⟨⟨⟨hact, hlen⟩, hsub⟩, hfind⟩ := this
      unfold mainBind at hb
      have hnp : (sp.action == "PHPArgs") = false := by rw [hact]; decide
      simp only [hnp, Bool.false_eq_true, if_false, hact, beq_self_eq_true, if_true] at hb
      obtain ⟨p1, p2, hc⟩ : ∃ p1 p2, sp.compose = [p1, p2] := by
        cases hcm : sp.compose with
        | nil => rw [hcm] at hlen; simp at hlen
        | cons a l =>
          cases l with
          | nil => rw [hcm] at hlen; simp at hlen
          | cons c l2 =>
            cases l2 with
            | nil => exact ⟨a, c, rfl⟩
            | cons d l3 => rw [hcm] at hlen; simp at hlen
      obtain ⟨p, hp, hin⟩ := composeX_world s sp p1 p2 hc (fun p hp => by
        have := hsub p (by rw [hc]; exact hp)
        exact ⟨fun x hx => this.1 x hx, this.2⟩) toks b hb
      refine ⟨subWorld s p, ?_, hin⟩
      unfold specialWorlds
      simp only [hphp', Bool.false_eq_true, if_false, hfind, hc]
      simp only [List.mem_cons, List.mem_singleton, List.not_mem_nil, or_false] at hp
      rcases hp with rfl | rfl <;> simp

/-! ### the bindings of the main parser -/

/-- the binding of a flag of the main parser -/
def FlagB (s : CliSpec) (q : String × Val) : Prop := ∃ o ∈ flagOpts s, q = (o.dest, o.flagVal)

theorem flag_bind (s : CliSpec) (sp : OptSpec) (ht : WorldTables s sp) (o : OptSpec) (ho : o ∈ flagOpts s)
    (toks : List String) (b : Ns) (h : mainBind s o toks = .ok b) : b = [(o.dest, o.flagVal)] := by
  obtain ⟨h0, hft, _⟩ := ht.hflag o ho
  have hns : isSpecial o = false := by
    unfold flagOpts at ho
    simpa using (List.mem_filter.1 ho).2
  unfold isSpecial at hns
  simp only [Bool.or_eq_false_iff] at hns
  unfold mainBind at h
  simp only [hns.1, hns.2, Bool.false_eq_true, if_false] at h
  unfold bindBase at h
  simp only [hft, Bool.false_eq_true, if_false, h0] at h
  have := liftE_ok _ _ h
  unfold bindOne at this
  simp only [hns.1, hns.2, Bool.false_eq_true, if_false, h0] at this
  simp at this
  exact this.symm

/-- what the extended parser binds for `php` / a composed sub-command: flags of the main parser, and the bindings of ONE
world of the custom action, all of them -/
theorem parseX_special (s : CliSpec) (sp : OptSpec) (ht : WorldTables s sp) (argv : List String) (b : Ns)
    (hp : parseX s argv = .ok b) :
    ∃ sw ∈ specialWorlds s, (∀ q ∈ b, FlagB s q ∨ SubT s sw q) ∧ (∀ p ∈ sw, ∃ v, (p.1, v) ∈ b) := by
  have hK : EngInv (mainBind s) (fun o => o ∈ flagOpts s) (fun o => o = sp)
      (fun ps ns => (ps = [sp] ∧ ∀ q ∈ ns, FlagB s q) ∨
        (ps = [] ∧ ∃ sw ∈ specialWorlds s, (∀ q ∈ ns, FlagB s q ∨ SubT s sw q) ∧ (∀ p ∈ sw, ∃ v, (p.1, v) ∈ ns))) := by
    refine ⟨?_, ?_⟩
    · intro o toks b' ps ns ho hb hk
      have hb' := flag_bind s sp ht o ho toks b' hb
      subst hb'
      rcases hk with ⟨h1, h2⟩ | ⟨h1, sw, hsw, h2, h3⟩
      · refine Or.inl ⟨h1, fun q hq => ?_⟩
        rcases List.mem_append.1 hq with hq | hq
        · simp at hq; exact ⟨o, ho, hq⟩
        · exact h2 q hq
      · refine Or.inr ⟨h1, sw, hsw, fun q hq => ?_, fun p hp => ?_⟩
        · rcases List.mem_append.1 hq with hq | hq
          · simp at hq; exact Or.inl ⟨o, ho, hq⟩
          · exact h2 q hq
        · obtain ⟨v, hv⟩ := h3 p hp
          exact ⟨v, List.mem_append_right _ hv⟩
    · intro o toks b' ps ns ho hb hk
      subst ho
      rcases hk with ⟨h1, h2⟩ | ⟨h1, _⟩
      · have hps : ps = [] := by simpa using h1
        obtain ⟨sw, hsw, hin1, hin2⟩ := ht.hbind toks b' hb
        refine Or.inr ⟨hps, sw, hsw, fun q hq => ?_, fun p hp => ?_⟩
        · rcases List.mem_append.1 hq with hq | hq
          · exact Or.inr (hin1 q hq)
          · exact Or.inl (h2 q hq)
        · obtain ⟨v, hv⟩ := hin2 p hp
          exact ⟨v, List.mem_append_left _ hv⟩
      · simp at h1
  have hopts : ∀ o ∈ (mainSpec s).opts, o ∈ flagOpts s := by
    intro o ho
    unfold mainSpec at ho
    simp only [List.mem_filter, Bool.not_eq_true'] at ho
    unfold flagOpts
    refine List.mem_filter.2 ⟨ho.1, ?_⟩
    -- a special option is positional
    by_cases hsp' : isSpecial o = true
    · exfalso
      have : o ∈ specialOpts s := List.mem_filter.2 ⟨ho.1, hsp'⟩
      rw [ht.hsp] at this
      simp at this
      subst this
      have hpos : o ∈ positionals s := by rw [ht.hpos]; simp
      unfold positionals at hpos
      have := (List.mem_filter.1 hpos).2
      rw [ho.2] at this
      simp at this
    · simpa using hsp'
  have := engine_inv hK (mainSpec s)
    (fun o ho => Or.inl (ht.hflag o (hopts o ho)).1) hopts
    (fun o ho => by
      have : (mainSpec s).poss = positionals s := rfl
      rw [this, ht.hpos] at ho
      simpa using ho)
    argv b (Or.inl ⟨by show positionals s = [sp]; exact ht.hpos, by intro q hq; simp at hq⟩) hp
  rcases this with ⟨h1, _⟩ | ⟨_, h2⟩
  · simp at h1
  · exact h2

/-! ### kinds of the flags -/

theorem gam_avOfVal (v : Val) : gam (avOfVal v) v := by
  cases v with
  | bool b => cases b <;> simp [avOfVal, gam]
  | none => simp [avOfVal, gam]
  | int i => simp [avOfVal, gam]
  | str s => simp [avOfVal, gam]
  | _ => simp [avOfVal, gam]

theorem joinAV_left (a b : AV) (v : Val) (h : gam a v) : gam (joinAV a b) v := by
  unfold joinAV
  split
  · exact h
  · split
    · rename_i hc
      simp only [Bool.and_eq_true, Bool.or_eq_true, beq_iff_eq] at hc
      rcases hc.1 with (rfl | rfl) | rfl
      · exact ⟨true, h⟩
      · exact ⟨false, h⟩
      · exact h
    · split
      · rename_i hc
        simp only [Bool.and_eq_true] at hc
        split
        · rename_i hi
          simp only [Bool.and_eq_true] at hi
          exact isIntLike_val a v hi.1 h
        · exact isIntNone_val a v hc.1 h
      · trivial

theorem joinAV_right (a b : AV) (v : Val) (h : gam b v) : gam (joinAV a b) v := by
  unfold joinAV
  split
  · rename_i he
    have : a = b := by simpa using he
    rw [this]; exact h
  · split
    · rename_i hc
      simp only [Bool.and_eq_true, Bool.or_eq_true, beq_iff_eq] at hc
      rcases hc.2 with (rfl | rfl) | rfl
      · exact ⟨true, h⟩
      · exact ⟨false, h⟩
      · exact h
    · split
      · rename_i hc
        simp only [Bool.and_eq_true] at hc
        split
        · rename_i hi
          simp only [Bool.and_eq_true] at hi
          exact isIntLike_val b v hi.2 h
        · exact isIntNone_val b v hc.2 h
      · trivial

theorem foldJoin_mono (l : List OptSpec) : ∀ (acc : AV) (v : Val), gam acc v →
    gam (l.foldl (fun a o' => joinAV (joinAV a (avOfVal o'.flagVal)) (avOfVal o'.defaultVal)) acc) v := by
  induction l with
  | nil => intro acc v h; exact h
  | cons o rest ih =>
    intro acc v h
    simp only [List.foldl_cons]
    exact ih _ v (joinAV_left _ _ v (joinAV_left _ _ v h))

theorem foldJoin_mem (l : List OptSpec) : ∀ (acc : AV) (o : OptSpec), o ∈ l →
    gam (l.foldl (fun a o' => joinAV (joinAV a (avOfVal o'.flagVal)) (avOfVal o'.defaultVal)) acc) o.flagVal ∧
    gam (l.foldl (fun a o' => joinAV (joinAV a (avOfVal o'.flagVal)) (avOfVal o'.defaultVal)) acc) o.defaultVal := by
  induction l with
  | nil => intro acc o ho; simp at ho
  | cons x rest ih =>
    intro acc o ho
    simp only [List.foldl_cons]
    rcases List.mem_cons.1 ho with rfl | ho
    · exact ⟨foldJoin_mono rest _ _ (joinAV_left _ _ _ (joinAV_right _ _ _ (gam_avOfVal _))),
        foldJoin_mono rest _ _ (joinAV_right _ _ _ (gam_avOfVal _))⟩
    · exact ih _ o ho

/-- the kind of a flag dest covers what its options store and their defaults -/
theorem flagAV_sound (s : CliSpec) (d : String) (o : OptSpec) (ho : o ∈ mainOpts s) (hd : o.dest = d) :
    gam (flagAV s d) o.flagVal ∧ gam (flagAV s d) o.defaultVal := by
  have hmem : o ∈ (mainOpts s).filter (fun o => o.dest == d) := List.mem_filter.2 ⟨ho, by simpa using hd⟩
  unfold flagAV
  cases hl : (mainOpts s).filter (fun o => o.dest == d) with
  | nil => rw [hl] at hmem; simp at hmem
  | cons x rest =>
    rw [hl] at hmem
    dsimp only
    rcases List.mem_cons.1 hmem with rfl | hm
    · exact ⟨foldJoin_mono rest _ _ (joinAV_left _ _ _ (gam_avOfVal _)),
        foldJoin_mono rest _ _ (joinAV_right _ _ _ (gam_avOfVal _))⟩
    · exact foldJoin_mem rest _ o hm

/-! ### the namespace belongs to a world -/

theorem lookup_map_dest {β : Type} (l : List OptSpec) (f : OptSpec → β) (d : String) :
    ((l.map (fun o => (o.dest, f o))).lookup d = none ↔ d ∉ l.map (·.dest)) ∧
    (∀ v, (l.map (fun o => (o.dest, f o))).lookup d = some v → ∃ o ∈ l, o.dest = d ∧ v = f o) := by
  induction l with
  | nil => simp
  | cons x rest ih =>
    simp only [List.map_cons, List.lookup, List.mem_cons, not_or]
    cases hk : d == x.dest with
    | true =>
      have hd : d = x.dest := by simpa using hk
      refine ⟨⟨fun h => by simp at h, fun h => absurd hd h.1⟩, fun v hv => ?_⟩
      simp at hv
      exact ⟨x, by simp, hd.symm, hv.symm⟩
    | false =>
      have hd : d ≠ x.dest := by simpa using hk
      refine ⟨⟨fun h => ⟨hd, ih.1.1 h⟩, fun h => ih.1.2 h.2⟩, fun v hv => ?_⟩
      obtain ⟨o, ho, h1, h2⟩ := ih.2 v hv
      exact ⟨o, by simp [ho], h1, h2⟩

theorem lookup_keys_none (w : World) (d : String) : w.lookup d = none ↔ d ∉ keysOf w := by
  unfold keysOf
  induction w with
  | nil => simp
  | cons p rest ih =>
    obtain ⟨k, a⟩ := p
    simp only [List.lookup, List.map_cons, List.mem_cons, not_or]
    cases hk : d == k with
    | true => have : d = k := by simpa using hk
              exact ⟨fun h => by simp at h, fun h => absurd this h.1⟩
    | false => have : d ≠ k := by simpa using hk
               exact ⟨fun h => ⟨this, ih.1 h⟩, fun h => ih.2 h.2⟩

theorem lookup_mem_world (w : World) (d : String) (a : AV) (h : w.lookup d = some a) : (d, a) ∈ w := by
  induction w with
  | nil => simp at h
  | cons p rest ih =>
    obtain ⟨k, a'⟩ := p
    simp only [List.lookup] at h
    cases hk : d == k with
    | true => rw [hk] at h; simp at h; have : d = k := by simpa using hk
              subst this; subst h; simp
    | false => rw [hk] at h; exact List.mem_cons_of_mem _ (ih h)

theorem mainOpts_split (s : CliSpec) (o : OptSpec) (ho : o ∈ mainOpts s) : o ∈ flagOpts s ∨ o ∈ specialOpts s := by
  unfold flagOpts specialOpts
  by_cases h : isSpecial o = true
  · exact Or.inr (List.mem_filter.2 ⟨ho, h⟩)
  · exact Or.inl (List.mem_filter.2 ⟨ho, by simpa using h⟩)

/-- THE NAMESPACE OF `php` / A COMPOSED SUB-COMMAND BELONGS TO ONE OF ITS WORLDS (when no single-argument option holds the
empty list of the quirk) -/
theorem parseX_in_world (s : CliSpec) (sp : OptSpec) (ht : WorldTables s sp) (argv : List String) (b : Ns)
    (hp : parseX s argv = .ok b) (hq : hasQuirk s b = false) :
    ∃ w ∈ worlds s, gamW w (namespaceOf s b) := by
  obtain ⟨sw, hsw, h1, h2⟩ := parseX_special s sp ht argv b hp
  obtain ⟨hnd, hdisj⟩ := ht.hsw sw hsw
  refine ⟨sw ++ mainWorld s ++ specialDefaults s, ?_, ?_⟩
  · unfold worlds
    exact List.mem_map.2 ⟨sw, hsw, rfl⟩
  -- the bindings under a dest
  have hbl : ∀ d v, b.lookup d = some v →
      (∃ o ∈ flagOpts s, o.dest = d ∧ v = o.flagVal) ∨ (∃ a, sw.lookup d = some a ∧ gam a v) := by
    intro d v hv
    have hm := dtot_lookup_mem b d v hv
    rcases h1 _ hm with ⟨o, ho, he⟩ | ⟨a, ha, hg⟩
    · simp at he
      exact Or.inl ⟨o, ho, he.1.symm, he.2⟩
    · rcases hg with hg | ⟨hv0, hqd⟩
      · exact Or.inr ⟨a, ha, hg⟩
      · exfalso
        unfold hasQuirk at hq
        rw [List.any_eq_false] at hq
        apply hq _ hm
        simp at hv0 hqd
        simp [hv0, hqd]
  have hdef := lookup_map_dest (mainOpts s) (fun o => o.defaultVal)
  have hmw := lookup_map_dest (flagOpts s) (fun o => flagAV s o.dest)
  have hsd := lookup_map_dest (specialOpts s) (fun o => avOfVal o.defaultVal)
  intro d
  unfold namespaceOf defaults
  rw [List.append_assoc, List.lookup_append, List.lookup_append, List.lookup_append]
  cases hsl : sw.lookup d with
  | some a =>
    -- a dest of the custom action's world
    simp only [Option.some_or]
    have hdk : d ∈ keysOf sw := by
      by_cases hm : d ∈ keysOf sw
      · exact hm
      · have := (lookup_keys_none sw d).2 hm
        rw [hsl] at this
        simp at this
    obtain ⟨hnf, _⟩ := hdisj d hdk
    obtain ⟨v0, hv0⟩ := h2 (d, a) (lookup_mem_world sw d a hsl)
    obtain ⟨v, hv⟩ := dtot_lookup_some b d v0 hv0
    rw [hv]
    simp only [Option.some_or]
    rcases hbl d v hv with ⟨o, ho, hod, _⟩ | ⟨a', ha', hg⟩
    · exact absurd (List.mem_map.2 ⟨o, ho, hod⟩) hnf
    · rw [hsl] at ha'; simp at ha'; subst ha'
      exact ⟨v, rfl, hg⟩
  | none =>
    simp only [Option.none_or]
    have hbsw : ∀ v, b.lookup d = some v → ∃ o ∈ flagOpts s, o.dest = d ∧ v = o.flagVal := by
      intro v hv
      rcases hbl d v hv with h | ⟨a', ha', _⟩
      · exact h
      · rw [hsl] at ha'; simp at ha'
    unfold mainWorld specialDefaults
    rw [show (mainOpts s).filter isSpecial = specialOpts s from rfl]
    cases hml : ((flagOpts s).map (fun o => (o.dest, flagAV s o.dest))).lookup d with
    | some a =>
      -- a flag dest
      simp only [Option.some_or]
      obtain ⟨o, ho, hod, ha⟩ := (hmw d).2 a hml
      have hom : o ∈ mainOpts s := by unfold flagOpts at ho; exact (List.mem_filter.1 ho).1
      cases hbv : b.lookup d with
      | some v =>
        simp only [Option.some_or]
        obtain ⟨o', ho', hod', hv'⟩ := hbsw v hbv
        have hom' : o' ∈ mainOpts s := by unfold flagOpts at ho'; exact (List.mem_filter.1 ho').1
        refine ⟨v, rfl, ?_⟩
        rw [ha, hod, hv']
        exact (flagAV_sound s d o' hom' hod').1
      | none =>
        simp only [Option.none_or]
        cases hdl : ((mainOpts s).map (fun o => (o.dest, o.defaultVal))).lookup d with
        | none =>
          exact absurd (List.mem_map.2 ⟨o, hom, hod⟩) ((hdef d).1.1 hdl)
        | some v =>
          obtain ⟨o0, ho0, hod0, hv0⟩ := (hdef d).2 v hdl
          refine ⟨v, rfl, ?_⟩
          rw [ha, hod, hv0]
          exact (flagAV_sound s d o0 ho0 hod0).2
    | none =>
      simp only [Option.none_or]
      have hnfd : d ∉ (flagOpts s).map (·.dest) := (hmw d).1.1 hml
      have hbn : b.lookup d = none := by
        cases hbv : b.lookup d with
        | none => rfl
        | some v =>
          obtain ⟨o', ho', hod', _⟩ := hbsw v hbv
          exact absurd (List.mem_map.2 ⟨o', ho', hod'⟩) hnfd
      rw [hbn]
      simp only [Option.none_or]
      cases hsdl : ((specialOpts s).map (fun o => (o.dest, avOfVal o.defaultVal))).lookup d with
      | some a =>
        -- the dest of the custom action itself: only its default
        obtain ⟨o, ho, hod, ha⟩ := (hsd d).2 a hsdl
        have hom : o ∈ mainOpts s := by unfold specialOpts at ho; exact (List.mem_filter.1 ho).1
        cases hdl : ((mainOpts s).map (fun o => (o.dest, o.defaultVal))).lookup d with
        | none => exact absurd (List.mem_map.2 ⟨o, hom, hod⟩) ((hdef d).1.1 hdl)
        | some v =>
          obtain ⟨o0, ho0, hod0, hv0⟩ := (hdef d).2 v hdl
          refine ⟨v, rfl, ?_⟩
          rcases mainOpts_split s o0 ho0 with hf | hs
          · exact absurd (List.mem_map.2 ⟨o0, hf, hod0⟩) hnfd
          · rw [ht.hsp] at hs ho
            simp at hs ho
            subst hs ho
            rw [ha, hv0]
            exact gam_avOfVal _
      | none =>
        -- no such attribute
        have hnsd : d ∉ (specialOpts s).map (·.dest) := (hsd d).1.1 hsdl
        cases hdl : ((mainOpts s).map (fun o => (o.dest, o.defaultVal))).lookup d with
        | none => rfl
        | some v =>
          obtain ⟨o0, ho0, hod0, _⟩ := (hdef d).2 v hdl
          rcases mainOpts_split s o0 ho0 with hf | hs
          · exact absurd (List.mem_map.2 ⟨o0, hf, hod0⟩) hnfd
          · exact absurd (List.mem_map.2 ⟨o0, hs, hod0⟩) hnsd

/-! ### totality -/

/-- TOTALITY ON EVERY LIST OF TOKENS, `php` and the `compose_two_parsers` sub-commands -/
theorem dispatchX_total_special (tool : String) (ord : List String → Nat) (s : CliSpec) (hsx : s.supportedX = true)
    (hni : s.inline = false) (htab : worldTablesOK s = true) (hwok : worldsOK s = true)
    (hgood : ∀ o ∈ s.opts, goodOpt o = true) (argv : List String) : Answers (dispatchSpecX tool ord s argv) := by
  obtain ⟨sp, ht⟩ := worldTables_of s htab
  unfold dispatchSpecX
  simp only [hsx, hni, Bool.not_true, Bool.false_eq_true, if_false]
  split
  · exact Or.inr (Or.inl rfl)
  · rcases parseX_total s hgood argv with ⟨b, hb⟩ | hb | hb
    · rw [hb]
      dsimp only
      unfold callOf
      by_cases hq : hasQuirk s b = true
      · cases hsel : selectTemplate (namespaceOf s b) (s.templates.map (fixTemplate ord (namespaceOf s b))) with
        | error e =>
          obtain ⟨w, rfl⟩ := selectTemplate_err _ _ e hsel
          simp only [liftErr, quirkCrash, hq, if_true]
          exact Or.inr (Or.inl rfl)
        | ok t =>
          dsimp only
          have htm := selectTemplate_mem _ _ t hsel
          obtain ⟨t0, ht0, rfl⟩ := List.mem_map.1 htm
          have hr : ((fixTemplate ord (namespaceOf s b) t0).raises == "" ||
              shielded (fixTemplate ord (namespaceOf s b) t0).raises) = true := ht.hraise t0 ht0
          rcases instantiate_class (namespaceOf s b) _ hr with ⟨c, hc⟩ | hc | ⟨w, hc⟩
          · rw [hc]; exact Or.inl ⟨_, rfl⟩
          · rw [hc]; exact Or.inr (Or.inl rfl)
          · rw [hc]
            simp only [liftE, liftErr, Except.map, quirkCrash, hq, if_true]
            exact Or.inr (Or.inl rfl)
      · have hq' : hasQuirk s b = false := by simpa using hq
        obtain ⟨w, hw, hg⟩ := parseX_in_world s sp ht argv b hb hq'
        have hrun : arun w s.templates [] = true := by
          unfold worldsOK at hwok
          exact (List.all_eq_true.1 hwok) w hw
        obtain ⟨t0, hsel, hins⟩ := arun_sound ord w (namespaceOf s b) hg s.templates []
          (by intro p hp; simp at hp) hrun
        rw [hsel]
        dsimp only
        rcases hins with ⟨c, hc⟩ | hc
        · rw [hc]; exact Or.inl ⟨_, rfl⟩
        · rw [hc]; exact Or.inr (Or.inl rfl)
    · rw [hb]; exact Or.inr (Or.inl rfl)
    · rw [hb]; exact Or.inr (Or.inr rfl)

end Cnfgen.Cli.AP
