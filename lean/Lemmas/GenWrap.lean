/-
Helper definitions and lemmas for `Props/C11/GeneratedWrap.lean`: the translated classes that wrap / subclass
`BipartiteEdgesVariables` (`UnaryMappingVariables`: the same fields, hence the conversion `unaryToBip`;
`DiGraphEdgesVariables`, `GraphEdgesVariables`: an inner bipartite group) and `SingletonVariableGroup`.
The objects as the model describes them (`unarySelf`, `singleSelf`, `digraphSelf`, `graphSelf`), how `Except.map`
commutes with the constructs the translator emits, `sorted` on a pair.
-/
import Lemmas.GenBip
namespace Cnfgen.GenVars
open Cnfgen Cnfgen.Vars Cnfgen.PyGen

/-! ### `UnaryMappingVariables` has the fields of `BipartiteEdgesVariables` -/

/-- a `UnaryMappingVariables` object seen as an object of its superclass -/
def unaryToBip (s : UnaryMappingVariables) : BipartiteEdgesVariables := ⟨s.G, s.offset, s.formula, s.ids⟩

/-- the inverse relabelling of the fields -/
def bipToUnary (s : BipartiteEdgesVariables) : UnaryMappingVariables := ⟨s.G, s.offset, s.formula, s.ids⟩

@[simp] theorem bipToUnary_unaryToBip (s : UnaryMappingVariables) : bipToUnary (unaryToBip s) = s := rfl
@[simp] theorem unaryToBip_bipToUnary (s : BipartiteEdgesVariables) : unaryToBip (bipToUnary s) = s := rfl

theorem unaryToBip_injective {s t : UnaryMappingVariables} (h : unaryToBip s = unaryToBip t) : s = t := by
  have := congrArg bipToUnary h
  simpa using this

/-- `UnaryMappingVariables(F, G)` on a formula with `nv` variables, as the model describes it: the fields of
`bipSelf nv G` -/
def unarySelf (nv : Nat) (G : BipG) : UnaryMappingVariables := bipToUnary (bipSelf nv G)

@[simp] theorem unaryToBip_unarySelf (nv : Nat) (G : BipG) : unaryToBip (unarySelf nv G) = bipSelf nv G := rfl

/-! ### `Except.map` through the constructs of the translator -/

theorem map_bind {α β γ : Type} (f : β → γ) (x : Except Err α) (g : α → Except Err β) :
    Except.map f (x >>= g) = x >>= fun a => Except.map f (g a) := by
  cases x <;> rfl

theorem map_tryExcept {α β γ : Type} (f : β → γ) (o : Except Err α) (kind : Err) (h : Except Err β)
    (rest : α → Except Err β) :
    Except.map f (Py.tryExcept o kind h rest) = Py.tryExcept o kind (Except.map f h) (fun a => Except.map f (rest a)) := by
  cases o with
  | ok a => rfl
  | error e =>
    simp only [Py.tryExcept]
    split <;> rfl

theorem map_map {α β γ : Type} (f : α → β) (g : β → γ) (x : Except Err α) :
    Except.map g (Except.map f x) = Except.map (fun a => g (f a)) x := by
  cases x <;> rfl

theorem map_id' {α : Type} (x : Except Err α) : Except.map (fun a => a) x = x := by
  cases x <;> rfl

theorem bind_ok_eq {α : Type} (x : Except Err α) : (x >>= fun a => Except.ok a) = x := by
  cases x <;> rfl

/-! ### the observers of `absBip G` used by `domain` / `range` -/

theorem abs_left_neighbors_eq (G : BipG) (v : Int) :
    (absBip G).left_neighbors v = (G.leftNeighbors v).map ints := rfl

theorem abs_right_neighbors_eq (G : BipG) (u : Int) :
    (absBip G).right_neighbors u = (G.rightNeighbors u).map ints := rfl

theorem range_toList_nat' (R : Nat) : Py.Range.toList ⟨1, (R : Int) + 1⟩ = ints (List.range' 1 R) := by
  rw [range_toList_nat]
  congr 1
  simp only [rangeN, Nat.add_sub_cancel]
  rw [List.range'_eq_map_range]
  apply List.map_congr_left
  intro a _
  omega

/-! ### `SingletonVariableGroup` -/

/-- `SingletonVariableGroup(F)` on a formula with `nv` variables: `ids = range(nv + 1, nv + 2)` -/
def singleSelf (nv : Nat) : SingletonVariableGroup := ⟨⟨nv⟩, ⟨(nv : Int) + 1, (nv : Int) + 2⟩⟩

theorem single_getitem_zero (nv : Nat) : SingletonVariableGroup.getitem (singleSelf nv) 0 = Except.ok ((nv : Int) + 1) := by
  have h : (0 : Int) < Py.Range.len ⟨(nv : Int) + 1, (nv : Int) + 2⟩ := by
    simp only [Py.Range.len]
    split <;> omega
  simp only [SingletonVariableGroup.getitem, singleSelf, Py.Range.get, Int.le_refl, if_true, h, Py.ok_bind,
    Int.add_zero]

/-! ### the wrappers of an inner bipartite group -/

/-- `DiGraphEdgesVariables(F, D, sortby=…)` whose auxiliary bipartite graph is `B` -/
def digraphSelf (nv : Nat) (B : BipG) (succ : Bool) : DiGraphEdgesVariables :=
  ⟨(if succ then "succ" else "pred"), bipSelf nv B⟩

/-- `GraphEdgesVariables(F, G)` whose auxiliary bipartite graph is `B` -/
def graphSelf (nv : Nat) (B : BipG) : GraphEdgesVariables :=
  ⟨bipSelf nv B, ⟨nv⟩, ⟨(nv : Int) + 1, (nv : Int) + ((B.numberOfEdges : Nat) : Int) + 1⟩⟩

theorem digraphSelf_sortby_pred (nv : Nat) (B : BipG) (succ : Bool) :
    ((digraphSelf nv B succ).sortby = "pred") ↔ succ = false := by
  cases succ
  · simp [digraphSelf]
  · simp only [digraphSelf, if_true, Bool.true_eq_false, iff_false]; decide

theorem digraphSelf_pred (nv : Nat) (B : BipG) : (digraphSelf nv B false).sortby = "pred" := rfl

theorem digraphSelf_succ (nv : Nat) (B : BipG) : ¬ ((digraphSelf nv B true).sortby = "pred") := by
  show ¬ ("succ" = "pred")
  decide

/-- `sorted((a, b))` -/
theorem sorted_pair (a b : Int) : Py.sorted [a, b] = if b < a then [b, a] else [a, b] := by
  simp only [Py.sorted, List.foldl_cons, List.foldl_nil, Py.insertSorted]

theorem sorted_pair_nat (a b : Nat) : Py.sorted [(a : Int), (b : Int)] = [((min a b : Nat) : Int), ((max a b : Nat) : Int)] := by
  rw [sorted_pair]
  by_cases h : (b : Int) < (a : Int)
  · rw [if_pos h]
    have h' : b ≤ a := by omega
    rw [Nat.min_eq_right h', Nat.max_eq_left h']
  · rw [if_neg h]
    have h' : a ≤ b := by omega
    rw [Nat.min_eq_left h', Nat.max_eq_right h']

theorem intPairs_swap (l : List (Nat × Nat)) :
    (intPairs l).map (fun (z : Int × Int) => (z.2, z.1)) = intPairs (l.map (fun e => (e.2, e.1))) := by
  simp [intPairs, List.map_map, Function.comp_def]

end Cnfgen.GenVars
