/-
C14 (GML) — from the dictionary of the written text back to the networkx object:
`buildGraph [("graph", dict (graphItems X))]` is the object `X` that was written.
-/
import Lemmas.GmlWrite
namespace Cnfgen.Gml
open Cnfgen GraphLex GraphFmt

/-- the values stored under key `k`, in order -/
def vals (k : Str) (items : List (Str × Val)) : List Val := (items.filter (fun p => p.1 == k)).map (·.2)

/-- `clean_dict_value` -/
def fieldOfVals : List Val → Field
  | [] => .absent
  | [v] => .one v
  | v :: vs => if isListStart v then .many vs else .many (v :: vs)

theorem lookup_eq (items : List (Str × Val)) (k : Str) : lookup items k = fieldOfVals (vals k items) := by
  unfold lookup vals
  generalize List.map (fun x : Str × Val => x.2) (List.filter (fun p => p.1 == k) items) = vs
  match vs with
  | [] => rfl
  | [_] => rfl
  | _ :: _ :: _ => rfl

theorem vals_append (k : Str) (a b : List (Str × Val)) : vals k (a ++ b) = vals k a ++ vals k b := by
  simp [vals, List.filter_append]

def isDictVal : Val → Bool
  | .dict _ => true
  | _ => false

/-- a key all of whose values are dictionaries: the list networkx iterates over -/
theorem toList_of_dicts (vs : List Val) (h : ∀ v ∈ vs, isDictVal v = true) : (fieldOfVals vs).toList = vs := by
  match vs, h with
  | [], _ => rfl
  | [v], h =>
    have := h v (List.mem_cons_self ..)
    cases v <;> simp_all [isDictVal, Field.toList, fieldOfVals]
  | v :: w :: vs, h =>
    have := h v (List.mem_cons_self ..)
    cases v <;> simp_all [isDictVal, Field.toList, isListStart, fieldOfVals]

def nodeVals : Nat → List (Nat × Option Bool) → List Val
  | _, [] => []
  | i, p :: ps => nodeVal i p :: nodeVals (i + 1) ps

theorem vals_nodeItems (k : Str) (ps : List (Nat × Option Bool)) : ∀ i,
    vals k (nodeItems i ps) = if k = "node".toList then nodeVals i ps else [] := by
  induction ps with
  | nil => intro i; simp [vals, nodeItems, nodeVals]
  | cons p ps ih =>
    intro i
    have := ih (i + 1)
    unfold vals at this ⊢
    by_cases hk : k = "node".toList
    · subst hk; simp_all [nodeItems, nodeVals]
    · have : ("node".toList == k) = false := beq_eq_false_iff_ne.2 (fun e => hk e.symm)
      simp_all [nodeItems, nodeVals]

theorem vals_edgeItems (k : Str) (es : List (Nat × Nat)) :
    vals k (edgeItems es) = if k = "edge".toList then es.map edgeVal else [] := by
  induction es with
  | nil => simp [vals, edgeItems]
  | cons e es ih =>
    unfold vals edgeItems at ih ⊢
    by_cases hk : k = "edge".toList
    · subst hk; simp_all
    · have : ("edge".toList == k) = false := beq_eq_false_iff_ne.2 (fun e => hk e.symm)
      simp_all

theorem nodeVals_dicts (ps : List (Nat × Option Bool)) : ∀ i, ∀ v ∈ nodeVals i ps, isDictVal v = true := by
  induction ps with
  | nil => intro i v hv; cases hv
  | cons p ps ih =>
    intro i v hv
    rcases List.mem_cons.1 hv with rfl | hv
    · rfl
    · exact ih (i + 1) v hv

/-! ### the node loop -/

def labelsFrom (i n : Nat) : List Label := (List.range' i n).map (fun j : Nat => Label.int (j : Int))

def colourOfAttr : Option Bool → Colour
  | none => .invalid
  | some false => .left
  | some true => .right

theorem addNodes_nodeVals (ps : List (Nat × Option Bool)) : ∀ (i : Nat) (ls : List Label) (cs : List Colour),
    (∀ l ∈ ls, ∃ j : Nat, j < i ∧ l = Label.int (j : Int)) →
    addNodes (nodeVals i ps) ls cs = .ok (ls ++ labelsFrom i ps.length, cs ++ ps.map (fun p => colourOfAttr p.2)) := by
  induction ps with
  | nil => intro i ls cs _; simp [nodeVals, addNodes, labelsFrom]
  | cons p ps ih =>
    intro i ls cs hls
    obtain ⟨v, b⟩ := p
    have hnm : Label.int (i : Int) ∉ ls := by
      intro hc
      obtain ⟨j, hj, e⟩ := hls _ hc
      injection e with e
      omega
    have hls' : ∀ l ∈ ls ++ [Label.int (i : Int)], ∃ j : Nat, j < i + 1 ∧ l = Label.int (j : Int) := by
      intro l hl
      rcases List.mem_append.1 hl with h | h
      · obtain ⟨j, hj, e⟩ := hls l h; exact ⟨j, by omega, e⟩
      · simp only [List.mem_cons, List.not_mem_nil, or_false] at h; exact ⟨i, by omega, h⟩
    have hrec := ih (i + 1) (ls ++ [Label.int (i : Int)]) (cs ++ [colourOfAttr b]) hls'
    have hlab : ls ++ [Label.int (i : Int)] ++ labelsFrom (i + 1) ps.length = ls ++ labelsFrom i (ps.length + 1) := by
      simp [labelsFrom, List.range'_succ]
    rw [hlab] at hrec
    cases b with
    | none =>
      simp only [nodeVals, nodeVal, addNodes, lookup, nodeRef] at hrec ⊢
      simp [nodeKwClash, hasKey, colourOf, lookup, hnm]
      simpa [colourOfAttr] using hrec
    | some b =>
      cases b <;>
      · simp only [nodeVals, nodeVal, addNodes, lookup, nodeRef] at hrec ⊢
        simp [nodeKwClash, hasKey, colourOf, lookup, hnm]
        simpa [colourOfAttr] using hrec

/-! ### the edge loop -/

theorem labelsFrom_succ (a n : Nat) : labelsFrom a (n + 1) = Label.int (a : Int) :: labelsFrom (a + 1) n := by
  simp [labelsFrom, List.range'_succ]

theorem idxOf_labelsFrom : ∀ (n a k : Nat), k < n →
    (labelsFrom a n).idxOf (Label.int ((a + k : Nat) : Int)) = k ∧ Label.int ((a + k : Nat) : Int) ∈ labelsFrom a n := by
  intro n
  induction n with
  | zero => intro a k h; omega
  | succ n ih =>
    intro a k hk
    rw [labelsFrom_succ]
    cases k with
    | zero => simp
    | succ k =>
      obtain ⟨h1, h2⟩ := ih (a + 1) k (by omega)
      have e : a + 1 + k = a + (k + 1) := by omega
      rw [e] at h1 h2
      have hne : Label.int (a : Int) ≠ Label.int ((a + (k + 1) : Nat) : Int) := by
        intro h; injection h with h; omega
      refine ⟨?_, List.mem_cons_of_mem _ h2⟩
      have : (Label.int (a : Int) == Label.int ((a + (k + 1) : Nat) : Int)) = false := beq_eq_false_iff_ne.2 hne
      rw [List.idxOf_cons, this, cond_false, h1]

theorem findNode_labelsFrom (n i : Nat) (h : i < n) :
    findNode (labelsFrom 0 n) (.label (.int (i : Int))) = .ok i := by
  obtain ⟨h1, h2⟩ := idxOf_labelsFrom n 0 i h
  simp only [Nat.zero_add] at h1 h2
  simp only [findNode, List.contains_iff_mem, h2, if_true, h1]

/-- no edge is listed twice (for an undirected graph: in neither orientation) -/
def EdgesDistinct (directed : Bool) (es : List (Nat × Nat)) : Prop :=
  es.Pairwise (fun a b => a ≠ b ∧ (directed = false → a ≠ (b.2, b.1)))

theorem addEdges_edgeVals (directed : Bool) (n : Nat) (es : List (Nat × Nat)) : ∀ acc : List (Nat × Nat),
    (∀ e ∈ es, e.1 < n ∧ e.2 < n) → EdgesDistinct directed (acc ++ es) →
    addEdges directed (labelsFrom 0 n) (es.map edgeVal) acc = .ok (acc ++ es) := by
  induction es with
  | nil => intro acc _ _; simp [addEdges]
  | cons e es ih =>
    intro acc hr hd
    have he := hr e (List.mem_cons_self ..)
    have hrec := ih (acc ++ [e]) (fun x hx => hr x (List.mem_cons_of_mem _ hx)) (by simpa [EdgesDistinct] using hd)
    have hno : hasEdge directed acc e.1 e.2 = false := by
      unfold EdgesDistinct at hd
      rw [List.pairwise_append] at hd
      obtain ⟨_, _, h3⟩ := hd
      have h4 : ∀ a ∈ acc, a ≠ e ∧ (directed = false → a ≠ (e.2, e.1)) := fun a ha => h3 a ha e (List.mem_cons_self ..)
      simp only [hasEdge, Bool.or_eq_false_iff, Bool.and_eq_false_iff]
      constructor
      · rw [Bool.eq_false_iff]; intro hc
        rw [List.contains_iff_mem] at hc
        exact (h4 _ hc).1 rfl
      · cases hdir : directed
        · right
          rw [Bool.eq_false_iff]; intro hc
          rw [List.contains_iff_mem] at hc
          exact (h4 _ hc).2 hdir rfl
        · left; rfl
    simp only [List.map_cons, edgeVal, addEdges]
    have l1 : lookup [("source".toList, Val.int (e.1 : Int)), ("target".toList, Val.int (e.2 : Int))] "source".toList =
        .one (.int (e.1 : Int)) := by rfl
    have l2 : lookup [("source".toList, Val.int (e.1 : Int)), ("target".toList, Val.int (e.2 : Int))] "target".toList =
        .one (.int (e.2 : Int)) := by rfl
    have l3 : edgeKwClash.any (hasKey [("source".toList, Val.int (e.1 : Int)), ("target".toList, Val.int (e.2 : Int))]) = false := by
      rfl
    rw [l1, l2]
    simp only [nodeRef, findNode_labelsFrom n e.1 he.1, findNode_labelsFrom n e.2 he.2, hno, l3, Bool.false_eq_true, if_false]
    simpa [edgeVal] using hrec

/-! ### the whole construction -/

def nameField (X : NxOut) : Field :=
  match X.name with
  | none => .absent
  | some nm => .one (nameVal nm)

/-- what `parse_gml_lines` returns for the text written from `X` -/
def parsedOf (X : NxOut) : Parsed :=
  ⟨X.directed, labelsFrom 0 X.nodes.length, X.nodes.map (fun p => colourOfAttr p.2),
   nxEdges X.directed X.nodes.length X.tedges, nameField X⟩

theorem vals_graphItems (X : NxOut) (k : Str) :
    vals k (graphItems X) = vals k (headItems X) ++
      ((if k = "node".toList then nodeVals 0 X.nodes else []) ++
       (if k = "edge".toList then (nxEdges X.directed X.nodes.length X.tedges).map edgeVal else [])) := by
  simp only [graphItems, vals_append, vals_nodeItems, vals_edgeItems, List.append_assoc]

theorem edgeVals_dicts (es : List (Nat × Nat)) : ∀ v ∈ es.map edgeVal, isDictVal v = true := by
  intro v hv
  obtain ⟨e, _, rfl⟩ := List.mem_map.1 hv
  rfl

theorem buildGraph_graphItems (X : NxOut) (hp : Printable X)
    (hd : EdgesDistinct X.directed (nxEdges X.directed X.nodes.length X.tedges)) :
    buildGraph [("graph".toList, .dict (graphItems X))] = .ok (parsedOf X) := by
  have hg : lookup [("graph".toList, Val.dict (graphItems X))] "graph".toList = .one (.dict (graphItems X)) := by rfl
  have hdir : truthy (lookup (graphItems X) "directed".toList) = some X.directed := by
    rw [lookup_eq, vals_graphItems]
    unfold headItems
    cases X.directed <;> cases X.name <;> simp [vals, truthy, fieldOfVals] <;> decide
  have hmul : truthy (lookup (graphItems X) "multigraph".toList) = some false := by
    rw [lookup_eq, vals_graphItems]
    unfold headItems
    cases X.directed <;> cases X.name <;> simp [vals, truthy, fieldOfVals] <;> decide
  have hname : lookup (graphItems X) "name".toList = nameField X := by
    rw [lookup_eq, vals_graphItems]
    unfold headItems nameField
    cases X.directed <;> cases hn : X.name <;> simp [vals, fieldOfVals] <;> decide
  have hnode : (lookup (graphItems X) "node".toList).toList = nodeVals 0 X.nodes := by
    rw [lookup_eq, vals_graphItems]
    have : vals "node".toList (headItems X) = [] := by
      unfold headItems; cases X.directed <;> cases X.name <;> simp [vals] <;> decide
    rw [this]
    have e : ("node".toList = "edge".toList) = False := by simp
    simp only [List.nil_append, if_true, e, if_false, List.append_nil]
    exact toList_of_dicts _ (nodeVals_dicts _ _)
  have hedge : (lookup (graphItems X) "edge".toList).toList = (nxEdges X.directed X.nodes.length X.tedges).map edgeVal := by
    rw [lookup_eq, vals_graphItems]
    have : vals "edge".toList (headItems X) = [] := by
      unfold headItems; cases X.directed <;> cases X.name <;> simp [vals] <;> decide
    rw [this]
    have e : ("edge".toList = "node".toList) = False := by simp
    simp only [List.nil_append, if_true, e, if_false]
    exact toList_of_dicts _ (edgeVals_dicts _)
  have hnodes := addNodes_nodeVals X.nodes 0 [] [] (by intro l hl; cases hl)
  have hedges := addEdges_edgeVals X.directed X.nodes.length _ [] hp.ends (by simpa using hd)
  simp only [List.nil_append] at hnodes hedges
  simp only [buildGraph, hg, hdir, hmul, hnode, hnodes, hedge, hedges, hname, parsedOf]

/-- the text written from `X`, read by the model of `networkx.read_gml(..., label='id')`, is `X` -/
theorem parseGml_gmlText (u : Bool) (X : NxOut) (hp : Printable X)
    (hd : EdgesDistinct X.directed (nxEdges X.directed X.nodes.length X.tedges)) :
    parseGml u (gmlText X) = .ok (parsedOf X) := by
  simp only [parseGml, tokenize_gmlText u X hp, parseToks_gmlToks, buildGraph_graphItems X hp hd]

end Cnfgen.Gml
