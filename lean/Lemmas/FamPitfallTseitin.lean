/-
Lemmas about the Tseitin template used by the Pitfall model
(`CnfgenModel/Fam/PitfallTseitin.lean`): graph well-formedness `GraphOK` and
`template_unsat` (odd total charge ⇒ unsatisfiable, by double counting).
-/
import CnfgenModel.Fam.PitfallTseitin
import Lemmas.Linear
import Mathlib.Algebra.BigOperators.Group.Finset.Piecewise
namespace Cnfgen.FamPitfall
open Cnfgen Cnfgen.Fam

/-! ### A. graph well-formedness -/

/-- what every `cnfgen.graphs.Graph` object satisfies: adjacency lists of the vertices 1..n are
strictly increasing, contain only vertices of 1..n, no loops, and are symmetric -/
def GraphOK (g : SimpleG) : Prop :=
  ∀ v, 1 ≤ v → v ≤ g.n →
    (g.nbrs v).Pairwise (· < ·) ∧ ∀ u ∈ g.nbrs v, 1 ≤ u ∧ u ≤ g.n ∧ u ≠ v ∧ v ∈ g.nbrs u

/-- strictly increasing, as a Bool -/
def sortedb : List Nat → Bool
  | [] => true
  | [_] => true
  | x :: y :: r => decide (x < y) && sortedb (y :: r)

theorem sortedb_iff (l : List Nat) : sortedb l = true ↔ l.Pairwise (· < ·) := by
  induction l with
  | nil => simp [sortedb]
  | cons x xs ih =>
    cases xs with
    | nil => simp [sortedb]
    | cons y r =>
      simp only [sortedb, Bool.and_eq_true, decide_eq_true_eq, ih]
      constructor
      · rintro ⟨hxy, hp⟩
        refine List.pairwise_cons.2 ⟨?_, hp⟩
        intro a ha
        rcases List.mem_cons.1 ha with rfl | ha
        · exact hxy
        · exact Nat.lt_trans hxy ((List.pairwise_cons.1 hp).1 a ha)
      · intro hp
        have := List.pairwise_cons.1 hp
        exact ⟨this.1 y (by simp), this.2⟩

/-- executable version of `GraphOK` -/
def graphOKb (g : SimpleG) : Bool :=
  (List.range g.n).all (fun i =>
    sortedb (g.nbrs (i + 1)) &&
    (g.nbrs (i + 1)).all (fun u =>
      decide (1 ≤ u) && decide (u ≤ g.n) && decide (u ≠ i + 1) && (g.nbrs u).contains (i + 1)))

theorem graphOKb_iff (g : SimpleG) : graphOKb g = true ↔ GraphOK g := by
  simp only [graphOKb, GraphOK, List.all_eq_true, List.mem_range, Bool.and_eq_true, sortedb_iff,
    decide_eq_true_eq, List.contains_iff_mem, and_assoc]
  constructor
  · intro h v h1 h2
    have := h (v - 1) (by omega)
    rw [show v - 1 + 1 = v by omega] at this
    exact this
  · intro h i hi
    exact h (i + 1) (by omega) (by omega)

instance (g : SimpleG) : Decidable (GraphOK g) := decidable_of_iff _ (graphOKb_iff g)

/-- the 4-cycle is a well-formed graph -/
example : ∃ g, SimpleG.ofEdges 4 [(1,2),(2,3),(3,4),(1,4)] = .ok g ∧ GraphOK g ∧ 1 ≤ g.n :=
  ⟨_, rfl, (graphOKb_iff _).1 (by decide), by decide⟩


/-! ### B. the Tseitin template is unsatisfiable -/
open Finset in
/-- a symmetric table with zero diagonal has an even total -/
theorem sym_sum_even (n : Nat) (f : Nat → Nat → Nat) (hs : ∀ u v, f u v = f v u)
    (hd : ∀ v, f v v = 0) : (∑ v ∈ range n, ∑ u ∈ range n, f u v) % 2 = 0 := by
  induction n with
  | zero => simp
  | succ n ih =>
    rw [Finset.sum_range_succ]
    simp only [Finset.sum_range_succ, Finset.sum_add_distrib, hd]
    have : ∑ v ∈ range n, f n v = ∑ u ∈ range n, f u n :=
      Finset.sum_congr rfl (fun v _ => hs n v)
    omega

open Finset in
/-- counting over a duplicate-free list = summing an indicator over a range containing it -/
theorem countP_eq_sum (p : Nat → Bool) (N : Nat) (l : List Nat) (hnd : l.Nodup)
    (hlt : ∀ u ∈ l, u < N) :
    l.countP p = ∑ u ∈ range N, if u ∈ l ∧ p u = true then 1 else 0 := by
  induction l with
  | nil => simp
  | cons x xs ih =>
    have hx : x ∉ xs := (List.nodup_cons.1 hnd).1
    rw [List.countP_cons, ih (List.nodup_cons.1 hnd).2 (fun u hu => hlt u (by simp [hu]))]
    have hxN : x < N := hlt x (by simp)
    have h1 : (if p x = true then 1 else 0)
        = ∑ u ∈ range N, if u = x then (if p x = true then 1 else 0) else 0 := by
      rw [Finset.sum_ite_eq_of_mem' (range N) x (fun _ => if p x = true then 1 else 0) (by simp [hxN])]
    rw [h1, ← Finset.sum_add_distrib]
    refine Finset.sum_congr rfl (fun u _ => ?_)
    by_cases hux : u = x
    · subst hux; simp [hx]
    · simp [hux]

open Finset in
theorem odd_total (c : Nat → Nat) (h0 : c 0 = 0) (h1 : c 1 % 2 = 1)
    (h2 : ∀ v, 2 ≤ v → c v % 2 = 0) (k : Nat) :
    (∑ v ∈ range k, c v) % 2 = if 2 ≤ k then 1 else 0 := by
  induction k with
  | zero => simp
  | succ k ih =>
    rw [Finset.sum_range_succ]
    rcases Nat.lt_or_ge k 2 with hk | hk
    · have : k = 0 ∨ k = 1 := by omega
      rcases this with rfl | rfl
      · simp [h0]
      · simp at ih; simp; omega
    · have := h2 k hk
      simp only [hk, if_true] at ih
      simp only [show 2 ≤ k + 1 by omega, if_true]; omega

theorem litHolds_pos (α : Assign) (n : Nat) (h : 1 ≤ n) : litHolds α (n : Int) = α n := by
  have : (0 : Int) < n := by omega
  simp only [litHolds, this, if_true, Int.natAbs_natCast]

theorem litHolds_negNat (α : Assign) (n : Nat) (h : 1 ≤ n) : litHolds α (-(n : Int)) = !α n := by
  rw [litHolds_neg α n (by omega), litHolds_pos α n h]

theorem edgeId_symm (g : SimpleG) (s u v : Nat) :
    PitfallTseitin.edgeId g s u v = PitfallTseitin.edgeId g s v u := by
  simp [PitfallTseitin.edgeId, Nat.min_comm u v, Nat.max_comm u v]

theorem edgeId_ge (g : SimpleG) (s u v : Nat) : s ≤ PitfallTseitin.edgeId g s u v := by
  simp [PitfallTseitin.edgeId]

theorem vertexLits_ne_zero (g : SimpleG) (v : Nat) : ∀ l ∈ PitfallTseitin.vertexLits g v, l ≠ 0 := by
  intro l hl
  simp only [PitfallTseitin.vertexLits, List.mem_map] at hl
  obtain ⟨u, _, rfl⟩ := hl
  have := edgeId_ge g 1 u v
  omega

theorem count_vertexLits (g : SimpleG) (β : Assign) (v : Nat) :
    count β (PitfallTseitin.vertexLits g v)
      = (g.nbrs v).countP (fun u => β (PitfallTseitin.edgeId g 1 u v)) := by
  simp only [count, PitfallTseitin.vertexLits, List.countP_map]
  congr 1
  funext u
  exact litHolds_pos β _ (edgeId_ge g 1 u v)

/-- Tseitin formula with one odd charge on a well-formed graph: unsatisfiable -/
theorem template_unsat (g : SimpleG) (hg : GraphOK g) (hn : 1 ≤ g.n) (β : Assign) :
    (PitfallTseitin.template g).holds β = false := by
  rw [Bool.eq_false_iff]
  intro hall
  simp only [CNF.holds, PitfallTseitin.template, List.all_eq_true, List.mem_flatMap,
    List.mem_range] at hall
  -- parity of every vertex
  have hpar : ∀ v, 1 ≤ v → v ≤ g.n →
      count β (PitfallTseitin.vertexLits g v) % 2 = if v = 1 then 1 else 0 := by
    intro v h1 h2
    have := (parityClauses_holds β (PitfallTseitin.vertexLits g v)
      (PitfallTseitin.charge v == 1) (vertexLits_ne_zero g v)).1 (fun c hc => by
        apply hall c
        refine ⟨v - 1, by omega, ?_⟩
        rw [show v - 1 + 1 = v by omega]
        exact hc)
    by_cases hv : v = 1
    · simp [hv, PitfallTseitin.charge] at this ⊢; omega
    · simp [hv, PitfallTseitin.charge] at this ⊢; omega
  -- the symmetric table
  let f : Nat → Nat → Nat := fun u v =>
    if 1 ≤ u ∧ u ≤ g.n ∧ 1 ≤ v ∧ v ≤ g.n ∧ u ∈ g.nbrs v ∧
      β (PitfallTseitin.edgeId g 1 u v) = true then 1 else 0
  have hsym : ∀ u v, f u v = f v u := by
    intro u v
    simp only [f]
    by_cases hu : 1 ≤ u ∧ u ≤ g.n
    · by_cases hv : 1 ≤ v ∧ v ≤ g.n
      · have huv : u ∈ g.nbrs v ↔ v ∈ g.nbrs u :=
          ⟨fun h => ((hg v hv.1 hv.2).2 u h).2.2.2, fun h => ((hg u hu.1 hu.2).2 v h).2.2.2⟩
        rw [edgeId_symm g 1 u v]
        simp [hu, hv, huv]
      · have : ¬ (1 ≤ v ∧ v ≤ g.n) := hv
        simp only [hu, true_and]
        rw [if_neg (by tauto), if_neg (by tauto)]
    · rw [if_neg (by tauto), if_neg (by tauto)]
  have hdiag : ∀ v, f v v = 0 := by
    intro v
    simp only [f]
    rw [if_neg]
    rintro ⟨h1, h2, -, -, hm, -⟩
    exact ((hg v h1 h2).2 v hm).2.2.1 rfl
  have heven := sym_sum_even (g.n + 1) f hsym hdiag
  -- column sums are the counts
  have hcol : ∀ v, (∑ u ∈ Finset.range (g.n + 1), f u v)
      = if 1 ≤ v ∧ v ≤ g.n then count β (PitfallTseitin.vertexLits g v) else 0 := by
    intro v
    by_cases hv : 1 ≤ v ∧ v ≤ g.n
    · rw [if_pos hv, count_vertexLits]
      have hok := hg v hv.1 hv.2
      rw [countP_eq_sum _ (g.n + 1) (g.nbrs v) (hok.1.imp (fun h => Nat.ne_of_lt h))
        (fun u hu => by have := hok.2 u hu; omega)]
      refine Finset.sum_congr rfl (fun u _ => ?_)
      simp only [f]
      by_cases hm : u ∈ g.nbrs v
      · have := hok.2 u hm
        simp [hm, hv, this.1, this.2.1]
      · simp [hm]
    · rw [if_neg hv]
      refine Finset.sum_eq_zero (fun u _ => ?_)
      simp only [f]
      rw [if_neg]; tauto
  have hodd := odd_total
    (fun v => if 1 ≤ v ∧ v ≤ g.n then count β (PitfallTseitin.vertexLits g v) else 0)
    (by simp) (by simp [hn, hpar 1 (by omega) hn])
    (fun v hv => by
      by_cases h : v ≤ g.n
      · simp [show 1 ≤ v by omega, h, hpar v (by omega) h, show v ≠ 1 by omega]
      · simp [h]) (g.n + 1)
  simp only [hcol] at heven
  rw [heven] at hodd
  simp [show 2 ≤ g.n + 1 by omega] at hodd


/-! ### well-formedness of the template -/

theorem parityClauses_lits (ls : List Int) (want : Bool) :
    ∀ c ∈ Linear.parityClauses ls want, ∀ l ∈ c, ∃ x ∈ ls, l = x ∨ l = -x := by
  induction ls generalizing want with
  | nil => intro c hc l hl; cases want <;> simp [Linear.parityClauses] at hc; subst hc; simp at hl
  | cons x xs ih =>
    intro c hc l hl
    simp only [Linear.parityClauses, List.mem_append, List.mem_map] at hc
    rcases hc with ⟨c', hc', rfl⟩ | ⟨c', hc', rfl⟩
    · rcases List.mem_cons.1 hl with rfl | hl
      · exact ⟨l, by simp, Or.inl rfl⟩
      · obtain ⟨y, hy, h⟩ := ih want c' hc' l hl
        exact ⟨y, List.mem_cons_of_mem _ hy, h⟩
    · rcases List.mem_cons.1 hl with rfl | hl
      · exact ⟨x, by simp, Or.inr rfl⟩
      · obtain ⟨y, hy, h⟩ := ih (!want) c' hc' l hl
        exact ⟨y, List.mem_cons_of_mem _ hy, h⟩

/-- the elements above `a` survive `l[bisect_right(l, a):]` (no sortedness needed) -/
theorem mem_drop_bisectRight (l : List Nat) (a b : Nat) (hb : b ∈ l) (hab : a < b) :
    b ∈ l.drop (bisectRight l a) := by
  induction l with
  | nil => simp at hb
  | cons x xs ih =>
    simp only [bisectRight]
    split
    · rename_i hx
      rcases List.mem_cons.1 hb with rfl | hb
      · omega
      · simpa using ih hb
    · simpa using hb

/-- both orientations of an adjacency are listed (sorted) by `G.edges()` -/
theorem edge_mem (g : SimpleG) (hg : GraphOK g) (u v : Nat) (hv1 : 1 ≤ v) (hvn : v ≤ g.n)
    (hu : u ∈ g.nbrs v) : (min u v, max u v) ∈ g.edges := by
  obtain ⟨hu1, hun, hne, hvu⟩ := (hg v hv1 hvn).2 u hu
  have key : ∀ a b, 1 ≤ a → a < b → b ≤ g.n → b ∈ g.nbrs a → (a, b) ∈ g.edges := by
    intro a b ha hab hb hmem
    simp only [SimpleG.edges, List.mem_flatMap, List.mem_range, List.mem_map]
    refine ⟨a - 1, by omega, b, ?_, ?_⟩
    · rw [show a - 1 + 1 = a by omega]
      exact mem_drop_bisectRight _ a b hmem hab
    · rw [show a - 1 + 1 = a by omega]
  rcases Nat.lt_or_gt_of_ne hne with h | h
  · rw [Nat.min_eq_left (Nat.le_of_lt h), Nat.max_eq_right (Nat.le_of_lt h)]
    exact key u v hu1 h hvn hvu
  · rw [Nat.min_eq_right (Nat.le_of_lt h), Nat.max_eq_left (Nat.le_of_lt h)]
    exact key v u hv1 h hun hu

theorem edgeId_le (g : SimpleG) (hg : GraphOK g) (u v : Nat) (hv1 : 1 ≤ v) (hvn : v ≤ g.n)
    (hu : u ∈ g.nbrs v) : PitfallTseitin.edgeId g 1 u v ≤ g.edges.length := by
  have := List.idxOf_lt_length_iff.2 (edge_mem g hg u v hv1 hvn hu)
  simp only [PitfallTseitin.edgeId]; omega

/-- every literal of the template is a legal literal over `1..|E|` -/
theorem template_wf (g : SimpleG) (hg : GraphOK g) : (PitfallTseitin.template g).WF := by
  intro c hc l hl
  simp only [PitfallTseitin.template, List.mem_flatMap, List.mem_range, Linear.parity] at hc
  obtain ⟨i, hi, hc⟩ := hc
  obtain ⟨x, hx, hlx⟩ := parityClauses_lits _ _ c hc l hl
  simp only [PitfallTseitin.vertexLits, List.mem_map] at hx
  obtain ⟨u, hu, rfl⟩ := hx
  have h1 := edgeId_ge g 1 u (i + 1)
  have h2 := edgeId_le g hg u (i + 1) (by omega) (by omega) hu
  simp only [PitfallTseitin.template]
  rcases hlx with rfl | rfl <;> omega

/-! ### A (continued). graphs built by `add_edge` are well formed -/

theorem mem_insertSorted (l : List Nat) (v u : Nat) : u ∈ insertSorted l v ↔ u = v ∨ u ∈ l := by
  induction l with
  | nil => simp [insertSorted]
  | cons x xs ih =>
    simp only [insertSorted]
    split
    · simp only [List.mem_cons, ih]; tauto
    · simp only [List.mem_cons]

theorem pairwise_insertSorted (l : List Nat) (v : Nat) (h : l.Pairwise (· < ·)) (hv : v ∉ l) :
    (insertSorted l v).Pairwise (· < ·) := by
  induction l with
  | nil => simp [insertSorted]
  | cons x xs ih =>
    have hp := List.pairwise_cons.1 h
    simp only [insertSorted]
    split
    · rename_i hxv
      have hne : x ≠ v := fun e => hv (by simp [e])
      refine List.pairwise_cons.2 ⟨?_, ih hp.2 (fun hm => hv (List.mem_cons_of_mem _ hm))⟩
      intro a ha
      rcases (mem_insertSorted xs v a).1 ha with rfl | ha
      · omega
      · exact hp.1 a ha
    · rename_i hxv
      refine List.pairwise_cons.2 ⟨?_, h⟩
      intro a ha
      rcases List.mem_cons.1 ha with rfl | ha
      · omega
      · have := hp.1 a ha; omega

/-- invariant of `Graph.add_edge`: relates the adjacency lists and the edge set -/
structure Inv (g : SimpleG) : Prop where
  len : g.adj.length = g.n + 1
  sorted : ∀ v, (g.adj.getD v []).Pairwise (· < ·)
  adj_iff : ∀ u v, u ∈ g.adj.getD v [] ↔ (v, u) ∈ g.edgeset
  edge_ok : ∀ u v, (u, v) ∈ g.edgeset → 1 ≤ u ∧ u ≤ g.n ∧ 1 ≤ v ∧ v ≤ g.n ∧ u ≠ v ∧ (v, u) ∈ g.edgeset

theorem Inv.graphOK {g : SimpleG} (h : Inv g) : GraphOK g := by
  intro v _ _
  refine ⟨h.sorted v, ?_⟩
  intro u hu
  have := h.edge_ok v u ((h.adj_iff u v).1 hu)
  exact ⟨this.2.2.1, this.2.2.2.1, fun e => this.2.2.2.2.1 e.symm, (h.adj_iff v u).2 this.2.2.2.2.2⟩

theorem inv_init (n : Nat) : Inv (SimpleG.init n) := by
  have hget : ∀ v, (List.replicate (n + 1) ([] : List Nat)).getD v [] = [] := by
    intro v
    rw [List.getD_eq_getElem?_getD, List.getElem?_replicate]
    split <;> rfl
  constructor
  · simp [SimpleG.init]
  · intro v; simp only [SimpleG.init, hget]; exact List.Pairwise.nil
  · intro u v; simp only [SimpleG.init, hget]; simp
  · intro u v h; simp [SimpleG.init] at h

theorem getD_modify (adj : List (List Nat)) (i w : Nat) (f : List Nat → List Nat) (hi : i < adj.length) :
    (adj.modify i f).getD w [] = if w = i then f (adj.getD i []) else adj.getD w [] := by
  simp only [List.getD_eq_getElem?_getD, List.getElem?_modify]
  by_cases h : w = i
  · subst h; simp [List.getElem?_eq_getElem hi]
  · have : ¬ i = w := fun e => h e.symm
    simp [h, this]

theorem inv_addEdge (g g' : SimpleG) (u v : Int) (h : Inv g) (he : g.addEdge u v = .ok g') :
    Inv g' ∧ g'.n = g.n := by
  unfold SimpleG.addEdge at he
  split at he
  · cases he
  · rename_i hc
    simp only [Classical.not_not] at hc
    dsimp only at he
    split at he
    · cases he; exact ⟨h, rfl⟩
    · rename_i hnot
      simp only [Except.ok.injEq] at he
      obtain ⟨hu1, hun, hv1, hvn, huv⟩ := hc
      generalize ha : u.toNat = a at *
      generalize hb : v.toNat = b at *
      have hab : a ≠ b := by omega
      have ha1 : 1 ≤ a := by omega
      have han : a ≤ g.n := by omega
      have hb1 : 1 ≤ b := by omega
      have hbn : b ≤ g.n := by omega
      have hnm : (a, b) ∉ g.edgeset := by simpa using hnot
      generalize hx : min a b = x at *
      generalize hy : max a b = y at *
      have hxy : x < y := by omega
      have hx1 : 1 ≤ x := by omega
      have hyn : y ≤ g.n := by omega
      have hxyE : (x, y) ∉ g.edgeset ∧ (y, x) ∉ g.edgeset := by
        have hba : (b, a) ∉ g.edgeset := fun hm => hnm (h.edge_ok b a hm).2.2.2.2.2
        rcases Nat.lt_or_gt_of_ne hab with hlt | hlt
        · have : x = a := by omega
          have : y = b := by omega
          subst_vars; exact ⟨hnm, hba⟩
        · have : x = b := by omega
          have : y = a := by omega
          subst_vars; exact ⟨hba, hnm⟩
      have hlen := h.len
      have hget : ∀ w, g'.adj.getD w [] =
          if w = y then insertSorted (g.adj.getD y []) x
          else if w = x then insertSorted (g.adj.getD x []) y else g.adj.getD w [] := by
        intro w
        subst he
        simp only []
        rw [getD_modify _ y w _ (by rw [List.length_modify]; omega),
          getD_modify _ x y _ (by omega), getD_modify _ x w _ (by omega)]
        have : y ≠ x := by omega
        simp [this]
      have hn' : g'.n = g.n := by subst he; rfl
      have hes : g'.edgeset = (y, x) :: (x, y) :: g.edgeset := by subst he; rfl
      refine ⟨⟨?_, ?_, ?_, ?_⟩, hn'⟩
      · subst he; simp [List.length_modify, hlen]
      · intro w
        rw [hget w]
        split
        · exact pairwise_insertSorted _ _ (h.sorted y) (fun hm => hxyE.2 ((h.adj_iff x y).1 hm))
        · split
          · exact pairwise_insertSorted _ _ (h.sorted x) (fun hm => hxyE.1 ((h.adj_iff y x).1 hm))
          · exact h.sorted w
      · intro p w
        rw [hget w, hes]
        simp only [List.mem_cons, Prod.mk.injEq]
        split
        · rename_i hw; subst hw
          rw [mem_insertSorted, h.adj_iff]
          constructor
          · rintro (rfl | hm)
            · exact Or.inl ⟨rfl, rfl⟩
            · exact Or.inr (Or.inr hm)
          · rintro (⟨-, rfl⟩ | ⟨hh, -⟩ | hm)
            · exact Or.inl rfl
            · omega
            · exact Or.inr hm
        · rename_i hwy
          split
          · rename_i hw; subst hw
            rw [mem_insertSorted, h.adj_iff]
            constructor
            · rintro (rfl | hm)
              · exact Or.inr (Or.inl ⟨rfl, rfl⟩)
              · exact Or.inr (Or.inr hm)
            · rintro (⟨hh, -⟩ | ⟨-, rfl⟩ | hm)
              · omega
              · exact Or.inl rfl
              · exact Or.inr hm
          · rename_i hwx
            rw [h.adj_iff]
            constructor
            · intro hm; exact Or.inr (Or.inr hm)
            · rintro (⟨hh, -⟩ | ⟨hh, -⟩ | hm)
              · exact absurd hh hwy
              · exact absurd hh hwx
              · exact hm
      · intro p q hm
        rw [hes] at hm ⊢
        rw [hn']
        simp only [List.mem_cons, Prod.mk.injEq] at hm ⊢
        rcases hm with ⟨rfl, rfl⟩ | ⟨rfl, rfl⟩ | hm
        · refine ⟨by omega, hyn, hx1, by omega, by omega, Or.inr (Or.inl ⟨rfl, rfl⟩)⟩
        · refine ⟨hx1, by omega, by omega, hyn, by omega, Or.inl ⟨rfl, rfl⟩⟩
        · have := h.edge_ok p q hm
          exact ⟨this.1, this.2.1, this.2.2.1, this.2.2.2.1, this.2.2.2.2.1, Or.inr (Or.inr this.2.2.2.2.2)⟩

theorem inv_addEdgesFrom (es : List (Int × Int)) (g g' : SimpleG) (h : Inv g)
    (he : g.addEdgesFrom es = .ok g') : Inv g' ∧ g'.n = g.n := by
  induction es generalizing g with
  | nil =>
    simp only [SimpleG.addEdgesFrom, List.foldlM_nil, pure, Except.pure, Except.ok.injEq] at he
    subst he; exact ⟨h, rfl⟩
  | cons e es ih =>
    simp only [SimpleG.addEdgesFrom, List.foldlM_cons, bind, Except.bind] at he
    split at he
    · cases he
    · rename_i g1 h1
      obtain ⟨i1, n1⟩ := inv_addEdge g g1 e.1 e.2 h h1
      obtain ⟨i2, n2⟩ := ih g1 i1 he
      exact ⟨i2, by omega⟩

/-- every graph built by `Graph.from_edges`-style construction is well formed -/
theorem ofEdges_ok (n : Nat) (es : List (Nat × Nat)) (g : SimpleG)
    (h : SimpleG.ofEdges n es = .ok g) : GraphOK g ∧ g.n = n := by
  obtain ⟨i, hn⟩ := inv_addEdgesFrom _ _ g (inv_init n) h
  exact ⟨i.graphOK, hn⟩

end Cnfgen.FamPitfall
