/-
Even colouring — the handshake identity over a vertex set closed under adjacency: the degrees of
its vertices add up to twice the number of edges inside it.  With all degrees even, the sum of the
half-degrees (the quantity in `evenColoring_parity`) is the number of edges inside the set.
-/
import Lemmas.FamTseitinCount
import Lemmas.FamColoring
namespace Cnfgen
namespace Fam

variable {G : SimpleG}

/-- the number of edges `(u,v)` of `G.edges()` whose first end lies in `C` (for a set closed under
adjacency: the edges inside `C`) -/
def edgesIn (G : SimpleG) (C : Nat → Bool) : Nat := (G.edges.filter (fun e => C e.1)).length

theorem list_sum_range (f : Nat → Nat) (k : Nat) :
    ((List.range k).map f).sum = ∑ i ∈ Finset.range k, f i := by
  induction k with
  | zero => simp
  | succ k ih => rw [prefix_sum_succ, Finset.sum_range_succ, ih]

theorem upNbrs_zero (G : SimpleG) : upNbrs G 0 = [] := by
  unfold upNbrs; rw [if_neg]; omega

theorem upNbrs_top (G : SimpleG) : upNbrs G G.n = [] := by
  unfold upNbrs; rw [if_neg]; omega

theorem edgesIn_eq_sum (G : SimpleG) (C : Nat → Bool) :
    edgesIn G C =
      ∑ a ∈ Finset.range (G.n + 1), (if C a = true then (upNbrs G a).length else 0) := by
  unfold edgesIn
  rw [edges_eq, List.filter_flatMap, List.length_flatMap]
  have hrow : (List.range (G.n - 1)).map (fun i =>
        (((upNbrs G (i + 1)).map (fun v => (i + 1, v))).filter (fun e => C e.1)).length) =
      (List.range (G.n - 1)).map (fun i =>
        (fun a => if C a = true then (upNbrs G a).length else 0) (i + 1)) := by
    apply List.map_congr_left
    intro i _
    by_cases hc : C (i + 1) = true
    · simp only []
      rw [if_pos hc, List.filter_eq_self.2, List.length_map]
      intro e he
      obtain ⟨v, _, rfl⟩ := List.mem_map.1 he
      exact hc
    · simp only []
      rw [if_neg hc, List.filter_eq_nil_iff.2, List.length_nil]
      intro e he
      obtain ⟨v, _, rfl⟩ := List.mem_map.1 he
      exact hc
  rw [hrow, list_sum_range]
  rcases Nat.eq_zero_or_pos G.n with h0 | hpos
  · rw [h0]
    have : upNbrs G 0 = [] := upNbrs_zero G
    simp [this]
  · obtain ⟨k, hk⟩ : ∃ k, G.n = k + 1 := ⟨G.n - 1, by omega⟩
    have htop := upNbrs_top G
    rw [hk] at htop ⊢
    rw [Finset.sum_range_succ, Finset.sum_range_succ', upNbrs_zero, htop]
    simp

theorem sum_Icc_filter_eq (n : Nat) (p : Nat → Prop) [DecidablePred p] (f : Nat → Nat) :
    ∑ v ∈ (Finset.Icc 1 n).filter p, f v =
      ∑ a ∈ Finset.range (n + 1), (if 1 ≤ a ∧ p a then f a else 0) := by
  rw [← Finset.sum_filter]
  apply Finset.sum_congr _ (fun _ _ => rfl)
  ext v
  simp only [Finset.mem_filter, Finset.mem_Icc, Finset.mem_range]
  constructor
  · rintro ⟨⟨h1, h2⟩, h3⟩; exact ⟨by omega, h1, h3⟩
  · rintro ⟨h0, h1, h3⟩; exact ⟨⟨h1, by omega⟩, h3⟩

/-- the handshake identity on a closed vertex set -/
theorem closed_degree_sum (hG : GoodGraph G) (C : Nat → Bool)
    (hC : ∀ v u, C v = true → u ∈ G.nbrs v → C u = true) :
    ∑ v ∈ (Finset.Icc 1 G.n).filter (fun v => C v = true), (G.nbrs v).length =
      2 * edgesIn G C := by
  classical
  let N := G.n + 1
  let up : Nat → Nat → Nat := fun a b =>
    if C a = true ∧ 1 ≤ a ∧ a ≤ G.n ∧ b ∈ G.nbrs a ∧ a < b then 1 else 0
  let lo : Nat → Nat → Nat := fun a b =>
    if C a = true ∧ 1 ≤ a ∧ a ≤ G.n ∧ b ∈ G.nbrs a ∧ b < a then 1 else 0
  have hlo : ∀ a b, lo a b = up b a := by
    intro a b
    simp only [lo, up]
    apply if_congr _ rfl rfl
    constructor
    · rintro ⟨hc, _, ha, hb, hlt⟩
      have hm := hG.mem ha hb
      exact ⟨hC a b hc hb, hm.1, hm.2.1, hm.2.2.2, hlt⟩
    · rintro ⟨hc, _, hb, ha, hlt⟩
      have hm := hG.mem hb ha
      exact ⟨hC b a hc ha, hm.1, hm.2.1, hm.2.2.2, hlt⟩
  -- row sums
  have hupRow : ∀ a ∈ Finset.range N, ∑ b ∈ Finset.range N, up a b =
      if C a = true then (upNbrs G a).length else 0 := by
    intro a ha
    simp only [Finset.mem_range, N] at ha
    by_cases hc : C a = true ∧ 1 ≤ a
    · rw [if_pos hc.1, upNbrs_eq' hG hc.2 (by omega), ← List.countP_eq_length_filter,
        countP_eq_sum_range _ _ N (hG.nodup (by omega))
          (fun x hx => by have := (hG.mem (show a ≤ G.n by omega) hx).2.1; omega)]
      apply Finset.sum_congr rfl
      intro b _
      simp only [up]
      apply if_congr _ rfl rfl
      constructor
      · rintro ⟨_, _, _, hb, hlt⟩; exact ⟨hb, by simpa using hlt⟩
      · rintro ⟨hb, hlt⟩; exact ⟨hc.1, hc.2, by omega, hb, by simpa using hlt⟩
    · have hz : ∑ b ∈ Finset.range N, up a b = 0 := by
        apply Finset.sum_eq_zero
        intro b _
        simp only [up]
        rw [if_neg]
        rintro ⟨h1, h2, _⟩; exact hc ⟨h1, h2⟩
      rw [hz]
      by_cases hca : C a = true
      · have : a = 0 := by
          rcases Nat.eq_zero_or_pos a with h | h
          · exact h
          · exact absurd ⟨hca, h⟩ hc
        subst this
        rw [if_pos hca, upNbrs_zero]; rfl
      · rw [if_neg hca]
  have hdegRow : ∀ a ∈ Finset.range N, ∑ b ∈ Finset.range N, (up a b + lo a b) =
      if 1 ≤ a ∧ C a = true then (G.nbrs a).length else 0 := by
    intro a ha
    simp only [Finset.mem_range, N] at ha
    by_cases hc : 1 ≤ a ∧ C a = true
    · rw [if_pos hc]
      have hlen : (G.nbrs a).length = (G.nbrs a).countP (fun _ => true) := by simp
      rw [hlen, countP_eq_sum_range _ _ N (hG.nodup (by omega))
          (fun x hx => by have := (hG.mem (show a ≤ G.n by omega) hx).2.1; omega)]
      apply Finset.sum_congr rfl
      intro b _
      simp only [up, lo]
      by_cases hb : b ∈ G.nbrs a
      · have hne := (hG.mem (show a ≤ G.n by omega) hb).2.2.1
        have han : a ≤ G.n := by omega
        rcases Nat.lt_or_gt_of_ne hne with hlt | hgt
        · have h1 : ¬ a < b := by omega
          simp [hc.1, hc.2, han, hb, hlt, h1]
        · have h1 : ¬ b < a := by omega
          simp [hc.1, hc.2, han, hb, hgt, h1]
      · simp [hb]
    · rw [if_neg hc]
      apply Finset.sum_eq_zero
      intro b _
      simp only [up, lo]
      have h1 : ¬(C a = true ∧ 1 ≤ a ∧ a ≤ G.n ∧ b ∈ G.nbrs a ∧ a < b) := by
        rintro ⟨h1, h2, _⟩; exact hc ⟨h2, h1⟩
      have h2 : ¬(C a = true ∧ 1 ≤ a ∧ a ≤ G.n ∧ b ∈ G.nbrs a ∧ b < a) := by
        rintro ⟨h1, h2, _⟩; exact hc ⟨h2, h1⟩
      rw [if_neg h1, if_neg h2]; rfl
  have hswap : ∑ a ∈ Finset.range N, ∑ b ∈ Finset.range N, lo a b =
      ∑ a ∈ Finset.range N, ∑ b ∈ Finset.range N, up a b := by
    rw [Finset.sum_comm]
    apply Finset.sum_congr rfl
    intro a _
    apply Finset.sum_congr rfl
    intro b _
    exact hlo b a
  rw [sum_Icc_filter_eq, edgesIn_eq_sum, ← Finset.sum_congr rfl hupRow,
    ← Finset.sum_congr rfl hdegRow]
  simp only [Finset.sum_add_distrib]
  rw [hswap]
  omega

end Fam
end Cnfgen
