/-
Lemmas about `Cnfgen.Cli.parseArgs` (CnfgenModel/Cli/Dispatch.lean) for the sub-commands whose positionals
each take one typed token and whose options are all flags (`numericOnly`).
-/
import CnfgenModel.Cli.DispatchChecks
namespace Cnfgen.Cli
open Cnfgen.Gen

/-- on the numeric sub-commands the parser answers, and refuses only with a CLIError -/
theorem numeric_parse_total (s : CliSpec) (hn : numericOnly s = true) (argv : List String)
    (hf : inFragment s argv = true) :
    (∃ b, parseArgs s argv = .ok b) ∨ parseArgs s argv = .error .cliError := by
  sorry

/-- it accepts exactly when the number of argument tokens is the number of positionals and every token
passes the validator of ITS positional (wherever the flags stand) -/
theorem numeric_parse_ok_iff (s : CliSpec) (hn : numericOnly s = true) (argv : List String)
    (hf : inFragment s argv = true) :
    (∃ b, parseArgs s argv = .ok b) ↔
      ((argTokens s argv).length = (positionals s).length ∧
       ∀ p ∈ (positionals s).zip (argTokens s argv), (convertOne p.1 p.2).isSome = true) := by
  sorry

/-- and then the i-th argument token, converted, is the value of the i-th positional: no swap -/
theorem numeric_parse_values (s : CliSpec) (hn : numericOnly s = true) (hwf : specWF s = true)
    (argv : List String) (hf : inFragment s argv = true) (b : Ns) (h : parseArgs s argv = .ok b) :
    ∀ p ∈ (positionals s).zip (argTokens s argv), b.lookup p.1.dest = convertOne p.1 p.2 := by
  sorry

end Cnfgen.Cli
