/-
Lemmas about `Cnfgen.Cli.parseArgs` (CnfgenModel/Cli/Dispatch.lean) for the sub-commands whose positionals
each take one typed token and whose options are all flags (`numericOnly`).
-/
import CnfgenModel.Cli.DispatchChecks
namespace Cnfgen.Cli
open Cnfgen.Gen

/-! ### options -/

theorem dnum_std_basic (o : OptSpec) (h : o.standard = true) :
    o.nested = false ∧ (o.action == "PHPArgs") = false ∧ (o.action == "compose_two_parsers") = false ∧
      o.group = "" := by
  unfold OptSpec.standard at h
  simp only [Bool.and_eq_true] at h
  have h1 := h.1.1.1.1.1.1.1
  have h2 := h.1.1.1.1.1.2
  have h3 := h.1.1.1.1.2
  have h4 := h.1.1.1.2
  refine ⟨?_, ?_, ?_, ?_⟩
  · simpa using h1
  · simpa using h2
  · simpa using h3
  · simpa using h4

theorem dnum_std_action (o : OptSpec) (h : o.standard = true) : (o.action == "PHPArgs") = false :=
  (dnum_std_basic o h).2.1

theorem dnum_std_action2 (o : OptSpec) (h : o.standard = true) :
    (o.action == "compose_two_parsers") = false :=
  (dnum_std_basic o h).2.2.1

theorem dnum_bindOne_flag (o : OptSpec) (hs : o.standard = true) (ha : o.arity = .zero) :
    bindOne o [] = .ok [(o.dest, o.flagVal)] := by
  unfold bindOne; simp [dnum_std_action o hs, dnum_std_action2 o hs, ha]

theorem dnum_consumeOpt_flag (o : OptSpec) (hs : o.standard = true) (ha : o.arity = .zero)
    (chunk : List String) : consumeOpt o chunk = .ok ([(o.dest, o.flagVal)], chunk) := by
  unfold consumeOpt; simp [ha, dnum_bindOne_flag o hs ha, Except.map]

theorem dnum_bindOne_some (o : OptSpec) (t : String) (v : Val) (hs : o.standard = true)
    (ha : o.arity = .one) (hc : convertOne o t = some v) : bindOne o [t] = .ok [(o.dest, v)] := by
  unfold bindOne; simp [dnum_std_action o hs, dnum_std_action2 o hs, ha, hc]

theorem dnum_bindOne_none (o : OptSpec) (t : String) (hs : o.standard = true)
    (ha : o.arity = .one) (hc : convertOne o t = none) : bindOne o [t] = .error .cliError := by
  unfold bindOne; simp [dnum_std_action o hs, dnum_std_action2 o hs, ha, hc]

theorem dnum_optOf (s : CliSpec) (t : String) (o : OptSpec) (h : optOf s t = some o) :
    o ∈ s.opts ∧ o.positional = false := by
  unfold optOf at h
  refine ⟨List.mem_of_find?_eq_some h, ?_⟩
  have := List.find?_some h
  simp at this
  exact this.1

/-! ### the pattern of the positionals -/

theorem dnum_sum_minArgs (n : Nat) : ((List.replicate n Arity.one).map minArgs).sum = n := by
  induction n with
  | zero => rfl
  | succ n ih => simp [List.replicate_succ, minArgs]; omega

theorem dnum_counts (i L : Nat) :
    counts (List.replicate i .one) L = if i ≤ L then some (List.replicate i 1) else none := by
  induction i generalizing L with
  | zero => simp [counts]
  | succ i ih =>
    rw [List.replicate_succ, counts]
    simp only [dnum_sum_minArgs, ih]
    by_cases h : 1 + i ≤ L
    · have h1 : i ≤ L - 1 := by omega
      have h2 : i + 1 ≤ L := by omega
      simp [h, h1, h2, List.replicate_succ]
    · have h2 : ¬ (i + 1 ≤ L) := by omega
      simp [h, h2]

theorem dnum_matchPartial (n L i : Nat) (hi : i ≤ n) :
    matchPartial (List.replicate n .one) L i = List.replicate (min i L) 1 := by
  induction i with
  | zero => simp [matchPartial]
  | succ i ih =>
    rw [matchPartial, List.take_replicate, dnum_counts]
    have hm : min (i + 1) n = i + 1 := by omega
    rw [hm]
    by_cases h : i + 1 ≤ L
    · have : min (i + 1) L = i + 1 := by omega
      simp [h, this]
    · have : min (i + 1) L = min i L := by omega
      simp only [h, if_false, this]
      exact ih (by omega)

theorem dnum_map_arity (ps : List OptSpec) (hps : ∀ p ∈ ps, p.standard = true ∧ p.arity = .one) :
    ps.map OptSpec.arity = List.replicate ps.length .one := by
  induction ps with
  | nil => rfl
  | cons p ps ih =>
    simp only [List.map_cons, List.length_cons, List.replicate_succ]
    rw [(hps p (by simp)).2, ih (fun q hq => hps q (by simp [hq]))]

/-! ### what the positionals bind -/

/-- `(k, v)` is the binding of one of the positionals `ps` to its token in `toks` -/
def dnum_PosBind (ps : List OptSpec) (toks : List String) (k : String) (v : Val) : Prop :=
  ∃ p ∈ ps.zip toks, k = p.1.dest ∧ convertOne p.1 p.2 = some v

/-- every token passes the validator of its positional -/
def dnum_AllConv (ps : List OptSpec) (toks : List String) : Prop :=
  ∀ p ∈ ps.zip toks, (convertOne p.1 p.2).isSome = true

theorem dnum_applyPos (chunk : List String) (ps : List OptSpec)
    (hps : ∀ p ∈ ps, p.standard = true ∧ p.arity = .one) (hl : chunk.length ≤ ps.length) :
    match applyPos ps (List.replicate chunk.length 1) chunk with
    | .error e => e = .cliError ∧ ¬ dnum_AllConv ps chunk
    | .ok b => dnum_AllConv ps chunk ∧ ∀ k v, (k, v) ∈ b ↔ dnum_PosBind ps chunk k v := by
  induction chunk generalizing ps with
  | nil =>
    cases ps <;> simp [applyPos, dnum_AllConv, dnum_PosBind]
  | cons t ts ih =>
    match ps, hl with
    | o :: os, hl =>
      have ho := hps o (by simp)
      have hos : ∀ p ∈ os, p.standard = true ∧ p.arity = .one := fun q hq => hps q (by simp [hq])
      have ih' := ih os hos (by simpa using hl)
      simp only [List.length_cons, List.replicate_succ, applyPos, List.take_succ_cons, List.take_zero,
        List.drop_succ_cons, List.drop_zero]
      cases hc : convertOne o t with
      | none =>
        rw [dnum_bindOne_none o t ho.1 ho.2 hc]
        refine ⟨rfl, fun hall => ?_⟩
        have := hall (o, t) (by simp)
        simp [hc] at this
      | some v =>
        rw [dnum_bindOne_some o t v ho.1 ho.2 hc]
        simp only
        cases hr : applyPos os (List.replicate ts.length 1) ts with
        | error e =>
          rw [hr] at ih'
          simp only at ih' ⊢
          refine ⟨ih'.1, fun hall => ih'.2 (fun p hp => hall p (by simp [hp]))⟩
        | ok b =>
          rw [hr] at ih'
          simp only at ih' ⊢
          refine ⟨?_, ?_⟩
          · intro p hp
            simp only [List.zip_cons_cons, List.mem_cons] at hp
            rcases hp with rfl | hp
            · simp [hc]
            · exact ih'.1 p hp
          · intro k w
            simp only [List.mem_append, ih'.2, dnum_PosBind, List.zip_cons_cons,
              List.mem_cons, Prod.mk.injEq, List.not_mem_nil, or_false]
            constructor
            · rintro (⟨p, hp, h1, h2⟩ | ⟨rfl, rfl⟩)
              · exact ⟨p, Or.inr hp, h1, h2⟩
              · exact ⟨(o, t), Or.inl rfl, rfl, hc⟩
            · rintro ⟨p, rfl | hp, h1, h2⟩
              · right
                simp only at h1 h2
                rw [hc] at h2
                exact ⟨h1, (Option.some.inj h2).symm⟩
              · exact Or.inl ⟨p, hp, h1, h2⟩

theorem dnum_sum_ones (m : Nat) : (List.replicate m 1).sum = m := by
  induction m with
  | zero => rfl
  | succ m ih => simp [List.replicate_succ, ih]; omega

theorem dnum_consumePos (ps : List OptSpec) (hps : ∀ p ∈ ps, p.standard = true ∧ p.arity = .one)
    (chunk : List String) (final : Bool) :
    match consumePos ps chunk final with
    | .error e => e = .cliError ∧ ¬ (chunk.length ≤ ps.length ∧ dnum_AllConv ps chunk)
    | .ok (ps', b) => chunk.length ≤ ps.length ∧ ps' = ps.drop chunk.length ∧ dnum_AllConv ps chunk ∧
        ∀ k v, (k, v) ∈ b ↔ dnum_PosBind ps chunk k v := by
  unfold consumePos
  by_cases h0 : (chunk.isEmpty && !final) = true
  · rw [if_pos h0]
    have hc : chunk = [] := by
      simp only [Bool.and_eq_true, List.isEmpty_iff] at h0
      exact h0.1
    subst hc
    simp [dnum_AllConv, dnum_PosBind]
  · rw [if_neg h0]
    simp only []
    rw [dnum_map_arity ps hps, dnum_matchPartial _ _ _ (Nat.le_refl _)]
    simp only [dnum_sum_ones, List.length_replicate]
    by_cases hle : chunk.length ≤ ps.length
    · have hm : min ps.length chunk.length = chunk.length := by omega
      rw [hm, if_neg (Nat.lt_irrefl _)]
      have := dnum_applyPos chunk ps hps hle
      cases hr : applyPos ps (List.replicate chunk.length 1) chunk with
      | error e =>
        rw [hr] at this
        simp only at this ⊢
        exact ⟨this.1, fun h => this.2 h.2⟩
      | ok b =>
        rw [hr] at this
        simp only at this ⊢
        exact ⟨hle, trivial, this.1, this.2⟩
    · have hm : min ps.length chunk.length = ps.length := by omega
      rw [hm, if_pos (by omega)]
      exact ⟨rfl, fun h => hle h.1⟩

/-! ### the loop over the options -/

theorem dnum_zip_append (ts us : List String) (ps : List OptSpec) (hl : ts.length ≤ ps.length) :
    ps.zip (ts ++ us) = ps.zip ts ++ (ps.drop ts.length).zip us := by
  induction ts generalizing ps with
  | nil => simp
  | cons t ts ih =>
    match ps, hl with
    | o :: os, hl =>
      simp only [List.cons_append, List.zip_cons_cons, List.length_cons, List.drop_succ_cons]
      rw [ih os (by simpa using hl)]

theorem dnum_AllConv_append (ts us : List String) (ps : List OptSpec) (hl : ts.length ≤ ps.length) :
    dnum_AllConv ps (ts ++ us) ↔ dnum_AllConv ps ts ∧ dnum_AllConv (ps.drop ts.length) us := by
  unfold dnum_AllConv
  rw [dnum_zip_append ts us ps hl]
  simp only [List.mem_append]
  constructor
  · intro h
    exact ⟨fun p hp => h p (Or.inl hp), fun p hp => h p (Or.inr hp)⟩
  · rintro ⟨h1, h2⟩ p (hp | hp)
    · exact h1 p hp
    · exact h2 p hp

theorem dnum_PosBind_append (ts us : List String) (ps : List OptSpec) (hl : ts.length ≤ ps.length)
    (k : String) (v : Val) :
    dnum_PosBind ps (ts ++ us) k v ↔ dnum_PosBind ps ts k v ∨ dnum_PosBind (ps.drop ts.length) us k v := by
  unfold dnum_PosBind
  rw [dnum_zip_append ts us ps hl]
  simp only [List.mem_append]
  constructor
  · rintro ⟨p, hp | hp, h⟩
    · exact Or.inl ⟨p, hp, h⟩
    · exact Or.inr ⟨p, hp, h⟩
  · rintro (⟨p, hp, h⟩ | ⟨p, hp, h⟩)
    · exact ⟨p, Or.inl hp, h⟩
    · exact ⟨p, Or.inr hp, h⟩

theorem dnum_parseSegs (segs : List (OptSpec × List String))
    (hsegs : ∀ x ∈ segs, x.1.standard = true ∧ x.1.arity = .zero)
    (ps : List OptSpec) (hps : ∀ p ∈ ps, p.standard = true ∧ p.arity = .one) :
    match parseSegs ps segs with
    | .error e => e = .cliError ∧
        ¬ ((segs.flatMap (·.2)).length = ps.length ∧ dnum_AllConv ps (segs.flatMap (·.2)))
    | .ok b => (segs.flatMap (·.2)).length = ps.length ∧ dnum_AllConv ps (segs.flatMap (·.2)) ∧
        (∀ k v, dnum_PosBind ps (segs.flatMap (·.2)) k v → (k, v) ∈ b) ∧
        (∀ k v, (k, v) ∈ b → dnum_PosBind ps (segs.flatMap (·.2)) k v ∨
          ∃ x ∈ segs, k = x.1.dest ∧ v = x.1.flagVal) := by
  induction segs generalizing ps with
  | nil =>
    unfold parseSegs
    cases ps with
    | nil => simp [dnum_AllConv, dnum_PosBind]
    | cons p ps => simp
  | cons x rest ih =>
    obtain ⟨o, chunk⟩ := x
    have ho := hsegs (o, chunk) (by simp)
    have hrest : ∀ x ∈ rest, x.1.standard = true ∧ x.1.arity = .zero :=
      fun x hx => hsegs x (by simp [hx])
    unfold parseSegs
    rw [dnum_consumeOpt_flag o ho.1 ho.2 chunk]
    simp only [List.flatMap_cons]
    have hcp := dnum_consumePos ps hps chunk rest.isEmpty
    cases hr : consumePos ps chunk rest.isEmpty with
    | error e =>
      rw [hr] at hcp
      simp only at hcp ⊢
      refine ⟨hcp.1, fun h => hcp.2 ?_⟩
      have hle : chunk.length ≤ ps.length := by
        have := h.1; simp only [List.length_append] at this; omega
      exact ⟨hle, ((dnum_AllConv_append chunk _ ps hle).1 h.2).1⟩
    | ok r =>
      obtain ⟨ps', bs⟩ := r
      rw [hr] at hcp
      simp only at hcp ⊢
      obtain ⟨hle, hps', hall, hbs⟩ := hcp
      subst hps'
      have hps' : ∀ p ∈ ps.drop chunk.length, p.standard = true ∧ p.arity = .one :=
        fun p hp => hps p (List.mem_of_mem_drop hp)
      have ih' := ih hrest (ps.drop chunk.length) hps'
      have hlen : (chunk ++ rest.flatMap (·.2)).length = ps.length ↔
          (rest.flatMap (·.2)).length = (ps.drop chunk.length).length := by
        simp only [List.length_append, List.length_drop]; omega
      cases hr2 : parseSegs (ps.drop chunk.length) rest with
      | error e =>
        rw [hr2] at ih'
        simp only at ih' ⊢
        refine ⟨ih'.1, fun h => ih'.2 ⟨hlen.1 h.1, ((dnum_AllConv_append chunk _ ps hle).1 h.2).2⟩⟩
      | ok more =>
        rw [hr2] at ih'
        simp only at ih' ⊢
        obtain ⟨h1, h2, h3, h4⟩ := ih'
        refine ⟨hlen.2 h1, (dnum_AllConv_append chunk _ ps hle).2 ⟨hall, h2⟩, ?_, ?_⟩
        · intro k v hkv
          rcases (dnum_PosBind_append chunk _ ps hle k v).1 hkv with h | h
          · simp only [List.mem_append]
            exact Or.inl (Or.inr ((hbs k v).2 h))
          · simp only [List.mem_append]
            exact Or.inl (Or.inl (h3 k v h))
        · intro k v hkv
          simp only [List.mem_append, List.mem_singleton, Prod.mk.injEq] at hkv
          rcases hkv with (hkv | hkv) | hkv
          · rcases h4 k v hkv with h | ⟨x, hx, hk⟩
            · exact Or.inl ((dnum_PosBind_append chunk _ ps hle k v).2 (Or.inr h))
            · exact Or.inr ⟨x, by simp [hx], hk⟩
          · exact Or.inl ((dnum_PosBind_append chunk _ ps hle k v).2 (Or.inl ((hbs k v).1 hkv)))
          · exact Or.inr ⟨(o, chunk), by simp, hkv⟩

/-! ### the whole parser -/

theorem dnum_numericOnly (s : CliSpec) (hn : numericOnly s = true) (o : OptSpec) (ho : o ∈ s.opts) :
    o.standard = true ∧ (o.positional = true → o.arity = .one) ∧
      (o.positional = false → o.arity = .zero ∧ o.required = false) := by
  unfold numericOnly at hn
  rw [List.all_eq_true] at hn
  have := hn o ho
  cases hp : o.positional <;> simp [hp] at this <;> simp [this]

theorem dnum_positionals (s : CliSpec) (hn : numericOnly s = true) :
    ∀ p ∈ positionals s, p.standard = true ∧ p.arity = .one := by
  intro p hp
  unfold positionals at hp
  rw [List.mem_filter] at hp
  have := dnum_numericOnly s hn p (List.mem_filter.1 hp.1).1
  exact ⟨this.1, this.2.1 hp.2⟩

theorem dnum_requiredSeen (s : CliSpec) (hn : numericOnly s = true) (b : Ns) : requiredSeen s b = true := by
  unfold requiredSeen
  rw [List.all_eq_true]
  intro o ho
  have := dnum_numericOnly s hn o ho
  cases hp : o.positional
  · simp [(this.2.2 hp).2]
  · simp

theorem dnum_segments (s : CliSpec) (argv : List String) (hf : inFragment s argv = true) :
    ∃ c0 segs, segments s argv = .ok (c0, segs) ∧ argTokens s argv = c0 ++ segs.flatMap (·.2) ∧
      ∀ x ∈ segs, x.1 ∈ s.opts ∧ x.1.positional = false := by
  induction argv with
  | nil => exact ⟨[], [], rfl, rfl, by simp⟩
  | cons t rest ih =>
    unfold inFragment at hf
    rw [List.all_cons, Bool.and_eq_true] at hf
    obtain ⟨c, segs, h1, h2, h3⟩ := ih hf.2
    have ht := hf.1
    unfold segments
    rw [h1]
    simp only
    unfold argTokens at h2 ⊢
    rw [List.filter_cons]
    cases hc : classify s t with
    | arg =>
      refine ⟨t :: c, segs, rfl, ?_, h3⟩
      simp [h2]
    | opt o =>
      refine ⟨[], (o, c) :: segs, rfl, ?_, ?_⟩
      · simp [h2]
      · intro x hx
        rcases List.mem_cons.1 hx with rfl | hx
        · apply dnum_optOf s t
          unfold classify at hc
          split at hc
          · rename_i o' ho'
            rw [ho']
            injection hc with hc
            rw [hc]
          · split at hc <;> cases hc
        · exact h3 x hx
    | outside =>
      rw [hc] at ht
      simp at ht

theorem dnum_mutexOK (segs : List (OptSpec × List String)) (h : ∀ x ∈ segs, x.1.group = "") :
    mutexOK segs = true := by
  unfold mutexOK
  rw [List.all_eq_true]
  intro p hp
  rw [List.all_eq_true]
  intro q _
  simp [h p hp]

theorem dnum_parseRaw (s : CliSpec) (hn : numericOnly s = true) (argv : List String)
    (hf : inFragment s argv = true) :
    match parseRaw s argv with
    | .error e => e = .cliError ∧
        ¬ ((argTokens s argv).length = (positionals s).length ∧
            dnum_AllConv (positionals s) (argTokens s argv))
    | .ok b => (argTokens s argv).length = (positionals s).length ∧
        dnum_AllConv (positionals s) (argTokens s argv) ∧
        (∀ k v, dnum_PosBind (positionals s) (argTokens s argv) k v → (k, v) ∈ b) ∧
        (∀ k v, (k, v) ∈ b → dnum_PosBind (positionals s) (argTokens s argv) k v ∨
          ∃ o ∈ s.opts, o.positional = false ∧ k = o.dest ∧ v = o.flagVal) := by
  obtain ⟨chunk, segs, hseg, htoks, hopts⟩ := dnum_segments s argv hf
  have hsegs : ∀ x ∈ segs, x.1.standard = true ∧ x.1.arity = .zero := by
    intro x hx
    have h := hopts x hx
    have := dnum_numericOnly s hn x.1 h.1
    exact ⟨this.1, (this.2.2 h.2).1⟩
  have hps := dnum_positionals s hn
  have hmut : mutexOK segs = true :=
    dnum_mutexOK segs (fun x hx => (dnum_std_basic x.1 (hsegs x hx).1).2.2.2)
  unfold parseRaw
  generalize positionals s = ps at hps ⊢
  rw [hseg, htoks]
  simp only [hmut, Bool.not_true, Bool.false_eq_true, if_false, dnum_requiredSeen s hn, if_true]
  have hcp := dnum_consumePos ps hps chunk segs.isEmpty
  cases hr : consumePos ps chunk segs.isEmpty with
  | error e =>
    rw [hr] at hcp
    simp only at hcp ⊢
    refine ⟨hcp.1, fun h => hcp.2 ?_⟩
    have hle : chunk.length ≤ ps.length := by
      have := h.1; simp only [List.length_append] at this; omega
    exact ⟨hle, ((dnum_AllConv_append chunk _ ps hle).1 h.2).1⟩
  | ok r =>
    obtain ⟨ps', bs⟩ := r
    rw [hr] at hcp
    simp only at hcp ⊢
    obtain ⟨hle, hps', hall, hbs⟩ := hcp
    subst hps'
    have hps' : ∀ p ∈ ps.drop chunk.length, p.standard = true ∧ p.arity = .one :=
      fun p hp => hps p (List.mem_of_mem_drop hp)
    have ih' := dnum_parseSegs segs hsegs (ps.drop chunk.length) hps'
    have hlen : (chunk ++ segs.flatMap (·.2)).length = ps.length ↔
        (segs.flatMap (·.2)).length = (ps.drop chunk.length).length := by
      simp only [List.length_append, List.length_drop]; omega
    cases hr2 : parseSegs (ps.drop chunk.length) segs with
    | error e =>
      rw [hr2] at ih'
      simp only at ih' ⊢
      refine ⟨ih'.1, fun h => ih'.2 ⟨hlen.1 h.1, ((dnum_AllConv_append chunk _ ps hle).1 h.2).2⟩⟩
    | ok more =>
      rw [hr2] at ih'
      simp only at ih' ⊢
      obtain ⟨h1, h2, h3, h4⟩ := ih'
      refine ⟨hlen.2 h1, (dnum_AllConv_append chunk _ ps hle).2 ⟨hall, h2⟩, ?_, ?_⟩
      · intro k v hkv
        rcases (dnum_PosBind_append chunk _ ps hle k v).1 hkv with h | h
        · simp only [List.mem_append]
          exact Or.inr ((hbs k v).2 h)
        · simp only [List.mem_append]
          exact Or.inl (h3 k v h)
      · intro k v hkv
        simp only [List.mem_append] at hkv
        rcases hkv with hkv | hkv
        · rcases h4 k v hkv with h | ⟨x, hx, hk⟩
          · exact Or.inl ((dnum_PosBind_append chunk _ ps hle k v).2 (Or.inr h))
          · exact Or.inr ⟨x.1, (hopts x hx).1, (hopts x hx).2, hk.1, hk.2⟩
        · exact Or.inl ((dnum_PosBind_append chunk _ ps hle k v).2 (Or.inl ((hbs k v).1 hkv)))

/-! ### nothing to expand -/

theorem dnum_expand_id (s : CliSpec) (b : Ns) (h : ∀ k v, (k, v) ∈ b → ∀ l, v ≠ .toks l) :
    expand s b = .ok b := by
  induction b with
  | nil => rfl
  | cons x b ih =>
    obtain ⟨k, v⟩ := x
    have ih' := ih (fun k' v' hm => h k' v' (List.mem_cons_of_mem _ hm))
    have hv := h k v (by simp)
    cases v <;> first | exact absurd rfl (hv _) | (unfold expand; rw [ih'])

theorem dnum_convertOne_noToks (o : OptSpec) (t : String) (v : Val) (h : convertOne o t = some v)
    (l : List String) : v ≠ .toks l := by
  unfold convertOne at h
  split at h
  · split at h
    · cases h; intro hh; cases hh
    · cases h
  · cases hv : validate o.ty t with
    | none => simp [hv] at h
    | some i =>
      simp [hv] at h
      subst h; intro hh; cases hh

theorem dnum_constVal_noToks (e : Expr) (l : List String) : constVal e ≠ .toks l := by
  cases e <;> simp [constVal]

theorem dnum_flagVal_noToks (o : OptSpec) (l : List String) : o.flagVal ≠ .toks l := by
  unfold OptSpec.flagVal
  split
  · intro hh; cases hh
  · split
    · intro hh; cases hh
    · exact dnum_constVal_noToks _ l

theorem dnum_parseArgs_eq (s : CliSpec) (hn : numericOnly s = true) (argv : List String)
    (hf : inFragment s argv = true) : parseArgs s argv = parseRaw s argv := by
  have h := dnum_parseRaw s hn argv hf
  unfold parseArgs
  cases hr : parseRaw s argv with
  | error e => rfl
  | ok b =>
    rw [hr] at h
    simp only at h ⊢
    apply dnum_expand_id
    intro k v hkv l
    rcases h.2.2.2 k v hkv with ⟨p, _, _, hc⟩ | ⟨o, _, _, _, hv⟩
    · exact dnum_convertOne_noToks _ _ _ hc l
    · rw [hv]; exact dnum_flagVal_noToks o l

theorem dnum_parseArgs (s : CliSpec) (hn : numericOnly s = true) (argv : List String)
    (hf : inFragment s argv = true) :
    match parseArgs s argv with
    | .error e => e = .cliError ∧
        ¬ ((argTokens s argv).length = (positionals s).length ∧
            dnum_AllConv (positionals s) (argTokens s argv))
    | .ok b => (argTokens s argv).length = (positionals s).length ∧
        dnum_AllConv (positionals s) (argTokens s argv) ∧
        (∀ k v, dnum_PosBind (positionals s) (argTokens s argv) k v → (k, v) ∈ b) ∧
        (∀ k v, (k, v) ∈ b → dnum_PosBind (positionals s) (argTokens s argv) k v ∨
          ∃ o ∈ s.opts, o.positional = false ∧ k = o.dest ∧ v = o.flagVal) := by
  rw [dnum_parseArgs_eq s hn argv hf]
  exact dnum_parseRaw s hn argv hf

/-! ### reading the namespace -/

theorem dnum_lookup_unique (b : Ns) (k : String) (v : Val) (hm : (k, v) ∈ b)
    (hu : ∀ v', (k, v') ∈ b → v' = v) : b.lookup k = some v := by
  induction b with
  | nil => cases hm
  | cons x b ih =>
    obtain ⟨k', v'⟩ := x
    rw [List.lookup_cons]
    by_cases hk : k = k'
    · subst hk
      simp only [beq_self_eq_true]
      rw [hu v' (by simp)]
    · have hk' : (k == k') = false := by simp [hk]
      simp only [hk']
      apply ih
      · rcases List.mem_cons.1 hm with h | h
        · exact absurd (Prod.mk.inj h).1 hk
        · exact h
      · intro w hw
        exact hu w (List.mem_cons_of_mem _ hw)

theorem dnum_zip_unique (ps : List OptSpec) (ts : List String) (hnd : (destsOf ps).Nodup)
    (p q : OptSpec × String) (hp : p ∈ ps.zip ts) (hq : q ∈ ps.zip ts) (hd : p.1.dest = q.1.dest) :
    p = q := by
  induction ps generalizing ts with
  | nil => simp at hp
  | cons o os ih =>
    cases ts with
    | nil => simp at hp
    | cons t ts =>
      unfold destsOf at hnd ih
      rw [List.map_cons, List.nodup_cons] at hnd
      simp only [List.zip_cons_cons, List.mem_cons] at hp hq
      have hmem : ∀ r : OptSpec × String, r ∈ os.zip ts → r.1.dest ≠ o.dest := by
        intro r hr heq
        apply hnd.1
        rw [← heq]
        exact List.mem_map_of_mem (f := fun x : OptSpec => x.dest) (List.of_mem_zip hr).1
      rcases hp with rfl | hp <;> rcases hq with rfl | hq
      · rfl
      · exact absurd hd.symm (hmem q hq)
      · exact absurd hd (hmem p hp)
      · exact ih ts hnd.2 hp hq

/-! ### the theorems -/

/-- on the numeric sub-commands the parser answers, and refuses only with a CLIError -/
theorem numeric_parse_total (s : CliSpec) (hn : numericOnly s = true) (argv : List String)
    (hf : inFragment s argv = true) :
    (∃ b, parseArgs s argv = .ok b) ∨ parseArgs s argv = .error .cliError := by
  have h := dnum_parseArgs s hn argv hf
  cases hr : parseArgs s argv with
  | error e =>
    rw [hr] at h
    simp only at h
    right
    rw [h.1]
  | ok b => exact Or.inl ⟨b, rfl⟩

/-- it accepts exactly when the number of argument tokens is the number of positionals and every token
passes the validator of ITS positional (wherever the flags stand) -/
theorem numeric_parse_ok_iff (s : CliSpec) (hn : numericOnly s = true) (argv : List String)
    (hf : inFragment s argv = true) :
    (∃ b, parseArgs s argv = .ok b) ↔
      ((argTokens s argv).length = (positionals s).length ∧
       ∀ p ∈ (positionals s).zip (argTokens s argv), (convertOne p.1 p.2).isSome = true) := by
  have h := dnum_parseArgs s hn argv hf
  cases hr : parseArgs s argv with
  | error e =>
    rw [hr] at h
    simp only at h
    constructor
    · rintro ⟨b, hb⟩
      cases hb
    · intro h'
      exact absurd h' h.2
  | ok b =>
    rw [hr] at h
    simp only at h
    constructor
    · intro _
      exact ⟨h.1, h.2.1⟩
    · intro _
      exact ⟨b, rfl⟩

/-- and then the i-th argument token, converted, is the value of the i-th positional: no swap -/
theorem numeric_parse_values (s : CliSpec) (hn : numericOnly s = true) (hwf : specWF s = true)
    (argv : List String) (hf : inFragment s argv = true) (b : Ns) (h : parseArgs s argv = .ok b) :
    ∀ p ∈ (positionals s).zip (argTokens s argv), b.lookup p.1.dest = convertOne p.1 p.2 := by
  have hspec := dnum_parseArgs s hn argv hf
  rw [h] at hspec
  simp only at hspec
  obtain ⟨_, hall, hin, hout⟩ := hspec
  unfold specWF at hwf
  simp only [Bool.and_eq_true, decide_eq_true_eq] at hwf
  obtain ⟨⟨⟨hnd, hdisj⟩, _⟩, _⟩ := hwf
  rw [List.all_eq_true] at hdisj
  intro p hp
  have hsome := hall p hp
  cases hc : convertOne p.1 p.2 with
  | none => simp [hc] at hsome
  | some v =>
    apply dnum_lookup_unique
    · exact hin _ _ ⟨p, hp, rfl, hc⟩
    · intro v' hv'
      rcases hout _ _ hv' with ⟨q, hq, hd, hcq⟩ | ⟨o, ho, hpos, hd, _⟩
      · have := dnum_zip_unique _ _ hnd p q hp hq hd
        subst this
        rw [hc] at hcq
        exact (Option.some.inj hcq).symm
      · exfalso
        have := hdisj o ho
        simp only [hpos, Bool.false_or, Bool.not_eq_true', List.contains_eq_mem,
          decide_eq_false_iff_not] at this
        apply this
        rw [← hd]
        exact List.mem_map_of_mem (f := fun x : OptSpec => x.dest) (List.of_mem_zip hp).1

/-! ### `compose_two_parsers`: the numeric branch -/

/-- the sub-parser chosen when the first token is a number has positionals `[n, d]`: one typed token and an
optional typed token -/
def numericBranch (s : CliSpec) (c n d : OptSpec) : Prop :=
  positionals s = [c] ∧ c.action = "compose_two_parsers" ∧ c.arity = .star ∧ c.nested = false ∧
  (∃ p1 p2, c.compose = [p1, p2] ∧ subPositionals s p1 = [n, d]) ∧
  composeOpt s c.dest = some c ∧
  n.arity = .one ∧ d.arity = .opt ∧ n.action ≠ "PHPArgs" ∧ n.action ≠ "compose_two_parsers" ∧
  d.action ≠ "PHPArgs" ∧ d.action ≠ "compose_two_parsers" ∧ n.dest ≠ d.dest ∧
  (∀ o ∈ s.opts, o.positional = false → o.required = false)

theorem dnum_segments_args (s : CliSpec) (toks : List String) (harg : ∀ t ∈ toks, classify s t = .arg) :
    segments s toks = .ok (toks, []) := by
  induction toks with
  | nil => rfl
  | cons t ts ih =>
    unfold segments
    rw [ih (fun u hu => harg u (List.mem_cons_of_mem _ hu)), harg t (by simp)]

theorem dnum_bindOne_compose (c : OptSpec) (ha : c.action = "compose_two_parsers") (toks : List String) :
    bindOne c toks = .ok [(c.dest, .toks toks)] := by
  unfold bindOne
  simp [ha]

theorem dnum_consumePos_star (c : OptSpec) (ha : c.action = "compose_two_parsers") (har : c.arity = .star)
    (toks : List String) : consumePos [c] toks true = .ok ([], [(c.dest, .toks toks)]) := by
  unfold consumePos
  simp [matchPartial, counts, har, applyPos, dnum_bindOne_compose c ha]

theorem dnum_parseRaw_compose (s : CliSpec) (c : OptSpec) (hp : positionals s = [c])
    (ha : c.action = "compose_two_parsers") (har : c.arity = .star)
    (hreq : ∀ o ∈ s.opts, o.positional = false → o.required = false)
    (toks : List String) (harg : ∀ t ∈ toks, classify s t = .arg) :
    parseRaw s toks = .ok [(c.dest, .toks toks)] := by
  have hrs : ∀ b, requiredSeen s b = true := by
    intro b
    unfold requiredSeen
    rw [List.all_eq_true]
    intro o ho
    cases hpo : o.positional
    · simp [hreq o ho hpo]
    · simp
  unfold parseRaw
  rw [dnum_segments_args s toks harg, hp]
  simp [mutexOK, dnum_consumePos_star c ha har, parseSegs, hrs]

theorem dnum_bindOne_one (n : OptSpec) (h1 : n.action ≠ "PHPArgs") (h2 : n.action ≠ "compose_two_parsers")
    (har : n.arity = .one) (t : String) :
    bindOne n [t] = match convertOne n t with | some v => .ok [(n.dest, v)] | none => .error .cliError := by
  unfold bindOne
  simp only [h1, h2, har, beq_iff_eq, if_false]
  cases convertOne _ t <;> rfl

theorem dnum_bindOne_opt1 (d : OptSpec) (h1 : d.action ≠ "PHPArgs") (h2 : d.action ≠ "compose_two_parsers")
    (har : d.arity = .opt) (t : String) :
    bindOne d [t] = match convertOne d t with | some v => .ok [(d.dest, v)] | none => .error .cliError := by
  unfold bindOne
  simp only [h1, h2, har, beq_iff_eq, if_false]
  cases convertOne _ t <;> rfl

theorem dnum_bindOne_opt0 (d : OptSpec) (h1 : d.action ≠ "PHPArgs") (h2 : d.action ≠ "compose_two_parsers")
    (har : d.arity = .opt) : bindOne d [] = .ok [(d.dest, d.defaultVal)] := by
  unfold bindOne
  simp [h1, h2, har]

theorem dnum_consumePos_nd (n d : OptSpec) (hn1 : n.action ≠ "PHPArgs")
    (hn2 : n.action ≠ "compose_two_parsers") (hd1 : d.action ≠ "PHPArgs")
    (hd2 : d.action ≠ "compose_two_parsers") (hna : n.arity = .one) (hda : d.arity = .opt)
    (t0 : String) (rest : List String) :
    consumePos [n, d] (t0 :: rest) true =
      match rest with
      | [] =>
        (match convertOne n t0 with
         | some v => .ok ([], [(d.dest, d.defaultVal), (n.dest, v)])
         | none => .error .cliError)
      | [t1] =>
        (match convertOne n t0, convertOne d t1 with
         | some v0, some v1 => .ok ([], [(d.dest, v1), (n.dest, v0)])
         | _, _ => .error .cliError)
      | _ :: _ :: _ => .error .cliError := by
  unfold consumePos
  match rest with
  | [] =>
    simp [matchPartial, counts, hna, hda, applyPos, minArgs, dnum_bindOne_one n hn1 hn2 hna,
      dnum_bindOne_opt0 d hd1 hd2 hda]
    cases convertOne n t0 <;> rfl
  | [t1] =>
    simp [matchPartial, counts, hna, hda, applyPos, minArgs, dnum_bindOne_one n hn1 hn2 hna,
      dnum_bindOne_opt1 d hd1 hd2 hda]
    cases convertOne n t0 <;> cases convertOne d t1 <;> rfl
  | t1 :: t2 :: r =>
    simp [matchPartial, counts, hna, hda, minArgs]

theorem dnum_parseArgs_compose (s : CliSpec) (c n d : OptSpec) (h : numericBranch s c n d)
    (t0 : String) (rest : List String) (hnum : pyFloatOk t0 = true)
    (harg : ∀ t ∈ t0 :: rest, classify s t = .arg) :
    parseArgs s (t0 :: rest) =
      match consumePos [n, d] (t0 :: rest) true with
      | .error e => .error e
      | .ok (r, b) => if r.isEmpty then .ok (b ++ []) else .error .cliError := by
  obtain ⟨hp, ha, har, _, ⟨p1, p2, hcomp, hsub⟩, hco, _, _, _, _, _, _, _, hreq⟩ := h
  unfold parseArgs
  rw [dnum_parseRaw_compose s c hp ha har hreq _ harg]
  simp only [expand, hco, composeParse, hcomp, hnum, if_true, hsub]
  cases consumePos [n, d] (t0 :: rest) true with
  | error e => rfl
  | ok x =>
    obtain ⟨r, b⟩ := x
    simp only
    cases r.isEmpty <;> rfl

theorem compose_numeric_no_swap (s : CliSpec) (c n d : OptSpec) (h : numericBranch s c n d)
    (toks : List String) (t0 : String) (rest : List String) (htoks : toks = t0 :: rest)
    (hnum : pyFloatOk t0 = true) (harg : ∀ t ∈ toks, classify s t = .arg) :
    (∀ b, parseArgs s toks = .ok b →
       (rest = [] ∧ b.lookup n.dest = convertOne n t0 ∧ b.lookup d.dest = some d.defaultVal) ∨
       (∃ t1, rest = [t1] ∧ b.lookup n.dest = convertOne n t0 ∧ b.lookup d.dest = convertOne d t1)) ∧
    ((∃ b, parseArgs s toks = .ok b) ↔
       ((rest = [] ∧ (convertOne n t0).isSome) ∨
        (∃ t1, rest = [t1] ∧ (convertOne n t0).isSome ∧ (convertOne d t1).isSome))) := by
  subst htoks
  have hpa := dnum_parseArgs_compose s c n d h t0 rest hnum harg
  obtain ⟨_, _, _, _, _, _, hna, hda, hn1, hn2, hd1, hd2, hne, _⟩ := h
  rw [dnum_consumePos_nd n d hn1 hn2 hd1 hd2 hna hda] at hpa
  have hne1 : (n.dest == d.dest) = false := by simp [hne]
  rw [hpa]
  match rest with
  | [] =>
    cases hc : convertOne n t0 with
    | none => simp
    | some v => simp [List.lookup, hne1]
  | [t1] =>
    simp only []
    cases hc : convertOne n t0 with
    | none => simp
    | some v0 =>
      cases hc1 : convertOne d t1 with
      | none => simp [hc1]
      | some v1 => simp [List.lookup, hne1, hc1]
  | t1 :: t2 :: r => simp

end Cnfgen.Cli
