/-
Helper lemmas for the translated `WordOfIndicesVariables` (`Props/C11/GeneratedWords.lean`): itertools commute with
`map`, the dictionary filled by the constructor's loop is the model's `seq2vid` (last position wins).
-/
import Lemmas.GenBlock
import Lemmas.VarsWords
set_option linter.unusedSimpArgs false
namespace Cnfgen.GenVars
open Cnfgen Cnfgen.Vars Cnfgen.PyGen

/-! ### itertools commute with `map` -/

theorem combos_map {α β : Type} (f : α → β) (l : List α) (k : Nat) :
    combos (l.map f) k = (combos l k).map (List.map f) := by
  induction l generalizing k with
  | nil => cases k <;> simp [combos]
  | cons x xs ih =>
    cases k with
    | zero => simp [combos]
    | succ k => simp [combos, ih, List.map_map, Function.comp_def]

theorem combosRepl_map {α β : Type} (f : α → β) (l : List α) (k : Nat) :
    combosRepl (l.map f) k = (combosRepl l k).map (List.map f) := by
  induction k generalizing l with
  | zero => cases l <;> simp [combosRepl]
  | succ k ihk =>
    induction l with
    | nil => simp [combosRepl]
    | cons x xs ihl =>
      have h1 := ihk (x :: xs)
      simp only [List.map_cons] at h1 ihl ⊢
      simp only [combosRepl, h1, ihl, List.map_append, List.map_map, Function.comp_def, List.map_cons]

theorem productRep_map {α β : Type} (f : α → β) (l : List α) (k : Nat) :
    productRep (l.map f) k = (productRep l k).map (List.map f) := by
  induction k with
  | zero => simp [productRep]
  | succ k ih =>
    simp only [productRep, ih, List.flatMap_map, List.map_flatMap, List.map_map, Function.comp_def, List.map_cons]

theorem picks_map {α β : Type} (f : α → β) (l : List α) :
    picks (l.map f) = (picks l).map (fun p => (f p.1, p.2.map f)) := by
  induction l with
  | nil => simp [picks]
  | cons x xs ih => simp [picks, ih, List.map_map, Function.comp_def]

theorem permsK_map {α β : Type} (f : α → β) (k : Nat) (l : List α) :
    permsK k (l.map f) = (permsK k l).map (List.map f) := by
  induction k generalizing l with
  | zero => simp [permsK_zero]
  | succ k ih =>
    rw [permsK_succ, permsK_succ, picks_map]
    simp only [List.flatMap_map, List.map_flatMap, List.map_map, Function.comp_def, ih, List.map_cons]

/-! ### the dictionary -/

theorem lookup_dictSet {κ ν : Type} [BEq κ] [LawfulBEq κ] (d : List (κ × ν)) (k k' : κ) (v : ν) :
    List.lookup k (Py.dictSet d k' v) = if (k == k') = true then some v else List.lookup k d := by
  induction d with
  | nil =>
    cases h : (k == k') <;> simp [Py.dictSet, List.lookup, h]
  | cons p d ih =>
    obtain ⟨k1, v1⟩ := p
    simp only [Py.dictSet]
    cases h1 : (k1 == k')
    · simp only [Bool.false_eq_true, if_false, List.lookup, ih]
      cases h : (k == k1)
      · simp
      · have e : k = k1 := by simpa using h
        subst e
        simp [h1]
    · have e1 : k1 = k' := by simpa using h1
      subst e1
      simp only [if_true, List.lookup]
      cases h : (k == k1) <;> simp [h]

/-- the model's "last position wins" index, for any key type -/
def lastIdx {α : Type} [DecidableEq α] : List α → α → Option Nat
  | [], _ => none
  | x :: xs, w =>
    match lastIdx xs w with
    | some i => some (i + 1)
    | none => if x = w then some 0 else none

theorem lastIdxOf_eq (seqs : List (List Nat)) (w : List Nat) : lastIdxOf seqs w = lastIdx seqs w := by
  induction seqs with
  | nil => rfl
  | cons x xs ih =>
    simp only [lastIdxOf, lastIdx, ih]
    cases lastIdx xs w with
    | some i => rfl
    | none => by_cases h : x = w <;> simp [h]

theorem lastIdx_append {α : Type} [DecidableEq α] (l : List α) (x w : α) :
    lastIdx (l ++ [x]) w = if x = w then some l.length else lastIdx l w := by
  induction l with
  | nil => simp [lastIdx]
  | cons y ys ih =>
    simp only [List.cons_append, lastIdx, ih, List.length_cons]
    by_cases h : x = w
    · simp [h]
    · simp only [h, if_false]

theorem lastIdx_map {α β : Type} [DecidableEq α] [DecidableEq β] (f : α → β) (hf : Function.Injective f)
    (l : List α) (w : α) : lastIdx (l.map f) (f w) = lastIdx l w := by
  induction l with
  | nil => rfl
  | cons x xs ih =>
    simp only [List.map_cons, lastIdx, ih]
    by_cases h : x = w
    · simp [h]
    · have : f x ≠ f w := fun e => h (hf e)
      simp [h, this]

/-- one round of the constructor's loop: `vid += 1; vid2seq.append(c); seq2vid[c] = vid` -/
def wordStep (st : Int × List (List Int) × List (List Int × Int)) (c : List Int) :
    Int × List (List Int) × List (List Int × Int) :=
  (st.1 + 1, st.2.1 ++ [c], Py.dictSet st.2.2 c (st.1 + 1))

theorem word_loop (l : List (List Int)) (v0 : Int) :
    (List.foldl wordStep (v0, [], []) l).1 = v0 + l.length ∧
    (List.foldl wordStep (v0, [], []) l).2.1 = l ∧
    ∀ w, List.lookup w (List.foldl wordStep (v0, [], []) l).2.2 = (lastIdx l w).map (fun (i : Nat) => v0 + 1 + (i : Int)) := by
  induction l using List.reverseRecOn with
  | nil => simp [lastIdx]
  | append_singleton l x ih =>
    obtain ⟨h1, h2, h3⟩ := ih
    rw [List.foldl_append, List.foldl_cons, List.foldl_nil]
    refine ⟨?_, ?_, ?_⟩
    · simp only [wordStep, h1, List.length_append, List.length_singleton]; push_cast; omega
    · simp only [wordStep, h2]
    · intro w
      simp only [wordStep, lookup_dictSet, h3, h1, lastIdx_append]
      by_cases h : w = x
      · subst h; simp; omega
      · have h' : ¬ x = w := fun e => h e.symm
        have hb : (w == x) = false := by simpa using h
        simp [hb, h']

/-! ### the object -/

/-- the enumeration the constructor selects (`none`: `gen` stays unbound — UnboundLocalError) -/
def wordEnum (wt : String) (n k : Nat) : Option (List (List Nat)) :=
  if wt = "combinations" then some (combosSeqs n k)
  else if wt = "combinations_with_replacement" then some (combosReplSeqs n k)
  else if wt = "permutations" then some (permsSeqs n k)
  else if wt = "words" then some (wordsSeqs n k)
  else none

/-- the dictionary `seq2vid` after the constructor's loop -/
def wordDict (nv : Nat) (seqs : List (List Nat)) : List (List Int × Int) :=
  (List.foldl wordStep ((nv : Int), [], []) (seqs.map ints)).2.2

/-- `WordOfIndicesVariables(F, n, k, wordtype=wt)` on a formula with `nv` variables, enumeration `seqs` -/
def wordSelf (nv : Nat) (n k : Int) (wt : String) (seqs : List (List Nat)) : WordOfIndicesVariables :=
  { n := n, k := k, wordtype := wt, offset := nv, vid2seq := seqs.map ints, seq2vid := wordDict nv seqs,
    formula := ⟨nv⟩, ids := ⟨(nv : Int) + 1, (nv : Int) + (seqs.length : Nat) + 1⟩ }

theorem ints_inj : Function.Injective ints := fun _ _ h => ints_injective h

/-- the dictionary is the model's `seq2vid` -/
theorem wordDict_lookup (nv : Nat) (seqs : List (List Nat)) (w : List Nat) :
    List.lookup (ints w) (wordDict nv seqs) = (seq2vid (nv + 1) seqs w).map (fun (v : Nat) => (v : Int)) := by
  unfold wordDict seq2vid
  rw [(word_loop (seqs.map ints) nv).2.2, lastIdx_map ints ints_inj, lastIdxOf_eq]
  cases lastIdx seqs w with
  | none => rfl
  | some i => simp

/-- a key that is not a tuple of naturals is not in the dictionary -/
theorem wordDict_lookup_none (nv : Nat) (seqs : List (List Nat)) (key : List Int) (h : ∀ w, key ≠ ints w) :
    List.lookup key (wordDict nv seqs) = none := by
  unfold wordDict
  rw [(word_loop (seqs.map ints) nv).2.2]
  have : lastIdx (seqs.map ints) key = none := by
    induction seqs with
    | nil => rfl
    | cons x xs ih =>
      have hx : ints x ≠ key := fun e => h x e.symm
      simp [lastIdx, ih, hx]
  rw [this]; rfl

/-- a pattern without `None`, as a tuple of integers -/
def allSome : List (Option Int) → Option (List Int)
  | [] => some []
  | none :: _ => none
  | some i :: ps => (allSome ps).map (i :: ·)

theorem allSome_eq_some {pat : List (Option Int)} {key : List Int} (h : allSome pat = some key) :
    pat = key.map some := by
  induction pat generalizing key with
  | nil => cases h; rfl
  | cons p ps ih =>
    cases p with
    | none => cases h
    | some i =>
      simp only [allSome, Option.map_eq_some_iff] at h
      obtain ⟨k', hk, rfl⟩ := h
      rw [ih hk]; rfl

theorem allSome_map_some (key : List Int) : allSome (key.map some) = some key := by
  induction key with
  | nil => rfl
  | cons i is ih => simp [allSome, ih]

/-- looking a pattern up among keys seen as patterns -/
theorem lookup_up (d : List (List Int × Int)) (pat : List (Option Int)) :
    List.lookup pat (d.map (fun kv => (kv.1.map some, kv.2))) =
      match allSome pat with
      | some key => List.lookup key d
      | none => none := by
  have hinj : ∀ a b : List Int, a.map some = b.map some → a = b :=
    fun a b h => List.map_injective_iff.2 (fun _ _ h => Option.some.inj h) h
  induction d with
  | nil => cases allSome pat <;> rfl
  | cons kv d ih =>
    obtain ⟨k1, v1⟩ := kv
    simp only [List.map_cons, List.lookup]
    cases hp : allSome pat with
    | none =>
      have : (pat == k1.map some) = false := by
        apply beq_false_of_ne
        intro e; rw [e, allSome_map_some] at hp; cases hp
      rw [this, ih, hp]
    | some key =>
      have e := allSome_eq_some hp
      subst e
      cases hk : (key == k1)
      · have hne : key ≠ k1 := by simpa using hk
        have : (key.map some == k1.map some) = false := beq_false_of_ne (fun e => hne (hinj _ _ e))
        rw [this, ih, hp]
        simp [hk]
      · have e : key = k1 := by simpa using hk
        subst e
        simp

/-- the model's `patternNats` through `allSome` -/
theorem patternNats_eq (pat : List (Option Int)) :
    patternNats pat = (allSome pat).bind (fun key => if key.all (fun i => decide (0 ≤ i)) then some (key.map Int.toNat) else none) := by
  induction pat with
  | nil => rfl
  | cons p ps ih =>
    cases p with
    | none => rfl
    | some i =>
      simp only [patternNats, allSome, ih]
      cases allSome ps with
      | none => by_cases hi : i < 0 <;> simp [hi]
      | some key =>
        by_cases hi : i < 0
        · have : ¬ (0 ≤ i) := by omega
          simp [hi, this]
        · have : 0 ≤ i := by omega
          simp only [hi, if_false, Option.map_some, Option.bind_some, List.all_cons, this, decide_true, Bool.true_and]
          by_cases ha : key.all (fun i => decide (0 ≤ i)) = true <;> simp [ha]

/-- `seq2vid[pattern]` of the translated object, for any pattern: the model's lookup through `patternNats` -/
theorem wordDict_lookup_pat (nv : Nat) (seqs : List (List Nat)) (pat : List (Option Int)) :
    List.lookup pat ((wordDict nv seqs).map (fun kv => (kv.1.map some, kv.2))) =
      ((patternNats pat).bind (seq2vid (nv + 1) seqs)).map (fun (v : Nat) => (v : Int)) := by
  rw [lookup_up, patternNats_eq]
  cases hp : allSome pat with
  | none => rfl
  | some key =>
    simp only [Option.bind_some]
    by_cases ha : key.all (fun i => decide (0 ≤ i)) = true
    · have hk : key = ints (key.map Int.toNat) := by
        simp only [ints, List.map_map]
        symm
        have : ∀ i ∈ key, (Int.ofNat ∘ Int.toNat) i = i := by
          intro i hi
          have := (List.all_eq_true.1 ha) i hi
          simp only [decide_eq_true_eq] at this
          simp [Int.toNat_of_nonneg this]
        exact (List.map_congr_left this).trans (List.map_id _)
      rw [if_pos ha, Option.bind_some]
      conv_lhs => rw [hk]
      exact wordDict_lookup nv seqs _
    · rw [if_neg ha]
      simp only [Option.bind_none, Option.map_none]
      apply wordDict_lookup_none
      intro w e
      apply ha
      rw [e, List.all_eq_true]
      intro i hi
      simp only [ints, List.mem_map] at hi
      obtain ⟨a, _, rfl⟩ := hi
      simp

/-- a tuple of naturals as the pattern it is -/
abbrev upPat (w : List Nat) : List (Option Int) := (ints w).map some

theorem patternNats_upPat (w : List Nat) : patternNats (upPat w) = some w := by
  induction w with
  | nil => rfl
  | cons x xs ih =>
    simp only [upPat, ints, List.map_cons, patternNats, Int.ofNat_eq_natCast] at ih ⊢
    have : ¬ ((x : Int) < 0) := by omega
    rw [if_neg this, ih]
    simp

theorem patternNats_eq_upPat {pat : List (Option Int)} {w : List Nat} (h : patternNats pat = some w) : pat = upPat w := by
  induction pat generalizing w with
  | nil => cases h; rfl
  | cons p ps ih =>
    cases p with
    | none => cases h
    | some i =>
      simp only [patternNats] at h
      by_cases hi : i < 0
      · rw [if_pos hi] at h; cases h
      · rw [if_neg hi, Option.map_eq_some_iff] at h
        obtain ⟨w', hw', rfl⟩ := h
        rw [ih hw']
        simp [upPat, ints, Int.toNat_of_nonneg (by omega : 0 ≤ i)]

theorem range_ints (n : Int) (hn : 0 ≤ n) : Py.Range.toList ⟨1, n + 1⟩ = ints (rangeN 1 (n.toNat + 1)) := by
  have := range_toList_nat n.toNat
  rwa [Int.toNat_of_nonneg hn] at this

end Cnfgen.GenVars
