/-
Variable groups over the edges of a bipartite graph (`BipartiteEdgesVariables`): prefix-sum
form of the offsets, bounds and injectivity of the identifiers, meaning of the `force_*`
generators on a sparse mapping.
-/
import Lemmas.C01Map
import Mathlib.Data.List.Basic
namespace Cnfgen.Fam
open Cnfgen

/-- number of edges leaving the left vertices `1..k` -/
def degSum (B : BipG) : Nat → Nat
  | 0 => 0
  | k + 1 => degSum B k + (B.rnbrs (k + 1)).length

theorem degSum_mono (B : BipG) {a b : Nat} (h : a ≤ b) : degSum B a ≤ degSum B b := by
  induction b with
  | zero => have : a = 0 := by omega
            subst this; exact Nat.le_refl _
  | succ b ih =>
    rcases Nat.lt_or_ge a (b + 1) with h' | h'
    · have := ih (by omega); simp only [degSum]; omega
    · have : a = b + 1 := by omega
      subst this; exact Nat.le_refl _

/-- the offset loop of `BipartiteEdgesVariables.__init__` after `k` left vertices -/
theorem offsets_fold (B : BipG) (start k : Nat) :
    (List.range k).foldl (fun (acc : List Nat × Nat) i =>
        (acc.1 ++ [acc.2], acc.2 + (B.rnbrs (i + 1)).length)) ([], start)
      = ((List.range k).map (fun j => start + degSum B j), start + degSum B k) := by
  induction k with
  | zero => simp [degSum]
  | succ k ih =>
    rw [List.range_succ, List.foldl_append, ih]
    simp [degSum, Nat.add_assoc]

theorem offsets_getD (B : BipG) (start u : Nat) (h1 : 1 ≤ u) (h2 : u ≤ B.l) :
    (Vars.bipOffsets B start).getD u 0 = start + degSum B (u - 1) := by
  obtain ⟨k, rfl⟩ : ∃ k, u = k + 1 := ⟨u - 1, by omega⟩
  simp only [Vars.bipOffsets, offsets_fold, List.getD_cons_succ, Nat.add_sub_cancel]
  rw [List.getD_eq_getElem?_getD, List.getElem?_map, List.getElem?_range (by omega)]
  simp

theorem bipId_eq (B : BipG) (start u v : Nat) (h1 : 1 ≤ u) (h2 : u ≤ B.l) :
    Vars.bipId B start u v = start + degSum B (u - 1) + (B.rnbrs u).idxOf v := by
  simp only [Vars.bipId, offsets_getD B start u h1 h2]

theorem bipId_ge (B : BipG) (start u v : Nat) (h1 : 1 ≤ u) (h2 : u ≤ B.l) :
    start ≤ Vars.bipId B start u v := by
  rw [bipId_eq B start u v h1 h2]; omega

theorem bipId_lt_row (B : BipG) (start u v : Nat) (h1 : 1 ≤ u) (h2 : u ≤ B.l) (hv : v ∈ B.rnbrs u) :
    Vars.bipId B start u v < start + degSum B u := by
  rw [bipId_eq B start u v h1 h2]
  have := List.idxOf_lt_length_iff.2 hv
  obtain ⟨k, rfl⟩ : ∃ k, u = k + 1 := ⟨u - 1, by omega⟩
  simp only [degSum, Nat.add_sub_cancel]; omega

theorem bipId_lt (B : BipG) (start u v : Nat) (h1 : 1 ≤ u) (h2 : u ≤ B.l) (hv : v ∈ B.rnbrs u) :
    Vars.bipId B start u v < start + degSum B B.l := by
  have := bipId_lt_row B start u v h1 h2 hv
  have := degSum_mono B h2
  omega

theorem bipId_inj (B : BipG) (start : Nat) {u v u' v' : Nat} (h1 : 1 ≤ u) (h2 : u ≤ B.l)
    (hv : v ∈ B.rnbrs u) (h1' : 1 ≤ u') (h2' : u' ≤ B.l) (hv' : v' ∈ B.rnbrs u')
    (h : Vars.bipId B start u v = Vars.bipId B start u' v') : u = u' ∧ v = v' := by
  have key : ∀ a b x y, 1 ≤ a → a ≤ B.l → 1 ≤ b → b ≤ B.l → x ∈ B.rnbrs a → a < b →
      Vars.bipId B start a x < Vars.bipId B start b y := by
    intro a b x y ha1 ha2 hb1 hb2 hx hab
    have h1 := bipId_lt_row B start a x ha1 ha2 hx
    have h2 := bipId_eq B start b y hb1 hb2
    have h3 := degSum_mono B (show a ≤ b - 1 by omega)
    omega
  have huu : u = u' := by
    rcases Nat.lt_trichotomy u u' with hlt | heq | hgt
    · have := key u u' v v' h1 h2 h1' h2' hv hlt; omega
    · exact heq
    · have := key u' u v' v h1' h2' h1 h2 hv' hgt; omega
  subst huu
  refine ⟨rfl, ?_⟩
  rw [bipId_eq B start u v h1 h2, bipId_eq B start u v' h1 h2] at h
  have h' : (B.rnbrs u).idxOf v = (B.rnbrs u).idxOf v' := by omega
  exact (List.idxOf_inj hv).1 h'

/-- consistency of a bipartite graph object (an invariant of `BipartiteGraph.add_edge`) -/
structure GoodBip (B : BipG) : Prop where
  rnodup : ∀ u, (B.rnbrs u).Nodup
  lnodup : ∀ v, (B.lnbrs v).Nodup
  /-- the two adjacency tables describe the same edge set, within the vertex ranges -/
  adj : ∀ u v, (1 ≤ u ∧ u ≤ B.l ∧ v ∈ B.rnbrs u) ↔ (1 ≤ v ∧ v ≤ B.r ∧ u ∈ B.lnbrs v)
  /-- `number_of_edges()` counts the adjacency entries -/
  card : B.numberOfEdges = degSum B B.l

namespace SMap

theorem var_pos (f : SMap) (hs : 0 < f.start) {u v : Nat} (h1 : 1 ≤ u) (h2 : u ≤ f.B.l) :
    0 < f.var u v := by
  have := bipId_ge f.B f.start u v h1 h2
  simp only [var]; omega

theorem clause_row (f : SMap) (hs : 0 < f.start) (α : Assign) {u : Nat} (h1 : 1 ≤ u) (h2 : u ≤ f.B.l) :
    clauseHolds α (f.row u) = true ↔ ∃ v, v ∈ f.B.rnbrs u ∧ α (f.var u v) = true := by
  have : f.row u = (f.B.rnbrs u).map (fun v => ((f.var u v : Nat) : Int)) := rfl
  rw [this, clauseHolds_map_natCast α _ _ (fun v _ => f.var_pos hs h1 h2)]
  simp only [List.any_eq_true]

theorem count_row (f : SMap) (hs : 0 < f.start) (α : Assign) {u : Nat} (h1 : 1 ≤ u) (h2 : u ≤ f.B.l) :
    count α (f.row u) = (f.B.rnbrs u).countP (fun v => α (f.var u v)) := by
  have : f.row u = (f.B.rnbrs u).map (fun v => ((f.var u v : Nat) : Int)) := rfl
  rw [this, count_map_natCast α _ _ (fun v _ => f.var_pos hs h1 h2)]

/-- the left neighbours listed for `v` are left vertices -/
def ColsInRange (B : BipG) : Prop := ∀ v u, u ∈ B.lnbrs v → 1 ≤ u ∧ u ≤ B.l

theorem GoodBip.cols {B : BipG} (h : GoodBip B) : ∀ v, 1 ≤ v → v ≤ B.r → ∀ u ∈ B.lnbrs v, 1 ≤ u ∧ u ≤ B.l := by
  intro v hv1 hv2 u hu
  have := (h.adj u v).2 ⟨hv1, hv2, hu⟩
  exact ⟨this.1, this.2.1⟩

theorem clause_col (f : SMap) (hs : 0 < f.start) (α : Assign) {v : Nat}
    (hc : ∀ u ∈ f.B.lnbrs v, 1 ≤ u ∧ u ≤ f.B.l) :
    clauseHolds α (f.col v) = true ↔ ∃ u, u ∈ f.B.lnbrs v ∧ α (f.var u v) = true := by
  have : f.col v = (f.B.lnbrs v).map (fun u => ((f.var u v : Nat) : Int)) := rfl
  rw [this, clauseHolds_map_natCast α _ _ (fun u hu => f.var_pos hs (hc u hu).1 (hc u hu).2)]
  simp only [List.any_eq_true]

theorem count_col (f : SMap) (hs : 0 < f.start) (α : Assign) {v : Nat}
    (hc : ∀ u ∈ f.B.lnbrs v, 1 ≤ u ∧ u ≤ f.B.l) :
    count α (f.col v) = (f.B.lnbrs v).countP (fun u => α (f.var u v)) := by
  have : f.col v = (f.B.lnbrs v).map (fun u => ((f.var u v : Nat) : Int)) := rfl
  rw [this, count_map_natCast α _ _ (fun u hu => f.var_pos hs (hc u hu).1 (hc u hu).2)]

theorem atMostOne_row (f : SMap) (hs : 0 < f.start) (α : Assign) {u : Nat} (h1 : 1 ≤ u) (h2 : u ≤ f.B.l)
    (hnd : (f.B.rnbrs u).Nodup) :
    (Con.lin (f.row u) .le 1).holds α = true ↔
      ∀ v ∈ f.B.rnbrs u, ∀ v' ∈ f.B.rnbrs u, α (f.var u v) = true → α (f.var u v') = true → v = v' := by
  simp only [Con.holds, Op.denote, decide_eq_true_eq]
  rw [f.count_row hs α h1 h2, ← countP_le_one_iff_nodup _ _ hnd]; omega

theorem atMostOne_col (f : SMap) (hs : 0 < f.start) (α : Assign) {v : Nat}
    (hc : ∀ u ∈ f.B.lnbrs v, 1 ≤ u ∧ u ≤ f.B.l) (hnd : (f.B.lnbrs v).Nodup) :
    (Con.lin (f.col v) .le 1).holds α = true ↔
      ∀ u ∈ f.B.lnbrs v, ∀ u' ∈ f.B.lnbrs v, α (f.var u v) = true → α (f.var u' v) = true → u = u' := by
  simp only [Con.holds, Op.denote, decide_eq_true_eq]
  rw [f.count_col hs α hc, ← countP_le_one_iff_nodup _ _ hnd]; omega

/-! ### well-formedness -/

theorem lit_wf (f : SMap) (hs : 0 < f.start) (hg : GoodBip f.B) {N : Nat}
    (hN : f.start + f.B.numberOfEdges ≤ N + 1) {u v : Nat} (h1 : 1 ≤ u) (h2 : u ≤ f.B.l)
    (hv : v ∈ f.B.rnbrs u) : f.lit u v ≠ 0 ∧ (f.lit u v).natAbs ≤ N := by
  have h3 := f.var_pos hs (v := v) h1 h2
  have h4 := bipId_lt f.B f.start u v h1 h2 hv
  have := hg.card
  simp only [lit, var] at *; omega

theorem row_wf (f : SMap) (hs : 0 < f.start) (hg : GoodBip f.B) {N : Nat}
    (hN : f.start + f.B.numberOfEdges ≤ N + 1) {u : Nat} (hu : u ∈ idx f.B.l) :
    ∀ l ∈ f.row u, l ≠ 0 ∧ l.natAbs ≤ N := by
  intro l hl
  rw [mem_idx] at hu
  simp only [row, List.mem_map] at hl
  obtain ⟨v, hv, rfl⟩ := hl
  exact f.lit_wf hs hg hN hu.1 hu.2 hv

theorem col_wf (f : SMap) (hs : 0 < f.start) (hg : GoodBip f.B) {N : Nat}
    (hN : f.start + f.B.numberOfEdges ≤ N + 1) {v : Nat} (hv : v ∈ idx f.B.r) :
    ∀ l ∈ f.col v, l ≠ 0 ∧ l.natAbs ≤ N := by
  intro l hl
  rw [mem_idx] at hv
  simp only [col, List.mem_map] at hl
  obtain ⟨u, hu, rfl⟩ := hl
  have := (hg.adj u v).2 ⟨hv.1, hv.2, hu⟩
  exact f.lit_wf hs hg hN this.1 this.2.1 this.2.2

theorem forceComplete_wf (f : SMap) (hs : 0 < f.start) (hg : GoodBip f.B) {N : Nat}
    (hN : f.start + f.B.numberOfEdges ≤ N + 1) : UMap.ConsWF N f.forceComplete := by
  intro c hc
  simp only [forceComplete, List.mem_map] at hc
  obtain ⟨u, hu, rfl⟩ := hc
  exact f.row_wf hs hg hN hu

theorem forceFunctional_wf (f : SMap) (hs : 0 < f.start) (hg : GoodBip f.B) {N : Nat}
    (hN : f.start + f.B.numberOfEdges ≤ N + 1) : UMap.ConsWF N f.forceFunctional := by
  intro c hc
  simp only [forceFunctional, List.mem_map] at hc
  obtain ⟨u, hu, rfl⟩ := hc
  exact f.row_wf hs hg hN hu

theorem forceSurjective_wf (f : SMap) (hs : 0 < f.start) (hg : GoodBip f.B) {N : Nat}
    (hN : f.start + f.B.numberOfEdges ≤ N + 1) : UMap.ConsWF N f.forceSurjective := by
  intro c hc
  simp only [forceSurjective, List.mem_map] at hc
  obtain ⟨v, hv, rfl⟩ := hc
  exact f.col_wf hs hg hN hv

theorem forceInjective_wf (f : SMap) (hs : 0 < f.start) (hg : GoodBip f.B) {N : Nat}
    (hN : f.start + f.B.numberOfEdges ≤ N + 1) : UMap.ConsWF N f.forceInjective := by
  intro c hc
  simp only [forceInjective, List.mem_map] at hc
  obtain ⟨v, hv, rfl⟩ := hc
  exact f.col_wf hs hg hN hv

end SMap
end Cnfgen.Fam

namespace Cnfgen.Fam
open Cnfgen

theorem mem_bip_edges (B : BipG) (u v : Nat) : (u, v) ∈ B.edges ↔ 1 ≤ u ∧ u ≤ B.l ∧ v ∈ B.rnbrs u := by
  simp only [BipG.edges, List.mem_flatMap, List.mem_range, List.mem_map, Prod.mk.injEq]
  constructor
  · rintro ⟨i, hi, w, hw, rfl, rfl⟩; exact ⟨by omega, by omega, hw⟩
  · rintro ⟨h1, h2, h3⟩
    exact ⟨u - 1, by omega, v, by rw [show u - 1 + 1 = u by omega]; exact h3, by omega, rfl⟩

namespace SMap

/-- the assignment (on the identifiers of the group) that realises the edge labelling `R` -/
def assignOf (f : SMap) (R : Nat → Nat → Bool) : Assign :=
  fun x => f.B.edges.any (fun e => f.var e.1 e.2 == x && R e.1 e.2)

theorem assignOf_var (f : SMap) (R : Nat → Nat → Bool) {u v : Nat} (h1 : 1 ≤ u) (h2 : u ≤ f.B.l)
    (hv : v ∈ f.B.rnbrs u) : f.assignOf R (f.var u v) = R u v := by
  rw [Bool.eq_iff_iff]
  simp only [assignOf, List.any_eq_true, Bool.and_eq_true, beq_iff_eq]
  constructor
  · rintro ⟨⟨u', v'⟩, he, hvar, hR⟩
    rw [mem_bip_edges] at he
    obtain ⟨rfl, rfl⟩ := bipId_inj f.B f.start he.1 he.2.1 he.2.2 h1 h2 hv hvar
    exact hR
  · intro hR
    exact ⟨(u, v), (mem_bip_edges _ _ _).2 ⟨h1, h2, hv⟩, rfl, hR⟩

end SMap
end Cnfgen.Fam
