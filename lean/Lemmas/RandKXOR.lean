/-
Lemmas for the model of `cnfgen/families/randomkxor.py` (Rand/KXOR.lean).
-/
import CnfgenModel.Rand.KXOR
import Lemmas.RandKCNF
import Lemmas.Constr
namespace Cnfgen.Rand
open Cnfgen

/-- `value` of `parity_satisfied`: how many members of `X` are in the assignment -/
def xorCount (a : List Int) (X : List Int) : Nat := X.countP (fun x => a.contains x)

/-- the assignment decides every variable of `1..n` -/
def TotalOn (n : Nat) (a : List Int) : Prop := ∀ v : Int, 1 ≤ v → v ≤ n → v ∈ a ∨ -v ∈ a

/-- the parity `(X, b)` agrees with every planted assignment -/
def ParityOK (X : List Int) (b : Int) (planted : List (List Int)) : Prop :=
  ∀ a ∈ planted, ((xorCount a X : Nat) : Int) % 2 = b

instance (X : List Int) (b : Int) (planted : List (List Int)) : Decidable (ParityOK X b planted) := by
  unfold ParityOK; infer_instance

/-- the assignments decide every member of `X` -/
def Decides (planted : List (List Int)) (X : List Int) : Prop := ∀ a ∈ planted, ∀ x ∈ X, x ∈ a ∨ -x ∈ a

theorem decides_of_total {k n : Nat} {planted : List (List Int)} (hT : ∀ a ∈ planted, TotalOn n a)
    {X : List Int} (hX : X ∈ combos (vars n) k) : Decides planted X := by
  intro a ha x hx
  obtain ⟨_, _, hm⟩ := mem_combos_vars.1 hX
  exact hT a ha x (hm x hx).1 (hm x hx).2

theorem parityValue_total {a X : List Int} (h : ∀ x ∈ X, x ∈ a ∨ -x ∈ a) :
    parityValue a X = .ok (xorCount a X) := by
  induction X with
  | nil => rfl
  | cons x xs ih =>
    have ih' := ih (fun y hy => h y (by simp [hy]))
    unfold parityValue
    by_cases hx : a.contains x = true
    · simp only [hx, if_true, ih', Except.map, xorCount, List.countP_cons]
    · have hx' : a.contains (-x) = true := by
        rcases h x (by simp) with h1 | h1
        · exact absurd (by simpa using h1) hx
        · simpa using h1
      simp only [hx, hx', if_true, ih', xorCount, List.countP_cons]
      simp

theorem paritySatisfied_total {X : List Int} {b : Int} {planted : List (List Int)} (h : Decides planted X) :
    paritySatisfied X b planted = .ok (decide (ParityOK X b planted)) := by
  induction planted with
  | nil => simp [paritySatisfied, ParityOK]
  | cons a as ih =>
    have ih' := ih (fun a' ha' => h a' (by simp [ha']))
    unfold paritySatisfied
    rw [parityValue_total (h a (by simp))]
    simp only
    by_cases hb : ((xorCount a X : Nat) : Int) % 2 = b
    · have : (((xorCount a X : Nat) : Int) % 2 != b) = false := by simp [hb]
      simp only [this, ih', Bool.false_eq_true, if_false]
      congr 1
      simp only [ParityOK, List.mem_cons, forall_eq_or_imp, hb, true_and]
    · have : (((xorCount a X : Nat) : Int) % 2 != b) = true := by simp [hb]
      simp only [this, if_true]
      congr 1
      simp only [ParityOK, List.mem_cons, forall_eq_or_imp, hb, false_and, decide_false]

/-- membership in the dense enumeration -/
def IsGood (k n : Nat) (planted : List (List Int)) (p : Parity) : Prop :=
  p.1 ∈ combos (vars n) k ∧ (p.2 = 0 ∨ p.2 = 1) ∧ ParityOK p.1 p.2 planted

theorem goodParitiesOf_total {planted : List (List Int)} {Xs : List (List Int)}
    (h : ∀ X ∈ Xs, Decides planted X) :
    ∃ full, goodParitiesOf planted Xs = .ok full ∧
      (∀ p : Parity, p ∈ full ↔ p.1 ∈ Xs ∧ (p.2 = 0 ∨ p.2 = 1) ∧ ParityOK p.1 p.2 planted) ∧
      (Xs.Nodup → full.Nodup) := by
  induction Xs with
  | nil => exact ⟨[], rfl, by simp, by simp⟩
  | cons X Xs ih =>
    obtain ⟨rest, hrest, hmem, hnd⟩ := ih (fun Y hY => h Y (by simp [hY]))
    have hX := h X (by simp)
    refine ⟨(if decide (ParityOK X 0 planted) then [(X, 0)] else []) ++
      (if decide (ParityOK X 1 planted) then [(X, 1)] else []) ++ rest, ?_, ?_, ?_⟩
    · unfold goodParitiesOf
      rw [paritySatisfied_total hX, paritySatisfied_total hX, hrest]
    · rintro ⟨Y, b⟩
      simp only [List.mem_append, hmem, List.mem_cons]
      constructor
      · rintro ((h0 | h1) | h2)
        · split at h0
          · rename_i hok
            simp only [List.mem_singleton, Prod.mk.injEq] at h0
            obtain ⟨rfl, rfl⟩ := h0
            exact ⟨Or.inl rfl, Or.inl rfl, by simpa using hok⟩
          · simp at h0
        · split at h1
          · rename_i hok
            simp only [List.mem_singleton, Prod.mk.injEq] at h1
            obtain ⟨rfl, rfl⟩ := h1
            exact ⟨Or.inl rfl, Or.inr rfl, by simpa using hok⟩
          · simp at h1
        · exact ⟨Or.inr h2.1, h2.2⟩
      · rintro ⟨hY | hY, hb, hok⟩
        · subst hY
          rcases hb with hb | hb
          · have hb' : b = 0 := hb
            subst hb'
            left; left; simp [hok]
          · have hb' : b = 1 := hb
            subst hb'
            left; right; simp [hok]
        · right; exact ⟨hY, hb, hok⟩
    · intro hn
      rw [List.nodup_cons] at hn
      have hr := hnd hn.2
      have hnot : ∀ b, (X, b) ∉ rest := fun b hb => hn.1 ((hmem (X, b)).1 hb).1
      rw [List.nodup_append]
      refine ⟨?_, hr, ?_⟩
      · by_cases h0 : ParityOK X 0 planted <;> by_cases h1 : ParityOK X 1 planted <;> simp [h0, h1]
      · intro p hp q hq hpq
        subst hpq
        have : p.1 = X := by
          rcases List.mem_append.1 hp with hp | hp
          · split at hp
            · simp at hp; rw [hp]
            · simp at hp
          · split at hp
            · simp at hp; rw [hp]
            · simp at hp
        apply hnot p.2
        rw [← this]; exact hq

theorem allGoodParities_total {k n : Nat} {planted : List (List Int)} (hT : ∀ a ∈ planted, TotalOn n a) :
    ∃ full, allGoodParities k n planted = .ok full ∧ (∀ p, p ∈ full ↔ IsGood k n planted p) ∧ full.Nodup := by
  obtain ⟨full, h1, h2, h3⟩ := goodParitiesOf_total (planted := planted) (Xs := combos (vars n) k)
    (fun X hX => decides_of_total hT hX)
  exact ⟨full, h1, h2, h3 (nodup_combos _ _ (vars_nodup n))⟩

/-! ### the rejection loop -/

def AccInvX (k n m : Nat) (planted : List (List Int)) (acc : List Parity) : Prop :=
  acc.Nodup ∧ (∀ p ∈ acc, IsGood k n planted p) ∧ acc.length ≤ m

theorem key_mem_iff {acc : List Parity} {X : List Int} {b : Int} :
    (acc.map Parity.key).contains (Parity.key (X, b)) = true ↔ (X, b) ∈ acc := by
  simp only [List.contains_iff_mem, List.mem_map, Parity.key]
  constructor
  · rintro ⟨p, hp, he⟩
    have := List.append_inj' he (by simp)
    obtain ⟨h1, h2⟩ := this
    simp only [List.cons.injEq, and_true] at h2
    have : p = (X, b) := Prod.ext h1 h2
    rw [← this]; exact hp
  · intro h; exact ⟨(X, b), h, rfl⟩

theorem sparseLoopX_unfold (k n m : Nat) (planted : List (List Int)) (fuel : Nat) (acc : List Parity) :
    sparseLoopX k n m planted (fuel + 1) acc =
      if acc.length < m then
        drawVars k n >>= fun X => randint 0 1 >>= fun b =>
          if (acc.map Parity.key).contains (Parity.key (X, b)) then sparseLoopX k n m planted fuel acc
          else RandM.lift (paritySatisfied X b planted) >>= fun good =>
            if !good then sparseLoopX k n m planted fuel acc
            else sparseLoopX k n m planted fuel (acc ++ [(X, b)])
      else pure acc := rfl

theorem sparseLoopX_ok {k n m : Nat} {planted : List (List Int)} (hT : ∀ a ∈ planted, TotalOn n a)
    {fuel : Nat} {acc res : List Parity}
    {ds ds' : List Draw} (hL : Legal ds) (hI : AccInvX k n m planted acc)
    (h : sparseLoopX k n m planted fuel acc ds = .ok (res, ds')) :
    AccInvX k n m planted res ∧ Legal ds' ∧ (n ≤ sysMaxsize → ds.length ≤ ds'.length + fuel * 2 ∧
      (res.length = m ∨ ds.length = ds'.length + fuel * 2)) := by
  induction fuel generalizing acc ds with
  | zero =>
    have := RandM.pure_eq_ok.1 h
    simp only [Prod.mk.injEq] at this
    obtain ⟨rfl, rfl⟩ := this
    exact ⟨hI, hL, fun _ => ⟨by omega, Or.inr (by omega)⟩⟩
  | succ fuel ih =>
    rw [sparseLoopX_unfold] at h
    by_cases hlt : acc.length < m
    · simp only [hlt, if_true] at h
      obtain ⟨X, ds1, h1, h2⟩ := RandM.bind_eq_ok.1 h
      obtain ⟨b, ds2, h3, h4⟩ := RandM.bind_eq_ok.1 h2
      obtain ⟨_, hX, hL1, e1⟩ := drawVars_ok hL h1
      obtain ⟨_, rfl⟩ := randint_eq_ok.1 h3
      obtain ⟨hd, hL2⟩ := Legal.cons.1 hL1
      have hb : b = 0 ∨ b = 1 := by
        have := hd; simp only [Draw.Legal] at this; omega
      have step : ∀ acc', AccInvX k n m planted acc' →
          sparseLoopX k n m planted fuel acc' ds2 = .ok (res, ds') →
          AccInvX k n m planted res ∧ Legal ds' ∧ (n ≤ sysMaxsize →
            ds.length ≤ ds'.length + (fuel + 1) * 2 ∧
            (res.length = m ∨ ds.length = ds'.length + (fuel + 1) * 2)) := by
        intro acc' hI' h'
        obtain ⟨a, b', cd⟩ := ih hL2 hI' h'
        refine ⟨a, b', fun hS => ?_⟩
        obtain ⟨c, d⟩ := cd hS
        have e1 := e1 hS
        simp only [List.length_cons] at e1
        refine ⟨by omega, ?_⟩
        rcases d with d | d
        · exact Or.inl d
        · right; omega
      by_cases hc : (acc.map Parity.key).contains (Parity.key (X, b)) = true
      · simp only [hc, if_true] at h4
        exact step acc hI h4
      · simp only [hc] at h4
        rw [paritySatisfied_total (decides_of_total hT hX), RandM.lift_ok] at h4
        obtain ⟨g, ds3, h5, h6⟩ := RandM.bind_eq_ok.1 h4
        have h5' := RandM.pure_eq_ok.1 h5
        simp only [Prod.mk.injEq] at h5'
        obtain ⟨rfl, rfl⟩ := h5'
        by_cases hs : ParityOK X b planted
        · simp only [hs, decide_true, Bool.not_true] at h6
          refine step (acc ++ [(X, b)]) ?_ h6
          obtain ⟨hn, hm, _⟩ := hI
          refine ⟨?_, ?_, by simp; omega⟩
          · rw [List.nodup_append]
            refine ⟨hn, by simp, ?_⟩
            intro a ha b' hb' hab
            simp only [List.mem_singleton] at hb'
            subst hb'; subst hab
            exact hc (key_mem_iff.2 ha)
          · intro p hp
            rcases List.mem_append.1 hp with h' | h'
            · exact hm p h'
            · simp only [List.mem_singleton] at h'
              subst h'
              exact ⟨hX, hb, hs⟩
        · simp only [hs, decide_false] at h6
          exact step acc hI h6
    · simp only [hlt, if_false] at h
      have := RandM.pure_eq_ok.1 h
      simp only [Prod.mk.injEq] at this
      obtain ⟨rfl, rfl⟩ := this
      refine ⟨hI, hL, fun _ => ⟨by omega, Or.inl ?_⟩⟩
      have := hI.2.2; omega

theorem sparseLoopX_error {k n m : Nat} {planted : List (List Int)} (hT : ∀ a ∈ planted, TotalOn n a)
    {fuel : Nat} {acc : List Parity}
    {ds : List Draw} {e : RErr} (hL : Legal ds)
    (h : sparseLoopX k n m planted fuel acc ds = .error e) :
    (e = .py .valueError ∧ n < k) ∨ (e = .outOfDraws ∧ (n ≤ sysMaxsize → ds.length < fuel * 2)) ∨
      e = .mismatch := by
  induction fuel generalizing acc ds with
  | zero => exact absurd h RandM.pure_ne_error
  | succ fuel ih =>
    rw [sparseLoopX_unfold] at h
    by_cases hlt : acc.length < m
    · simp only [hlt, if_true] at h
      rcases RandM.bind_eq_error.1 h with h1 | ⟨X, ds1, h1, h2⟩
      · rcases drawVars_error h1 with h' | ⟨rfl, hd⟩ | rfl
        · exact Or.inl h'
        · right; left; exact ⟨rfl, fun hS => by rw [hd hS]; simp⟩
        · right; right; rfl
      · obtain ⟨_, hX, hL1, e1⟩ := drawVars_ok hL h1
        rcases RandM.bind_eq_error.1 h2 with h3 | ⟨b, ds2, h3, h4⟩
        · rcases randint_eq_error h3 with ⟨_, h'⟩ | ⟨rfl, rfl⟩ | rfl
          · omega
          · right; left; refine ⟨rfl, fun hS => ?_⟩; have e1 := e1 hS; simp at e1 ⊢; omega
          · right; right; rfl
        · obtain ⟨_, rfl⟩ := randint_eq_ok.1 h3
          obtain ⟨_, hL2⟩ := Legal.cons.1 hL1
          have step : ∀ acc', sparseLoopX k n m planted fuel acc' ds2 = .error e →
              (e = .py .valueError ∧ n < k) ∨
                (e = .outOfDraws ∧ (n ≤ sysMaxsize → ds.length < (fuel + 1) * 2)) ∨
                e = .mismatch := by
            intro acc' h'
            rcases ih hL2 h' with h'' | ⟨rfl, hl⟩ | rfl
            · exact Or.inl h''
            · right; left; refine ⟨rfl, fun hS => ?_⟩
              have hl := hl hS; have e1 := e1 hS; simp at e1; omega
            · right; right; rfl
          by_cases hc : (acc.map Parity.key).contains (Parity.key (X, b)) = true
          · simp only [hc, if_true] at h4; exact step _ h4
          · simp only [hc] at h4
            rw [paritySatisfied_total (decides_of_total hT hX), RandM.lift_ok] at h4
            rcases RandM.bind_eq_error.1 h4 with h5 | ⟨g, ds3, h5, h6⟩
            · exact absurd h5 RandM.pure_ne_error
            · have h5' := RandM.pure_eq_ok.1 h5
              simp only [Prod.mk.injEq] at h5'
              obtain ⟨rfl, rfl⟩ := h5'
              by_cases hs : ParityOK X b planted
              · simp only [hs, decide_true, Bool.not_true] at h6; exact step _ h6
              · simp only [hs, decide_false] at h6; exact step _ h6
    · simp only [hlt, if_false] at h
      exact absurd h RandM.pure_ne_error

/-! ### dense sampling, `sample_parities` -/

theorem denseParities_ok {k n m : Nat} {planted : List (List Int)} (hT : ∀ a ∈ planted, TotalOn n a)
    {full : List Parity} (hfull : allGoodParities k n planted = .ok full)
    {ds ds' : List Draw} {res : List Parity}
    (hL : Legal ds) (h : denseParities k n m planted ds = .ok (res, ds')) :
    AccInvX k n m planted res ∧ res.length = m ∧ Legal ds' ∧ ds.length = ds'.length + 1 ∧
      n ≤ sysMaxsize := by
  obtain ⟨full', h1, h2, h3⟩ := allGoodParities_total (k := k) hT
  rw [hfull] at h1; cases h1
  unfold denseParities at h
  by_cases hbig : sysMaxsize < n
  · rw [if_pos hbig, RandM.raise_apply] at h; cases h
  rw [if_neg hbig, hfull, RandM.lift_ok] at h
  obtain ⟨f, ds1, h4, h5⟩ := RandM.bind_eq_ok.1 h
  have h4' := RandM.pure_eq_ok.1 h4
  simp only [Prod.mk.injEq] at h4'
  rw [h4'.1, h4'.2] at h5
  by_cases hlt : full.length < m
  · simp only [hlt, if_true, RandM.raise_apply] at h5; cases h5
  · simp only [hlt, if_false] at h5
    obtain ⟨_, hlen, hmem, hnd, hL', e⟩ := sampleFrom_ok hL h5
    exact ⟨⟨hnd h3, fun p hp => (h2 p).1 (hmem p hp), by omega⟩, hlen, hL', e, by omega⟩

theorem denseParities_error {k n m : Nat} {planted : List (List Int)}
    {full : List Parity} (hfull : allGoodParities k n planted = .ok full)
    {ds : List Draw} {e : RErr} (h : denseParities k n m planted ds = .error e) :
    (e = .py .valueError ∧ full.length < m ∧ n ≤ sysMaxsize) ∨ (e = .outOfDraws ∧ ds = [] ∧ n ≤ sysMaxsize) ∨
      e = .mismatch ∨ (e = .py .overflowError ∧ sysMaxsize < n) := by
  unfold denseParities at h
  by_cases hbig : sysMaxsize < n
  · rw [if_pos hbig, RandM.raise_apply] at h
    cases h; exact Or.inr (Or.inr (Or.inr ⟨rfl, hbig⟩))
  rw [if_neg hbig, hfull, RandM.lift_ok] at h
  rcases RandM.bind_eq_error.1 h with h1 | ⟨f, ds1, h4, h5⟩
  · exact absurd h1 RandM.pure_ne_error
  · have h4' := RandM.pure_eq_ok.1 h4
    simp only [Prod.mk.injEq] at h4'
    rw [h4'.1, h4'.2] at h5
    by_cases hlt : full.length < m
    · simp only [hlt, if_true, RandM.raise_apply] at h5
      cases h5; exact Or.inl ⟨rfl, hlt, by omega⟩
    · simp only [hlt, if_false] at h5
      rcases sampleFrom_error h5 with ⟨_, h'⟩ | ⟨h', h''⟩ | h'
      · exact absurd h' hlt
      · exact Or.inr (Or.inl ⟨h', h'', by omega⟩)
      · exact Or.inr (Or.inr (Or.inl h'))

/-- draws a complete run of `sample_parities` can consume -/
def drawBudgetX (m : Nat) : Nat := retryBudget m * 2 + 1

theorem accInvX_nil (k n m : Nat) (planted : List (List Int)) : AccInvX k n m planted [] :=
  ⟨List.nodup_nil, by simp, by simp⟩

theorem sampleParities_ok {k n m : Nat} {planted : List (List Int)} (hT : ∀ a ∈ planted, TotalOn n a)
    {full : List Parity} (hfull : allGoodParities k n planted = .ok full)
    {ds ds' : List Draw} {res : List Parity}
    (hL : Legal ds) (h : sampleParities k n m planted ds = .ok (res, ds')) :
    AccInvX k n m planted res ∧ res.length = m ∧ Legal ds' ∧
      (n ≤ sysMaxsize → ds.length ≤ ds'.length + drawBudgetX m) := by
  unfold sampleParities at h
  obtain ⟨cl, ds1, h1, h2⟩ := RandM.bind_eq_ok.1 h
  obtain ⟨hI, hL1, e1⟩ := sparseLoopX_ok hT hL (accInvX_nil k n m planted) h1
  by_cases hm : m ≤ cl.length
  · simp only [hm, if_true] at h2
    have := RandM.pure_eq_ok.1 h2
    simp only [Prod.mk.injEq] at this
    obtain ⟨rfl, rfl⟩ := this
    exact ⟨hI, by have := hI.2.2; omega, hL1, fun hS => by have := (e1 hS).1; unfold drawBudgetX; omega⟩
  · simp only [hm, if_false] at h2
    obtain ⟨a, b, c, d, _⟩ := denseParities_ok hT hfull hL1 h2
    exact ⟨a, b, c, fun hS => by have := (e1 hS).1; unfold drawBudgetX; omega⟩

theorem sampleParities_error {k n m : Nat} {planted : List (List Int)} (hT : ∀ a ∈ planted, TotalOn n a)
    {full : List Parity} (hfull : allGoodParities k n planted = .ok full)
    {ds : List Draw} {e : RErr}
    (hL : Legal ds) (h : sampleParities k n m planted ds = .error e) :
    (e = .py .valueError ∧ (n < k ∨ (full.length < m ∧ n ≤ sysMaxsize))) ∨
      (e = .outOfDraws ∧ (n ≤ sysMaxsize → ds.length < drawBudgetX m)) ∨ e = .mismatch ∨
      (e = .py .overflowError ∧ sysMaxsize < n) := by
  unfold sampleParities at h
  rcases RandM.bind_eq_error.1 h with h1 | ⟨cl, ds1, h1, h2⟩
  · rcases sparseLoopX_error hT hL h1 with ⟨rfl, h'⟩ | ⟨rfl, h'⟩ | rfl
    · exact Or.inl ⟨rfl, Or.inl h'⟩
    · right; left; exact ⟨rfl, fun hS => by have := h' hS; unfold drawBudgetX; omega⟩
    · right; right; left; rfl
  · obtain ⟨hI, hL1, e12⟩ := sparseLoopX_ok hT hL (accInvX_nil k n m planted) h1
    by_cases hm : m ≤ cl.length
    · simp only [hm, if_true] at h2
      exact absurd h2 RandM.pure_ne_error
    · simp only [hm, if_false] at h2
      rcases denseParities_error hfull h2 with ⟨rfl, h', hS⟩ | ⟨rfl, rfl, hS⟩ | rfl | ⟨rfl, hb⟩
      · exact Or.inl ⟨rfl, Or.inr ⟨h', hS⟩⟩
      · right; left; refine ⟨rfl, fun _ => ?_⟩
        obtain ⟨e1, e2⟩ := e12 hS
        rcases e2 with e2 | e2
        · omega
        · unfold drawBudgetX; simp at e2; omega
      · right; right; left; rfl
      · right; right; right; exact ⟨rfl, hb⟩

/-! ### `RandomKXOR` -/

theorem randomKXORSys_eq (σ : Int → List Draw) (k n m : Nat) (seed : Option Int) (planted : List (List Int))
    (rng : List Draw) :
    randomKXORSys σ k n m seed planted rng =
      if n < k then .error (.py .valueError)
      else sampleParities k n m planted (usedStream σ seed rng) := by
  unfold randomKXORSys
  rw [RandM.bind_apply, reseed_apply]
  simp only [usedStream]
  by_cases h : n < k
  · simp only [h, if_true]; rfl
  · simp only [h, if_false]; rfl

theorem randomKXOR_eq (σ : Int → List Draw) (k n m : Nat) (seed : Option Int) (planted : List (List Int))
    (rng : List Draw) :
    randomKXOR σ k n m seed planted rng =
      match randomKXORSys σ k n m seed planted rng with
      | .ok (sys, rest) => .ok (kxorFormula n sys, rest)
      | .error e => .error e := by
  unfold randomKXOR
  rw [RandM.bind_apply]
  cases randomKXORSys σ k n m seed planted rng with
  | error e => rfl
  | ok p => obtain ⟨sys, rest⟩ := p; rfl

/-! ### semantics -/

theorem count_asg_pos {a X : List Int} (h : ∀ x ∈ X, 0 < x) : count (asg a) X = xorCount a X := by
  unfold count xorCount
  apply List.countP_congr
  intro x hx
  have hp := h x hx
  simp only [litHolds, hp, if_true, asg]
  have : ((x.natAbs : Nat) : Int) = x := by omega
  rw [this]

theorem kxorFormula_WF {k n : Nat} {sys : List Parity} (h : ∀ p ∈ sys, p.1 ∈ combos (vars n) k) :
    (kxorFormula n sys).WF := by
  intro c hc l hl
  simp only [kxorFormula, List.mem_map] at hc
  obtain ⟨p, hp, rfl⟩ := hc
  simp only [Con.lits] at hl
  obtain ⟨_, _, hm⟩ := mem_combos_vars.1 (h p hp)
  have := hm l hl
  show l ≠ 0 ∧ l.natAbs ≤ n
  omega

theorem kxorFormula_holds {n : Nat} {sys : List Parity} (α : Assign) (hb : ∀ p ∈ sys, p.2 = 0 ∨ p.2 = 1) :
    (kxorFormula n sys).holds α = true ↔ ∀ p ∈ sys, ((count α p.1 : Nat) : Int) % 2 = p.2 := by
  simp only [Formula.holds, kxorFormula, List.all_map, List.all_eq_true, Function.comp_apply, Con.holds,
    decide_eq_true_eq]
  constructor
  · intro h p hp
    have := h p hp
    rcases hb p hp with e | e <;> rw [e] at this ⊢ <;> simp at this <;> omega
  · intro h p hp
    have := h p hp
    rcases hb p hp with e | e <;> rw [e] at this ⊢ <;> simp <;> omega

end Cnfgen.Rand
