/-
Evaluation of the call templates in any namespace whose bindings are typed and whose positionals are bound (`NsOK`):
the lemmas of Lemmas/DispatchTotal.lean part 3, restated for such a namespace instead of "the result of `parseArgs`"
(the proofs are the same), so that they apply to the namespaces of the extended parser as well.
-/
import CnfgenModel.Cli.Argparse
import Lemmas.DispatchTotal
namespace Cnfgen.Cli
open Cnfgen.Gen

/-- the bindings are typed by the options, and every positional is bound -/
def NsOK (s : CliSpec) (b : Ns) : Prop :=
  dtot_sound s.opts b ∧ ∀ o ∈ positionals s, ∃ v, (o.dest, v) ∈ b

/-- the value the namespace gives to the dest of a positional comes from the command line (not from a
default), and is typed by an option with that dest -/
theorem n_bound_lookup (s : CliSpec) (hstd : s.standard = true) (b : Ns) (h : NsOK s b) (d : String) (o : OptSpec) (ho : o ∈ optsFor s d)
    (hpos : o.positional = true) :
    ∃ v o', (namespaceOf s b).lookup d = some v ∧ o' ∈ optsFor s d ∧ producible o' v := by
  unfold optsFor at ho
  obtain ⟨ho1, ho2⟩ := List.mem_filter.1 ho
  have hd : o.dest = d := by simpa using ho2
  have hp : o ∈ positionals s := by
    unfold positionals
    rw [dtot_std_main s hstd]
    exact List.mem_filter.2 ⟨ho1, hpos⟩
  obtain ⟨v0, hv0⟩ := h.2 o hp
  rw [hd] at hv0
  obtain ⟨v, hv⟩ := dtot_lookup_some b d v0 hv0
  obtain ⟨o', ho', hd', hp'⟩ := h.1 _ (dtot_lookup_mem b d v hv)
  refine ⟨v, o', ?_, dtot_mem_optsFor s d o' ho' hd', hp'⟩
  unfold namespaceOf
  rw [List.lookup_append, hv]
  rfl

theorem n_intBound_val (s : CliSpec) (hstd : s.standard = true) (b : Ns) (h : NsOK s b) (d : String) (hd : dtot_intBound s d = true) :
    ∃ i, (namespaceOf s b).lookup d = some (.int i) := by
  unfold dtot_intBound at hd
  simp only [Bool.and_eq_true] at hd
  obtain ⟨o, ho⟩ := dtot_optsFor_head s d hd.1
  have hall := List.all_eq_true.1 hd.2
  have h1 := hall o ho
  simp only [Bool.and_eq_true] at h1
  obtain ⟨v, o', hv, ho', hp⟩ := n_bound_lookup s hstd b h d o ho h1.2
  have h2 := hall o' ho'
  simp only [Bool.and_eq_true] at h2
  obtain ⟨⟨har, hty⟩, _⟩ := h2
  have har' : o'.arity = .one := by simpa using har
  unfold producible at hp
  rw [har'] at hp
  obtain ⟨t, ht⟩ := hp
  obtain ⟨i, rfl⟩ := dtot_convertOne_int o' t v (by simpa using hty) ht
  exact ⟨i, hv⟩

theorem n_starDest_val (s : CliSpec) (hstd : s.standard = true) (b : Ns) (h : NsOK s b) (d : String) (hd : dtot_starDest s d = true) :
    ∃ l, (namespaceOf s b).lookup d = some (.ints l) := by
  unfold dtot_starDest at hd
  simp only [Bool.and_eq_true] at hd
  obtain ⟨o, ho⟩ := dtot_optsFor_head s d hd.1
  have hall := List.all_eq_true.1 hd.2
  have h1 : o.arity = .star := by simpa using hall o ho
  obtain ⟨v, o', hv, ho', hp⟩ := n_bound_lookup s hstd b h d o ho (dtot_arity_star o h1)
  have h2 : o'.arity = .star := by simpa using hall o' ho'
  unfold producible at hp
  rw [h2] at hp
  obtain ⟨l, rfl⟩ := hp
  exact ⟨l, hv⟩

theorem n_intOrNone_val (s : CliSpec) (hstd : s.standard = true) (b : Ns) (h : NsOK s b) (d : String) (hd : dtot_intOrNone s d = true) :
    ∃ v, (namespaceOf s b).lookup d = some v ∧ (v = .none ∨ ∃ i, v = .int i) := by
  unfold dtot_intOrNone at hd
  simp only [Bool.and_eq_true] at hd
  obtain ⟨v, hv⟩ := dtot_ns_some s (dtot_std_main s hstd) b d (by simpa using hd.1)
  refine ⟨v, hv, ?_⟩
  obtain ⟨o, ho, hor⟩ := dtot_ns_lookup s b (h.1) d v hv
  have h1 := List.all_eq_true.1 hd.2 o ho
  simp only [Bool.and_eq_true] at h1
  obtain ⟨⟨har, hty⟩, hdf⟩ := h1
  rcases hor with hp | rfl
  · have har' : o.arity = .one := by simpa using har
    unfold producible at hp
    rw [har'] at hp
    obtain ⟨t, ht⟩ := hp
    exact Or.inr (dtot_convertOne_int o t v (by simpa using hty) ht)
  · cases hdv : o.defaultVal <;> rw [hdv] at hdf <;> simp at hdf
    · exact Or.inl rfl
    · exact Or.inr ⟨_, rfl⟩

theorem n_intIn_val (s : CliSpec) (hstd : s.standard = true) (b : Ns) (h : NsOK s b) (known : List String) (hk : dtot_knows (namespaceOf s b) known)
    (d : String) (hd : dtot_intIn s known d = true) :
    ∃ i, (namespaceOf s b).lookup d = some (.int i) := by
  unfold dtot_intIn at hd
  simp only [Bool.or_eq_true, Bool.and_eq_true] at hd
  rcases hd with hd | ⟨hd, hkn⟩
  · exact n_intBound_val s hstd b h d hd
  · obtain ⟨v, hv, hor⟩ := n_intOrNone_val s hstd b h d hd
    rcases hor with rfl | ⟨i, rfl⟩
    · exact absurd rfl (hk d (by simpa using hkn) _ hv)
    · exact ⟨i, hv⟩

theorem n_guardTotalX_eval (s : CliSpec) (hstd : s.standard = true) (b : Ns) (h : NsOK s b) (g : Expr) :
    ∀ known, dtot_guardTotalX s g known = true → dtot_knows (namespaceOf s b) known →
    ∃ t, evalGuard (namespaceOf s b) g = some t ∧ (t = true → dtot_knows (namespaceOf s b) (dtot_facts g)) := by
  have hm := dtot_std_main s hstd
  have hb : dtot_sound s.opts b := h.1
  have fallback : ∀ e, dtot_facts e = [] → guardTotal s e = true →
      ∃ t, evalGuard (namespaceOf s b) e = some t ∧ (t = true → dtot_knows (namespaceOf s b) (dtot_facts e)) := by
    intro e hfe hg
    obtain ⟨t, ht⟩ := dtot_evalGuard s hm b hb e hg
    exact ⟨t, ht, fun _ d hd => by rw [hfe] at hd; cases hd⟩
  induction g with
  | cmp op x y _ _ =>
    intro known hg hk
    cases x with
    | arg a =>
      cases y with
      | arg c =>
        simp only [dtot_guardTotalX, Bool.and_eq_true] at hg
        obtain ⟨i, hi⟩ := n_intIn_val s hstd b h known hk a hg.1.2
        obtain ⟨j, hj⟩ := n_intIn_val s hstd b h known hk c hg.2
        obtain ⟨r, hr⟩ := dtot_evalCmp_int op i j hg.1.1
        refine ⟨r, ?_, fun _ d hd => by simp [dtot_facts] at hd⟩
        simp [evalGuard, evalE, hi, hj, hr, truthy]
      | _ => simp [dtot_guardTotalX, guardTotal] at hg
    | _ => simp [dtot_guardTotalX, guardTotal] at hg
  | and x y ihx ihy =>
    intro known hg hk
    simp only [dtot_guardTotalX, Bool.and_eq_true] at hg
    obtain ⟨tx, htx, hfx⟩ := ihx known hg.1 hk
    rw [dtot_evalGuard_and, htx]
    cases tx with
    | false => exact ⟨false, rfl, fun hc => by cases hc⟩
    | true =>
      have hk' : dtot_knows (namespaceOf s b) (dtot_facts x ++ known) := by
        intro d hd
        rcases List.mem_append.1 hd with hd | hd
        · exact hfx rfl d hd
        · exact hk d hd
      obtain ⟨ty, hty, hfy⟩ := ihy _ hg.2 hk'
      refine ⟨ty, hty, fun hc d hd => ?_⟩
      simp only [dtot_facts] at hd
      rcases List.mem_append.1 hd with hd | hd
      · exact hfx rfl d hd
      · exact hfy hc d hd
  | not e ih =>
    intro known hg hk
    simp only [dtot_guardTotalX] at hg
    obtain ⟨t, ht, _⟩ := ih known hg hk
    exact ⟨!t, dtot_evalGuard_not _ e t ht, fun _ d hd => by simp [dtot_facts] at hd⟩
  | isNotNone e _ =>
    intro known hg hk
    cases e with
    | arg d =>
      have hg' : guardTotal s (.isNotNone (.arg d)) = true := by simpa [dtot_guardTotalX] using hg
      obtain ⟨t, ht⟩ := dtot_evalGuard s hm b hb _ hg'
      refine ⟨t, ht, fun hc d' hd' v hv hn => ?_⟩
      simp only [dtot_facts, List.mem_singleton] at hd'
      subst hd' hc hn
      simp [evalGuard, evalE, hv, isNoneV, truthy] at ht
    | _ => exact fallback _ (by simp [dtot_facts]) (by simpa [dtot_guardTotalX] using hg)
  | _ =>
    intro known hg hk
    exact fallback _ (by simp [dtot_facts]) (by simpa [dtot_guardTotalX] using hg)

theorem n_argTotalX_eval (s : CliSpec) (hstd : s.standard = true) (b : Ns) (h : NsOK s b) (e : Expr) (he : dtot_argTotalX s e = true) :
    ∃ v, evalE (namespaceOf s b) e = some v ∧ ∀ e', e = .star e' → ∃ l, v = .ints l := by
  have hm := dtot_std_main s hstd
  have hb : dtot_sound s.opts b := h.1
  have fallback : ∀ e, argTotal s e = true →
      ∃ v, evalE (namespaceOf s b) e = some v ∧ ∀ e', e = .star e' → ∃ l, v = .ints l := by
    intro e he
    obtain ⟨⟨v, hv⟩, hns⟩ := dtot_argTotal s hm b hb e he
    exact ⟨v, hv, fun e' he' => absurd he' (hns e')⟩
  cases e with
  | star e' =>
    cases e' with
    | arg d =>
      simp only [dtot_argTotalX] at he
      obtain ⟨l, hl⟩ := n_starDest_val s hstd b h d he
      exact ⟨.ints l, by simp only [evalE]; exact hl, fun _ _ => ⟨l, rfl⟩⟩
    | _ => simp [dtot_argTotalX, argTotal] at he
  | _ => exact fallback _ (by simpa [dtot_argTotalX] using he)

theorem n_evalPosX (s : CliSpec) (hstd : s.standard = true) (b : Ns) (h : NsOK s b) (es : List Expr) (hes : es.all (dtot_argTotalX s) = true) :
    ∃ vs, evalPos (namespaceOf s b) es = some vs := by
  induction es with
  | nil => exact ⟨_, rfl⟩
  | cons e rest ih =>
    simp only [List.all_cons, Bool.and_eq_true] at hes
    obtain ⟨vs, hvs⟩ := ih hes.2
    obtain ⟨v, hv, hst⟩ := n_argTotalX_eval s hstd b h e hes.1
    unfold evalPos
    rw [hv, hvs]
    dsimp only
    split
    · exact ⟨_, rfl⟩
    · rename_i e' hne
      obtain ⟨l, hl⟩ := hst _ rfl
      exact absurd hl (hne l)
    · exact ⟨_, rfl⟩

theorem n_evalKwX (s : CliSpec) (hstd : s.standard = true) (b : Ns) (h : NsOK s b) (kw : List (String × Expr))
    (hkw : kw.all (fun p => dtot_argTotalX s p.2) = true) : ∃ vs, evalKw (namespaceOf s b) kw = some vs := by
  induction kw with
  | nil => exact ⟨_, rfl⟩
  | cons p rest ih =>
    obtain ⟨k, e⟩ := p
    simp only [List.all_cons, Bool.and_eq_true] at hkw
    obtain ⟨vs, hvs⟩ := ih hkw.2
    obtain ⟨v, hv, _⟩ := n_argTotalX_eval s hstd b h e hkw.1
    unfold evalKw
    rw [hv, hvs]
    exact ⟨_, rfl⟩

/-- in such a namespace the helper of a sub-command of `totalClassExt` takes a path, and the call of that path can be
built, or the path raises a ValueError -/
theorem n_eval_total (s : CliSpec) (ht : totalClassExt s = true) (b : Ns) (h : NsOK s b) :
    ∃ t ∈ s.templates, selectTemplate (namespaceOf s b) s.templates = .ok t ∧
      ((∃ c, instantiate (namespaceOf s b) t = .ok c) ∨ instantiate (namespaceOf s b) t = .error .cliError) := by
  unfold totalClassExt at ht
  simp only [Bool.and_eq_true] at ht
  obtain ⟨⟨hstd, hall⟩, hpe⟩ := ht
  have hall' := List.all_eq_true.1 hall
  have hok : ∀ t ∈ s.templates, templateOK t = true := by
    have := hstd
    unfold CliSpec.standard at this
    simp only [Bool.and_eq_true] at this
    exact List.all_eq_true.1 this.2
  obtain ⟨t, htm, hsel⟩ := dtot_selectX (namespaceOf s b) s.templates (fun t htm => by
    have := hall' t htm
    simp only [Bool.and_eq_true] at this
    obtain ⟨c, hc, _⟩ := n_guardTotalX_eval s hstd b h t.guard [] this.1.1.1
      (fun d hd => by cases hd)
    exact ⟨c, hc⟩) hpe
  have ht4 := hall' t htm
  simp only [Bool.and_eq_true] at ht4
  obtain ⟨⟨⟨_, hr⟩, hpos⟩, hkw⟩ := ht4
  refine ⟨t, htm, hsel, ?_⟩
  rcases dtot_instantiate (namespaceOf s b) t hr (hok t htm) (n_evalPosX s hstd b h t.pos hpos)
    (n_evalKwX s hstd b h t.kw hkw) with ⟨_, hc⟩ | ⟨_, he⟩
  · exact Or.inl hc
  · exact Or.inr he

end Cnfgen.Cli
