/-
Even colouring, converse direction — colouring the edges of a closed trail alternately: every
vertex sees as many `true` as `false` edges of the trail, except that for a trail of odd length
the base vertex sees two more `true` ones.
-/
import Lemmas.FamTseitinCountEC
namespace Cnfgen
namespace Fam

/-- positional count: elements satisfying `q` whose position (starting at `k`) satisfies `f` -/
def eca_pos {α : Type} (q : α → Bool) (f : ℕ → Bool) : List α → ℕ → ℕ
  | [], _ => 0
  | e :: es, k => (if q e && f k then 1 else 0) + eca_pos q f es (k + 1)

theorem eca_countP_idxOf {α : Type} [DecidableEq α] (q : α → Bool) (f : ℕ → Bool) :
    ∀ (L : List α) (k : ℕ), L.Nodup →
      L.countP (fun e => q e && f (L.idxOf e + k)) = eca_pos q f L k
  | [], _, _ => by simp [eca_pos]
  | e :: es, k, hnd => by
    have hnd' := List.nodup_cons.mp hnd
    have ih := eca_countP_idxOf q f es (k + 1) hnd'.2
    have hcongr : es.countP (fun e' => q e' && f ((e :: es).idxOf e' + k)) =
        es.countP (fun e' => q e' && f (es.idxOf e' + (k + 1))) := by
      apply List.countP_congr
      intro e' he'
      have hne : e ≠ e' := fun h => hnd'.1 (h ▸ he')
      rw [List.idxOf_cons_ne _ hne]
      have : es.idxOf e' + 1 + k = es.idxOf e' + (k + 1) := by omega
      rw [this]
    rw [List.countP_cons, hcongr, ih]
    simp only [eca_pos, List.idxOf_cons_self, Nat.zero_add]
    omega

theorem eca_walk_balance {H : SimpleGraph ℕ} (x : ℕ) :
    ∀ {a b : ℕ} (q : H.Walk a b) (k : ℕ),
      (eca_pos (fun e => decide (x ∈ e)) (fun n => n % 2 == 0) q.edges k : ℤ) -
        (eca_pos (fun e => decide (x ∈ e)) (fun n => !(n % 2 == 0)) q.edges k : ℤ) =
      if q.length = 0 then 0 else
        (if x = a then (if k % 2 = 0 then 1 else -1) else 0) +
        (if x = b then (if (k + q.length - 1) % 2 = 0 then 1 else -1) else 0) := by
  intro a b q
  induction q with
  | nil => intro k; simp [eca_pos]
  | @cons a w b h q' ih =>
    intro k
    have ih' := ih (k + 1)
    have hne : a ≠ w := h.ne
    have hwb : q'.length = 0 → w = b := fun h0 => SimpleGraph.Walk.eq_of_length_eq_zero h0
    simp only [SimpleGraph.Walk.edges_cons, SimpleGraph.Walk.length_cons, eca_pos,
      Sym2.mem_iff, Bool.and_eq_true, decide_eq_true_eq, beq_iff_eq,
      Bool.not_eq_eq_eq_not, Bool.not_true, beq_eq_false_iff_ne, ne_eq] at ih' ⊢
    push_cast
    split_ifs at ih' ⊢ <;> omega

theorem alt_balance {H : SimpleGraph ℕ} {u : ℕ} (p : H.Walk u u) (ht : p.IsTrail) (x : ℕ) :
    p.edges.countP (fun e => decide (x ∈ e) && altCol p.edges e) =
      p.edges.countP (fun e => decide (x ∈ e) && !altCol p.edges e) +
        (if x = u ∧ p.length % 2 = 1 then 2 else 0) := by
  have hnd := ht.edges_nodup
  have h1 := eca_countP_idxOf (fun e : Sym2 ℕ => decide (x ∈ e)) (fun n => n % 2 == 0)
    p.edges 0 hnd
  have h2 := eca_countP_idxOf (fun e : Sym2 ℕ => decide (x ∈ e)) (fun n => !(n % 2 == 0))
    p.edges 0 hnd
  have h3 := eca_walk_balance (H := H) x p 0
  simp only [Nat.add_zero] at h1 h2
  unfold altCol
  rw [h1, h2]
  have hlen : p.length = 0 → eca_pos (fun e : Sym2 ℕ => decide (x ∈ e)) (fun n => n % 2 == 0)
      p.edges 0 = eca_pos (fun e : Sym2 ℕ => decide (x ∈ e)) (fun n => !(n % 2 == 0))
      p.edges 0 := by
    intro h0
    have : p.edges = [] := by
      apply List.eq_nil_of_length_eq_zero
      rw [SimpleGraph.Walk.length_edges, h0]
    rw [this]; simp [eca_pos]
  simp only [Nat.zero_add] at h3
  split_ifs at h3 ⊢ <;> omega

end Fam
end Cnfgen
