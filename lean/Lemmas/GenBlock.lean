/-
Helper definitions and lemmas for `Props/C11/Generated.lean`: the objects of the translated classes as the model
describes them (`blockSelf` …), and how the translated loops compute (each `*_loop` lemma is an induction over the
fold the translator emitted).
-/
import CnfgenModel.Generated.Funcs
import CnfgenModel.Vars.Manager
import Lemmas.PyRt
import Lemmas.VarsBlock
namespace Cnfgen.GenVars
open Cnfgen Cnfgen.Vars Cnfgen.PyGen

/-- naturals of the model as Python integers -/
abbrev ints (l : List Nat) : List Int := l.map Int.ofNat

/-- the object `BlockOfVariables(F, ranges)` on a formula with `nv` variables, as the model describes it -/
def blockSelf (nv : Nat) (ranges : List Nat) : BlockOfVariables :=
  { ranges := ints ranges, N := blockSize ranges, weights := ints (weights ranges), offset := (nv : Int) + 1,
    formula := ⟨nv⟩, ids := ⟨(nv : Int) + 1, (nv : Int) + blockSize ranges + 1⟩ }

theorem relative_eq (idx ws : List Nat) (h : ∀ i ∈ idx, 1 ≤ i) :
    Py.sum (List.map (fun (z : Int × Int) => (z.1 - 1) * z.2) (List.zip (ints idx) (ints ws))) =
      (((idx.zip ws).map (fun p => (p.1 - 1) * p.2)).foldl (· + ·) 0 : Nat) := by
  induction idx generalizing ws with
  | nil => simp
  | cons i is ih =>
    cases ws with
    | nil => simp
    | cons w ws =>
      have hi : 1 ≤ i := h i (by simp)
      have := ih ws (fun j hj => h j (by simp [hj]))
      simp only [ints, List.map_cons, List.zip_cons_cons, Py.sum_cons, List.foldl_cons] at this ⊢
      rw [this, foldl_add_eq (0 + (i - 1) * w)]
      simp only [Int.ofNat_eq_natCast]
      push_cast [hi]
      omega

theorem weights_pos {ranges : List Nat} (h : 0 < blockSize ranges) : ∀ w ∈ weights ranges, 0 < w := by
  induction ranges with
  | nil => simp [weights]
  | cons r rs ih =>
    rw [blockSize_cons] at h
    have hr : 0 < blockSize rs := Nat.pos_of_mul_pos_left h
    intro w hw
    rw [weights_cons] at hw
    rcases List.mem_cons.1 hw with rfl | hw
    · exact hr
    · exact ih hr w hw

theorem to_index_loop (ws : List Nat) (hw : ∀ w ∈ ws, 0 < w) (acc : List Int) (res : Nat) :
    ∃ r : Int, List.foldlM (fun (st : List Int × Int) (w : Int) =>
      (Py.floordiv st.2 w) >>= fun q =>
      (Py.mod st.2 w) >>= fun r => Except.ok (st.1 ++ [q + 1], r)) (acc, (res : Int)) (ints ws) =
      Except.ok (acc ++ ints (blockIndexAux ws res), r) := by
  induction ws generalizing acc res with
  | nil => exact ⟨res, by simp [blockIndexAux, pure, Except.pure]⟩
  | cons w ws ih =>
    have hw0 : 0 < w := hw w (by simp)
    obtain ⟨r, hr⟩ := ih (fun v hv => hw v (by simp [hv])) (acc ++ [((res / w : Nat) : Int) + 1]) (res % w)
    refine ⟨r, ?_⟩
    simp only [ints, List.map_cons, List.foldlM_cons, Int.ofNat_eq_natCast, Py.floordiv_nat res w hw0,
      Py.mod_nat res w hw0, bind, Except.bind] at hr ⊢
    simp only [blockIndexAux]
    simpa [List.append_assoc] using hr

theorem block_contains_iff (nv : Nat) (ranges : List Nat) (v : Int) :
    BlockOfVariables.contains (blockSelf nv ranges) v = true ↔
      nv + 1 ≤ v.natAbs ∧ v.natAbs < nv + 1 + blockSize ranges := by
  unfold BlockOfVariables.contains Py.Range.contains
  simp only [Bool.and_eq_true, decide_eq_true_iff]
  simp only [blockSelf, Py.abs_eq]
  omega

theorem count_loop (ranges : List Int) (a : Int) :
    List.foldl (fun (v : Int) (x : Int) => if (True ∧ (x ≥ 0)) then v + 1 else v) a ranges =
      a + (ranges.countP (fun x => decide (0 ≤ x)) : Nat) := by
  induction ranges generalizing a with
  | nil => simp
  | cons x xs ih =>
    simp only [List.foldl_cons, ih, List.countP_cons]
    by_cases hx : 0 ≤ x <;> simp [hx]; omega

theorem count_ne_length_iff (ranges : List Int) :
    ((0 : Int) + (ranges.countP (fun x => decide (0 ≤ x)) : Nat) ≠ (ranges.length : Int)) ↔
      ranges.any (· < 0) = true := by
  rw [Int.zero_add, Ne, Int.natCast_inj, List.countP_eq_length]
  simp only [List.any_eq_true, decide_eq_true_iff, not_forall]
  constructor
  · rintro ⟨x, hx, h⟩; exact ⟨x, hx, by omega⟩
  · rintro ⟨x, hx, h⟩; exact ⟨x, hx, by omega⟩

theorem weights_loop (rs : List Nat) :
    List.foldlM (fun (w : List Int) (r : Int) =>
      (Py.index w (-1)) >>= fun x => Except.ok (w ++ [x * r])) [1] (ints rs).reverse =
      Except.ok (ints (blockSize rs :: weights rs)).reverse := by
  induction rs with
  | nil => rfl
  | cons r rs ih =>
    simp only [ints, List.map_cons, List.reverse_cons, List.foldlM_append, List.foldlM_cons, List.foldlM_nil] at ih ⊢
    rw [ih]
    simp only [bind, Except.bind, Py.index_neg_one, pure, Except.pure, weights_cons, blockSize_cons, List.map_cons,
      List.reverse_cons]
    simp [Int.mul_comm]

theorem ints_toNat {ranges : List Int} (h : ranges.any (· < 0) = false) : ints (ranges.map Int.toNat) = ranges := by
  induction ranges with
  | nil => rfl
  | cons x xs ih =>
    simp only [List.any_cons, Bool.or_eq_false_iff, decide_eq_false_iff_not] at h
    simp only [ints, List.map_cons, Int.ofNat_eq_natCast] at ih ⊢
    rw [ih h.2, Int.toNat_of_nonneg (by omega)]

/-- what the model keeps of a `BlockOfVariables` object -/
def blockGroup (self : BlockOfVariables) (fmt : String) : Group :=
  .block self.offset.toNat (self.ranges.map Int.toNat) fmt

theorem blockGroup_blockSelf (nv : Nat) (ranges : List Nat) (fmt : String) :
    blockGroup (blockSelf nv ranges) fmt = .block (nv + 1) ranges fmt := by
  simp only [blockGroup, blockSelf, ints, List.map_map]
  have h1 : ((nv : Int) + 1).toNat = nv + 1 := by omega
  have h2 : List.map (Int.toNat ∘ Int.ofNat) ranges = ranges :=
    (List.map_congr_left (fun a _ => by simp)).trans (List.map_id _)
  rw [h1, h2]

/-- a loop that appends one (possibly failing) computed entry per element is `mapM` -/
theorem foldlM_append_eq_mapM {α β : Type} (f : α → Except Err β) (l : List α) (acc : List β) :
    List.foldlM (fun (acc : List β) (a : α) => (f a) >>= fun b => Except.ok (acc ++ [b])) acc l =
      (l.mapM f).map (acc ++ ·) := by
  induction l generalizing acc with
  | nil => simp
  | cons a l ih =>
    simp only [List.foldlM_cons, List.mapM_cons]
    cases f a with
    | error e => simp
    | ok b =>
      simp only [Py.ok_bind, ih]
      cases List.mapM f l with
      | error e => simp
      | ok bs => simp

theorem product_map {α β : Type} (g : α → β) (ls : List (List α)) :
    product (ls.map (List.map g)) = (product ls).map (List.map g) := by
  induction ls with
  | nil => simp [product]
  | cons l ls ih =>
    simp only [List.map_cons, product, ih, List.flatMap_map, List.map_flatMap, List.map_map]
    congr 1

theorem range_toList_nat (R : Nat) : Py.Range.toList ⟨1, (R : Int) + 1⟩ = ints (rangeN 1 (R + 1)) := by
  simp only [Py.Range.toList, rangeI, rangeN, ints, List.map_map]
  have : ((R : Int) + 1 - 1).toNat = R + 1 - 1 := by omega
  rw [this]
  apply List.map_congr_left
  intro a _
  simp; omega

/-- one column of the pattern, as the translated loop body computes it -/
def genCol (p : Option Int × Int) : Except Err (List Int) :=
  match p.1 with
  | none => Except.ok (Py.Range.toList (Py.Range.mk 1 (p.2 + 1)))
  | some i => if 1 ≤ i ∧ i ≤ p.2 then Except.ok [i] else Except.error Err.valueError

theorem genCol_eq (p : Option Int) (r : Nat) :
    genCol (p, (r : Int)) = (blockCol (p, r)).map ints := by
  cases p with
  | none => simp [genCol, blockCol, range_toList_nat, Except.map]
  | some i =>
    simp only [genCol, blockCol]
    by_cases h : 1 ≤ i ∧ i ≤ (r : Int)
    · rw [if_pos h, if_pos h]
      simp only [Except.map, ints, List.map_cons, List.map_nil, Int.ofNat_eq_natCast]
      rw [Int.toNat_of_nonneg (by omega)]
    · rw [if_neg h, if_neg h]; rfl

theorem mapM_genCol (pat : List (Option Int)) (ranges : List Nat) :
    (pat.zip (ints ranges)).mapM genCol = ((pat.zip ranges).mapM blockCol).map (List.map ints) := by
  induction pat generalizing ranges with
  | nil => simp [pure, Except.pure, Except.map]
  | cons p ps ih =>
    cases ranges with
    | nil => simp [ints, pure, Except.pure, Except.map]
    | cons r rs =>
      simp only [ints, List.map_cons, List.zip_cons_cons, List.mapM_cons, Int.ofNat_eq_natCast] at ih ⊢
      rw [genCol_eq, ih rs]
      cases blockCol (p, r) with
      | error e => simp [Except.map, bind, Except.bind]
      | ok c =>
        cases List.mapM blockCol (ps.zip rs) with
        | error e => simp [Except.map, bind, Except.bind]
        | ok cs => simp [Except.map, bind, Except.bind, pure, Except.pure, ints]

theorem legal_pos {ranges idx : List Nat} (h : LegalIdx ranges idx) : ∀ i ∈ idx, 1 ≤ i := by
  induction h with
  | nil => simp
  | cons hab _ ih =>
    intro i hi
    rcases List.mem_cons.1 hi with rfl | hi
    · exact hab.1
    · exact ih i hi

theorem ints_injective {a b : List Nat} (h : ints a = ints b) : a = b :=
  List.map_injective_iff.2 (fun _ _ h => Int.ofNat.inj h) h

end Cnfgen.GenVars
