/-
The converse of the Tseitin parity criterion: if every vertex set closed under adjacency contains
an even number of odd-charged vertices, the formula is satisfiable.

Proof: call a vertex *defective* under `α` when its equation fails.  Flipping one edge variable
toggles the defect of exactly its two endpoints; flipping along a walk toggles exactly its two
ends.  The number of defects inside a closed set is always even (handshake + hypothesis), so a
defective vertex always has a second defective vertex reachable from it, and the pair can be
repaired.  Induction on the number of defects.
-/
import Lemmas.FamTseitin
import Mathlib.Logic.Relation
namespace Cnfgen
namespace Fam

variable {G : SimpleG}

/-! ### both orientations of `edgeId_inj` -/

theorem edgeId_inj' (hG : GoodGraph G) (s : Nat) {a b c d : Nat}
    (hb : b ≤ G.n) (ha : a ∈ G.nbrs b) (hd : d ≤ G.n) (hc : c ∈ G.nbrs d)
    (he : edgeId G s a b = edgeId G s c d) : (a = c ∧ b = d) ∨ (a = d ∧ b = c) := by
  have ma := hG.mem hb ha
  have mc := hG.mem hd hc
  rcases Nat.lt_or_gt_of_ne ma.2.2.1 with hab | hba
  · -- a < b
    rcases Nat.lt_or_gt_of_ne mc.2.2.1 with hcd | hdc
    · have := edgeId_inj hG s hab ma.2.2.2 ma.2.1 hcd mc.2.2.2 mc.2.1 he
      exact Or.inl this
    · rw [edgeId_comm G s c d] at he
      have := edgeId_inj hG s hab ma.2.2.2 ma.2.1 hdc hc hd he
      exact Or.inr this
  · -- b < a
    rw [edgeId_comm G s a b] at he
    rcases Nat.lt_or_gt_of_ne mc.2.2.1 with hcd | hdc
    · have := edgeId_inj hG s hba ha hb hcd mc.2.2.2 mc.2.1 he
      exact Or.inr ⟨this.2, this.1⟩
    · rw [edgeId_comm G s c d] at he
      have := edgeId_inj hG s hba ha hb hdc hc hd he
      exact Or.inl ⟨this.2, this.1⟩

/-! ### vertex counts and defects -/

/-- number of true edge variables at `v` -/
def vcount (G : SimpleG) (α : Assign) (v : Nat) : Nat :=
  (G.nbrs v).countP (fun u => α (edgeId G 1 u v))

/-- the equation of vertex `v` fails under `α` -/
def defect (G : SimpleG) (ch : Option (List Bool)) (α : Assign) (v : Nat) : Bool :=
  decide (1 ≤ v ∧ v ≤ G.n) && (decide (vcount G α v % 2 = 1) != chargeAt G.n ch v)

theorem spec_iff_no_defect (ch : Option (List Bool)) (α : Assign) :
    TseitinSpec G ch α ↔ ∀ v, defect G ch α v = false := by
  unfold TseitinSpec defect
  constructor
  · intro h v
    by_cases hv : 1 ≤ v ∧ v ≤ G.n
    · have := h v hv.1 hv.2
      change vcount G α v % 2 = _ at this
      cases hc : chargeAt G.n ch v <;> simp [hc] at this ⊢ <;> simp [hv, this]
    · simp [hv]
  · intro h v h1 h2
    have := h v
    change vcount G α v % 2 = _
    cases hc : chargeAt G.n ch v <;> simp [hc, h1, h2] at this ⊢ <;> omega

/-- flip one variable -/
def flipAt (e : Nat) (α : Assign) : Assign := fun i => if i = e then !(α i) else α i

theorem countP_flip_one {l : List Nat} {p p' : Nat → Bool} {a : Nat} (hnd : l.Nodup) (ha : a ∈ l)
    (hoth : ∀ x ∈ l, x ≠ a → p' x = p x) (hat : p' a = !(p a)) :
    (l.countP p' + l.countP p) % 2 = 1 := by
  induction l with
  | nil => simp at ha
  | cons x xs ih =>
    rw [List.nodup_cons] at hnd
    rw [List.countP_cons, List.countP_cons]
    by_cases hxa : x = a
    · subst hxa
      have heq : xs.countP p' = xs.countP p := by
        apply List.countP_congr
        intro y hy
        have : y ≠ x := fun h => hnd.1 (h ▸ hy)
        rw [hoth y (List.mem_cons_of_mem _ hy) this]
      rw [heq, hat]
      cases p x <;> simp <;> omega
    · have ha' : a ∈ xs := by
        rcases List.mem_cons.1 ha with h | h
        · exact absurd h.symm hxa
        · exact h
      have := ih hnd.2 ha' (fun y hy => hoth y (List.mem_cons_of_mem _ hy))
      rw [hoth x List.mem_cons_self hxa]
      cases p x <;> simp <;> omega

theorem vcount_flip_other (α : Assign) (e x : Nat)
    (h : ∀ u ∈ G.nbrs x, edgeId G 1 u x ≠ e) : vcount G (flipAt e α) x = vcount G α x := by
  unfold vcount
  apply List.countP_congr
  intro u hu
  simp [flipAt, h u hu]

theorem vcount_flip_endpoint (hG : GoodGraph G) (α : Assign) {w t : Nat} (hw : w ≤ G.n)
    (ht : t ∈ G.nbrs w) :
    (vcount G (flipAt (edgeId G 1 t w) α) w + vcount G α w) % 2 = 1 := by
  unfold vcount
  apply countP_flip_one (hG.nodup hw) ht
  · intro u hu hne
    have : edgeId G 1 u w ≠ edgeId G 1 t w := by
      intro he
      rcases edgeId_inj' hG 1 hw hu hw ht he with h | h
      · exact hne h.1
      · have := (hG.mem hw hu).2.2.1; omega
    simp [flipAt, this]
  · simp [flipAt]

/-- flipping the variable of the edge `{t,w}` toggles the defect of `t` and of `w`, nothing else -/
theorem defect_flip (hG : GoodGraph G) (ch : Option (List Bool)) (α : Assign) {w t : Nat}
    (hw : w ≤ G.n) (ht : t ∈ G.nbrs w) (x : Nat) :
    defect G ch (flipAt (edgeId G 1 t w) α) x =
      (defect G ch α x != (decide (x = w) || decide (x = t))) := by
  have mt := hG.mem hw ht
  have hw1 := hG.pos_of_mem hw ht
  unfold defect
  by_cases hx : 1 ≤ x ∧ x ≤ G.n
  · by_cases hxw : x = w
    · subst hxw
      have := vcount_flip_endpoint hG α hw ht
      simp only [hx, and_self, decide_true, Bool.true_and, Bool.true_or]
      cases chargeAt G.n ch x <;>
        rcases Nat.mod_two_eq_zero_or_one (vcount G α x) with h0 | h0 <;>
        rcases Nat.mod_two_eq_zero_or_one (vcount G (flipAt (edgeId G 1 t x) α) x) with h1 | h1 <;>
        simp [h0, h1] <;> omega
    · by_cases hxt : x = t
      · subst hxt
        have := vcount_flip_endpoint hG α mt.2.1 mt.2.2.2
        rw [edgeId_comm G 1 w x] at this
        simp only [hx, and_self, decide_true, Bool.true_and, hxw, decide_false, Bool.false_or]
        cases chargeAt G.n ch x <;>
          rcases Nat.mod_two_eq_zero_or_one (vcount G α x) with h0 | h0 <;>
          rcases Nat.mod_two_eq_zero_or_one (vcount G (flipAt (edgeId G 1 x w) α) x) with h1 | h1 <;>
          simp [h0, h1] <;> omega
      · have hoth : ∀ u ∈ G.nbrs x, edgeId G 1 u x ≠ edgeId G 1 t w := by
          intro u hu he
          rcases edgeId_inj' hG 1 hx.2 hu hw ht he with h | h
          · exact hxw h.2
          · exact hxt h.2
        rw [vcount_flip_other α _ x hoth]
        simp [hxw, hxt]
  · have h1 : x ≠ w := by rintro rfl; exact hx ⟨hw1, hw⟩
    have h2 : x ≠ t := by rintro rfl; exact hx ⟨mt.1, mt.2.1⟩
    simp [hx, h1, h2]

/-! ### reachability -/

/-- one step along an edge from a vertex of the graph -/
def Step (G : SimpleG) (a b : Nat) : Prop := a ≤ G.n ∧ b ∈ G.nbrs a

theorem reach_range (hG : GoodGraph G) {t t' : Nat} (ht : 1 ≤ t ∧ t ≤ G.n)
    (h : Relation.ReflTransGen (Step G) t t') : 1 ≤ t' ∧ t' ≤ G.n := by
  induction h with
  | refl => exact ht
  | tail _ hs _ => have := hG.mem hs.1 hs.2; exact ⟨this.1, this.2.1⟩

/-- flipping along a walk from `t` to `t'` toggles exactly the defects of the two ends -/
theorem exists_repair (hG : GoodGraph G) (ch : Option (List Bool)) (α : Assign) {t t' : Nat}
    (ht : 1 ≤ t ∧ t ≤ G.n) (h : Relation.ReflTransGen (Step G) t t') :
    ∃ β, ∀ x, defect G ch β x = (defect G ch α x != (decide (x = t) != decide (x = t'))) := by
  induction h with
  | refl => exact ⟨α, fun x => by simp⟩
  | @tail w t' hr hs ih =>
    obtain ⟨β, hβ⟩ := ih
    have hw := reach_range hG ht hr
    have mt := hG.mem hs.1 hs.2
    refine ⟨flipAt (edgeId G 1 t' w) β, fun x => ?_⟩
    rw [defect_flip hG ch β hs.1 hs.2 x, hβ x]
    have hne : w ≠ t' := fun h => mt.2.2.1 h.symm
    by_cases h1 : x = w
    · have : x ≠ t' := fun h => hne (h1 ▸ h)
      cases defect G ch α x <;> cases decide (x = t) <;> simp [h1, hne]
    · cases defect G ch α x <;> cases decide (x = t) <;> cases decide (x = t') <;> simp [h1]

/-! ### parity of the defects in a closed set -/

theorem card_Icc_filter_eq_sum (n : Nat) (p : Nat → Prop) [DecidablePred p] :
    ((Finset.Icc 1 n).filter p).card =
      ∑ a ∈ Finset.range (n + 1), (if 1 ≤ a ∧ p a then 1 else 0) := by
  rw [← Finset.card_filter]
  congr 1
  ext v
  simp only [Finset.mem_filter, Finset.mem_Icc, Finset.mem_range]
  constructor
  · rintro ⟨⟨h1, h2⟩, h3⟩; exact ⟨by omega, h1, h3⟩
  · rintro ⟨h0, h1, h3⟩; exact ⟨⟨h1, by omega⟩, h3⟩

theorem defect_parity (hG : GoodGraph G) (ch : Option (List Bool)) (α : Assign) (C : Nat → Bool)
    (hC : ∀ v u, C v = true → u ∈ G.nbrs v → C u = true)
    (hev : Even ((Finset.Icc 1 G.n).filter (fun v => C v = true ∧ chargeAt G.n ch v = true)).card) :
    Even ((Finset.Icc 1 G.n).filter (fun v => C v = true ∧ defect G ch α v = true)).card := by
  have h1 := closed_count_even G hG α C hC
  rw [card_Icc_filter_eq_sum] at hev ⊢
  rw [Nat.even_iff] at h1 hev ⊢
  have key : ∀ a ∈ Finset.range (G.n + 1),
      (if 1 ≤ a ∧ C a = true ∧ defect G ch α a = true then 1 else 0) % 2 =
      ((if C a = true then (G.nbrs a).countP (fun u => α (edgeId G 1 u a)) else 0) +
        (if 1 ≤ a ∧ C a = true ∧ chargeAt G.n ch a = true then 1 else 0)) % 2 := by
    intro a ha
    simp only [Finset.mem_range] at ha
    by_cases hc : C a = true
    · rcases Nat.eq_zero_or_pos a with rfl | ha1
      · simp [hG.1]
      · have ha1' : 1 ≤ a := ha1
        have han : a ≤ G.n := by omega
        simp only [hc, ha1', true_and, if_true, defect, han, and_self, decide_true, Bool.true_and]
        change _ = (vcount G α a + _) % 2
        cases chargeAt G.n ch a <;>
          rcases Nat.mod_two_eq_zero_or_one (vcount G α a) with h0 | h0 <;> simp [h0] <;> omega
    · simp [hc]
  rw [Finset.sum_nat_mod, Finset.sum_congr rfl key, ← Finset.sum_nat_mod, Finset.sum_add_distrib]
  omega

/-! ### the converse -/

theorem tseitin_converse (hG : GoodGraph G) (ch : Option (List Bool))
    (hev : ∀ C : Nat → Bool, (∀ v u, C v = true → u ∈ G.nbrs v → C u = true) →
      Even ((Finset.Icc 1 G.n).filter (fun v => C v = true ∧ chargeAt G.n ch v = true)).card) :
    ∃ α, TseitinSpec G ch α := by
  classical
  -- induction on the number of defective vertices
  have main : ∀ k, ∀ α, ((Finset.Icc 1 G.n).filter (fun v => defect G ch α v = true)).card = k →
      ∃ β, TseitinSpec G ch β := by
    intro k
    induction k using Nat.strong_induction_on with
    | _ k ih =>
      intro α hk
      by_cases h0 : ∀ v, defect G ch α v = false
      · exact ⟨α, (spec_iff_no_defect ch α).2 h0⟩
      · simp only [not_forall, Bool.not_eq_false] at h0
        obtain ⟨t, htd⟩ := h0
        have htr : 1 ≤ t ∧ t ≤ G.n := by
          unfold defect at htd
          simp only [Bool.and_eq_true, decide_eq_true_eq] at htd
          exact htd.1
        -- the component of t
        let C : Nat → Bool := fun v => decide (Relation.ReflTransGen (Step G) t v)
        have hC : ∀ v u, C v = true → u ∈ G.nbrs v → C u = true := by
          intro v u hv hu
          simp only [C, decide_eq_true_eq] at hv ⊢
          exact Relation.ReflTransGen.tail hv ⟨(reach_range hG htr hv).2, hu⟩
        have hpar := defect_parity hG ch α C hC (hev C hC)
        have htin : t ∈ (Finset.Icc 1 G.n).filter (fun v => C v = true ∧ defect G ch α v = true) := by
          simp only [Finset.mem_filter, Finset.mem_Icc, C, decide_eq_true_eq]
          exact ⟨htr, Relation.ReflTransGen.refl, htd⟩
        have hgt : 1 < ((Finset.Icc 1 G.n).filter
            (fun v => C v = true ∧ defect G ch α v = true)).card := by
          have hpos := Finset.card_pos.2 ⟨t, htin⟩
          rcases hpar with ⟨m, hm⟩
          omega
        obtain ⟨t', ht'in, hne⟩ := Finset.exists_mem_ne hgt t
        simp only [Finset.mem_filter, Finset.mem_Icc, C, decide_eq_true_eq] at ht'in
        obtain ⟨β, hβ⟩ := exists_repair hG ch α htr ht'in.2.1
        -- the defects of β are those of α without t and t'
        have hsub : (Finset.Icc 1 G.n).filter (fun v => defect G ch β v = true) =
            (((Finset.Icc 1 G.n).filter (fun v => defect G ch α v = true)).erase t).erase t' := by
          ext x
          simp only [Finset.mem_filter, Finset.mem_Icc, Finset.mem_erase, hβ x]
          by_cases hxt : x = t
          · subst hxt
            simp [htd, hne.symm]
          · by_cases hxt' : x = t'
            · subst hxt'
              simp [ht'in.2.2, hxt]
            · simp [hxt, hxt']
        have hmem_t : t ∈ (Finset.Icc 1 G.n).filter (fun v => defect G ch α v = true) := by
          simp only [Finset.mem_filter, Finset.mem_Icc]; exact ⟨htr, htd⟩
        have hmem_t' : t' ∈ ((Finset.Icc 1 G.n).filter (fun v => defect G ch α v = true)).erase t := by
          simp only [Finset.mem_erase, Finset.mem_filter, Finset.mem_Icc]
          exact ⟨hne, ht'in.1, ht'in.2.2⟩
        have hcard : ((Finset.Icc 1 G.n).filter (fun v => defect G ch β v = true)).card = k - 2 := by
          rw [hsub, Finset.card_erase_of_mem hmem_t', Finset.card_erase_of_mem hmem_t, hk]
          omega
        have hk2 : 2 ≤ k := by
          have := Finset.card_pos.2 ⟨t', hmem_t'⟩
          rw [Finset.card_erase_of_mem hmem_t, hk] at this
          omega
        exact ih (k - 2) (by omega) β hcard
  exact main _ (fun _ => false) rfl

end Fam
end Cnfgen
