/-
Representation invariants of the three graph objects and their preservation by every update
(C16, T-C16.1), plus the facts the formula-family models need about any graph that satisfies
the invariant (every graph reachable from `init` by updates, every `ofEdges` result):

  SimpleG.Inv / DiG.Inv / BipG.Inv
  *.inv_init, *.inv_addEdge, SimpleG.inv_removeEdge, SimpleG.inv_updateVertexNumber,
  *.inv_addEdgesFromP, *.inv_addEdgesFrom, *.inv_step, *.inv_run, *.inv_ofEdges
  reusable facts: `Inv.nbrs_sorted`, `Inv.nbrs_nodup`, `Inv.mem_nbrs_comm`, `Inv.mem_edges`,
  `Inv.edges_sorted`, `Inv.edges_nodup`, `Inv.nbrs_range`, … (see each namespace)
Core Lean only.
-/
import Lemmas.GraphList
namespace Cnfgen

/-! ## simple graphs -/
namespace SimpleG

/-- what `add_edge` accepts -/
def Valid (n : Nat) (u v : Int) : Prop := 1 ≤ u ∧ u ≤ n ∧ 1 ≤ v ∧ v ≤ n ∧ u ≠ v

instance (n : Nat) (u v : Int) : Decidable (Valid n u v) := by unfold Valid; exact inferInstance

/-- the abstract value of the object: its set of unordered edges, as the duplicate-free list
of normalised pairs `(u, v)`, `u < v` -/
def abs (G : SimpleG) : List (Nat × Nat) := G.edgeset.filter (fun e => decide (e.1 < e.2))

theorem mem_abs {G : SimpleG} {e : Nat × Nat} : e ∈ abs G ↔ e.1 < e.2 ∧ e ∈ G.edgeset := by
  simp [abs, And.comm]

/-- the normalised form of the unordered pair `{u, v}` -/
def norm (u v : Nat) : Nat × Nat := (min u v, max u v)

/-- the three redundant representations agree -/
structure Inv (G : SimpleG) : Prop where
  /-- `adjlist` has `n+1` rows, each strictly sorted, and stores exactly `edgeset` -/
  rep : Rep G.adj G.n (fun u v => (u, v) ∈ G.edgeset)
  /-- `edgeset` holds both orientations -/
  symm : ∀ u v, (u, v) ∈ G.edgeset → (v, u) ∈ G.edgeset
  /-- only vertices `1..n`, no loops -/
  range : ∀ u v, (u, v) ∈ G.edgeset → 1 ≤ u ∧ u ≤ G.n ∧ 1 ≤ v ∧ v ≤ G.n ∧ u ≠ v
  /-- it is a set -/
  nodup : G.edgeset.Nodup
  /-- the counter counts unordered edges: `m = |abs|` -/
  count : (abs G).length = G.m

theorem inv_init (n : Nat) : Inv (init n) :=
  ⟨(Rep.init n).congr (by simp [init]), by simp [init], by simp [init], by simp [init], by simp [init, abs]⟩

/-- the state after inserting the new edge `{x, y}`, `x < y` -/
def insertNew (G : SimpleG) (x y : Nat) : SimpleG :=
  { n := G.n, m := G.m + 1,
    adj := (G.adj.modify x (insertSorted · y)).modify y (insertSorted · x),
    edgeset := (y, x) :: (x, y) :: G.edgeset }

theorem abs_insertNew (G : SimpleG) {x y : Nat} (hxy : x < y) :
    abs (insertNew G x y) = (x, y) :: abs G := by
  simp [abs, insertNew, hxy, Nat.lt_asymm hxy]

theorem inv_insertNew {G : SimpleG} (h : Inv G) {x y : Nat} (hx : 1 ≤ x) (hxy : x < y) (hy : y ≤ G.n)
    (hn : (x, y) ∉ G.edgeset) : Inv (insertNew G x y) := by
  have hn' : (y, x) ∉ G.edgeset := fun hm => hn (h.symm _ _ hm)
  refine ⟨?_, ?_, ?_, ?_, ?_⟩
  · have r1 := h.rep.insert (u := x) (v := y) (by omega) hn
    have r2 := r1.insert (u := y) (v := x) hy (by
      simp only [not_or]; exact ⟨by omega, hn'⟩)
    refine r2.congr (fun a b => ?_)
    simp only [insertNew, List.mem_cons, Prod.mk.injEq]
  · intro a b
    simp only [insertNew, List.mem_cons, Prod.mk.injEq]
    rintro (⟨rfl, rfl⟩ | ⟨rfl, rfl⟩ | hm)
    · simp
    · simp
    · exact Or.inr (Or.inr (h.symm _ _ hm))
  · intro a b
    simp only [insertNew, List.mem_cons, Prod.mk.injEq]
    rintro (⟨rfl, rfl⟩ | ⟨rfl, rfl⟩ | hm)
    · omega
    · omega
    · exact h.range _ _ hm
  · simp only [insertNew, List.nodup_cons, List.mem_cons, Prod.mk.injEq, not_or]
    exact ⟨⟨by omega, hn'⟩, hn, h.nodup⟩
  · rw [abs_insertNew G hxy, List.length_cons, h.count]; rfl

/-- the three outcomes of `add_edge` -/
theorem addEdge_cases (G : SimpleG) (u v : Int) :
    (¬ Valid G.n u v ∧ G.addEdge u v = .error .valueError) ∨
    (Valid G.n u v ∧ (u.toNat, v.toNat) ∈ G.edgeset ∧ G.addEdge u v = .ok G) ∨
    (Valid G.n u v ∧ (u.toNat, v.toNat) ∉ G.edgeset ∧
      G.addEdge u v = .ok (insertNew G (min u.toNat v.toNat) (max u.toNat v.toNat))) := by
  unfold addEdge
  by_cases hv : Valid G.n u v
  · right
    have hv' : (1 ≤ u ∧ u ≤ G.n ∧ 1 ≤ v ∧ v ≤ G.n ∧ u ≠ v) := hv
    rw [if_neg (fun hn => hn hv')]
    by_cases hc : (u.toNat, v.toNat) ∈ G.edgeset
    · left; simp [hv, hc]
    · right; simp [hv, hc, insertNew]
  · left
    have hv' : ¬ (1 ≤ u ∧ u ≤ G.n ∧ 1 ≤ v ∧ v ≤ G.n ∧ u ≠ v) := hv
    exact ⟨hv, by rw [if_pos hv']⟩

theorem inv_addEdge {G G' : SimpleG} (h : Inv G) {u v : Int} (e : G.addEdge u v = .ok G') : Inv G' := by
  rcases addEdge_cases G u v with ⟨_, h1⟩ | ⟨_, _, h1⟩ | ⟨hv, hc, h1⟩
  · rw [h1] at e; cases e
  · rw [h1] at e; cases e; exact h
  · rw [h1] at e; cases e
    obtain ⟨h1, h2, h3, h4, h5⟩ := hv
    have hab : u.toNat ≠ v.toNat := by omega
    have hc' : (v.toNat, u.toNat) ∉ G.edgeset := fun hm => hc (h.symm _ _ hm)
    apply inv_insertNew h
    · omega
    · omega
    · omega
    · rcases Nat.lt_or_ge u.toNat v.toNat with hlt | hge
      · rw [Nat.min_eq_left (by omega), Nat.max_eq_right (by omega)]; exact hc
      · rw [Nat.min_eq_right (by omega), Nat.max_eq_left (by omega)]; exact hc'

theorem addEdge_n {G G' : SimpleG} {u v : Int} (e : G.addEdge u v = .ok G') : G'.n = G.n := by
  rcases addEdge_cases G u v with ⟨_, h1⟩ | ⟨_, _, h1⟩ | ⟨_, _, h1⟩ <;> rw [h1] at e <;> cases e <;> rfl

theorem hasEdge_iff (G : SimpleG) (u v : Int) :
    G.hasEdge u v = true ↔ 0 ≤ u ∧ 0 ≤ v ∧ (u.toNat, v.toNat) ∈ G.edgeset := by
  simp [hasEdge, and_assoc]

/-- list fact behind `m -= 1`: deleting a member of a duplicate-free list -/
theorem length_filter_ne {α} [BEq α] [LawfulBEq α] {l : List α} (hl : l.Nodup) {z : α} (hz : z ∈ l) :
    (l.filter (fun e => e != z)).length + 1 = l.length := by
  induction l with
  | nil => cases hz
  | cons b bs ih =>
    have hb' := List.nodup_cons.1 hl
    by_cases hbz : b = z
    · subst hbz
      have : (bs.filter (fun e => e != b)) = bs := by
        rw [List.filter_eq_self]; intro e he; simp; rintro rfl; exact hb'.1 he
      simp [this]
    · have hz' : z ∈ bs := by
        rcases List.mem_cons.1 hz with rfl | hz'
        · exact absurd rfl hbz
        · exact hz'
      have := ih hb'.2 hz'
      simp [hbz]; omega

/-- removing `{a, b}` from `edgeset` removes the normalised pair from `abs` -/
theorem abs_filter (es : List (Nat × Nat)) {a b : Nat} (hab : a ≠ b) :
    (es.filter (fun e => e != (a, b) && e != (b, a))).filter (fun e => decide (e.1 < e.2)) =
    (es.filter (fun e => decide (e.1 < e.2))).filter (fun e => e != (min a b, max a b)) := by
  rw [List.filter_filter, List.filter_filter]
  apply List.filter_congr
  rintro ⟨e1, e2⟩ _
  rcases Nat.lt_or_gt_of_ne hab with hlt | hgt
  · rw [Nat.min_eq_left (by omega), Nat.max_eq_right (by omega)]
    by_cases h12 : e1 < e2
    · have : (e1, e2) ≠ (b, a) := by intro hh; injection hh; omega
      simp [h12, this]
    · simp [h12]
  · rw [Nat.min_eq_right (by omega), Nat.max_eq_left (by omega)]
    by_cases h12 : e1 < e2
    · have : (e1, e2) ≠ (a, b) := by intro hh; injection hh; omega
      simp [h12, this]
    · simp [h12]

theorem inv_removeEdge {G : SimpleG} (h : Inv G) (u v : Int) : Inv (G.removeEdge u v) := by
  unfold removeEdge
  by_cases he : G.hasEdge u v = true
  · rw [if_neg (by simp [he])]
    obtain ⟨_, _, hm⟩ := (hasEdge_iff G u v).1 he
    generalize u.toNat = a at hm
    generalize v.toNat = b at hm
    have hr := h.range a b hm
    have hm' := h.symm a b hm
    refine ⟨?_, ?_, ?_, ?_, ?_⟩
    · refine ((h.rep.erase a b).erase b a).congr (fun x y => ?_)
      simp only [List.mem_filter, Bool.and_eq_true, bne_iff_ne, ne_eq, Prod.mk.injEq, and_assoc]
    · intro x y
      simp only [List.mem_filter, Bool.and_eq_true, bne_iff_ne, ne_eq, Prod.mk.injEq]
      rintro ⟨hxy, h1, h2⟩
      exact ⟨h.symm _ _ hxy, fun hh => h2 ⟨hh.2, hh.1⟩, fun hh => h1 ⟨hh.2, hh.1⟩⟩
    · intro x y hxy
      exact h.range x y (List.mem_filter.1 hxy).1
    · exact h.nodup.sublist List.filter_sublist
    · have hab : a ≠ b := hr.2.2.2.2
      have hnd : (abs G).Nodup := h.nodup.sublist List.filter_sublist
      have hmem : (min a b, max a b) ∈ abs G := by
        rw [mem_abs]
        rcases Nat.lt_or_gt_of_ne hab with hlt | hgt
        · rw [Nat.min_eq_left (by omega), Nat.max_eq_right (by omega)]; exact ⟨hlt, hm⟩
        · rw [Nat.min_eq_right (by omega), Nat.max_eq_left (by omega)]; exact ⟨hgt, hm'⟩
      have := length_filter_ne hnd hmem
      have hc := h.count
      simp only [abs] at this hc ⊢
      rw [abs_filter _ hab]
      omega
  · rw [if_pos (by simp [he])]; exact h

theorem removeEdge_n (G : SimpleG) (u v : Int) : (G.removeEdge u v).n = G.n := by
  unfold removeEdge; split <;> rfl

theorem inv_updateVertexNumber {G G' : SimpleG} (h : Inv G) {k : Int}
    (e : G.updateVertexNumber k = .ok G') : Inv G' := by
  unfold updateVertexNumber at e
  split at e
  · cases e
  · cases e
    refine ⟨?_, h.symm, ?_, h.nodup, h.count⟩
    · have := h.rep.extend (k.toNat - G.n)
      have e2 : G.n + (k.toNat - G.n) = max G.n k.toNat := by omega
      rw [e2] at this
      exact this
    · intro u v hm
      have := h.range u v hm
      simp only
      omega

theorem updateVertexNumber_cases (G : SimpleG) (k : Int) :
    (k < 0 ∧ G.updateVertexNumber k = .error .valueError) ∨
    (0 ≤ k ∧ ∃ G', G.updateVertexNumber k = .ok G' ∧ G'.n = max G.n k.toNat ∧ G'.m = G.m ∧
      G'.edgeset = G.edgeset) := by
  unfold updateVertexNumber
  by_cases hk : k < 0
  · left; exact ⟨hk, by rw [if_pos hk]⟩
  · right
    exact ⟨by omega, { G with n := max G.n k.toNat, adj := G.adj ++ List.replicate (k.toNat - G.n) [] },
      by rw [if_neg hk], rfl, rfl, rfl⟩

theorem inv_addEdgesFromP {G : SimpleG} (h : Inv G) (es : List (Int × Int)) :
    Inv (G.addEdgesFromP es).1 := by
  induction es generalizing G with
  | nil => exact h
  | cons e es ih =>
    simp only [addEdgesFromP]
    split
    · rename_i G' he; exact ih (inv_addEdge h he)
    · exact h

theorem addEdgesFromP_n (G : SimpleG) (es : List (Int × Int)) : (G.addEdgesFromP es).1.n = G.n := by
  induction es generalizing G with
  | nil => rfl
  | cons e es ih =>
    simp only [addEdgesFromP]
    split
    · rename_i G' he; rw [ih, addEdge_n he]
    · rfl

/-- `addEdgesFrom` (the `Except` form used by `ofEdges`) is `addEdgesFromP` without the state
of a failed run -/
theorem addEdgesFrom_eq (G : SimpleG) (es : List (Int × Int)) :
    G.addEdgesFrom es = match G.addEdgesFromP es with
      | (G', none) => .ok G'
      | (_, some e) => .error e := by
  induction es generalizing G with
  | nil => rfl
  | cons e es ih =>
    simp only [addEdgesFrom, List.foldlM_cons, addEdgesFromP]
    cases he : G.addEdge e.1 e.2 with
    | error x => rfl
    | ok G' => exact ih G'

theorem inv_addEdgesFrom {G G' : SimpleG} (h : Inv G) {es : List (Int × Int)}
    (e : G.addEdgesFrom es = .ok G') : Inv G' := by
  rw [addEdgesFrom_eq] at e
  have := inv_addEdgesFromP h es
  split at e
  · rename_i G'' heq; cases e; rw [heq] at this; exact this
  · cases e

/-- every `ofEdges` result satisfies the invariant -/
theorem inv_ofEdges {n : Nat} {es : List (Nat × Nat)} {G : SimpleG} (e : ofEdges n es = .ok G) : Inv G :=
  inv_addEdgesFrom (inv_init n) e

/-- T-C16.1, one step: every operation with arbitrary arguments preserves the invariant -/
theorem inv_step {G : SimpleG} (h : Inv G) (op : GOp) : Inv (G.step op).1 := by
  cases op with
  | addEdge u v =>
    simp only [step]
    split
    · rename_i G' he; exact inv_addEdge h he
    · exact h
  | removeEdge u v => exact inv_removeEdge h u v
  | updateVertexNumber k =>
    simp only [step]
    split
    · rename_i G' he; exact inv_updateVertexNumber h he
    · exact h
  | addEdgesFrom es => exact inv_addEdgesFromP h es

theorem inv_run {G : SimpleG} (h : Inv G) (ops : List GOp) : Inv (G.run ops) := by
  induction ops generalizing G with
  | nil => exact h
  | cons o os ih => exact ih (inv_step h o)

/-! ### facts about any graph satisfying the invariant -/
namespace Inv
variable {G : SimpleG} (h : Inv G)
include h

theorem adj_length : G.adj.length = G.n + 1 := h.rep.len

theorem mem_nbrs {u v : Nat} : v ∈ G.nbrs u ↔ (u, v) ∈ G.edgeset := h.rep.mem u v

theorem nbrs_sorted (u : Nat) : SortedLt (G.nbrs u) := h.rep.sorted u

theorem nbrs_nodup (u : Nat) : (G.nbrs u).Nodup := (h.nbrs_sorted u).nodup

/-- symmetry of adjacency -/
theorem mem_nbrs_comm {u v : Nat} : v ∈ G.nbrs u ↔ u ∈ G.nbrs v := by
  rw [h.mem_nbrs, h.mem_nbrs]; exact ⟨h.symm u v, h.symm v u⟩

/-- neighbours are vertices `1..n` other than `u`, and `u` itself is a vertex -/
theorem nbrs_range {u v : Nat} (hv : v ∈ G.nbrs u) : 1 ≤ u ∧ u ≤ G.n ∧ 1 ≤ v ∧ v ≤ G.n ∧ u ≠ v :=
  h.range u v (h.mem_nbrs.1 hv)

theorem nbrs_of_not_vertex {u : Nat} (hu : ¬ (1 ≤ u ∧ u ≤ G.n)) : G.nbrs u = [] := by
  cases hl : G.nbrs u with
  | nil => rfl
  | cons v vs =>
    have := h.nbrs_range (u := u) (v := v) (by rw [hl]; simp)
    omega

omit h in
theorem edges_eq_table : G.edges = tableEdges (fun u => (G.nbrs u).drop (bisectRight (G.nbrs u) u)) (G.n - 1) := rfl

/-- `edges()` lists exactly the pairs `u < v` with `v` a neighbour of `u` -/
theorem mem_edges {u v : Nat} : (u, v) ∈ G.edges ↔ u < v ∧ v ∈ G.nbrs u := by
  rw [Inv.edges_eq_table, mem_tableEdges]
  simp only
  rw [mem_drop_bisectRight (h.nbrs_sorted u)]
  constructor
  · rintro ⟨_, _, h3, h4⟩; exact ⟨h4, h3⟩
  · rintro ⟨h1, h2⟩
    have := h.nbrs_range h2
    exact ⟨by omega, by omega, h2, h1⟩

theorem mem_edges' {e : Nat × Nat} : e ∈ G.edges ↔ e.1 < e.2 ∧ e ∈ G.edgeset := by
  obtain ⟨u, v⟩ := e; rw [h.mem_edges, h.mem_nbrs]

/-- `edges()` is strictly increasing in lexicographic order -/
theorem edges_sorted : SortedLex G.edges := by
  rw [Inv.edges_eq_table]
  exact sorted_tableEdges (fun u => sorted_drop (h.nbrs_sorted u) _) _

/-- each edge is listed once -/
theorem edges_nodup : G.edges.Nodup := h.edges_sorted.nodup

theorem edges_range {u v : Nat} (he : (u, v) ∈ G.edges) : 1 ≤ u ∧ u < v ∧ v ≤ G.n := by
  have := h.mem_edges.1 he
  have := h.nbrs_range this.2
  omega

theorem hasEdge_iff_nbrs {u v : Nat} : G.hasEdge u v = true ↔ v ∈ G.nbrs u := by
  rw [SimpleG.hasEdge_iff, h.mem_nbrs]; simp

/-- `edgeset` is the symmetric closure of `abs` -/
theorem mem_edgeset_iff {u v : Nat} : (u, v) ∈ G.edgeset ↔ norm u v ∈ abs G := by
  rw [mem_abs]
  simp only [norm]
  constructor
  · intro hm
    have hr := h.range u v hm
    rcases Nat.lt_or_gt_of_ne hr.2.2.2.2 with hlt | hgt
    · rw [Nat.min_eq_left (by omega), Nat.max_eq_right (by omega)]; exact ⟨hlt, hm⟩
    · rw [Nat.min_eq_right (by omega), Nat.max_eq_left (by omega)]; exact ⟨hgt, h.symm _ _ hm⟩
  · rintro ⟨hlt, hm⟩
    rcases Nat.lt_or_ge u v with huv | huv
    · rw [Nat.min_eq_left (by omega), Nat.max_eq_right (by omega)] at hm; exact hm
    · rw [Nat.min_eq_right (by omega), Nat.max_eq_left (by omega)] at hm; exact h.symm _ _ hm

theorem abs_nodup : (abs G).Nodup := h.nodup.sublist List.filter_sublist

/-- `number_of_edges()` is the length of the edge listing -/
theorem m_eq_length_edges : G.m = G.edges.length := by
  rw [← h.count]
  exact ((List.perm_ext_iff_of_nodup h.abs_nodup h.edges_nodup).2
    (fun e => mem_abs.trans h.mem_edges'.symm)).length_eq

theorem hasEdge_comm (u v : Int) : G.hasEdge u v = G.hasEdge v u := by
  rw [Bool.eq_iff_iff, SimpleG.hasEdge_iff, SimpleG.hasEdge_iff]
  constructor
  · rintro ⟨a, b, c⟩; exact ⟨b, a, h.symm _ _ c⟩
  · rintro ⟨a, b, c⟩; exact ⟨b, a, h.symm _ _ c⟩

end Inv
end SimpleG

/-! ## directed graphs -/
namespace DiG

def Valid (n : Nat) (u v : Int) : Prop := 1 ≤ u ∧ u ≤ n ∧ 1 ≤ v ∧ v ≤ n

instance (n : Nat) (u v : Int) : Decidable (Valid n u v) := by unfold Valid; exact inferInstance

structure Inv (G : DiG) : Prop where
  /-- `succ` stores `edgeset` by source -/
  succRep : Rep G.succ G.n (fun u v => (u, v) ∈ G.edgeset)
  /-- `pred` stores `edgeset` by destination -/
  predRep : Rep G.pred G.n (fun v u => (u, v) ∈ G.edgeset)
  range : ∀ u v, (u, v) ∈ G.edgeset → 1 ≤ u ∧ u ≤ G.n ∧ 1 ≤ v ∧ v ≤ G.n
  nodup : G.edgeset.Nodup
  count : G.edgeset.length = G.m
  /-- the flag remembers whether every inserted edge was increasing -/
  dag : G.stillDag = true ↔ ∀ e ∈ G.edgeset, e.1 < e.2

theorem inv_init (n : Nat) : Inv (init n) :=
  ⟨(Rep.init n).congr (by simp [init]), (Rep.init n).congr (by simp [init]), by simp [init],
   by simp [init], by simp [init], by simp [init]⟩

def insertNew (G : DiG) (s d : Nat) : DiG :=
  { n := G.n, m := G.m + 1,
    pred := G.pred.modify d (insertSorted · s),
    succ := G.succ.modify s (insertSorted · d),
    edgeset := (s, d) :: G.edgeset,
    stillDag := G.stillDag && decide (s < d) }

theorem inv_insertNew {G : DiG} (h : Inv G) {s d : Nat} (hs : 1 ≤ s ∧ s ≤ G.n) (hd : 1 ≤ d ∧ d ≤ G.n)
    (hn : (s, d) ∉ G.edgeset) : Inv (insertNew G s d) := by
  refine ⟨?_, ?_, ?_, ?_, ?_, ?_⟩
  · refine (h.succRep.insert (u := s) (v := d) hs.2 hn).congr (fun a b => ?_)
    simp only [insertNew, List.mem_cons, Prod.mk.injEq]
  · refine (h.predRep.insert (u := d) (v := s) hd.2 hn).congr (fun a b => ?_)
    simp only [insertNew, List.mem_cons, Prod.mk.injEq]
    constructor
    · rintro (⟨rfl, rfl⟩ | hm)
      · exact Or.inl ⟨rfl, rfl⟩
      · exact Or.inr hm
    · rintro (⟨rfl, rfl⟩ | hm)
      · exact Or.inl ⟨rfl, rfl⟩
      · exact Or.inr hm
  · intro a b
    simp only [insertNew, List.mem_cons, Prod.mk.injEq]
    rintro (⟨rfl, rfl⟩ | hm)
    · exact ⟨hs.1, hs.2, hd.1, hd.2⟩
    · exact h.range _ _ hm
  · simp only [insertNew, List.nodup_cons]; exact ⟨hn, h.nodup⟩
  · simp only [insertNew, List.length_cons, h.count]
  · simp only [insertNew, Bool.and_eq_true, decide_eq_true_eq, h.dag, List.mem_cons, forall_eq_or_imp]
    exact And.comm

theorem hasEdge_iff (G : DiG) (u v : Int) :
    G.hasEdge u v = true ↔ 0 ≤ u ∧ 0 ≤ v ∧ (u.toNat, v.toNat) ∈ G.edgeset := by
  simp [hasEdge, and_assoc]

theorem addEdge_cases (G : DiG) (u v : Int) :
    (¬ Valid G.n u v ∧ G.addEdge u v = .error .valueError) ∨
    (Valid G.n u v ∧ (u.toNat, v.toNat) ∈ G.edgeset ∧ G.addEdge u v = .ok G) ∨
    (Valid G.n u v ∧ (u.toNat, v.toNat) ∉ G.edgeset ∧
      G.addEdge u v = .ok (insertNew G u.toNat v.toNat)) := by
  unfold addEdge
  by_cases hv : Valid G.n u v
  · right
    have hv' : (1 ≤ u ∧ u ≤ G.n ∧ 1 ≤ v ∧ v ≤ G.n) := hv
    rw [if_neg (fun hn => hn hv')]
    by_cases hc : (u.toNat, v.toNat) ∈ G.edgeset
    · left
      have : G.hasEdge u v = true := (hasEdge_iff G u v).2 ⟨by omega, by omega, hc⟩
      exact ⟨hv, hc, by rw [if_pos this]⟩
    · right
      have : ¬ G.hasEdge u v = true := fun hh => hc ((hasEdge_iff G u v).1 hh).2.2
      exact ⟨hv, hc, by rw [if_neg this]; rfl⟩
  · left
    have hv' : ¬ (1 ≤ u ∧ u ≤ G.n ∧ 1 ≤ v ∧ v ≤ G.n) := hv
    exact ⟨hv, by rw [if_pos hv']⟩

theorem inv_addEdge {G G' : DiG} (h : Inv G) {u v : Int} (e : G.addEdge u v = .ok G') : Inv G' := by
  rcases addEdge_cases G u v with ⟨_, h1⟩ | ⟨_, _, h1⟩ | ⟨hv, hc, h1⟩
  · rw [h1] at e; cases e
  · rw [h1] at e; cases e; exact h
  · rw [h1] at e; cases e
    obtain ⟨h1, h2, h3, h4⟩ := hv
    exact inv_insertNew h ⟨by omega, by omega⟩ ⟨by omega, by omega⟩ hc

theorem addEdge_n {G G' : DiG} {u v : Int} (e : G.addEdge u v = .ok G') : G'.n = G.n := by
  rcases addEdge_cases G u v with ⟨_, h1⟩ | ⟨_, _, h1⟩ | ⟨_, _, h1⟩ <;> rw [h1] at e <;> cases e <;> rfl

theorem inv_addEdgesFromP {G : DiG} (h : Inv G) (es : List (Int × Int)) :
    Inv (G.addEdgesFromP es).1 := by
  induction es generalizing G with
  | nil => exact h
  | cons e es ih =>
    simp only [addEdgesFromP]
    split
    · rename_i G' he; exact ih (inv_addEdge h he)
    · exact h

theorem addEdgesFromP_n (G : DiG) (es : List (Int × Int)) : (G.addEdgesFromP es).1.n = G.n := by
  induction es generalizing G with
  | nil => rfl
  | cons e es ih =>
    simp only [addEdgesFromP]
    split
    · rename_i G' he; rw [ih, addEdge_n he]
    · rfl

theorem addEdgesFrom_eq (G : DiG) (es : List (Int × Int)) :
    G.addEdgesFrom es = match G.addEdgesFromP es with
      | (G', none) => .ok G'
      | (_, some e) => .error e := by
  induction es generalizing G with
  | nil => rfl
  | cons e es ih =>
    simp only [addEdgesFrom, List.foldlM_cons, addEdgesFromP]
    cases he : G.addEdge e.1 e.2 with
    | error x => rfl
    | ok G' => exact ih G'

theorem inv_addEdgesFrom {G G' : DiG} (h : Inv G) {es : List (Int × Int)}
    (e : G.addEdgesFrom es = .ok G') : Inv G' := by
  rw [addEdgesFrom_eq] at e
  have := inv_addEdgesFromP h es
  split at e
  · rename_i G'' heq; cases e; rw [heq] at this; exact this
  · cases e

theorem inv_ofEdges {n : Nat} {es : List (Nat × Nat)} {G : DiG} (e : ofEdges n es = .ok G) : Inv G :=
  inv_addEdgesFrom (inv_init n) e

theorem inv_step {G : DiG} (h : Inv G) (op : GOp) : Inv (G.step op).1 := by
  cases op with
  | addEdge u v =>
    simp only [step]
    split
    · rename_i G' he; exact inv_addEdge h he
    · exact h
  | removeEdge u v => exact h
  | updateVertexNumber k => exact h
  | addEdgesFrom es => exact inv_addEdgesFromP h es

theorem inv_run {G : DiG} (h : Inv G) (ops : List GOp) : Inv (G.run ops) := by
  induction ops generalizing G with
  | nil => exact h
  | cons o os ih => exact ih (inv_step h o)

namespace Inv
variable {G : DiG} (h : Inv G)
include h

theorem succ_length : G.succ.length = G.n + 1 := h.succRep.len
theorem pred_length : G.pred.length = G.n + 1 := h.predRep.len

theorem mem_succs {u v : Nat} : v ∈ G.succs u ↔ (u, v) ∈ G.edgeset := h.succRep.mem u v
theorem mem_preds {u v : Nat} : u ∈ G.preds v ↔ (u, v) ∈ G.edgeset := h.predRep.mem v u

theorem succs_sorted (u : Nat) : SortedLt (G.succs u) := h.succRep.sorted u
theorem preds_sorted (u : Nat) : SortedLt (G.preds u) := h.predRep.sorted u
theorem succs_nodup (u : Nat) : (G.succs u).Nodup := (h.succs_sorted u).nodup
theorem preds_nodup (u : Nat) : (G.preds u).Nodup := (h.preds_sorted u).nodup

/-- `v` is a successor of `u` iff `u` is a predecessor of `v` -/
theorem mem_succs_iff_mem_preds {u v : Nat} : v ∈ G.succs u ↔ u ∈ G.preds v := by
  rw [h.mem_succs, h.mem_preds]

theorem succs_range {u v : Nat} (hv : v ∈ G.succs u) : 1 ≤ u ∧ u ≤ G.n ∧ 1 ≤ v ∧ v ≤ G.n :=
  h.range u v (h.mem_succs.1 hv)

omit h in
theorem edges_eq_table : G.edges = tableEdges G.succs G.n := rfl
omit h in
theorem edgesBySucc_eq_table : G.edgesBySucc = tableEdgesT G.preds G.n := rfl

theorem mem_edges {e : Nat × Nat} : e ∈ G.edges ↔ e ∈ G.edgeset := by
  obtain ⟨u, v⟩ := e
  rw [Inv.edges_eq_table, mem_tableEdges]
  simp only
  rw [h.mem_succs]
  constructor
  · exact fun hh => hh.2.2
  · intro hm; have := h.range u v hm; exact ⟨this.1, this.2.1, hm⟩

theorem mem_edges_iff_succs {u v : Nat} : (u, v) ∈ G.edges ↔ v ∈ G.succs u := by
  rw [h.mem_edges, h.mem_succs]

theorem edges_sorted : SortedLex G.edges := by
  rw [Inv.edges_eq_table]; exact sorted_tableEdges h.succs_sorted _

theorem edges_nodup : G.edges.Nodup := h.edges_sorted.nodup

theorem mem_edgesBySucc {e : Nat × Nat} : e ∈ G.edgesBySucc ↔ e ∈ G.edgeset := by
  obtain ⟨u, v⟩ := e
  rw [Inv.edgesBySucc_eq_table, tableEdgesT_eq, List.mem_map]
  constructor
  · rintro ⟨⟨a, b⟩, hm, heq⟩
    simp only [Prod.swap, Prod.mk.injEq] at heq
    obtain ⟨rfl, rfl⟩ := heq
    have := mem_tableEdges.1 hm
    exact h.mem_preds.1 this.2.2
  · intro hm
    have := h.range u v hm
    exact ⟨(v, u), mem_tableEdges.2 ⟨this.2.2.1, this.2.2.2, h.mem_preds.2 hm⟩, rfl⟩

/-- `edges_ordered_by_successors()` is strictly sorted by (destination, source) -/
theorem edgesBySucc_sorted : (G.edgesBySucc.map Prod.swap).Pairwise lexLt := by
  rw [Inv.edgesBySucc_eq_table, tableEdgesT_eq, List.map_map]
  have : (Prod.swap ∘ Prod.swap : Nat × Nat → Nat × Nat) = id := by funext x; rfl
  rw [this, List.map_id]
  exact sorted_tableEdges h.preds_sorted _

theorem hasEdge_iff_succs {u v : Nat} : G.hasEdge u v = true ↔ v ∈ G.succs u := by
  rw [DiG.hasEdge_iff, h.mem_succs]; simp

end Inv
end DiG

/-! ## bipartite graphs -/
namespace BipG

def Valid (l r : Nat) (u v : Int) : Prop := 1 ≤ u ∧ u ≤ l ∧ 1 ≤ v ∧ v ≤ r

instance (l r : Nat) (u v : Int) : Decidable (Valid l r u v) := by unfold Valid; exact inferInstance

structure Inv (G : BipG) : Prop where
  lRep : Rep G.ladj G.l (fun u v => (u, v) ∈ G.edgeset)
  rRep : Rep G.radj G.r (fun v u => (u, v) ∈ G.edgeset)
  range : ∀ u v, (u, v) ∈ G.edgeset → 1 ≤ u ∧ u ≤ G.l ∧ 1 ≤ v ∧ v ≤ G.r
  nodup : G.edgeset.Nodup

theorem inv_init (l r : Nat) : Inv (init l r) :=
  ⟨(Rep.init l).congr (by simp [init]), (Rep.init r).congr (by simp [init]), by simp [init], by simp [init]⟩

def insertNew (G : BipG) (a b : Nat) : BipG :=
  { G with ladj := G.ladj.modify a (insertSorted · b),
           radj := G.radj.modify b (insertSorted · a),
           edgeset := (a, b) :: G.edgeset }

theorem inv_insertNew {G : BipG} (h : Inv G) {a b : Nat} (ha : 1 ≤ a ∧ a ≤ G.l) (hb : 1 ≤ b ∧ b ≤ G.r)
    (hn : (a, b) ∉ G.edgeset) : Inv (insertNew G a b) := by
  refine ⟨?_, ?_, ?_, ?_⟩
  · refine (h.lRep.insert (u := a) (v := b) ha.2 hn).congr (fun x y => ?_)
    simp only [insertNew, List.mem_cons, Prod.mk.injEq]
  · refine (h.rRep.insert (u := b) (v := a) hb.2 hn).congr (fun x y => ?_)
    simp only [insertNew, List.mem_cons, Prod.mk.injEq]
    constructor
    · rintro (⟨rfl, rfl⟩ | hm)
      · exact Or.inl ⟨rfl, rfl⟩
      · exact Or.inr hm
    · rintro (⟨rfl, rfl⟩ | hm)
      · exact Or.inl ⟨rfl, rfl⟩
      · exact Or.inr hm
  · intro x y
    simp only [insertNew, List.mem_cons, Prod.mk.injEq]
    rintro (⟨rfl, rfl⟩ | hm)
    · exact ⟨ha.1, ha.2, hb.1, hb.2⟩
    · exact h.range _ _ hm
  · simp only [insertNew, List.nodup_cons]; exact ⟨hn, h.nodup⟩

theorem hasEdge_iff (G : BipG) (u v : Int) :
    G.hasEdge u v = true ↔ 0 ≤ u ∧ 0 ≤ v ∧ (u.toNat, v.toNat) ∈ G.edgeset := by
  simp [hasEdge, and_assoc]

theorem addEdge_cases (G : BipG) (u v : Int) :
    (¬ Valid G.l G.r u v ∧ G.addEdge u v = .error .valueError) ∨
    (Valid G.l G.r u v ∧ (u.toNat, v.toNat) ∈ G.edgeset ∧ G.addEdge u v = .ok G) ∨
    (Valid G.l G.r u v ∧ (u.toNat, v.toNat) ∉ G.edgeset ∧
      G.addEdge u v = .ok (insertNew G u.toNat v.toNat)) := by
  unfold addEdge
  by_cases hv : Valid G.l G.r u v
  · right
    have hv' : (1 ≤ u ∧ u ≤ G.l ∧ 1 ≤ v ∧ v ≤ G.r) := hv
    rw [if_neg (fun hn => hn hv')]
    by_cases hc : (u.toNat, v.toNat) ∈ G.edgeset
    · left
      have : G.hasEdge u v = true := (hasEdge_iff G u v).2 ⟨by omega, by omega, hc⟩
      exact ⟨hv, hc, by rw [if_pos this]⟩
    · right
      have : ¬ G.hasEdge u v = true := fun hh => hc ((hasEdge_iff G u v).1 hh).2.2
      exact ⟨hv, hc, by rw [if_neg this]; rfl⟩
  · left
    have hv' : ¬ (1 ≤ u ∧ u ≤ G.l ∧ 1 ≤ v ∧ v ≤ G.r) := hv
    exact ⟨hv, by rw [if_pos hv']⟩

theorem inv_addEdge {G G' : BipG} (h : Inv G) {u v : Int} (e : G.addEdge u v = .ok G') : Inv G' := by
  rcases addEdge_cases G u v with ⟨_, h1⟩ | ⟨_, _, h1⟩ | ⟨hv, hc, h1⟩
  · rw [h1] at e; cases e
  · rw [h1] at e; cases e; exact h
  · rw [h1] at e; cases e
    obtain ⟨h1, h2, h3, h4⟩ := hv
    exact inv_insertNew h ⟨by omega, by omega⟩ ⟨by omega, by omega⟩ hc

theorem addEdge_lr {G G' : BipG} {u v : Int} (e : G.addEdge u v = .ok G') : G'.l = G.l ∧ G'.r = G.r := by
  rcases addEdge_cases G u v with ⟨_, h1⟩ | ⟨_, _, h1⟩ | ⟨_, _, h1⟩ <;> rw [h1] at e <;> cases e <;> exact ⟨rfl, rfl⟩

theorem inv_addEdgesFromP {G : BipG} (h : Inv G) (es : List (Int × Int)) :
    Inv (G.addEdgesFromP es).1 := by
  induction es generalizing G with
  | nil => exact h
  | cons e es ih =>
    simp only [addEdgesFromP]
    split
    · rename_i G' he; exact ih (inv_addEdge h he)
    · exact h

theorem addEdgesFromP_lr (G : BipG) (es : List (Int × Int)) :
    (G.addEdgesFromP es).1.l = G.l ∧ (G.addEdgesFromP es).1.r = G.r := by
  induction es generalizing G with
  | nil => exact ⟨rfl, rfl⟩
  | cons e es ih =>
    simp only [addEdgesFromP]
    split
    · rename_i G' he; rw [(ih G').1, (ih G').2]; exact addEdge_lr he
    · exact ⟨rfl, rfl⟩

theorem addEdgesFrom_eq (G : BipG) (es : List (Int × Int)) :
    G.addEdgesFrom es = match G.addEdgesFromP es with
      | (G', none) => .ok G'
      | (_, some e) => .error e := by
  induction es generalizing G with
  | nil => rfl
  | cons e es ih =>
    simp only [addEdgesFrom, List.foldlM_cons, addEdgesFromP]
    cases he : G.addEdge e.1 e.2 with
    | error x => rfl
    | ok G' => exact ih G'

theorem inv_addEdgesFrom {G G' : BipG} (h : Inv G) {es : List (Int × Int)}
    (e : G.addEdgesFrom es = .ok G') : Inv G' := by
  rw [addEdgesFrom_eq] at e
  have := inv_addEdgesFromP h es
  split at e
  · rename_i G'' heq; cases e; rw [heq] at this; exact this
  · cases e

theorem inv_ofEdges {l r : Nat} {es : List (Nat × Nat)} {G : BipG} (e : ofEdges l r es = .ok G) : Inv G :=
  inv_addEdgesFrom (inv_init l r) e

theorem inv_step {G : BipG} (h : Inv G) (op : GOp) : Inv (G.step op).1 := by
  cases op with
  | addEdge u v =>
    simp only [step]
    split
    · rename_i G' he; exact inv_addEdge h he
    · exact h
  | removeEdge u v => exact h
  | updateVertexNumber k => exact h
  | addEdgesFrom es => exact inv_addEdgesFromP h es

theorem inv_run {G : BipG} (h : Inv G) (ops : List GOp) : Inv (G.run ops) := by
  induction ops generalizing G with
  | nil => exact h
  | cons o os ih => exact ih (inv_step h o)

namespace Inv
variable {G : BipG} (h : Inv G)
include h

theorem ladj_length : G.ladj.length = G.l + 1 := h.lRep.len
theorem radj_length : G.radj.length = G.r + 1 := h.rRep.len

theorem mem_rnbrs {u v : Nat} : v ∈ G.rnbrs u ↔ (u, v) ∈ G.edgeset := h.lRep.mem u v
theorem mem_lnbrs {u v : Nat} : u ∈ G.lnbrs v ↔ (u, v) ∈ G.edgeset := h.rRep.mem v u

theorem rnbrs_sorted (u : Nat) : SortedLt (G.rnbrs u) := h.lRep.sorted u
theorem lnbrs_sorted (v : Nat) : SortedLt (G.lnbrs v) := h.rRep.sorted v
theorem rnbrs_nodup (u : Nat) : (G.rnbrs u).Nodup := (h.rnbrs_sorted u).nodup
theorem lnbrs_nodup (v : Nat) : (G.lnbrs v).Nodup := (h.lnbrs_sorted v).nodup

theorem mem_rnbrs_iff_mem_lnbrs {u v : Nat} : v ∈ G.rnbrs u ↔ u ∈ G.lnbrs v := by
  rw [h.mem_rnbrs, h.mem_lnbrs]

theorem rnbrs_range {u v : Nat} (hv : v ∈ G.rnbrs u) : 1 ≤ u ∧ u ≤ G.l ∧ 1 ≤ v ∧ v ≤ G.r :=
  h.range u v (h.mem_rnbrs.1 hv)

theorem lnbrs_range {u v : Nat} (hu : u ∈ G.lnbrs v) : 1 ≤ u ∧ u ≤ G.l ∧ 1 ≤ v ∧ v ≤ G.r :=
  h.range u v (h.mem_lnbrs.1 hu)

omit h in
theorem edges_eq_table : G.edges = tableEdges G.rnbrs G.l := rfl

theorem mem_edges {e : Nat × Nat} : e ∈ G.edges ↔ e ∈ G.edgeset := by
  obtain ⟨u, v⟩ := e
  rw [Inv.edges_eq_table, mem_tableEdges]
  simp only
  rw [h.mem_rnbrs]
  constructor
  · exact fun hh => hh.2.2
  · intro hm; have := h.range u v hm; exact ⟨this.1, this.2.1, hm⟩

/-- `v ∈ rnbrs u ↔ u ∈ lnbrs v ↔ (u,v) ∈ edges` -/
theorem mem_edges_iff_rnbrs {u v : Nat} : (u, v) ∈ G.edges ↔ v ∈ G.rnbrs u := by
  rw [h.mem_edges, h.mem_rnbrs]
theorem mem_edges_iff_lnbrs {u v : Nat} : (u, v) ∈ G.edges ↔ u ∈ G.lnbrs v := by
  rw [h.mem_edges, h.mem_lnbrs]

theorem edges_sorted : SortedLex G.edges := by
  rw [Inv.edges_eq_table]; exact sorted_tableEdges h.rnbrs_sorted _

theorem edges_nodup : G.edges.Nodup := h.edges_sorted.nodup

theorem edges_range {u v : Nat} (he : (u, v) ∈ G.edges) : 1 ≤ u ∧ u ≤ G.l ∧ 1 ≤ v ∧ v ≤ G.r :=
  h.range u v (h.mem_edges.1 he)

theorem hasEdge_iff_rnbrs {u v : Nat} : G.hasEdge u v = true ↔ v ∈ G.rnbrs u := by
  rw [BipG.hasEdge_iff, h.mem_rnbrs]; simp

/-- `number_of_edges()` (`len(edgeset)`) is the length of the edge listing -/
theorem numberOfEdges_eq : G.numberOfEdges = G.edges.length :=
  ((List.perm_ext_iff_of_nodup h.nodup h.edges_nodup).2 (fun _ => h.mem_edges.symm)).length_eq

end Inv
end BipG

end Cnfgen
