/-
Lemmas about `Cnfgen.Cli.dispatchSpec` (CnfgenModel/Cli/Dispatch.lean): totality on the modelled fragment.
-/
import CnfgenModel.Cli.DispatchChecks
namespace Cnfgen.Cli
open Cnfgen.Gen

/-- what the action of option `o` can store -/
def producible (o : OptSpec) (v : Val) : Prop :=
  match o.arity with
  | .zero => v = o.flagVal
  | .one => ∃ t, convertOne o t = some v
  | .plus => ∃ k toks, v = .graph k toks
  | .star => ∃ l, v = .ints l
  | .other => False

/-! ### facts about options -/

theorem dtot_arity_star (o : OptSpec) (h : o.arity = .star) : o.positional = true := by
  unfold OptSpec.arity at h
  split at h
  · split at h <;> simp at h
  · split at h
    · split at h <;> simp at h
    · split at h
      · split at h
        · simp at h
        · split at h
          · simp_all
          · simp at h
      · split at h
        · simp_all
        · simp at h

theorem dtot_arity_zero (o : OptSpec) (h : o.arity = .zero) : o.positional = false := by
  unfold OptSpec.arity at h
  split at h
  · split at h
    · simp_all
    · simp at h
  · split at h
    · split at h <;> simp at h
    · split at h
      · split at h
        · simp at h
        · split at h <;> simp at h
      · split at h <;> simp at h

theorem dtot_std (o : OptSpec) (h : o.standard = true) :
    o.action ≠ "PHPArgs" ∧ o.arity ≠ .other := by
  unfold OptSpec.standard at h
  simp only [Bool.and_eq_true] at h
  obtain ⟨⟨⟨⟨_, h3⟩, h4⟩, _⟩, _⟩ := h
  refine ⟨by simpa using h3, ?_⟩
  intro ha
  rw [ha] at h4
  simp at h4

/-- the hypotheses on an option used by the parser lemmas -/
def dtot_good (o : OptSpec) : Prop := o.action ≠ "PHPArgs" ∧ o.arity ≠ .other

def dtot_sound (opts : List OptSpec) (b : Ns) : Prop :=
  ∀ p ∈ b, ∃ o ∈ opts, o.dest = p.1 ∧ producible o p.2

theorem dtot_sound_nil (opts : List OptSpec) : dtot_sound opts [] := by
  intro p hp; cases hp

theorem dtot_sound_append {opts : List OptSpec} {a b : Ns} (ha : dtot_sound opts a)
    (hb : dtot_sound opts b) : dtot_sound opts (a ++ b) := by
  intro p hp
  rcases List.mem_append.1 hp with h | h
  · exact ha p h
  · exact hb p h

theorem dtot_sound_mono {o1 o2 : List OptSpec} {b : Ns} (h : ∀ o ∈ o1, o ∈ o2)
    (hb : dtot_sound o1 b) : dtot_sound o2 b := by
  intro p hp
  obtain ⟨o, ho, h1, h2⟩ := hb p hp
  exact ⟨o, h o ho, h1, h2⟩

theorem dtot_bindOne (o : OptSpec) (hg : dtot_good o) (toks : List String) :
    (∀ e, bindOne o toks = .error e → e = .cliError) ∧
    (∀ b, bindOne o toks = .ok b → ∀ p ∈ b, o.dest = p.1 ∧ producible o p.2) := by
  obtain ⟨hact, hoth⟩ := hg
  unfold bindOne
  have : (o.action == "PHPArgs") = false := by simpa using hact
  simp only [this, Bool.false_eq_true, if_false]
  cases har : o.arity with
  | zero =>
    dsimp only
    constructor
    · intro e h; simp at h
    · intro b h p hp
      simp at h
      subst h
      simp at hp
      subst hp
      simp [producible, har]
  | one =>
    dsimp only
    constructor
    · intro e h
      split at h
      · split at h <;> simp at h
        exact h.symm
      · simp at h; exact h.symm
    · intro b h p hp
      split at h
      · rename_i t
        split at h
        · rename_i v hv
          simp at h; subst h; simp at hp; subst hp
          simp only [producible, har]
          exact ⟨trivial, t, hv⟩
        · simp at h
      · simp at h
  | plus =>
    dsimp only
    constructor
    · intro e h
      split at h
      · simp at h
      · simp at h; exact h.symm
    · intro b h p hp
      split at h
      · rename_i k _ _ _
        simp at h; subst h; simp at hp; subst hp
        simp only [producible, har]
        exact ⟨trivial, _, _, rfl⟩
      · simp at h
  | star =>
    dsimp only
    constructor
    · intro e h
      split at h
      · simp at h
      · simp at h; exact h.symm
    · intro b h p hp
      split at h
      · simp at h; subst h; simp at hp; subst hp
        simp only [producible, har]
        exact ⟨trivial, _, rfl⟩
      · simp at h
  | other => exact absurd har hoth


theorem dtot_consumeOpt (o : OptSpec) (hg : dtot_good o) (hns : o.arity ≠ .star) (chunk : List String) :
    (∀ e, consumeOpt o chunk = .error e → e = .cliError) ∧
    (∀ b r, consumeOpt o chunk = .ok (b, r) → ∀ p ∈ b, o.dest = p.1 ∧ producible o p.2) := by
  have hmap : ∀ (toks : List String) (f : Ns → Ns × List String),
      (∀ b, (f b).1 = b) →
      (∀ e, (bindOne o toks).map f = .error e → e = .cliError) ∧
      (∀ b r, (bindOne o toks).map f = .ok (b, r) → ∀ p ∈ b, o.dest = p.1 ∧ producible o p.2) := by
    intro toks f hf
    have hb := dtot_bindOne o hg toks
    cases hbo : bindOne o toks with
    | error e0 =>
      constructor
      · intro e h
        have : e0 = e := by simpa [Except.map] using h
        exact this ▸ hb.1 e0 hbo
      · intro b r h; simp [Except.map] at h
    | ok b0 =>
      constructor
      · intro e h; simp [Except.map] at h
      · intro b r h
        have h' : f b0 = (b, r) := by simpa [Except.map] using h
        have : b0 = b := by have := hf b0; rw [h'] at this; exact this.symm
        exact this ▸ hb.2 b0 hbo
  unfold consumeOpt
  cases har : o.arity with
  | zero => dsimp only; exact hmap _ _ (fun _ => rfl)
  | one =>
    dsimp only
    cases chunk with
    | nil => exact ⟨fun e h => by simp at h; exact h.symm, fun b r h => by simp at h⟩
    | cons t rest => exact hmap _ _ (fun _ => rfl)
  | plus =>
    dsimp only
    cases chunk with
    | nil => exact ⟨fun e h => by simp at h; exact h.symm, fun b r h => by simp at h⟩
    | cons t rest => exact hmap _ _ (fun _ => rfl)
  | star => exact absurd har hns
  | other => exact absurd har hg.2

theorem dtot_applyPos (ps : List OptSpec) (hg : ∀ o ∈ ps, dtot_good o) :
    ∀ (cs : List Nat) (toks : List String),
    (∀ e, applyPos ps cs toks = .error e → e = .cliError) ∧
    (∀ b, applyPos ps cs toks = .ok b → dtot_sound ps b) := by
  induction ps with
  | nil =>
    intro cs toks
    unfold applyPos
    exact ⟨fun e h => by simp at h, fun b h => by simp at h; subst h; exact dtot_sound_nil _⟩
  | cons o os ih =>
    intro cs toks
    cases cs with
    | nil =>
      unfold applyPos
      exact ⟨fun e h => by simp at h, fun b h => by simp at h; subst h; exact dtot_sound_nil _⟩
    | cons c cs =>
      unfold applyPos
      have hb := dtot_bindOne o (hg o (List.mem_cons_self ..)) (toks.take c)
      have ih' := ih (fun o' ho' => hg o' (List.mem_cons_of_mem _ ho')) cs (toks.drop c)
      cases hbo : bindOne o (toks.take c) with
      | error e0 =>
        dsimp only
        exact ⟨fun e h => by simp at h; exact h ▸ hb.1 e0 hbo, fun b h => by simp at h⟩
      | ok b0 =>
        dsimp only
        cases hap : applyPos os cs (toks.drop c) with
        | error e1 =>
          dsimp only
          exact ⟨fun e h => by simp at h; exact h ▸ ih'.1 e1 hap, fun b h => by simp at h⟩
        | ok more =>
          dsimp only
          refine ⟨fun e h => by simp at h, fun b h => ?_⟩
          simp at h
          subst h
          apply dtot_sound_append
          · exact dtot_sound_mono (fun o' ho' => List.mem_cons_of_mem _ ho') (ih'.2 more hap)
          · intro p hp
            exact ⟨o, List.mem_cons_self .., hb.2 b0 hbo p hp⟩

theorem dtot_consumePos (ps : List OptSpec) (hg : ∀ o ∈ ps, dtot_good o) (chunk : List String)
    (final : Bool) :
    (∀ e, consumePos ps chunk final = .error e → e = .cliError) ∧
    (∀ ps' b, consumePos ps chunk final = .ok (ps', b) → (∀ o ∈ ps', o ∈ ps) ∧ dtot_sound ps b) := by
  unfold consumePos
  split
  · exact ⟨fun e h => by simp at h, fun ps' b h => by
      simp at h; obtain ⟨h1, h2⟩ := h; subst h1; subst h2
      exact ⟨fun o ho => ho, dtot_sound_nil _⟩⟩
  · dsimp only
    split
    · exact ⟨fun e h => by simp at h; exact h.symm, fun ps' b h => by simp at h⟩
    · have ha := dtot_applyPos ps hg
        (matchPartial (ps.map OptSpec.arity) chunk.length ps.length) chunk
      cases hap : applyPos ps (matchPartial (ps.map OptSpec.arity) chunk.length ps.length) chunk with
      | error e0 =>
        dsimp only
        exact ⟨fun e h => by simp at h; exact h ▸ ha.1 e0 hap, fun ps' b h => by simp at h⟩
      | ok b0 =>
        dsimp only
        refine ⟨fun e h => by simp at h, fun ps' b h => ?_⟩
        simp at h
        obtain ⟨h1, h2⟩ := h; subst h1; subst h2
        exact ⟨fun o ho => List.mem_of_mem_drop ho, ha.2 b0 hap⟩


theorem dtot_parseSegs (opts : List OptSpec) (hall : ∀ o ∈ opts, dtot_good o) :
    ∀ (segs : List (OptSpec × List String)) (ps : List OptSpec),
    (∀ o ∈ ps, o ∈ opts) →
    (∀ sg ∈ segs, sg.1 ∈ opts ∧ sg.1.positional = false) →
    (∀ e, parseSegs ps segs = .error e → e = .cliError) ∧
    (∀ b, parseSegs ps segs = .ok b → dtot_sound opts b) := by
  intro segs
  induction segs with
  | nil =>
    intro ps hps _
    unfold parseSegs
    split
    · exact ⟨fun e h => by simp at h, fun b h => by simp at h; subst h; exact dtot_sound_nil _⟩
    · exact ⟨fun e h => by simp at h; exact h.symm, fun b h => by simp at h⟩
  | cons sg rest ih =>
    intro ps hps hsegs
    obtain ⟨o, chunk⟩ := sg
    have ho := hsegs (o, chunk) (List.mem_cons_self ..)
    have hco := dtot_consumeOpt o (hall o ho.1)
      (fun h => by have := dtot_arity_star o h; rw [ho.2] at this; cases this) chunk
    unfold parseSegs
    cases hc : consumeOpt o chunk with
    | error e0 =>
      dsimp only
      exact ⟨fun e h => by simp at h; exact h ▸ hco.1 e0 hc, fun b h => by simp at h⟩
    | ok r =>
      obtain ⟨b0, chunk'⟩ := r
      dsimp only
      have hcp := dtot_consumePos ps (fun o' ho' => hall o' (hps o' ho')) chunk' rest.isEmpty
      cases hp : consumePos ps chunk' rest.isEmpty with
      | error e1 =>
        dsimp only
        exact ⟨fun e h => by simp at h; exact h ▸ hcp.1 e1 hp, fun b h => by simp at h⟩
      | ok r2 =>
        obtain ⟨ps', bs⟩ := r2
        dsimp only
        have hcp2 := hcp.2 ps' bs hp
        have ih' := ih ps' (fun o' ho' => hps o' (hcp2.1 o' ho'))
          (fun sg hsg => hsegs sg (List.mem_cons_of_mem _ hsg))
        cases hr : parseSegs ps' rest with
        | error e2 =>
          dsimp only
          exact ⟨fun e h => by simp at h; exact h ▸ ih'.1 e2 hr, fun b h => by simp at h⟩
        | ok more =>
          dsimp only
          refine ⟨fun e h => by simp at h, fun b h => ?_⟩
          simp at h
          subst h
          have : more ++ (bs ++ b0) = (more ++ bs) ++ b0 := by simp
          rw [this]
          apply dtot_sound_append (dtot_sound_append (ih'.2 more hr) (dtot_sound_mono hps hcp2.2))
          intro p hp'
          exact ⟨o, ho.1, hco.2 b0 chunk' hc p hp'⟩

theorem dtot_classify_opt (s : CliSpec) (t : String) (o : OptSpec) (h : classify s t = .opt o) :
    o ∈ s.opts ∧ o.positional = false := by
  unfold classify at h
  split at h
  · rename_i o' ho'
    simp at h
    subst h
    unfold optOf at ho'
    refine ⟨List.mem_of_find?_eq_some ho', ?_⟩
    have := List.find?_some ho'
    simp at this
    exact this.1
  · split at h <;> simp at h

theorem dtot_segments (s : CliSpec) : ∀ (argv : List String),
    (∀ e, segments s argv = .error e → inFragment s argv = false) ∧
    (∀ c segs, segments s argv = .ok (c, segs) → ∀ sg ∈ segs, sg.1 ∈ s.opts ∧ sg.1.positional = false) := by
  intro argv
  induction argv with
  | nil =>
    unfold segments
    exact ⟨fun e h => by simp at h, fun c segs h => by simp at h; intro sg hsg; rw [h.2] at hsg; cases hsg⟩
  | cons t rest ih =>
    unfold segments
    cases hr : segments s rest with
    | error e0 =>
      dsimp only
      refine ⟨fun e _ => ?_, fun c segs h => by simp at h⟩
      have := ih.1 e0 hr
      simp [inFragment] at this ⊢
      intro _
      exact this
    | ok r =>
      obtain ⟨c0, segs0⟩ := r
      dsimp only
      have ih2 := ih.2 c0 segs0 hr
      cases hc : classify s t with
      | arg =>
        dsimp only
        refine ⟨fun e h => by simp at h, fun c segs h => ?_⟩
        simp at h
        rw [← h.2]; exact ih2
      | opt o =>
        dsimp only
        refine ⟨fun e h => by simp at h, fun c segs h => ?_⟩
        simp at h
        rw [← h.2]
        intro sg hsg
        rcases List.mem_cons.1 hsg with h1 | h1
        · subst h1; exact dtot_classify_opt s t o hc
        · exact ih2 sg h1
      | outside =>
        dsimp only
        refine ⟨fun e _ => ?_, fun c segs h => by simp at h⟩
        simp [inFragment, hc]

theorem dtot_std_good (s : CliSpec) (hstd : s.standard = true) : ∀ o ∈ s.opts, dtot_good o := by
  unfold CliSpec.standard at hstd
  simp only [Bool.and_eq_true] at hstd
  obtain ⟨⟨⟨_, h2⟩, _⟩, _⟩ := hstd
  intro o ho
  exact dtot_std o (List.all_eq_true.1 h2 o ho)

theorem dtot_parseArgs (s : CliSpec) (hstd : s.standard = true) (argv : List String) :
    (∀ e, parseArgs s argv = .error e → inFragment s argv = true → e = .cliError) ∧
    (∀ b, parseArgs s argv = .ok b → dtot_sound s.opts b) := by
  have hall := dtot_std_good s hstd
  have hseg := dtot_segments s argv
  have hpos : ∀ o ∈ positionals s, o ∈ s.opts := fun o ho => (List.mem_filter.1 ho).1
  unfold parseArgs
  cases hs : segments s argv with
  | error e0 =>
    dsimp only
    refine ⟨fun e _ hf => ?_, fun b h => by simp at h⟩
    rw [hseg.1 e0 hs] at hf; cases hf
  | ok r =>
    obtain ⟨chunk0, segs⟩ := r
    dsimp only
    have hsg := hseg.2 chunk0 segs hs
    have hcp := dtot_consumePos (positionals s) (fun o ho => hall o (hpos o ho)) chunk0 segs.isEmpty
    cases hp : consumePos (positionals s) chunk0 segs.isEmpty with
    | error e1 =>
      dsimp only
      exact ⟨fun e h _ => by simp at h; exact h ▸ hcp.1 e1 hp, fun b h => by simp at h⟩
    | ok r2 =>
      obtain ⟨ps, b0⟩ := r2
      dsimp only
      have hcp2 := hcp.2 ps b0 hp
      have hps := dtot_parseSegs s.opts hall segs ps (fun o ho => hpos o (hcp2.1 o ho)) hsg
      cases hr : parseSegs ps segs with
      | error e2 =>
        dsimp only
        exact ⟨fun e h _ => by simp at h; exact h ▸ hps.1 e2 hr, fun b h => by simp at h⟩
      | ok more =>
        dsimp only
        split
        · refine ⟨fun e h _ => by simp at h, fun b h => ?_⟩
          simp at h
          subst h
          exact dtot_sound_append (hps.2 more hr) (dtot_sound_mono hpos hcp2.2)
        · exact ⟨fun e h _ => by simp at h; exact h.symm, fun b h => by simp at h⟩

/-- the parser of a sub-command with standard options answers on every command line of the fragment, and
refuses only with a CLIError -/
theorem parseArgs_total (s : CliSpec) (hstd : s.standard = true) (argv : List String)
    (hf : inFragment s argv = true) :
    (∃ b, parseArgs s argv = .ok b) ∨ parseArgs s argv = .error .cliError := by
  cases h : parseArgs s argv with
  | ok b => exact Or.inl ⟨b, rfl⟩
  | error e => rw [(dtot_parseArgs s hstd argv).1 e h hf]; exact Or.inr rfl

/-- every binding the parser makes is the action of one of the sub-command's options, stored under its dest -/
theorem parseArgs_bindings_sound (s : CliSpec) (hstd : s.standard = true) (argv : List String) (b : Ns)
    (h : parseArgs s argv = .ok b) :
    ∀ p ∈ b, ∃ o ∈ s.opts, o.dest = p.1 ∧ producible o p.2 :=
  (dtot_parseArgs s hstd argv).2 b h

/-! ### the namespace -/

theorem dtot_lookup_mem {β : Type} (l : List (String × β)) (d : String) (v : β)
    (h : l.lookup d = some v) : (d, v) ∈ l := by
  induction l with
  | nil => simp at h
  | cons p rest ih =>
    obtain ⟨k, w⟩ := p
    rw [List.lookup_cons] at h
    split at h
    · rename_i hk
      have hk' : d = k := by simpa using hk
      simp at h
      subst h; subst hk'
      exact List.mem_cons_self ..
    · exact List.mem_cons_of_mem _ (ih h)

theorem dtot_lookup_some {β : Type} (l : List (String × β)) (d : String) (v : β)
    (h : (d, v) ∈ l) : ∃ v', l.lookup d = some v' := by
  induction l with
  | nil => cases h
  | cons p rest ih =>
    obtain ⟨k, w⟩ := p
    rw [List.lookup_cons]
    split
    · exact ⟨_, rfl⟩
    · rename_i hk
      rcases List.mem_cons.1 h with h1 | h1
      · simp at h1
        simp [h1.1] at hk
      · exact ih h1

/-- where a value of the namespace comes from -/
def dtot_reach (s : CliSpec) (d : String) (v : Val) : Prop :=
  ∃ o ∈ optsFor s d, producible o v ∨ v = o.defaultVal

theorem dtot_mem_optsFor (s : CliSpec) (d : String) (o : OptSpec) (ho : o ∈ s.opts) (hd : o.dest = d) :
    o ∈ optsFor s d := by
  unfold optsFor
  exact List.mem_filter.2 ⟨ho, by simpa using hd⟩

theorem dtot_ns_lookup (s : CliSpec) (b : Ns) (hb : dtot_sound s.opts b) (d : String) (v : Val)
    (h : (namespaceOf s b).lookup d = some v) : dtot_reach s d v := by
  unfold namespaceOf at h
  rw [List.lookup_append] at h
  cases hl : b.lookup d with
  | some w =>
    rw [hl] at h
    simp at h
    subst h
    obtain ⟨o, ho, hd, hp⟩ := hb _ (dtot_lookup_mem b d w hl)
    exact ⟨o, dtot_mem_optsFor s d o ho hd, Or.inl hp⟩
  | none =>
    rw [hl] at h
    simp at h
    have := dtot_lookup_mem _ d v h
    unfold defaults at this
    obtain ⟨o, ho, he⟩ := List.mem_map.1 this
    simp at he
    exact ⟨o, dtot_mem_optsFor s d o ho he.1, Or.inr he.2.symm⟩

theorem dtot_ns_some (s : CliSpec) (b : Ns) (d : String) (h : (optsFor s d).isEmpty = false) :
    ∃ v, (namespaceOf s b).lookup d = some v := by
  unfold namespaceOf
  rw [List.lookup_append]
  cases hl : b.lookup d with
  | some w => exact ⟨w, by simp⟩
  | none =>
    cases ho : optsFor s d with
    | nil => rw [ho] at h; simp at h
    | cons o rest =>
      have hm : o ∈ optsFor s d := by rw [ho]; exact List.mem_cons_self ..
      unfold optsFor at hm
      obtain ⟨hm1, hm2⟩ := List.mem_filter.1 hm
      have hd : o.dest = d := by simpa using hm2
      have : (d, o.defaultVal) ∈ defaults s := by
        unfold defaults
        exact List.mem_map.2 ⟨o, hm1, by simp [hd]⟩
      obtain ⟨v', hv'⟩ := dtot_lookup_some _ d _ this
      exact ⟨v', by simp [hv']⟩

theorem dtot_producible_zero (o : OptSpec) (v : Val) (hp : producible o v) (hz : o.arity = .zero) :
    v = o.flagVal := by
  unfold producible at hp
  rw [hz] at hp
  exact hp

theorem dtot_pureFlag (s : CliSpec) (b : Ns) (hb : dtot_sound s.opts b) (d : String)
    (h : pureFlag s d = true) :
    ∃ v, (namespaceOf s b).lookup d = some v ∧ ∃ t, truthy v = some t := by
  unfold pureFlag at h
  simp only [Bool.and_eq_true] at h
  obtain ⟨h1, h2⟩ := h
  obtain ⟨v, hv⟩ := dtot_ns_some s b d (by simpa using h1)
  refine ⟨v, hv, ?_⟩
  obtain ⟨o, ho, hor⟩ := dtot_ns_lookup s b hb d v hv
  have h3 := List.all_eq_true.1 h2 o ho
  simp only [Bool.and_eq_true] at h3
  obtain ⟨⟨hf, ht1⟩, ht2⟩ := h3
  have hz : o.arity = .zero := by unfold isFlag at hf; simpa using hf
  rcases hor with hp | hdv
  · rw [dtot_producible_zero o v hp hz]
    exact Option.isSome_iff_exists.1 ht1
  · rw [hdv]
    exact Option.isSome_iff_exists.1 ht2

theorem dtot_convertOne_plain (o : OptSpec) (t : String) (v : Val) (h : convertOne o t = some v) :
    plainVal v = true := by
  unfold convertOne at h
  split at h
  · split at h
    · simp at h; subst h; rfl
    · simp at h
  · simp at h
    obtain ⟨i, _, hi⟩ := h
    subst hi; rfl

theorem dtot_producible_plain (o : OptSpec) (v : Val) (hp : producible o v)
    (hf : plainVal o.flagVal = true) : plainVal v = true := by
  unfold producible at hp
  cases har : o.arity with
  | zero => rw [har] at hp; dsimp only at hp; rw [hp]; exact hf
  | one => rw [har] at hp; dsimp only at hp; obtain ⟨t, ht⟩ := hp; exact dtot_convertOne_plain o t v ht
  | plus => rw [har] at hp; dsimp only at hp; obtain ⟨k, toks, h⟩ := hp; subst h; rfl
  | star => rw [har] at hp; dsimp only at hp; obtain ⟨l, h⟩ := hp; subst h; rfl
  | other => rw [har] at hp; exact hp.elim

theorem dtot_plain_isNone (v : Val) (h : plainVal v = true) : ∃ b, isNoneV v = some b := by
  cases v <;> simp [plainVal] at h <;> exact ⟨_, rfl⟩

theorem dtot_plain_lookup (s : CliSpec) (b : Ns) (hb : dtot_sound s.opts b) (d : String) (v : Val)
    (h : (optsFor s d).all (fun o => plainVal o.flagVal && plainVal o.defaultVal) = true)
    (hv : (namespaceOf s b).lookup d = some v) : plainVal v = true := by
  obtain ⟨o, ho, hor⟩ := dtot_ns_lookup s b hb d v hv
  have h3 := List.all_eq_true.1 h o ho
  simp only [Bool.and_eq_true] at h3
  rcases hor with hp | hdv
  · exact dtot_producible_plain o v hp h3.1
  · rw [hdv]; exact h3.2

theorem dtot_valueTotal (s : CliSpec) (b : Ns) (hb : dtot_sound s.opts b) (e : Expr)
    (h : valueTotal s e = true) :
    ∃ v, evalE (namespaceOf s b) e = some v ∧ plainVal v = true := by
  induction e with
  | arg d =>
    simp only [valueTotal, plainDest, Bool.and_eq_true] at h
    obtain ⟨v, hv⟩ := dtot_ns_some s b d (by simpa using h.1)
    exact ⟨v, by simp only [evalE]; exact hv, dtot_plain_lookup s b hb d v h.2 hv⟩
  | getattr d e ih =>
    simp only [valueTotal, Bool.and_eq_true] at h
    simp only [evalE]
    cases hl : (namespaceOf s b).lookup d with
    | some v => exact ⟨v, rfl, dtot_plain_lookup s b hb d v h.1 hl⟩
    | none => exact ih h.2
  | none => exact ⟨_, rfl, rfl⟩
  | bool _ => exact ⟨_, rfl, rfl⟩
  | int _ => exact ⟨_, rfl, rfl⟩
  | str _ => exact ⟨_, rfl, rfl⟩
  | _ => simp [valueTotal] at h

theorem dtot_guardTotal (s : CliSpec) (b : Ns) (hb : dtot_sound s.opts b) (g : Expr)
    (h : guardTotal s g = true) :
    ∃ v, evalE (namespaceOf s b) g = some v ∧ ∃ t, truthy v = some t := by
  induction g with
  | bool c => exact ⟨_, rfl, _, rfl⟩
  | arg d =>
    simp only [guardTotal] at h
    simpa only [evalE] using dtot_pureFlag s b hb d h
  | hasattr d => exact ⟨_, rfl, _, rfl⟩
  | not e ih =>
    simp only [guardTotal] at h
    obtain ⟨v, hv, t, ht⟩ := ih h
    exact ⟨.bool (!t), by simp [evalE, hv, ht], _, rfl⟩
  | and x y ihx ihy =>
    simp only [guardTotal, Bool.and_eq_true] at h
    obtain ⟨vx, hvx, tx, htx⟩ := ihx h.1
    cases tx with
    | false => exact ⟨vx, by simp [evalE, hvx, htx], _, htx⟩
    | true =>
      obtain ⟨vy, hvy, ty, hty⟩ := ihy h.2
      exact ⟨vy, by simp [evalE, hvx, htx, hvy], _, hty⟩
  | or x y ihx ihy =>
    simp only [guardTotal, Bool.and_eq_true] at h
    obtain ⟨vx, hvx, tx, htx⟩ := ihx h.1
    cases tx with
    | true => exact ⟨vx, by simp [evalE, hvx, htx], _, htx⟩
    | false =>
      obtain ⟨vy, hvy, ty, hty⟩ := ihy h.2
      exact ⟨vy, by simp [evalE, hvx, htx, hvy], _, hty⟩
  | isNone e _ =>
    simp only [guardTotal] at h
    obtain ⟨v, hv, hp⟩ := dtot_valueTotal s b hb e h
    obtain ⟨c, hc⟩ := dtot_plain_isNone v hp
    exact ⟨.bool c, by simp [evalE, hv, hc], _, rfl⟩
  | isNotNone e _ =>
    simp only [guardTotal] at h
    obtain ⟨v, hv, hp⟩ := dtot_valueTotal s b hb e h
    obtain ⟨c, hc⟩ := dtot_plain_isNone v hp
    exact ⟨.bool (!c), by simp [evalE, hv, hc], _, rfl⟩
  | _ => simp [guardTotal] at h

theorem dtot_evalGuard (s : CliSpec) (b : Ns) (hb : dtot_sound s.opts b) (g : Expr)
    (h : guardTotal s g = true) : ∃ t, evalGuard (namespaceOf s b) g = some t := by
  obtain ⟨v, hv, t, ht⟩ := dtot_guardTotal s b hb g h
  exact ⟨t, by simp [evalGuard, hv, ht]⟩

theorem dtot_evalGuard_not (ns : Ns) (g : Expr) (t : Bool) (h : evalGuard ns g = some t) :
    evalGuard ns (.not g) = some (!t) := by
  unfold evalGuard at h ⊢
  simp only [evalE, h]
  rfl


theorem dtot_argTotal (s : CliSpec) (b : Ns) (hb : dtot_sound s.opts b) (e : Expr)
    (h : argTotal s e = true) :
    (∃ v, evalE (namespaceOf s b) e = some v) ∧ ∀ e', e ≠ .star e' := by
  induction e with
  | arg d =>
    simp only [argTotal] at h
    refine ⟨?_, fun e' he => by cases he⟩
    simpa only [evalE] using dtot_ns_some s b d (by simpa using h)
  | name _ => exact ⟨⟨_, rfl⟩, fun e' he => by cases he⟩
  | none => exact ⟨⟨_, rfl⟩, fun e' he => by cases he⟩
  | bool _ => exact ⟨⟨_, rfl⟩, fun e' he => by cases he⟩
  | int _ => exact ⟨⟨_, rfl⟩, fun e' he => by cases he⟩
  | str _ => exact ⟨⟨_, rfl⟩, fun e' he => by cases he⟩
  | «opaque» _ _ => exact ⟨⟨_, rfl⟩, fun e' he => by cases he⟩
  | not e _ =>
    refine ⟨?_, fun e' he => by cases he⟩
    cases e with
    | arg d =>
      simp only [argTotal] at h
      obtain ⟨v, hv, t, ht⟩ := dtot_pureFlag s b hb d h
      exact ⟨.bool (!t), by simp [evalE, hv, ht]⟩
    | _ => simp [argTotal] at h
  | ite c x y _ ihx ihy =>
    refine ⟨?_, fun e' he => by cases he⟩
    cases c with
    | arg d =>
      simp only [argTotal, Bool.and_eq_true] at h
      obtain ⟨v, hv, t, ht⟩ := dtot_pureFlag s b hb d h.1.1
      cases t with
      | true =>
        obtain ⟨w, hw⟩ := (ihx h.1.2).1
        exact ⟨w, by simp [evalE, hv, ht, hw]⟩
      | false =>
        obtain ⟨w, hw⟩ := (ihy h.2).1
        exact ⟨w, by simp [evalE, hv, ht, hw]⟩
    | _ => simp [argTotal] at h
  | _ => simp [argTotal] at h

theorem dtot_evalPos (s : CliSpec) (b : Ns) (hb : dtot_sound s.opts b) (es : List Expr)
    (h : es.all (argTotal s) = true) : ∃ vs, evalPos (namespaceOf s b) es = some vs := by
  induction es with
  | nil => exact ⟨_, rfl⟩
  | cons e rest ih =>
    simp only [List.all_cons, Bool.and_eq_true] at h
    obtain ⟨vs, hvs⟩ := ih h.2
    obtain ⟨⟨v, hv⟩, hns⟩ := dtot_argTotal s b hb e h.1
    unfold evalPos
    rw [hv, hvs]
    dsimp only
    split
    · exact ⟨_, rfl⟩
    · exact absurd rfl (hns _)
    · exact ⟨_, rfl⟩

theorem dtot_evalKw (s : CliSpec) (b : Ns) (hb : dtot_sound s.opts b) (kw : List (String × Expr))
    (h : kw.all (fun p => argTotal s p.2) = true) : ∃ vs, evalKw (namespaceOf s b) kw = some vs := by
  induction kw with
  | nil => exact ⟨_, rfl⟩
  | cons p rest ih =>
    obtain ⟨k, e⟩ := p
    simp only [List.all_cons, Bool.and_eq_true] at h
    obtain ⟨vs, hvs⟩ := ih h.2
    obtain ⟨⟨v, hv⟩, _⟩ := dtot_argTotal s b hb e h.1
    unfold evalKw
    rw [hv, hvs]
    exact ⟨_, rfl⟩

theorem dtot_select (ns : Ns) (ts : List CallTemplate)
    (hg : ∀ t ∈ ts, ∃ c, evalGuard ns t.guard = some c) (hp : pathsExhaustive ts = true) :
    ∃ t ∈ ts, selectTemplate ns ts = .ok t := by
  match ts, hg, hp with
  | [], _, hp => simp [pathsExhaustive] at hp
  | [t], _, hp =>
    simp only [pathsExhaustive, beq_iff_eq] at hp
    refine ⟨t, List.mem_cons_self .., ?_⟩
    unfold selectTemplate
    rw [hp]
    rfl
  | [t1, t2], hg, hp =>
    simp only [pathsExhaustive, beq_iff_eq] at hp
    obtain ⟨c, hc⟩ := hg t1 (List.mem_cons_self ..)
    cases c with
    | true =>
      refine ⟨t1, List.mem_cons_self .., ?_⟩
      unfold selectTemplate
      rw [hc]
    | false =>
      refine ⟨t2, List.mem_cons_of_mem _ (List.mem_cons_self ..), ?_⟩
      have h2 : evalGuard ns t2.guard = some true := by
        rw [hp]; exact dtot_evalGuard_not ns _ _ hc
      unfold selectTemplate
      rw [hc]
      dsimp only
      unfold selectTemplate
      rw [h2]
  | _ :: _ :: _ :: _, _, hp => simp [pathsExhaustive] at hp

theorem dtot_instantiate (ns : Ns) (t : CallTemplate)
    (hr : (t.raises == "" || shielded t.raises) = true) (hok : templateOK t = true)
    (hpos : ∃ vs, evalPos ns t.pos = some vs) (hkw : ∃ vs, evalKw ns t.kw = some vs) :
    (t.raises = "" ∧ ∃ c, instantiate ns t = .ok c) ∨
    (t.raises ≠ "" ∧ instantiate ns t = .error .cliError) := by
  unfold instantiate
  by_cases hrz : t.raises = ""
  · left
    refine ⟨hrz, ?_⟩
    have hfn : t.fn ≠ "" := by
      unfold templateOK at hok
      simp only [Bool.and_eq_true, Bool.or_eq_true] at hok
      rcases hok.2 with h | h
      · simp [hrz] at h
      · simpa using h
    obtain ⟨p, hp⟩ := hpos
    obtain ⟨k, hk⟩ := hkw
    simp [hrz, hfn, hp, hk]
  · right
    refine ⟨hrz, ?_⟩
    have hs : shielded t.raises = true := by
      simp only [Bool.or_eq_true] at hr
      rcases hr with h | h
      · exact absurd (by simpa using h) hrz
      · exact h
    simp [hrz, hs]

theorem dtot_supported (s : CliSpec) (h : s.standard = true) : (!s.supported) = false := by
  simp [CliSpec.supported, h]

theorem dtot_dispatch_err (s : CliSpec) (hstd : s.standard = true) (argv : List String) (e : CliErr)
    (h : parseArgs s argv = .error e) : dispatchSpec s argv = .error e := by
  unfold dispatchSpec dispatchTemplate
  rw [dtot_supported s hstd, h]
  rfl

theorem dtot_dispatch_ok (s : CliSpec) (ht : totalClass s = true) (argv : List String) (b : Ns)
    (h : parseArgs s argv = .ok b) :
    (∃ c, dispatchSpec s argv = .ok c) ∨
    (dispatchSpec s argv = .error .cliError ∧ ∃ t ∈ s.templates, t.raises ≠ "") := by
  unfold totalClass at ht
  simp only [Bool.and_eq_true] at ht
  obtain ⟨⟨hstd, hall⟩, hpe⟩ := ht
  have hb : dtot_sound s.opts b := parseArgs_bindings_sound s hstd argv b h
  have hall' := List.all_eq_true.1 hall
  have hok : ∀ t ∈ s.templates, templateOK t = true := by
    have := hstd
    unfold CliSpec.standard at this
    simp only [Bool.and_eq_true] at this
    exact List.all_eq_true.1 this.2
  obtain ⟨t, htm, hsel⟩ := dtot_select (namespaceOf s b) s.templates (fun t htm => by
    have := hall' t htm
    simp only [Bool.and_eq_true] at this
    exact dtot_evalGuard s b hb t.guard this.1.1.1) hpe
  have ht4 := hall' t htm
  simp only [Bool.and_eq_true] at ht4
  obtain ⟨⟨⟨_, hr⟩, hpos⟩, hkw⟩ := ht4
  have hd : dispatchSpec s argv = instantiate (namespaceOf s b) t := by
    unfold dispatchSpec dispatchTemplate
    rw [dtot_supported s hstd, h]
    dsimp only
    rw [hsel]
    rfl
  rw [hd]
  rcases dtot_instantiate (namespaceOf s b) t hr (hok t htm) (dtot_evalPos s b hb t.pos hpos)
    (dtot_evalKw s b hb t.kw hkw) with ⟨_, hc⟩ | ⟨hne, he⟩
  · exact Or.inl hc
  · exact Or.inr ⟨he, t, htm, hne⟩

theorem dtot_totalClass_std (s : CliSpec) (ht : totalClass s = true) : s.standard = true := by
  unfold totalClass at ht
  simp only [Bool.and_eq_true] at ht
  exact ht.1.1

/-- (c) totality: for the sub-commands of `totalClass`, on every command line of the fragment `dispatch`
returns a library call or a CLIError — never `unsupported`, never a crash -/
theorem dispatchSpec_total (s : CliSpec) (ht : totalClass s = true) (argv : List String)
    (hf : inFragment s argv = true) :
    (∃ c, dispatchSpec s argv = .ok c) ∨ dispatchSpec s argv = .error .cliError := by
  have hstd := dtot_totalClass_std s ht
  rcases parseArgs_total s hstd argv hf with ⟨b, hb⟩ | he
  · rcases dtot_dispatch_ok s ht argv b hb with h | h
    · exact Or.inl h
    · exact Or.inr h.1
  · exact Or.inr (dtot_dispatch_err s hstd argv _ he)

/-- and when no path of the helper raises, the CLIError can only come from the parser: a token refused by
its validator, or a wrong arity -/
theorem dispatchSpec_error_iff_parse_error (s : CliSpec) (ht : totalClass s = true)
    (hnr : s.templates.all (fun t => t.raises == "") = true) (argv : List String)
    (hf : inFragment s argv = true) :
    dispatchSpec s argv = .error .cliError ↔ parseArgs s argv = .error .cliError := by
  have _ := hf
  have hstd := dtot_totalClass_std s ht
  cases hp : parseArgs s argv with
  | error e =>
    rw [dtot_dispatch_err s hstd argv e hp]
    constructor <;> intro h <;> cases h <;> rfl
  | ok b =>
    rcases dtot_dispatch_ok s ht argv b hp with ⟨c, hc⟩ | ⟨_, t, htm, hne⟩
    · rw [hc]
      constructor <;> intro h <;> cases h
    · have := List.all_eq_true.1 hnr t htm
      exact absurd (by simpa using this) hne

end Cnfgen.Cli
