/-
Lemmas about `Cnfgen.Cli.dispatchSpec` (CnfgenModel/Cli/Dispatch.lean): totality on the modelled fragment.
-/
import CnfgenModel.Cli.DispatchChecks
namespace Cnfgen.Cli
open Cnfgen.Gen

/-- what the action of option `o` can store -/
def producible (o : OptSpec) (v : Val) : Prop :=
  match o.arity with
  | .zero => v = o.flagVal
  | .one => ∃ t, convertOne o t = some v
  | .plus => ∃ k toks, v = .graph k toks
  | .star => ∃ l, v = .ints l
  | .other => False

/-- the parser of a sub-command with standard options answers on every command line of the fragment, and
refuses only with a CLIError -/
theorem parseArgs_total (s : CliSpec) (hstd : s.standard = true) (argv : List String)
    (hf : inFragment s argv = true) :
    (∃ b, parseArgs s argv = .ok b) ∨ parseArgs s argv = .error .cliError := by
  sorry

/-- every binding the parser makes is the action of one of the sub-command's options, stored under its dest -/
theorem parseArgs_bindings_sound (s : CliSpec) (hstd : s.standard = true) (argv : List String) (b : Ns)
    (h : parseArgs s argv = .ok b) :
    ∀ p ∈ b, ∃ o ∈ s.opts, o.dest = p.1 ∧ producible o p.2 := by
  sorry

/-- (c) totality: for the sub-commands of `totalClass`, on every command line of the fragment `dispatch`
returns a library call or a CLIError — never `unsupported`, never a crash -/
theorem dispatchSpec_total (s : CliSpec) (ht : totalClass s = true) (argv : List String)
    (hf : inFragment s argv = true) :
    (∃ c, dispatchSpec s argv = .ok c) ∨ dispatchSpec s argv = .error .cliError := by
  sorry

/-- and when no path of the helper raises, the CLIError can only come from the parser: a token refused by
its validator, or a wrong arity -/
theorem dispatchSpec_error_iff_parse_error (s : CliSpec) (ht : totalClass s = true)
    (hnr : s.templates.all (fun t => t.raises == "") = true) (argv : List String)
    (hf : inFragment s argv = true) :
    dispatchSpec s argv = .error .cliError ↔ parseArgs s argv = .error .cliError := by
  sorry

end Cnfgen.Cli
