/-
Lemmas about `Cnfgen.Cli.dispatchSpec` (CnfgenModel/Cli/Dispatch.lean): totality on the modelled fragment.

Part 1: the parser (`parseRaw`, `expand`, `parseArgs`) answers `.ok _` or `.error .cliError` on the fragment, for
        every supported sub-command (standard, `php`, `compose_two_parsers`), and its bindings are typed.
Part 2: the namespace and the evaluation of the templates; totality of `dispatchSpec` on `totalClass`.
Part 3: totality of `dispatchSpec` beyond `totalClass` (splices of star positionals, guarded comparisons).
-/
import CnfgenModel.Cli.DispatchChecks
namespace Cnfgen.Cli
open Cnfgen.Gen

/-- what the action of option `o` can store -/
def producible (o : OptSpec) (v : Val) : Prop :=
  match o.arity with
  | .zero => v = o.flagVal
  | .one => ∃ t, convertOne o t = some v
  | .plus => ∃ k toks, v = .graph k toks
  | .star => ∃ l, v = .ints l
  | .opt => v = o.defaultVal ∨ ∃ t, convertOne o t = some v
  | .other => False

/-! ### facts about options -/

theorem dtot_arity_pos (o : OptSpec) (h : o.arity = .star ∨ o.arity = .opt) : o.positional = true := by
  unfold OptSpec.arity at h
  repeat' split at h
  all_goals simp_all

theorem dtot_arity_star (o : OptSpec) (h : o.arity = .star) : o.positional = true :=
  dtot_arity_pos o (Or.inl h)

theorem dtot_arity_zero (o : OptSpec) (h : o.arity = .zero) : o.positional = false := by
  unfold OptSpec.arity at h
  repeat' split at h
  all_goals simp_all

theorem dtot_arity_zero_action (o : OptSpec) (h : o.arity = .zero) :
    (o.action = "store_true" ∨ o.action = "store_false") ∨ o.action = "store_const" := by
  unfold OptSpec.arity at h
  repeat' split at h
  all_goals simp_all

theorem dtot_arity_one_action (o : OptSpec) (h : o.arity = .one ∨ o.arity = .opt) :
    o.action = "" ∨ o.action = "store" := by
  unfold OptSpec.arity at h
  repeat' split at h
  all_goals simp_all

theorem dtot_arity_plus_action (o : OptSpec) (h : o.arity = .plus) : (graphKind o.action).isSome = true := by
  unfold OptSpec.arity at h
  repeat' split at h
  all_goals simp_all

/-- an option of arity zero, one, optional or plus has neither of the two custom actions -/
theorem dtot_arity_plain_action (o : OptSpec)
    (h : o.arity = .zero ∨ o.arity = .one ∨ o.arity = .opt ∨ o.arity = .plus) :
    o.action ≠ "PHPArgs" ∧ o.action ≠ "compose_two_parsers" := by
  rcases h with h | h | h | h
  · rcases dtot_arity_zero_action o h with (h | h) | h <;> rw [h] <;> decide
  · rcases dtot_arity_one_action o (Or.inl h) with h | h <;> rw [h] <;> decide
  · rcases dtot_arity_one_action o (Or.inr h) with h | h <;> rw [h] <;> decide
  · have := dtot_arity_plus_action o h
    constructor <;> intro hc <;> rw [hc] at this <;> revert this <;> decide

/-- a non-positional option of known arity is a flag, takes one token, or takes a graph -/
theorem dtot_arity_nonpos (o : OptSpec) (hp : o.positional = false) (ho : o.arity ≠ .other) :
    o.arity = .zero ∨ o.arity = .one ∨ o.arity = .plus := by
  cases h : o.arity with
  | zero => exact Or.inl rfl
  | one => exact Or.inr (Or.inl rfl)
  | plus => exact Or.inr (Or.inr rfl)
  | star => have := dtot_arity_pos o (Or.inl h); rw [hp] at this; cases this
  | opt => have := dtot_arity_pos o (Or.inr h); rw [hp] at this; cases this
  | other => exact absurd h ho

theorem dtot_std (o : OptSpec) (h : o.standard = true) :
    o.nested = false ∧ o.action ≠ "PHPArgs" ∧ o.action ≠ "compose_two_parsers" ∧ o.group = "" ∧
    o.arity ≠ .other ∧ o.arity ≠ .opt := by
  unfold OptSpec.standard at h
  simp only [Bool.and_eq_true] at h
  obtain ⟨⟨⟨⟨⟨⟨⟨h1, _⟩, h3⟩, h4⟩, h5⟩, h6⟩, _⟩, _⟩ := h
  refine ⟨by simpa using h1, by simpa using h3, by simpa using h4, by simpa using h5, ?_, ?_⟩ <;>
  · intro ha; rw [ha] at h6; simp at h6

/-! ### the actions

The structural lemmas about the parser are parametrised by two facts about `bindOne` on the options in play:
its refusals are CLIErrors (`dtot_errs`), and its bindings satisfy a relation `R` (`dtot_binds R`). -/

def dtot_errs (o : OptSpec) : Prop := ∀ toks e, bindOne o toks = .error e → e = .cliError

def dtot_binds (R : OptSpec → String × Val → Prop) (o : OptSpec) : Prop :=
  ∀ toks b, bindOne o toks = .ok b → ∀ p ∈ b, R o p

/-- every binding of `b` is related by `R` to one of the options `opts` -/
def dtot_snd (R : OptSpec → String × Val → Prop) (opts : List OptSpec) (b : Ns) : Prop :=
  ∀ p ∈ b, ∃ o ∈ opts, R o p

/-- the bindings of `parseRaw`: typed by the option, except that a `compose_two_parsers` action stores tokens -/
def dtot_prod (o : OptSpec) (p : String × Val) : Prop :=
  o.dest = p.1 ∧ ((o.action ≠ "compose_two_parsers" ∧ producible o p.2) ∨
    (o.action = "compose_two_parsers" ∧ ∃ l, p.2 = .toks l))

def dtot_notoks (_ : OptSpec) (p : String × Val) : Prop := ∀ l, p.2 ≠ .toks l

/-- the bindings of `parseArgs` (old name of the typing invariant: used by part 2) -/
def dtot_sound (opts : List OptSpec) (b : Ns) : Prop :=
  ∀ p ∈ b, ∃ o ∈ opts, o.dest = p.1 ∧ producible o p.2

theorem dtot_snd_nil (R : OptSpec → String × Val → Prop) (opts : List OptSpec) : dtot_snd R opts [] := by
  intro p hp; cases hp

theorem dtot_snd_append {R : OptSpec → String × Val → Prop} {opts : List OptSpec} {a b : Ns}
    (ha : dtot_snd R opts a) (hb : dtot_snd R opts b) : dtot_snd R opts (a ++ b) := by
  intro p hp
  rcases List.mem_append.1 hp with h | h
  · exact ha p h
  · exact hb p h

theorem dtot_snd_mono {R : OptSpec → String × Val → Prop} {o1 o2 : List OptSpec} {b : Ns}
    (h : ∀ o ∈ o1, o ∈ o2) (hb : dtot_snd R o1 b) : dtot_snd R o2 b := by
  intro p hp
  obtain ⟨o, ho, h1⟩ := hb p hp
  exact ⟨o, h o ho, h1⟩

theorem dtot_phpArgs (toks : List String) :
    (∀ e, phpArgs toks = .error e → e = .cliError) ∧
    (∀ b, phpArgs toks = .ok b → ∀ p ∈ b, ∀ l, p.2 ≠ .toks l) := by
  refine ⟨fun e h => ?_, fun b h p hp l => ?_⟩
  · unfold phpArgs at h
    repeat' split at h
    all_goals simp_all
  · unfold phpArgs at h
    repeat' split at h
    all_goals first
      | (simp at h; done)
      | (simp at h; subst h; simp at hp; rcases hp with rfl | rfl | rfl <;> simp)
      | (simp at h; subst h; simp at hp; subst hp; simp)

/-- `bindOne` refuses with a CLIError only, for every option whose arity is modelled (`php`'s included) -/
theorem dtot_bindOne_errs (o : OptSpec) (ho : o.arity ≠ .other) : dtot_errs o := by
  intro toks e h
  unfold bindOne at h
  split at h
  · exact (dtot_phpArgs toks).1 e h
  · split at h
    · simp at h
    · cases har : o.arity <;> rw [har] at h <;> dsimp only at h
      all_goals (repeat' split at h)
      all_goals simp_all

/-- `bindOne` binds the dest of the option to a value of its type (tokens for `compose_two_parsers`) -/
theorem dtot_bindOne_binds (o : OptSpec) (hact : o.action ≠ "PHPArgs") : dtot_binds dtot_prod o := by
  intro toks b h p hp
  unfold bindOne at h
  have : (o.action == "PHPArgs") = false := by simpa using hact
  simp only [this, Bool.false_eq_true, if_false] at h
  by_cases hc : o.action = "compose_two_parsers"
  · simp [hc] at h
    subst h
    simp at hp
    subst hp
    exact ⟨rfl, Or.inr ⟨hc, _, rfl⟩⟩
  · have : (o.action == "compose_two_parsers") = false := by simpa using hc
    simp only [this, Bool.false_eq_true, if_false] at h
    refine ⟨?_, Or.inl ⟨hc, ?_⟩⟩ <;>
    · try unfold producible
      cases har : o.arity <;> rw [har] at h <;> dsimp only at h ⊢
      all_goals (repeat' split at h)
      all_goals first
        | (simp at h; done)
        | (simp at h; subst h; simp at hp; subst hp; simp; done)
        | (simp at h; subst h; simp at hp; subst hp; simp_all; done)
        | (simp at h; subst h; simp at hp; subst hp; exact ⟨_, by assumption⟩)
        | (simp at h; subst h; simp at hp; subst hp; exact Or.inr ⟨_, by assumption⟩)

theorem dtot_convertOne_plain (o : OptSpec) (t : String) (v : Val) (h : convertOne o t = some v) :
    (∃ x, v = .str x) ∨ ∃ i, v = .int i := by
  unfold convertOne at h
  split at h
  · split at h
    · simp at h; subst h; exact Or.inl ⟨_, rfl⟩
    · simp at h
  · simp at h
    obtain ⟨i, _, hi⟩ := h
    subst hi; exact Or.inr ⟨_, rfl⟩

theorem dtot_constVal_notoks (e : Expr) (l : List String) : constVal e ≠ .toks l := by
  cases e <;> simp [constVal]

theorem dtot_defaultVal_notoks (o : OptSpec) (l : List String) : o.defaultVal ≠ .toks l := by
  unfold OptSpec.defaultVal
  repeat' split
  all_goals first | exact dtot_constVal_notoks _ _ | simp

theorem dtot_flagVal_notoks (o : OptSpec) (l : List String) : o.flagVal ≠ .toks l := by
  unfold OptSpec.flagVal
  repeat' split
  all_goals first | exact dtot_constVal_notoks _ _ | simp

/-- a typed value is not a token list -/
theorem dtot_producible_notoks (o : OptSpec) (v : Val) (hp : producible o v) (l : List String) :
    v ≠ .toks l := by
  unfold producible at hp
  cases har : o.arity <;> rw [har] at hp <;> dsimp only at hp
  · rw [hp]; exact dtot_flagVal_notoks o l
  · obtain ⟨t, ht⟩ := hp
    rcases dtot_convertOne_plain o t v ht with ⟨x, rfl⟩ | ⟨i, rfl⟩ <;> simp
  · obtain ⟨k, tk, rfl⟩ := hp; simp
  · obtain ⟨k, rfl⟩ := hp; simp
  · rcases hp with rfl | ⟨t, ht⟩
    · exact dtot_defaultVal_notoks o l
    · rcases dtot_convertOne_plain o t v ht with ⟨x, rfl⟩ | ⟨i, rfl⟩ <;> simp

/-- only a `compose_two_parsers` action stores a token list -/
theorem dtot_bindOne_notoks (o : OptSpec) (hact : o.action ≠ "compose_two_parsers") :
    dtot_binds dtot_notoks o := by
  intro toks b h p hp l
  by_cases hphp : o.action = "PHPArgs"
  · unfold bindOne at h
    simp only [hphp, beq_self_eq_true, if_true] at h
    exact (dtot_phpArgs toks).2 b h p hp l
  · rcases (dtot_bindOne_binds o hphp toks b h p hp).2 with ⟨_, h2⟩ | ⟨h1, _⟩
    · exact dtot_producible_notoks o p.2 h2 l
    · exact absurd h1 hact

/-! ### the parser of the sub-command -/

section structural
variable {R : OptSpec → String × Val → Prop}

theorem dtot_consumeOpt (o : OptSpec) (hE : dtot_errs o) (hR : dtot_binds R o)
    (har : o.arity = .zero ∨ o.arity = .one ∨ o.arity = .plus) (chunk : List String) :
    (∀ e, consumeOpt o chunk = .error e → e = .cliError) ∧
    (∀ b r, consumeOpt o chunk = .ok (b, r) → ∀ p ∈ b, R o p) := by
  have hmap : ∀ (toks : List String) (f : Ns → Ns × List String),
      (∀ b, (f b).1 = b) →
      (∀ e, (bindOne o toks).map f = .error e → e = .cliError) ∧
      (∀ b r, (bindOne o toks).map f = .ok (b, r) → ∀ p ∈ b, R o p) := by
    intro toks f hf
    cases hbo : bindOne o toks with
    | error e0 =>
      constructor
      · intro e h
        have : e0 = e := by simpa [Except.map] using h
        exact this ▸ hE toks e0 hbo
      · intro b r h; simp [Except.map] at h
    | ok b0 =>
      constructor
      · intro e h; simp [Except.map] at h
      · intro b r h
        have h' : f b0 = (b, r) := by simpa [Except.map] using h
        have : b0 = b := by have := hf b0; rw [h'] at this; exact this.symm
        exact this ▸ hR toks b0 hbo
  unfold consumeOpt
  rcases har with har | har | har <;> rw [har] <;> dsimp only
  · exact hmap _ _ (fun _ => rfl)
  · cases chunk with
    | nil => exact ⟨fun e h => by simp at h; exact h.symm, fun b r h => by simp at h⟩
    | cons t rest => exact hmap _ _ (fun _ => rfl)
  · cases chunk with
    | nil => exact ⟨fun e h => by simp at h; exact h.symm, fun b r h => by simp at h⟩
    | cons t rest => exact hmap _ _ (fun _ => rfl)

theorem dtot_applyPos (ps : List OptSpec) (hE : ∀ o ∈ ps, dtot_errs o) (hR : ∀ o ∈ ps, dtot_binds R o) :
    ∀ (cs : List Nat) (toks : List String),
    (∀ e, applyPos ps cs toks = .error e → e = .cliError) ∧
    (∀ b, applyPos ps cs toks = .ok b → dtot_snd R ps b) := by
  induction ps with
  | nil =>
    intro cs toks
    unfold applyPos
    exact ⟨fun e h => by simp at h, fun b h => by simp at h; subst h; exact dtot_snd_nil _ _⟩
  | cons o os ih =>
    intro cs toks
    cases cs with
    | nil =>
      unfold applyPos
      exact ⟨fun e h => by simp at h, fun b h => by simp at h; subst h; exact dtot_snd_nil _ _⟩
    | cons c cs =>
      unfold applyPos
      have ih' := ih (fun o' ho' => hE o' (List.mem_cons_of_mem _ ho'))
        (fun o' ho' => hR o' (List.mem_cons_of_mem _ ho')) cs (toks.drop c)
      cases hbo : bindOne o (toks.take c) with
      | error e0 =>
        dsimp only
        exact ⟨fun e h => by simp at h; exact h ▸ hE o (List.mem_cons_self ..) _ e0 hbo,
          fun b h => by simp at h⟩
      | ok b0 =>
        dsimp only
        cases hap : applyPos os cs (toks.drop c) with
        | error e1 =>
          dsimp only
          exact ⟨fun e h => by simp at h; exact h ▸ ih'.1 e1 hap, fun b h => by simp at h⟩
        | ok more =>
          dsimp only
          refine ⟨fun e h => by simp at h, fun b h => ?_⟩
          simp at h
          subst h
          apply dtot_snd_append
          · exact dtot_snd_mono (fun o' ho' => List.mem_cons_of_mem _ ho') (ih'.2 more hap)
          · intro p hp
            exact ⟨o, List.mem_cons_self .., hR o (List.mem_cons_self ..) _ b0 hbo p hp⟩

theorem dtot_consumePos (ps : List OptSpec) (hE : ∀ o ∈ ps, dtot_errs o) (hR : ∀ o ∈ ps, dtot_binds R o)
    (chunk : List String) (final : Bool) :
    (∀ e, consumePos ps chunk final = .error e → e = .cliError) ∧
    (∀ ps' b, consumePos ps chunk final = .ok (ps', b) → (∀ o ∈ ps', o ∈ ps) ∧ dtot_snd R ps b) := by
  unfold consumePos
  split
  · exact ⟨fun e h => by simp at h, fun ps' b h => by
      simp at h; obtain ⟨h1, h2⟩ := h; subst h1; subst h2
      exact ⟨fun o ho => ho, dtot_snd_nil _ _⟩⟩
  · dsimp only
    split
    · exact ⟨fun e h => by simp at h; exact h.symm, fun ps' b h => by simp at h⟩
    · have ha := dtot_applyPos ps hE hR
        (matchPartial (ps.map OptSpec.arity) chunk.length ps.length) chunk
      cases hap : applyPos ps (matchPartial (ps.map OptSpec.arity) chunk.length ps.length) chunk with
      | error e0 =>
        dsimp only
        exact ⟨fun e h => by simp at h; exact h ▸ ha.1 e0 hap, fun ps' b h => by simp at h⟩
      | ok b0 =>
        dsimp only
        refine ⟨fun e h => by simp at h, fun ps' b h => ?_⟩
        simp at h
        obtain ⟨h1, h2⟩ := h; subst h1; subst h2
        exact ⟨fun o ho => List.mem_of_mem_drop ho, ha.2 b0 hap⟩

theorem dtot_parseSegs (opts : List OptSpec) (hE : ∀ o ∈ opts, dtot_errs o)
    (hR : ∀ o ∈ opts, dtot_binds R o) :
    ∀ (segs : List (OptSpec × List String)) (ps : List OptSpec),
    (∀ o ∈ ps, o ∈ opts) →
    (∀ sg ∈ segs, sg.1 ∈ opts ∧ (sg.1.arity = .zero ∨ sg.1.arity = .one ∨ sg.1.arity = .plus)) →
    (∀ e, parseSegs ps segs = .error e → e = .cliError) ∧
    (∀ b, parseSegs ps segs = .ok b → dtot_snd R opts b) := by
  intro segs
  induction segs with
  | nil =>
    intro ps hps _
    unfold parseSegs
    split
    · exact ⟨fun e h => by simp at h, fun b h => by simp at h; subst h; exact dtot_snd_nil _ _⟩
    · exact ⟨fun e h => by simp at h; exact h.symm, fun b h => by simp at h⟩
  | cons sg rest ih =>
    intro ps hps hsegs
    obtain ⟨o, chunk⟩ := sg
    have ho := hsegs (o, chunk) (List.mem_cons_self ..)
    have hco := dtot_consumeOpt o (hE o ho.1) (hR o ho.1) ho.2 chunk
    unfold parseSegs
    cases hc : consumeOpt o chunk with
    | error e0 =>
      dsimp only
      exact ⟨fun e h => by simp at h; exact h ▸ hco.1 e0 hc, fun b h => by simp at h⟩
    | ok r =>
      obtain ⟨b0, chunk'⟩ := r
      dsimp only
      have hcp := dtot_consumePos (R := R) ps (fun o' ho' => hE o' (hps o' ho'))
        (fun o' ho' => hR o' (hps o' ho')) chunk' rest.isEmpty
      cases hp : consumePos ps chunk' rest.isEmpty with
      | error e1 =>
        dsimp only
        exact ⟨fun e h => by simp at h; exact h ▸ hcp.1 e1 hp, fun b h => by simp at h⟩
      | ok r2 =>
        obtain ⟨ps', bs⟩ := r2
        dsimp only
        have hcp2 := hcp.2 ps' bs hp
        have ih' := ih ps' (fun o' ho' => hps o' (hcp2.1 o' ho'))
          (fun sg hsg => hsegs sg (List.mem_cons_of_mem _ hsg))
        cases hr : parseSegs ps' rest with
        | error e2 =>
          dsimp only
          exact ⟨fun e h => by simp at h; exact h ▸ ih'.1 e2 hr, fun b h => by simp at h⟩
        | ok more =>
          dsimp only
          refine ⟨fun e h => by simp at h, fun b h => ?_⟩
          simp at h
          subst h
          have : more ++ (bs ++ b0) = (more ++ bs) ++ b0 := by simp
          rw [this]
          apply dtot_snd_append (dtot_snd_append (ih'.2 more hr) (dtot_snd_mono hps hcp2.2))
          intro p hp'
          exact ⟨o, ho.1, hco.2 b0 chunk' hc p hp'⟩

end structural

theorem dtot_classify_opt (s : CliSpec) (t : String) (o : OptSpec) (h : classify s t = .opt o) :
    o ∈ s.opts ∧ o.positional = false := by
  unfold classify at h
  split at h
  · rename_i o' ho'
    simp at h
    subst h
    unfold optOf at ho'
    refine ⟨List.mem_of_find?_eq_some ho', ?_⟩
    have := List.find?_some ho'
    simp at this
    exact this.1
  · split at h <;> simp at h

theorem dtot_segments (s : CliSpec) : ∀ (argv : List String),
    (∀ e, segments s argv = .error e → inFragment s argv = false) ∧
    (∀ c segs, segments s argv = .ok (c, segs) → ∀ sg ∈ segs, sg.1 ∈ s.opts ∧ sg.1.positional = false) := by
  intro argv
  induction argv with
  | nil =>
    unfold segments
    exact ⟨fun e h => by simp at h, fun c segs h => by simp at h; intro sg hsg; rw [h.2] at hsg; cases hsg⟩
  | cons t rest ih =>
    unfold segments
    cases hr : segments s rest with
    | error e0 =>
      dsimp only
      refine ⟨fun e _ => ?_, fun c segs h => by simp at h⟩
      have := ih.1 e0 hr
      simp [inFragment] at this ⊢
      intro _
      exact this
    | ok r =>
      obtain ⟨c0, segs0⟩ := r
      dsimp only
      have ih2 := ih.2 c0 segs0 hr
      cases hc : classify s t with
      | arg =>
        dsimp only
        refine ⟨fun e h => by simp at h, fun c segs h => ?_⟩
        simp at h
        rw [← h.2]; exact ih2
      | opt o =>
        dsimp only
        refine ⟨fun e h => by simp at h, fun c segs h => ?_⟩
        simp at h
        rw [← h.2]
        intro sg hsg
        rcases List.mem_cons.1 hsg with h1 | h1
        · subst h1; exact dtot_classify_opt s t o hc
        · exact ih2 sg h1
      | outside =>
        dsimp only
        refine ⟨fun e _ => ?_, fun c segs h => by simp at h⟩
        simp [inFragment, hc]

theorem dtot_mem_mainOpts (s : CliSpec) (o : OptSpec) : o ∈ mainOpts s ↔ o ∈ s.opts ∧ o.nested = false := by
  unfold mainOpts
  simp [List.mem_filter]

theorem dtot_positionals_main (s : CliSpec) : ∀ o ∈ positionals s, o ∈ mainOpts s :=
  fun _ ho => (List.mem_filter.1 ho).1

/-- what the parser lemmas need of a sub-command: the options of its own parser have a modelled arity, and the
options of the sub-parsers are positionals -/
def dtot_mainOK (s : CliSpec) : Prop :=
  ∀ o ∈ s.opts, (o.nested = false ∧ o.arity ≠ .other) ∨ (o.nested = true ∧ o.positional = true)

/-- the parser of the sub-command itself: refusals on the fragment are CLIErrors, bindings come from `bindOne`
of the options of the main parser -/
theorem dtot_parseRaw {R : OptSpec → String × Val → Prop} (s : CliSpec) (hm : dtot_mainOK s)
    (hR : ∀ o ∈ mainOpts s, dtot_binds R o) (argv : List String) :
    (∀ e, parseRaw s argv = .error e → inFragment s argv = true → e = .cliError) ∧
    (∀ b, parseRaw s argv = .ok b → dtot_snd R (mainOpts s) b) := by
  have hE : ∀ o ∈ mainOpts s, dtot_errs o := by
    intro o ho
    obtain ⟨h1, h2⟩ := (dtot_mem_mainOpts s o).1 ho
    rcases hm o h1 with h | h
    · exact dtot_bindOne_errs o h.2
    · rw [h2] at h; cases h.1
  have hseg := dtot_segments s argv
  have hpos := dtot_positionals_main s
  unfold parseRaw
  cases hs : segments s argv with
  | error e0 =>
    dsimp only
    refine ⟨fun e _ hf => ?_, fun b h => by simp at h⟩
    rw [hseg.1 e0 hs] at hf; cases hf
  | ok r =>
    obtain ⟨chunk0, segs⟩ := r
    dsimp only
    split
    · exact ⟨fun e h _ => by simp at h; exact h.symm, fun b h => by simp at h⟩
    have hsg : ∀ sg ∈ segs, sg.1 ∈ mainOpts s ∧
        (sg.1.arity = .zero ∨ sg.1.arity = .one ∨ sg.1.arity = .plus) := by
      intro sg hsg
      obtain ⟨h1, h2⟩ := hseg.2 chunk0 segs hs sg hsg
      rcases hm sg.1 h1 with h | h
      · exact ⟨(dtot_mem_mainOpts s sg.1).2 ⟨h1, h.1⟩, dtot_arity_nonpos sg.1 h2 h.2⟩
      · rw [h2] at h; cases h.2
    have hcp := dtot_consumePos (R := R) (positionals s) (fun o ho => hE o (hpos o ho))
      (fun o ho => hR o (hpos o ho)) chunk0 segs.isEmpty
    cases hp : consumePos (positionals s) chunk0 segs.isEmpty with
    | error e1 =>
      dsimp only
      exact ⟨fun e h _ => by simp at h; exact h ▸ hcp.1 e1 hp, fun b h => by simp at h⟩
    | ok r2 =>
      obtain ⟨ps, b0⟩ := r2
      dsimp only
      have hcp2 := hcp.2 ps b0 hp
      have hps := dtot_parseSegs (R := R) (mainOpts s) hE hR segs ps (fun o ho => hpos o (hcp2.1 o ho)) hsg
      cases hr : parseSegs ps segs with
      | error e2 =>
        dsimp only
        exact ⟨fun e h _ => by simp at h; exact h ▸ hps.1 e2 hr, fun b h => by simp at h⟩
      | ok more =>
        dsimp only
        split
        · refine ⟨fun e h _ => by simp at h, fun b h => ?_⟩
          simp at h
          subst h
          exact dtot_snd_append (hps.2 more hr) (dtot_snd_mono hpos hcp2.2)
        · exact ⟨fun e h _ => by simp at h; exact h.symm, fun b h => by simp at h⟩

/-! ### `compose_two_parsers` -/

/-- without token lists there is nothing to expand -/
theorem dtot_expand_notoks (s : CliSpec) : ∀ (b : Ns), (∀ p ∈ b, ∀ l, p.2 ≠ .toks l) → expand s b = .ok b
  | [], _ => by simp [expand]
  | (d, v) :: rest, h => by
    have ih := dtot_expand_notoks s rest (fun p hp => h p (List.mem_cons_of_mem _ hp))
    have hv := h (d, v) (List.mem_cons_self ..)
    cases v <;> simp_all [expand]

/-- the typing invariant of the final bindings of a composed sub-command -/
def dtot_csound (opts : List OptSpec) (b : Ns) : Prop :=
  ∀ p ∈ b, ∃ o ∈ opts, o.dest = p.1 ∧ producible o p.2 ∧ o.action ≠ "compose_two_parsers"

/-- what `expand` needs: a composed action names two sub-parsers, and the options of the sub-parsers are
typed positionals -/
def dtot_subOK (s : CliSpec) : Prop :=
  ∀ o ∈ s.opts,
    (o.nested = false → o.action = "compose_two_parsers" → o.compose.length = 2) ∧
    (o.nested = true → o.arity ≠ .other ∧ o.action ≠ "PHPArgs" ∧ o.action ≠ "compose_two_parsers")

theorem dtot_composeParse (s : CliSpec) (hs : dtot_subOK s) (o : OptSpec) (ho : o ∈ s.opts)
    (hn : o.nested = false) (ha : o.action = "compose_two_parsers") (toks : List String) :
    (∀ e, composeParse s o toks = .error e → e = .cliError) ∧
    (∀ b, composeParse s o toks = .ok b → dtot_csound s.opts b) := by
  have hlen := (hs o ho).1 hn ha
  have hsub : ∀ p, ∀ o' ∈ subPositionals s p, o' ∈ s.opts ∧ o'.nested = true := by
    intro p o' ho'
    unfold subPositionals at ho'
    obtain ⟨h1, h2⟩ := List.mem_filter.1 ho'
    simp only [Bool.and_eq_true] at h2
    exact ⟨h1, h2.1.1⟩
  have hcp : ∀ p, _ := fun p => dtot_consumePos (R := dtot_prod) (subPositionals s p)
    (fun o' ho' => dtot_bindOne_errs o' ((hs o' (hsub p o' ho').1).2 (hsub p o' ho').2).1)
    (fun o' ho' => dtot_bindOne_binds o' ((hs o' (hsub p o' ho').1).2 (hsub p o' ho').2).2.1) toks true
  unfold composeParse
  match hco : o.compose, toks with
  | [p1, p2], t :: tl =>
    dsimp only
    have hcp' := hcp (if pyFloatOk t then p1 else p2)
    cases hc : consumePos (subPositionals s (if pyFloatOk t then p1 else p2)) (t :: tl) true with
    | error e0 =>
      dsimp only
      exact ⟨fun e h => by simp at h; exact h ▸ hcp'.1 e0 hc, fun b h => by simp at h⟩
    | ok r =>
      obtain ⟨rest, b0⟩ := r
      dsimp only
      split
      · refine ⟨fun e h => by simp at h, fun b h => ?_⟩
        simp at h
        subst h
        intro p hp
        obtain ⟨o', ho', hd, hpr⟩ := (hcp'.2 rest b0 hc).2 p hp
        have hsb := hsub _ o' ho'
        have hnc := ((hs o' hsb.1).2 hsb.2).2.2
        rcases hpr with ⟨_, h2⟩ | ⟨h1, _⟩
        · exact ⟨o', hsb.1, hd, h2, hnc⟩
        · exact absurd h1 hnc
      · exact ⟨fun e h => by simp at h; exact h.symm, fun b h => by simp at h⟩
  | [_, _], [] => exact ⟨fun e h => by simp at h; exact h.symm, fun b h => by simp at h⟩
  | [], _ => rw [hco] at hlen; simp at hlen
  | [_], _ => rw [hco] at hlen; simp at hlen
  | _ :: _ :: _ :: _, _ => rw [hco] at hlen; simp at hlen

theorem dtot_composeOpt (s : CliSpec) (d : String) (o : OptSpec) (ho : o ∈ s.opts) (hd : o.dest = d)
    (ha : o.action = "compose_two_parsers") (hn : o.nested = false) :
    ∃ o', composeOpt s d = some o' ∧ o' ∈ s.opts ∧ o'.dest = d ∧ o'.action = "compose_two_parsers" ∧
      o'.nested = false := by
  unfold composeOpt
  cases hf : s.opts.find? (fun o => o.dest == d && o.action == "compose_two_parsers" && !o.nested) with
  | none =>
    have := List.find?_eq_none.1 hf o ho
    simp [hd, ha, hn] at this
  | some o' =>
    have h1 := List.find?_some hf
    simp only [Bool.and_eq_true, beq_iff_eq, Bool.not_eq_true'] at h1
    exact ⟨o', rfl, List.mem_of_find?_eq_some hf, h1.1.1, h1.1.2, h1.2⟩

theorem dtot_expand_cons_plain (s : CliSpec) (d : String) (v : Val) (rest : Ns) (hnt : ∀ l, v ≠ .toks l) :
    expand s ((d, v) :: rest) =
      (match expand s rest with | .error e => .error e | .ok more => .ok ((d, v) :: more)) := by
  cases v
  case toks l => exact absurd rfl (hnt l)
  all_goals (simp only [expand]; cases expand s rest <;> rfl)

/-- the sub-parses refuse with a CLIError only, and their bindings are typed -/
theorem dtot_expand (s : CliSpec) (hs : dtot_subOK s) : ∀ (b : Ns), dtot_snd dtot_prod (mainOpts s) b →
    (∀ e, expand s b = .error e → e = .cliError) ∧ (∀ b', expand s b = .ok b' → dtot_csound s.opts b')
  | [], _ => by
    simp only [expand]
    exact ⟨fun e h => by simp at h, fun b' h => by simp at h; subst h; intro p hp; cases hp⟩
  | (d, v) :: rest, hb => by
    have ih := dtot_expand s hs rest (fun p hp => hb p (List.mem_cons_of_mem _ hp))
    obtain ⟨o, ho, hd, hv⟩ := hb (d, v) (List.mem_cons_self ..)
    obtain ⟨ho1, ho2⟩ := (dtot_mem_mainOpts s o).1 ho
    have hkeep := dtot_expand_cons_plain s d v rest
    have hplain : (∀ l, v ≠ .toks l) →
        (∀ e, expand s ((d, v) :: rest) = .error e → e = .cliError) ∧
        (∀ b', expand s ((d, v) :: rest) = .ok b' → dtot_csound s.opts b') := by
      intro hnt
      rw [hkeep hnt]
      cases hr : expand s rest with
      | error e0 => exact ⟨fun e h => by simp at h; exact h ▸ ih.1 e0 hr, fun b' h => by simp at h⟩
      | ok more =>
        refine ⟨fun e h => by simp at h, fun b' h => ?_⟩
        simp at h
        subst h
        intro p hp
        rcases List.mem_cons.1 hp with rfl | hp
        · rcases hv with ⟨h1, h2⟩ | ⟨_, l, hl⟩
          · exact ⟨o, ho1, hd, h2, h1⟩
          · exact absurd hl (hnt l)
        · exact ih.2 more hr p hp
    rcases hv with ⟨h1, h2⟩ | ⟨ha, l, hl⟩
    · exact hplain (fun l => dtot_producible_notoks o v h2 l)
    · dsimp only at hl hd
      subst hl
      obtain ⟨o', hco, ho'1, _, ho'a, ho'n⟩ := dtot_composeOpt s d o ho1 hd ha ho2
      have hcp := dtot_composeParse s hs o' ho'1 ho'n ho'a l
      simp only [expand, hco]
      cases hc : composeParse s o' l with
      | error e0 => exact ⟨fun e h => by simp at h; exact h ▸ hcp.1 e0 hc, fun b' h => by simp at h⟩
      | ok inner =>
        dsimp only
        cases hr : expand s rest with
        | error e0 => exact ⟨fun e h => by simp at h; exact h ▸ ih.1 e0 hr, fun b' h => by simp at h⟩
        | ok more =>
          refine ⟨fun e h => by simp at h, fun b' h => ?_⟩
          simp at h
          subst h
          intro p hp
          rcases List.mem_append.1 hp with hp | hp
          · exact hcp.2 inner hc p hp
          · exact ih.2 more hr p hp

/-! ### the three classes of supported sub-commands -/

theorem dtot_std_opts (s : CliSpec) (hstd : s.standard = true) : ∀ o ∈ s.opts, o.standard = true := by
  unfold CliSpec.standard at hstd
  simp only [Bool.and_eq_true] at hstd
  exact List.all_eq_true.1 hstd.1.1.2

theorem dtot_std_mainOK (s : CliSpec) (hstd : s.standard = true) : dtot_mainOK s := by
  intro o ho
  have := dtot_std o (dtot_std_opts s hstd o ho)
  exact Or.inl ⟨this.1, this.2.2.2.2.1⟩

/-- a standard sub-command has no sub-parser -/
theorem dtot_std_main (s : CliSpec) (hstd : s.standard = true) : mainOpts s = s.opts := by
  unfold mainOpts
  apply List.filter_eq_self.2
  intro o ho
  simp [(dtot_std o (dtot_std_opts s hstd o ho)).1]

/-- for a standard sub-command there is nothing to expand: `parseArgs` is the parser of the sub-command itself -/
theorem dtot_parseArgs_raw (s : CliSpec) (hstd : s.standard = true) (argv : List String) :
    parseArgs s argv = parseRaw s argv := by
  unfold parseArgs
  cases h : parseRaw s argv with
  | error e => rfl
  | ok b =>
    dsimp only
    apply dtot_expand_notoks
    intro p hp l
    have hR : ∀ o ∈ mainOpts s, dtot_binds dtot_notoks o := by
      intro o ho
      rw [dtot_std_main s hstd] at ho
      exact dtot_bindOne_notoks o (dtot_std o (dtot_std_opts s hstd o ho)).2.2.1
    obtain ⟨o, _, ho⟩ := (dtot_parseRaw s (dtot_std_mainOK s hstd) hR argv).2 b h p hp
    exact ho l

theorem dtot_parseArgs (s : CliSpec) (hstd : s.standard = true) (argv : List String) :
    (∀ e, parseArgs s argv = .error e → inFragment s argv = true → e = .cliError) ∧
    (∀ b, parseArgs s argv = .ok b → dtot_sound s.opts b) := by
  rw [dtot_parseArgs_raw s hstd argv]
  have hR : ∀ o ∈ mainOpts s, dtot_binds dtot_prod o := by
    intro o ho
    rw [dtot_std_main s hstd] at ho
    exact dtot_bindOne_binds o (dtot_std o (dtot_std_opts s hstd o ho)).2.1
  have hp := dtot_parseRaw s (dtot_std_mainOK s hstd) hR argv
  refine ⟨hp.1, fun b h p hp' => ?_⟩
  obtain ⟨o, ho, hd, hv⟩ := hp.2 b h p hp'
  rw [dtot_std_main s hstd] at ho
  rcases hv with ⟨_, h2⟩ | ⟨h1, _⟩
  · exact ⟨o, ho, hd, h2⟩
  · exact absurd h1 (dtot_std o (dtot_std_opts s hstd o ho)).2.2.1

/-- the parser of a sub-command with standard options answers on every command line of the fragment, and
refuses only with a CLIError -/
theorem parseArgs_total (s : CliSpec) (hstd : s.standard = true) (argv : List String)
    (hf : inFragment s argv = true) :
    (∃ b, parseArgs s argv = .ok b) ∨ parseArgs s argv = .error .cliError := by
  cases h : parseArgs s argv with
  | ok b => exact Or.inl ⟨b, rfl⟩
  | error e => rw [(dtot_parseArgs s hstd argv).1 e h hf]; exact Or.inr rfl

/-- every binding the parser makes is the action of one of the sub-command's options, stored under its dest -/
theorem parseArgs_bindings_sound (s : CliSpec) (hstd : s.standard = true) (argv : List String) (b : Ns)
    (h : parseArgs s argv = .ok b) :
    ∀ p ∈ b, ∃ o ∈ s.opts, o.dest = p.1 ∧ producible o p.2 :=
  (dtot_parseArgs s hstd argv).2 b h

/-! #### `php` -/

theorem dtot_special_opts (s : CliSpec) (hsp : s.special = true) :
    ∀ o ∈ s.opts, (o.action = "PHPArgs" ∧ o.arity = .star ∧ o.nested = false) ∨ o.standard = true := by
  unfold CliSpec.special at hsp
  simp only [Bool.and_eq_true] at hsp
  intro o ho
  have := List.all_eq_true.1 hsp.1.1.2 o ho
  simpa [and_assoc] using this

theorem dtot_parseArgs_special (s : CliSpec) (hsp : s.special = true) (argv : List String) :
    ∀ e, parseArgs s argv = .error e → inFragment s argv = true → e = .cliError := by
  have hopts := dtot_special_opts s hsp
  have hm : dtot_mainOK s := by
    intro o ho
    rcases hopts o ho with ⟨_, h2, h3⟩ | h
    · exact Or.inl ⟨h3, by rw [h2]; simp⟩
    · have := dtot_std o h
      exact Or.inl ⟨this.1, this.2.2.2.2.1⟩
  have hR : ∀ o ∈ mainOpts s, dtot_binds dtot_notoks o := by
    intro o ho
    apply dtot_bindOne_notoks
    rcases hopts o ((dtot_mem_mainOpts s o).1 ho).1 with ⟨h1, _⟩ | h
    · rw [h1]; decide
    · exact (dtot_std o h).2.2.1
  have hp := dtot_parseRaw s hm hR argv
  intro e h hf
  unfold parseArgs at h
  cases hr : parseRaw s argv with
  | error e0 =>
    rw [hr] at h
    simp at h
    exact h ▸ hp.1 e0 hr hf
  | ok b =>
    rw [hr] at h
    dsimp only at h
    rw [dtot_expand_notoks s b (fun p hp' l => by
      obtain ⟨o, _, ho⟩ := hp.2 b hr p hp'
      exact ho l)] at h
    simp at h

/-! #### `compose_two_parsers` -/

theorem dtot_composed_opts (s : CliSpec) (hc : s.composed = true) :
    ∀ o ∈ s.opts, o.standard = true ∨ groupedFlag o = true ∨ subOption s o = true ∨ composeOption o = true := by
  unfold CliSpec.composed at hc
  simp only [Bool.and_eq_true] at hc
  intro o ho
  have := List.all_eq_true.1 hc.1.1.2 o ho
  simpa [or_assoc] using this

theorem dtot_groupedFlag (o : OptSpec) (h : groupedFlag o = true) : o.nested = false ∧ o.arity = .zero := by
  unfold groupedFlag at h
  simp only [Bool.and_eq_true] at h
  obtain ⟨⟨⟨⟨⟨⟨h1, _⟩, h3⟩, _⟩, _⟩, _⟩, _⟩ := h
  exact ⟨by simpa using h1, by simpa using h3⟩

theorem dtot_subOption (s : CliSpec) (o : OptSpec) (h : subOption s o = true) :
    o.nested = true ∧ o.positional = true ∧ (o.arity = .one ∨ o.arity = .opt ∨ o.arity = .plus) := by
  unfold subOption at h
  simp only [Bool.and_eq_true] at h
  obtain ⟨⟨⟨⟨⟨⟨h1, h2⟩, _⟩, _⟩, _⟩, _⟩, h7⟩ := h
  refine ⟨h1, h2, ?_⟩
  cases har : o.arity <;> rw [har] at h7 <;> simp at h7 ⊢

theorem dtot_composeOption (o : OptSpec) (h : composeOption o = true) :
    o.nested = false ∧ o.action = "compose_two_parsers" ∧ o.arity = .star ∧ o.compose.length = 2 := by
  unfold composeOption at h
  simp only [Bool.and_eq_true] at h
  obtain ⟨⟨⟨⟨⟨⟨h1, _⟩, _⟩, h4⟩, h5⟩, h6⟩, _⟩ := h
  exact ⟨by simpa using h1, by simpa using h4, by simpa using h5, by simpa using h6⟩

theorem dtot_composed_mainOK (s : CliSpec) (hc : s.composed = true) : dtot_mainOK s := by
  intro o ho
  rcases dtot_composed_opts s hc o ho with h | h | h | h
  · have := dtot_std o h
    exact Or.inl ⟨this.1, this.2.2.2.2.1⟩
  · have := dtot_groupedFlag o h
    exact Or.inl ⟨this.1, by rw [this.2]; simp⟩
  · have := dtot_subOption s o h
    exact Or.inr ⟨this.1, this.2.1⟩
  · have := dtot_composeOption o h
    exact Or.inl ⟨this.1, by rw [this.2.2.1]; simp⟩

theorem dtot_composed_subOK (s : CliSpec) (hc : s.composed = true) : dtot_subOK s := by
  intro o ho
  rcases dtot_composed_opts s hc o ho with h | h | h | h
  · have := dtot_std o h
    exact ⟨fun _ ha => absurd ha this.2.2.1, fun hn => by rw [this.1] at hn; cases hn⟩
  · have := dtot_groupedFlag o h
    exact ⟨fun _ ha => absurd ha (dtot_arity_plain_action o (Or.inl this.2)).2,
      fun hn => by rw [this.1] at hn; cases hn⟩
  · obtain ⟨h1, _, h3⟩ := dtot_subOption s o h
    refine ⟨fun hn => (by rw [h1] at hn; cases hn), fun _ => ?_⟩
    have ha := dtot_arity_plain_action o (Or.inr h3)
    refine ⟨?_, ha.1, ha.2⟩
    rcases h3 with h3 | h3 | h3 <;> rw [h3] <;> simp
  · have := dtot_composeOption o h
    exact ⟨fun _ _ => this.2.2.2, fun hn => by rw [this.1] at hn; cases hn⟩

theorem dtot_composed_binds (s : CliSpec) (hc : s.composed = true) :
    ∀ o ∈ mainOpts s, dtot_binds dtot_prod o := by
  intro o ho
  apply dtot_bindOne_binds
  rcases dtot_composed_opts s hc o ((dtot_mem_mainOpts s o).1 ho).1 with h | h | h | h
  · exact (dtot_std o h).2.1
  · exact (dtot_arity_plain_action o (Or.inl (dtot_groupedFlag o h).2)).1
  · exact (dtot_arity_plain_action o (Or.inr (dtot_subOption s o h).2.2)).1
  · rw [(dtot_composeOption o h).2.1]; decide

theorem dtot_parseArgs_composed (s : CliSpec) (hc : s.composed = true) (argv : List String) :
    (∀ e, parseArgs s argv = .error e → inFragment s argv = true → e = .cliError) ∧
    (∀ b, parseArgs s argv = .ok b → dtot_csound s.opts b) := by
  have hp := dtot_parseRaw s (dtot_composed_mainOK s hc) (dtot_composed_binds s hc) argv
  unfold parseArgs
  cases hr : parseRaw s argv with
  | error e0 =>
    dsimp only
    exact ⟨fun e h hf => by simp at h; exact h ▸ hp.1 e0 hr hf, fun b h => by simp at h⟩
  | ok b0 =>
    dsimp only
    have he := dtot_expand s (dtot_composed_subOK s hc) b0 (hp.2 b0 hr)
    exact ⟨fun e h _ => he.1 e h, he.2⟩

/-- the parser of EVERY supported sub-command (standard options, `php`, `compose_two_parsers`) answers on every
command line of the fragment, and refuses only with a CLIError -/
theorem parseArgs_total_supported (s : CliSpec) (hsup : s.supported = true) (argv : List String)
    (hf : inFragment s argv = true) :
    (∃ b, parseArgs s argv = .ok b) ∨ parseArgs s argv = .error .cliError := by
  cases h : parseArgs s argv with
  | ok b => exact Or.inl ⟨b, rfl⟩
  | error e =>
    right
    unfold CliSpec.supported at hsup
    simp only [Bool.or_eq_true] at hsup
    rcases hsup with (hs | hs) | hs
    · rw [(dtot_parseArgs s hs argv).1 e h hf]
    · rw [dtot_parseArgs_special s hs argv e h hf]
    · rw [(dtot_parseArgs_composed s hs argv).1 e h hf]

/-- the bindings of a sub-command with a `compose_two_parsers` action are typed by its options — those of its
own parser and those of the sub-parser chosen — and no token list is left in the namespace -/
theorem parseArgs_bindings_sound_composed (s : CliSpec) (hc : s.composed = true) (argv : List String) (b : Ns)
    (h : parseArgs s argv = .ok b) :
    ∀ p ∈ b, ∃ o ∈ s.opts, o.dest = p.1 ∧ producible o p.2 ∧ o.action ≠ "compose_two_parsers" :=
  (dtot_parseArgs_composed s hc argv).2 b h

/-! ### the namespace -/

theorem dtot_lookup_mem {β : Type} (l : List (String × β)) (d : String) (v : β)
    (h : l.lookup d = some v) : (d, v) ∈ l := by
  induction l with
  | nil => simp at h
  | cons p rest ih =>
    obtain ⟨k, w⟩ := p
    rw [List.lookup_cons] at h
    split at h
    · rename_i hk
      have hk' : d = k := by simpa using hk
      simp at h
      subst h; subst hk'
      exact List.mem_cons_self ..
    · exact List.mem_cons_of_mem _ (ih h)

theorem dtot_lookup_some {β : Type} (l : List (String × β)) (d : String) (v : β)
    (h : (d, v) ∈ l) : ∃ v', l.lookup d = some v' := by
  induction l with
  | nil => cases h
  | cons p rest ih =>
    obtain ⟨k, w⟩ := p
    rw [List.lookup_cons]
    split
    · exact ⟨_, rfl⟩
    · rename_i hk
      rcases List.mem_cons.1 h with h1 | h1
      · simp at h1
        simp [h1.1] at hk
      · exact ih h1

/-- where a value of the namespace comes from -/
def dtot_reach (s : CliSpec) (d : String) (v : Val) : Prop :=
  ∃ o ∈ optsFor s d, producible o v ∨ v = o.defaultVal

theorem dtot_mem_optsFor (s : CliSpec) (d : String) (o : OptSpec) (ho : o ∈ s.opts) (hd : o.dest = d) :
    o ∈ optsFor s d := by
  unfold optsFor
  exact List.mem_filter.2 ⟨ho, by simpa using hd⟩

theorem dtot_ns_lookup (s : CliSpec) (b : Ns) (hb : dtot_sound s.opts b) (d : String) (v : Val)
    (h : (namespaceOf s b).lookup d = some v) : dtot_reach s d v := by
  unfold namespaceOf at h
  rw [List.lookup_append] at h
  cases hl : b.lookup d with
  | some w =>
    rw [hl] at h
    simp at h
    subst h
    obtain ⟨o, ho, hd, hp⟩ := hb _ (dtot_lookup_mem b d w hl)
    exact ⟨o, dtot_mem_optsFor s d o ho hd, Or.inl hp⟩
  | none =>
    rw [hl] at h
    simp at h
    have := dtot_lookup_mem _ d v h
    unfold defaults at this
    obtain ⟨o, ho, he⟩ := List.mem_map.1 this
    simp at he
    exact ⟨o, dtot_mem_optsFor s d o ((dtot_mem_mainOpts s o).1 ho).1 he.1, Or.inr he.2.symm⟩

theorem dtot_ns_some (s : CliSpec) (hmain : mainOpts s = s.opts) (b : Ns) (d : String)
    (h : (optsFor s d).isEmpty = false) :
    ∃ v, (namespaceOf s b).lookup d = some v := by
  unfold namespaceOf
  rw [List.lookup_append]
  cases hl : b.lookup d with
  | some w => exact ⟨w, by simp⟩
  | none =>
    cases ho : optsFor s d with
    | nil => rw [ho] at h; simp at h
    | cons o rest =>
      have hm : o ∈ optsFor s d := by rw [ho]; exact List.mem_cons_self ..
      unfold optsFor at hm
      obtain ⟨hm1, hm2⟩ := List.mem_filter.1 hm
      have hd : o.dest = d := by simpa using hm2
      have : (d, o.defaultVal) ∈ defaults s := by
        unfold defaults
        exact List.mem_map.2 ⟨o, hmain ▸ hm1, by simp [hd]⟩
      obtain ⟨v', hv'⟩ := dtot_lookup_some _ d _ this
      exact ⟨v', by simp [hv']⟩

theorem dtot_producible_zero (o : OptSpec) (v : Val) (hp : producible o v) (hz : o.arity = .zero) :
    v = o.flagVal := by
  unfold producible at hp
  rw [hz] at hp
  exact hp

theorem dtot_pureFlag (s : CliSpec) (hm : mainOpts s = s.opts) (b : Ns) (hb : dtot_sound s.opts b) (d : String)
    (h : pureFlag s d = true) :
    ∃ v, (namespaceOf s b).lookup d = some v ∧ ∃ t, truthy v = some t := by
  unfold pureFlag at h
  simp only [Bool.and_eq_true] at h
  obtain ⟨h1, h2⟩ := h
  obtain ⟨v, hv⟩ := dtot_ns_some s hm b d (by simpa using h1)
  refine ⟨v, hv, ?_⟩
  obtain ⟨o, ho, hor⟩ := dtot_ns_lookup s b hb d v hv
  have h3 := List.all_eq_true.1 h2 o ho
  simp only [Bool.and_eq_true] at h3
  obtain ⟨⟨hf, ht1⟩, ht2⟩ := h3
  have hz : o.arity = .zero := by unfold isFlag at hf; simpa using hf
  rcases hor with hp | hdv
  · rw [dtot_producible_zero o v hp hz]
    exact Option.isSome_iff_exists.1 ht1
  · rw [hdv]
    exact Option.isSome_iff_exists.1 ht2

theorem dtot_convertOne_plainVal (o : OptSpec) (t : String) (v : Val) (h : convertOne o t = some v) :
    plainVal v = true := by
  rcases dtot_convertOne_plain o t v h with ⟨x, rfl⟩ | ⟨i, rfl⟩ <;> rfl

theorem dtot_producible_plain (o : OptSpec) (v : Val) (hp : producible o v)
    (hf : plainVal o.flagVal = true) (hd : plainVal o.defaultVal = true) : plainVal v = true := by
  unfold producible at hp
  cases har : o.arity with
  | zero => rw [har] at hp; dsimp only at hp; rw [hp]; exact hf
  | one => rw [har] at hp; dsimp only at hp; obtain ⟨t, ht⟩ := hp; exact dtot_convertOne_plainVal o t v ht
  | opt =>
    rw [har] at hp; dsimp only at hp
    rcases hp with rfl | ⟨t, ht⟩
    · exact hd
    · exact dtot_convertOne_plainVal o t v ht
  | plus => rw [har] at hp; dsimp only at hp; obtain ⟨k, toks, h⟩ := hp; subst h; rfl
  | star => rw [har] at hp; dsimp only at hp; obtain ⟨l, h⟩ := hp; subst h; rfl
  | other => rw [har] at hp; exact hp.elim

theorem dtot_plain_isNone (v : Val) (h : plainVal v = true) : ∃ b, isNoneV v = some b := by
  cases v <;> simp [plainVal] at h <;> exact ⟨_, rfl⟩

theorem dtot_plain_lookup (s : CliSpec) (b : Ns) (hb : dtot_sound s.opts b) (d : String) (v : Val)
    (h : (optsFor s d).all (fun o => plainVal o.flagVal && plainVal o.defaultVal) = true)
    (hv : (namespaceOf s b).lookup d = some v) : plainVal v = true := by
  obtain ⟨o, ho, hor⟩ := dtot_ns_lookup s b hb d v hv
  have h3 := List.all_eq_true.1 h o ho
  simp only [Bool.and_eq_true] at h3
  rcases hor with hp | hdv
  · exact dtot_producible_plain o v hp h3.1 h3.2
  · rw [hdv]; exact h3.2

theorem dtot_valueTotal (s : CliSpec) (hm : mainOpts s = s.opts) (b : Ns) (hb : dtot_sound s.opts b) (e : Expr)
    (h : valueTotal s e = true) :
    ∃ v, evalE (namespaceOf s b) e = some v ∧ plainVal v = true := by
  induction e with
  | arg d =>
    simp only [valueTotal, plainDest, Bool.and_eq_true] at h
    obtain ⟨v, hv⟩ := dtot_ns_some s hm b d (by simpa using h.1)
    exact ⟨v, by simp only [evalE]; exact hv, dtot_plain_lookup s b hb d v h.2 hv⟩
  | getattr d e ih =>
    simp only [valueTotal, Bool.and_eq_true] at h
    simp only [evalE]
    cases hl : (namespaceOf s b).lookup d with
    | some v => exact ⟨v, rfl, dtot_plain_lookup s b hb d v h.1 hl⟩
    | none => exact ih h.2
  | none => exact ⟨_, rfl, rfl⟩
  | bool _ => exact ⟨_, rfl, rfl⟩
  | int _ => exact ⟨_, rfl, rfl⟩
  | str _ => exact ⟨_, rfl, rfl⟩
  | _ => simp [valueTotal] at h

theorem dtot_guardTotal (s : CliSpec) (hm : mainOpts s = s.opts) (b : Ns) (hb : dtot_sound s.opts b) (g : Expr)
    (h : guardTotal s g = true) :
    ∃ v, evalE (namespaceOf s b) g = some v ∧ ∃ t, truthy v = some t := by
  induction g with
  | bool c => exact ⟨_, rfl, _, rfl⟩
  | arg d =>
    simp only [guardTotal] at h
    simpa only [evalE] using dtot_pureFlag s hm b hb d h
  | hasattr d => exact ⟨_, rfl, _, rfl⟩
  | not e ih =>
    simp only [guardTotal] at h
    obtain ⟨v, hv, t, ht⟩ := ih h
    exact ⟨.bool (!t), by simp [evalE, hv, ht], _, rfl⟩
  | and x y ihx ihy =>
    simp only [guardTotal, Bool.and_eq_true] at h
    obtain ⟨vx, hvx, tx, htx⟩ := ihx h.1
    cases tx with
    | false => exact ⟨vx, by simp [evalE, hvx, htx], _, htx⟩
    | true =>
      obtain ⟨vy, hvy, ty, hty⟩ := ihy h.2
      exact ⟨vy, by simp [evalE, hvx, htx, hvy], _, hty⟩
  | or x y ihx ihy =>
    simp only [guardTotal, Bool.and_eq_true] at h
    obtain ⟨vx, hvx, tx, htx⟩ := ihx h.1
    cases tx with
    | true => exact ⟨vx, by simp [evalE, hvx, htx], _, htx⟩
    | false =>
      obtain ⟨vy, hvy, ty, hty⟩ := ihy h.2
      exact ⟨vy, by simp [evalE, hvx, htx, hvy], _, hty⟩
  | isNone e _ =>
    simp only [guardTotal] at h
    obtain ⟨v, hv, hp⟩ := dtot_valueTotal s hm b hb e h
    obtain ⟨c, hc⟩ := dtot_plain_isNone v hp
    exact ⟨.bool c, by simp [evalE, hv, hc], _, rfl⟩
  | isNotNone e _ =>
    simp only [guardTotal] at h
    obtain ⟨v, hv, hp⟩ := dtot_valueTotal s hm b hb e h
    obtain ⟨c, hc⟩ := dtot_plain_isNone v hp
    exact ⟨.bool (!c), by simp [evalE, hv, hc], _, rfl⟩
  | _ => simp [guardTotal] at h

theorem dtot_evalGuard (s : CliSpec) (hm : mainOpts s = s.opts) (b : Ns) (hb : dtot_sound s.opts b) (g : Expr)
    (h : guardTotal s g = true) : ∃ t, evalGuard (namespaceOf s b) g = some t := by
  obtain ⟨v, hv, t, ht⟩ := dtot_guardTotal s hm b hb g h
  exact ⟨t, by simp [evalGuard, hv, ht]⟩

theorem dtot_evalGuard_not (ns : Ns) (g : Expr) (t : Bool) (h : evalGuard ns g = some t) :
    evalGuard ns (.not g) = some (!t) := by
  unfold evalGuard at h ⊢
  simp only [evalE, h]
  rfl


theorem dtot_argTotal (s : CliSpec) (hm : mainOpts s = s.opts) (b : Ns) (hb : dtot_sound s.opts b) (e : Expr)
    (h : argTotal s e = true) :
    (∃ v, evalE (namespaceOf s b) e = some v) ∧ ∀ e', e ≠ .star e' := by
  induction e with
  | arg d =>
    simp only [argTotal] at h
    refine ⟨?_, fun e' he => by cases he⟩
    simpa only [evalE] using dtot_ns_some s hm b d (by simpa using h)
  | name _ => exact ⟨⟨_, rfl⟩, fun e' he => by cases he⟩
  | none => exact ⟨⟨_, rfl⟩, fun e' he => by cases he⟩
  | bool _ => exact ⟨⟨_, rfl⟩, fun e' he => by cases he⟩
  | int _ => exact ⟨⟨_, rfl⟩, fun e' he => by cases he⟩
  | str _ => exact ⟨⟨_, rfl⟩, fun e' he => by cases he⟩
  | «opaque» _ _ => exact ⟨⟨_, rfl⟩, fun e' he => by cases he⟩
  | not e _ =>
    refine ⟨?_, fun e' he => by cases he⟩
    cases e with
    | arg d =>
      simp only [argTotal] at h
      obtain ⟨v, hv, t, ht⟩ := dtot_pureFlag s hm b hb d h
      exact ⟨.bool (!t), by simp [evalE, hv, ht]⟩
    | _ => simp [argTotal] at h
  | ite c x y _ ihx ihy =>
    refine ⟨?_, fun e' he => by cases he⟩
    cases c with
    | arg d =>
      simp only [argTotal, Bool.and_eq_true] at h
      obtain ⟨v, hv, t, ht⟩ := dtot_pureFlag s hm b hb d h.1.1
      cases t with
      | true =>
        obtain ⟨w, hw⟩ := (ihx h.1.2).1
        exact ⟨w, by simp [evalE, hv, ht, hw]⟩
      | false =>
        obtain ⟨w, hw⟩ := (ihy h.2).1
        exact ⟨w, by simp [evalE, hv, ht, hw]⟩
    | _ => simp [argTotal] at h
  | _ => simp [argTotal] at h

theorem dtot_evalPos (s : CliSpec) (hm : mainOpts s = s.opts) (b : Ns) (hb : dtot_sound s.opts b) (es : List Expr)
    (h : es.all (argTotal s) = true) : ∃ vs, evalPos (namespaceOf s b) es = some vs := by
  induction es with
  | nil => exact ⟨_, rfl⟩
  | cons e rest ih =>
    simp only [List.all_cons, Bool.and_eq_true] at h
    obtain ⟨vs, hvs⟩ := ih h.2
    obtain ⟨⟨v, hv⟩, hns⟩ := dtot_argTotal s hm b hb e h.1
    unfold evalPos
    rw [hv, hvs]
    dsimp only
    split
    · exact ⟨_, rfl⟩
    · exact absurd rfl (hns _)
    · exact ⟨_, rfl⟩

theorem dtot_evalKw (s : CliSpec) (hm : mainOpts s = s.opts) (b : Ns) (hb : dtot_sound s.opts b) (kw : List (String × Expr))
    (h : kw.all (fun p => argTotal s p.2) = true) : ∃ vs, evalKw (namespaceOf s b) kw = some vs := by
  induction kw with
  | nil => exact ⟨_, rfl⟩
  | cons p rest ih =>
    obtain ⟨k, e⟩ := p
    simp only [List.all_cons, Bool.and_eq_true] at h
    obtain ⟨vs, hvs⟩ := ih h.2
    obtain ⟨⟨v, hv⟩, _⟩ := dtot_argTotal s hm b hb e h.1
    unfold evalKw
    rw [hv, hvs]
    exact ⟨_, rfl⟩

theorem dtot_select (ns : Ns) (ts : List CallTemplate)
    (hg : ∀ t ∈ ts, ∃ c, evalGuard ns t.guard = some c) (hp : pathsExhaustive ts = true) :
    ∃ t ∈ ts, selectTemplate ns ts = .ok t := by
  match ts, hg, hp with
  | [], _, hp => simp [pathsExhaustive] at hp
  | [t], _, hp =>
    simp only [pathsExhaustive, beq_iff_eq] at hp
    refine ⟨t, List.mem_cons_self .., ?_⟩
    unfold selectTemplate
    rw [hp]
    rfl
  | [t1, t2], hg, hp =>
    simp only [pathsExhaustive, beq_iff_eq] at hp
    obtain ⟨c, hc⟩ := hg t1 (List.mem_cons_self ..)
    cases c with
    | true =>
      refine ⟨t1, List.mem_cons_self .., ?_⟩
      unfold selectTemplate
      rw [hc]
    | false =>
      refine ⟨t2, List.mem_cons_of_mem _ (List.mem_cons_self ..), ?_⟩
      have h2 : evalGuard ns t2.guard = some true := by
        rw [hp]; exact dtot_evalGuard_not ns _ _ hc
      unfold selectTemplate
      rw [hc]
      dsimp only
      unfold selectTemplate
      rw [h2]
  | _ :: _ :: _ :: _, _, hp => simp [pathsExhaustive] at hp

theorem dtot_instantiate (ns : Ns) (t : CallTemplate)
    (hr : (t.raises == "" || shielded t.raises) = true) (hok : templateOK t = true)
    (hpos : ∃ vs, evalPos ns t.pos = some vs) (hkw : ∃ vs, evalKw ns t.kw = some vs) :
    (t.raises = "" ∧ ∃ c, instantiate ns t = .ok c) ∨
    (t.raises ≠ "" ∧ instantiate ns t = .error .cliError) := by
  unfold instantiate
  by_cases hrz : t.raises = ""
  · left
    refine ⟨hrz, ?_⟩
    have hfn : t.fn ≠ "" := by
      unfold templateOK at hok
      simp only [Bool.and_eq_true, Bool.or_eq_true] at hok
      rcases hok.2 with h | h
      · simp [hrz] at h
      · simpa using h
    obtain ⟨p, hp⟩ := hpos
    obtain ⟨k, hk⟩ := hkw
    simp [hrz, hfn, hp, hk]
  · right
    refine ⟨hrz, ?_⟩
    have hs : shielded t.raises = true := by
      simp only [Bool.or_eq_true] at hr
      rcases hr with h | h
      · exact absurd (by simpa using h) hrz
      · exact h
    simp [hrz, hs]

theorem dtot_supported (s : CliSpec) (h : s.standard = true) : (!s.supported) = false := by
  simp [CliSpec.supported, h]

theorem dtot_dispatch_err (s : CliSpec) (hstd : s.standard = true) (argv : List String) (e : CliErr)
    (h : parseArgs s argv = .error e) : dispatchSpec s argv = .error e := by
  unfold dispatchSpec dispatchTemplate
  rw [dtot_supported s hstd, h]
  rfl

theorem dtot_dispatch_ok (s : CliSpec) (ht : totalClass s = true) (argv : List String) (b : Ns)
    (h : parseArgs s argv = .ok b) :
    (∃ c, dispatchSpec s argv = .ok c) ∨
    (dispatchSpec s argv = .error .cliError ∧ ∃ t ∈ s.templates, t.raises ≠ "") := by
  unfold totalClass at ht
  simp only [Bool.and_eq_true] at ht
  obtain ⟨⟨hstd, hall⟩, hpe⟩ := ht
  have hb : dtot_sound s.opts b := parseArgs_bindings_sound s hstd argv b h
  have hm := dtot_std_main s hstd
  have hall' := List.all_eq_true.1 hall
  have hok : ∀ t ∈ s.templates, templateOK t = true := by
    have := hstd
    unfold CliSpec.standard at this
    simp only [Bool.and_eq_true] at this
    exact List.all_eq_true.1 this.2
  obtain ⟨t, htm, hsel⟩ := dtot_select (namespaceOf s b) s.templates (fun t htm => by
    have := hall' t htm
    simp only [Bool.and_eq_true] at this
    exact dtot_evalGuard s hm b hb t.guard this.1.1.1) hpe
  have ht4 := hall' t htm
  simp only [Bool.and_eq_true] at ht4
  obtain ⟨⟨⟨_, hr⟩, hpos⟩, hkw⟩ := ht4
  have hd : dispatchSpec s argv = instantiate (namespaceOf s b) t := by
    unfold dispatchSpec dispatchTemplate
    rw [dtot_supported s hstd, h]
    dsimp only
    rw [hsel]
    rfl
  rw [hd]
  rcases dtot_instantiate (namespaceOf s b) t hr (hok t htm) (dtot_evalPos s hm b hb t.pos hpos)
    (dtot_evalKw s hm b hb t.kw hkw) with ⟨_, hc⟩ | ⟨hne, he⟩
  · exact Or.inl hc
  · exact Or.inr ⟨he, t, htm, hne⟩

theorem dtot_totalClass_std (s : CliSpec) (ht : totalClass s = true) : s.standard = true := by
  unfold totalClass at ht
  simp only [Bool.and_eq_true] at ht
  exact ht.1.1

/-- (c) totality: for the sub-commands of `totalClass`, on every command line of the fragment `dispatch`
returns a library call or a CLIError — never `unsupported`, never a crash -/
theorem dispatchSpec_total (s : CliSpec) (ht : totalClass s = true) (argv : List String)
    (hf : inFragment s argv = true) :
    (∃ c, dispatchSpec s argv = .ok c) ∨ dispatchSpec s argv = .error .cliError := by
  have hstd := dtot_totalClass_std s ht
  rcases parseArgs_total s hstd argv hf with ⟨b, hb⟩ | he
  · rcases dtot_dispatch_ok s ht argv b hb with h | h
    · exact Or.inl h
    · exact Or.inr h.1
  · exact Or.inr (dtot_dispatch_err s hstd argv _ he)

/-- and when no path of the helper raises, the CLIError can only come from the parser: a token refused by
its validator, or a wrong arity -/
theorem dispatchSpec_error_iff_parse_error (s : CliSpec) (ht : totalClass s = true)
    (hnr : s.templates.all (fun t => t.raises == "") = true) (argv : List String)
    (hf : inFragment s argv = true) :
    dispatchSpec s argv = .error .cliError ↔ parseArgs s argv = .error .cliError := by
  have _ := hf
  have hstd := dtot_totalClass_std s ht
  cases hp : parseArgs s argv with
  | error e =>
    rw [dtot_dispatch_err s hstd argv e hp]
    constructor <;> intro h <;> cases h <;> rfl
  | ok b =>
    rcases dtot_dispatch_ok s ht argv b hp with ⟨c, hc⟩ | ⟨_, t, htm, hne⟩
    · rw [hc]
      constructor <;> intro h <;> cases h
    · have := List.all_eq_true.1 hnr t htm
      exact absurd (by simpa using this) hne

/-! ### part 3: totality beyond `totalClass` -/

/-- the action of `o` binds the dest of `o` -/
def dtot_bindsDest (o : OptSpec) : Prop := ∀ toks b, bindOne o toks = .ok b → ∃ v, (o.dest, v) ∈ b

theorem dtot_bindOne_dest (o : OptSpec) (hact : o.action ≠ "PHPArgs") : dtot_bindsDest o := by
  intro toks b h
  unfold bindOne at h
  have : (o.action == "PHPArgs") = false := by simpa using hact
  simp only [this, Bool.false_eq_true, if_false] at h
  split at h
  · simp at h; subst h; exact ⟨_, List.mem_cons_self ..⟩
  · cases har : o.arity <;> rw [har] at h <;> dsimp only at h
    all_goals (repeat' split at h)
    all_goals first
      | (simp at h; done)
      | (simp at h; subst h; exact ⟨_, List.mem_cons_self ..⟩)

theorem dtot_applyPos_bound (ps : List OptSpec) (hB : ∀ o ∈ ps, dtot_bindsDest o) :
    ∀ (cs : List Nat) (toks : List String) (b : Ns), applyPos ps cs toks = .ok b →
    ∀ o ∈ ps.take cs.length, ∃ v, (o.dest, v) ∈ b := by
  induction ps with
  | nil => intro cs toks b _ o ho; simp at ho
  | cons o1 os ih =>
    intro cs toks b h o ho
    cases cs with
    | nil => simp at ho
    | cons c cs =>
      unfold applyPos at h
      split at h
      · simp at h
      · rename_i b0 hb0
        split at h
        · simp at h
        · rename_i more hmore
          simp at h
          subst h
          simp only [List.length_cons, List.take_succ_cons] at ho
          rcases List.mem_cons.1 ho with rfl | ho
          · obtain ⟨v, hv⟩ := hB o (List.mem_cons_self ..) _ b0 hb0
            exact ⟨v, List.mem_append_right _ hv⟩
          · obtain ⟨v, hv⟩ := ih (fun o' ho' => hB o' (List.mem_cons_of_mem _ ho')) cs _ more hmore o ho
            exact ⟨v, List.mem_append_left _ hv⟩

theorem dtot_consumePos_bound (ps : List OptSpec) (hB : ∀ o ∈ ps, dtot_bindsDest o) (chunk : List String)
    (final : Bool) (ps' : List OptSpec) (b : Ns) (h : consumePos ps chunk final = .ok (ps', b)) :
    (∀ o ∈ ps', o ∈ ps) ∧ ∀ o ∈ ps, o ∈ ps' ∨ ∃ v, (o.dest, v) ∈ b := by
  unfold consumePos at h
  split at h
  · simp at h
    obtain ⟨rfl, rfl⟩ := h
    exact ⟨fun o ho => ho, fun o ho => Or.inl ho⟩
  · dsimp only at h
    split at h
    · simp at h
    · split at h
      · simp at h
      · rename_i b0 hb0
        simp at h
        obtain ⟨rfl, rfl⟩ := h
        refine ⟨fun o ho => List.mem_of_mem_drop ho, fun o ho => ?_⟩
        rw [← List.take_append_drop (matchPartial (ps.map OptSpec.arity) chunk.length ps.length).length ps] at ho
        rcases List.mem_append.1 ho with ho | ho
        · exact Or.inr (dtot_applyPos_bound ps hB _ _ _ hb0 o ho)
        · exact Or.inl ho

theorem dtot_parseSegs_bound : ∀ (segs : List (OptSpec × List String)) (ps : List OptSpec) (b : Ns),
    (∀ o ∈ ps, dtot_bindsDest o) → parseSegs ps segs = .ok b → ∀ o ∈ ps, ∃ v, (o.dest, v) ∈ b := by
  intro segs
  induction segs with
  | nil =>
    intro ps b _ h o ho
    unfold parseSegs at h
    split at h
    · rename_i he
      simp at he
      subst he
      cases ho
    · simp at h
  | cons sg rest ih =>
    intro ps b hB h o ho
    obtain ⟨o1, chunk⟩ := sg
    unfold parseSegs at h
    split at h
    · simp at h
    · rename_i b1 chunk' _
      split at h
      · simp at h
      · rename_i ps' bs hcp
        split at h
        · simp at h
        · rename_i more hmore
          simp at h
          subst h
          obtain ⟨hsub, hor⟩ := dtot_consumePos_bound ps hB chunk' _ ps' bs hcp
          rcases hor o ho with ho' | ⟨v, hv⟩
          · obtain ⟨v, hv⟩ := ih ps' more (fun o' ho' => hB o' (hsub o' ho')) hmore o ho'
            exact ⟨v, List.mem_append_left _ hv⟩
          · exact ⟨v, List.mem_append_right _ (List.mem_append_left _ hv)⟩

/-- when the parser of the sub-command accepts the command line, every positional of the sub-command is bound -/
theorem dtot_parseRaw_bound (s : CliSpec) (hB : ∀ o ∈ positionals s, dtot_bindsDest o) (argv : List String)
    (b : Ns) (h : parseRaw s argv = .ok b) : ∀ o ∈ positionals s, ∃ v, (o.dest, v) ∈ b := by
  intro o ho
  unfold parseRaw at h
  split at h
  · simp at h
  · rename_i chunk0 segs _
    split at h
    · simp at h
    · split at h
      · simp at h
      · rename_i ps b0 hcp
        split at h
        · simp at h
        · rename_i more hmore
          dsimp only at h
          split at h
          · simp at h
            subst h
            obtain ⟨hsub, hor⟩ := dtot_consumePos_bound (positionals s) hB chunk0 _ ps b0 hcp
            rcases hor o ho with ho' | ⟨v, hv⟩
            · obtain ⟨v, hv⟩ := dtot_parseSegs_bound segs ps more (fun o' ho' => hB o' (hsub o' ho')) hmore o ho'
              exact ⟨v, List.mem_append_left _ hv⟩
            · exact ⟨v, List.mem_append_right _ hv⟩
          · simp at h

/-- a standard sub-command binds every one of its positionals whenever it accepts the command line -/
theorem dtot_positionals_bound (s : CliSpec) (hstd : s.standard = true) (argv : List String) (b : Ns)
    (h : parseArgs s argv = .ok b) : ∀ o ∈ positionals s, ∃ v, (o.dest, v) ∈ b := by
  rw [dtot_parseArgs_raw s hstd argv] at h
  refine dtot_parseRaw_bound s (fun o ho => ?_) argv b h
  have ho' := dtot_positionals_main s o ho
  rw [dtot_std_main s hstd] at ho'
  exact dtot_bindOne_dest o (dtot_std o (dtot_std_opts s hstd o ho')).2.1

/-- the value the namespace gives to the dest of a positional comes from the command line (not from a
default), and is typed by an option with that dest -/
theorem dtot_bound_lookup (s : CliSpec) (hstd : s.standard = true) (argv : List String) (b : Ns)
    (h : parseArgs s argv = .ok b) (d : String) (o : OptSpec) (ho : o ∈ optsFor s d)
    (hpos : o.positional = true) :
    ∃ v o', (namespaceOf s b).lookup d = some v ∧ o' ∈ optsFor s d ∧ producible o' v := by
  unfold optsFor at ho
  obtain ⟨ho1, ho2⟩ := List.mem_filter.1 ho
  have hd : o.dest = d := by simpa using ho2
  have hp : o ∈ positionals s := by
    unfold positionals
    rw [dtot_std_main s hstd]
    exact List.mem_filter.2 ⟨ho1, hpos⟩
  obtain ⟨v0, hv0⟩ := dtot_positionals_bound s hstd argv b h o hp
  rw [hd] at hv0
  obtain ⟨v, hv⟩ := dtot_lookup_some b d v0 hv0
  obtain ⟨o', ho', hd', hp'⟩ := parseArgs_bindings_sound s hstd argv b h _ (dtot_lookup_mem b d v hv)
  refine ⟨v, o', ?_, dtot_mem_optsFor s d o' ho' hd', hp'⟩
  unfold namespaceOf
  rw [List.lookup_append, hv]
  rfl

theorem dtot_convertOne_int (o : OptSpec) (t : String) (v : Val) (hty : o.ty ≠ "")
    (h : convertOne o t = some v) : ∃ i, v = .int i := by
  unfold convertOne at h
  have : (o.ty == "") = false := by simpa using hty
  simp only [this, Bool.false_eq_true, if_false] at h
  simp at h
  obtain ⟨i, _, hi⟩ := h
  exact ⟨i, hi.symm⟩

/-! #### typed dests -/

/-- `d` is set by positionals taking one integer token: always bound, to an integer -/
def dtot_intBound (s : CliSpec) (d : String) : Bool :=
  !(optsFor s d).isEmpty && (optsFor s d).all (fun o => o.arity == .one && o.ty != "" && o.positional)

/-- `d` is set by options taking one integer token, whose default is `None` or an integer -/
def dtot_intOrNone (s : CliSpec) (d : String) : Bool :=
  !(optsFor s d).isEmpty && (optsFor s d).all (fun o => o.arity == .one && o.ty != "" &&
    (match o.defaultVal with | .none => true | .int _ => true | _ => false))

/-- `d` is set by star positionals (typed `nargs='*'`): always bound, to a list of integers -/
def dtot_starDest (s : CliSpec) (d : String) : Bool :=
  !(optsFor s d).isEmpty && (optsFor s d).all (fun o => o.arity == .star)

theorem dtot_optsFor_head (s : CliSpec) (d : String) (h : (!(optsFor s d).isEmpty) = true) :
    ∃ o, o ∈ optsFor s d := by
  cases ho : optsFor s d with
  | nil => rw [ho] at h; simp at h
  | cons o rest => exact ⟨o, List.mem_cons_self ..⟩

theorem dtot_intBound_val (s : CliSpec) (hstd : s.standard = true) (argv : List String) (b : Ns)
    (h : parseArgs s argv = .ok b) (d : String) (hd : dtot_intBound s d = true) :
    ∃ i, (namespaceOf s b).lookup d = some (.int i) := by
  unfold dtot_intBound at hd
  simp only [Bool.and_eq_true] at hd
  obtain ⟨o, ho⟩ := dtot_optsFor_head s d hd.1
  have hall := List.all_eq_true.1 hd.2
  have h1 := hall o ho
  simp only [Bool.and_eq_true] at h1
  obtain ⟨v, o', hv, ho', hp⟩ := dtot_bound_lookup s hstd argv b h d o ho h1.2
  have h2 := hall o' ho'
  simp only [Bool.and_eq_true] at h2
  obtain ⟨⟨har, hty⟩, _⟩ := h2
  have har' : o'.arity = .one := by simpa using har
  unfold producible at hp
  rw [har'] at hp
  obtain ⟨t, ht⟩ := hp
  obtain ⟨i, rfl⟩ := dtot_convertOne_int o' t v (by simpa using hty) ht
  exact ⟨i, hv⟩

theorem dtot_starDest_val (s : CliSpec) (hstd : s.standard = true) (argv : List String) (b : Ns)
    (h : parseArgs s argv = .ok b) (d : String) (hd : dtot_starDest s d = true) :
    ∃ l, (namespaceOf s b).lookup d = some (.ints l) := by
  unfold dtot_starDest at hd
  simp only [Bool.and_eq_true] at hd
  obtain ⟨o, ho⟩ := dtot_optsFor_head s d hd.1
  have hall := List.all_eq_true.1 hd.2
  have h1 : o.arity = .star := by simpa using hall o ho
  obtain ⟨v, o', hv, ho', hp⟩ := dtot_bound_lookup s hstd argv b h d o ho (dtot_arity_star o h1)
  have h2 : o'.arity = .star := by simpa using hall o' ho'
  unfold producible at hp
  rw [h2] at hp
  obtain ⟨l, rfl⟩ := hp
  exact ⟨l, hv⟩

theorem dtot_intOrNone_val (s : CliSpec) (hstd : s.standard = true) (argv : List String) (b : Ns)
    (h : parseArgs s argv = .ok b) (d : String) (hd : dtot_intOrNone s d = true) :
    ∃ v, (namespaceOf s b).lookup d = some v ∧ (v = .none ∨ ∃ i, v = .int i) := by
  unfold dtot_intOrNone at hd
  simp only [Bool.and_eq_true] at hd
  obtain ⟨v, hv⟩ := dtot_ns_some s (dtot_std_main s hstd) b d (by simpa using hd.1)
  refine ⟨v, hv, ?_⟩
  obtain ⟨o, ho, hor⟩ := dtot_ns_lookup s b (parseArgs_bindings_sound s hstd argv b h) d v hv
  have h1 := List.all_eq_true.1 hd.2 o ho
  simp only [Bool.and_eq_true] at h1
  obtain ⟨⟨har, hty⟩, hdf⟩ := h1
  rcases hor with hp | rfl
  · have har' : o.arity = .one := by simpa using har
    unfold producible at hp
    rw [har'] at hp
    obtain ⟨t, ht⟩ := hp
    exact Or.inr (dtot_convertOne_int o t v (by simpa using hty) ht)
  · cases hdv : o.defaultVal <;> rw [hdv] at hdf <;> simp at hdf
    · exact Or.inl rfl
    · exact Or.inr ⟨_, rfl⟩

/-! #### guards that compare integer options, tested only after `is not None` -/

def dtot_cmpOps : List String := ["==", "!=", "<", "<=", ">", ">="]

/-- the options that are not `None` when the guard holds -/
def dtot_facts : Expr → List String
  | .isNotNone (.arg d) => [d]
  | .and a b => dtot_facts a ++ dtot_facts b
  | _ => []

/-- the value of `d` is an integer, given that the options `known` are not `None` -/
def dtot_intIn (s : CliSpec) (known : List String) (d : String) : Bool :=
  dtot_intBound s d || (dtot_intOrNone s d && known.contains d)

/-- `guardTotal`, plus comparisons between integer options; the right operand of `and` is evaluated only when
the left one holds, so it may use the options the left one has tested against `None` -/
def dtot_guardTotalX (s : CliSpec) : Expr → List String → Bool
  | .cmp op (.arg a) (.arg b), known =>
    dtot_cmpOps.contains op && dtot_intIn s known a && dtot_intIn s known b
  | .and x y, known => dtot_guardTotalX s x known && dtot_guardTotalX s y (dtot_facts x ++ known)
  | .not e, known => dtot_guardTotalX s e known
  | e, _ => guardTotal s e

/-- the options `known` are not `None` in the namespace -/
def dtot_knows (ns : Ns) (known : List String) : Prop := ∀ d ∈ known, ∀ v, ns.lookup d = some v → v ≠ .none

theorem dtot_evalGuard_and (ns : Ns) (a c : Expr) :
    evalGuard ns (.and a c) =
      (match evalGuard ns a with
       | none => none
       | some false => some false
       | some true => evalGuard ns c) := by
  unfold evalGuard
  simp only [evalE]
  cases ha : evalE ns a with
  | none => rfl
  | some va =>
    cases ht : truthy va with
    | none => simp [ht]
    | some t => cases t <;> simp [ht]

theorem dtot_evalCmp_int (op : String) (x y : Int) (h : dtot_cmpOps.contains op = true) :
    ∃ c, evalCmp op (.int x) (.int y) = some c := by
  simp [dtot_cmpOps] at h
  rcases h with rfl | rfl | rfl | rfl | rfl | rfl <;> simp [evalCmp, valEq]
  exact Decidable.em _

theorem dtot_intIn_val (s : CliSpec) (hstd : s.standard = true) (argv : List String) (b : Ns)
    (h : parseArgs s argv = .ok b) (known : List String) (hk : dtot_knows (namespaceOf s b) known)
    (d : String) (hd : dtot_intIn s known d = true) :
    ∃ i, (namespaceOf s b).lookup d = some (.int i) := by
  unfold dtot_intIn at hd
  simp only [Bool.or_eq_true, Bool.and_eq_true] at hd
  rcases hd with hd | ⟨hd, hkn⟩
  · exact dtot_intBound_val s hstd argv b h d hd
  · obtain ⟨v, hv, hor⟩ := dtot_intOrNone_val s hstd argv b h d hd
    rcases hor with rfl | ⟨i, rfl⟩
    · exact absurd rfl (hk d (by simpa using hkn) _ hv)
    · exact ⟨i, hv⟩

theorem dtot_guardTotalX_eval (s : CliSpec) (hstd : s.standard = true) (argv : List String) (b : Ns)
    (h : parseArgs s argv = .ok b) (g : Expr) :
    ∀ known, dtot_guardTotalX s g known = true → dtot_knows (namespaceOf s b) known →
    ∃ t, evalGuard (namespaceOf s b) g = some t ∧ (t = true → dtot_knows (namespaceOf s b) (dtot_facts g)) := by
  have hm := dtot_std_main s hstd
  have hb : dtot_sound s.opts b := parseArgs_bindings_sound s hstd argv b h
  have fallback : ∀ e, dtot_facts e = [] → guardTotal s e = true →
      ∃ t, evalGuard (namespaceOf s b) e = some t ∧ (t = true → dtot_knows (namespaceOf s b) (dtot_facts e)) := by
    intro e hfe hg
    obtain ⟨t, ht⟩ := dtot_evalGuard s hm b hb e hg
    exact ⟨t, ht, fun _ d hd => by rw [hfe] at hd; cases hd⟩
  induction g with
  | cmp op x y _ _ =>
    intro known hg hk
    cases x with
    | arg a =>
      cases y with
      | arg c =>
        simp only [dtot_guardTotalX, Bool.and_eq_true] at hg
        obtain ⟨i, hi⟩ := dtot_intIn_val s hstd argv b h known hk a hg.1.2
        obtain ⟨j, hj⟩ := dtot_intIn_val s hstd argv b h known hk c hg.2
        obtain ⟨r, hr⟩ := dtot_evalCmp_int op i j hg.1.1
        refine ⟨r, ?_, fun _ d hd => by simp [dtot_facts] at hd⟩
        simp [evalGuard, evalE, hi, hj, hr, truthy]
      | _ => simp [dtot_guardTotalX, guardTotal] at hg
    | _ => simp [dtot_guardTotalX, guardTotal] at hg
  | and x y ihx ihy =>
    intro known hg hk
    simp only [dtot_guardTotalX, Bool.and_eq_true] at hg
    obtain ⟨tx, htx, hfx⟩ := ihx known hg.1 hk
    rw [dtot_evalGuard_and, htx]
    cases tx with
    | false => exact ⟨false, rfl, fun hc => by cases hc⟩
    | true =>
      have hk' : dtot_knows (namespaceOf s b) (dtot_facts x ++ known) := by
        intro d hd
        rcases List.mem_append.1 hd with hd | hd
        · exact hfx rfl d hd
        · exact hk d hd
      obtain ⟨ty, hty, hfy⟩ := ihy _ hg.2 hk'
      refine ⟨ty, hty, fun hc d hd => ?_⟩
      simp only [dtot_facts] at hd
      rcases List.mem_append.1 hd with hd | hd
      · exact hfx rfl d hd
      · exact hfy hc d hd
  | not e ih =>
    intro known hg hk
    simp only [dtot_guardTotalX] at hg
    obtain ⟨t, ht, _⟩ := ih known hg hk
    exact ⟨!t, dtot_evalGuard_not _ e t ht, fun _ d hd => by simp [dtot_facts] at hd⟩
  | isNotNone e _ =>
    intro known hg hk
    cases e with
    | arg d =>
      have hg' : guardTotal s (.isNotNone (.arg d)) = true := by simpa [dtot_guardTotalX] using hg
      obtain ⟨t, ht⟩ := dtot_evalGuard s hm b hb _ hg'
      refine ⟨t, ht, fun hc d' hd' v hv hn => ?_⟩
      simp only [dtot_facts, List.mem_singleton] at hd'
      subst hd' hc hn
      simp [evalGuard, evalE, hv, isNoneV, truthy] at ht
    | _ => exact fallback _ (by simp [dtot_facts]) (by simpa [dtot_guardTotalX] using hg)
  | _ =>
    intro known hg hk
    exact fallback _ (by simp [dtot_facts]) (by simpa [dtot_guardTotalX] using hg)

/-! #### arguments with a splice, three-way paths, and the extended class -/

/-- `argTotal`, plus `*args.d` for a star positional `d` -/
def dtot_argTotalX (s : CliSpec) : Expr → Bool
  | .star (.arg d) => dtot_starDest s d
  | e => argTotal s e

/-- `pathsExhaustive`, plus: `if a: (if c: … else: …) else: …` -/
def dtot_pathsExhaustiveX : List CallTemplate → Bool
  | [t1, t2, t3] =>
    (match t1.guard with
     | .and a c => t2.guard == .and a (.not c) && t3.guard == .not a
     | _ => false)
  | ts => pathsExhaustive ts

/-- sub-commands with standard options for which `dispatchSpec` is proved total: `totalClass`, extended with
comparisons between integer options in the guards (`stone`), splices of star positionals in the calls (`vdw`),
and helpers with three paths (`stone`) -/
def totalClassExt (s : CliSpec) : Bool :=
  s.standard &&
  s.templates.all (fun t =>
    dtot_guardTotalX s t.guard [] && (t.raises == "" || shielded t.raises) &&
    t.pos.all (dtot_argTotalX s) && t.kw.all (fun p => dtot_argTotalX s p.2)) &&
  dtot_pathsExhaustiveX s.templates

theorem dtot_argTotalX_eval (s : CliSpec) (hstd : s.standard = true) (argv : List String) (b : Ns)
    (h : parseArgs s argv = .ok b) (e : Expr) (he : dtot_argTotalX s e = true) :
    ∃ v, evalE (namespaceOf s b) e = some v ∧ ∀ e', e = .star e' → ∃ l, v = .ints l := by
  have hm := dtot_std_main s hstd
  have hb : dtot_sound s.opts b := parseArgs_bindings_sound s hstd argv b h
  have fallback : ∀ e, argTotal s e = true →
      ∃ v, evalE (namespaceOf s b) e = some v ∧ ∀ e', e = .star e' → ∃ l, v = .ints l := by
    intro e he
    obtain ⟨⟨v, hv⟩, hns⟩ := dtot_argTotal s hm b hb e he
    exact ⟨v, hv, fun e' he' => absurd he' (hns e')⟩
  cases e with
  | star e' =>
    cases e' with
    | arg d =>
      simp only [dtot_argTotalX] at he
      obtain ⟨l, hl⟩ := dtot_starDest_val s hstd argv b h d he
      exact ⟨.ints l, by simp only [evalE]; exact hl, fun _ _ => ⟨l, rfl⟩⟩
    | _ => simp [dtot_argTotalX, argTotal] at he
  | _ => exact fallback _ (by simpa [dtot_argTotalX] using he)

theorem dtot_evalPosX (s : CliSpec) (hstd : s.standard = true) (argv : List String) (b : Ns)
    (h : parseArgs s argv = .ok b) (es : List Expr) (hes : es.all (dtot_argTotalX s) = true) :
    ∃ vs, evalPos (namespaceOf s b) es = some vs := by
  induction es with
  | nil => exact ⟨_, rfl⟩
  | cons e rest ih =>
    simp only [List.all_cons, Bool.and_eq_true] at hes
    obtain ⟨vs, hvs⟩ := ih hes.2
    obtain ⟨v, hv, hst⟩ := dtot_argTotalX_eval s hstd argv b h e hes.1
    unfold evalPos
    rw [hv, hvs]
    dsimp only
    split
    · exact ⟨_, rfl⟩
    · rename_i e' hne
      obtain ⟨l, hl⟩ := hst _ rfl
      exact absurd hl (hne l)
    · exact ⟨_, rfl⟩

theorem dtot_evalKwX (s : CliSpec) (hstd : s.standard = true) (argv : List String) (b : Ns)
    (h : parseArgs s argv = .ok b) (kw : List (String × Expr))
    (hkw : kw.all (fun p => dtot_argTotalX s p.2) = true) : ∃ vs, evalKw (namespaceOf s b) kw = some vs := by
  induction kw with
  | nil => exact ⟨_, rfl⟩
  | cons p rest ih =>
    obtain ⟨k, e⟩ := p
    simp only [List.all_cons, Bool.and_eq_true] at hkw
    obtain ⟨vs, hvs⟩ := ih hkw.2
    obtain ⟨v, hv, _⟩ := dtot_argTotalX_eval s hstd argv b h e hkw.1
    unfold evalKw
    rw [hv, hvs]
    exact ⟨_, rfl⟩

theorem dtot_selectX (ns : Ns) (ts : List CallTemplate)
    (hg : ∀ t ∈ ts, ∃ c, evalGuard ns t.guard = some c) (hp : dtot_pathsExhaustiveX ts = true) :
    ∃ t ∈ ts, selectTemplate ns ts = .ok t := by
  match ts, hg, hp with
  | [], hg, hp => exact dtot_select ns _ hg (by simpa [dtot_pathsExhaustiveX] using hp)
  | [_], hg, hp => exact dtot_select ns _ hg (by simpa [dtot_pathsExhaustiveX] using hp)
  | [_, _], hg, hp => exact dtot_select ns _ hg (by simpa [dtot_pathsExhaustiveX] using hp)
  | _ :: _ :: _ :: _ :: _, hg, hp => exact dtot_select ns _ hg (by simpa [dtot_pathsExhaustiveX] using hp)
  | [t1, t2, t3], hg, hp =>
    simp only [dtot_pathsExhaustiveX] at hp
    split at hp
    · rename_i a c hg1
      simp only [Bool.and_eq_true, beq_iff_eq] at hp
      obtain ⟨hg2, hg3⟩ := hp
      obtain ⟨c1, hc1⟩ := hg t1 (List.mem_cons_self ..)
      rw [hg1, dtot_evalGuard_and] at hc1
      cases ha : evalGuard ns a with
      | none => rw [ha] at hc1; simp at hc1
      | some ta =>
        rw [ha] at hc1
        cases ta with
        | false =>
          refine ⟨t3, by simp, ?_⟩
          have e1 : evalGuard ns t1.guard = some false := by rw [hg1, dtot_evalGuard_and, ha]
          have e2 : evalGuard ns t2.guard = some false := by rw [hg2, dtot_evalGuard_and, ha]
          have e3 : evalGuard ns t3.guard = some true := by rw [hg3]; exact dtot_evalGuard_not ns a false ha
          simp [selectTemplate, e1, e2, e3]
        | true =>
          dsimp only at hc1
          cases c1 with
          | true =>
            refine ⟨t1, by simp, ?_⟩
            have e1 : evalGuard ns t1.guard = some true := by rw [hg1, dtot_evalGuard_and, ha]; exact hc1
            simp [selectTemplate, e1]
          | false =>
            refine ⟨t2, by simp, ?_⟩
            have e1 : evalGuard ns t1.guard = some false := by rw [hg1, dtot_evalGuard_and, ha]; exact hc1
            have e2 : evalGuard ns t2.guard = some true := by
              rw [hg2, dtot_evalGuard_and, ha]; exact dtot_evalGuard_not ns c false hc1
            simp [selectTemplate, e1, e2]
    · simp at hp

theorem dtot_totalClassExt_std (s : CliSpec) (ht : totalClassExt s = true) : s.standard = true := by
  unfold totalClassExt at ht
  simp only [Bool.and_eq_true] at ht
  exact ht.1.1

theorem dtot_dispatch_okX (s : CliSpec) (ht : totalClassExt s = true) (argv : List String) (b : Ns)
    (h : parseArgs s argv = .ok b) :
    (∃ c, dispatchSpec s argv = .ok c) ∨
    (dispatchSpec s argv = .error .cliError ∧ ∃ t ∈ s.templates, t.raises ≠ "") := by
  unfold totalClassExt at ht
  simp only [Bool.and_eq_true] at ht
  obtain ⟨⟨hstd, hall⟩, hpe⟩ := ht
  have hall' := List.all_eq_true.1 hall
  have hok : ∀ t ∈ s.templates, templateOK t = true := by
    have := hstd
    unfold CliSpec.standard at this
    simp only [Bool.and_eq_true] at this
    exact List.all_eq_true.1 this.2
  obtain ⟨t, htm, hsel⟩ := dtot_selectX (namespaceOf s b) s.templates (fun t htm => by
    have := hall' t htm
    simp only [Bool.and_eq_true] at this
    obtain ⟨c, hc, _⟩ := dtot_guardTotalX_eval s hstd argv b h t.guard [] this.1.1.1
      (fun d hd => by cases hd)
    exact ⟨c, hc⟩) hpe
  have ht4 := hall' t htm
  simp only [Bool.and_eq_true] at ht4
  obtain ⟨⟨⟨_, hr⟩, hpos⟩, hkw⟩ := ht4
  have hd : dispatchSpec s argv = instantiate (namespaceOf s b) t := by
    unfold dispatchSpec dispatchTemplate
    rw [dtot_supported s hstd, h]
    dsimp only
    rw [hsel]
    rfl
  rw [hd]
  rcases dtot_instantiate (namespaceOf s b) t hr (hok t htm) (dtot_evalPosX s hstd argv b h t.pos hpos)
    (dtot_evalKwX s hstd argv b h t.kw hkw) with ⟨_, hc⟩ | ⟨hne, he⟩
  · exact Or.inl hc
  · exact Or.inr ⟨he, t, htm, hne⟩

/-- (c′) totality beyond `totalClass`: for the sub-commands of `totalClassExt` (`stone` and `vdw` included), on
every command line of the fragment `dispatch` returns a library call or a CLIError -/
theorem dispatchSpec_total_ext (s : CliSpec) (ht : totalClassExt s = true) (argv : List String)
    (hf : inFragment s argv = true) :
    (∃ c, dispatchSpec s argv = .ok c) ∨ dispatchSpec s argv = .error .cliError := by
  have hstd := dtot_totalClassExt_std s ht
  rcases parseArgs_total s hstd argv hf with ⟨b, hb⟩ | he
  · rcases dtot_dispatch_okX s ht argv b hb with h | h
    · exact Or.inl h
    · exact Or.inr h.1
  · exact Or.inr (dtot_dispatch_err s hstd argv _ he)

/-- … and when no path of the helper raises, the CLIError can only come from the parser -/
theorem dispatchSpec_error_iff_parse_error_ext (s : CliSpec) (ht : totalClassExt s = true)
    (hnr : s.templates.all (fun t => t.raises == "") = true) (argv : List String) :
    dispatchSpec s argv = .error .cliError ↔ parseArgs s argv = .error .cliError := by
  have hstd := dtot_totalClassExt_std s ht
  cases hp : parseArgs s argv with
  | error e =>
    rw [dtot_dispatch_err s hstd argv e hp]
    constructor <;> intro h <;> cases h <;> rfl
  | ok b =>
    rcases dtot_dispatch_okX s ht argv b hp with ⟨c, hc⟩ | ⟨_, t, htm, hne⟩
    · rw [hc]
      constructor <;> intro h <;> cases h
    · have := List.all_eq_true.1 hnr t htm
      exact absurd (by simpa using this) hne

/-! #### the extended class contains `totalClass` -/

theorem dtot_guardTotal_X (s : CliSpec) (g : Expr) (h : guardTotal s g = true) :
    ∀ known, dtot_guardTotalX s g known = true := by
  induction g with
  | and x y ihx ihy =>
    intro known
    simp only [guardTotal, Bool.and_eq_true] at h
    simp only [dtot_guardTotalX, Bool.and_eq_true]
    exact ⟨ihx h.1 _, ihy h.2 _⟩
  | not e ih =>
    intro known
    simp only [guardTotal] at h
    simp only [dtot_guardTotalX]
    exact ih h _
  | cmp op x y _ _ => simp [guardTotal] at h
  | _ => intro known; simpa [dtot_guardTotalX] using h

theorem dtot_argTotal_X (s : CliSpec) (e : Expr) (h : argTotal s e = true) : dtot_argTotalX s e = true := by
  cases e with
  | star e' => simp [argTotal] at h
  | _ => simpa [dtot_argTotalX] using h

theorem dtot_pathsExhaustive_X (ts : List CallTemplate) (h : pathsExhaustive ts = true) :
    dtot_pathsExhaustiveX ts = true := by
  match ts, h with
  | [], h => simpa [dtot_pathsExhaustiveX] using h
  | [_], h => simpa [dtot_pathsExhaustiveX] using h
  | [_, _], h => simpa [dtot_pathsExhaustiveX] using h
  | [_, _, _], h => simp [pathsExhaustive] at h
  | _ :: _ :: _ :: _ :: _, h => simp [pathsExhaustive] at h

/-- the extended class contains `totalClass` -/
theorem totalClass_totalClassExt (s : CliSpec) (ht : totalClass s = true) : totalClassExt s = true := by
  unfold totalClass at ht
  unfold totalClassExt
  simp only [Bool.and_eq_true, List.all_eq_true] at ht ⊢
  obtain ⟨⟨hstd, hall⟩, hpe⟩ := ht
  refine ⟨⟨hstd, fun t htm => ?_⟩, dtot_pathsExhaustive_X _ hpe⟩
  obtain ⟨⟨⟨h1, h2⟩, h3⟩, h4⟩ := hall t htm
  exact ⟨⟨⟨dtot_guardTotal_X s _ h1 _, h2⟩, fun e he => dtot_argTotal_X s e (h3 e he)⟩,
    fun p hp => dtot_argTotal_X s p.2 (h4 p hp)⟩

/-- every sub-command with standard options is in the extended class: `dispatchSpec` is total on all of them -/
theorem standard_commands_totalClassExt : (cliSpecs.filter (·.standard)).all totalClassExt = true := by
  decide +kernel

end Cnfgen.Cli
