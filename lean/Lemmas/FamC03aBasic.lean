/-
Helper lemmas shared by the C03 (ordering / pebbling share) proofs: literal semantics over
natural identifiers, membership in `range(1,n+1)`.
-/
import CnfgenModel.Build.Constr
import Lemmas.Constr
namespace Cnfgen.FamC03a

theorem lit_neg (α : Assign) (i : Nat) : litHolds α (-(i : Int)) = !α i := by
  unfold litHolds
  simp

theorem lit_pos (α : Assign) (i : Nat) (h : 1 ≤ i) : litHolds α (i : Int) = α i := by
  unfold litHolds
  simp; omega

/-- a clause all of whose constraints are `Con.clause` holds iff … -/
theorem holds_clause (α : Assign) (c : Clause) : (Con.clause c).holds α = clauseHolds α c := rfl

theorem cl_append (α : Assign) (a b : Clause) :
    clauseHolds α (a ++ b) = (clauseHolds α a || clauseHolds α b) := by
  simp [clauseHolds]

theorem cl_cons (α : Assign) (l : Int) (b : Clause) :
    clauseHolds α (l :: b) = (litHolds α l || clauseHolds α b) := by
  simp [clauseHolds]

theorem cl_nil (α : Assign) : clauseHolds α [] = false := rfl

/-- a clause of negated identifiers is true iff one of them is false -/
theorem cl_map_neg (α : Assign) {β : Type} (l : List β) (f : β → Nat) :
    clauseHolds α (l.map (fun b => -(f b : Int))) = true ↔ ∃ b ∈ l, α (f b) = false := by
  simp [clauseHolds, lit_neg]

/-- a clause of positive identifiers (all ≥ 1) is true iff one of them is true -/
theorem cl_map_pos (α : Assign) {β : Type} (l : List β) (f : β → Nat) (h : ∀ b ∈ l, 1 ≤ f b) :
    clauseHolds α (l.map (fun b => (f b : Int))) = true ↔ ∃ b ∈ l, α (f b) = true := by
  simp only [clauseHolds, List.any_map, List.any_eq_true, Function.comp]
  constructor
  · rintro ⟨b, hb, hh⟩; exact ⟨b, hb, by rwa [lit_pos α _ (h b hb)] at hh⟩
  · rintro ⟨b, hb, hh⟩; exact ⟨b, hb, by rwa [lit_pos α _ (h b hb)]⟩

end Cnfgen.FamC03a
