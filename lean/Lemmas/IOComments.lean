/-
The comment part of a DIMACS / OPB file: every chunk the writer emits is one physical line whose
first token is the comment marker (`c` / `*`) — for every header dictionary and every label list
(this is what the D14 fix established).
-/
import Lemmas.IOLex
namespace Cnfgen.IO

/-- `<a>\n` or `<a> <body>\n` with no line break inside `body` -/
def IsCommentChunk (a : Char) (ch : Str) : Prop :=
  ch = [a, '\n'] ∨ ∃ body, NoNL body ∧ ch = a :: ' ' :: body ++ ['\n']

theorem lex_c_nl (u : Bool) : lex u ['c', '\n'] = [[Tok.word ['c']]] := by cases u <;> decide
theorem lex_star_nl (u : Bool) : lex u ['*', '\n'] = [[Tok.word ['*']]] := by cases u <;> decide

theorem lex_chunk (u : Bool) (a : Char) (ch : Str) (ha : isSpace a = false) (ha' : a ≠ '\n' ∧ a ≠ '\r')
    (hcl : classify [a] = .word [a]) (hnl : lex u [a, '\n'] = [[Tok.word [a]]]) (h : IsCommentChunk a ch) :
    ∃ rest, lex u ch = [Tok.word [a] :: rest] := by
  rcases h with rfl | ⟨body, hb, rfl⟩
  · exact ⟨[], hnl⟩
  · exact ⟨lexLine body, by rw [lex_prefixed u a body ha ha' hb, hcl]⟩

theorem headerLines_chunks (a : Char) (kv : Str × Str) :
    ∀ ch ∈ headerLines [a, ' '] kv, IsCommentChunk a ch := by
  intro ch hch
  simp only [headerLines, List.mem_map] at hch
  obtain ⟨l, hl, rfl⟩ := hch
  exact Or.inr ⟨l, noNL_of_noBreak (splitlines_noBreak _ l hl), by simp⟩

theorem noNL_lit (s : Str) (h : s.all (fun c => c != '\n' && c != '\r') = true) : NoNL s := by
  intro c hc
  have := List.all_eq_true.1 h c hc
  simpa using this

theorem dimacs_chunks (hdr : Option Header) (names : Option (List Str)) :
    ∀ ch ∈ dimacsCommentChunks hdr names, IsCommentChunk 'c' ch := by
  intro ch hch
  simp only [dimacsCommentChunks, List.mem_append] at hch
  rcases hch with hch | hch
  · cases hdr with
    | none => simp at hch
    | some h =>
      simp only [List.mem_append, List.mem_flatMap, List.mem_singleton] at hch
      rcases hch with ⟨kv, _, hk⟩ | rfl
      · exact headerLines_chunks 'c' kv ch hk
      · exact Or.inl rfl
  · cases names with
    | none => simp at hch
    | some ns =>
      simp only [List.mem_append, List.mem_map, List.mem_singleton] at hch
      rcases hch with ⟨p, _, rfl⟩ | rfl
      · refine Or.inr ⟨varnameWord ++ natStr p.1 ++ [' '] ++ flatLabel p.2, ?_, rfl⟩
        have h1 : NoNL varnameWord := noNL_lit _ (by decide)
        have h2 : NoNL [' '] := noNL_lit _ (by decide)
        exact ((h1.append (natStr_noNL _)).append h2).append (flatLabel_noNL _)
      · exact Or.inl rfl

theorem opb_chunks (hdr : Option Header) (names : Option (List Str)) :
    ∀ ch ∈ opbCommentChunks hdr names, IsCommentChunk '*' ch := by
  intro ch hch
  simp only [opbCommentChunks, List.mem_append] at hch
  rcases hch with hch | hch
  · cases hdr with
    | none => simp at hch
    | some h =>
      simp only [List.mem_append, List.mem_flatMap, List.mem_singleton] at hch
      rcases hch with ⟨kv, _, hk⟩ | rfl
      · exact headerLines_chunks '*' kv ch hk
      · exact Or.inl rfl
  · cases names with
    | none => simp at hch
    | some ns =>
      simp only [List.mem_append, List.mem_map, List.mem_singleton] at hch
      rcases hch with ⟨p, _, rfl⟩ | rfl
      · refine Or.inr ⟨varnameXWord ++ natStr p.1 ++ [' '] ++ flatLabel p.2, ?_, rfl⟩
        have h1 : NoNL varnameXWord := noNL_lit _ (by decide)
        have h2 : NoNL [' '] := noNL_lit _ (by decide)
        exact ((h1.append (natStr_noNL _)).append h2).append (flatLabel_noNL _)
      · exact Or.inl rfl

/-- every row of the comment part of a DIMACS file starts with the word `c` -/
theorem dimacsCommentRows_c (u : Bool) (hdr : Option Header) (names : Option (List Str)) :
    ∀ r ∈ dimacsCommentRows u hdr names, ∃ rest, r = Tok.word ['c'] :: rest := by
  intro r hr
  simp only [dimacsCommentRows, List.mem_flatMap] at hr
  obtain ⟨ch, hch, hr⟩ := hr
  obtain ⟨rest, hl⟩ := lex_chunk u 'c' ch (by decide) (by decide) (by decide) (lex_c_nl u) (dimacs_chunks hdr names ch hch)
  rw [hl] at hr
  exact ⟨rest, by simpa using hr⟩

/-- every row of the comment part of an OPB file starts with the word `*` -/
theorem opbCommentRows_star (u : Bool) (hdr : Option Header) (names : Option (List Str)) :
    ∀ r ∈ opbCommentRows u hdr names, ∃ rest, r = Tok.word ['*'] :: rest := by
  intro r hr
  simp only [opbCommentRows, List.mem_flatMap] at hr
  obtain ⟨ch, hch, hr⟩ := hr
  obtain ⟨rest, hl⟩ := lex_chunk u '*' ch (by decide) (by decide) (by decide) (lex_star_nl u) (opb_chunks hdr names ch hch)
  rw [hl] at hr
  exact ⟨rest, by simpa using hr⟩

end Cnfgen.IO
