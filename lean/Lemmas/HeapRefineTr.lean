/-
C19 heap lemmas — refinement of whole transformations.
-/
import Lemmas.HeapRefine
namespace Cnfgen
namespace Heap
local notation "Addr" => Nat

/-- the snapshot of a formula just made by `CNF()` -/
def snap0 (cfg : Cfg) : Snap := ⟨0, [], ("description", "Formula in CNF") :: cfg.hdr0, []⟩

theorem snap_newCNF (cfg : Cfg) (s : Store) : snap (newCNF cfg s).1 (newCNF cfg s).2 = some (snap0 cfg) := by
  apply snap_iff.mpr
  refine ⟨s.size + 1, s.size, s.size + 2, [], ?_, ?_, ?_, ?_, rfl⟩ <;>
    simp only [newCNF, alloc, Array.getElem?_push, Array.size_push, snap0, Option.getD_none] <;>
    repeat' (first | rfl | omega | split)

/-- right after `newF = CNF()`: `newF` and any earlier formula are separate, the earlier one unchanged -/
theorem sep_newCNF (cfg : Cfg) (s : Store) (f : Nat) (F : Snap) (hF : snap s f = some F) :
    Sep (newCNF cfg s).1 (newCNF cfg s).2 f ∧ snap (newCNF cfg s).1 f = some F := by
  obtain ⟨hg, hge⟩ := good_newCNF cfg none (Good.refl s)
  have hin := footprint_inbounds hF
  obtain ⟨e1, e2⟩ := snap_congr (s := s) (s' := (newCNF cfg s).1) (r := f) (fun a ha => hg.frame a (hin a ha))
  refine ⟨⟨wt_newCNF cfg s none, wt_iff_snap.mpr ⟨F, by rw [e1]; exact hF⟩, ?_⟩, by rw [e1]; exact hF⟩
  intro a har haf
  rw [e2] at haf
  have h1 := hin a haf
  have h2 := reach_closed hg.closed (mem_footprint_reach har) hge
  omega

/-- `newF = CNF(); <statements>; return newF` against the pure effect of the statements -/
theorem build_refines (cfg : Cfg) (s : Store) (f : Nat) (F : Snap) (acts : List Act) (hF : snap s f = some F)
    (hc : ∀ a ∈ acts, a.Covered f) :
    match runActsPure F acts (snap0 cfg) with
    | .ok R' => ∃ r, (build cfg s acts).2 = .ok r ∧ snap (build cfg s acts).1 r = some R'
    | .error e => (build cfg s acts).2 = .error e := by
  obtain ⟨hsep, hf⟩ := sep_newCNF cfg s f F hF
  have h := runActs_refines acts (newCNF cfg s).1 (snap0 cfg) hc hsep (snap_newCNF cfg s) hf
  unfold build
  rcases hp : runActs (newCNF cfg s).2 (newCNF cfg s).1 acts with ⟨s2, res⟩
  rw [hp] at h
  cases hr : runActsPure F acts (snap0 cfg) with
  | error e => simp only [hr] at h ⊢; subst h; rw [hp]
  | ok R' =>
    simp only [hr] at h ⊢
    obtain ⟨e1, e2⟩ := h
    subst e1
    rw [hp]
    exact ⟨_, rfl, e2⟩

/-! ### pure algebra of the statement lists -/

theorem runActsPure_append (F : Snap) : ∀ (as bs : List Act) (R : Snap),
    runActsPure F (as ++ bs) R = match runActsPure F as R with
      | .error e => .error e
      | .ok R' => runActsPure F bs R'
  | [], bs, R => by simp [runActsPure]
  | a :: as, bs, R => by
    simp only [List.cons_append, runActsPure]
    cases a.pure F R with
    | error e => rfl
    | ok R1 => exact runActsPure_append F as bs R1

/-- `new_block(k, label=…)` on a formula with `nv` variables, `k ≥ 1`: `k` more variables -/
theorem newGroup_block_numvar (nv : Nat) (gs : List Vars.Group) (k : Int) (lbl : String) (hk : 1 ≤ k)
    (m : Vars.MState) (g : Option Vars.Group)
    (h : Vars.newGroup ⟨nv, gs, []⟩ (.block [k] (some lbl)) = (m, .ok g)) : m.numvar = nv + k.toNat := by
  unfold Vars.newGroup at h
  cases hm : Vars.mkGroup nv (.block [k] (some lbl)) with
  | error e => simp [hm] at h
  | ok grp =>
    simp only [hm] at h
    have hg : grp = .block (nv + 1) [k.toNat] lbl := by
      simp only [Vars.mkGroup, Option.getD_some, List.map_cons, List.map_nil, List.isEmpty_cons,
        List.any_cons, List.any_nil, Bool.or_false, decide_eq_true_eq] at hm
      have hk' : ¬ k < 0 := by omega
      simp only [bind, Except.bind, hk', if_false, pure, Except.pure] at hm
      split at hm
      · cases hm
      · cases hm; rfl
    subst hg
    have hlen : (Vars.Group.block (nv + 1) [k.toNat] lbl).len = k.toNat := by
      simp [Vars.Group.len, Vars.blockSize]
    have hpos : k.toNat ≠ 0 := by omega
    unfold Vars.addGroup at h
    simp only [hlen, hpos, if_false, Vars.Group.start] at h
    have : ¬ (nv + 1 ≤ nv) := by omega
    simp only [this, if_false] at h
    cases h
    simp only []
    omega

theorem newGroup_variable_numvar (nv : Nat) (gs : List Vars.Group) (lbl : Option String)
    (m : Vars.MState) (g : Option Vars.Group)
    (h : Vars.newGroup ⟨nv, gs, []⟩ (.variable lbl) = (m, .ok g)) : m.numvar = nv + 1 := by
  simp only [Vars.newGroup, Vars.mkGroup, Vars.addGroup, Vars.Group.len, Vars.Group.start] at h
  have : ¬ (nv + 1 ≤ nv) := by omega
  simp only [this, if_false, Nat.one_ne_zero] at h
  cases h
  simp only []
  omega

/-- a run of group creations only changes the variable count and the groups -/
theorem runActsPure_groups (F : Snap) (step : Nat) : ∀ (acts : List Act) (R R' : Snap),
    (∀ a ∈ acts, ∃ spec, a = .newGroup spec ∧ ∀ nv gs m g,
      Vars.newGroup ⟨nv, gs, []⟩ spec = (m, .ok g) → m.numvar = nv + step) →
    runActsPure F acts R = .ok R' →
    R'.numvar = R.numvar + step * acts.length ∧ R'.header = R.header ∧ R'.clauses = R.clauses
  | [], R, R', _, h => by simp [runActsPure] at h; subst h; simp
  | a :: as, R, R', hall, h => by
    obtain ⟨spec, rfl, hs⟩ := hall a (by simp)
    simp only [runActsPure, Act.pure] at h
    rcases hg : Vars.newGroup ⟨R.numvar, R.groups, []⟩ spec with ⟨m, res⟩
    rw [hg] at h
    cases res with
    | error e => simp at h
    | ok g =>
      simp only [] at h
      have ih := runActsPure_groups F step as _ R' (fun a' ha' => hall a' (by simp [ha'])) h
      have := hs _ _ _ _ hg
      simp only [] at ih
      refine ⟨?_, ih.2.1, ih.2.2⟩
      rw [ih.1, this, List.length_cons, Nat.mul_succ]; omega

/-! ### the selector constraints of FormulaLifting do not raise the variable count -/

theorem checkLits_bounded (nv : Nat) (ls : List Int) (h : ∀ l ∈ ls, l ≠ 0 ∧ l.natAbs ≤ nv) :
    checkLits nv ls = .ok nv := by
  unfold checkLits
  have h0 : ls.contains 0 = false := by
    cases hc : ls.contains 0 with
    | false => rfl
    | true => exact absurd rfl (h 0 (by simpa using hc)).1
  simp only [h0, Bool.false_eq_true, if_false]
  congr 1
  clear h0
  induction ls with
  | nil => rfl
  | cons a as ih =>
    simp only [List.foldl_cons]
    have ha := (h a (by simp)).2
    rw [Nat.max_eq_left ha]
    exact ih (fun l hl => h l (by simp [hl]))

/-- unchecked effect: lists that pass the check without raising the count only append their clauses -/
theorem addLinearAllPure_bounded (op : Op) (k : Int) : ∀ (ls : List (List Int)) (R : Snap),
    (∀ l ∈ ls, l ≠ [] ∧ ∀ x ∈ l, x ≠ 0 ∧ x.natAbs ≤ R.numvar) →
    addLinearAllPure op k R ls = .ok { R with clauses := R.clauses ++ ls.flatMap (fun l => Linear.add l op k) }
  | [], R, _ => by simp [addLinearAllPure]
  | l :: ls, R, h => by
    obtain ⟨hne, hb⟩ := h l (by simp)
    have he : l.isEmpty = false := by cases l <;> simp_all
    simp only [addLinearAllPure, addLinearPure, he, Bool.false_eq_true, if_false, checkLits_bounded R.numvar l hb]
    have ih := addLinearAllPure_bounded op k ls
      { R with clauses := R.clauses ++ Linear.add l op k } (fun l' hl' => h l' (by simp [hl']))
    rw [ih]
    simp [List.append_assoc]

theorem mem_rangeStep {a b st y : Nat} (h : y ∈ rangeStep a b st) :
    ∃ j, y = a + st * j ∧ j < (b - a + st - 1) / st := by
  simp only [rangeStep, Subst.rangeStep, List.mem_map, List.mem_range] at h
  obtain ⟨j, hj, rfl⟩ := h
  exact ⟨j, rfl, hj⟩

/-- every literal of a selector constraint is a variable of the `2·k·N` declared ones -/
theorem selectorLists_bounded (k N : Nat) (hk : 1 ≤ k) :
    ∀ l ∈ selectorLists k (2 * k * N), l ≠ [] ∧ ∀ x ∈ l, x ≠ 0 ∧ x.natAbs ≤ 2 * k * N := by
  intro l hl
  simp only [selectorLists, List.mem_map] at hl
  obtain ⟨y, hy, rfl⟩ := hl
  obtain ⟨j, rfl, hj⟩ := mem_rangeStep hy
  have hP : 0 < 2 * k := by omega
  -- (j+1)·2k ≤ 2kN + k - 1, hence j + 1 ≤ N
  have h1 : (j + 1) * (2 * k) ≤ 2 * k * N + 1 - (k + 1) + 2 * k - 1 :=
    Nat.le_trans (Nat.mul_le_mul_right _ hj) (Nat.div_mul_le_self _ _)
  have hjN : j + 1 ≤ N := by
    apply Decidable.byContradiction
    intro hc
    have h2 : (N + 1) * (2 * k) ≤ (j + 1) * (2 * k) := Nat.mul_le_mul_right _ (by omega)
    have h3 : (N + 1) * (2 * k) = 2 * k * N + 2 * k := by rw [Nat.add_mul, Nat.one_mul, Nat.mul_comm]
    omega
  have h4 : 2 * k * (j + 1) ≤ 2 * k * N := Nat.mul_le_mul_left _ hjN
  have h5 : 2 * k * (j + 1) = 2 * k * j + 2 * k := Nat.mul_succ _ _
  refine ⟨?_, ?_⟩
  · have : (List.range k).length ≠ 0 := by simp; omega
    intro hnil
    simp [List.map_eq_nil_iff] at hnil
    omega
  · intro x hx
    simp only [List.mem_map, List.mem_range] at hx
    obtain ⟨i, hi, rfl⟩ := hx
    refine ⟨by omega, ?_⟩
    simp only [Int.natAbs_natCast]
    omega

theorem selectors_eq (k N : Nat) :
    Subst.selectors k N = (selectorLists k (2 * k * N)).flatMap (fun l => Linear.add l .eq 1) := by
  simp [Subst.selectors, selectorLists, rangeStep, List.flatMap_map]

end Heap
end Cnfgen
