/-
Binary mapping `new_binary_mapping(k, N)`: the 0-based code `code α bits i` of the image of `i`, the meaning
of `forbid(i, j)` ("the code of `i` is not `j`"), and of the constraints of `BinaryCliqueFormula`.
-/
import CnfgenModel.Fam.Subgraph
import Lemmas.FamSubgraph
import Lemmas.FamCount
namespace Cnfgen
namespace Fam
namespace G2
open Vars

/-! ### binary numbers -/

/-- value of the bit string `f (n-1) … f 1 f 0` -/
def bval (f : Nat → Bool) : Nat → Nat
  | 0 => 0
  | n + 1 => 2 ^ n * (f n).toNat + bval f n

theorem bval_lt (f : Nat → Bool) (n : Nat) : bval f n < 2 ^ n := by
  induction n with
  | zero => simp [bval]
  | succ n ih =>
    simp only [bval, Nat.pow_succ]
    cases f n <;> simp <;> omega

theorem testBit_bval (f : Nat → Bool) (n j : Nat) : (bval f n).testBit j = (decide (j < n) && f j) := by
  induction n with
  | zero => simp [bval]
  | succ n ih =>
    simp only [bval]
    rw [Nat.testBit_two_pow_mul_add _ (bval_lt f n), ih]
    by_cases h : j < n
    · have : j < n + 1 := by omega
      simp [h, this]
    · simp only [h, if_false, Nat.testBit_bool_toNat]
      by_cases e : j = n
      · subst e; simp
      · have h1 : ¬ j < n + 1 := by omega
        have h2 : j - n ≠ 0 := by omega
        simp [h1, h2]

theorem bval_eq_iff (f : Nat → Bool) (n j : Nat) (hj : j < 2 ^ n) :
    bval f n = j ↔ ∀ b, b < n → f b = j.testBit b := by
  constructor
  · intro h b hb
    rw [← h, testBit_bval]; simp [hb]
  · intro h
    apply Nat.eq_of_testBit_eq
    intro i
    rw [testBit_bval]
    by_cases hi : i < n
    · simp [hi, h i hi]
    · have : j < 2 ^ i := Nat.lt_of_lt_of_le hj (Nat.pow_le_pow_right (by omega) (by omega))
      simp [hi, Nat.testBit_lt_two_pow this]

theorem bval_testBit (m n : Nat) (h : m < 2 ^ n) : bval (fun b => m.testBit b) n = m :=
  (bval_eq_iff _ n m h).2 (fun _ _ => rfl)

theorem bval_congr {f g : Nat → Bool} {n : Nat} (h : ∀ b, b < n → f b = g b) : bval f n = bval g n := by
  induction n with
  | zero => rfl
  | succ n ih =>
    simp only [bval]
    rw [h n (by omega), ih (fun b hb => h b (by omega))]

/-! ### `clog2` -/

theorem le_two_pow_clog2 (m : Nat) : m ≤ 2 ^ clog2 m := by
  unfold clog2
  cases h : (List.range (m + 1)).find? (fun b => decide (m ≤ 2 ^ b)) with
  | none =>
    simp only [Option.getD_none]
    exact Nat.le_of_lt Nat.lt_two_pow_self
  | some b =>
    simp only [Option.getD_some]
    have := List.find?_some h
    simpa using this

/-- `clog2 m` is the least such exponent -/
theorem clog2_le (m b : Nat) (h : m ≤ 2 ^ b) : clog2 m ≤ b := by
  unfold clog2
  cases hf : (List.range (m + 1)).find? (fun b => decide (m ≤ 2 ^ b)) with
  | none =>
    rw [List.find?_eq_none] at hf
    by_cases hb : b < m + 1
    · have := hf b (List.mem_range.2 hb)
      simp at this; omega
    · simp only [Option.getD_none]; omega
  | some c =>
    simp only [Option.getD_some]
    rw [List.find?_eq_some_iff_append] at hf
    obtain ⟨_, as, bs, hab, hall⟩ := hf
    by_cases hcb : c ≤ b
    · exact hcb
    · -- b < c, so b is among the elements before c in `range (m+1)`
      exfalso
      have hc : c < m + 1 := by
        have : c ∈ List.range (m + 1) := by rw [hab]; simp
        exact List.mem_range.1 this
      have hbmem : b ∈ as := by
        have hsorted : (as ++ c :: bs).Pairwise (· < ·) := by rw [← hab]; exact List.pairwise_lt_range
        have hbr : b ∈ as ++ c :: bs := by rw [← hab]; exact List.mem_range.2 (by omega)
        rcases List.mem_append.1 hbr with h1 | h1
        · exact h1
        · rcases List.mem_cons.1 h1 with h2 | h2
          · omega
          · have := (List.pairwise_cons.1 (List.pairwise_append.1 hsorted).2.1).1 b h2
            omega
      have := hall b hbmem
      simp at this; omega

/-! ### identifiers and `forbid` -/

/-- the 0-based code of the image of `i`: bit `b` is the variable `binId 1 bits i b` -/
def code (α : Assign) (bits i : Nat) : Nat := bval (fun b => α (binId 1 bits i b)) bits

theorem code_lt (α : Assign) (bits i : Nat) : code α bits i < 2 ^ bits := bval_lt _ _

theorem binId_pos {bits i b : Nat} (hi : 1 ≤ i) (hb : b < bits) : 0 < binId 1 bits i b := by
  unfold binId
  have : bits ≤ i * bits := Nat.le_mul_of_pos_left bits hi
  omega

theorem binId_le {bits k i b : Nat} (hi : i ≤ k) : binId 1 bits i b ≤ k * bits := by
  unfold binId
  have : i * bits ≤ k * bits := Nat.mul_le_mul_right bits hi
  omega

theorem forbidC_eq (st bits i j : Nat) :
    forbidC st bits i j = (List.range bits).map (fun t =>
      (if (j / 2 ^ (bits - 1 - t)) % 2 = 1 then (-1 : Int) else 1) * (binId st bits i (bits - 1 - t) : Int)) := by
  simp [forbidC, flipPattern, List.zipWith_map_left, List.zipWith_self]

/-- `forbid(i, j)` is false exactly when the code of `i` is `j` -/
theorem forbidC_holds (α : Assign) {bits i j : Nat} (hi : 1 ≤ i) (hj : j < 2 ^ bits) :
    clauseHolds α (forbidC 1 bits i j) = true ↔ code α bits i ≠ j := by
  rw [forbidC_eq, Ne, code, bval_eq_iff _ _ _ hj]
  simp only [clauseHolds, List.any_map, List.any_eq_true, List.mem_range, Function.comp]
  have key : ∀ t, t < bits →
      (litHolds α ((if (j / 2 ^ (bits - 1 - t)) % 2 = 1 then (-1 : Int) else 1) *
          (binId 1 bits i (bits - 1 - t) : Int)) = true ↔
        ¬ (α (binId 1 bits i (bits - 1 - t)) = j.testBit (bits - 1 - t))) := by
    intro t ht
    have hp := binId_pos (bits := bits) (i := i) (b := bits - 1 - t) hi (by omega)
    rw [Nat.testBit_eq_decide_div_mod_eq]
    by_cases hb : (j / 2 ^ (bits - 1 - t)) % 2 = 1
    · simp only [hb, if_true, Int.neg_mul, Int.one_mul, litHolds_neg_nat α hp, decide_true]
      cases α (binId 1 bits i (bits - 1 - t)) <;> simp
    · simp only [hb, if_false, Int.one_mul, litHolds_nat α hp, decide_false]
      cases α (binId 1 bits i (bits - 1 - t)) <;> simp
  constructor
  · rintro ⟨t, ht, hl⟩ hall
    exact (key t ht).1 hl (hall _ (by omega))
  · intro hne
    apply Classical.byContradiction
    intro hno
    apply hne
    intro b hb
    apply Classical.byContradiction
    intro hbad
    apply hno
    refine ⟨bits - 1 - b, by omega, ?_⟩
    have e : bits - 1 - (bits - 1 - b) = b := by omega
    have := (key (bits - 1 - b) (by omega)).2
    rw [e] at this ⊢
    exact this hbad

theorem clauseHolds_append (α : Assign) (c d : Clause) :
    clauseHolds α (c ++ d) = (clauseHolds α c || clauseHolds α d) := by
  simp [clauseHolds, List.any_append]

/-- two `forbid`s in one clause: not both codes -/
theorem forbid2_holds (α : Assign) {bits i i' j j' : Nat} (hi : 1 ≤ i) (hi' : 1 ≤ i') (hj : j < 2 ^ bits)
    (hj' : j' < 2 ^ bits) :
    Con.holds α (.clause (forbidC 1 bits i j ++ forbidC 1 bits i' j')) = true ↔
      ¬ (code α bits i = j ∧ code α bits i' = j') := by
  simp only [Con.holds, clauseHolds_append, Bool.or_eq_true, forbidC_holds α hi hj, forbidC_holds α hi' hj']
  constructor
  · rintro (h | h) ⟨a, b⟩
    · exact h a
    · exact h b
  · intro h
    by_cases a : code α bits i = j
    · exact Or.inr (fun b => h ⟨a, b⟩)
    · exact Or.inl a

theorem forbidC_lits {bits k i j : Nat} (hi1 : 1 ≤ i) (hi : i ≤ k) :
    ∀ l ∈ forbidC 1 bits i j, l ≠ 0 ∧ 1 ≤ l.natAbs ∧ l.natAbs ≤ k * bits := by
  intro l hl
  rw [forbidC_eq] at hl
  simp only [List.mem_map, List.mem_range] at hl
  obtain ⟨t, ht, rfl⟩ := hl
  have hp := binId_pos (bits := bits) (i := i) (b := bits - 1 - t) hi1 (by omega)
  have hle := binId_le (bits := bits) (k := k) (i := i) (b := bits - 1 - t) hi
  split <;> omega

/-! ### the blocks of `BinaryCliqueFormula` as statements about codes -/

theorem mem_rangeN {a b j : Nat} : j ∈ rangeN a b ↔ a ≤ j ∧ j < b := by
  simp only [rangeN, List.mem_map, List.mem_range]
  constructor
  · rintro ⟨x, hx, rfl⟩; omega
  · intro h; exact ⟨j - a, by omega, by omega⟩

theorem binComplete_holds (α : Assign) (bits k N : Nat) :
    (∀ c ∈ binComplete 1 bits k N, Con.holds α c = true) ↔ ∀ i, 1 ≤ i → i ≤ k → code α bits i < N := by
  simp only [binComplete, List.mem_flatMap, List.mem_map, mem_verts, mem_rangeN, forall_exists_index, and_imp]
  constructor
  · intro h i h1 h2
    apply Classical.byContradiction
    intro hge
    have := h _ i h1 h2 (code α bits i) (by omega) (code_lt α bits i) rfl
    simp only [Con.holds] at this
    rw [forbidC_holds α h1 (code_lt α bits i)] at this
    exact this rfl
  · intro h c i h1 h2 j hj1 hj2 hc
    subst hc
    simp only [Con.holds]
    rw [forbidC_holds α h1 hj2]
    have := h i h1 h2
    omega

theorem binInjective_holds (α : Assign) (bits k N : Nat) (hN : N ≤ 2 ^ bits) :
    (∀ c ∈ binInjective 1 bits k N, Con.holds α c = true) ↔
      ∀ y, y < N → ∀ i, 1 ≤ i → ∀ i', i < i' → i' ≤ k → ¬ (code α bits i = y ∧ code α bits i' = y) := by
  simp only [binInjective, List.mem_flatMap, List.mem_map, List.mem_range, Prod.exists, mem_pairs2_verts,
    forall_exists_index, and_imp]
  constructor
  · intro h y hy i h1 i' hlt h2
    rw [← forbid2_holds α h1 (by omega) (by omega) (by omega)]
    exact h _ y hy i i' h1 hlt h2 rfl
  · intro h c y hy i i' h1 hlt h2 hc
    subst hc
    rw [forbid2_holds α h1 (by omega) (by omega) (by omega)]
    exact h y hy i h1 i' hlt h2

theorem binNondecreasing_holds (α : Assign) (bits k N : Nat) (hN : N ≤ 2 ^ bits) :
    (∀ c ∈ binNondecreasing 1 bits k N, Con.holds α c = true) ↔
      ∀ i, 1 ≤ i → ∀ i', i < i' → i' ≤ k → ∀ v1 v2, v1 < v2 → v2 < N →
        ¬ (code α bits i = v2 ∧ code α bits i' = v1) := by
  simp only [binNondecreasing, List.mem_flatMap, List.mem_map, Prod.exists, mem_pairs2_verts, mem_pairs2_range,
    forall_exists_index, and_imp]
  constructor
  · intro h i h1 i' hlt h2 v1 v2 hv hv2
    rw [← forbid2_holds α h1 (by omega) (by omega) (by omega)]
    exact h _ i i' h1 hlt h2 v1 v2 hv hv2 rfl
  · intro h c i i' h1 hlt h2 v1 v2 hv hv2 hc
    subst hc
    rw [forbid2_holds α h1 (by omega) (by omega) (by omega)]
    exact h i h1 i' hlt h2 v1 v2 hv hv2

theorem binCliqueEdgeCons_holds (α : Assign) (G : SimpleG) (k : Nat) (symbreak : Bool) (hN : G.n ≤ 2 ^ clog2 G.n) :
    (∀ c ∈ binCliqueEdgeCons G k symbreak, Con.holds α c = true) ↔
      ∀ i, 1 ≤ i → ∀ i', i < i' → i' ≤ k → ∀ a b, 1 ≤ a → a < b → b ≤ G.n → adj G a b = false →
        ¬ (code α (clog2 G.n) i = a - 1 ∧ code α (clog2 G.n) i' = b - 1) ∧
        (symbreak = false → ¬ (code α (clog2 G.n) i = b - 1 ∧ code α (clog2 G.n) i' = a - 1)) := by
  simp only [binCliqueEdgeCons, List.mem_flatMap, Prod.exists, mem_pairs2_verts, mem_nonEdges,
    forall_exists_index, and_imp]
  constructor
  · intro h i h1 i' hlt h2 a b ha hab hb hne
    constructor
    · rw [← forbid2_holds α h1 (by omega) (by omega) (by omega)]
      exact h _ i i' h1 hlt h2 a b ha hab hb hne List.mem_cons_self
    · intro hs
      subst hs
      rw [← forbid2_holds α h1 (by omega) (by omega) (by omega)]
      exact h _ i i' h1 hlt h2 a b ha hab hb hne (List.mem_cons_of_mem _ (by simp))
  · intro h c i i' h1 hlt h2 a b ha hab hb hne hc
    have := h i h1 i' hlt h2 a b ha hab hb hne
    rcases List.mem_cons.1 hc with rfl | hc
    · rw [forbid2_holds α h1 (by omega) (by omega) (by omega)]
      exact this.1
    · cases symbreak
      · simp only [Bool.not_false, if_true, List.mem_singleton] at hc
        subst hc
        rw [forbid2_holds α h1 (by omega) (by omega) (by omega)]
        exact this.2 rfl
      · simp at hc

/-- the table read off the codes: vertex = code + 1 -/
def binTable (α : Assign) (bits k : Nat) : List Nat := (List.range k).map (fun p => code α bits (p + 1) + 1)

theorem img_binTable (α : Assign) (bits : Nat) {k i : Nat} (h1 : 1 ≤ i) (h2 : i ≤ k) :
    img (binTable α bits k) i = code α bits i + 1 :=
  img_map_range (fun i => code α bits i + 1) h1 h2

/-! ### the assignment of a table (binary encoding) -/

/-- the assignment whose codes are `l[i-1] - 1` -/
def encodeB (bits k : Nat) (l : List Nat) : Assign :=
  fun x => decide (1 ≤ x ∧ x ≤ k * bits) &&
    Nat.testBit (img l ((x - 1) / bits + 1) - 1) (bits - 1 - (x - 1) % bits)

theorem binId_div_mod {bits i b : Nat} (hi : 1 ≤ i) (hb : b < bits) :
    (binId 1 bits i b - 1) / bits = i - 1 ∧ (binId 1 bits i b - 1) % bits = bits - 1 - b := by
  unfold binId
  have e : i * bits - b + (1 - 1) - 1 = bits * (i - 1) + (bits - 1 - b) := by
    have : i * bits = (i - 1) * bits + bits := by
      have : i = (i - 1) + 1 := by omega
      conv => lhs; rw [this, Nat.add_mul, Nat.one_mul]
    rw [Nat.mul_comm bits (i - 1)]
    omega
  rw [e]
  constructor
  · rw [Nat.mul_add_div (by omega), Nat.div_eq_of_lt (by omega)]; omega
  · rw [Nat.mul_add_mod, Nat.mod_eq_of_lt (by omega)]

theorem encodeB_binId {bits k : Nat} (l : List Nat) {i b : Nat} (hi1 : 1 ≤ i) (hi : i ≤ k) (hb : b < bits) :
    encodeB bits k l (binId 1 bits i b) = Nat.testBit (img l i - 1) b := by
  have hp := binId_pos (bits := bits) (i := i) (b := b) hi1 hb
  have hle := binId_le (bits := bits) (k := k) (i := i) (b := b) hi
  obtain ⟨d, m⟩ := binId_div_mod (bits := bits) (i := i) (b := b) hi1 hb
  simp only [encodeB, d, m]
  have e1 : i - 1 + 1 = i := by omega
  have e2 : bits - 1 - (bits - 1 - b) = b := by omega
  rw [e1, e2]
  have : (1 ≤ binId 1 bits i b ∧ binId 1 bits i b ≤ k * bits) := ⟨hp, hle⟩
  simp [this]

theorem code_encodeB {bits k : Nat} (l : List Nat) {i : Nat} (hi1 : 1 ≤ i) (hi : i ≤ k)
    (hlt : img l i - 1 < 2 ^ bits) : code (encodeB bits k l) bits i = img l i - 1 := by
  unfold code
  rw [bval_congr (g := fun b => Nat.testBit (img l i - 1) b) (fun b hb => encodeB_binId l hi1 hi hb)]
  exact bval_testBit _ _ hlt

theorem binTable_encodeB {bits k N : Nat} (hN : N ≤ 2 ^ bits) {l : List Nat} (hlen : l.length = k)
    (hr : ∀ v ∈ l, 1 ≤ v ∧ v ≤ N) : binTable (encodeB bits k l) bits k = l := by
  apply ext_img (by simp [binTable, hlen])
  intro i h1 h2
  have h2' : i ≤ k := by simpa [binTable] using h2
  rw [img_binTable _ _ h1 h2']
  have := hr _ (img_mem h1 (by rw [hlen]; exact h2'))
  rw [code_encodeB l h1 h2' (by omega)]
  omega

/-- the codes only read the variables `1 … k·bits` -/
theorem binTable_congr {bits k : Nat} {α β : Assign} (h : AgreeOn (k * bits) α β) :
    binTable α bits k = binTable β bits k := by
  unfold binTable
  apply List.map_congr_left
  intro p hp
  rw [List.mem_range] at hp
  unfold code
  rw [bval_congr (fun b hb => h _ (binId_pos (by omega) hb) (binId_le (by omega)))]

/-- every assignment agrees with the encoding of its own table on the variables of the formula -/
theorem agree_encodeB_binTable (α : Assign) (bits k : Nat) :
    AgreeOn (k * bits) α (encodeB bits k (binTable α bits k)) := by
  intro x h1 h2
  have hbits : 0 < bits := by
    rcases Nat.eq_zero_or_pos bits with h | h
    · subst h; simp at h2; omega
    · exact h
  have hm := Nat.mod_lt (x - 1) hbits
  have hd : (x - 1) / bits < k := by
    rw [Nat.div_lt_iff_lt_mul hbits]; omega
  have hx : x = binId 1 bits ((x - 1) / bits + 1) (bits - 1 - (x - 1) % bits) := by
    unfold binId
    have := Nat.div_add_mod (x - 1) bits
    rw [Nat.add_mul, Nat.one_mul, Nat.mul_comm]
    omega
  conv => rhs; rw [hx]
  rw [encodeB_binId _ (Nat.le_add_left _ _) (by omega) (by omega),
    img_binTable α bits (Nat.le_add_left _ _) (by omega)]
  simp only [Nat.add_sub_cancel]
  unfold code
  rw [testBit_bval]
  have : bits - 1 - (x - 1) % bits < bits := by omega
  simp only [this, decide_true, Bool.true_and]
  rw [← hx]

/-- well-formedness of the binary clique formula -/
theorem binaryCliqueCore_consIn (G : SimpleG) (k : Nat) (symbreak : Bool) :
    ConsIn 1 (k * clog2 G.n) (binaryCliqueCore G k symbreak).cons := by
  have two : ∀ (i i' j j' : Nat), 1 ≤ i → i ≤ k → 1 ≤ i' → i' ≤ k →
      ∀ l ∈ (Con.clause (forbidC 1 (clog2 G.n) i j ++ forbidC 1 (clog2 G.n) i' j')).lits,
        l ≠ 0 ∧ 1 ≤ l.natAbs ∧ l.natAbs ≤ k * clog2 G.n := by
    intro i i' j j' a b a' b' l hl
    simp only [Con.lits, List.mem_append] at hl
    rcases hl with hl | hl
    · exact forbidC_lits a b l hl
    · exact forbidC_lits a' b' l hl
  have hc : ConsIn 1 (k * clog2 G.n) (binComplete 1 (clog2 G.n) k G.n) := by
    intro c hc
    simp only [binComplete, List.mem_flatMap, List.mem_map, mem_verts] at hc
    obtain ⟨i, ⟨h1, h2⟩, j, _, rfl⟩ := hc
    exact forbidC_lits h1 h2
  have hi : ConsIn 1 (k * clog2 G.n) (binInjective 1 (clog2 G.n) k G.n) := by
    intro c hc
    simp only [binInjective, List.mem_flatMap, List.mem_map, Prod.exists, mem_pairs2_verts] at hc
    obtain ⟨y, _, i, i', ⟨h1, hlt, h2⟩, rfl⟩ := hc
    exact two i i' y y h1 (by omega) (by omega) h2
  have hn : ConsIn 1 (k * clog2 G.n) (if symbreak then binNondecreasing 1 (clog2 G.n) k G.n else []) := by
    cases symbreak
    · exact ConsIn.nil
    · intro c hc
      simp only [if_true, binNondecreasing, List.mem_flatMap, List.mem_map, Prod.exists, mem_pairs2_verts] at hc
      obtain ⟨i, i', ⟨h1, hlt, h2⟩, v1, v2, _, rfl⟩ := hc
      exact two i i' v2 v1 h1 (by omega) (by omega) h2
  have he : ConsIn 1 (k * clog2 G.n) (binCliqueEdgeCons G k symbreak) := by
    intro c hc
    simp only [binCliqueEdgeCons, List.mem_flatMap, Prod.exists, mem_pairs2_verts] at hc
    obtain ⟨i, i', ⟨h1, hlt, h2⟩, a, b, _, hc⟩ := hc
    rcases List.mem_cons.1 hc with rfl | hc
    · exact two i i' (a - 1) (b - 1) h1 (by omega) (by omega) h2
    · cases symbreak
      · simp only [Bool.not_false, if_true, List.mem_singleton] at hc
        subst hc
        exact two i i' (b - 1) (a - 1) h1 (by omega) (by omega) h2
      · simp at hc
  exact ((hc.append hi).append hn).append he

end G2
end Fam
end Cnfgen
