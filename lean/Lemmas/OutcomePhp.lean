/-
`php` end to end (Props/C18/Php.lean): the custom argparse action `PHPArgs` binds either the bipartite graph `B` or the
three numbers `degree`, `holes`, `pigeons` — TOGETHER.  Part 1 generalises the "every positional is bound" lemmas of
Lemmas/DispatchTotal.lean from "its dest is bound" to any property `Q o b` of the bindings that survives appending.
-/
import Lemmas.OutcomeG
namespace Cnfgen.Cli
open Cnfgen Cnfgen.Gen

/-! ### Part 1: what a successful parse has bound, for an arbitrary monotone property -/

structure oph_Mono (Q : OptSpec → Ns → Prop) : Prop where
  left : ∀ o b c, Q o b → Q o (c ++ b)
  right : ∀ o b c, Q o b → Q o (b ++ c)

def oph_binds (Q : OptSpec → Ns → Prop) (o : OptSpec) : Prop := ∀ toks b, bindOne o toks = .ok b → Q o b

theorem oph_applyPos {Q : OptSpec → Ns → Prop} (hQ : oph_Mono Q) (ps : List OptSpec) (hB : ∀ o ∈ ps, oph_binds Q o) :
    ∀ (cs : List Nat) (toks : List String) (b : Ns), applyPos ps cs toks = .ok b →
    ∀ o ∈ ps.take cs.length, Q o b := by
  induction ps with
  | nil => intro cs toks b _ o ho; simp at ho
  | cons o1 os ih =>
    intro cs toks b h o ho
    cases cs with
    | nil => simp at ho
    | cons c cs =>
      unfold applyPos at h
      split at h
      · simp at h
      · rename_i b0 hb0
        split at h
        · simp at h
        · rename_i more hmore
          simp at h
          subst h
          simp only [List.length_cons, List.take_succ_cons] at ho
          rcases List.mem_cons.1 ho with rfl | ho
          · exact hQ.left _ _ _ (hB o (List.mem_cons_self ..) _ b0 hb0)
          · exact hQ.right _ _ _ (ih (fun o' ho' => hB o' (List.mem_cons_of_mem _ ho')) cs _ more hmore o ho)

theorem oph_consumePos {Q : OptSpec → Ns → Prop} (hQ : oph_Mono Q) (ps : List OptSpec)
    (hB : ∀ o ∈ ps, oph_binds Q o) (chunk : List String)
    (final : Bool) (ps' : List OptSpec) (b : Ns) (h : consumePos ps chunk final = .ok (ps', b)) :
    (∀ o ∈ ps', o ∈ ps) ∧ ∀ o ∈ ps, o ∈ ps' ∨ Q o b := by
  unfold consumePos at h
  split at h
  · simp at h
    obtain ⟨rfl, rfl⟩ := h
    exact ⟨fun o ho => ho, fun o ho => Or.inl ho⟩
  · dsimp only at h
    split at h
    · simp at h
    · split at h
      · simp at h
      · rename_i b0 hb0
        simp at h
        obtain ⟨rfl, rfl⟩ := h
        refine ⟨fun o ho => List.mem_of_mem_drop ho, fun o ho => ?_⟩
        rw [← List.take_append_drop (matchPartial (ps.map OptSpec.arity) chunk.length ps.length).length ps] at ho
        rcases List.mem_append.1 ho with ho | ho
        · exact Or.inr (oph_applyPos hQ ps hB _ _ _ hb0 o ho)
        · exact Or.inl ho

theorem oph_parseSegs {Q : OptSpec → Ns → Prop} (hQ : oph_Mono Q) :
    ∀ (segs : List (OptSpec × List String)) (ps : List OptSpec) (b : Ns),
    (∀ o ∈ ps, oph_binds Q o) → parseSegs ps segs = .ok b → ∀ o ∈ ps, Q o b := by
  intro segs
  induction segs with
  | nil =>
    intro ps b _ h o ho
    unfold parseSegs at h
    split at h
    · rename_i he
      simp at he
      subst he
      cases ho
    · simp at h
  | cons sg rest ih =>
    intro ps b hB h o ho
    obtain ⟨o1, chunk⟩ := sg
    unfold parseSegs at h
    split at h
    · simp at h
    · rename_i b1 chunk' _
      split at h
      · simp at h
      · rename_i ps' bs hcp
        split at h
        · simp at h
        · rename_i more hmore
          simp at h
          subst h
          obtain ⟨hsub, hor⟩ := oph_consumePos hQ ps hB chunk' _ ps' bs hcp
          rcases hor o ho with ho' | hq
          · have := ih ps' more (fun o' ho' => hB o' (hsub o' ho')) hmore o ho'
            have h2 := hQ.right _ _ (bs ++ b1) this
            simpa [List.append_assoc] using h2
          · have h2 := hQ.right _ _ b1 (hQ.left _ _ more hq)
            simpa [List.append_assoc] using h2

/-- when the parser of the sub-command accepts the command line, `Q` holds of every positional -/
theorem oph_parseRaw {Q : OptSpec → Ns → Prop} (hQ : oph_Mono Q) (s : CliSpec)
    (hB : ∀ o ∈ positionals s, oph_binds Q o) (argv : List String)
    (b : Ns) (h : parseRaw s argv = .ok b) : ∀ o ∈ positionals s, Q o b := by
  intro o ho
  unfold parseRaw at h
  split at h
  · simp at h
  · rename_i chunk0 segs _
    split at h
    · simp at h
    · split at h
      · simp at h
      · rename_i ps b0 hcp
        split at h
        · simp at h
        · rename_i more hmore
          dsimp only at h
          split at h
          · simp at h
            subst h
            obtain ⟨hsub, hor⟩ := oph_consumePos hQ (positionals s) hB chunk0 _ ps b0 hcp
            rcases hor o ho with ho' | hq
            · exact hQ.right _ _ _ (oph_parseSegs hQ segs ps more (fun o' ho' => hB o' (hsub o' ho')) hmore o ho')
            · exact hQ.left _ _ _ hq
          · simp at h

/-! ### Part 2: `php` -/

/-- the `php` sub-command as the translator reads it today (`current_php_is_documented`, Props/C18/Php.lean, compares it
with the regenerated table on every run) -/
def phpS : CliSpec :=
  ⟨"PHPCmdHelper", "php", "formula",
    [⟨"pigeonholes", ["pigeonholes"], true, "PHPArgs", "", "*", [], false, .none, false, .none, false, false, [], "", [], ""⟩,
     ⟨"functional", ["--functional"], false, "store_true", "", "", [], false, .none, false, .none, false, false, [], "", [], ""⟩,
     ⟨"onto", ["--onto"], false, "store_true", "", "", [], false, .none, false, .none, false, false, [], "", [], ""⟩],
    [⟨(.and (.hasattr "B") (.isNotNone (.arg "B"))), "", "GraphPigeonholePrinciple", [(.arg "B")],
        [("functional", (.arg "functional")), ("onto", (.arg "onto")), ("formula_class", (.name "formula_class"))], []⟩,
     ⟨(.and (.not (.and (.hasattr "B") (.isNotNone (.arg "B")))) (.cmp "==" (.arg "holes") (.arg "degree"))), "",
        "PigeonholePrinciple", [(.arg "pigeons"), (.arg "holes")],
        [("functional", (.arg "functional")), ("onto", (.arg "onto")), ("formula_class", (.name "formula_class"))], []⟩,
     ⟨(.and (.not (.and (.hasattr "B") (.isNotNone (.arg "B")))) (.not (.cmp "==" (.arg "holes") (.arg "degree")))), "",
        "GraphPigeonholePrinciple",
        [(.opaque "bipartite_random_left_regular(args.pigeons, args.holes, args.degree)" ["pigeons", "holes", "degree"])],
        [("functional", (.arg "functional")), ("onto", (.arg "onto")), ("formula_class", (.name "formula_class"))], []⟩]⟩

/-- a binding made by `PHPArgs` -/
def oph_PhpBinding (p : String × Val) : Prop :=
  (∃ toks, p = ("B", .graph "bipartite" toks)) ∨ (∃ i, p = ("degree", .int i)) ∨ (∃ i, p = ("holes", .int i)) ∨
  (∃ i, p = ("pigeons", .int i))

/-- the bindings of one call of `PHPArgs`: the graph, or the three numbers together -/
def oph_PhpCall (bs : Ns) : Prop :=
  (∃ toks, bs = [("B", .graph "bipartite" toks)]) ∨
  (∃ d h p, bs = [("degree", .int d), ("holes", .int h), ("pigeons", .int p)])

theorem oph_phpArgs_call (toks : List String) (b : Ns) (h : phpArgs toks = .ok b) : oph_PhpCall b := by
  unfold phpArgs at h
  repeat' split at h
  all_goals first
    | (simp at h; done)
    | (simp only [Except.ok.injEq] at h; subst h; exact Or.inl ⟨_, rfl⟩)
    | (simp only [Except.ok.injEq] at h; subst h; exact Or.inr ⟨_, _, _, rfl⟩)

theorem oph_call_binding (bs : Ns) (h : oph_PhpCall bs) : ∀ p ∈ bs, oph_PhpBinding p := by
  intro p hp
  rcases h with ⟨toks, rfl⟩ | ⟨d, hh, pp, rfl⟩
  · simp at hp; subst hp; exact Or.inl ⟨toks, rfl⟩
  · simp at hp
    rcases hp with rfl | rfl | rfl
    · exact Or.inr (Or.inl ⟨_, rfl⟩)
    · exact Or.inr (Or.inr (Or.inl ⟨_, rfl⟩))
    · exact Or.inr (Or.inr (Or.inr ⟨_, rfl⟩))

def oph_R (o : OptSpec) (p : String × Val) : Prop :=
  (o.action = "PHPArgs" ∧ oph_PhpBinding p) ∨ (o.action ≠ "PHPArgs" ∧ og_R o p)

/-- the whole result of one `PHPArgs` call is among the bindings -/
def oph_Q (o : OptSpec) (b : Ns) : Prop := o.action = "PHPArgs" → ∃ bs, oph_PhpCall bs ∧ ∀ p ∈ bs, p ∈ b

theorem oph_Q_mono : oph_Mono oph_Q :=
  ⟨fun _ _ c h ha => by obtain ⟨bs, h1, h2⟩ := h ha; exact ⟨bs, h1, fun p hp => List.mem_append_right c (h2 p hp)⟩,
   fun _ _ c h ha => by obtain ⟨bs, h1, h2⟩ := h ha; exact ⟨bs, h1, fun p hp => List.mem_append_left c (h2 p hp)⟩⟩

theorem oph_phpS_special : phpS.special = true := by decide

theorem oph_phpS_opts (o : OptSpec) (ho : o ∈ phpS.opts) :
    (o.action = "PHPArgs" ∧ o.dest = "pigeonholes") ∨
    (o.action = "store_true" ∧ o.arity = .zero ∧ o.flagVal = .bool true ∧ o.defaultVal = .bool false ∧
      (o.dest = "functional" ∨ o.dest = "onto")) := by
  simp only [phpS, List.mem_cons, List.not_mem_nil, or_false] at ho
  rcases ho with rfl | rfl | rfl
  · exact Or.inl ⟨rfl, rfl⟩
  · exact Or.inr ⟨rfl, by decide, by decide, by decide, Or.inl rfl⟩
  · exact Or.inr ⟨rfl, by decide, by decide, by decide, Or.inr rfl⟩

theorem oph_binds_R (o : OptSpec) (ho : o ∈ phpS.opts) : dtot_binds oph_R o := by
  rcases oph_phpS_opts o ho with ⟨ha, _⟩ | ⟨ha, _⟩
  · intro toks b h p hp
    unfold bindOne at h
    simp only [ha, beq_self_eq_true, if_true] at h
    exact Or.inl ⟨ha, oph_call_binding b (oph_phpArgs_call toks b h) p hp⟩
  · intro toks b h p hp
    have h1 : o.action ≠ "PHPArgs" := by rw [ha]; decide
    have h2 : o.action ≠ "compose_two_parsers" := by rw [ha]; decide
    exact Or.inr ⟨h1, og_bindOne_binds o h1 h2 toks b h p hp⟩

theorem oph_binds_Q (o : OptSpec) : oph_binds oph_Q o := by
  intro toks b h ha
  unfold bindOne at h
  simp only [ha, beq_self_eq_true, if_true] at h
  exact ⟨b, oph_phpArgs_call toks b h, fun p hp => hp⟩

theorem oph_mainOpts : mainOpts phpS = phpS.opts := by decide

theorem oph_mainOK : dtot_mainOK phpS := by
  intro o ho
  rcases oph_phpS_opts o ho with ⟨_, _⟩ | ⟨_, har, _⟩
  · simp only [phpS, List.mem_cons, List.not_mem_nil, or_false] at ho
    rcases ho with rfl | rfl | rfl <;> exact Or.inl ⟨by decide, by decide⟩
  · simp only [phpS, List.mem_cons, List.not_mem_nil, or_false] at ho
    rcases ho with rfl | rfl | rfl <;> exact Or.inl ⟨by decide, by decide⟩

/-- for `php` the parser of the sub-command is the whole parser (nothing to expand) -/
theorem oph_parseArgs_raw (argv : List String) (b : Ns) (h : parseArgs phpS argv = .ok b) :
    parseRaw phpS argv = .ok b := by
  have hR : ∀ o ∈ mainOpts phpS, dtot_binds dtot_notoks o := by
    intro o ho
    rw [oph_mainOpts] at ho
    apply dtot_bindOne_notoks
    rcases oph_phpS_opts o ho with ⟨ha, _⟩ | ⟨ha, _⟩ <;> rw [ha] <;> decide
  have hp := dtot_parseRaw phpS oph_mainOK hR argv
  unfold parseArgs at h
  cases hr : parseRaw phpS argv with
  | error e => rw [hr] at h; cases h
  | ok b0 =>
    rw [hr] at h
    dsimp only at h
    rw [dtot_expand_notoks phpS b0 (fun p hp' l => by
      obtain ⟨o, _, ho⟩ := hp.2 b0 hr p hp'
      exact ho l)] at h
    exact h

/-- what a successful parse of a `php` command line has bound -/
theorem oph_bindings (argv : List String) (b : Ns) (h : parseArgs phpS argv = .ok b) :
    (∀ p ∈ b, oph_PhpBinding p ∨ p = ("functional", .bool true) ∨ p = ("onto", .bool true)) ∧
    ∃ bs, oph_PhpCall bs ∧ ∀ p ∈ bs, p ∈ b := by
  have hraw := oph_parseArgs_raw argv b h
  constructor
  · have hR : ∀ o ∈ mainOpts phpS, dtot_binds oph_R o := by
      intro o ho; rw [oph_mainOpts] at ho; exact oph_binds_R o ho
    intro p hp
    obtain ⟨o, ho, hr⟩ := (dtot_parseRaw phpS oph_mainOK hR argv).2 b hraw p hp
    rw [oph_mainOpts] at ho
    rcases hr with ⟨_, hb⟩ | ⟨hna, hd, ht⟩
    · exact Or.inl hb
    · rcases oph_phpS_opts o ho with ⟨ha, _⟩ | ⟨_, har, hfv, _, hdest⟩
      · exact absurd ha hna
      · unfold og_typedBy at ht
        rw [har] at ht
        dsimp only at ht
        rw [hfv] at ht
        obtain ⟨k, v⟩ := p
        simp only at hd ht
        subst ht
        rcases hdest with hd' | hd'
        · exact Or.inr (Or.inl (by rw [← hd, hd']))
        · exact Or.inr (Or.inr (by rw [← hd, hd']))
  · have hpos : (⟨"pigeonholes", ["pigeonholes"], true, "PHPArgs", "", "*", [], false, .none, false, .none, false, false,
        [], "", [], ""⟩ : OptSpec) ∈ positionals phpS := by decide
    exact oph_parseRaw oph_Q_mono phpS (fun o _ => oph_binds_Q o) argv b hraw _ hpos rfl

/-! ### Part 3: the namespace of `php`, and the path `build_formula` takes -/

theorem oph_defaults : defaults phpS = [("pigeonholes", .none), ("functional", .bool false), ("onto", .bool false)] := by
  decide

theorem oph_lookup_ns (b : Ns) (k : String) :
    (namespaceOf phpS b).lookup k = (match b.lookup k with | some v => some v | none => (defaults phpS).lookup k) := by
  unfold namespaceOf
  rw [List.lookup_append]
  cases b.lookup k <;> rfl

/-- a binding with one of the four keys of `PHPArgs`, or a flag -/
theorem oph_typed_key (b : Ns) (hb : ∀ p ∈ b, oph_PhpBinding p ∨ p = ("functional", .bool true) ∨ p = ("onto", .bool true))
    (k : String) (v : Val) (h : b.lookup k = some v) :
    (k = "B" ∧ ∃ toks, v = .graph "bipartite" toks) ∨ (k = "degree" ∧ ∃ i, v = .int i) ∨ (k = "holes" ∧ ∃ i, v = .int i) ∨
    (k = "pigeons" ∧ ∃ i, v = .int i) ∨ (k = "functional" ∧ v = .bool true) ∨ (k = "onto" ∧ v = .bool true) := by
  have hm := dtot_lookup_mem b k v h
  rcases hb _ hm with (⟨toks, he⟩ | ⟨i, he⟩ | ⟨i, he⟩ | ⟨i, he⟩) | he | he
  · cases he; exact Or.inl ⟨rfl, toks, rfl⟩
  · cases he; exact Or.inr (Or.inl ⟨rfl, i, rfl⟩)
  · cases he; exact Or.inr (Or.inr (Or.inl ⟨rfl, i, rfl⟩))
  · cases he; exact Or.inr (Or.inr (Or.inr (Or.inl ⟨rfl, i, rfl⟩)))
  · cases he; exact Or.inr (Or.inr (Or.inr (Or.inr (Or.inl ⟨rfl, rfl⟩))))
  · cases he; exact Or.inr (Or.inr (Or.inr (Or.inr (Or.inr ⟨rfl, rfl⟩))))

/-- what the namespace holds after a successful parse: the two flags are booleans; `B` is a bipartite graph argument, or
`B` is absent and `degree`, `holes`, `pigeons` are integers -/
theorem oph_ns (argv : List String) (b : Ns) (h : parseArgs phpS argv = .ok b) :
    (∃ x, (namespaceOf phpS b).lookup "functional" = some (.bool x)) ∧
    (∃ y, (namespaceOf phpS b).lookup "onto" = some (.bool y)) ∧
    ((∃ toks, (namespaceOf phpS b).lookup "B" = some (.graph "bipartite" toks)) ∨
     ((namespaceOf phpS b).lookup "B" = none ∧ ∃ d hh p, (namespaceOf phpS b).lookup "degree" = some (.int d) ∧
        (namespaceOf phpS b).lookup "holes" = some (.int hh) ∧ (namespaceOf phpS b).lookup "pigeons" = some (.int p))) := by
  obtain ⟨hb, bs, hcall, hsub⟩ := oph_bindings argv b h
  have T := oph_typed_key b hb
  have flag : ∀ k, (k = "functional" ∨ k = "onto") → ∃ x, (namespaceOf phpS b).lookup k = some (.bool x) := by
    intro k hk
    rw [oph_lookup_ns]
    cases hl : b.lookup k with
    | some v =>
      rcases T k v hl with ⟨hk', _⟩ | ⟨hk', _⟩ | ⟨hk', _⟩ | ⟨hk', _⟩ | ⟨_, rfl⟩ | ⟨_, rfl⟩
      all_goals first
        | exact ⟨true, rfl⟩
        | (rcases hk with hk | hk <;> rw [hk] at hk' <;> exact absurd hk' (by decide))
    | none =>
      rw [oph_defaults]
      rcases hk with rfl | rfl
      · exact ⟨false, rfl⟩
      · exact ⟨false, rfl⟩
  have int3 : ∀ k, (k = "degree" ∨ k = "holes" ∨ k = "pigeons") → (∃ w, (k, w) ∈ b) →
      ∃ i, (namespaceOf phpS b).lookup k = some (.int i) := by
    intro k hk ⟨w, hw⟩
    obtain ⟨v, hv⟩ := dtot_lookup_some b k w hw
    rw [oph_lookup_ns, hv]
    rcases T k v hv with ⟨hk', _⟩ | ⟨_, i, rfl⟩ | ⟨_, i, rfl⟩ | ⟨_, i, rfl⟩ | ⟨hk', _⟩ | ⟨hk', _⟩
    all_goals first
      | exact ⟨i, rfl⟩
      | (rcases hk with hk | hk | hk <;> rw [hk] at hk' <;> exact absurd hk' (by decide))
  refine ⟨flag _ (Or.inl rfl), flag _ (Or.inr rfl), ?_⟩
  cases hl : b.lookup "B" with
  | some v =>
    left
    rw [oph_lookup_ns, hl]
    rcases T "B" v hl with ⟨_, toks, rfl⟩ | ⟨hk, _⟩ | ⟨hk, _⟩ | ⟨hk, _⟩ | ⟨hk, _⟩ | ⟨hk, _⟩
    all_goals first
      | exact ⟨toks, rfl⟩
      | exact absurd hk (by decide)
  | none =>
    right
    refine ⟨by rw [oph_lookup_ns, hl, oph_defaults]; rfl, ?_⟩
    rcases hcall with ⟨toks, rfl⟩ | ⟨d, hh, pp, rfl⟩
    · obtain ⟨v, hv⟩ := dtot_lookup_some b "B" _ (hsub _ (List.mem_cons_self ..))
      rw [hl] at hv; cases hv
    · obtain ⟨d', hd'⟩ := int3 "degree" (Or.inl rfl) ⟨Val.int d, hsub _ (by simp)⟩
      obtain ⟨h', hh'⟩ := int3 "holes" (Or.inr (Or.inl rfl)) ⟨Val.int hh, hsub _ (by simp)⟩
      obtain ⟨p', hp'⟩ := int3 "pigeons" (Or.inr (Or.inr rfl)) ⟨Val.int pp, hsub _ (by simp)⟩
      exact ⟨d', h', p', hd', hh', hp'⟩

def phpT1 : CallTemplate :=
  ⟨(.and (.hasattr "B") (.isNotNone (.arg "B"))), "", "GraphPigeonholePrinciple", [(.arg "B")],
    [("functional", (.arg "functional")), ("onto", (.arg "onto")), ("formula_class", (.name "formula_class"))], []⟩
def phpT2 : CallTemplate :=
  ⟨(.and (.not (.and (.hasattr "B") (.isNotNone (.arg "B")))) (.cmp "==" (.arg "holes") (.arg "degree"))), "",
    "PigeonholePrinciple", [(.arg "pigeons"), (.arg "holes")],
    [("functional", (.arg "functional")), ("onto", (.arg "onto")), ("formula_class", (.name "formula_class"))], []⟩
def phpT3 : CallTemplate :=
  ⟨(.and (.not (.and (.hasattr "B") (.isNotNone (.arg "B")))) (.not (.cmp "==" (.arg "holes") (.arg "degree")))), "",
    "GraphPigeonholePrinciple",
    [(.opaque "bipartite_random_left_regular(args.pigeons, args.holes, args.degree)" ["pigeons", "holes", "degree"])],
    [("functional", (.arg "functional")), ("onto", (.arg "onto")), ("formula_class", (.name "formula_class"))], []⟩

theorem oph_templates : phpS.templates = [phpT1, phpT2, phpT3] := rfl

def phpKw (x y : Bool) : List (String × Val) :=
  [("functional", .bool x), ("onto", .bool y), ("formula_class", .param "formula_class")]

/-- the three paths of `PHPCmdHelper.build_formula`, on a namespace the parser produced -/
theorem oph_paths (argv : List String) (b : Ns) (h : parseArgs phpS argv = .ok b) :
    ∃ x y,
      (∃ toks, (namespaceOf phpS b).lookup "B" = some (.graph "bipartite" toks) ∧
        dispatchTemplate phpS argv = .ok (phpT1, namespaceOf phpS b) ∧
        instantiate (namespaceOf phpS b) phpT1 = .ok ⟨"GraphPigeonholePrinciple", [.graph "bipartite" toks], phpKw x y⟩) ∨
      (∃ pp hh, (namespaceOf phpS b).lookup "pigeons" = some (.int pp) ∧
        (namespaceOf phpS b).lookup "holes" = some (.int hh) ∧
        dispatchTemplate phpS argv = .ok (phpT2, namespaceOf phpS b) ∧
        instantiate (namespaceOf phpS b) phpT2 = .ok ⟨"PigeonholePrinciple", [.int pp, .int hh], phpKw x y⟩) ∨
      (dispatchTemplate phpS argv = .ok (phpT3, namespaceOf phpS b) ∧
        instantiate (namespaceOf phpS b) phpT3 = .ok ⟨"GraphPigeonholePrinciple",
          [.opaque "bipartite_random_left_regular(args.pigeons, args.holes, args.degree)"], phpKw x y⟩) := by
  obtain ⟨⟨x, hx⟩, ⟨y, hy⟩, hB⟩ := oph_ns argv b h
  refine ⟨x, y, ?_⟩
  have hsup : (!phpS.supported) = false := by decide
  have hdt : ∀ t, selectTemplate (namespaceOf phpS b) phpS.templates = .ok t →
      dispatchTemplate phpS argv = .ok (t, namespaceOf phpS b) := by
    intro t ht
    unfold dispatchTemplate
    rw [hsup, h]
    dsimp only
    rw [ht]
    rfl
  have hkw : evalKw (namespaceOf phpS b)
      [("functional", (.arg "functional")), ("onto", (.arg "onto")), ("formula_class", (.name "formula_class"))] =
      some (phpKw x y) := by
    simp [evalKw, evalE, hx, hy, phpKw]
  rcases hB with ⟨toks, hb⟩ | ⟨hb, d, hh, pp, hd, hhh, hp⟩
  · left
    have hg : evalGuard (namespaceOf phpS b) phpT1.guard = some true := by
      simp [phpT1, evalGuard, evalE, hb, isNoneV, truthy]
    have hsel : selectTemplate (namespaceOf phpS b) phpS.templates = .ok phpT1 := by
      rw [oph_templates]
      simp only [selectTemplate, hg]
    refine ⟨toks, hb, hdt _ hsel, ?_⟩
    simp [instantiate, phpT1, shielded, evalPos, evalE, hb, hkw]
  · have hg1 : evalGuard (namespaceOf phpS b) phpT1.guard = some false := by
      simp [phpT1, evalGuard, evalE, hb, truthy]
    by_cases heq : hh = d
    · right; left
      have hg2 : evalGuard (namespaceOf phpS b) phpT2.guard = some true := by
        simp [phpT2, evalGuard, evalE, hb, hhh, hd, truthy, evalCmp, valEq, heq]
      have hsel : selectTemplate (namespaceOf phpS b) phpS.templates = .ok phpT2 := by
        rw [oph_templates]
        simp only [selectTemplate, hg1, hg2]
      refine ⟨pp, hh, hp, hhh, hdt _ hsel, ?_⟩
      simp [instantiate, phpT2, shielded, evalPos, evalE, hp, hhh, hkw]
    · right; right
      have hg2 : evalGuard (namespaceOf phpS b) phpT2.guard = some false := by
        simp [phpT2, evalGuard, evalE, hb, hhh, hd, truthy, evalCmp, valEq, heq]
      have hg3 : evalGuard (namespaceOf phpS b) phpT3.guard = some true := by
        simp [phpT3, evalGuard, evalE, hb, hhh, hd, truthy, evalCmp, valEq, heq]
      have hsel : selectTemplate (namespaceOf phpS b) phpS.templates = .ok phpT3 := by
        rw [oph_templates]
        simp only [selectTemplate, hg1, hg2, hg3]
      refine ⟨hdt _ hsel, ?_⟩
      simp [instantiate, phpT3, shielded, evalPos, evalE, hkw]

/-- the outcome of a run whose path and call are known -/
theorem oph_outcome (env : GraphEnv) (h : HelperSpec) (s : CliSpec) (hspec : specOf h = some s) (argv : List String)
    (t : CallTemplate) (ns : Ns) (c : Call) (h1 : dispatchTemplate s argv = .ok (t, ns)) (h2 : instantiate ns t = .ok c) :
    cliOutcomeG env h argv = (evalCallAny env ⟨1, 0, [[], []], []⟩ ns c).map Built.outcome := by
  unfold cliOutcomeG
  rw [hspec]
  dsimp only
  rw [h1]
  dsimp only
  rw [h2]

theorem oph_outcome_err (env : GraphEnv) (h : HelperSpec) (s : CliSpec) (hspec : specOf h = some s) (argv : List String)
    (h1 : dispatchTemplate s argv = .error .cliError) : cliOutcomeG env h argv = some .cliError := by
  unfold cliOutcomeG
  rw [hspec]
  dsimp only
  rw [h1]

theorem oph_eval1 (env : GraphEnv) (ns : Ns) (toks : List String) (x y : Bool) :
    evalCallAny env ⟨1, 0, [[], []], []⟩ ns ⟨"GraphPigeonholePrinciple", [.graph "bipartite" toks], phpKw x y⟩ =
      some (withB (env.bip 0 toks) fun B => .ok (Fam.gphp B x y)) := by
  cases x <;> cases y <;> rfl

theorem oph_eval2 (env : GraphEnv) (ns : Ns) (pp hh : Int) (x y : Bool) :
    evalCallAny env ⟨1, 0, [[], []], []⟩ ns ⟨"PigeonholePrinciple", [.int pp, .int hh], phpKw x y⟩ =
      some (.result (Fam.php pp hh x y)) := by
  cases x <;> cases y <;> rfl

theorem oph_eval3 (env : GraphEnv) (ns : Ns) (src : String) (x y : Bool) :
    evalCallAny env ⟨1, 0, [[], []], []⟩ ns ⟨"GraphPigeonholePrinciple", [.opaque src], phpKw x y⟩ = none := by
  cases x <;> cases y <;> rfl

end Cnfgen.Cli
