/-
Assignments restricted to the variables `1..N`, and the fact that a well-formed formula only
looks at them — the setting of the "exactly one assignment per object" statements.
-/
import Lemmas.C01Basic
namespace Cnfgen.Fam
open Cnfgen

/-- an assignment to the variables `1..N` (variable `x` at index `x - 1`), extended by `false` -/
def extend {N : Nat} (a : Fin N → Bool) : Assign :=
  fun x => if h : 1 ≤ x ∧ x ≤ N then a ⟨x - 1, by omega⟩ else false

/-- the restriction of an assignment to the variables `1..N` -/
def restrict (N : Nat) (α : Assign) : Fin N → Bool := fun i => α (i.val + 1)

theorem restrict_extend {N : Nat} (a : Fin N → Bool) : restrict N (extend a) = a := by
  funext i
  have h : 1 ≤ i.val + 1 ∧ i.val + 1 ≤ N := ⟨by omega, i.isLt⟩
  simp only [restrict, extend, dif_pos h]
  congr

theorem extend_restrict (N : Nat) (α : Assign) {x : Nat} (h1 : 1 ≤ x) (h2 : x ≤ N) :
    extend (restrict N α) x = α x := by
  simp only [extend, restrict, dif_pos (And.intro h1 h2)]
  congr 1; omega

theorem extend_apply {N : Nat} (a : Fin N → Bool) {x : Nat} (h1 : 1 ≤ x) (h2 : x ≤ N) :
    extend a x = a ⟨x - 1, by omega⟩ := by
  simp only [extend, dif_pos (And.intro h1 h2)]

theorem litHolds_congr (α β : Assign) (l : Int) (h : α l.natAbs = β l.natAbs) :
    litHolds α l = litHolds β l := by
  simp only [litHolds, h]

theorem Con.holds_congr (α β : Assign) (N : Nat) (c : Con)
    (hc : ∀ l ∈ c.lits, l ≠ 0 ∧ l.natAbs ≤ N)
    (h : ∀ x, 1 ≤ x → x ≤ N → α x = β x) : c.holds α = c.holds β := by
  have hl : ∀ l ∈ c.lits, litHolds α l = litHolds β l := by
    intro l hl
    have := hc l hl
    exact litHolds_congr α β l (h _ (by omega) this.2)
  have hcount : ∀ ls, ls = c.lits → count α ls = count β ls := by
    intro ls e; subst e
    simp only [count]; exact List.countP_congr (fun l hm => by simp [hl l hm])
  cases c with
  | clause cl =>
    simp only [Con.holds, clauseHolds]
    rw [Bool.eq_iff_iff]
    simp only [List.any_eq_true]
    constructor
    · rintro ⟨l, hm, h'⟩; exact ⟨l, hm, by rw [← hl l hm]; exact h'⟩
    · rintro ⟨l, hm, h'⟩; exact ⟨l, hm, by rw [hl l hm]; exact h'⟩
  | lin ls o k => simp only [Con.holds, hcount ls rfl]
  | parity ls b => simp only [Con.holds, hcount ls rfl]
  | maj kind ls => cases kind <;> simp only [Con.holds, hcount ls rfl]

/-- a well-formed formula only looks at the variables `1..nvars` -/
theorem Formula.holds_congr (F : Formula) (hwf : F.WF) (α β : Assign)
    (h : ∀ x, 1 ≤ x → x ≤ F.nvars → α x = β x) : F.holds α = F.holds β := by
  simp only [Formula.holds]
  rw [Bool.eq_iff_iff]
  simp only [List.all_eq_true]
  constructor
  · intro h' c hc; rw [← Con.holds_congr α β F.nvars c (hwf c hc) h]; exact h' c hc
  · intro h' c hc; rw [Con.holds_congr α β F.nvars c (hwf c hc) h]; exact h' c hc

theorem Formula.holds_extend_restrict (F : Formula) (hwf : F.WF) (α : Assign) :
    F.holds (extend (restrict F.nvars α)) = F.holds α :=
  Formula.holds_congr F hwf _ _ (fun _ h1 h2 => extend_restrict F.nvars α h1 h2)

end Cnfgen.Fam
