/-
Lemmas about the run-time library of the translator (`CnfgenModel/Core/Py.lean`): how the meaning of
each Python construct computes on the values the model uses (naturals seen as integers).
-/
import CnfgenModel.Core.Py
namespace Cnfgen
namespace Py

@[simp] theorem len_eq {α : Type} (l : List α) : Py.len l = (l.length : Int) := rfl

@[simp] theorem abs_eq (x : Int) : Py.abs x = (x.natAbs : Int) := rfl

theorem sum_eq_aux (l : List Int) (a : Int) : l.foldl (· + ·) a = a + l.sum := by
  induction l generalizing a with
  | nil => simp
  | cons x xs ih => simp [ih, Int.add_assoc]

theorem sum_eq (l : List Int) : Py.sum l = l.sum := by
  simp [Py.sum, sum_eq_aux]

@[simp] theorem sum_nil : Py.sum [] = 0 := rfl
@[simp] theorem sum_cons (x : Int) (xs : List Int) : Py.sum (x :: xs) = x + Py.sum xs := by
  simp [sum_eq]

theorem itertoolsR_nonneg (r : Int) (h : 0 ≤ r) : Py.itertoolsR r = .ok r.toNat := by
  have : ¬ (r < 0) := by omega
  simp [Py.itertoolsR, this]

theorem itertoolsR_neg (r : Int) (h : r < 0) : Py.itertoolsR r = .error .valueError := by
  simp [Py.itertoolsR, h]

/-- `l[-1]` of a non-empty list -/
theorem index_neg_one {α : Type} (l : List α) (a : α) : Py.index (l ++ [a]) (-1) = .ok a := by
  simp [Py.index]; omega

theorem index_nat {α : Type} (l : List α) (i : Nat) (h : i < l.length) : Py.index l (i : Int) = .ok l[i] := by
  simp [Py.index, h]

theorem index_nat_none {α : Type} (l : List α) (i : Nat) (h : l.length ≤ i) : Py.index l (i : Int) = .error .indexError := by
  simp [Py.index, h]

@[simp] theorem index_zero {α : Type} (a : α) (l : List α) : Py.index (a :: l) 0 = .ok a := by
  simp [Py.index]

@[simp] theorem index_one {α : Type} (a b : α) (l : List α) : Py.index (a :: b :: l) 1 = .ok b := by
  simp [Py.index]

theorem pop_append {α : Type} (l : List α) (a : α) : Py.pop (l ++ [a]) = .ok (a, l) := by
  simp [Py.pop]

theorem floordiv_nat (a b : Nat) (hb : 0 < b) : Py.floordiv (a : Int) (b : Int) = .ok ((a / b : Nat) : Int) := by
  have : b ≠ 0 := by omega
  simp [Py.floordiv, this, Int.fdiv_eq_ediv_of_nonneg]

theorem mod_nat (a b : Nat) (hb : 0 < b) : Py.mod (a : Int) (b : Int) = .ok ((a % b : Nat) : Int) := by
  have : b ≠ 0 := by omega
  simp [Py.mod, this, Int.fmod_eq_emod_of_nonneg]

theorem range_contains (a b x : Int) : Py.Range.contains ⟨a, b⟩ x = true ↔ a ≤ x ∧ x < b := by
  simp [Py.Range.contains]

theorem range_len_nat (a : Int) (n : Nat) : Py.Range.len ⟨a, a + n⟩ = n := by
  simp [Py.Range.len]; omega

theorem tryExcept_ok {α β : Type} (a : α) (kind : Err) (h : Except Err β) (rest : α → Except Err β) :
    Py.tryExcept (.ok a) kind h rest = rest a := rfl

theorem tryExcept_error {α β : Type} (e kind : Err) (h : Except Err β) (rest : α → Except Err β) :
    Py.tryExcept (.error e) kind h rest = if e = kind then h else .error e := rfl

@[simp] theorem ok_bind {α β : Type} (a : α) (f : α → Except Err β) : (Except.ok a : Except Err α) >>= f = f a := rfl
@[simp] theorem error_bind {α β : Type} (e : Err) (f : α → Except Err β) :
    (Except.error e : Except Err α) >>= f = Except.error e := rfl
@[simp] theorem map_ok {α β : Type} (a : α) (f : α → β) : Except.map f (Except.ok a : Except Err α) = Except.ok (f a) := rfl
@[simp] theorem map_error {α β : Type} (e : Err) (f : α → β) :
    Except.map f (Except.error e : Except Err α) = Except.error e := rfl
@[simp] theorem pure_eq {α : Type} (a : α) : (pure a : Except Err α) = Except.ok a := rfl

/-- loops with pointwise equal bodies are equal (the generated body is matched up to unfolding) -/
theorem foldlM_ext {σ α : Type} (f g : σ → α → Except Err σ) (h : ∀ s a, f s a = g s a) (init : σ) (l : List α) :
    List.foldlM f init l = List.foldlM g init l := by
  rw [show f = g from funext fun s => funext fun a => h s a]

theorem foldl_ext {σ α : Type} (f g : σ → α → σ) (h : ∀ s a, f s a = g s a) (init : σ) (l : List α) :
    List.foldl f init l = List.foldl g init l := by
  rw [show f = g from funext fun s => funext fun a => h s a]

/-! ### `bisect.bisect_right`: the binary search finds the boundary `k` of a list `[?, ≤ x, …, ≤ x, > x, …, > x]`
(entry 0 is never inspected when the boundary is at least 2: `mid = (lo + hi) // 2 ≥ 1` as long as `hi ≥ 2`) -/

theorem bisectLoop_eq (l : List (Option Int)) (x : Int) (k : Nat) (hk2 : 2 ≤ k)
    (hlo : ∀ i, 1 ≤ i → i < k → ∃ y, l[i]? = some (some y) ∧ y ≤ x)
    (hhi : ∀ i, k ≤ i → i < l.length → ∃ y, l[i]? = some (some y) ∧ x < y) :
    ∀ (fuel lo hi : Nat), hi - lo < fuel → lo ≤ k → k ≤ hi → hi ≤ l.length →
      Py.bisectLoop l x fuel lo hi = .ok k := by
  intro fuel
  induction fuel with
  | zero => intro lo hi h; omega
  | succ fuel ih =>
    intro lo hi hf h1 h2 h3
    unfold Py.bisectLoop
    by_cases hlt : lo < hi
    · rw [if_pos hlt]
      by_cases hmk : (lo + hi) / 2 < k
      · obtain ⟨y, hy, hyx⟩ := hlo ((lo + hi) / 2) (by omega) hmk
        simp only [hy]
        rw [if_neg (by omega)]
        exact ih _ _ (by omega) (by omega) h2 h3
      · obtain ⟨y, hy, hyx⟩ := hhi ((lo + hi) / 2) (by omega) (by omega)
        simp only [hy]
        rw [if_pos hyx]
        exact ih _ _ (by omega) h1 (by omega) (by omega)
    · rw [if_neg hlt]
      congr 1
      omega

/-- `bisect_right(l, x)` on a list whose entries from position 1 on are numbers, `≤ x` before position `k ≥ 2`
and `> x` from `k` on: the answer is `k`, and entry 0 (a `None`) is never compared -/
theorem bisectRight_eq_of (l : List (Option Int)) (x : Int) (k : Nat) (hk2 : 2 ≤ k) (hkl : k ≤ l.length)
    (hlo : ∀ i, 1 ≤ i → i < k → ∃ y, l[i]? = some (some y) ∧ y ≤ x)
    (hhi : ∀ i, k ≤ i → i < l.length → ∃ y, l[i]? = some (some y) ∧ x < y) :
    Py.bisectRight l x = .ok (k : Int) := by
  unfold Py.bisectRight
  rw [bisectLoop_eq l x k hk2 hlo hhi _ 0 l.length (by omega) (by omega) hkl (Nat.le_refl _)]
  rfl

end Py
end Cnfgen
