/-
Counting satisfying assignments by an explicit bijection.
`Models F` = satisfying assignments of `F` over its own variables `1 … F.nvars`.
`modelsEquiv`: an encoding `enc : Obj → Assign` that (1) always satisfies `F`, (2) reaches every
satisfying assignment up to agreement on `1 … nvars`, (3) is injective up to that agreement, gives a
bijection `Models F ≃ Obj` — "one satisfying assignment per witness", without cardinal arithmetic.
-/
import Mathlib.Logic.Equiv.Defs
import Lemmas.FamMapList
namespace Cnfgen

/-- the two assignments agree on the variables `1 … n` -/
def AgreeOn (n : Nat) (α β : Assign) : Prop := ∀ x, 1 ≤ x → x ≤ n → α x = β x

theorem AgreeOn.symm {n : Nat} {α β : Assign} (h : AgreeOn n α β) : AgreeOn n β α :=
  fun x h1 h2 => (h x h1 h2).symm

theorem AgreeOn.trans {n : Nat} {α β γ : Assign} (h : AgreeOn n α β) (h' : AgreeOn n β γ) : AgreeOn n α γ :=
  fun x h1 h2 => (h x h1 h2).trans (h' x h1 h2)

theorem litHolds_congr {n : Nat} {α β : Assign} (hab : AgreeOn n α β) {l : Int} (h0 : l ≠ 0) (hl : l.natAbs ≤ n) :
    litHolds α l = litHolds β l := by
  have := hab l.natAbs (by omega) hl
  simp [litHolds, this]

theorem Con.holds_congr {n : Nat} {α β : Assign} (hab : AgreeOn n α β) (c : Con)
    (hwf : ∀ l ∈ c.lits, l ≠ 0 ∧ l.natAbs ≤ n) : c.holds α = c.holds β := by
  have hc : ∀ ls : List Int, (∀ l ∈ ls, l ≠ 0 ∧ l.natAbs ≤ n) → count α ls = count β ls := by
    intro ls h
    unfold count
    apply List.countP_congr
    intro l hl
    rw [litHolds_congr hab (h l hl).1 (h l hl).2]
  cases c with
  | clause cl =>
    simp only [Con.holds, clauseHolds]
    rw [Bool.eq_iff_iff]
    simp only [List.any_eq_true]
    constructor
    · rintro ⟨l, hl, h⟩; exact ⟨l, hl, by rwa [← litHolds_congr hab (hwf l hl).1 (hwf l hl).2]⟩
    · rintro ⟨l, hl, h⟩; exact ⟨l, hl, by rwa [litHolds_congr hab (hwf l hl).1 (hwf l hl).2]⟩
  | lin ls o k => simp only [Con.holds, hc ls hwf]
  | parity ls b => simp only [Con.holds, hc ls hwf]
  | maj kind ls => cases kind <;> simp only [Con.holds, hc ls hwf]

/-- a well-formed formula only reads the variables `1 … nvars` -/
theorem Formula.holds_congr {α β : Assign} (F : Formula) (h : F.WF) (hab : AgreeOn F.nvars α β) :
    F.holds α = F.holds β := by
  unfold Formula.holds
  rw [Bool.eq_iff_iff]
  simp only [List.all_eq_true]
  constructor
  · intro hh c hc; rw [← Con.holds_congr hab c (h c hc)]; exact hh c hc
  · intro hh c hc; rw [Con.holds_congr hab c (h c hc)]; exact hh c hc

/-- restriction of an assignment to the variables `1 … n` -/
def restrict (n : Nat) (α : Assign) : Fin n → Bool := fun i => α (i.val + 1)

/-- extension by `false` -/
def extend (n : Nat) (a : Fin n → Bool) : Assign :=
  fun x => if h : 1 ≤ x ∧ x ≤ n then a ⟨x - 1, by omega⟩ else false

theorem extend_restrict (n : Nat) (α : Assign) : AgreeOn n (extend n (restrict n α)) α := by
  intro x h1 h2
  simp only [extend, restrict, h1, h2, and_self, dite_true]
  congr 1; omega

theorem restrict_extend (n : Nat) (a : Fin n → Bool) : restrict n (extend n a) = a := by
  funext i
  have h : 1 ≤ i.val + 1 ∧ i.val + 1 ≤ n := ⟨by omega, by have := i.isLt; omega⟩
  simp only [restrict, extend, h, and_self, dite_true]
  rfl

theorem restrict_congr {n : Nat} {α β : Assign} (h : AgreeOn n α β) : restrict n α = restrict n β := by
  funext i
  exact h (i.val + 1) (by omega) (by have := i.isLt; omega)

/-- satisfying assignments of `F` over its own variables -/
def Models (F : Formula) : Type := {a : Fin F.nvars → Bool // F.holds (extend F.nvars a) = true}

/-- one satisfying assignment per object -/
noncomputable def modelsEquiv (F : Formula) (hwf : F.WF) {Obj : Type} (enc : Obj → Assign)
    (h1 : ∀ o, F.holds (enc o) = true)
    (h2 : ∀ α, F.holds α = true → ∃ o, AgreeOn F.nvars α (enc o))
    (h3 : ∀ o o', AgreeOn F.nvars (enc o) (enc o') → o = o') : Models F ≃ Obj where
  toFun a := Classical.choose (h2 (extend F.nvars a.1) a.2)
  invFun o := ⟨restrict F.nvars (enc o), by
    rw [Formula.holds_congr F hwf (extend_restrict F.nvars (enc o))]; exact h1 o⟩
  left_inv a := by
    apply Subtype.ext
    have := Classical.choose_spec (h2 (extend F.nvars a.1) a.2)
    show restrict F.nvars (enc _) = a.1
    rw [← restrict_congr this, restrict_extend]
  right_inv o := by
    have hm : F.holds (extend F.nvars (restrict F.nvars (enc o))) = true := by
      rw [Formula.holds_congr F hwf (extend_restrict F.nvars (enc o))]; exact h1 o
    have := Classical.choose_spec (h2 (extend F.nvars (restrict F.nvars (enc o))) hm)
    exact h3 _ _ (this.symm.trans (extend_restrict F.nvars (enc o)))

namespace Fam
namespace G2

/-- The pattern shared by all families over one unary mapping group that starts at identifier 1:
if `F` holds exactly under the assignments that encode a table with property `P`, then
`l ↦ encode 1 k N l` is a bijection between the tables with `P` and the satisfying assignments
(restricted to the variables of `F`). -/
theorem unary_counting (F : Formula) (k N : Nat) (hn : F.nvars = k * N) (P : List Nat → Prop)
    (hF : ∀ α, F.holds α = true ↔ ∃ l, P l ∧ EncL 1 k N α l)
    (hP : ∀ l, P l → l.length = k ∧ ∀ v ∈ l, 1 ≤ v ∧ v ≤ N) :
    (∀ l, P l → F.holds (encode 1 k N l) = true) ∧
    (∀ α, F.holds α = true → ∃ l, P l ∧ AgreeOn F.nvars α (encode 1 k N l)) ∧
    (∀ l l', P l → P l' → AgreeOn F.nvars (encode 1 k N l) (encode 1 k N l') → l = l') := by
  refine ⟨?_, ?_, ?_⟩
  · intro l hl
    exact (hF _).2 ⟨l, hl, encode_encL (hP l hl).1 (hP l hl).2⟩
  · intro α hα
    obtain ⟨l, hl, he⟩ := (hF α).1 hα
    refine ⟨l, hl, ?_⟩
    intro x h1 h2
    exact he.agree (encode_encL (hP l hl).1 (hP l hl).2) h1 (by omega)
  · intro l l' hl hl' hag
    have e := encode_encL (st := 1) (hP l hl).1 (hP l hl).2
    have e' := encode_encL (st := 1) (hP l' hl').1 (hP l' hl').2
    exact (e.congr (fun x h1 h2 => hag x h1 (by omega))).unique e'

/-- the same, packaged as a bijection -/
theorem unary_counting_equiv (F : Formula) (hwf : F.WF) (k N : Nat) (hn : F.nvars = k * N) (P : List Nat → Prop)
    (hF : ∀ α, F.holds α = true ↔ ∃ l, P l ∧ EncL 1 k N α l)
    (hP : ∀ l, P l → l.length = k ∧ ∀ v ∈ l, 1 ≤ v ∧ v ≤ N) :
    Nonempty (Models F ≃ {l : List Nat // P l}) := by
  obtain ⟨a, b, c⟩ := unary_counting F k N hn P hF hP
  exact ⟨modelsEquiv F hwf (fun o : {l : List Nat // P l} => encode 1 k N o.1)
    (fun o => a o.1 o.2)
    (fun α hα => by obtain ⟨l, hl, h⟩ := b α hα; exact ⟨⟨l, hl⟩, h⟩)
    (fun o o' h => Subtype.ext (c o.1 o'.1 o.2 o'.2 h))⟩

end G2
end Fam
end Cnfgen
