/-
Helper lemmas for the translated `BipartiteEdgesVariables` (`Props/C11/GeneratedBip.lean`): the object as the model
describes it (`bipSelf`), the observers of `absBip G` on the model's values, the constructor's loop (prefix sums of
the right degrees), and the correctness of CPython's binary search `Py.bisectRight` on the offsets
(`[None, o₁ ≤ o₂ ≤ …]`) against the model's linear `bisectRight`.
-/
import CnfgenModel.Vars.GenGlue
import Lemmas.GenBinary
import Lemmas.VarsBip
namespace Cnfgen.GenVars
open Cnfgen Cnfgen.Vars Cnfgen.PyGen

/-- the offsets of the rows, as Python integers: `offset[u] = start + (edges of the rows before u)` -/
def bipOffs (nv : Nat) (G : BipG) : List Nat := (List.range G.l).map (fun i => nv + 1 + degSum G i)

/-- `BipartiteEdgesVariables(F, G)` on a formula with `nv` variables, as the model describes it -/
def bipSelf (nv : Nat) (G : BipG) : BipartiteEdgesVariables :=
  { G := absBip G,
    offset := none :: ((List.range G.l).map (fun i => some (((nv + 1 + degSum G i : Nat)) : Int))),
    formula := ⟨nv⟩,
    ids := ⟨(nv : Int) + 1, (nv : Int) + (G.numberOfEdges : Nat) + 1⟩ }

theorem bipOffs_eq (nv : Nat) (G : BipG) : bipOffs nv G = (bipOffsets G (nv + 1)).drop 1 := by
  rw [bipOffsets_eq]; rfl

theorem bipSelf_offset (nv : Nat) (G : BipG) :
    (bipSelf nv G).offset = none :: (bipOffs nv G).map (fun (n : Nat) => some (n : Int)) := by
  show _ = none :: ((List.range G.l).map _).map _
  rw [List.map_map]; rfl

theorem bip_contains_iff (nv : Nat) (G : BipG) (v : Int) :
    BipartiteEdgesVariables.contains (bipSelf nv G) v = true ↔
      nv + 1 ≤ v.natAbs ∧ v.natAbs < nv + 1 + G.numberOfEdges := by
  unfold BipartiteEdgesVariables.contains Py.Range.contains
  simp only [Bool.and_eq_true, decide_eq_true_iff]
  simp only [bipSelf, Py.abs_eq]
  omega

/-! ### the observers of `absBip G` on the model's values -/

theorem abs_right_neighbors (G : BipG) {u : Nat} (hu : 1 ≤ u ∧ u ≤ G.l) :
    (absBip G).right_neighbors (u : Int) = Except.ok (ints (G.rnbrs u)) := by
  have h : (1 : Int) ≤ (u : Int) ∧ (u : Int) ≤ (G.l : Int) := by omega
  have h' : ¬ G.l < u := by omega
  simp [absBip, BipG.rightNeighbors, h, h', BipG.rnbrs, ints]

theorem abs_right_degree (G : BipG) {u : Nat} (hu : 1 ≤ u ∧ u ≤ G.l) :
    (absBip G).right_degree (u : Int) = Except.ok (((G.rnbrs u).length : Nat) : Int) := by
  have h : (1 : Int) ≤ (u : Int) ∧ (u : Int) ≤ (G.l : Int) := by omega
  have h' : ¬ G.l < u := by omega
  simp [absBip, BipG.rightDegree, BipG.rightNeighbors, h, h', BipG.rnbrs, bind, Except.bind, pure, Except.pure]

theorem idxOf_ints (l : List Nat) (v : Nat) : (ints l).idxOf (v : Int) = l.idxOf v := by
  induction l with
  | nil => rfl
  | cons x xs ih =>
    simp only [ints, List.map_cons, List.idxOf_cons, Int.ofNat_eq_natCast] at ih ⊢
    have e : ((x : Int) == (v : Int)) = (x == v) := by
      rw [Bool.eq_iff_iff, beq_iff_eq, beq_iff_eq]; omega
    rw [e, ih]

theorem indexOf_ints {l : List Nat} {v : Nat} (hv : v ∈ l) :
    Py.indexOf (ints l) (v : Int) = Except.ok ((l.idxOf v : Nat) : Int) := by
  have : l.idxOf v < l.length := List.idxOf_lt_length_iff.2 hv
  simp [Py.indexOf, idxOf_ints, this, ints]

/-! ### the constructor's loop -/

theorem rangeN_one_succ (n : Nat) : rangeN 1 (n + 1 + 1) = rangeN 1 (n + 1) ++ [n + 1] := by
  simp [rangeN, List.range_succ]

theorem offsets_snoc (nv : Nat) (G : BipG) (m : Nat) :
    none :: (List.range (m + 1)).map (fun i => some (((nv + 1 + degSum G i : Nat)) : Int)) =
      (none :: (List.range m).map (fun i => some (((nv + 1 + degSum G i : Nat)) : Int))) ++
        [some (((nv + 1 + degSum G m : Nat)) : Int)] := by
  rw [List.range_succ]; simp

/-- the offsets after `n` rounds of the loop: `[None, start, start + d₁, …, start + d₁ + … + dₙ]` -/
theorem offsets_loop (nv : Nat) (G : BipG) (n : Nat) (hn : n ≤ G.l) :
    List.foldlM (fun (offset : List (Option Int)) (u : Int) =>
        ((absBip G).right_degree u) >>= fun d =>
        (Py.index offset (-1)) >>= fun x =>
        (Py.unNone x) >>= fun v => Except.ok (offset ++ [some (v + d)]))
      [none, some ((nv : Int) + 1)] (ints (rangeN 1 (n + 1))) =
    Except.ok (none :: (List.range (n + 1)).map (fun i => some (((nv + 1 + degSum G i : Nat)) : Int))) := by
  induction n with
  | zero => simp [rangeN, degSum, pure, Except.pure]
  | succ n ih =>
    rw [rangeN_one_succ]
    simp only [ints, List.map_append, List.foldlM_append, List.map_cons, List.map_nil, Int.ofNat_eq_natCast] at ih ⊢
    rw [ih (by omega)]
    have hd := abs_right_degree G (u := n + 1) ⟨by omega, hn⟩
    simp only [Py.ok_bind, List.foldlM_cons, List.foldlM_nil, hd]
    rw [offsets_snoc nv G (n + 1), offsets_snoc nv G n]
    simp only [Py.index_neg_one, Py.ok_bind, Py.unNone, Py.pure_eq]
    rw [degSum_succ]
    congr 4
    push_cast
    omega

/-- `self.offset[u]` for a left vertex `u` -/
theorem offset_index (nv : Nat) (G : BipG) {u : Nat} (hu : 1 ≤ u ∧ u ≤ G.l) :
    Py.index (bipSelf nv G).offset (u : Int) = Except.ok (some (((nv + 1 + degSum G (u - 1) : Nat)) : Int)) := by
  obtain ⟨k, rfl⟩ : ∃ k, u = k + 1 := ⟨u - 1, by omega⟩
  have hk : k < G.l := by omega
  rw [Py.index_nat _ (k + 1) (by simp [bipSelf]; omega)]
  simp [bipSelf]

/-! ### `bisect_right` on the offsets: CPython's binary search (`Py.bisectRight`, on `[None, o₁, o₂, …]`) against the
model's linear scan (`bisectRight`, on `[o₁, o₂, …]`) -/

theorem bisectRight_le_length (l : List Nat) (x : Nat) : bisectRight l x ≤ l.length := by
  induction l with
  | nil => simp [bisectRight]
  | cons y ys ih =>
    unfold bisectRight
    by_cases hy : y ≤ x
    · rw [if_pos hy]; simp only [List.length_cons]; omega
    · rw [if_neg hy]; omega

/-- the entries before the answer are `≤ x` -/
theorem bisectRight_prefix (l : List Nat) (x : Nat) :
    ∀ i, i < bisectRight l x → ∃ y, l[i]? = some y ∧ y ≤ x := by
  induction l with
  | nil => intro i hi; simp [bisectRight] at hi
  | cons y ys ih =>
    intro i hi
    unfold bisectRight at hi
    by_cases hy : y ≤ x
    · rw [if_pos hy] at hi
      cases i with
      | zero => exact ⟨y, rfl, hy⟩
      | succ j =>
        obtain ⟨z, hz, hzx⟩ := ih j (by omega)
        exact ⟨z, by simpa using hz, hzx⟩
    · rw [if_neg hy] at hi; omega

/-- on a sorted list the entries from the answer on are `> x` -/
theorem bisectRight_suffix (l : List Nat) (x : Nat) (hs : l.Pairwise (· ≤ ·)) :
    ∀ i, bisectRight l x ≤ i → i < l.length → ∃ y, l[i]? = some y ∧ x < y := by
  induction l with
  | nil => intro i _ hi; simp at hi
  | cons y ys ih =>
    intro i hi hlen
    obtain ⟨hy, hys⟩ := List.pairwise_cons.1 hs
    unfold bisectRight at hi
    by_cases hyx : y ≤ x
    · rw [if_pos hyx] at hi
      cases i with
      | zero => omega
      | succ j =>
        obtain ⟨z, hz, hzx⟩ := ih hys j (by omega) (by simpa using hlen)
        exact ⟨z, by simpa using hz, hzx⟩
    · cases i with
      | zero => exact ⟨y, rfl, by omega⟩
      | succ j =>
        have hj : j < ys.length := by simpa using hlen
        refine ⟨ys[j], by simp [hj], ?_⟩
        have := hy ys[j] (List.getElem_mem hj)
        omega

/-- **`bisect.bisect_right(offset, var)`** as CPython computes it (binary search; `offset[0]` is `None`) is one more
than the model's linear `bisectRight` on `offset[1:]`, when the offsets are sorted and `offset[1] ≤ var`
(so that the `None` is never compared: no TypeError) -/
theorem py_bisectRight_offsets (offs : List Nat) (x : Nat) (hs : offs.Pairwise (· ≤ ·))
    (h0 : ∃ o, offs[0]? = some o ∧ o ≤ x) :
    Py.bisectRight (none :: offs.map (fun (n : Nat) => some (n : Int))) (x : Int) =
      Except.ok ((1 + bisectRight offs x : Nat) : Int) := by
  have hb1 : 1 ≤ bisectRight offs x := by
    obtain ⟨o, ho, hox⟩ := h0
    cases offs with
    | nil => simp at ho
    | cons y ys =>
      have : y = o := by simpa using ho
      subst this
      unfold bisectRight
      rw [if_pos hox]; omega
  have hbl := bisectRight_le_length offs x
  apply Py.bisectRight_eq_of
  · omega
  · simp only [List.length_cons, List.length_map]; omega
  · intro i hi1 hik
    obtain ⟨j, rfl⟩ : ∃ j, i = j + 1 := ⟨i - 1, by omega⟩
    obtain ⟨y, hy, hyx⟩ := bisectRight_prefix offs x j (by omega)
    exact ⟨(y : Int), by simp [hy], by omega⟩
  · intro i hik hil
    obtain ⟨j, rfl⟩ : ∃ j, i = j + 1 := ⟨i - 1, by omega⟩
    simp only [List.length_cons, List.length_map] at hil
    obtain ⟨y, hy, hyx⟩ := bisectRight_suffix offs x hs j (by omega) (by omega)
    exact ⟨(y : Int), by simp [hy], by omega⟩

theorem bipOffs_sorted (nv : Nat) (G : BipG) : (bipOffs nv G).Pairwise (· ≤ ·) := by
  unfold bipOffs
  rw [List.pairwise_map]
  refine List.pairwise_lt_range.imp ?_
  intro a b hab
  have := degSum_mono G (Nat.le_of_lt hab)
  omega

theorem bipOffs_length (nv : Nat) (G : BipG) : (bipOffs nv G).length = G.l := by simp [bipOffs]

theorem bipOffs_get (nv : Nat) (G : BipG) {i : Nat} (hi : i < G.l) :
    (bipOffs nv G)[i]? = some (nv + 1 + degSum G i) := by
  simp [bipOffs, hi]

end Cnfgen.GenVars
