/-
Lemmas about the DIMACS reader's state machine (`CnfgenModel/IO/Dimacs.lean`).
-/
import Lemmas.IOLex
namespace Cnfgen.IO

/-- tokens of a clause list as the writer lays them out: literals, then `0` -/
def enc (cs : List Clause) : List Tok := cs.flatMap clauseRow

/-- every literal is non-zero and its variable is at most `n` -/
def GoodLits (n : Nat) (c : List Int) : Prop := ∀ l ∈ c, l ≠ 0 ∧ l.natAbs ≤ n

theorem enc_nil : enc [] = [] := rfl
theorem enc_cons (c : Clause) (cs : List Clause) : enc (c :: cs) = c.map Tok.int ++ Tok.int 0 :: enc cs := by
  simp [enc, clauseRow]
theorem enc_append (a b : List Clause) : enc (a ++ b) = enc a ++ enc b := by simp [enc]
theorem enc_snoc (o : List Clause) (b : Clause) : enc (o ++ [b]) = enc o ++ b.map Tok.int ++ [Tok.int 0] := by
  simp [enc, clauseRow]

theorem enc_eq_map (cs : List Clause) : enc cs = (cs.flatMap (fun c => c ++ [0])).map Tok.int := by
  induction cs with
  | nil => rfl
  | cons c cs ih => simp [enc_cons, ih]

instance instDecEqExcept {ε α} [DecidableEq ε] [DecidableEq α] : DecidableEq (Except ε α) := fun a b =>
  match a, b with
  | .ok x, .ok y => if h : x = y then isTrue (by rw [h]) else isFalse (by intro e; cases e; exact h rfl)
  | .error x, .error y => if h : x = y then isTrue (by rw [h]) else isFalse (by intro e; cases e; exact h rfl)
  | .ok _, .error _ => isFalse (by intro e; cases e)
  | .error _, .ok _ => isFalse (by intro e; cases e)

@[simp] theorem except_bind_ok {ε α β} (x : α) (f : α → Except ε β) : (Except.ok x >>= f) = f x := rfl
@[simp] theorem except_bind_error {ε α β} (e : ε) (f : α → Except ε β) : (Except.error e >>= f) = Except.error e := rfl

/-! ### literal tokens -/

theorem litTok_good (n : Nat) (b : List Int) (o : List Clause) (l : Int) (h : l ≠ 0 ∧ l.natAbs ≤ n) :
    litTok n (b, o) (.int l) = .ok (b ++ [l], o) := by
  have : 1 ≤ l.natAbs := by have := h.1; omega
  simp [litTok, h.1, h.2, this]

theorem litFold_lits (n : Nat) : ∀ (c : Clause) (b : List Int) (o : List Clause), GoodLits n c →
    (c.map Tok.int).foldlM (litTok n) (b, o) = .ok (b ++ c, o)
  | [], b, o, _ => by simp [pure, Except.pure]
  | l :: c, b, o, h => by
    have hl := h l (by simp)
    have hc : GoodLits n c := fun x hx => h x (by simp [hx])
    simp [List.foldlM_cons, litTok_good n b o l hl, litFold_lits n c (b ++ [l]) o hc]

/-- completeness of the literal loop: the writer's layout of good clauses is read back -/
theorem litFold_enc (n : Nat) : ∀ (cs : List Clause) (o : List Clause), (∀ c ∈ cs, GoodLits n c) →
    (enc cs).foldlM (litTok n) ([], o) = .ok ([], o ++ cs)
  | [], o, _ => by simp [enc_nil, pure, Except.pure]
  | c :: cs, o, h => by
    have hc := h c (by simp)
    have hcs : ∀ c' ∈ cs, GoodLits n c' := fun x hx => h x (by simp [hx])
    have ih := litFold_enc n cs (o ++ [c]) hcs
    rw [enc_cons, List.foldlM_append, litFold_lits n c [] o hc]
    simp [List.foldlM_cons, litTok, ih]

/-- soundness of the literal loop -/
theorem litFold_sound (n : Nat) : ∀ (toks : List Tok) (b : List Int) (o : List Clause) (b' : List Int) (o' : List Clause),
    toks.foldlM (litTok n) (b, o) = .ok (b', o') →
    enc o ++ b.map Tok.int ++ toks = enc o' ++ b'.map Tok.int ∧
    (GoodLits n b → (∀ c ∈ o, GoodLits n c) → GoodLits n b' ∧ ∀ c ∈ o', GoodLits n c)
  | [], b, o, b', o', h => by
    simp [pure, Except.pure] at h
    obtain ⟨rfl, rfl⟩ := h
    exact ⟨by simp, fun hb ho => ⟨hb, ho⟩⟩
  | t :: ts, b, o, b', o', h => by
    rw [List.foldlM_cons] at h
    cases t with
    | int lv =>
      by_cases h0 : lv = 0
      · subst h0
        simp [litTok] at h
        have ih := litFold_sound n ts [] (o ++ [b]) b' o' h
        refine ⟨?_, ?_⟩
        · rw [← ih.1, enc_snoc]; simp
        · intro hb ho
          apply ih.2 (by intro l hl; simp at hl)
          intro c hc
          rcases List.mem_append.1 hc with hc | hc
          · exact ho c hc
          · simp at hc; subst hc; exact hb
      · by_cases hr : 1 ≤ lv.natAbs ∧ lv.natAbs ≤ n
        · simp [litTok, h0, hr] at h
          have ih := litFold_sound n ts (b ++ [lv]) o b' o' h
          refine ⟨?_, ?_⟩
          · rw [← ih.1]; simp
          · intro hb ho
            apply ih.2 _ ho
            intro l hl
            rcases List.mem_append.1 hl with hl | hl
            · exact hb l hl
            · simp at hl; subst hl; exact ⟨h0, hr.2⟩
        · simp [litTok, h0, hr] at h
    | xvar neg v => simp [litTok] at h
    | word s => simp [litTok] at h

/-- the literal loop on the empty state returns `cs` exactly on the layout of `cs` -/
theorem litFold_iff (n : Nat) (toks : List Tok) (cs : List Clause) :
    toks.foldlM (litTok n) ([], []) = .ok ([], cs) ↔ toks = enc cs ∧ ∀ c ∈ cs, GoodLits n c := by
  constructor
  · intro h
    have := litFold_sound n toks [] [] [] cs h
    refine ⟨by simpa [enc_nil] using this.1, (this.2 (by intro l hl; simp at hl) (by intro c hc; simp at hc)).2⟩
  · rintro ⟨rfl, hg⟩
    simpa using litFold_enc n cs [] hg

/-! ### rows -/

def isLits (r : Row) : Bool := decide (r.cls = .lits)

/-- the literal tokens of a token matrix, in reading order -/
def litToks (rows : List Row) : List Tok := (rows.filter isLits).flatten

def Skip (r : Row) : Prop := r.cls = .blank ∨ r.cls = .comment

theorem rowStep_skip (st : PState) (r : Row) (h : Skip r) : rowStep st r = .ok st := by
  rcases h with h | h <;> simp [rowStep, h]

theorem rows_skip (st : PState) : ∀ (rows : List Row), (∀ r ∈ rows, Skip r) → rows.foldlM rowStep st = .ok st
  | [], _ => by simp [pure, Except.pure]
  | r :: rs, h => by
    rw [List.foldlM_cons, rowStep_skip st r (h r (by simp))]
    simpa using rows_skip st rs (fun x hx => h x (by simp [hx]))

/-- after the spec line: no further spec line, and the rows are read as one stream of literal tokens -/
theorem rows_after_spec (n m : Nat) : ∀ (post : List Row) (b : List Int) (o : List Clause) (st' : PState),
    post.foldlM rowStep ⟨some (n, m), b, o⟩ = .ok st' →
    (∀ r ∈ post, r.cls ≠ .spec) ∧
    (litToks post).foldlM (litTok n) (b, o) = .ok (st'.buf, st'.out) ∧ st'.spec = some (n, m)
  | [], b, o, st', h => by
    simp [pure, Except.pure] at h
    subst h
    simp [litToks, pure, Except.pure]
  | r :: rs, b, o, st', h => by
    rw [List.foldlM_cons] at h
    cases hc : r.cls with
    | blank =>
      simp [rowStep, hc] at h
      have ih := rows_after_spec n m rs b o st' h
      refine ⟨?_, ?_, ih.2.2⟩
      · intro x hx; rcases List.mem_cons.1 hx with e | e
        · subst e; simp [hc]
        · exact ih.1 x e
      · simpa [litToks, isLits, hc] using ih.2.1
    | comment =>
      simp [rowStep, hc] at h
      have ih := rows_after_spec n m rs b o st' h
      refine ⟨?_, ?_, ih.2.2⟩
      · intro x hx; rcases List.mem_cons.1 hx with e | e
        · subst e; simp [hc]
        · exact ih.1 x e
      · simpa [litToks, isLits, hc] using ih.2.1
    | spec => simp [rowStep, hc] at h
    | lits =>
      simp only [rowStep, hc] at h
      cases hf : r.foldlM (litTok n) (b, o) with
      | error e => simp [hf] at h
      | ok bo =>
        simp [hf] at h
        have ih := rows_after_spec n m rs bo.1 bo.2 st' h
        refine ⟨?_, ?_, ih.2.2⟩
        · intro x hx; rcases List.mem_cons.1 hx with e | e
          · subst e; simp [hc]
          · exact ih.1 x e
        · have : litToks (r :: rs) = r ++ litToks rs := by simp [litToks, isLits, hc]
          rw [this, List.foldlM_append, hf]
          simpa using ih.2.1

/-- converse: without spec lines, if the literal stream is read, so are the rows -/
theorem rows_after_spec_complete (n m : Nat) : ∀ (post : List Row) (b : List Int) (o : List Clause) (b' : List Int) (o' : List Clause),
    (∀ r ∈ post, r.cls ≠ .spec) →
    (litToks post).foldlM (litTok n) (b, o) = .ok (b', o') →
    post.foldlM rowStep ⟨some (n, m), b, o⟩ = .ok ⟨some (n, m), b', o'⟩
  | [], b, o, b', o', _, h => by
    simp [litToks, pure, Except.pure] at h
    obtain ⟨rfl, rfl⟩ := h
    simp [pure, Except.pure]
  | r :: rs, b, o, b', o', hns, h => by
    have hns' : ∀ x ∈ rs, x.cls ≠ .spec := fun x hx => hns x (by simp [hx])
    rw [List.foldlM_cons]
    cases hc : r.cls with
    | blank =>
      have : litToks (r :: rs) = litToks rs := by simp [litToks, isLits, hc]
      rw [this] at h
      simpa [rowStep, hc] using rows_after_spec_complete n m rs b o b' o' hns' h
    | comment =>
      have : litToks (r :: rs) = litToks rs := by simp [litToks, isLits, hc]
      rw [this] at h
      simpa [rowStep, hc] using rows_after_spec_complete n m rs b o b' o' hns' h
    | spec => exact absurd hc (hns r (by simp))
    | lits =>
      have : litToks (r :: rs) = r ++ litToks rs := by simp [litToks, isLits, hc]
      rw [this, List.foldlM_append] at h
      cases hf : r.foldlM (litTok n) (b, o) with
      | error e => simp [hf] at h
      | ok bo =>
        simp [hf] at h
        simpa [rowStep, hc, hf] using rows_after_spec_complete n m rs bo.1 bo.2 b' o' hns' h

theorem parseSpec_ok {r : Row} {n m : Nat} (h : parseSpec r = .ok (n, m)) :
    ∃ a b, r = [a, b, .int (n : Int), .int (m : Int)] := by
  unfold parseSpec at h
  split at h
  · rename_i a b n' m'
    split at h
    · simp at h
    · rename_i hneg
      simp at h
      refine ⟨a, b, ?_⟩
      have h1 : (n : Int) = n' := by omega
      have h2 : (m : Int) = m' := by omega
      rw [h1, h2]
  · simp at h

theorem parseSpec_nat (a b : Tok) (n m : Nat) : parseSpec [a, b, .int (n : Int), .int (m : Int)] = .ok (n, m) := by
  have : ¬ ((n : Int) < 0 ∨ (m : Int) < 0) := by omega
  simp [parseSpec, this]

/-- before the spec line only blank / comment rows are tolerated -/
theorem rows_before_spec : ∀ (rows : List Row) (st' : PState), rows.foldlM rowStep PState.init = .ok st' →
    (st' = PState.init ∧ ∀ r ∈ rows, Skip r) ∨
    (∃ pre r nm post, rows = pre ++ r :: post ∧ (∀ x ∈ pre, Skip x) ∧ r.cls = .spec ∧ parseSpec r = .ok nm ∧
      post.foldlM rowStep ⟨some nm, [], []⟩ = .ok st')
  | [], st', h => by
    simp [pure, Except.pure] at h
    exact Or.inl ⟨h.symm, by simp⟩
  | r :: rs, st', h => by
    rw [List.foldlM_cons] at h
    cases hc : r.cls with
    | blank =>
      simp [rowStep, hc] at h
      rcases rows_before_spec rs st' h with ⟨e, hs⟩ | ⟨pre, r', nm, post, e, hp, hr, hps, hpost⟩
      · refine Or.inl ⟨e, ?_⟩
        intro x hx; rcases List.mem_cons.1 hx with e' | e'
        · subst e'; exact Or.inl hc
        · exact hs x e'
      · refine Or.inr ⟨r :: pre, r', nm, post, by simp [e], ?_, hr, hps, hpost⟩
        intro x hx; rcases List.mem_cons.1 hx with e' | e'
        · subst e'; exact Or.inl hc
        · exact hp x e'
    | comment =>
      simp [rowStep, hc] at h
      rcases rows_before_spec rs st' h with ⟨e, hs⟩ | ⟨pre, r', nm, post, e, hp, hr, hps, hpost⟩
      · refine Or.inl ⟨e, ?_⟩
        intro x hx; rcases List.mem_cons.1 hx with e' | e'
        · subst e'; exact Or.inr hc
        · exact hs x e'
      · refine Or.inr ⟨r :: pre, r', nm, post, by simp [e], ?_, hr, hps, hpost⟩
        intro x hx; rcases List.mem_cons.1 hx with e' | e'
        · subst e'; exact Or.inr hc
        · exact hp x e'
    | spec =>
      simp only [rowStep, hc, PState.init] at h
      cases hp : parseSpec r with
      | error e => simp [hp] at h
      | ok nm =>
        simp [hp] at h
        exact Or.inr ⟨[], r, nm, rs, by simp, by simp, hc, hp, h⟩
    | lits => simp [rowStep, hc, PState.init] at h

/-! ### building the formula -/

theorem foldl_max_good (n : Nat) : ∀ (c : List Int), (∀ l ∈ c, l.natAbs ≤ n) →
    c.foldl (fun m l => max m l.natAbs) n = n
  | [], _ => rfl
  | l :: c, h => by
    have : max n l.natAbs = n := Nat.max_eq_left (h l (by simp))
    simp [List.foldl_cons, this, foldl_max_good n c (fun x hx => h x (by simp [hx]))]

theorem addClause_good (n : Nat) (acc : List Clause) (c : Clause) (h : GoodLits n c) :
    (CNF.mk n acc).addClause c true = .ok ⟨n, acc ++ [c]⟩ := by
  unfold CNF.addClause
  cases c with
  | nil => simp
  | cons l c =>
    have hz : ¬ (0 = l ∨ 0 ∈ c) := by
      intro hh
      have : (0 : Int) ∈ l :: c := by
        rcases hh with e | e
        · simp [← e]
        · simp [e]
      exact (h 0 this).1 rfl
    have hm := foldl_max_good n (l :: c) (fun x hx => (h x hx).2)
    simp [checkLits, hm, hz]

theorem addClauses_good (n : Nat) : ∀ (cs : List Clause) (acc : List Clause), (∀ c ∈ cs, GoodLits n c) →
    cs.foldlM (fun F c => CNF.addClause F c true) (CNF.mk n acc) = .ok ⟨n, acc ++ cs⟩
  | [], acc, _ => by simp [pure, Except.pure]
  | c :: cs, acc, h => by
    rw [List.foldlM_cons, addClause_good n acc c (h c (by simp))]
    simpa using addClauses_good n cs (acc ++ [c]) (fun x hx => h x (by simp [hx]))

/-! ### errors -/

theorem litTok_err (n : Nat) (st : List Int × List Clause) (t : Tok) (e : Err) :
    litTok n st t = .error e → e = .valueError := by
  unfold litTok; intro h; split at h
  · split at h
    · simp at h
    · split at h <;> simp at h; exact h.symm
  · simp at h; exact h.symm

theorem foldlM_err {α β} (f : β → α → Except Err β) (hf : ∀ b a e, f b a = .error e → e = .valueError) :
    ∀ (l : List α) (b : β) (e : Err), l.foldlM f b = .error e → e = .valueError
  | [], b, e, h => by simp [pure, Except.pure] at h
  | a :: l, b, e, h => by
    rw [List.foldlM_cons] at h
    cases hfa : f b a with
    | error e' => rw [hfa] at h; simp at h; subst h; exact hf b a e' hfa
    | ok b' => rw [hfa] at h; simp at h; exact foldlM_err f hf l b' e h

theorem parseSpec_err (r : Row) (e : Err) : parseSpec r = .error e → e = .valueError := by
  unfold parseSpec; intro h; split at h
  · split at h <;> simp at h; exact h.symm
  · simp at h; exact h.symm

theorem rowStep_err (st : PState) (r : Row) (e : Err) : rowStep st r = .error e → e = .valueError := by
  unfold rowStep; intro h
  split at h
  · simp at h
  · simp at h
  · split at h
    · simp at h; exact h.symm
    · split at h
      · simp at h
      · rename_i e' he; simp at h; subst h; exact parseSpec_err r _ he
  · split at h
    · simp at h; exact h.symm
    · split at h
      · simp at h
      · rename_i e' he; simp at h; subst h
        exact foldlM_err _ (litTok_err _) _ _ _ he

theorem finish_err (st : PState) (e : Err) : finish st = .error e → e = .valueError := by
  unfold finish; intro h
  split at h
  · simp at h; exact h.symm
  · split at h
    · simp at h; exact h.symm
    · split at h <;> simp at h; exact h.symm

theorem finish_ok {st st' : PState} (h : finish st = .ok st') :
    st' = st ∧ st.buf = [] ∧ ∃ n, st.spec = some (n, st.out.length) := by
  unfold finish at h
  split at h
  · simp at h
  · rename_i hb
    split at h
    · simp at h
    · rename_i n m hs
      split at h
      · simp at h
      · rename_i hm
        simp at h
        refine ⟨h.symm, by simpa using hb, n, ?_⟩
        have : m = st.out.length := by simpa using hm
        rw [hs, this]

theorem addClause_err (F : CNF) (c : Clause) (e : Err) : F.addClause c true = .error e → e = .valueError := by
  unfold CNF.addClause; intro h
  split at h
  · simp at h
  · simp only [if_true] at h
    split at h
    · simp at h
    · rename_i e' he
      simp at h; subst h
      unfold checkLits at he
      split at he <;> simp at he; exact he.symm

end Cnfgen.IO
