/-
Binary mappings (`new_binary_mapping`): identifiers, the `forbid(i, j)` clause, bit length.
-/
import Lemmas.C01Basic
import CnfgenModel.Fam.Php
import Batteries.Data.Nat.Lemmas
import Lemmas.VarsBinary
namespace Cnfgen.Fam
open Cnfgen

/-- the hole (0-based) whose binary name is spelled by the variables `v(i, bits-1) … v(i, 0)` -/
def bval (α : Assign) (start bits i : Nat) : Nat :=
  Nat.ofBits (fun b : Fin bits => α (Vars.binId start bits i b))

theorem bval_lt (α : Assign) (start bits i : Nat) : bval α start bits i < 2 ^ bits :=
  Nat.ofBits_lt_two_pow _

theorem binId_pos {start bits i b : Nat} (hs : 1 ≤ start) (hi : 1 ≤ i) (hb : b < bits) :
    0 < Vars.binId start bits i b := by
  have : bits ≤ i * bits := Nat.le_mul_of_pos_left _ hi
  simp only [Vars.binId]; omega

theorem binId_le {bits i b m : Nat} (hi : 1 ≤ i) (him : i ≤ m) (hb : b < bits) :
    1 ≤ Vars.binId 1 bits i b ∧ Vars.binId 1 bits i b ≤ m * bits := by
  have h1 : bits ≤ i * bits := Nat.le_mul_of_pos_left _ hi
  have h2 : i * bits ≤ m * bits := Nat.mul_le_mul_right _ him
  simp only [Vars.binId]; omega

theorem forbidLits_eq (start bits i j : Nat) :
    forbidLits start bits i j = (List.range bits).map (fun t =>
      (if (j / 2 ^ (bits - 1 - t)) % 2 = 1 then (-1 : Int) else 1) *
        ((Vars.binId start bits i (bits - 1 - t) : Nat) : Int)) := by
  simp only [forbidLits, Vars.flipPattern, List.zipWith_map_left, List.zipWith_self]

theorem testBit_eq_div_mod (j b : Nat) : j.testBit b = decide (j / 2 ^ b % 2 = 1) := by
  rw [Nat.testBit_eq_decide_div_mod_eq]

/-- `forbid(i, j)` is falsified exactly when pigeon `i` spells `j` -/
theorem forbid_false_iff (α : Assign) {start bits i j : Nat} (hs : 1 ≤ start) (hi : 1 ≤ i)
    (hj : j < 2 ^ bits) :
    clauseHolds α (forbidLits start bits i j) = false ↔ bval α start bits i = j := by
  rw [forbidLits_eq]
  simp only [clauseHolds, List.any_eq_false, List.mem_map, List.mem_range, forall_exists_index, and_imp,
    forall_apply_eq_imp_iff₂]
  have hlit : ∀ t, t < bits →
      (litHolds α ((if (j / 2 ^ (bits - 1 - t)) % 2 = 1 then (-1 : Int) else 1) *
        ((Vars.binId start bits i (bits - 1 - t) : Nat) : Int)) = true ↔
        α (Vars.binId start bits i (bits - 1 - t)) ≠ j.testBit (bits - 1 - t)) := by
    intro t ht
    have hpos := binId_pos (start := start) (bits := bits) (i := i) (b := bits - 1 - t) hs hi (by omega)
    rw [testBit_eq_div_mod]
    by_cases hbit : j / 2 ^ (bits - 1 - t) % 2 = 1
    · simp only [hbit, if_true, decide_true]
      rw [show (-1 : Int) * ((Vars.binId start bits i (bits - 1 - t) : Nat) : Int)
        = -((Vars.binId start bits i (bits - 1 - t) : Nat) : Int) by omega, litHolds_neg_natCast]
      cases α (Vars.binId start bits i (bits - 1 - t)) <;> simp
    · simp only [hbit, if_false, decide_false]
      rw [show (1 : Int) * ((Vars.binId start bits i (bits - 1 - t) : Nat) : Int)
        = ((Vars.binId start bits i (bits - 1 - t) : Nat) : Int) by omega, litHolds_natCast α hpos]
      cases α (Vars.binId start bits i (bits - 1 - t)) <;> simp
  constructor
  · intro h
    apply Nat.eq_of_testBit_eq
    intro b
    by_cases hb : b < bits
    · have h1 := h (bits - 1 - b) (by omega)
      have h2 := hlit (bits - 1 - b) (by omega)
      have e : bits - 1 - (bits - 1 - b) = b := by omega
      rw [e] at h1 h2
      simp only [bval, Nat.testBit_ofBits_lt _ b hb]
      by_cases hne : α (Vars.binId start bits i b) = j.testBit b
      · exact hne
      · exact absurd (h2.2 hne) h1
    · have hge : bits ≤ b := by omega
      simp only [bval, Nat.testBit_ofBits_ge _ b hge]
      exact (Nat.testBit_lt_two_pow (Nat.lt_of_lt_of_le hj (Nat.pow_le_pow_right (by omega) hge))).symm
  · intro hv t ht hl
    have h2 := (hlit t ht).1 hl
    apply h2
    rw [← hv]
    have hlt : bits - 1 - t < bits := by omega
    simp only [bval, Nat.testBit_ofBits_lt _ (bits - 1 - t) hlt]

theorem forbid_true_iff (α : Assign) {start bits i j : Nat} (hs : 1 ≤ start) (hi : 1 ≤ i)
    (hj : j < 2 ^ bits) :
    clauseHolds α (forbidLits start bits i j) = true ↔ bval α start bits i ≠ j := by
  have := forbid_false_iff α hs hi hj
  cases hc : clauseHolds α (forbidLits start bits i j)
  · simp [this.1 hc]
  · simp only [true_iff]; intro h; rw [this.2 h] at hc; exact absurd hc (by simp)

theorem clauseHolds_append (α : Assign) (a b : Clause) :
    clauseHolds α (a ++ b) = (clauseHolds α a || clauseHolds α b) := by
  simp [clauseHolds]

theorem forbidLits_wf {bits i j m : Nat} (hi : 1 ≤ i) (him : i ≤ m) :
    ∀ l ∈ forbidLits 1 bits i j, l ≠ 0 ∧ l.natAbs ≤ m * bits := by
  intro l hl
  rw [forbidLits_eq, List.mem_map] at hl
  obtain ⟨t, ht, rfl⟩ := hl
  rw [List.mem_range] at ht
  have := binId_le (bits := bits) (b := bits - 1 - t) hi him (by omega)
  split <;> omega

/-! ### the bit length -/

theorem clog2_spec (n : Nat) : n ≤ 2 ^ Vars.clog2 n := (Vars.clog2_spec n).1

/-- minimality: fewer bits do not suffice -/
theorem clog2_min (n b : Nat) (hb : b < Vars.clog2 n) : 2 ^ b < n := by
  apply Nat.lt_of_not_le
  intro h
  have := (Vars.clog2_spec n).2 b h
  omega

end Cnfgen.Fam

namespace Cnfgen.Fam
open Cnfgen

/-- the assignment under which pigeon `i` spells the number `g i` -/
def binAssignOf (k : Nat) (g : Nat → Nat) : Assign :=
  fun x => Nat.testBit (g ((x - 1) / k + 1)) (k - 1 - (x - 1) % k)

theorem binAssignOf_binId {k i b : Nat} (g : Nat → Nat) (hi : 1 ≤ i) (hb : b < k) :
    binAssignOf k g (Vars.binId 1 k i b) = (g i).testBit b := by
  obtain ⟨i', rfl⟩ : ∃ i', i = i' + 1 := ⟨i - 1, by omega⟩
  have hx : Vars.binId 1 k (i' + 1) b - 1 = (k - 1 - b) + i' * k := by
    simp only [Vars.binId, Nat.add_mul, Nat.one_mul]; omega
  have hk : 0 < k := by omega
  simp only [binAssignOf, hx, Nat.add_mul_div_right _ _ hk, Nat.add_mul_mod_self_right,
    Nat.div_eq_of_lt (show k - 1 - b < k by omega), Nat.mod_eq_of_lt (show k - 1 - b < k by omega),
    Nat.zero_add]
  congr 1; omega

theorem bval_binAssignOf {k i : Nat} (g : Nat → Nat) (hi : 1 ≤ i) (hlt : g i < 2 ^ k) :
    bval (binAssignOf k g) 1 k i = g i := by
  have : (fun b : Fin k => binAssignOf k g (Vars.binId 1 k i b)) = fun b : Fin k => (g i).testBit b := by
    funext b; exact binAssignOf_binId g hi b.isLt
  simp only [bval, this, Nat.ofBits_testBit, Nat.mod_eq_of_lt hlt]

/-- the spelled number determines the bits -/
theorem bval_inj (α β : Assign) (start bits i : Nat) (h : bval α start bits i = bval β start bits i)
    (b : Nat) (hb : b < bits) : α (Vars.binId start bits i b) = β (Vars.binId start bits i b) := by
  have := congrArg (fun x => Nat.testBit x b) h
  simpa only [bval, Nat.testBit_ofBits_lt _ b hb] using this

end Cnfgen.Fam
