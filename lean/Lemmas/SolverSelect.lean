/-
Helper lemmas for C20: `selectInterface` (the decision part of `sat_solve`).
-/
import CnfgenModel.Solver.Select
namespace Cnfgen.Solver

theorem find?_first {α} (q : α → Bool) (pre post : List α) (x : α)
    (hpre : ∀ p ∈ pre, q p = false) (hx : q x = true) : (pre ++ x :: post).find? q = some x := by
  induction pre with
  | nil => simp [hx]
  | cons p ps ih =>
    have hp := hpre p (by simp)
    simp only [List.cons_append, List.find?_cons, hp]
    exact ih (fun y hy => hpre y (by simp [hy]))

theorem lookup_of_mem_names (tb : List (String × Iface)) (n : String) (h : n ∈ tb.map (·.1)) :
    ∃ f, tb.lookup n = some f := by
  induction tb with
  | nil => simp at h
  | cons p ps ih =>
    obtain ⟨k, v⟩ := p
    simp only [List.map_cons, List.mem_cons] at h
    by_cases hk : n = k
    · subst hk; exact ⟨v, by simp [List.lookup]⟩
    · rcases h with h | h
      · exact absurd h hk
      · obtain ⟨f, hf⟩ := ih h
        refine ⟨f, ?_⟩
        simp only [List.lookup]
        have : (n == k) = false := by simp [hk]
        simp [this, hf]

theorem lookup_isSome (n : String) (h : n ∈ names) : ∃ f, lookup n = some f :=
  lookup_of_mem_names table n h

theorem names_nonempty : ∀ n ∈ names, n.isEmpty = false := by decide

theorem select_sameas_unknown (cmd : Option String) (s : String) (inst : List String)
    (hs : s ∉ names) : selectInterface cmd (some s) inst = .error .valueError := by
  simp [selectInterface, sameasUnknown, hs]

theorem sameas_check_ok (sameas : Option String) (h : ∀ s, sameas = some s → s ∈ names) :
    sameasUnknown sameas = false := by
  cases sameas with
  | none => rfl
  | some s => simp [sameasUnknown, h s rfl]

theorem select_none (sameas : Option String) (inst : List String)
    (h : ∀ s, sameas = some s → s ∈ names) :
    selectInterface none sameas inst = autoChoice inst := by
  unfold selectInterface
  rw [sameas_check_ok sameas h]
  simp

theorem select_blank (c : String) (sameas : Option String) (inst : List String)
    (h : ∀ s, sameas = some s → s ∈ names) (hc : pySplit c.toList = []) :
    selectInterface (some c) sameas inst = autoChoice inst := by
  unfold selectInterface
  rw [sameas_check_ok sameas h]
  simp [hc]

theorem select_cmd (c : String) (t : Str) (ts : List Str) (sameas : Option String)
    (inst : List String) (h : ∀ s, sameas = some s → s ∈ names)
    (hc : pySplit c.toList = t :: ts) :
    selectInterface (some c) sameas inst = namedChoice c (String.ofList t) sameas inst := by
  unfold selectInterface
  rw [sameas_check_ok sameas h]
  simp [hc]

theorem namedChoice_key (solver : String) (sameas : Option String)
    (h : ∀ s, sameas = some s → s ∈ names) (hsup : solver ∈ names ∨ sameas ≠ none) :
    keyOf sameas solver ∈ names := by
  cases sameas with
  | none =>
    rcases hsup with h1 | h1
    · exact h1
    · exact absurd rfl h1
  | some s =>
    have hs := h s rfl
    simp [keyOf, names_nonempty s hs, hs]

theorem autoChoice_errors (inst : List String) (e : Err) (h : autoChoice inst = .error e) :
    e = .runtimeError := by
  unfold autoChoice at h
  split at h
  · cases h
  · injection h with h; exact h.symm

theorem namedChoice_errors (c solver : String) (sameas : Option String) (inst : List String)
    (h : ∀ s, sameas = some s → s ∈ names) (e : Err)
    (he : namedChoice c solver sameas inst = .error e) : e = .runtimeError := by
  unfold namedChoice at he
  split at he
  · injection he with he; exact he.symm
  · rename_i hcond
    have hsup : solver ∈ names ∨ sameas ≠ none := by
      cases sameas with
      | none => left; simpa using hcond
      | some s => right; simp
    obtain ⟨f, hf⟩ := lookup_isSome _ (namedChoice_key solver sameas h hsup)
    rw [hf] at he
    simp only at he
    split at he
    · cases he
    · injection he with he; exact he.symm

end Cnfgen.Solver
