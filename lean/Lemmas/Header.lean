/-
Helper lemmas for the header provenance part of C05 / C19: `add_description` picks the first
free `transformation i` key and appends.
-/
import CnfgenModel.Trans.Header
namespace Cnfgen
namespace Header

theorem hasKey_cons (e : Key × String) (h : Hdr) (k : Key) :
    hasKey (e :: h) k = (e.1 == k || hasKey h k) := by simp [hasKey]

theorem le_maxTrans (h : Hdr) (i : Nat) (hk : hasKey h (.trans i) = true) : i ≤ maxTrans h := by
  induction h with
  | nil => simp [hasKey] at hk
  | cons e h ih =>
    obtain ⟨k, v⟩ := e
    rw [hasKey_cons] at hk
    cases k with
    | trans j =>
      simp only [maxTrans]
      by_cases hj : j = i
      · subst hj; omega
      · have : (Key.trans j == Key.trans i) = false := by simp [hj]
        simp only [this, Bool.false_or] at hk
        have := ih hk; omega
    | other s =>
      simp only [maxTrans]
      have : (Key.other s == Key.trans i) = false := by simp
      simp only [this, Bool.false_or] at hk
      exact ih hk

theorem freeFrom_spec (h : Hdr) : ∀ (fuel i : Nat), hasKey h (.trans (i + fuel)) = false →
    hasKey h (.trans (freeFrom h fuel i)) = false ∧ i ≤ freeFrom h fuel i ∧
      ∀ j, i ≤ j → j < freeFrom h fuel i → hasKey h (.trans j) = true
  | 0, i, hf => by
    simp only [freeFrom]
    exact ⟨by simpa using hf, Nat.le_refl _, fun j h1 h2 => by omega⟩
  | fuel + 1, i, hf => by
    simp only [freeFrom]
    cases hi : hasKey h (.trans i)
    · simp only [Bool.false_eq_true, if_false]
      exact ⟨hi, Nat.le_refl _, fun j h1 h2 => by omega⟩
    · simp only [if_true]
      have e : i + 1 + fuel = i + (fuel + 1) := by omega
      obtain ⟨h1, h2, h3⟩ := freeFrom_spec h fuel (i + 1) (by rw [e]; exact hf)
      refine ⟨h1, by omega, ?_⟩
      intro j hj1 hj2
      by_cases hji : j = i
      · subst hji; exact hi
      · exact h3 j (by omega) hj2

/-- the index chosen by `add_description` is free, at least 1, and every smaller one is taken -/
theorem freeIndex_spec (h : Hdr) :
    hasKey h (.trans (freeIndex h)) = false ∧ 1 ≤ freeIndex h ∧
      ∀ j, 1 ≤ j → j < freeIndex h → hasKey h (.trans j) = true := by
  apply freeFrom_spec
  cases hk : hasKey h (.trans (1 + (maxTrans h + 1)))
  · rfl
  · have := le_maxTrans h _ hk; omega

theorem addDescription_eq (h : Hdr) (text : String) :
    addDescription h text = h ++ [(.trans (freeIndex h), text)] := by
  simp [addDescription, setKey, (freeIndex_spec h).1]

theorem hasKey_append (h h' : Hdr) (k : Key) : hasKey (h ++ h') k = (hasKey h k || hasKey h' k) := by
  simp [hasKey]

theorem get?_append_of_hasKey (h h' : Hdr) (k : Key) (hk : hasKey h k = true) :
    get? (h ++ h') k = get? h k := by
  unfold get?
  rw [List.find?_append]
  simp only [hasKey, List.any_eq_true] at hk
  obtain ⟨e, he, hek⟩ := hk
  cases hf : List.find? (fun e => e.1 == k) h with
  | none =>
    rw [List.find?_eq_none] at hf
    exact absurd hek (hf e he)
  | some x => simp

/-- a chain of transformations only appends: one entry per transformation, in order, with the
texts of the transformations -/
theorem transformAll_eq (h : Hdr) (ts : List T) :
    ∃ suf : Hdr, transformAll h ts = h ++ suf ∧ suf.map (·.2) = ts.map descr ∧
      ∀ e ∈ suf, ∃ i, 1 ≤ i ∧ e.1 = Key.trans i := by
  induction ts generalizing h with
  | nil => exact ⟨[], by simp [transformAll], rfl, by simp⟩
  | cons t ts ih =>
    obtain ⟨suf, h1, h2, h3⟩ := ih (transform h t)
    have e : transform h t = h ++ [(.trans (freeIndex h), descr t)] := addDescription_eq h (descr t)
    refine ⟨(.trans (freeIndex h), descr t) :: suf, ?_, ?_, ?_⟩
    · simp only [transformAll, List.foldl_cons] at h1 ⊢
      rw [h1, e]; simp
    · simp [h2]
    · intro x hx
      rcases List.mem_cons.1 hx with rfl | hx
      · exact ⟨freeIndex h, (freeIndex_spec h).2.1, rfl⟩
      · exact h3 x hx

end Header
end Cnfgen
