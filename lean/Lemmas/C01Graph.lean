/-
The auxiliary bipartite graph of `GraphEdgesVariables` (edges of a simple graph oriented
from the smaller to the larger endpoint) and the incident-edge lists of a vertex.
-/
import Lemmas.C01Bip
import CnfgenModel.Fam.Counting
namespace Cnfgen.Fam
open Cnfgen

/-- consistency of a simple graph object (an invariant of `Graph.add_edge`) -/
structure GoodSimple (G : SimpleG) : Prop where
  nodup : ∀ u, (G.nbrs u).Nodup
  noloop : ∀ u, u ∉ G.nbrs u
  /-- adjacency is symmetric and stays within the vertex range -/
  sym : ∀ u v, (1 ≤ u ∧ u ≤ G.n ∧ v ∈ G.nbrs u) → (1 ≤ v ∧ v ≤ G.n ∧ u ∈ G.nbrs v)

theorem getD_cons_map_idx {β : Type} (n : Nat) (f : Nat → β) (d : β) (u : Nat) :
    (d :: (idx n).map f).getD u d = if 1 ≤ u ∧ u ≤ n then f u else d := by
  cases u with
  | zero => simp
  | succ k =>
    simp only [List.getD_cons_succ, idx, rangeN, List.map_map, Nat.add_sub_cancel]
    rw [List.getD_eq_getElem?_getD, List.getElem?_map]
    by_cases h : k < n
    · rw [List.getElem?_range h]
      have : k + 1 ≤ n := by omega
      simp [this]
    · rw [List.getElem?_eq_none (by simp; omega)]
      have : ¬ (k + 1 ≤ n) := by omega
      simp [this]

theorem auxBip_rnbrs (G : SimpleG) (u : Nat) :
    (auxBip G).rnbrs u = if 1 ≤ u ∧ u ≤ G.n then (G.nbrs u).filter (fun v => u < v) else [] := by
  simp only [auxBip, BipG.rnbrs]
  exact getD_cons_map_idx G.n (fun u => (G.nbrs u).filter (fun v => u < v)) [] u

theorem auxBip_lnbrs (G : SimpleG) (v : Nat) :
    (auxBip G).lnbrs v = if 1 ≤ v ∧ v ≤ G.n then (G.nbrs v).filter (fun u => u < v) else [] := by
  simp only [auxBip, BipG.lnbrs]
  exact getD_cons_map_idx G.n (fun v => (G.nbrs v).filter (fun u => u < v)) [] v

theorem auxBip_l (G : SimpleG) : (auxBip G).l = G.n := rfl
theorem auxBip_r (G : SimpleG) : (auxBip G).r = G.n := rfl

theorem length_flatMap_idx (n : Nat) (f : Nat → List (Nat × Nat)) (g : Nat → Nat)
    (h : ∀ u, 1 ≤ u → u ≤ n → (f u).length = g u) :
    ((idx n).flatMap f).length = (List.range n).foldl (fun acc i => acc + g (i + 1)) 0 := by
  induction n with
  | zero => simp [idx, rangeN]
  | succ n ih =>
    have hidx : idx (n + 1) = idx n ++ [n + 1] := by
      simp [idx, rangeN, List.range_succ]
    rw [hidx, List.flatMap_append, List.length_append, ih (fun u a b => h u a (by omega)),
      List.range_succ, List.foldl_append]
    simp [h (n + 1) (by omega) (by omega)]

theorem degSum_eq_foldl (B : BipG) (n : Nat) :
    degSum B n = (List.range n).foldl (fun acc i => acc + (B.rnbrs (i + 1)).length) 0 := by
  induction n with
  | zero => simp [degSum]
  | succ n ih => rw [List.range_succ, List.foldl_append, ← ih]; simp [degSum]

theorem goodBip_auxBip (G : SimpleG) (hg : GoodSimple G) : GoodBip (auxBip G) where
  rnodup u := by
    rw [auxBip_rnbrs]; split
    · exact (hg.nodup u).filter _
    · exact List.nodup_nil
  lnodup v := by
    rw [auxBip_lnbrs]; split
    · exact (hg.nodup v).filter _
    · exact List.nodup_nil
  adj u v := by
    rw [auxBip_rnbrs, auxBip_lnbrs, auxBip_l, auxBip_r]
    constructor
    · rintro ⟨h1, h2, h3⟩
      rw [if_pos ⟨h1, h2⟩, List.mem_filter] at h3
      have := hg.sym u v ⟨h1, h2, h3.1⟩
      have huv : u < v := by simpa using h3.2
      rw [if_pos ⟨this.1, this.2.1⟩, List.mem_filter]
      exact ⟨this.1, this.2.1, this.2.2, by simpa using huv⟩
    · rintro ⟨h1, h2, h3⟩
      rw [if_pos ⟨h1, h2⟩, List.mem_filter] at h3
      have := hg.sym v u ⟨h1, h2, h3.1⟩
      have huv : u < v := by simpa using h3.2
      rw [if_pos ⟨this.1, this.2.1⟩, List.mem_filter]
      exact ⟨this.1, this.2.1, this.2.2, by simpa using huv⟩
  card := by
    rw [degSum_eq_foldl]
    simp only [BipG.numberOfEdges, auxBip]
    rw [length_flatMap_idx G.n _ (fun u => ((auxBip G).rnbrs u).length)]
    · rfl
    · intro u h1 h2
      rw [auxBip_rnbrs, if_pos ⟨h1, h2⟩, List.length_map]

/-- counting over the smaller and the larger neighbours separately -/
theorem countP_split (l : List Nat) (w : Nat) (p q : Nat → Bool) (hw : w ∉ l) :
    (l.filter (fun x => x < w)).countP p + (l.filter (fun x => w < x)).countP q
      = l.countP (fun x => if x < w then p x else q x) := by
  induction l with
  | nil => simp
  | cons x xs ih =>
    have hx : x ≠ w := fun h => hw (by simp [h])
    have ih := ih (fun h => hw (by simp [h]))
    rcases Nat.lt_or_gt_of_ne hx with hlt | hgt
    · have h2 : ¬ (w < x) := by omega
      simp only [List.filter_cons, hlt, h2, decide_true, decide_false, if_true, List.countP_cons]
      simp only [Bool.false_eq_true, if_false]
      omega
    · have h2 : ¬ (x < w) := by omega
      simp only [List.filter_cons, hgt, h2, decide_true, decide_false, if_true, List.countP_cons]
      simp only [Bool.false_eq_true, if_false]
      omega

/-- the variable of the edge `{a, b}` of `G` (`e(a, b)` of `new_graph_edges`) -/
def pmVar (G : SimpleG) (a b : Nat) : Nat := Vars.bipId (auxBip G) 1 (min a b) (max a b)

/-- number of true variables among the edges at `w` -/
theorem count_pmStar (G : SimpleG) (hg : GoodSimple G) (α : Assign) {w : Nat} (h1 : 1 ≤ w) (h2 : w ≤ G.n) :
    count α (pmStar G w) = (G.nbrs w).countP (fun x => α (pmVar G w x)) := by
  have hB := goodBip_auxBip G hg
  have hs : 0 < (SMap.mk (auxBip G) 1).start := by simp
  have hcols := SMap.GoodBip.cols hB w h1 (by rw [auxBip_r]; exact h2)
  simp only [pmStar, count, List.countP_append]
  have e1 := SMap.count_col (SMap.mk (auxBip G) 1) hs α hcols
  have e2 := SMap.count_row (SMap.mk (auxBip G) 1) hs α h1 (by rw [auxBip_l]; exact h2)
  simp only [count] at e1 e2
  rw [e1, e2]
  simp only [auxBip_rnbrs, auxBip_lnbrs, if_pos (And.intro h1 h2)]
  rw [countP_split _ w _ _ (hg.noloop w)]
  apply List.countP_congr
  intro x hx
  have hxw : x ≠ w := fun h => hg.noloop w (h ▸ hx)
  simp only [pmVar, SMap.var]
  rcases Nat.lt_or_gt_of_ne hxw with hlt | hgt
  · have e1 : min w x = x := by omega
    have e2 : max w x = w := by omega
    simp [hlt, e1, e2]
  · have : ¬ x < w := by omega
    have e1 : min w x = w := by omega
    have e2 : max w x = x := by omega
    simp [this, e1, e2]

theorem pmStar_wf (G : SimpleG) (hg : GoodSimple G) {w : Nat} (hw : w ∈ idx G.n) :
    ∀ l ∈ pmStar G w, l ≠ 0 ∧ l.natAbs ≤ (auxBip G).numberOfEdges := by
  have hB := goodBip_auxBip G hg
  have hs : 0 < (SMap.mk (auxBip G) 1).start := by simp
  have hN : (SMap.mk (auxBip G) 1).start + (SMap.mk (auxBip G) 1).B.numberOfEdges
      ≤ (auxBip G).numberOfEdges + 1 := by simp; omega
  intro l hl
  simp only [pmStar, List.mem_append] at hl
  rcases hl with hl | hl
  · exact SMap.col_wf _ hs hB hN (by simpa [auxBip_r] using hw) l hl
  · exact SMap.row_wf _ hs hB hN (by simpa [auxBip_l] using hw) l hl

end Cnfgen.Fam
