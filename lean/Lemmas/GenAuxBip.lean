/-
The auxiliary bipartite graph of `GraphEdgesVariables`: the insertion loop `Vars.graphAux`
and the closed form `Fam.auxBip` agree on everything the formula families read (sizes,
neighbour lists, number of edges), for every simple graph object satisfying `SimpleG.Inv`.
Also: congruence of `bipId` / `SMap.row` / `SMap.col` in the sizes and neighbour lists.
-/
import Lemmas.VarsBip
import Lemmas.GraphInv
import Lemmas.C01Graph
namespace Cnfgen.GenAuxBip
open Cnfgen

/-! ### the loop never fails -/

theorem graphAux_eq_fold (G : SimpleG) :
    Vars.graphAux G = G.edges.foldlM Vars.graphStep (BipG.init G.n G.n) := rfl

/-- one step of the loop succeeds on an edge within the vertex range and keeps the sizes -/
theorem graphStep_ok {B : BipG} {e : Nat × Nat}
    (he : 1 ≤ e.1 ∧ e.1 ≤ B.l ∧ e.1 ≤ B.r ∧ 1 ≤ e.2 ∧ e.2 ≤ B.l ∧ e.2 ≤ B.r) :
    ∃ B', Vars.graphStep B e = .ok B' ∧ B'.l = B.l ∧ B'.r = B.r := by
  unfold Vars.graphStep
  simp only
  split
  · exact ⟨B, rfl, rfl, rfl⟩
  · cases hadd : B.addEdge (min (e.1 : Int) (e.2 : Int)) (max (e.1 : Int) (e.2 : Int)) with
    | ok B' => exact ⟨B', rfl, BipG.addEdge_lr_wf hadd⟩
    | error x =>
      exfalso
      unfold BipG.addEdge at hadd
      split at hadd
      · rename_i hr
        apply hr
        omega
      · cases hadd

/-- the fold succeeds on a list of edges within the vertex range -/
theorem graphFold_ok {es : List (Nat × Nat)} {B : BipG}
    (hes : ∀ e ∈ es, 1 ≤ e.1 ∧ e.1 ≤ B.l ∧ e.1 ≤ B.r ∧ 1 ≤ e.2 ∧ e.2 ≤ B.l ∧ e.2 ≤ B.r) :
    ∃ B', es.foldlM Vars.graphStep B = .ok B' := by
  induction es generalizing B with
  | nil => exact ⟨B, rfl⟩
  | cons e es ih =>
    obtain ⟨B₁, h1, hl, hr⟩ := graphStep_ok (hes e (List.mem_cons_self ..))
    rw [List.foldlM_cons, h1]
    apply ih
    intro e' he'
    rw [hl, hr]
    exact hes e' (List.mem_cons_of_mem _ he')

/-- the loop never fails on a graph object that satisfies the invariant -/
theorem graphAux_ok (G : SimpleG) (hG : SimpleG.Inv G) : ∃ B, Vars.graphAux G = .ok B := by
  rw [graphAux_eq_fold]
  apply graphFold_ok
  rintro ⟨u, v⟩ he
  have := hG.edges_range he
  simp only [BipG.init]
  omega

/-! ### the loop and the closed form -/

/-- the edge set built by the loop: the pairs `(a, b)`, `a < b`, adjacent in `G` -/
theorem graphAux_mem_edgeset {G : SimpleG} (hG : SimpleG.Inv G) {B : BipG}
    (h : Vars.graphAux G = .ok B) (a b : Nat) :
    (a, b) ∈ B.edgeset ↔ a < b ∧ b ∈ G.nbrs a := by
  rw [(Vars.graphAux_spec h).2.2.2 a b]
  constructor
  · rintro ⟨⟨u, v⟩, he, rfl, rfl⟩
    have hm := hG.mem_edges.1 he
    have huv : u < v := hm.1
    simp only
    rw [Nat.min_eq_left (Nat.le_of_lt huv), Nat.max_eq_right (Nat.le_of_lt huv)]
    exact hm
  · intro hm
    refine ⟨(a, b), hG.mem_edges.2 hm, ?_, ?_⟩
    · simp only; omega
    · simp only; omega

theorem graphAux_rnbrs {G : SimpleG} (hG : SimpleG.Inv G) {B : BipG} (h : Vars.graphAux G = .ok B)
    (u : Nat) : B.rnbrs u = (Fam.auxBip G).rnbrs u := by
  obtain ⟨hw, hl, hr, _⟩ := Vars.graphAux_spec h
  rw [Fam.auxBip_rnbrs]
  split
  · refine SortedLt.ext (hw.row_sorted u) ((hG.nbrs_sorted u).filter _) ?_
    intro v
    rw [hw.mem_row, graphAux_mem_edgeset hG h, List.mem_filter, decide_eq_true_eq]
    exact And.comm
  · rename_i hu
    apply BipG.rnbrs_out hw
    rw [hl]; omega

theorem graphAux_lnbrs {G : SimpleG} (hG : SimpleG.Inv G) {B : BipG} (h : Vars.graphAux G = .ok B)
    (v : Nat) : B.lnbrs v = (Fam.auxBip G).lnbrs v := by
  obtain ⟨hw, hl, hr, _⟩ := Vars.graphAux_spec h
  rw [Fam.auxBip_lnbrs]
  split
  · refine SortedLt.ext (hw.col_sorted v) ((hG.nbrs_sorted v).filter _) ?_
    intro u
    rw [hw.mem_col, graphAux_mem_edgeset hG h, List.mem_filter, decide_eq_true_eq,
      hG.mem_nbrs_comm]
    exact And.comm
  · rename_i hv
    rw [List.eq_nil_iff_forall_not_mem]
    intro u hu
    have := hw.edge_range u v ((hw.mem_col u v).1 hu)
    rw [hr] at this
    omega

/-- `number_of_edges()` of the closed form is the sum of its right degrees (no hypothesis) -/
theorem auxBip_numberOfEdges_eq_sum (G : SimpleG) :
    (Fam.auxBip G).numberOfEdges =
      ((List.range G.n).map (fun i => ((Fam.auxBip G).rnbrs (i + 1)).length)).sum := by
  show ((Fam.idx G.n).flatMap
    (fun u => ((G.nbrs u).filter (fun v => u < v)).map (fun v => (u, v)))).length = _
  rw [List.length_flatMap]
  simp only [Fam.idx, rangeN, Nat.add_sub_cancel, List.map_map]
  congr 1
  apply List.map_congr_left
  intro i hi
  have hi' : 1 ≤ i + 1 ∧ i + 1 ≤ G.n := by
    have := List.mem_range.1 hi
    omega
  rw [Fam.auxBip_rnbrs, if_pos hi']
  simp

theorem graphAux_numberOfEdges {G : SimpleG} (hG : SimpleG.Inv G) {B : BipG}
    (h : Vars.graphAux G = .ok B) : B.numberOfEdges = (Fam.auxBip G).numberOfEdges := by
  obtain ⟨hw, hl, _, _⟩ := Vars.graphAux_spec h
  rw [BipG.numberOfEdges_eq_sum hw, auxBip_numberOfEdges_eq_sum, hl]
  congr 1
  apply List.map_congr_left
  intro i _
  rw [graphAux_rnbrs hG h]

/-! ### congruence: what reads only the sizes and the neighbour lists -/

theorem bipOffsets_congr {B B' : BipG} (hl : B.l = B'.l) (hr : ∀ u, B.rnbrs u = B'.rnbrs u)
    (s : Nat) : Vars.bipOffsets B s = Vars.bipOffsets B' s := by
  have hf : B.rnbrs = B'.rnbrs := funext hr
  unfold Vars.bipOffsets
  rw [hl, hf]

/-- whatever reads only the sizes and the neighbour lists agrees on two bipartite graphs -/
theorem bipId_congr {B B' : BipG} (hl : B.l = B'.l) (hr : ∀ u, B.rnbrs u = B'.rnbrs u)
    (s u v : Nat) : Vars.bipId B s u v = Vars.bipId B' s u v := by
  unfold Vars.bipId
  rw [bipOffsets_congr hl hr, hr]

theorem smap_row_congr {B B' : BipG} (hl : B.l = B'.l) (hr : ∀ u, B.rnbrs u = B'.rnbrs u)
    (s u : Nat) : (Fam.SMap.mk B s).row u = (Fam.SMap.mk B' s).row u := by
  simp only [Fam.SMap.row, Fam.SMap.lit, Fam.SMap.var]
  rw [hr]
  apply List.map_congr_left
  intro v _
  rw [bipId_congr hl hr]

theorem smap_col_congr {B B' : BipG} (hl : B.l = B'.l) (hr : ∀ u, B.rnbrs u = B'.rnbrs u)
    (hc : ∀ v, B.lnbrs v = B'.lnbrs v) (s v : Nat) :
    (Fam.SMap.mk B s).col v = (Fam.SMap.mk B' s).col v := by
  simp only [Fam.SMap.col, Fam.SMap.lit, Fam.SMap.var]
  rw [hc]
  apply List.map_congr_left
  intro u _
  rw [bipId_congr hl hr]

/-! ### consequences for the loop (ready-to-use forms) -/

theorem graphAux_l {G : SimpleG} {B : BipG} (h : Vars.graphAux G = .ok B) :
    B.l = (Fam.auxBip G).l := (Vars.graphAux_spec h).2.1
theorem graphAux_r {G : SimpleG} {B : BipG} (h : Vars.graphAux G = .ok B) :
    B.r = (Fam.auxBip G).r := (Vars.graphAux_spec h).2.2.1

theorem graphAux_bipId {G : SimpleG} (hG : SimpleG.Inv G) {B : BipG} (h : Vars.graphAux G = .ok B)
    (s u v : Nat) : Vars.bipId B s u v = Vars.bipId (Fam.auxBip G) s u v :=
  bipId_congr (graphAux_l h) (graphAux_rnbrs hG h) s u v

theorem graphAux_row {G : SimpleG} (hG : SimpleG.Inv G) {B : BipG} (h : Vars.graphAux G = .ok B)
    (s u : Nat) : (Fam.SMap.mk B s).row u = (Fam.SMap.mk (Fam.auxBip G) s).row u :=
  smap_row_congr (graphAux_l h) (graphAux_rnbrs hG h) s u

theorem graphAux_col {G : SimpleG} (hG : SimpleG.Inv G) {B : BipG} (h : Vars.graphAux G = .ok B)
    (s v : Nat) : (Fam.SMap.mk B s).col v = (Fam.SMap.mk (Fam.auxBip G) s).col v :=
  smap_col_congr (graphAux_l h) (graphAux_rnbrs hG h) (graphAux_lnbrs hG h) s v

/-- the edge iterator reads only `l` and the right-neighbour lists -/
theorem edges_congr {B B' : BipG} (hl : B.l = B'.l) (hr : ∀ u, B.rnbrs u = B'.rnbrs u) :
    B.edges = B'.edges := by
  have hf : B.rnbrs = B'.rnbrs := funext hr
  unfold BipG.edges
  rw [hl, hf]

theorem graphAux_edges {G : SimpleG} (hG : SimpleG.Inv G) {B : BipG} (h : Vars.graphAux G = .ok B) :
    B.edges = (Fam.auxBip G).edges :=
  edges_congr (graphAux_l h) (graphAux_rnbrs hG h)

/-! ### the closed form is a well-formed bipartite graph -/

theorem mem_idx {n x : Nat} : x ∈ Fam.idx n ↔ 1 ≤ x ∧ x ≤ n := by
  simp only [Fam.idx, rangeN, Nat.add_sub_cancel]
  exact mem_range_succ

theorem auxBip_mem_edgeset {G : SimpleG} (hG : SimpleG.Inv G) (a b : Nat) :
    (a, b) ∈ (Fam.auxBip G).edgeset ↔ a < b ∧ b ∈ G.nbrs a := by
  show (a, b) ∈ (Fam.idx G.n).flatMap
    (fun u => ((G.nbrs u).filter (fun v => u < v)).map (fun v => (u, v))) ↔ _
  simp only [List.mem_flatMap, List.mem_map, List.mem_filter, decide_eq_true_eq, Prod.mk.injEq,
    mem_idx]
  constructor
  · rintro ⟨u, _, v, ⟨hv, huv⟩, rfl, rfl⟩
    exact ⟨huv, hv⟩
  · rintro ⟨hab, hb⟩
    have := hG.nbrs_range hb
    exact ⟨a, ⟨this.1, this.2.1⟩, b, ⟨hb, hab⟩, rfl, rfl⟩

/-- the edge set of the loop and of the closed form have the same members -/
theorem graphAux_mem_edgeset_iff {G : SimpleG} (hG : SimpleG.Inv G) {B : BipG}
    (h : Vars.graphAux G = .ok B) (e : Nat × Nat) :
    e ∈ B.edgeset ↔ e ∈ (Fam.auxBip G).edgeset := by
  obtain ⟨a, b⟩ := e
  rw [graphAux_mem_edgeset hG h, auxBip_mem_edgeset hG]

theorem auxBip_wf {G : SimpleG} (hG : SimpleG.Inv G) : (Fam.auxBip G).WF where
  ladj_len := by simp [Fam.auxBip, Fam.idx, rangeN]
  radj_len := by simp [Fam.auxBip, Fam.idx, rangeN]
  row_sorted := by
    intro u
    rw [Fam.auxBip_rnbrs]
    split
    · exact (hG.nbrs_sorted u).filter _
    · exact List.Pairwise.nil
  col_sorted := by
    intro v
    rw [Fam.auxBip_lnbrs]
    split
    · exact (hG.nbrs_sorted v).filter _
    · exact List.Pairwise.nil
  mem_row := by
    intro u v
    rw [Fam.auxBip_rnbrs, auxBip_mem_edgeset hG]
    split
    · rw [List.mem_filter, decide_eq_true_eq]; exact And.comm
    · rename_i hu
      simp only [List.not_mem_nil, false_iff]
      rintro ⟨_, hv⟩
      have := hG.nbrs_range hv
      exact hu ⟨this.1, this.2.1⟩
  mem_col := by
    intro u v
    rw [Fam.auxBip_lnbrs, auxBip_mem_edgeset hG, hG.mem_nbrs_comm]
    split
    · rw [List.mem_filter, decide_eq_true_eq]; exact And.comm
    · rename_i hv
      simp only [List.not_mem_nil, false_iff]
      rintro ⟨_, hu⟩
      have := hG.nbrs_range hu
      exact hv ⟨this.1, this.2.1⟩
  edge_range := by
    intro u v hm
    have := hG.nbrs_range ((auxBip_mem_edgeset hG u v).1 hm).2
    exact ⟨this.1, this.2.1, this.2.2.1, this.2.2.2.1⟩
  edges_nodup := by
    show ((Fam.idx G.n).flatMap
      (fun u => ((G.nbrs u).filter (fun v => u < v)).map (fun v => (u, v)))).Nodup
    simp only [Fam.idx, rangeN, Nat.add_sub_cancel]
    rw [List.nodup_flatMap]
    constructor
    · intro u _
      refine ((hG.nbrs_nodup u).filter _).map ?_
      intro x y hxy
      exact (Prod.mk.injEq _ _ _ _ ▸ hxy : _ ∧ _).2
    · refine (pairwise_range_succ G.n).imp ?_
      intro i j hij
      simp only [Function.onFun]
      intro p hp hq
      simp only [List.mem_map] at hp hq
      obtain ⟨x, _, rfl⟩ := hp
      obtain ⟨y, _, hy⟩ := hq
      rw [Prod.mk.injEq] at hy
      omega

/-- the two edge sets are permutations of each other -/
theorem graphAux_edgeset_perm {G : SimpleG} (hG : SimpleG.Inv G) {B : BipG}
    (h : Vars.graphAux G = .ok B) : B.edgeset.Perm (Fam.auxBip G).edgeset :=
  (List.perm_ext_iff_of_nodup (Vars.graphAux_spec h).1.edges_nodup (auxBip_wf hG).edges_nodup).2
    (graphAux_mem_edgeset_iff hG h)

/-- `has_edge` agrees -/
theorem graphAux_hasEdge {G : SimpleG} (hG : SimpleG.Inv G) {B : BipG}
    (h : Vars.graphAux G = .ok B) (u v : Int) : B.hasEdge u v = (Fam.auxBip G).hasEdge u v := by
  rw [Bool.eq_iff_iff, BipG.hasEdge_iff_mem, BipG.hasEdge_iff_mem, graphAux_mem_edgeset_iff hG h]

end Cnfgen.GenAuxBip
