/-
Lemmas for the end-to-end theorem of C18 (Props/C18/EndToEnd.lean): `cliOutcome` (CnfgenModel/Cli/Outcome.lean)
on the numeric sub-commands.
-/
import CnfgenModel.Cli.Outcome
import Lemmas.DispatchNumeric
import Lemmas.DispatchFlag
import Lemmas.FamRamsey
import Lemmas.FamCpls
import Lemmas.FamPitfallAxioms
namespace Cnfgen.Cli
open Cnfgen Cnfgen.Gen

/-- the documented precondition of each generator `evalCall` maps, on its numeric arguments -/
def GenPre (c : Call) : Prop :=
  if c.fn = "PigeonholePrinciple" then ∃ m n, c.pos = [.int m, .int n] ∧ 0 ≤ m ∧ 0 ≤ n
  else if c.fn = "BinaryPigeonholePrinciple" then ∃ m n, c.pos = [.int m, .int n] ∧ 1 ≤ m ∧ 1 ≤ n
  else if c.fn = "RelativizedPigeonholePrinciple" then
    ∃ m r n, c.pos = [.int m, .int r, .int n] ∧ 0 ≤ m ∧ 0 ≤ r ∧ 0 ≤ n
  else if c.fn = "CountingPrinciple" then ∃ m p, c.pos = [.int m, .int p] ∧ 0 ≤ m ∧ 1 ≤ p
  else if c.fn = "CliqueColoring" then ∃ n k cc, c.pos = [.int n, .int k, .int cc] ∧ 0 ≤ n ∧ 0 ≤ k ∧ 0 ≤ cc
  else if c.fn = "OrderingPrinciple" then ∃ n rest, c.pos = .int n :: rest ∧ 0 ≤ n
  else if c.fn = "PythagoreanTriples" then ∃ n, c.pos = [.int n] ∧ 0 ≤ n
  else if c.fn = "RamseyNumber" then ∃ s k n, c.pos = [.int s, .int k, .int n] ∧ 1 ≤ s ∧ 1 ≤ k ∧ 0 ≤ n
  else if c.fn = "VanDerWaerden" then
    ∃ n k1 k2 ks, allInts c.pos = some (n :: k1 :: k2 :: ks) ∧ 0 ≤ n ∧ 1 ≤ k1 ∧ 1 ≤ k2 ∧ ∀ x ∈ ks, 1 ≤ x
  else if c.fn = "CPLSFormula" then
    ∃ a p q : Nat, c.pos = [.int (a : Int), .int ((2 ^ p : Nat) : Int), .int ((2 ^ q : Nat) : Int)] ∧ 1 ≤ a
  else if c.fn = "PitfallFormula" then
    ∃ v d ny nz k, c.pos = [.int v, .int d, .int ny, .int nz, .int k] ∧
      1 ≤ v ∧ 1 ≤ d ∧ 1 ≤ ny ∧ 2 ≤ nz ∧ 1 ≤ k ∧ k % 2 = 0 ∧ d < v ∧ v * d % 2 ≠ 1
  else False

/-- a mapped build step succeeds or raises ValueError: nothing else -/
theorem evalCall_clean (c : Call) (r : Except Err Unit) (h : evalCall c = some r) :
    r = .ok () ∨ r = .error .valueError := by
  sorry

/-- and it succeeds exactly when the generator's precondition holds -/
theorem evalCall_ok_iff (c : Call) (r : Except Err Unit) (h : evalCall c = some r) :
    r = .ok () ↔ GenPre c := by
  sorry

/-- `cliOutcome` of a covered sub-command, for every command line of the fragment: a CLIError unless the
number of tokens is the number of positionals, every token passes the validator of its positional, and the
call made with the converted values is accepted by the generator; then `ok` -/
theorem cliOutcome_covered (h : HelperSpec) (s : CliSpec) (hspec : specOf h = some s)
    (hc : outcomeCovered s = true) (argv : List String) (hf : inFragment s argv = true) :
    (cliOutcome h argv = some .ok ∨ cliOutcome h argv = some .cliError) ∧
    (cliOutcome h argv = some .ok ↔
      ∃ vals : List Int, ∃ c : Call,
        (argTokens s argv).length = (positionals s).length ∧ vals.length = (positionals s).length ∧
        (∀ p ∈ ((positionals s).zip (argTokens s argv)).zip vals, validate p.1.1.ty p.1.2 = some p.2) ∧
        callOfVals s vals = some c ∧ GenPre c) := by
  sorry

end Cnfgen.Cli
