/-
Lemmas for the end-to-end theorem of C18 (Props/C18/EndToEnd.lean): `cliOutcome` (CnfgenModel/Cli/Outcome.lean)
on the numeric sub-commands.
-/
import CnfgenModel.Cli.Outcome
import Lemmas.DispatchNumeric
import Lemmas.DispatchFlag
import Lemmas.FamRamsey
import Lemmas.FamCpls
import Lemmas.FamPitfallAxioms
namespace Cnfgen.Cli
open Cnfgen Cnfgen.Gen

theorem dout_forget_ok {α : Type} (x : Except Err α) : forget x = .ok () ↔ ∃ F, x = .ok F := by
  cases x <;> simp [forget, Except.map]

theorem dout_forget_err {α : Type} (x : Except Err α) (e : Err) : forget x = .error e ↔ x = .error e := by
  cases x <;> simp [forget, Except.map]

/-- `x` succeeds when `P` holds and raises ValueError otherwise -/
def dout_Dich {α : Type} (x : Except Err α) (P : Prop) : Prop :=
  (x = .error .valueError ∧ ¬ P) ∨ ((∃ F, x = .ok F) ∧ P)

theorem dout_dich_forget {α : Type} (x : Except Err α) (P : Prop) (h : dout_Dich x P) :
    (forget x = .ok () ∨ forget x = .error .valueError) ∧ (forget x = .ok () ↔ P) := by
  rcases h with ⟨hx, hp⟩ | ⟨⟨F, hx⟩, hp⟩
  · subst hx
    simp [forget, Except.map, hp]
  · subst hx
    simp [forget, Except.map, hp]

theorem dout_php (m n : Int) (f o : Bool) : dout_Dich (Fam.php m n f o) (0 ≤ m ∧ 0 ≤ n) := by
  unfold dout_Dich Fam.php
  split
  · left; exact ⟨rfl, by omega⟩
  · right; exact ⟨⟨_, rfl⟩, by omega⟩

theorem dout_bphp (m n : Int) : dout_Dich (Fam.bphp m n) (0 ≤ m ∧ 0 ≤ n) := by
  unfold dout_Dich Fam.bphp
  split
  · left; exact ⟨rfl, by omega⟩
  · right; exact ⟨⟨_, rfl⟩, by omega⟩

theorem dout_rphp (m r n : Int) : dout_Dich (Fam.rphp m r n) (0 ≤ m ∧ 0 ≤ r ∧ 0 ≤ n) := by
  unfold dout_Dich Fam.rphp
  split
  · left; exact ⟨rfl, by omega⟩
  · right; exact ⟨⟨_, rfl⟩, by omega⟩

theorem dout_counting (m p : Int) : dout_Dich (Fam.counting m p) (0 ≤ m ∧ 1 ≤ p) := by
  unfold dout_Dich Fam.counting
  split
  · left; exact ⟨rfl, by omega⟩
  · split
    · left; exact ⟨rfl, by omega⟩
    · right; exact ⟨⟨_, rfl⟩, by omega⟩

theorem dout_cc (n k c : Int) : dout_Dich (Fam.cliqueColoring n k c) (0 ≤ n ∧ 0 ≤ k ∧ 0 ≤ c) := by
  unfold dout_Dich Fam.cliqueColoring
  split
  · left; exact ⟨rfl, by omega⟩
  · right; exact ⟨⟨_, rfl⟩, by omega⟩

theorem dout_op (n : Int) (t s p : Bool) (k : Int) : dout_Dich (Fam.Ordering.op n t s p k) (0 ≤ n) := by
  unfold dout_Dich Fam.Ordering.op
  split
  · left; exact ⟨rfl, by omega⟩
  · right; exact ⟨⟨_, rfl⟩, by omega⟩

theorem dout_ptn (n : Int) : dout_Dich (Fam.Ramsey.ptn n) (0 ≤ n) := by
  unfold dout_Dich
  by_cases h : n < 0
  · left; exact ⟨FamRamsey.ptn_neg n h, by omega⟩
  · right
    refine ⟨?_, by omega⟩
    simp [Fam.Ramsey.ptn, Fam.Ramsey.nonNegInt, h, bind, Except.bind, pure, Except.pure]

theorem dout_ramsey (s k n : Int) : dout_Dich (Fam.Ramsey.ramseyNumber s k n) (1 ≤ s ∧ 1 ≤ k ∧ 0 ≤ n) := by
  unfold dout_Dich
  by_cases h : n < 0 ∨ s < 1 ∨ k < 1
  · left; exact ⟨FamRamsey.ramsey_err s k n h, by omega⟩
  · right
    refine ⟨?_, by omega⟩
    have h1 : ¬ n < 0 := by omega
    have h2 : ¬ s < 1 := by omega
    have h3 : ¬ k < 1 := by omega
    simp [Fam.Ramsey.ramseyNumber, Fam.Ramsey.nonNegInt, Fam.Ramsey.positiveInt, h1, h2, h3, bind,
      Except.bind, pure, Except.pure]

theorem dout_vdw (n k1 k2 : Int) (ks : List Int) :
    dout_Dich (Fam.Ramsey.vdw n k1 k2 ks) (0 ≤ n ∧ 1 ≤ k1 ∧ 1 ≤ k2 ∧ ∀ x ∈ ks, 1 ≤ x) := by
  unfold dout_Dich
  by_cases h : n < 0 ∨ k1 < 1 ∨ k2 < 1 ∨ ∃ x ∈ ks, x < 1
  · left
    refine ⟨FamRamsey.vdw_err n k1 k2 ks h, ?_⟩
    rintro ⟨a1, a2, a3, a4⟩
    rcases h with h | h | h | ⟨x, hx, h⟩
    · omega
    · omega
    · omega
    · have := a4 x hx; omega
  · right
    have h1 : ¬ n < 0 := fun a => h (Or.inl a)
    have h2 : ¬ k1 < 1 := fun a => h (Or.inr (Or.inl a))
    have h3 : ¬ k2 < 1 := fun a => h (Or.inr (Or.inr (Or.inl a)))
    have h4 : ∀ x ∈ ks, ¬ x < 1 := fun x hx a => h (Or.inr (Or.inr (Or.inr ⟨x, hx, a⟩)))
    refine ⟨?_, by omega, by omega, by omega, fun x hx => by have := h4 x hx; omega⟩
    have a4 : ks.any (fun x => decide (x < 1)) = false := by
      rw [List.any_eq_false]
      intro x hx
      simpa using h4 x hx
    simp only [Fam.Ramsey.vdw, Fam.Ramsey.nonNegInt, Fam.Ramsey.positiveInt, Fam.Ramsey.positiveIntSeq,
      h1, h2, h3, a4, bind, Except.bind, pure, Except.pure, if_false, Bool.false_eq_true]
    split <;> exact ⟨_, rfl⟩

theorem dout_cpls (a b c : Int) :
    dout_Dich (Fam.Cpls.cpls a b c)
      (∃ a' p q : Nat, a = (a' : Int) ∧ b = ((2 ^ p : Nat) : Int) ∧ c = ((2 ^ q : Nat) : Int) ∧ 1 ≤ a') := by
  unfold dout_Dich
  rcases FamCpls.cpls_ok_or_valueError a b c with ⟨F, hF⟩ | he
  · right
    refine ⟨⟨F, hF⟩, ?_⟩
    obtain ⟨a', p, q, h1, h2, h3, h4⟩ := FamCpls.cpls_accepts a b c F hF
    exact ⟨a', p, q, h2, h3, h4, h1⟩
  · left
    refine ⟨he, ?_⟩
    rintro ⟨a', p, q, rfl, rfl, rfl, h1⟩
    rw [FamCpls.cpls_ok a' p q h1] at he
    cases he


/-- the documented precondition of each generator `evalCall` maps, on its numeric arguments -/
def GenPre (c : Call) : Prop :=
  if c.fn = "PigeonholePrinciple" then ∃ m n, c.pos = [.int m, .int n] ∧ 0 ≤ m ∧ 0 ≤ n
  else if c.fn = "BinaryPigeonholePrinciple" then ∃ m n, c.pos = [.int m, .int n] ∧ 0 ≤ m ∧ 0 ≤ n
  else if c.fn = "RelativizedPigeonholePrinciple" then
    ∃ m r n, c.pos = [.int m, .int r, .int n] ∧ 0 ≤ m ∧ 0 ≤ r ∧ 0 ≤ n
  else if c.fn = "CountingPrinciple" then ∃ m p, c.pos = [.int m, .int p] ∧ 0 ≤ m ∧ 1 ≤ p
  else if c.fn = "CliqueColoring" then ∃ n k cc, c.pos = [.int n, .int k, .int cc] ∧ 0 ≤ n ∧ 0 ≤ k ∧ 0 ≤ cc
  else if c.fn = "OrderingPrinciple" then ∃ n rest, c.pos = .int n :: rest ∧ 0 ≤ n
  else if c.fn = "PythagoreanTriples" then ∃ n, c.pos = [.int n] ∧ 0 ≤ n
  else if c.fn = "RamseyNumber" then ∃ s k n, c.pos = [.int s, .int k, .int n] ∧ 1 ≤ s ∧ 1 ≤ k ∧ 0 ≤ n
  else if c.fn = "VanDerWaerden" then
    ∃ n k1 k2 ks, allInts c.pos = some (n :: k1 :: k2 :: ks) ∧ 0 ≤ n ∧ 1 ≤ k1 ∧ 1 ≤ k2 ∧ ∀ x ∈ ks, 1 ≤ x
  else if c.fn = "CPLSFormula" then
    ∃ a p q : Nat, c.pos = [.int (a : Int), .int ((2 ^ p : Nat) : Int), .int ((2 ^ q : Nat) : Int)] ∧ 1 ≤ a
  else if c.fn = "PitfallFormula" then
    ∃ v d ny nz k, c.pos = [.int v, .int d, .int ny, .int nz, .int k] ∧
      1 ≤ v ∧ 1 ≤ d ∧ 1 ≤ ny ∧ 2 ≤ nz ∧ 1 ≤ k ∧ k % 2 = 0 ∧ d < v ∧ v * d % 2 ≠ 1
  else False

theorem dout_close {α : Type} (x : Except Err α) (P Q : Prop) (r : Except Err Unit)
    (h : some (forget x) = some r) (hd : dout_Dich x P) (hpq : P ↔ Q) :
    (r = .ok () ∨ r = .error .valueError) ∧ (r = .ok () ↔ Q) := by
  cases h
  have := dout_dich_forget x P hd
  exact ⟨this.1, this.2.trans hpq⟩

theorem dout_evalCall (c : Call) (r : Except Err Unit) (h : evalCall c = some r) :
    (r = .ok () ∨ r = .error .valueError) ∧ (r = .ok () ↔ GenPre c) := by
  obtain ⟨fn, pos, kw⟩ := c
  unfold evalCall at h
  unfold GenPre
  simp only [beq_iff_eq] at h
  by_cases h1 : fn = "PigeonholePrinciple"
  · rw [if_pos h1] at h; rw [if_pos h1]
    split at h
    · exact dout_close _ _ _ _ h (dout_php _ _ _ _) (by simp)
    · cases h
  rw [if_neg h1] at h; rw [if_neg h1]
  by_cases h2 : fn = "BinaryPigeonholePrinciple"
  · rw [if_pos h2] at h; rw [if_pos h2]
    split at h
    · exact dout_close _ _ _ _ h (dout_bphp _ _) (by simp)
    · cases h
  rw [if_neg h2] at h; rw [if_neg h2]
  by_cases h3 : fn = "RelativizedPigeonholePrinciple"
  · rw [if_pos h3] at h; rw [if_pos h3]
    split at h
    · exact dout_close _ _ _ _ h (dout_rphp _ _ _) (by simp)
    · cases h
  rw [if_neg h3] at h; rw [if_neg h3]
  by_cases h4 : fn = "CountingPrinciple"
  · rw [if_pos h4] at h; rw [if_pos h4]
    split at h
    · exact dout_close _ _ _ _ h (dout_counting _ _) (by simp)
    · cases h
  rw [if_neg h4] at h; rw [if_neg h4]
  by_cases h5 : fn = "CliqueColoring"
  · rw [if_pos h5] at h; rw [if_pos h5]
    split at h
    · exact dout_close _ _ _ _ h (dout_cc _ _ _) (by simp)
    · cases h
  rw [if_neg h5] at h; rw [if_neg h5]
  by_cases h6 : fn = "OrderingPrinciple"
  · rw [if_pos h6] at h; rw [if_pos h6]
    split at h
    · exact dout_close _ _ _ _ h (dout_op _ _ _ _ _) (by simp)
    · exact dout_close _ _ _ _ h (dout_op _ _ _ _ _) (by simp)
    · cases h
  rw [if_neg h6] at h; rw [if_neg h6]
  by_cases h7 : fn = "PythagoreanTriples"
  · rw [if_pos h7] at h; rw [if_pos h7]
    split at h
    · exact dout_close _ _ _ _ h (dout_ptn _) (by simp)
    · cases h
  rw [if_neg h7] at h; rw [if_neg h7]
  by_cases h8 : fn = "RamseyNumber"
  · rw [if_pos h8] at h; rw [if_pos h8]
    split at h
    · exact dout_close _ _ _ _ h (dout_ramsey _ _ _) (by simp)
    · cases h
  rw [if_neg h8] at h; rw [if_neg h8]
  by_cases h9 : fn = "VanDerWaerden"
  · rw [if_pos h9] at h; rw [if_pos h9]
    split at h
    · rename_i heq
      exact dout_close _ _ _ _ h (dout_vdw _ _ _ _) (by simp [heq])
    · cases h
  rw [if_neg h9] at h; rw [if_neg h9]
  by_cases h10 : fn = "CPLSFormula"
  · rw [if_pos h10] at h; rw [if_pos h10]
    split at h
    · refine dout_close _ _ _ _ h (dout_cpls _ _ _) ?_
      constructor
      · rintro ⟨a', p, q, rfl, rfl, rfl, ha⟩
        exact ⟨a', p, q, rfl, ha⟩
      · rintro ⟨a', p, q, hpos, ha⟩
        simp only [List.cons.injEq, Val.int.injEq, and_true] at hpos
        exact ⟨a', p, q, hpos.1, hpos.2.1, hpos.2.2, ha⟩
    · cases h
  rw [if_neg h10] at h; rw [if_neg h10]
  by_cases h11 : fn = "PitfallFormula"
  · rw [if_pos h11] at h; rw [if_pos h11]
    split at h
    · cases h
      refine ⟨FamPitfall.check_ok_or_valueError _ _ _ _ _, (FamPitfall.check_iff _ _ _ _ _).trans ?_⟩
      simp
    · cases h
  rw [if_neg h11] at h
  cases h

/-- a mapped build step succeeds or raises ValueError: nothing else -/
theorem evalCall_clean (c : Call) (r : Except Err Unit) (h : evalCall c = some r) :
    r = .ok () ∨ r = .error .valueError := (dout_evalCall c r h).1

/-- and it succeeds exactly when the generator's precondition holds -/
theorem evalCall_ok_iff (c : Call) (r : Except Err Unit) (h : evalCall c = some r) :
    r = .ok () ↔ GenPre c := (dout_evalCall c r h).2

/-! ### association lists -/

theorem dout_lookup_mem (l : Ns) (k : String) (v : Val) (h : l.lookup k = some v) : (k, v) ∈ l := by
  induction l with
  | nil => simp [List.lookup] at h
  | cons x l ih =>
    obtain ⟨k', v'⟩ := x
    rw [List.lookup_cons] at h
    by_cases hk : k = k'
    · subst hk
      simp only [beq_self_eq_true, Option.some.injEq] at h
      subst h
      exact List.mem_cons_self ..
    · have hk' : (k == k') = false := by simp [hk]
      simp only [hk'] at h
      exact List.mem_cons_of_mem _ (ih h)

theorem dout_lookup_none (l : Ns) (k : String) (h : l.lookup k = none) (v : Val) : (k, v) ∉ l := by
  induction l with
  | nil => simp
  | cons x l ih =>
    obtain ⟨k', v'⟩ := x
    rw [List.lookup_cons] at h
    by_cases hk : k = k'
    · subst hk
      simp only [beq_self_eq_true] at h
      cases h
    · have hk' : (k == k') = false := by simp [hk]
      simp only [hk'] at h
      intro hm
      rcases List.mem_cons.1 hm with hm | hm
      · exact hk (Prod.mk.inj hm).1
      · exact ih h hm

/-- two association lists with the same entries, one value per key, answer every query alike -/
theorem dout_lookup_congr (l1 l2 : Ns) (h : ∀ k v, (k, v) ∈ l1 ↔ (k, v) ∈ l2)
    (hu : ∀ k v v', (k, v) ∈ l1 → (k, v') ∈ l1 → v = v') (k : String) : l1.lookup k = l2.lookup k := by
  cases h1 : l1.lookup k with
  | none =>
    cases h2 : l2.lookup k with
    | none => rfl
    | some v =>
      exact absurd ((h k v).2 (dout_lookup_mem l2 k v h2)) (dout_lookup_none l1 k h1 v)
  | some v =>
    symm
    apply dnum_lookup_unique
    · exact (h k v).1 (dout_lookup_mem l1 k v h1)
    · intro v' hv'
      exact hu k v' v ((h k v').2 hv') (dout_lookup_mem l1 k v h1)

/-! ### evaluation only reads the namespace through `lookup` -/

theorem dout_evalE_congr (ns ns' : Ns) (h : ∀ k, ns.lookup k = ns'.lookup k) :
    ∀ e : Expr, evalE ns e = evalE ns' e := by
  intro e
  induction e with
  | arg k => simp [evalE, h k]
  | hasattr k => simp [evalE, h k]
  | getattr k e ih => simp [evalE, h k, ih]
  | none => rfl
  | bool b => rfl
  | int i => rfl
  | str s => rfl
  | name n => rfl
  | not e ih => simp [evalE, ih]
  | and a b iha ihb => simp [evalE, iha, ihb]
  | or a b iha ihb => simp [evalE, iha, ihb]
  | isNone e ih => simp [evalE, ih]
  | isNotNone e ih => simp [evalE, ih]
  | cmp op a b iha ihb => simp [evalE, iha, ihb]
  | ite c t e ihc iht ihe => simp [evalE, ihc, iht, ihe]
  | star e ih => simp [evalE, ih]
  | binop op a b iha ihb => simp [evalE, iha, ihb]
  | order g ih => simp [evalE, ih]
  | nil => rfl
  | cons a b iha ihb => simp [evalE, iha, ihb]
  | mkgraph k sp ih => simp [evalE, ih]
  | «opaque» src ds => rfl

theorem dout_evalPos_congr (ns ns' : Ns) (h : ∀ k, ns.lookup k = ns'.lookup k) (es : List Expr) :
    evalPos ns es = evalPos ns' es := by
  induction es with
  | nil => rfl
  | cons e rest ih => simp only [evalPos, dout_evalE_congr ns ns' h e, ih]

theorem dout_evalKw_congr (ns ns' : Ns) (h : ∀ k, ns.lookup k = ns'.lookup k) (kw : List (String × Expr)) :
    evalKw ns kw = evalKw ns' kw := by
  induction kw with
  | nil => rfl
  | cons p rest ih =>
    obtain ⟨k, e⟩ := p
    simp only [evalKw, dout_evalE_congr ns ns' h e, ih]

theorem dout_instantiate_congr (ns ns' : Ns) (h : ∀ k, ns.lookup k = ns'.lookup k) (t : CallTemplate) :
    instantiate ns t = instantiate ns' t := by
  unfold instantiate
  rw [dout_evalPos_congr ns ns' h, dout_evalKw_congr ns ns' h]

/-! ### zips -/

theorem dout_zip_exists {α β : Type} (l : List α) (vs : List β) (hl : l.length ≤ vs.length) :
    ∀ x ∈ l, ∃ v, (x, v) ∈ l.zip vs := by
  induction l generalizing vs with
  | nil => simp
  | cons a l ih =>
    cases vs with
    | nil => simp at hl
    | cons v vs =>
      intro x hx
      rcases List.mem_cons.1 hx with rfl | hx
      · exact ⟨v, by simp⟩
      · obtain ⟨w, hw⟩ := ih vs (by simpa using hl) x hx
        exact ⟨w, by simp [hw]⟩

theorem dout_zip_map_self {α β : Type} (l : List α) (g : α → β) :
    l.zip (l.map g) = l.map (fun x => (x, g x)) := by
  induction l with
  | nil => rfl
  | cons a l ih => simp [ih]

theorem dout_vals_unique {α : Type} (f : α → Option Int) (l : List α) (vs : List Int)
    (hl : vs.length = l.length) (h : ∀ p ∈ l.zip vs, f p.1 = some p.2) :
    vs = l.map (fun x => (f x).getD 0) := by
  induction l generalizing vs with
  | nil => cases vs with
    | nil => rfl
    | cons v vs => simp at hl
  | cons a l ih =>
    cases vs with
    | nil => simp at hl
    | cons v vs =>
      have h0 := h (a, v) (by simp)
      simp only at h0
      rw [List.map_cons, h0, Option.getD_some,
        ← ih vs (by simpa using hl) (fun p hp => h p (by simp [hp]))]

theorem dout_zip_map (ps : List OptSpec) (toks : List String) (g : OptSpec × String → Int) :
    (ps.zip ((ps.zip toks).map g)).map (fun p => (p.1.dest, Val.int p.2)) =
      (ps.zip toks).map (fun p => (p.1.dest, Val.int (g p))) := by
  induction ps generalizing toks with
  | nil => rfl
  | cons o os ih =>
    cases toks with
    | nil => simp
    | cons t ts => simp [ih]


/-! ### the covered sub-commands -/

theorem dout_covered_parts (s : CliSpec) (hc : outcomeCovered s = true) :
    s.supported = true ∧ numericOnly s = true ∧ specWF s = true ∧ (∀ o ∈ s.opts, o.positional = true) ∧
    ∃ t, s.templates = [t] ∧ t.guard = .bool true ∧ t.raises = "" ∧ t.fn ∈ evalFns := by
  unfold outcomeCovered at hc
  simp only [Bool.and_eq_true, List.all_eq_true] at hc
  obtain ⟨⟨⟨⟨h1, h2⟩, h3⟩, h4⟩, h5⟩ := hc
  refine ⟨h1, h2, h3, h4, ?_⟩
  split at h5
  · rename_i t ht
    simp only [Bool.and_eq_true, beq_iff_eq, List.contains_eq_mem, decide_eq_true_eq] at h5
    exact ⟨t, ht, h5.1.1, h5.1.2, h5.2⟩
  · cases h5

/-- the value of a token for its positional (0 when the validator refuses it) -/
def dout_valOf (p : OptSpec × String) : Int := (validate p.1.ty p.2).getD 0

theorem dout_convertOne_ty (o : OptSpec) (t : String) (h : o.ty ≠ "") :
    convertOne o t = (validate o.ty t).map .int := by
  unfold convertOne
  have : (o.ty == "") = false := by simp [h]
  simp [this]

/-- `cliOutcome_covered`, from what is needed of the sub-command: typed positionals, a call that can be
instantiated with integers, and that `evalCall` maps -/
theorem dout_cliOutcome_covered (h : HelperSpec) (s : CliSpec) (hspec : specOf h = some s)
    (hc : outcomeCovered s = true)
    (hty : ∀ o ∈ positionals s, o.ty ≠ "")
    (hinst : ∀ vals : List Int, vals.length = (positionals s).length → (callOfVals s vals).isSome = true)
    (hshape : ∀ (vals : List Int) (c : Call), vals.length = (positionals s).length →
      callOfVals s vals = some c → (evalCall c).isSome = true)
    (argv : List String) (hf : inFragment s argv = true) :
    (cliOutcome h argv = some .ok ∨ cliOutcome h argv = some .cliError) ∧
    (cliOutcome h argv = some .ok ↔
      ∃ vals : List Int, ∃ c : Call,
        (argTokens s argv).length = (positionals s).length ∧ vals.length = (positionals s).length ∧
        (∀ p ∈ ((positionals s).zip (argTokens s argv)).zip vals, validate p.1.1.ty p.1.2 = some p.2) ∧
        callOfVals s vals = some c ∧ GenPre c) := by
  obtain ⟨hsup, hn, hwf, hallpos, t, htpl, hguard, hraises, hfn⟩ := dout_covered_parts s hc
  have hpa := dnum_parseArgs s hn argv hf
  cases hr : parseArgs s argv with
  | error e =>
    rw [hr] at hpa
    simp only at hpa
    obtain ⟨he, hno⟩ := hpa
    subst he
    have hco : cliOutcome h argv = some .cliError := by
      simp [cliOutcome, dispatch, hspec, dispatchSpec, dispatchTemplate, hsup, hr]
    rw [hco]
    refine ⟨Or.inr rfl, ?_⟩
    constructor
    · intro hh; cases hh
    · rintro ⟨vals, c, hl1, hl2, hv, _⟩
      exfalso
      apply hno
      refine ⟨hl1, ?_⟩
      intro p hp
      have hlen : ((positionals s).zip (argTokens s argv)).length ≤ vals.length := by
        simp only [List.length_zip]; omega
      obtain ⟨v, hv'⟩ := dout_zip_exists _ vals hlen p hp
      have := hv (p, v) hv'
      simp only at this
      rw [dout_convertOne_ty _ _ (hty p.1 (List.of_mem_zip hp).1), this]
      rfl
  | ok b =>
    rw [hr] at hpa
    simp only at hpa
    obtain ⟨hlen, hall, hin, hout⟩ := hpa
    -- the converted values
    have hval : ∀ p ∈ (positionals s).zip (argTokens s argv), validate p.1.ty p.2 = some (dout_valOf p) := by
      intro p hp
      have := hall p hp
      rw [dout_convertOne_ty _ _ (hty p.1 (List.of_mem_zip hp).1)] at this
      unfold dout_valOf
      cases hv : validate p.1.ty p.2 with
      | none => simp [hv] at this
      | some v => rfl
    have hconv : ∀ p ∈ (positionals s).zip (argTokens s argv),
        convertOne p.1 p.2 = some (.int (dout_valOf p)) := by
      intro p hp
      rw [dout_convertOne_ty _ _ (hty p.1 (List.of_mem_zip hp).1), hval p hp]
      rfl
    have hlen0 : (((positionals s).zip (argTokens s argv)).map dout_valOf).length = (positionals s).length := by
      simp only [List.length_map, List.length_zip]; omega
    -- the namespace
    have hnd : (destsOf (positionals s)).Nodup := by
      unfold specWF at hwf
      simp only [Bool.and_eq_true, decide_eq_true_eq] at hwf
      exact hwf.1.1.1
    have hns : ∀ k, (namespaceOf s b).lookup k =
        (nsOfVals s (((positionals s).zip (argTokens s argv)).map dout_valOf)).lookup k := by
      intro k
      unfold namespaceOf nsOfVals
      rw [dflag_lookup_append, dflag_lookup_append, dout_zip_map]
      have : b.lookup k = (((positionals s).zip (argTokens s argv)).map
          (fun p => (p.1.dest, Val.int (dout_valOf p)))).lookup k := by
        apply dout_lookup_congr
        · intro k v
          constructor
          · intro hm
            rcases hout k v hm with ⟨p, hp, hk, hcv⟩ | ⟨o, ho, hpos, _⟩
            · rw [hconv p hp] at hcv
              cases hcv
              exact List.mem_map.2 ⟨p, hp, by rw [hk]⟩
            · rw [hallpos o ho] at hpos; cases hpos
          · intro hm
            obtain ⟨p, hp, heq⟩ := List.mem_map.1 hm
            cases heq
            exact hin _ _ ⟨p, hp, rfl, hconv p hp⟩
        · intro k v v' h1 h2
          rcases hout k v h1 with ⟨p, hp, hk, hcv⟩ | ⟨o, ho, hpos, _⟩
          · rcases hout k v' h2 with ⟨q, hq, hk', hcv'⟩ | ⟨o, ho, hpos, _⟩
            · have := dnum_zip_unique _ _ hnd p q hp hq (by rw [← hk, ← hk'])
              subst this
              rw [hcv] at hcv'
              exact Option.some.inj hcv'
            · rw [hallpos o ho] at hpos; cases hpos
          · rw [hallpos o ho] at hpos; cases hpos
      rw [this]
    have hinstEq := dout_instantiate_congr _ _ hns t
    -- the call
    obtain ⟨c, hcall⟩ := Option.isSome_iff_exists.1 (hinst _ hlen0)
    have hic : instantiate (nsOfVals s (((positionals s).zip (argTokens s argv)).map dout_valOf)) t = .ok c := by
      unfold callOfVals at hcall
      rw [htpl] at hcall
      simp only at hcall
      split at hcall
      · rename_i c' hc'
        cases hcall
        exact hc'
      · cases hcall
    obtain ⟨r, hev⟩ := Option.isSome_iff_exists.1 (hshape _ c hlen0 hcall)
    have hco : cliOutcome h argv = some (shield r) := by
      simp [cliOutcome, dispatch, hspec, dispatchSpec, dispatchTemplate, hsup, hr, htpl, selectTemplate,
        evalGuard, hguard, evalE, truthy, hinstEq, hic, hev]
    have hvalid : ∀ p ∈ ((positionals s).zip (argTokens s argv)).zip
        (((positionals s).zip (argTokens s argv)).map dout_valOf), validate p.1.1.ty p.1.2 = some p.2 := by
      intro p hp
      rw [dout_zip_map_self] at hp
      obtain ⟨q, hq, rfl⟩ := List.mem_map.1 hp
      exact hval q hq
    have huniq : ∀ vals : List Int, vals.length = (positionals s).length →
        (∀ p ∈ ((positionals s).zip (argTokens s argv)).zip vals, validate p.1.1.ty p.1.2 = some p.2) →
        vals = ((positionals s).zip (argTokens s argv)).map dout_valOf := by
      intro vals hl hv
      exact dout_vals_unique (fun p : OptSpec × String => validate p.1.ty p.2) _ vals
        (by simp only [List.length_zip]; omega) hv
    rw [hco]
    rcases evalCall_clean c r hev with rfl | rfl
    · have hpre : GenPre c := (evalCall_ok_iff c _ hev).1 rfl
      refine ⟨Or.inl rfl, ?_⟩
      constructor
      · intro _
        exact ⟨_, c, hlen, hlen0, hvalid, hcall, hpre⟩
      · intro _; rfl
    · refine ⟨Or.inr rfl, ?_⟩
      constructor
      · intro hh; cases hh
      · rintro ⟨vals, c', _, hl2, hv, hcall', hpre⟩
        exfalso
        rw [huniq vals hl2 hv, hcall] at hcall'
        cases hcall'
        have := (evalCall_ok_iff c _ hev).2 hpre
        cases this


/-! ### a decidable sufficient condition for the three side conditions -/

/-- an argument of the call that is a positional of the sub-command or an integer constant -/
def dout_posOK (ds : List String) : Expr → Bool
  | .arg d => ds.contains d
  | .int _ => true
  | _ => false

/-- a keyword argument that is a parameter of the helper's method or a constant -/
def dout_kwOK : Expr → Bool
  | .name _ => true
  | .none => true
  | .bool _ => true
  | .int _ => true
  | .str _ => true
  | _ => false

/-- the generators of `evalCall` whose arguments are all integers, with the number of arguments -/
def dout_arityOK (fn : String) (n : Nat) : Bool :=
  (fn == "BinaryPigeonholePrinciple" && n == 2) || (fn == "RelativizedPigeonholePrinciple" && n == 3) ||
  (fn == "CountingPrinciple" && n == 2) || (fn == "CliqueColoring" && n == 3) ||
  (fn == "PythagoreanTriples" && n == 1) || (fn == "RamseyNumber" && n == 3) ||
  (fn == "VanDerWaerden" && decide (3 ≤ n)) || (fn == "CPLSFormula" && n == 3) ||
  (fn == "PitfallFormula" && n == 5)

def dout_shapeOK (s : CliSpec) : Bool :=
  (positionals s).all (fun o => o.ty != "") &&
  (match s.templates with
   | [t] => t.raises == "" && t.fn != "" && t.pos.all (dout_posOK (destsOf (positionals s))) &&
            t.kw.all (fun p => dout_kwOK p.2) && dout_arityOK t.fn t.pos.length
   | _ => false)

theorem dout_lookup_some (l : Ns) (k : String) (v : Val) (h : (k, v) ∈ l) : ∃ w, l.lookup k = some w := by
  cases hl : l.lookup k with
  | none => exact absurd h (dout_lookup_none l k hl v)
  | some w => exact ⟨w, rfl⟩

/-- in `nsOfVals` every positional is an integer -/
theorem dout_nsOfVals_int (s : CliSpec) (vals : List Int) (hl : vals.length = (positionals s).length) :
    ∀ d ∈ destsOf (positionals s), ∃ i, (nsOfVals s vals).lookup d = some (.int i) := by
  intro d hd
  unfold destsOf at hd
  obtain ⟨o, ho, rfl⟩ := List.mem_map.1 hd
  obtain ⟨v, hv⟩ := dout_zip_exists (positionals s) vals (by omega) o ho
  have hm : (o.dest, Val.int v) ∈ ((positionals s).zip vals).map (fun p => (p.1.dest, Val.int p.2)) :=
    List.mem_map.2 ⟨(o, v), hv, rfl⟩
  obtain ⟨w, hw⟩ := dout_lookup_some _ _ _ hm
  have hw' := dout_lookup_mem _ _ _ hw
  obtain ⟨q, _, hq⟩ := List.mem_map.1 hw'
  unfold nsOfVals
  rw [dflag_lookup_append, hw]
  exact ⟨q.2, by rw [← (Prod.mk.inj hq).2]⟩

theorem dout_evalPos_ints (ns : Ns) (ds : List String) (hns : ∀ d ∈ ds, ∃ i, ns.lookup d = some (.int i))
    (es : List Expr) (hes : ∀ e ∈ es, dout_posOK ds e = true) :
    ∃ l : List Int, evalPos ns es = some (l.map .int) ∧ l.length = es.length := by
  induction es with
  | nil => exact ⟨[], rfl, rfl⟩
  | cons e rest ih =>
    obtain ⟨l, hl, hlen⟩ := ih (fun e' he' => hes e' (List.mem_cons_of_mem _ he'))
    have he := hes e (List.mem_cons_self ..)
    cases e <;> simp only [dout_posOK, Bool.false_eq_true] at he
    case arg d =>
      obtain ⟨i, hi⟩ := hns d (by simpa using he)
      exact ⟨i :: l, by simp [evalPos, evalE, hi, hl], by simp [hlen]⟩
    case int i =>
      exact ⟨i :: l, by simp [evalPos, evalE, hl], by simp [hlen]⟩

theorem dout_evalKw_some (ns : Ns) (kw : List (String × Expr)) (h : ∀ p ∈ kw, dout_kwOK p.2 = true) :
    ∃ k, evalKw ns kw = some k := by
  induction kw with
  | nil => exact ⟨[], rfl⟩
  | cons p rest ih =>
    obtain ⟨k, hk⟩ := ih (fun q hq => h q (List.mem_cons_of_mem _ hq))
    obtain ⟨key, e⟩ := p
    have he := h (key, e) (List.mem_cons_self ..)
    cases e <;> simp only [dout_kwOK, Bool.false_eq_true] at he <;> simp [evalKw, evalE, hk]

theorem dout_allInts_map (l : List Int) : allInts (l.map .int) = some l := by
  induction l with
  | nil => rfl
  | cons a l ih => simp [allInts, ih]

theorem dout_evalCall_ints (fn : String) (l : List Int) (kw : List (String × Val))
    (h : dout_arityOK fn l.length = true) : (evalCall ⟨fn, l.map .int, kw⟩).isSome = true := by
  unfold dout_arityOK at h
  simp only [Bool.or_eq_true, Bool.and_eq_true, beq_iff_eq, decide_eq_true_eq] at h
  rcases h with (((((((⟨rfl, hl⟩ | ⟨rfl, hl⟩) | ⟨rfl, hl⟩) | ⟨rfl, hl⟩) | ⟨rfl, hl⟩) | ⟨rfl, hl⟩) | ⟨rfl, hl⟩) |
    ⟨rfl, hl⟩) | ⟨rfl, hl⟩
  · match l, hl with
    | [a, b], _ => simp [evalCall]
  · match l, hl with
    | [a, b, c], _ => simp [evalCall]
  · match l, hl with
    | [a, b], _ => simp [evalCall]
  · match l, hl with
    | [a, b, c], _ => simp [evalCall]
  · match l, hl with
    | [a], _ => simp [evalCall]
  · match l, hl with
    | [a, b, c], _ => simp [evalCall]
  · match l, hl with
    | a :: b :: c :: ks, _ =>
      have := dout_allInts_map (a :: b :: c :: ks)
      simp only [List.map_cons] at this
      simp [evalCall, this]
  · match l, hl with
    | [a, b, c], _ => simp [evalCall]
  · match l, hl with
    | [a, b, c, d, e], _ => simp [evalCall]

theorem dout_shape (s : CliSpec) (h : dout_shapeOK s = true) :
    (∀ o ∈ positionals s, o.ty ≠ "") ∧
    (∀ vals : List Int, vals.length = (positionals s).length → (callOfVals s vals).isSome = true) ∧
    (∀ (vals : List Int) (c : Call), vals.length = (positionals s).length →
      callOfVals s vals = some c → (evalCall c).isSome = true) := by
  unfold dout_shapeOK at h
  rw [Bool.and_eq_true, List.all_eq_true] at h
  obtain ⟨hty, ht⟩ := h
  split at ht
  case h_2 => cases ht
  rename_i t htpl
  simp only [Bool.and_eq_true, List.all_eq_true, beq_iff_eq, bne_iff_ne] at ht
  obtain ⟨⟨⟨⟨hraises, hfn⟩, hpos⟩, hkw⟩, har⟩ := ht
  have hcall : ∀ vals : List Int, vals.length = (positionals s).length →
      ∃ (l : List Int) (k : List (String × Val)), l.length = t.pos.length ∧
        callOfVals s vals = some ⟨t.fn, l.map .int, k⟩ := by
    intro vals hl
    obtain ⟨l, hl1, hl2⟩ := dout_evalPos_ints _ _ (dout_nsOfVals_int s vals hl) t.pos hpos
    obtain ⟨k, hk⟩ := dout_evalKw_some (nsOfVals s vals) t.kw hkw
    refine ⟨l, k, hl2, ?_⟩
    unfold callOfVals
    rw [htpl]
    simp [instantiate, hraises, hfn, hl1, hk]
  refine ⟨fun o ho => by simpa using hty o ho, ?_, ?_⟩
  · intro vals hl
    obtain ⟨l, k, _, hc⟩ := hcall vals hl
    rw [hc]; rfl
  · intro vals c hl hc
    obtain ⟨l, k, hlen, hc'⟩ := hcall vals hl
    rw [hc'] at hc
    cases hc
    exact dout_evalCall_ints _ _ _ (by rw [hlen]; exact har)


/-- every covered sub-command of the regenerated table has that shape (the quantifier is the finite table) -/
theorem dout_covered_shapeOK : (cliSpecs.filter outcomeCovered).all dout_shapeOK = true := by decide +kernel

theorem dout_specOf_mem (h : HelperSpec) (s : CliSpec) (hspec : specOf h = some s) : s ∈ cliSpecs := by
  unfold specOf at hspec
  exact List.mem_of_find?_eq_some hspec

/-- `cliOutcome` of a covered sub-command, for every command line of the fragment: a CLIError unless the
number of tokens is the number of positionals, every token passes the validator of its positional, and the
call made with the converted values is accepted by the generator; then `ok` -/
theorem cliOutcome_covered (h : HelperSpec) (s : CliSpec) (hspec : specOf h = some s)
    (hc : outcomeCovered s = true) (argv : List String) (hf : inFragment s argv = true) :
    (cliOutcome h argv = some .ok ∨ cliOutcome h argv = some .cliError) ∧
    (cliOutcome h argv = some .ok ↔
      ∃ vals : List Int, ∃ c : Call,
        (argTokens s argv).length = (positionals s).length ∧ vals.length = (positionals s).length ∧
        (∀ p ∈ ((positionals s).zip (argTokens s argv)).zip vals, validate p.1.1.ty p.1.2 = some p.2) ∧
        callOfVals s vals = some c ∧ GenPre c) := by
  have hsh : dout_shapeOK s = true :=
    (List.all_eq_true.1 dout_covered_shapeOK) s (List.mem_filter.2 ⟨dout_specOf_mem h s hspec, hc⟩)
  obtain ⟨hty, hinst, hshape⟩ := dout_shape s hsh
  exact dout_cliOutcome_covered h s hspec hc hty hinst hshape argv hf

end Cnfgen.Cli
