/-
Combinators for `Fam.VarIndex` (numberings of an index type by the variables `1..N`): the
identity numbering of `Fin r`, the row-major numbering of a grid `Fin m × Fin n` (the identifiers
of `new_mapping(m, n)` / `new_block(m, n)` on an empty formula) and the concatenation of two
numberings (variable groups created one after the other).
-/
import Lemmas.C01Bij2
namespace Cnfgen.Fam
open Cnfgen

theorem grid_idx_lt {m n : Nat} (i : Fin m) (j : Fin n) : i.val * n + j.val < m * n := by
  have : (i.val + 1) * n ≤ m * n := Nat.mul_le_mul_right _ i.isLt
  rw [Nat.add_mul] at this
  have := j.isLt
  omega

theorem grid_pos_of_fin {m n : Nat} (x : Fin (m * n)) : 0 < n := by
  rcases Nat.eq_zero_or_pos n with h | h
  · have h1 := x.isLt
    have h2 : m * n = 0 := by rw [h]; rfl
    omega
  · exact h

theorem grid_div_lt {m n : Nat} (x : Fin (m * n)) : x.val / n < m := by
  rw [Nat.div_lt_iff_lt_mul (grid_pos_of_fin x)]; exact x.isLt

theorem grid_mod_lt {m n : Nat} (x : Fin (m * n)) : x.val % n < n :=
  Nat.mod_lt _ (grid_pos_of_fin x)

namespace VarIndex

/-- `Fin r` numbered by `1..r`: `v ↦ v + 1` -/
def finIdx (r : Nat) : VarIndex (Fin r) r where
  var v := v.val + 1
  inv x := x
  var_pos _ := by omega
  var_le v := v.isLt
  var_inv _ := rfl
  var_inj i j h := Fin.ext (by omega)

/-- the grid `Fin m × Fin n` numbered row by row: `(i, j) ↦ i * n + j + 1`
(`= Vars.mapId 1 n (i + 1) (j + 1)`) -/
def gridIdx (m n : Nat) : VarIndex (Fin m × Fin n) (m * n) where
  var p := p.1.val * n + p.2.val + 1
  inv x := (⟨x.val / n, grid_div_lt x⟩, ⟨x.val % n, grid_mod_lt x⟩)
  var_pos _ := by omega
  var_le p := grid_idx_lt p.1 p.2
  var_inv x := by
    have := Nat.div_add_mod x.val n
    rw [Nat.mul_comm] at this
    simp only []; omega
  var_inj p q h := by
    obtain ⟨i, j⟩ := p
    obtain ⟨i', j'⟩ := q
    simp only [] at h
    have hn : 0 < n := Nat.lt_of_le_of_lt (Nat.zero_le _) j.isLt
    have h' : j.val + i.val * n = j'.val + i'.val * n := by omega
    have hd := congrArg (· / n) h'
    have hm := congrArg (· % n) h'
    simp only [Nat.add_mul_div_right _ _ hn, Nat.div_eq_of_lt j.isLt, Nat.div_eq_of_lt j'.isLt,
      Nat.add_mul_mod_self_right, Nat.mod_eq_of_lt j.isLt, Nat.mod_eq_of_lt j'.isLt,
      Nat.zero_add] at hd hm
    exact Prod.ext (Fin.ext hd) (Fin.ext hm)

/-- two groups of variables created one after the other: the second numbering is shifted by the
size of the first -/
def sumIdx {I J : Type} {N M : Nat} (ν : VarIndex I N) (μ : VarIndex J M) :
    VarIndex (I ⊕ J) (N + M) where
  var := Sum.elim ν.var (fun j => N + μ.var j)
  inv x := if h : x.val < N then .inl (ν.inv ⟨x.val, h⟩)
    else .inr (μ.inv ⟨x.val - N, by have := x.isLt; omega⟩)
  var_pos s := by
    rcases s with i | j
    · exact ν.var_pos i
    · have := μ.var_pos j
      simp only [Sum.elim_inr]; omega
  var_le s := by
    rcases s with i | j
    · have := ν.var_le i
      simp only [Sum.elim_inl]; omega
    · have := μ.var_le j
      simp only [Sum.elim_inr]; omega
  var_inv x := by
    by_cases h : x.val < N
    · simp only [dif_pos h, Sum.elim_inl, ν.var_inv]
    · simp only [dif_neg h, Sum.elim_inr, μ.var_inv]; omega
  var_inj s t h := by
    rcases s with i | j <;> rcases t with i' | j' <;> simp only [Sum.elim_inl, Sum.elim_inr] at h
    · rw [ν.var_inj i i' h]
    · have := ν.var_le i; have := μ.var_pos j'; omega
    · have := ν.var_le i'; have := μ.var_pos j; omega
    · rw [μ.var_inj j j' (by omega)]

theorem finIdx_var (r : Nat) (v : Fin r) : (finIdx r).var v = v.val + 1 := rfl

theorem gridIdx_var (m n : Nat) (i : Fin m) (j : Fin n) :
    (gridIdx m n).var (i, j) = i.val * n + j.val + 1 := rfl

theorem sumIdx_var_inl {I J : Type} {N M : Nat} (ν : VarIndex I N) (μ : VarIndex J M) (i : I) :
    (sumIdx ν μ).var (.inl i) = ν.var i := rfl

theorem sumIdx_var_inr {I J : Type} {N M : Nat} (ν : VarIndex I N) (μ : VarIndex J M) (j : J) :
    (sumIdx ν μ).var (.inr j) = N + μ.var j := rfl

end VarIndex
end Cnfgen.Fam
