/-
For every input there is a legal draw list on which the samplers run to completion
(so the hypotheses "legal draws, complete recording" of the C13 theorems are satisfiable
for every k ≤ n, m and planted set — not only on an example).  The witness answers every
`sample` with the first k positions, every `choice` with position 0 and every `randint(0,1)`
with 0: the rejection loop then sees the same candidate over and over, exhausts its budget
and falls through to the dense path.
-/
import Lemmas.RandKXOR
namespace Cnfgen.Rand
open Cnfgen

/-- a run is complete when the draw list neither ran out nor answered a request the program did not make -/
def Completed {α : Type} (r : Except RErr α) : Prop := r ≠ .error .outOfDraws ∧ r ≠ .error .mismatch

theorem isort_of_sorted (l : List Int) (h : l.Pairwise (· ≤ ·)) : isort l = l := by
  induction l with
  | nil => rfl
  | cons x xs ih =>
    rw [List.pairwise_cons] at h
    simp only [isort, ih h.2]
    cases xs with
    | nil => rfl
    | cons y ys => simp [insertSorted, h.1 y (by simp)]

theorem vars_mem_combos {k n : Nat} (h : k ≤ n) : vars k ∈ combos (vars n) k := by
  rw [mem_combos_vars]
  refine ⟨by simp [vars], vars_strict k, ?_⟩
  intro x hx
  have := mem_vars.1 hx
  omega

theorem rejectVars_done {k n : Nat} {chosen : List Int} (h : k ≤ chosen.length) (ds : List Draw) :
    rejectVars k n chosen ds = .ok (chosen, ds) := by
  cases ds with
  | nil => rw [rejectVars_nil, if_neg (by omega)]
  | cons d rest => rw [rejectVars_cons, if_neg (by omega)]

/-- `j, j-1, …, 1` as answers of `randint(1, n)` -/
def descDraws (n : Nat) : Nat → List Draw
  | 0 => []
  | j + 1 => .randint 1 n ((j : Int) + 1) :: descDraws n j

def upFrom (j len : Nat) : List Int := (List.range' (j + 1) len).map (fun (i : Nat) => (i : Int))

theorem upFrom_zero (k : Nat) : upFrom 0 k = vars k := by
  unfold upFrom vars
  rw [List.range'_eq_map_range, List.map_map]
  apply List.map_congr_left
  intro i _
  simp only [Function.comp]
  push_cast; omega

theorem descDraws_length (n j : Nat) : (descDraws n j).length = j := by
  induction j with
  | zero => rfl
  | succ j ih => simp [descDraws, ih]

theorem descDraws_legal {n : Nat} (j : Nat) (h : j ≤ n) : Legal (descDraws n j) := by
  induction j with
  | zero => exact Legal.nil
  | succ j ih =>
    simp only [descDraws]
    rw [Legal.cons]
    refine ⟨?_, ih (by omega)⟩
    show (1 : Int) ≤ (j : Int) + 1 ∧ (j : Int) + 1 ≤ (n : Int)
    omega

theorem rejectVars_desc {k n : Nat} (t : List Draw) : ∀ j, j ≤ k →
    rejectVars k n (upFrom j (k - j)) (descDraws n j ++ t) = .ok (upFrom 0 k, t) := by
  intro j
  induction j with
  | zero => intro _; exact rejectVars_done (by simp [upFrom]) _
  | succ j ih =>
    intro hj
    simp only [descDraws, List.cons_append]
    rw [rejectVars_cons, if_pos (by simp [upFrom]; omega)]
    simp only [true_and, if_true]
    have hc : (upFrom (j + 1) (k - (j + 1))).contains ((j : Int) + 1) = false := by
      rw [Bool.eq_false_iff]
      intro hc
      simp only [upFrom, List.contains_iff_mem, List.mem_map, List.mem_range'_1] at hc
      obtain ⟨i, hi, hi'⟩ := hc
      omega
    rw [hc]
    simp only [Bool.false_eq_true, if_false]
    have : ((j : Int) + 1) :: upFrom (j + 1) (k - (j + 1)) = upFrom j (k - j) := by
      unfold upFrom
      have : k - j = (k - (j + 1)) + 1 := by omega
      rw [this, List.range'_succ]
      simp
    rw [this]
    exact ih (by omega)

/-- the draws answering one call of `sample_variables(n, k)` with the variables `1..k` -/
def varDraws (k n : Nat) : List Draw :=
  if n ≤ sysMaxsize then [.sample n k (List.range k)] else descDraws n k

theorem varDraws_length_le (k n : Nat) : (varDraws k n).length ≤ k + 1 := by
  unfold varDraws; split
  · simp
  · rw [descDraws_length]; omega

theorem varDraws_length_small {k n : Nat} (h : n ≤ sysMaxsize) : (varDraws k n).length = 1 := by
  unfold varDraws; rw [if_pos h]; rfl

theorem varDraws_legal {k n : Nat} (h : k ≤ n) : Legal (varDraws k n) := by
  unfold varDraws; split
  · rw [Legal.cons]
    refine ⟨⟨by simp, List.nodup_range, ?_⟩, Legal.nil⟩
    intro i hi; have := List.mem_range.1 hi; omega
  · exact descDraws_legal k h

theorem drawVars_const {k n : Nat} (h : k ≤ n) (t : List Draw) :
    drawVars k n (varDraws k n ++ t) = .ok (vars k, t) := by
  have hs : isort (vars k) = vars k := isort_of_sorted _ ((vars_strict k).imp (by intro a b hab; omega))
  by_cases hn : n ≤ sysMaxsize
  · rw [drawVars_small hn]; unfold varDraws; rw [if_pos hn]
    simp only [List.cons_append, List.nil_append]
    rw [RandM.bind_apply, sample_eq_ok.2 ⟨h, rfl⟩]
    simp only [RandM.pure_apply]
    have : (List.range k).map (fun (i : Nat) => (i : Int) + 1) = vars k := rfl
    rw [this, hs]
  · rw [drawVars_big hn, if_neg (by omega)]; unfold varDraws; rw [if_neg hn]
    rw [RandM.bind_apply]
    have := rejectVars_desc (k := k) (n := n) t k (Nat.le_refl k)
    simp only [Nat.sub_self] at this
    have e : upFrom k 0 = [] := rfl
    rw [e] at this
    rw [this]
    simp only [RandM.pure_apply]
    rw [upFrom_zero, hs]

/-! ### k-CNF -/

def constIter (k n : Nat) : List Draw := varDraws k n ++ List.replicate k (.choice 2 0)

/-- `fuel` identical iterations followed by `t` -/
def constDraws (k n : Nat) : Nat → List Draw → List Draw
  | 0, t => t
  | f + 1, t => constIter k n ++ constDraws k n f t

theorem constDraws_length (k n f : Nat) (t : List Draw) :
    (constDraws k n f t).length = f * ((varDraws k n).length + k) + t.length := by
  induction f with
  | zero => simp [constDraws]
  | succ f ih => simp [constDraws, constIter, ih, Nat.add_mul]; omega

theorem constDraws_legal {k n : Nat} (h : k ≤ n) (f : Nat) {t : List Draw} (ht : Legal t) :
    Legal (constDraws k n f t) := by
  induction f with
  | zero => exact ht
  | succ f ih =>
    simp only [constDraws, constIter]
    rw [Legal.append, Legal.append]
    refine ⟨⟨varDraws_legal h, ?_⟩, ih⟩
    · intro d hd
      rw [List.mem_replicate] at hd
      rw [hd.2]; show 0 < 2; omega

theorem signClause_const (vs : List Int) (t : List Draw) :
    signClause vs (List.replicate vs.length (.choice 2 0) ++ t) = .ok (vs, t) := by
  induction vs with
  | nil => rfl
  | cons v vs ih =>
    simp only [List.length_cons, List.replicate_succ, List.cons_append]
    unfold signClause
    rw [RandM.bind_apply]
    have : choiceFrom [(1 : Int), -1] 1 (.choice 2 0 :: (List.replicate vs.length (.choice 2 0) ++ t))
        = .ok (1, List.replicate vs.length (.choice 2 0) ++ t) := by
      unfold choiceFrom
      rw [RandM.bind_apply]
      have : choice [(1 : Int), -1].length (.choice 2 0 :: (List.replicate vs.length (.choice 2 0) ++ t))
          = .ok (0, List.replicate vs.length (.choice 2 0) ++ t) := choice_eq_ok.2 ⟨by simp, rfl⟩
      rw [this]; rfl
    rw [this]
    simp only
    rw [RandM.bind_apply, ih]
    simp [RandM.pure_apply]

theorem drawClause_const {k n : Nat} (h : k ≤ n) (f : Nat) (t : List Draw) :
    drawClause k n (constDraws k n (f + 1) t) = .ok (vars k, constDraws k n f t) := by
  unfold drawClause
  simp only [constDraws, constIter, List.append_assoc]
  rw [RandM.bind_apply, drawVars_const h]
  simp only
  have := signClause_const (vars k) (constDraws k n f t)
  simp only [vars, List.length_map, List.length_range] at this ⊢
  exact this

theorem sparseLoop_const {k n m : Nat} (planted : List (List Int)) (h : k ≤ n) (t : List Draw)
    (fuel : Nat) (acc : List Clause) :
    ∃ res j, sparseLoop k n m planted fuel acc (constDraws k n fuel t) = .ok (res, constDraws k n j t) ∧
      (m ≤ res.length ∨ j = 0) := by
  induction fuel generalizing acc with
  | zero => exact ⟨acc, 0, rfl, Or.inr rfl⟩
  | succ fuel ih =>
    rw [sparseLoop_unfold]
    by_cases hlt : acc.length < m
    · simp only [hlt, if_true]
      rw [RandM.bind_apply, drawClause_const h]
      simp only
      by_cases hc : acc.contains (vars k) = true
      · simp only [hc, if_true]; exact ih acc
      · simp only [hc]
        by_cases hs : clauseSatisfied (vars k) planted = true
        · simp only [hs, Bool.not_true]; exact ih _
        · simp only [hs]; exact ih acc
    · simp only [hlt, if_false]
      exact ⟨acc, fuel + 1, rfl, Or.inl (by omega)⟩

/-- the witness draw list for `sample_clauses` -/
def witnessDraws (k n m : Nat) (planted : List (List Int)) : List Draw :=
  constDraws k n (retryBudget m)
    (if m ≤ (allClauses k n planted).length then [.sample (allClauses k n planted).length m (List.range m)]
     else [])

theorem witnessDraws_legal {k n : Nat} (h : k ≤ n) (m : Nat) (planted : List (List Int)) :
    Legal (witnessDraws k n m planted) := by
  unfold witnessDraws
  apply constDraws_legal h
  split
  · rename_i hm
    rw [Legal.cons]
    refine ⟨⟨by simp, List.nodup_range, ?_⟩, Legal.nil⟩
    intro i hi; have := List.mem_range.1 hi; omega
  · exact Legal.nil

theorem witnessDraws_length (k n m : Nat) (planted : List (List Int)) :
    (witnessDraws k n m planted).length ≤ drawBudget (2 * k) m ∧
      (n ≤ sysMaxsize → (witnessDraws k n m planted).length ≤ drawBudget k m) := by
  unfold witnessDraws drawBudget
  rw [constDraws_length]
  refine ⟨?_, fun hS => ?_⟩
  · have h1 := varDraws_length_le k n
    have h2 : retryBudget m * ((varDraws k n).length + k) ≤ retryBudget m * (2 * k + 1) :=
      Nat.mul_le_mul_left _ (by omega)
    split <;> simp <;> omega
  · rw [varDraws_length_small hS, Nat.add_comm 1 k]
    split <;> simp

theorem sampleClauses_witness {k n : Nat} (h : k ≤ n) (m : Nat) (planted : List (List Int)) :
    Completed (sampleClauses k n m planted (witnessDraws k n m planted)) := by
  have hL := witnessDraws_legal h m planted
  unfold witnessDraws at hL ⊢
  generalize ht : (if m ≤ (allClauses k n planted).length
    then [Draw.sample (allClauses k n planted).length m (List.range m)] else []) = t at hL ⊢
  obtain ⟨res, j, hloop, hj⟩ := sparseLoop_const (m := m) planted h t (retryBudget m) []
  obtain ⟨hI, hL1, _⟩ := sparseLoop_ok hL (accInv_nil k n m planted) hloop
  unfold sampleClauses
  rw [RandM.bind_apply, hloop]
  simp only
  by_cases hm : res.length = m
  · simp only [hm, if_true, RandM.pure_apply]
    exact ⟨by simp, by simp⟩
  · simp only [hm, if_false]
    have hj0 : j = 0 := by
      rcases hj with hj | hj
      · have := hI.2.2; omega
      · exact hj
    subst hj0
    simp only [constDraws]
    unfold denseClauses
    by_cases hbig : sysMaxsize < n
    · rw [if_pos hbig, RandM.raise_apply]
      exact ⟨by simp, by simp⟩
    rw [if_neg hbig]
    by_cases hlt : (allClauses k n planted).length < m
    · simp only [hlt, if_true, RandM.raise_apply]
      exact ⟨by simp, by simp⟩
    · simp only [hlt, if_false]
      have : t = [Draw.sample (allClauses k n planted).length m (List.range m)] := by
        rw [← ht]; simp; omega
      rw [this]
      unfold sampleFrom
      rw [RandM.bind_apply, sample_eq_ok.2 ⟨by omega, rfl⟩]
      simp only [RandM.pure_apply]
      exact ⟨by simp, by simp⟩

/-! ### k-XOR -/

def constIterX (k n : Nat) : List Draw := varDraws k n ++ [.randint 0 1 0]

def constDrawsX (k n : Nat) : Nat → List Draw → List Draw
  | 0, t => t
  | f + 1, t => constIterX k n ++ constDrawsX k n f t

theorem constDrawsX_length (k n f : Nat) (t : List Draw) :
    (constDrawsX k n f t).length = f * ((varDraws k n).length + 1) + t.length := by
  induction f with
  | zero => simp [constDrawsX]
  | succ f ih => simp [constDrawsX, constIterX, ih, Nat.add_mul]; omega

theorem constDrawsX_legal {k n : Nat} (h : k ≤ n) (f : Nat) {t : List Draw} (ht : Legal t) :
    Legal (constDrawsX k n f t) := by
  induction f with
  | zero => exact ht
  | succ f ih =>
    simp only [constDrawsX, constIterX]
    rw [Legal.append, Legal.append, Legal.cons]
    refine ⟨⟨varDraws_legal h, ?_, Legal.nil⟩, ih⟩
    show (0 : Int) ≤ 0 ∧ (0 : Int) ≤ 1; omega

theorem sparseLoopX_const {k n m : Nat} {planted : List (List Int)} (hT : ∀ a ∈ planted, TotalOn n a)
    (h : k ≤ n) (t : List Draw) (fuel : Nat) (acc : List Parity) :
    ∃ res j, sparseLoopX k n m planted fuel acc (constDrawsX k n fuel t) = .ok (res, constDrawsX k n j t) ∧
      (m ≤ res.length ∨ j = 0) := by
  induction fuel generalizing acc with
  | zero => exact ⟨acc, 0, rfl, Or.inr rfl⟩
  | succ fuel ih =>
    rw [sparseLoopX_unfold]
    by_cases hlt : acc.length < m
    · simp only [hlt, if_true, constDrawsX, constIterX, List.append_assoc, List.cons_append, List.nil_append]
      rw [RandM.bind_apply, drawVars_const h]
      simp only
      rw [RandM.bind_apply, randint_eq_ok.2 ⟨by omega, rfl⟩]
      simp only
      by_cases hc : (acc.map Parity.key).contains (Parity.key (vars k, 0)) = true
      · simp only [hc, if_true]; exact ih acc
      · simp only [hc, Bool.false_eq_true, if_false]
        rw [paritySatisfied_total (decides_of_total hT (vars_mem_combos h)), RandM.lift_ok,
          RandM.bind_apply, RandM.pure_apply]
        simp only
        by_cases hs : ParityOK (vars k) 0 planted
        · simp only [hs, decide_true, Bool.not_true]; exact ih _
        · simp only [hs, decide_false]; exact ih acc
    · simp only [hlt, if_false]
      exact ⟨acc, fuel + 1, rfl, Or.inl (by omega)⟩

/-- the witness draw list for `sample_parities`, given the dense enumeration -/
def witnessDrawsX (k n m : Nat) (full : List Parity) : List Draw :=
  constDrawsX k n (retryBudget m)
    (if m ≤ full.length then [.sample full.length m (List.range m)] else [])

theorem witnessDrawsX_legal {k n : Nat} (h : k ≤ n) (m : Nat) (full : List Parity) :
    Legal (witnessDrawsX k n m full) := by
  unfold witnessDrawsX
  apply constDrawsX_legal h
  split
  · rename_i hm
    rw [Legal.cons]
    refine ⟨⟨by simp, List.nodup_range, ?_⟩, Legal.nil⟩
    intro i hi; have := List.mem_range.1 hi; omega
  · exact Legal.nil

theorem witnessDrawsX_length (k n m : Nat) (full : List Parity) :
    (witnessDrawsX k n m full).length ≤ drawBudget k m + retryBudget m ∧
      (n ≤ sysMaxsize → (witnessDrawsX k n m full).length ≤ drawBudgetX m) := by
  unfold witnessDrawsX drawBudgetX drawBudget
  rw [constDrawsX_length]
  refine ⟨?_, fun hS => ?_⟩
  · have h1 := varDraws_length_le k n
    have h2 : retryBudget m * ((varDraws k n).length + 1) ≤ retryBudget m * (k + 1 + 1) :=
      Nat.mul_le_mul_left _ (by omega)
    have h3 : retryBudget m * (k + 1 + 1) = retryBudget m * (k + 1) + retryBudget m := by
      rw [Nat.mul_add (retryBudget m) (k + 1) 1, Nat.mul_one]
    split <;> simp <;> omega
  · rw [varDraws_length_small hS]
    split <;> simp

theorem sampleParities_witness {k n : Nat} {planted : List (List Int)} (hT : ∀ a ∈ planted, TotalOn n a)
    (h : k ≤ n) (m : Nat) {full : List Parity} (hfull : allGoodParities k n planted = .ok full) :
    Completed (sampleParities k n m planted (witnessDrawsX k n m full)) := by
  have hL := witnessDrawsX_legal h m full
  unfold witnessDrawsX at hL ⊢
  generalize ht : (if m ≤ full.length then [Draw.sample full.length m (List.range m)] else []) = t at hL ⊢
  obtain ⟨res, j, hloop, hj⟩ := sparseLoopX_const (m := m) hT h t (retryBudget m) []
  obtain ⟨hI, hL1, _⟩ := sparseLoopX_ok hT hL (accInvX_nil k n m planted) hloop
  unfold sampleParities
  rw [RandM.bind_apply, hloop]
  simp only
  by_cases hm : m ≤ res.length
  · simp only [hm, if_true, RandM.pure_apply]
    exact ⟨by simp, by simp⟩
  · simp only [hm, if_false]
    have hj0 : j = 0 := by
      rcases hj with hj | hj
      · omega
      · exact hj
    subst hj0
    simp only [constDrawsX]
    unfold denseParities
    by_cases hbig : sysMaxsize < n
    · rw [if_pos hbig, RandM.raise_apply]
      exact ⟨by simp, by simp⟩
    rw [if_neg hbig, hfull, RandM.lift_ok, RandM.bind_apply, RandM.pure_apply]
    simp only
    by_cases hlt : full.length < m
    · simp only [hlt, if_true, RandM.raise_apply]
      exact ⟨by simp, by simp⟩
    · simp only [hlt, if_false]
      have : t = [Draw.sample full.length m (List.range m)] := by
        rw [← ht]; simp; omega
      rw [this]
      unfold sampleFrom
      rw [RandM.bind_apply, sample_eq_ok.2 ⟨by omega, rfl⟩]
      simp only [RandM.pure_apply]
      exact ⟨by simp, by simp⟩

/-! ### termination of the rejection loop of `sample_variables` -/

theorem rejectVars_terminates {k n : Nat} : ∀ (ds : List Draw) (chosen vs : List Int),
    (∀ d ∈ ds, ∃ v, d = .randint 1 n v) → vs.Nodup → (∀ v ∈ vs, v ∉ chosen ∧ Draw.randint 1 n v ∈ ds) →
    k ≤ chosen.length + vs.length → ∃ sel ds', rejectVars k n chosen ds = .ok (sel, ds') := by
  intro ds
  induction ds with
  | nil =>
    intro chosen vs _ _ hm hk
    have : vs = [] := by
      cases vs with
      | nil => rfl
      | cons v vs' => exact absurd (hm v (by simp)).2 (by simp)
    subst this
    exact ⟨chosen, [], rejectVars_done (by simpa using hk) _⟩
  | cons d rest ih =>
    intro chosen vs hds hnd hm hk
    by_cases hlt : chosen.length < k
    · obtain ⟨v, rfl⟩ := hds d (by simp)
      rw [rejectVars_cons, if_pos hlt]
      simp only [true_and, if_true]
      apply ih _ (vs.erase v) (fun d hd => hds d (by simp [hd])) (hnd.erase v)
      · intro w hw
        obtain ⟨hne, hw'⟩ := (hnd.mem_erase_iff).1 hw
        obtain ⟨h1, h2⟩ := hm w hw'
        refine ⟨?_, ?_⟩
        · split
          · exact h1
          · simp only [List.mem_cons, not_or]; exact ⟨hne, h1⟩
        · rcases List.mem_cons.1 h2 with h2 | h2
          · simp only [Draw.randint.injEq, true_and] at h2; exact absurd h2 hne
          · exact h2
      · by_cases hc : chosen.contains v = true
        · rw [if_pos hc]
          have : v ∉ vs := fun hv => (hm v hv).1 (by simpa using hc)
          rw [List.erase_of_not_mem this]; exact hk
        · rw [if_neg hc]
          have := List.length_erase (a := v) (l := vs)
          simp only [List.length_cons]
          split at this <;> omega
    · exact ⟨chosen, d :: rest, rejectVars_done (by omega) _⟩

end Cnfgen.Rand
