/-
For every input there is a legal draw list on which the samplers run to completion
(so the hypotheses "legal draws, complete recording" of the C13 theorems are satisfiable
for every k ≤ n, m and planted set — not only on an example).  The witness answers every
`sample` with the first k positions, every `choice` with position 0 and every `randint(0,1)`
with 0: the rejection loop then sees the same candidate over and over, exhausts its budget
and falls through to the dense path.
-/
import Lemmas.RandKXOR
namespace Cnfgen.Rand
open Cnfgen

/-- a run is complete when the draw list neither ran out nor answered a request the program did not make -/
def Completed {α : Type} (r : Except RErr α) : Prop := r ≠ .error .outOfDraws ∧ r ≠ .error .mismatch

theorem isort_of_sorted (l : List Int) (h : l.Pairwise (· ≤ ·)) : isort l = l := by
  induction l with
  | nil => rfl
  | cons x xs ih =>
    rw [List.pairwise_cons] at h
    simp only [isort, ih h.2]
    cases xs with
    | nil => rfl
    | cons y ys => simp [insertSorted, h.1 y (by simp)]

theorem vars_mem_combos {k n : Nat} (h : k ≤ n) : vars k ∈ combos (vars n) k := by
  rw [mem_combos_vars]
  refine ⟨by simp [vars], vars_strict k, ?_⟩
  intro x hx
  have := mem_vars.1 hx
  omega

theorem drawVars_const {k n : Nat} (h : k ≤ n) (t : List Draw) :
    drawVars k n (.sample n k (List.range k) :: t) = .ok (vars k, t) := by
  unfold drawVars
  rw [RandM.bind_apply, sample_eq_ok.2 ⟨h, rfl⟩]
  simp only [RandM.pure_apply]
  have : isort ((List.range k).map (fun (i : Nat) => (i : Int) + 1)) = vars k :=
    isort_of_sorted _ ((vars_strict k).imp (by intro a b hab; omega))
  rw [this]

/-! ### k-CNF -/

def constIter (k n : Nat) : List Draw := .sample n k (List.range k) :: List.replicate k (.choice 2 0)

/-- `fuel` identical iterations followed by `t` -/
def constDraws (k n : Nat) : Nat → List Draw → List Draw
  | 0, t => t
  | f + 1, t => constIter k n ++ constDraws k n f t

theorem constDraws_length (k n f : Nat) (t : List Draw) :
    (constDraws k n f t).length = f * (k + 1) + t.length := by
  induction f with
  | zero => simp [constDraws]
  | succ f ih => simp [constDraws, constIter, ih, Nat.add_mul]; omega

theorem constDraws_legal {k n : Nat} (h : k ≤ n) (f : Nat) {t : List Draw} (ht : Legal t) :
    Legal (constDraws k n f t) := by
  induction f with
  | zero => exact ht
  | succ f ih =>
    simp only [constDraws, constIter]
    rw [Legal.append, Legal.cons]
    refine ⟨⟨⟨by simp, List.nodup_range, ?_⟩, ?_⟩, ih⟩
    · intro i hi; have := List.mem_range.1 hi; omega
    · intro d hd
      rw [List.mem_replicate] at hd
      rw [hd.2]; show 0 < 2; omega

theorem signClause_const (vs : List Int) (t : List Draw) :
    signClause vs (List.replicate vs.length (.choice 2 0) ++ t) = .ok (vs, t) := by
  induction vs with
  | nil => rfl
  | cons v vs ih =>
    simp only [List.length_cons, List.replicate_succ, List.cons_append]
    unfold signClause
    rw [RandM.bind_apply]
    have : choiceFrom [(1 : Int), -1] 1 (.choice 2 0 :: (List.replicate vs.length (.choice 2 0) ++ t))
        = .ok (1, List.replicate vs.length (.choice 2 0) ++ t) := by
      unfold choiceFrom
      rw [RandM.bind_apply]
      have : choice [(1 : Int), -1].length (.choice 2 0 :: (List.replicate vs.length (.choice 2 0) ++ t))
          = .ok (0, List.replicate vs.length (.choice 2 0) ++ t) := choice_eq_ok.2 ⟨by simp, rfl⟩
      rw [this]; rfl
    rw [this]
    simp only
    rw [RandM.bind_apply, ih]
    simp [RandM.pure_apply]

theorem drawClause_const {k n : Nat} (h : k ≤ n) (f : Nat) (t : List Draw) :
    drawClause k n (constDraws k n (f + 1) t) = .ok (vars k, constDraws k n f t) := by
  unfold drawClause
  simp only [constDraws, constIter, List.cons_append]
  rw [RandM.bind_apply, drawVars_const h]
  simp only
  have := signClause_const (vars k) (constDraws k n f t)
  simp only [vars, List.length_map, List.length_range] at this ⊢
  exact this

theorem sparseLoop_const {k n m : Nat} (planted : List (List Int)) (h : k ≤ n) (t : List Draw)
    (fuel : Nat) (acc : List Clause) :
    ∃ res j, sparseLoop k n m planted fuel acc (constDraws k n fuel t) = .ok (res, constDraws k n j t) ∧
      (m ≤ res.length ∨ j = 0) := by
  induction fuel generalizing acc with
  | zero => exact ⟨acc, 0, rfl, Or.inr rfl⟩
  | succ fuel ih =>
    rw [sparseLoop_unfold]
    by_cases hlt : acc.length < m
    · simp only [hlt, if_true]
      rw [RandM.bind_apply, drawClause_const h]
      simp only
      by_cases hc : acc.contains (vars k) = true
      · simp only [hc, if_true]; exact ih acc
      · simp only [hc]
        by_cases hs : clauseSatisfied (vars k) planted = true
        · simp only [hs, Bool.not_true]; exact ih _
        · simp only [hs]; exact ih acc
    · simp only [hlt, if_false]
      exact ⟨acc, fuel + 1, rfl, Or.inl (by omega)⟩

/-- the witness draw list for `sample_clauses` -/
def witnessDraws (k n m : Nat) (planted : List (List Int)) : List Draw :=
  constDraws k n (retryBudget m)
    (if m ≤ (allClauses k n planted).length then [.sample (allClauses k n planted).length m (List.range m)]
     else [])

theorem witnessDraws_legal {k n : Nat} (h : k ≤ n) (m : Nat) (planted : List (List Int)) :
    Legal (witnessDraws k n m planted) := by
  unfold witnessDraws
  apply constDraws_legal h
  split
  · rename_i hm
    rw [Legal.cons]
    refine ⟨⟨by simp, List.nodup_range, ?_⟩, Legal.nil⟩
    intro i hi; have := List.mem_range.1 hi; omega
  · exact Legal.nil

theorem witnessDraws_length (k n m : Nat) (planted : List (List Int)) :
    (witnessDraws k n m planted).length ≤ drawBudget k m := by
  unfold witnessDraws drawBudget
  rw [constDraws_length]
  split <;> simp

theorem sampleClauses_witness {k n : Nat} (h : k ≤ n) (m : Nat) (planted : List (List Int)) :
    Completed (sampleClauses k n m planted (witnessDraws k n m planted)) := by
  have hL := witnessDraws_legal h m planted
  unfold witnessDraws at hL ⊢
  generalize ht : (if m ≤ (allClauses k n planted).length
    then [Draw.sample (allClauses k n planted).length m (List.range m)] else []) = t at hL ⊢
  obtain ⟨res, j, hloop, hj⟩ := sparseLoop_const (m := m) planted h t (retryBudget m) []
  obtain ⟨hI, hL1, _, _⟩ := sparseLoop_ok hL (accInv_nil k n m planted) hloop
  unfold sampleClauses
  rw [RandM.bind_apply, hloop]
  simp only
  by_cases hm : res.length = m
  · simp only [hm, if_true, RandM.pure_apply]
    exact ⟨by simp, by simp⟩
  · simp only [hm, if_false]
    have hj0 : j = 0 := by
      rcases hj with hj | hj
      · have := hI.2.2; omega
      · exact hj
    subst hj0
    simp only [constDraws]
    unfold denseClauses
    by_cases hlt : (allClauses k n planted).length < m
    · simp only [hlt, if_true, RandM.raise_apply]
      exact ⟨by simp, by simp⟩
    · simp only [hlt, if_false]
      have : t = [Draw.sample (allClauses k n planted).length m (List.range m)] := by
        rw [← ht]; simp; omega
      rw [this]
      unfold sampleFrom
      rw [RandM.bind_apply, sample_eq_ok.2 ⟨by omega, rfl⟩]
      simp only [RandM.pure_apply]
      exact ⟨by simp, by simp⟩

/-! ### k-XOR -/

def constIterX (k n : Nat) : List Draw := [.sample n k (List.range k), .randint 0 1 0]

def constDrawsX (k n : Nat) : Nat → List Draw → List Draw
  | 0, t => t
  | f + 1, t => constIterX k n ++ constDrawsX k n f t

theorem constDrawsX_length (k n f : Nat) (t : List Draw) :
    (constDrawsX k n f t).length = f * 2 + t.length := by
  induction f with
  | zero => simp [constDrawsX]
  | succ f ih => simp [constDrawsX, constIterX, ih, Nat.add_mul]; omega

theorem constDrawsX_legal {k n : Nat} (h : k ≤ n) (f : Nat) {t : List Draw} (ht : Legal t) :
    Legal (constDrawsX k n f t) := by
  induction f with
  | zero => exact ht
  | succ f ih =>
    simp only [constDrawsX, constIterX, List.cons_append, List.nil_append]
    rw [Legal.cons, Legal.cons]
    refine ⟨⟨by simp, List.nodup_range, ?_⟩, ?_, ih⟩
    · intro i hi; have := List.mem_range.1 hi; omega
    · show (0 : Int) ≤ 0 ∧ (0 : Int) ≤ 1; omega

theorem sparseLoopX_const {k n m : Nat} {planted : List (List Int)} (hT : ∀ a ∈ planted, TotalOn n a)
    (h : k ≤ n) (t : List Draw) (fuel : Nat) (acc : List Parity) :
    ∃ res j, sparseLoopX k n m planted fuel acc (constDrawsX k n fuel t) = .ok (res, constDrawsX k n j t) ∧
      (m ≤ res.length ∨ j = 0) := by
  induction fuel generalizing acc with
  | zero => exact ⟨acc, 0, rfl, Or.inr rfl⟩
  | succ fuel ih =>
    rw [sparseLoopX_unfold]
    by_cases hlt : acc.length < m
    · simp only [hlt, if_true, constDrawsX, constIterX, List.cons_append, List.nil_append]
      rw [RandM.bind_apply, drawVars_const h]
      simp only
      rw [RandM.bind_apply, randint_eq_ok.2 ⟨by omega, rfl⟩]
      simp only
      by_cases hc : (acc.map Parity.key).contains (Parity.key (vars k, 0)) = true
      · simp only [hc, if_true]; exact ih acc
      · simp only [hc, Bool.false_eq_true, if_false]
        rw [paritySatisfied_total (decides_of_total hT (vars_mem_combos h)), RandM.lift_ok,
          RandM.bind_apply, RandM.pure_apply]
        simp only
        by_cases hs : ParityOK (vars k) 0 planted
        · simp only [hs, decide_true, Bool.not_true]; exact ih _
        · simp only [hs, decide_false]; exact ih acc
    · simp only [hlt, if_false]
      exact ⟨acc, fuel + 1, rfl, Or.inl (by omega)⟩

/-- the witness draw list for `sample_parities`, given the dense enumeration -/
def witnessDrawsX (k n m : Nat) (full : List Parity) : List Draw :=
  constDrawsX k n (retryBudget m)
    (if m ≤ full.length then [.sample full.length m (List.range m)] else [])

theorem witnessDrawsX_legal {k n : Nat} (h : k ≤ n) (m : Nat) (full : List Parity) :
    Legal (witnessDrawsX k n m full) := by
  unfold witnessDrawsX
  apply constDrawsX_legal h
  split
  · rename_i hm
    rw [Legal.cons]
    refine ⟨⟨by simp, List.nodup_range, ?_⟩, Legal.nil⟩
    intro i hi; have := List.mem_range.1 hi; omega
  · exact Legal.nil

theorem witnessDrawsX_length (k n m : Nat) (full : List Parity) :
    (witnessDrawsX k n m full).length ≤ drawBudgetX m := by
  unfold witnessDrawsX drawBudgetX
  rw [constDrawsX_length]
  split <;> simp

theorem sampleParities_witness {k n : Nat} {planted : List (List Int)} (hT : ∀ a ∈ planted, TotalOn n a)
    (h : k ≤ n) (m : Nat) {full : List Parity} (hfull : allGoodParities k n planted = .ok full) :
    Completed (sampleParities k n m planted (witnessDrawsX k n m full)) := by
  have hL := witnessDrawsX_legal h m full
  unfold witnessDrawsX at hL ⊢
  generalize ht : (if m ≤ full.length then [Draw.sample full.length m (List.range m)] else []) = t at hL ⊢
  obtain ⟨res, j, hloop, hj⟩ := sparseLoopX_const (m := m) hT h t (retryBudget m) []
  obtain ⟨hI, hL1, _, _⟩ := sparseLoopX_ok hT hL (accInvX_nil k n m planted) hloop
  unfold sampleParities
  rw [RandM.bind_apply, hloop]
  simp only
  by_cases hm : m ≤ res.length
  · simp only [hm, if_true, RandM.pure_apply]
    exact ⟨by simp, by simp⟩
  · simp only [hm, if_false]
    have hj0 : j = 0 := by
      rcases hj with hj | hj
      · omega
      · exact hj
    subst hj0
    simp only [constDrawsX]
    unfold denseParities
    rw [hfull, RandM.lift_ok, RandM.bind_apply, RandM.pure_apply]
    simp only
    by_cases hlt : full.length < m
    · simp only [hlt, if_true, RandM.raise_apply]
      exact ⟨by simp, by simp⟩
    · simp only [hlt, if_false]
      have : t = [Draw.sample full.length m (List.range m)] := by
        rw [← ht]; simp; omega
      rw [this]
      unfold sampleFrom
      rw [RandM.bind_apply, sample_eq_ok.2 ⟨by omega, rfl⟩]
      simp only [RandM.pure_apply]
      exact ⟨by simp, by simp⟩

end Cnfgen.Rand
