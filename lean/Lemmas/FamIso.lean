/-
Graph isomorphism / automorphism formulas: the hypothesis on graph objects (`GoodGraph`), the meaning
of the edge-consistency clauses, well-formedness and variable count.
-/
import CnfgenModel.Fam.Iso
import Lemmas.FamMapList
namespace Cnfgen
namespace Fam
namespace G2
open Vars

/-- What the families of this file need from a graph object: `has_edge` is symmetric and irreflexive.
(Reachable `Graph` objects satisfy it — property C16; it is an explicit hypothesis here.) -/
structure GoodGraph (G : SimpleG) : Prop where
  symm : ∀ u v : Nat, adj G u v = adj G v u
  irrefl : ∀ u : Nat, adj G u u = false

theorem adj_eq_contains (G : SimpleG) (u v : Nat) : adj G u v = G.edgeset.contains (u, v) := by
  simp [adj, SimpleG.hasEdge]

/-- a checkable sufficient condition: the edge set is closed under swapping and has no loop -/
theorem goodGraph_of_edgeset (G : SimpleG)
    (h : ∀ e ∈ G.edgeset, (e.2, e.1) ∈ G.edgeset ∧ e.1 ≠ e.2) : GoodGraph G := by
  constructor
  · intro u v
    rw [adj_eq_contains, adj_eq_contains, Bool.eq_iff_iff]
    simp only [List.contains_iff_mem]
    exact ⟨fun hm => (h _ hm).1, fun hm => (h _ hm).1⟩
  · intro u
    rw [adj_eq_contains]
    cases hc : G.edgeset.contains (u, u)
    · rfl
    · rw [List.contains_iff_mem] at hc
      exact absurd rfl (h _ hc).2

/-- the path on four vertices, as built by `add_edge`, is a good graph -/
example : ∀ G, SimpleG.ofEdges 4 [(1, 2), (3, 2), (3, 4)] = .ok G → GoodGraph G := by
  intro G hG
  have : G = ⟨4, 3, [[], [2], [1, 3], [2, 4], [3]], [(4, 3), (3, 4), (3, 2), (2, 3), (2, 1), (1, 2)]⟩ := by
    have h2 : SimpleG.ofEdges 4 [(1, 2), (3, 2), (3, 4)] =
      .ok ⟨4, 3, [[], [2], [1, 3], [2, 4], [3]], [(4, 3), (3, 4), (3, 2), (2, 3), (2, 1), (1, 2)]⟩ := by rfl
    rw [h2] at hG; injection hG with hG; exact hG.symm
  subst this
  exact goodGraph_of_edgeset _ (by decide)

/-! ### edge consistency -/

theorem isoEdgeCons_holds (α : Assign) (G1 G2 : SimpleG) :
    (∀ c ∈ isoEdgeCons G1 G2, Con.holds α c = true) ↔
      ∀ u1 u2, 1 ≤ u1 → u1 < u2 → u2 ≤ G1.n → ∀ v1 v2, 1 ≤ v1 → v1 < v2 → v2 ≤ G2.n →
        adj G1 u1 u2 ≠ adj G2 v1 v2 →
          ¬ (α (mapId 1 G2.n u1 v1) = true ∧ α (mapId 1 G2.n u2 v2) = true) ∧
          ¬ (α (mapId 1 G2.n u1 v2) = true ∧ α (mapId 1 G2.n u2 v1) = true) := by
  simp only [isoEdgeCons, List.mem_flatMap, Prod.exists, mem_pairs2_verts, forall_exists_index, and_imp]
  constructor
  · intro h u1 u2 hu1 hu12 hu2 v1 v2 hv1 hv12 hv2 hne
    have hne' : (adj G1 u1 u2 != adj G2 v1 v2) = true := by simpa using hne
    constructor
    · rw [← clause_two_neg_mlit α (Nat.le_refl 1)]
      exact h _ u1 u2 hu1 hu12 hu2 v1 v2 hv1 hv12 hv2 (by simp [hne'])
    · rw [← clause_two_neg_mlit α (Nat.le_refl 1)]
      exact h _ u1 u2 hu1 hu12 hu2 v1 v2 hv1 hv12 hv2 (by simp [hne'])
  · intro h c u1 u2 hu1 hu12 hu2 v1 v2 hv1 hv12 hv2 hc
    split at hc
    · rename_i hne
      have hne' : adj G1 u1 u2 ≠ adj G2 v1 v2 := by simpa using hne
      have := h u1 u2 hu1 hu12 hu2 v1 v2 hv1 hv12 hv2 hne'
      simp only [List.mem_cons, List.not_mem_nil, or_false] at hc
      rcases hc with rfl | rfl
      · rw [clause_two_neg_mlit α (Nat.le_refl 1)]; exact this.1
      · rw [clause_two_neg_mlit α (Nat.le_refl 1)]; exact this.2
    · simp at hc

theorem isoEdgeCons_in (G1 G2 : SimpleG) : ConsIn 1 (1 + G1.n * G2.n - 1) (isoEdgeCons G1 G2) := by
  intro c hc
  simp only [isoEdgeCons, List.mem_flatMap, Prod.exists, mem_pairs2_verts] at hc
  obtain ⟨u1, u2, ⟨hu1, hu12, hu2⟩, v1, v2, ⟨hv1, hv12, hv2⟩, hc⟩ := hc
  split at hc
  · simp only [List.mem_cons, List.not_mem_nil, or_false] at hc
    rcases hc with rfl | rfl
    · exact clause_neg2_in (Nat.le_refl 1) hu1 (by omega) hv1 (by omega) (by omega) hu2 (by omega) hv2
    · exact clause_neg2_in (Nat.le_refl 1) hu1 (by omega) (by omega) hv2 (by omega) hu2 hv1 (by omega)
  · simp at hc

theorem wf_of_consIn {F : Formula} {lo : Nat} (h : ConsIn lo F.nvars F.cons) : F.WF := by
  intro c hc l hl
  have := h c hc l hl
  exact ⟨this.1, this.2.2⟩

theorem graphIsomorphism_consIn (G1 G2 : SimpleG) :
    ConsIn 1 (G1.n * G2.n) (graphIsomorphism G1 G2).cons := by
  have e : 1 + G1.n * G2.n - 1 = G1.n * G2.n := by omega
  have := ((((forceComplete_in G1.n G2.n (Nat.le_refl 1)).append (forceSurjective_in G1.n G2.n (Nat.le_refl 1))).append
    (forceFunctional_in G1.n G2.n (Nat.le_refl 1))).append (forceInjective_in G1.n G2.n (Nat.le_refl 1))).append
    (isoEdgeCons_in G1 G2)
  rw [e] at this
  exact this

theorem graphAutomorphism_consIn (G : SimpleG) : ConsIn 1 (G.n * G.n) (graphAutomorphism G).cons := by
  refine (graphIsomorphism_consIn G G).append ?_
  intro c hc l hl
  simp only [List.mem_singleton] at hc
  subst hc
  simp only [Con.lits, List.mem_map, mem_verts] at hl
  obtain ⟨u, hu, rfl⟩ := hl
  have := (mlit_in (st := 1) (k := G.n) (Nat.le_refl 1) hu.1 hu.2 hu.1 hu.2).2
  omega

/-- the clause that excludes the identity -/
theorem notIdentity_holds (α : Assign) (n : Nat) :
    Con.holds α (.clause ((verts n).map (fun u => -(mlit 1 n u u)))) = true ↔
      ∃ u, 1 ≤ u ∧ u ≤ n ∧ α (mapId 1 n u u) = false := by
  simp only [Con.holds, clauseHolds, List.any_map, List.any_eq_true, mem_verts, Function.comp]
  constructor
  · rintro ⟨u, hu, h⟩
    rw [litHolds_neg_mlit α (Nat.le_refl 1)] at h
    exact ⟨u, hu.1, hu.2, by simpa using h⟩
  · rintro ⟨u, h1, h2, h⟩
    exact ⟨u, ⟨h1, h2⟩, by rw [litHolds_neg_mlit α (Nat.le_refl 1), h]; rfl⟩

/-- the clause added by the option `nontrivial`: some `u ≤ min(|V₁|, |V₂|)` is not mapped to itself -/
theorem notIdentityClause_holds (α : Assign) (n1 n2 : Nat) :
    Con.holds α (notIdentityClause n1 n2) = true ↔
      ∃ u, 1 ≤ u ∧ u ≤ n1 ∧ u ≤ n2 ∧ α (mapId 1 n2 u u) = false := by
  simp only [notIdentityClause, Con.holds, clauseHolds, List.any_map, List.any_eq_true, List.mem_filter, mem_verts,
    Function.comp, decide_eq_true_eq]
  constructor
  · rintro ⟨u, ⟨hu, hu2⟩, h⟩
    rw [litHolds_neg_mlit α (Nat.le_refl 1)] at h
    exact ⟨u, hu.1, hu.2, hu2, by simpa using h⟩
  · rintro ⟨u, h1, h2, h3, h⟩
    exact ⟨u, ⟨⟨h1, h2⟩, h3⟩, by rw [litHolds_neg_mlit α (Nat.le_refl 1), h]; rfl⟩

theorem graphIsomorphismOpt_consIn (G1 G2 : SimpleG) (b : Bool) :
    ConsIn 1 (G1.n * G2.n) (graphIsomorphismOpt G1 G2 b).cons := by
  refine (graphIsomorphism_consIn G1 G2).append ?_
  cases b
  · exact ConsIn.nil
  · intro c hc l hl
    simp only [if_true, List.mem_singleton] at hc
    subst hc
    simp only [notIdentityClause, Con.lits, List.mem_map, List.mem_filter, mem_verts, decide_eq_true_eq] at hl
    obtain ⟨u, ⟨hu, hu2⟩, rfl⟩ := hl
    have := (mlit_in (st := 1) (k := G1.n) (N := G2.n) (Nat.le_refl 1) hu.1 hu.2 hu.1 hu2).2
    omega

/-- `GraphAutomorphism(G)` adds the same clause as `GraphIsomorphism(G, G, nontrivial=True)` -/
theorem graphAutomorphism_eq_opt (G : SimpleG) : graphAutomorphism G = graphIsomorphismOpt G G true := by
  have : (verts G.n).filter (fun u => decide (u ≤ G.n)) = verts G.n := by
    rw [List.filter_eq_self]
    intro u hu
    rw [mem_verts] at hu
    simp [hu.2]
  simp [graphAutomorphism, graphIsomorphismOpt, notIdentityClause, this]

end G2
end Fam
end Cnfgen
