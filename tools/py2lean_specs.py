"""What tools/py2lean.py translates, with the declared types of the parameters.

ITEMS are processed in order (a callee before its callers).  Types:
  INT BOOL STR RANGE, TList(t), TOpt(t), TTuple([...]), TObj("Class"), TAbs("Interface"), ERASED
ERASED parameters (label format strings) are abstracted: the only thing the translated code may do with them is
the idiom `try: labelfmt.format(...) except IndexError: raise ValueError`, whose outcome becomes an input
(`labelfmt_format : Except Err Unit`).
ABSTRACTS declares the observers of interface objects (formula, graph): name -> ([param types], result, may raise).
"""
from py2lean_types import (INT, BOOL, STR, RANGE, ERASED, NONE, TList, TOpt, TTuple, TObj, TAbs, THet, TEffect, TEffectClass)

VARS = "cnfgen/formula/variables.py"

ABSTRACTS = {
    "AbsFormula": {
        "number_of_variables": ([], INT, False),
    },
}
ABSTRACTS["AbsBipGraph"] = {
    "parts": ([], TTuple([RANGE, RANGE]), False),
    "left_order": ([], INT, False),
    "right_order": ([], INT, False),
    "number_of_edges": ([], INT, False),
    "right_degree": ([INT], INT, True),
    "right_neighbors": ([INT], TList(INT), True),
    "left_neighbors": ([INT], TList(INT), True),
    "has_edge": ([INT, INT], BOOL, False),
    "edges": ([], TList(TTuple([INT, INT])), False),
    "is_bipartite": ([], BOOL, False),
}
ABSTRACTS["AbsDiGraph"] = {
    "is_dag": ([], BOOL, False),
    "number_of_vertices": ([], INT, False),
    "vertices": ([], RANGE, False),
    "predecessors": ([INT], TList(INT), True),
    "successors": ([INT], TList(INT), True),
    "in_degree": ([INT], INT, True),
    "out_degree": ([INT], INT, True),
}
ABSTRACTS["AbsGraph"] = {
    "number_of_vertices": ([], INT, False),
    "order": ([], INT, False),
    "number_of_edges": ([], INT, False),
    "vertices": ([], RANGE, False),
    "neighbors": ([INT], TList(INT), True),
    "degree": ([INT], INT, True),
    "has_edge": ([INT, INT], BOOL, False),
    "edges": ([], TList(TTuple([INT, INT])), False),
}
ABS_ISINSTANCE = {"AbsBipGraph": ("BaseBipartiteGraph",), "AbsGraph": ("Graph",)}
# driver side: Lean parser (type `P <interface>`) per abstract interface; python encoders are in py2lean_selftest.py
ABS_PARSERS = {
    "AbsFormula": "(do let n ← int; pure (AbsFormula.mk n))",
    # a bipartite graph literal `l r m u₁ v₁ …` built by the model's own add_edge; a literal the model refuses is a bad request
    "AbsBipGraph": "(do let g ← bipG; match g with | .ok g => pure (Cnfgen.Vars.absBip g) | .error _ => failure)",
    "AbsDiGraph": "(do let g ← diG; match g with | .ok g => pure (Cnfgen.Vars.absDi g) | .error _ => failure)",
    "AbsGraph": "(do let g ← simpleG; match g with | .ok g => pure (Cnfgen.Vars.absGraph g) | .error _ => failure)",
}
DRIVER_IMPORTS = ["CnfgenModel.Vars.GenGlue"]
# abstract calls of effect objects, as the driver instantiates them for the self-test (the theorems quantify over them)
DRIVER_CALLS = {
    # BaseCNF._check_and_update on a list of integers: ValueError iff it contains 0
    ("CNFLinear", "self_check_and_update"): "(fun ls => if ls.contains 0 then Except.error Err.valueError else Except.ok ())",
    # int(sqrt(a)): the exact integer square root (CPython's float computation agrees as long as a < 2^52)
    (None, "float_isqrt"): "Py.isqrt",
}

# objects that the translated code only constructs and sends commands to: (constructor arguments, log of commands)
BUILDERS = {
    "DirectedGraph": {"ctor": [INT, ERASED], "command": "add_edge", "args": [INT, INT]},
    # `G.parts()` of a fresh BipartiteGraph(L, R): the two ranges, from the constructor arguments
    "BipartiteGraph": {"ctor": [INT, INT], "command": "add_edge", "args": [INT, INT],
                       "observers": {"parts": ("(Py.Range.mk 1 (({c}).1.1 + 1), Py.Range.mk 1 (({c}).1.2 + 1))",
                                               TTuple([RANGE, RANGE]))}},
}

# `self` of CNFLinear.add_linear: only `add_clause(c, check=False)` (a command: the clause is appended),
# `_check_and_update(lits)` (an abstract call: may raise, its effect on the variable count is outside the result) and the
# procedure itself (recursion)
BUILDERS["CNFLinear"] = {"ctor": [], "command": "add_clause", "args": [TList(INT)], "keywords": {"check": False},
                         "calls": {"_check_and_update": ([TList(INT)], NONE, True)}}

# ---- the formula under construction (families): an effect object; its primitives are hand-written in
# lean/CnfgenModel/Core/PyFormula.lean (the BaseCNF / CNFLinear / OPB methods at the level of abstract constraints)
def _lits_check(name):
    return {"lean": "PyF." + name, "params": [("lits", TList(INT)), ("check", BOOL, True)], "ret": None, "raises": True}


EFFECTS = {
    "Formula": {
        "lean": "PyF.FState", "new": "PyF.empty",
        "views": {"AbsFormula": "(AbsFormula.mk ({c}).numvar)"},
        "methods": {
            "number_of_variables": {"lean": "PyF.number_of_variables", "params": [], "ret": INT, "raises": False},
            "update_variable_number": {"lean": "PyF.update_variable_number", "params": [("new_value", INT)], "ret": None, "raises": True},
            "add_clause": {"lean": "PyF.add_clause", "nested_valueerror": True, "params": [("clause", TList(INT)), ("check", BOOL, True)], "ret": None, "raises": True},
            "add_linear": {"lean": "PyF.add_linear", "nested_valueerror": True, "params": [("lits", TList(INT)), ("op", STR), ("constant", INT), ("check", BOOL, True)], "ret": None, "raises": True},
            "cardinality_eq": {"lean": "PyF.cardinality_eq", "nested_valueerror": True, "params": [("lits", TList(INT)), ("value", INT), ("check", BOOL, True)], "ret": None, "raises": True},
            "cardinality_leq": {"lean": "PyF.cardinality_leq", "nested_valueerror": True, "params": [("lits", TList(INT)), ("value", INT), ("check", BOOL, True)], "ret": None, "raises": True},
            "cardinality_geq": {"lean": "PyF.cardinality_geq", "nested_valueerror": True, "params": [("lits", TList(INT)), ("value", INT), ("check", BOOL, True)], "ret": None, "raises": True},
            "cardinality_neq": {"lean": "PyF.cardinality_neq", "nested_valueerror": True, "params": [("lits", TList(INT)), ("value", INT), ("check", BOOL, True)], "ret": None, "raises": True},
            "add_parity": {"lean": "PyF.add_parity", "nested_valueerror": True, "params": [("lits", TList(INT)), ("constant", INT), ("check", BOOL, True)], "ret": None, "raises": True},
            "add_loose_majority": _lits_check("add_loose_majority"),
            "add_loose_minority": _lits_check("add_loose_minority"),
            "add_strict_majority": _lits_check("add_strict_majority"),
            "add_strict_minority": _lits_check("add_strict_minority"),
        },
    },
}
# a BipartiteGraph object that a translated constructor builds and then hands to a variable group: the model's own
# object (Graph/Basic.lean, property C16) as the state; `BipartiteGraph(L, R)` creates it (functions that list the class
# in "effect_ctors"; elsewhere the class is a BUILDER whose commands are logged)
EFFECTS["BipartiteGraph"] = {
    "lean": "BipG", "new": None,
    "ctor": {"lean": "BipG.initI", "params": [INT, INT], "raises": True},
    "views": {"AbsBipGraph": "(Cnfgen.Vars.absBip {c})"},
    "methods": {
        "add_edge": {"lean": "BipG.addEdge", "params": [("u", INT), ("v", INT)], "ret": None, "raises": True},
        "has_edge": {"lean": "BipG.hasEdge", "params": [("u", INT), ("v", INT)], "ret": BOOL, "raises": False},
        "number_of_edges": {"lean": "Cnfgen.Vars.bipNumberOfEdges", "params": [], "ret": INT, "raises": False},
    },
}
FORMULA = TEffect("Formula", "PyF.FState")

# constructors of interface objects: hand-written glue (lean/CnfgenModel/Vars/GenGlue.lean)
# class methods that return their (graph) argument unchanged on the typed domain: the argument already is a cnfgen
# graph object (the conversion of networkx graphs is outside the translation)
IDENTITY_CALLS = ["BipartiteGraph.normalize", "Graph.normalize", "DirectedGraph.normalize"]

ABS_CONSTRUCTORS = {
    "CompleteBipartiteGraph": ("Cnfgen.Vars.absCompleteBip", [INT, INT], TAbs("AbsBipGraph"), True),
    "Graph.complete_graph": ("Cnfgen.Vars.absCompleteGraph", [INT], TAbs("AbsGraph"), True),
}

ITEMS = [
    {"file": VARS, "class": "BlockOfVariables", "property": "C11",
     "methods": {
         "__init__": {"params": {"formula": TAbs("AbsFormula"), "ranges": TList(INT), "labelfmt": ERASED}},
         "__len__": {"params": {}},
         "__contains__": {"params": {"lit": INT}},
         "_unsafe_index_to_lit": {"params": {"index": TList(INT)}, "lean": "index_to_lit"},
         "to_index": {"params": {"lit": INT}},
         "indices": {"params": {"pattern": TList(TOpt(INT))}, "vararg": "pattern"},
         "__call__": {"params": {"index": TList(TOpt(INT))}, "vararg": "index"},
         "__getitem__": {"params": {"choices": INT}, "lean": "getitem"},
     }},
    {"file": VARS, "class": "BinaryMappingVariables", "property": "C11",
     "methods": {
         "__init__": {"params": {"formula": TAbs("AbsFormula"), "n": INT, "m": INT, "labelfmt": ERASED}},
         "__len__": {"params": {}},
         "__contains__": {"params": {"lit": INT}},
         "domain": {"params": {}},
         "range": {"params": {}},
         "bits": {"params": {}},
         "indices": {"params": {"pattern": TList(TOpt(INT))}, "vararg": "pattern"},
         "_unsafe_index_to_lit": {"params": {"index": TList(INT)}, "lean": "index_to_lit"},
         "to_index": {"params": {"lit": INT}},
         "__call__": {"params": {"index": TList(TOpt(INT))}, "vararg": "index"},
         "forbid": {"params": {"i": INT, "j": INT}},
         "__getitem__": {"params": {"choices": INT}, "lean": "getitem"},
     }},
    {"file": VARS, "class": "BipartiteEdgesVariables", "property": "C11",
     "methods": {
         "__init__": {"params": {"formula": TAbs("AbsFormula"), "G": TAbs("AbsBipGraph"), "labelfmt": ERASED}},
         "__len__": {"params": {}},
         "__contains__": {"params": {"lit": INT}},
         "indices": {"params": {"pattern": TList(TOpt(INT))}, "vararg": "pattern"},
         "_unsafe_index_to_lit": {"params": {"index": TList(INT)}, "lean": "index_to_lit"},
         "__call__": {"params": {"index": TList(TOpt(INT))}, "vararg": "index"},
         "to_index": {"params": {"lit": INT}},
     }},
    {"file": VARS, "class": "UnaryMappingVariables", "property": "C11",
     "methods": {
         "__init__": {"params": {"formula": TAbs("AbsFormula"), "G": TAbs("AbsBipGraph"), "labelfmt": ERASED}},
         "__len__": {"params": {}},
         "__contains__": {"params": {"lit": INT}},
         "domain": {"params": {"v": TOpt(INT)}},
         "range": {"params": {"u": TOpt(INT)}},
         "indices": {"params": {"pattern": TList(TOpt(INT))}, "vararg": "pattern"},
         "_unsafe_index_to_lit": {"params": {"index": TList(INT)}, "lean": "index_to_lit"},
         "__call__": {"params": {"index": TList(TOpt(INT))}, "vararg": "index"},
         "to_index": {"params": {"lit": INT}},
         "__getitem__": {"params": {"choices": INT}, "lean": "getitem"},
         "to_dict": {"params": {}},
     }},
    {"file": VARS, "class": "SingletonVariableGroup", "property": "C11",
     "methods": {
         "__init__": {"params": {"formula": TAbs("AbsFormula"), "name": ERASED}},
         "__len__": {"params": {}},
         "__contains__": {"params": {"lit": INT}},
         "__getitem__": {"params": {"choices": INT}, "lean": "getitem"},
         "__call__": {"params": {}},
         "indices": {"params": {"pattern": TList(TOpt(INT))}, "vararg": "pattern"},
         "to_index": {"params": {"lit": INT}},
     }},
    # the edge groups of directed / simple graphs: wrappers around a BipartiteEdgesVariables on an auxiliary graph
    # (their constructors build that graph with BipartiteGraph.add_edge: not translated, fields declared)
    {"file": VARS, "class": "DiGraphEdgesVariables", "property": "C11",
     "fields": {"sortby": STR, "VG": TObj("BipartiteEdgesVariables")},
     "methods": {
         "to_index": {"params": {"lit": INT}},
         "indices": {"params": {"pattern": TList(TOpt(INT))}, "vararg": "pattern"},
         "_unsafe_index_to_lit": {"params": {"index": TList(INT)}, "lean": "index_to_lit"},
     }},
    {"file": VARS, "class": "GraphEdgesVariables", "property": "C11", "effect_ctors": ["BipartiteGraph"],
     "methods": {
         "__init__": {"params": {"formula": TAbs("AbsFormula"), "G": TAbs("AbsGraph"), "labelfmt": ERASED},
                      "fields_if_unsupported": {"BG": TObj("BipartiteEdgesVariables")}},
         "to_index": {"params": {"lit": INT}},
         "_unsafe_index_to_lit": {"params": {"index": TList(INT)}, "lean": "index_to_lit"},
         "indices": {"params": {"pattern": TList(TOpt(INT))}, "vararg": "pattern"},
         "__call__": {"params": {"index": TList(TOpt(INT))}, "vararg": "index"},
         "__len__": {"params": {}},
         "__contains__": {"params": {"lit": INT}},
         "__getitem__": {"params": {"choices": INT}, "lean": "getitem"},
     }},
    # ---- C04: normalisation of a pseudo-Boolean constraint `[(coeff, lit), …, op, value]`
    {"file": "cnfgen/formula/baseopb.py", "function": "normalize_opb", "property": "C04",
     "params": {"constraint": THet(TTuple([INT, INT]), [STR, INT])}},
    # ---- C03: arithmetic progressions of van der Waerden formulas (a generator: the list of what it yields)
    {"file": "cnfgen/families/ramsey.py", "function": "_vdw_ap_generator", "property": "C03",
     "params": {"N": INT, "k": INT}},
    # ---- C11: word groups (combinations / permutations / words): a list and a dictionary filled in enumeration order
    {"file": VARS, "class": "WordOfIndicesVariables", "property": "C11",
     "methods": {
         "__init__": {"params": {"formula": TAbs("AbsFormula"), "n": INT, "k": INT, "labelfmt": ERASED, "wordtype": STR}},
         "__len__": {"params": {}},
         "__contains__": {"params": {"lit": INT}},
         "indices": {"params": {"pattern": TList(TOpt(INT))}, "vararg": "pattern"},
         "_unsafe_index_to_lit": {"params": {"index": TList(TOpt(INT))}, "lean": "index_to_lit"},
         "__call__": {"params": {"pattern": TList(TOpt(INT))}, "vararg": "pattern"},
         "to_index": {"params": {"lit": INT}},
         "__getitem__": {"params": {"choices": INT}, "lean": "getitem"},
     }},
    # ---- C15: closed-form DAG constructions: (number of vertices, the add_edge calls in order)
    {"file": "cnfgen/graphs.py", "function": "dag_path", "property": "C15", "params": {"length": INT}},
    {"file": "cnfgen/graphs.py", "function": "dag_complete_binary_tree", "property": "C15", "params": {"height": INT}},
    {"file": "cnfgen/graphs.py", "function": "dag_pyramid", "property": "C15", "params": {"height": INT}},
    {"file": "cnfgen/graphs.py", "function": "bipartite_shift", "property": "C15",
     "params": {"N": INT, "M": INT, "pattern": TList(INT)}},
    # ---- C04: the operator reduction of add_linear (a recursive procedure emitting clauses)
    {"file": "cnfgen/formula/linear.py", "class": "CNFLinear", "property": "C04", "self_builder": True,
     "methods": {"add_linear": {"params": {"lits": TList(INT), "op": STR, "constant": INT, "check": BOOL}}}},
    # ================= families: the generator is a procedure on the formula (EFFECTS) =================
    {"file": "cnfgen/localtypes.py", "function": "non_negative_int", "property": "C01",
     "params": {"value": INT, "name": STR}},
    {"file": "cnfgen/localtypes.py", "function": "positive_int", "property": "C01",
     "params": {"value": INT, "name": STR}},
    {"file": "cnfgen/localtypes.py", "function": "positive_int_seq", "property": "C03",
     "params": {"value": TList(INT), "name": STR}},
    # VariablesManager: group creation and the force_*_mapping builders, one typed variant per group class.
    # `f.parent_formula() != F` is assumed false (the families pass the groups they created on this formula).
    {"file": VARS, "class": "VariablesManager", "property": "C01", "self_effect": "Formula", "self_alias": ["_formula"],
     "erased_attrs": ["_groups"], "assume_false": ["f.parent_formula() != F"],
     "methods": {
         "_add_variable_group": [
             {"lean": "add_variable_group_unary", "params": {"vg": TObj("UnaryMappingVariables")}},
             {"lean": "add_variable_group_binary", "params": {"vg": TObj("BinaryMappingVariables")}},
             {"lean": "add_variable_group_block", "params": {"vg": TObj("BlockOfVariables")}},
             {"lean": "add_variable_group_word", "params": {"vg": TObj("WordOfIndicesVariables")}},
             {"lean": "add_variable_group_graph", "params": {"vg": TObj("GraphEdgesVariables")}},
         ],
         "new_graph_edges": {"params": {"G": TAbs("AbsGraph"), "label": ERASED}},
         "new_combinations": {"params": {"n": INT, "k": INT, "label": ERASED}},
         "new_combinations_with_replacement": {"params": {"n": INT, "k": INT, "label": ERASED}},
         "new_permutations": {"params": {"n": INT, "k": TOpt(INT), "label": ERASED}},
         "new_words": {"params": {"n": INT, "k": INT, "label": ERASED}},
         "new_block": {"params": {"ranges": TList(INT), "label": ERASED}, "vararg": "ranges"},
         "new_binary_mapping": {"params": {"n": INT, "m": INT, "label": ERASED}},
         "new_mapping": {"params": {"n": INT, "m": INT, "label": ERASED}},
         "new_sparse_mapping": {"params": {"B": TAbs("AbsBipGraph"), "label": ERASED}},
         "force_complete_mapping": [{"lean": "force_complete_mapping_unary", "params": {"f": TObj("UnaryMappingVariables")}},
                                    {"lean": "force_complete_mapping_binary", "params": {"f": TObj("BinaryMappingVariables")}}],
         "force_functional_mapping": [{"lean": "force_functional_mapping_unary", "params": {"f": TObj("UnaryMappingVariables")}}],
         "force_surjective_mapping": [{"lean": "force_surjective_mapping_unary", "params": {"f": TObj("UnaryMappingVariables")}}],
         "force_nondecreasing_mapping": [{"lean": "force_nondecreasing_mapping_unary", "params": {"f": TObj("UnaryMappingVariables")}}],
         "force_injective_mapping": [{"lean": "force_injective_mapping_unary", "params": {"f": TObj("UnaryMappingVariables")}},
                                     {"lean": "force_injective_mapping_binary", "params": {"f": TObj("BinaryMappingVariables")}}],
     }},
    {"file": "cnfgen/families/pigeonhole.py", "function": "PigeonholePrinciple", "property": "C01",
     "params": {"pigeons": INT, "holes": INT, "functional": BOOL, "onto": BOOL, "formula_class": TEffectClass("Formula")}},
    {"file": "cnfgen/families/pigeonhole.py", "function": "BinaryPigeonholePrinciple", "property": "C01",
     "params": {"pigeons": INT, "holes": INT, "formula_class": TEffectClass("Formula")}},
    {"file": "cnfgen/families/pigeonhole.py", "function": "RelativizedPigeonholePrinciple", "property": "C01",
     "params": {"pigeons": INT, "resting_places": INT, "holes": INT, "formula_class": TEffectClass("Formula")}},
    {"file": "cnfgen/families/pigeonhole.py", "function": "GraphPigeonholePrinciple", "property": "C01",
     "params": {"G": TAbs("AbsBipGraph"), "functional": BOOL, "onto": BOOL, "formula_class": TEffectClass("Formula")}},
    {"file": "cnfgen/families/pebbling.py", "function": "PebblingFormula", "property": "C03",
     "params": {"digraph": TAbs("AbsDiGraph"), "formula_class": TEffectClass("Formula")}},
    {"file": "cnfgen/families/ramsey.py", "function": "VanDerWaerden", "property": "C03",
     "params": {"N": INT, "k1": INT, "k2": INT, "ks": TList(INT), "formula_class": TEffectClass("Formula")}, "vararg": "ks"},
    {"file": "cnfgen/families/ordering.py", "function": "GraphOrderingPrinciple", "property": "C03",
     "erased_locals": ["description"],
     "params": {"graph": TAbs("AbsGraph"), "total": BOOL, "smart": BOOL, "plant": BOOL, "knuth": INT,
                "formula_class": TEffectClass("Formula")}},
    {"file": "cnfgen/families/ordering.py", "function": "OrderingPrinciple", "property": "C03",
     "erased_locals": ["description"],
     "params": {"size": INT, "total": BOOL, "smart": BOOL, "plant": BOOL, "knuth": INT,
                "formula_class": TEffectClass("Formula")}},
    {"file": "cnfgen/families/ramsey.py", "function": "RamseyNumber", "property": "C03",
     "params": {"s": INT, "k": INT, "N": INT, "formula_class": TEffectClass("Formula")}},
    {"file": "cnfgen/families/counting.py", "function": "CountingPrinciple", "property": "C01",
     "params": {"M": INT, "p": INT, "formula_class": TEffectClass("Formula")}},
    {"file": "cnfgen/families/counting.py", "function": "PerfectMatchingPrinciple", "property": "C01",
     "erased_locals": ["description"],
     "params": {"G": TAbs("AbsGraph"), "formula_class": TEffectClass("Formula")}},
    {"file": "cnfgen/families/coloring.py", "function": "GraphColoringFormula", "property": "C02",
     "erased_locals": ["description"],
     "params": {"G": TAbs("AbsGraph"), "colors": INT, "functional": BOOL, "formula_class": TEffectClass("Formula")}},
    {"file": "cnfgen/families/coloring.py", "function": "EvenColoringFormula", "property": "C02",
     "erased_locals": ["description"],
     "params": {"G": TAbs("AbsGraph"), "formula_class": TEffectClass("Formula")}},
    {"file": "cnfgen/families/tseitin.py", "function": "TseitinFormula", "property": "C02",
     "erased_locals": ["description", "parity"],
     "params": {"G": TAbs("AbsGraph"), "charges": TOpt(TList(BOOL)), "formula_class": TEffectClass("Formula")}},
    {"file": "cnfgen/families/subgraph.py", "function": "non_edges", "property": "C02",
     "params": {"G": TAbs("AbsGraph")}},
    {"file": "cnfgen/families/subgraph.py", "function": "CliqueFormula", "property": "C02",
     "erased_locals": ["description"],
     "params": {"G": TAbs("AbsGraph"), "k": INT, "symbreak": BOOL, "formula_class": TEffectClass("Formula")}},
    {"file": "cnfgen/families/ramsey.py", "function": "PythagoreanTriples", "property": "C03",
     "params": {"N": INT, "formula_class": TEffectClass("Formula")}},
]
