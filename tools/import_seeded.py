#!/usr/bin/env python3
"""Confirm candidate seeded changes (from /tmp/seed/out/<id>/) in a scratch worktree and keep the confirmed ones in
/verif/seeded/<id>/.  Confirmation = patch applies to /repo's HEAD, pinned suite still passes, demo.py exits 0 on
the unchanged repository and non-zero on the changed one.  usage: python3 tools/import_seeded.py [id …]"""
import json, os, shutil, subprocess, sys, time
SRC = "/tmp/seed/out"
WT = "/tmp/seedcheck"
HERE = os.path.dirname(os.path.dirname(os.path.abspath(__file__)))
DST = os.path.join(HERE, "seeded")


def sh(cmd, **kw):
    p = subprocess.run(cmd, stdout=subprocess.PIPE, stderr=subprocess.STDOUT, **kw)
    return p.returncode, p.stdout.decode(errors="replace")


def main():
    global SRC
    argv = sys.argv[1:]
    if "--src" in argv:
        i = argv.index("--src"); SRC = argv[i + 1]; del argv[i:i + 2]
    ids = argv or sorted(os.listdir(SRC))
    if not os.path.isdir(WT):
        rc, out = sh(["git", "-C", "/repo", "worktree", "add", "--detach", WT, "HEAD"])
        if rc:
            print(out); return 2
    sh(["git", "-C", WT, "checkout", "--detach", subprocess.check_output(["git", "-C", "/repo", "rev-parse", "HEAD"]).decode().strip()])
    for sid in ids:
        d = os.path.join(SRC, sid)
        need = [os.path.join(d, f) for f in ("patch.diff", "demo.py", "meta.json")]
        if not all(os.path.exists(f) for f in need):
            print(sid, "incomplete"); continue
        if os.path.exists(os.path.join(DST, sid, "meta.json")):
            print(sid, "already imported"); continue
        sh(["git", "-C", WT, "checkout", "--", "."]); sh(["git", "-C", WT, "clean", "-fdq"])
        rc, out = sh(["git", "-C", WT, "apply", need[0]])
        if rc:
            print(sid, "patch does not apply:", out[:200]); continue
        try:
            rc_b, out_b = sh(["python3", os.path.join(HERE, "tools", "baseline.py"), WT])
            rc_u, out_u = sh(["/venv/bin/python", need[1], "/repo"], timeout=900, cwd="/tmp")
            rc_c, out_c = sh(["/venv/bin/python", need[1], WT], timeout=900, cwd="/tmp")
        except subprocess.TimeoutExpired:
            print(sid, "demo timeout"); continue
        finally:
            pass
        okc = (rc_b == 0 and rc_u == 0 and rc_c != 0)
        print(sid, "baseline", rc_b, out_b.strip().split("\n")[0][:60], "| demo unchanged", rc_u, "| demo changed", rc_c, "=>", "CONFIRMED" if okc else "REJECTED")
        if not okc:
            print("   ", out_u[-200:].replace("\n", " / "), "||", out_c[-200:].replace("\n", " / "))
            continue
        os.makedirs(os.path.join(DST, sid), exist_ok=True)
        for f in ("patch.diff", "demo.py"):
            shutil.copy(os.path.join(d, f), os.path.join(DST, sid, f))
        meta = json.load(open(need[2]))
        meta["confirmed"] = {"at_repo_head": subprocess.check_output(["git", "-C", "/repo", "rev-parse", "--short", "HEAD"]).decode().strip(),
                             "baseline": out_b.strip().split("\n")[0], "demo_unchanged_exit": rc_u, "demo_changed_exit": rc_c,
                             "demo_changed_output": out_c[-400:],
                             "ran": ["git apply patch.diff (scratch worktree)", "python3 baseline.py <worktree>",
                                     "/venv/bin/python demo.py /repo", "/venv/bin/python demo.py <worktree>"]}
        json.dump(meta, open(os.path.join(DST, sid, "meta.json"), "w"), indent=1)
    sh(["git", "-C", WT, "checkout", "--", "."]); sh(["git", "-C", WT, "clean", "-fdq"])
    return 0


if __name__ == "__main__":
    sys.exit(main())
