#!/usr/bin/env python3
"""Differential self-test of the TRANSLATOR (tools/py2lean.py): every translated function is evaluated through the
Lean driver (`gen <index> args…`, module Driver/GenFuncs.lean) and by the real Python function on random arguments.
This validates the trusted part (the expression semantics of the translator and Core/Py.lean); it is not the proof.

Used as a library by harness/props/*_gen.py (cases of the owning property) and as a command:
    PYTHONPATH=/repo /venv/bin/python tools/py2lean_selftest.py [--seed N] [--per-function K]
"""
import importlib
import json
import os
import random
import subprocess
import sys

HERE = os.path.dirname(os.path.dirname(os.path.abspath(__file__)))
MANIFEST = os.path.join(HERE, "tools", "py2lean_manifest.json")
DRIVER = os.path.join(HERE, "lean", ".lake", "build", "bin", "driver")

OUTCOME = {None: 0, "IndexError": 1, "ValueError": 2, "KeyError": 3, "TypeError": 4}


def load_manifest():
    with open(MANIFEST) as fh:
        return json.load(fh)


# ------------------------------------------------------------------ canonical values (same text as the driver)
def canon(v, ty):
    k = ty["k"]
    if k == "int":
        if isinstance(v, bool) or not isinstance(v, int):
            raise TypeError("int expected, got {!r}".format(v))
        return str(v)
    if k == "bool":
        if not isinstance(v, bool):
            raise TypeError("bool expected, got {!r}".format(v))
        return "True" if v else "False"
    if k == "none":
        return "None"
    if k == "str":
        return "'" + ".".join(str(ord(c)) for c in v) + "'"
    if k == "range":
        if not isinstance(v, range) or v.step != 1:
            raise TypeError("range expected, got {!r}".format(v))
        return "range({},{})".format(v.start, v.stop)
    if k == "list":
        return "[" + ",".join(canon(x, ty["e"]) for x in v) + "]"
    if k == "opt":
        return "None" if v is None else canon(v, ty["e"])
    if k == "tuple":
        v = tuple(v)
        if len(v) != len(ty["es"]):
            raise TypeError("tuple of length {} expected".format(len(ty["es"])))
        return "(" + ",".join(canon(x, t) for x, t in zip(v, ty["es"])) + ")"
    if k == "dict":
        return "[" + ",".join(canon(a, ty["key"]) + ":" + canon(b, ty["val"]) for a, b in v.items()) + "]"
    if k == "union":
        return canon(v, ty["a"]) if isinstance(v, int) else canon(v, ty["b"])
    if k == "het":
        v = list(v)
        n = len(ty["tails"])
        return "(" + ",".join([canon(v[:len(v) - n], {"k": "list", "e": ty["e"]})] +
                              [canon(x, t) for x, t in zip(v[len(v) - n:], ty["tails"])]) + ")"
    if k == "effect":
        return fmt_formula(v)
    if k == "builder":
        ctor, log = BUILDER_VIEW[ty["cls"]](v)
        return "(" + canon(ctor, ty["ctor"]) + "," + canon(log, {"k": "list", "e": ty["args"]}) + ")"
    raise TypeError("no canonical form for " + k)


def canon_obj(obj, cls, manifest):
    parts = []
    for f, ty in manifest["classes"][cls]["fields"]:
        if ty["k"] in ("abs", "erased"):
            continue
        v = getattr(obj, f)
        parts.append("{}={}".format(f, canon_obj(v, ty["cls"], manifest) if ty["k"] == "obj" else canon(v, ty)))
    return "{}({})".format(cls, ",".join(parts))


def fmt_formula(F):
    """canonical text of a CNF / OPB object (the driver's `fmtFormula`)"""
    from cnfgen.formula.baseopb import BaseOPB
    if isinstance(F, BaseOPB):
        cs = list(F)
        parts = [str(len(cs))]
        for c in cs:
            c = list(c)
            toks = []
            for coef, lit in c[:-2]:
                toks += [str(coef), str(lit)]
            parts.append(" ".join(toks + [str(c[-2]), str(c[-1])]))
        return "{} {}".format(F.number_of_variables(), " ; ".join(parts))
    cs = [list(c) for c in F.clauses()]
    out = [str(len(cs))]
    for c in cs:
        out += [str(l) for l in c] + ["0"]
    return "{} {}".format(F.number_of_variables(), " ".join(out))


def _record_commands(modname, cls, cmd):
    """the harness process only: remember the commands sent to objects of `cls` (no source hook)"""
    mod = importlib.import_module(modname)
    C = getattr(mod, cls)
    orig = getattr(C, cmd)
    if getattr(orig, "_py2lean", False):
        return

    def wrapped(self, *a, **kw):
        r = orig(self, *a, **kw)
        self.__dict__.setdefault("_py2lean_log", []).append(tuple(a))
        return r
    wrapped._py2lean = True
    setattr(C, cmd, wrapped)


def _digraph_view(D):
    return D.number_of_vertices(), list(D.__dict__.get("_py2lean_log", []))


def _bipartite_view(B):
    return (B.left_order(), B.right_order()), list(B.__dict__.get("_py2lean_log", []))


BUILDER_VIEW = {"DirectedGraph": _digraph_view, "BipartiteGraph": _bipartite_view,
                "CNFLinear": lambda F: ((), [list(c) for c in F.clauses()])}
BUILDER_HOME = {"DirectedGraph": ("cnfgen.graphs", "add_edge"), "BipartiteGraph": ("cnfgen.graphs", "add_edge")}


# ------------------------------------------------------------------ encodings (tools/py2lean_driver.py)
def encode(v, ty):
    k = ty["k"]
    if k == "int":
        return [int(v)]
    if k == "bool":
        return [1 if v else 0]
    if k == "str":
        return [len(v)] + [ord(c) for c in v]
    if k == "list":
        v = list(v)
        out = [len(v)]
        for x in v:
            out += encode(x, ty["e"])
        return out
    if k == "opt":
        return [0] if v is None else [1] + encode(v, ty["e"])
    if k == "tuple":
        out = []
        for x, t in zip(v, ty["es"]):
            out += encode(x, t)
        return out
    if k == "het":
        v = list(v)
        n = len(ty["tails"])
        out = encode(v[:len(v) - n], {"k": "list", "e": ty["e"]})
        for x, t in zip(v[len(v) - n:], ty["tails"]):
            out += encode(x, t)
        return out
    if k == "effect_class":
        return [v]
    if k == "outcome":
        return [OUTCOME[v]]
    if k == "abs":
        return ABS[ty["name"]]["encode"](v)
    raise TypeError("no encoding for " + k)


# ------------------------------------------------------------------ abstract interfaces: value ↔ real object
def _formula(n):
    from cnfgen.formula.basecnf import BaseCNF
    F = BaseCNF()
    F.update_variable_number(n)
    return F


def _gen_bip(rng):
    l, r = rng.choice([0, 1, 2, 3, 4]), rng.choice([0, 1, 2, 3, 4])
    pairs = [(u, v) for u in range(1, l + 1) for v in range(1, r + 1)]
    rng.shuffle(pairs)
    return (l, r, pairs[:rng.randint(0, len(pairs))])


def _real_bip(g):
    from cnfgen.graphs import BipartiteGraph
    l, r, es = g
    B = BipartiteGraph(l, r)
    for u, v in es:
        B.add_edge(u, v)
    return B


def _enc_bip(g):
    l, r, es = g
    out = [l, r, len(es)]
    for u, v in es:
        out += [u, v]
    return out


def _gen_di(rng):
    n = rng.choice([0, 1, 2, 3, 4, 5])
    if rng.random() < 0.8:
        pairs = [(u, v) for u in range(1, n + 1) for v in range(u + 1, n + 1)]      # a DAG in topological order
    else:
        pairs = [(u, v) for u in range(1, n + 1) for v in range(1, n + 1) if u != v]
    rng.shuffle(pairs)
    return (n, pairs[:rng.randint(0, len(pairs))])


def _real_di(g):
    from cnfgen.graphs import DirectedGraph
    n, es = g
    D = DirectedGraph(n)
    for u, v in es:
        D.add_edge(u, v)
    return D


def _enc_di(g):
    n, es = g
    out = [n, len(es)]
    for u, v in es:
        out += [u, v]
    return out


def _gen_graph(rng):
    n = rng.choice([0, 1, 2, 3, 4, 5])
    pairs = [(u, v) for u in range(1, n + 1) for v in range(u + 1, n + 1)]
    rng.shuffle(pairs)
    pairs = pairs[:rng.randint(0, len(pairs))]
    return (n, [(v, u) if rng.random() < 0.3 else (u, v) for u, v in pairs])


def _gen_even_graph(rng):
    """mostly graphs with all degrees even (disjoint cycles), sometimes any graph"""
    if rng.random() < 0.35:
        return _gen_graph(rng)
    n = rng.choice([0, 1, 3, 4, 5, 6, 7])
    vs = list(range(1, n + 1))
    rng.shuffle(vs)
    es = []
    while len(vs) >= 3:
        k = rng.randint(3, len(vs)) if len(vs) < 6 else rng.choice([3, 4, len(vs)])
        cyc, vs = vs[:k], vs[k:]
        es += [(cyc[i], cyc[(i + 1) % k]) for i in range(k)]
    return (n, es)


def _real_graph(g):
    from cnfgen.graphs import Graph
    n, es = g
    G = Graph(n)
    for u, v in es:
        G.add_edge(u, v)
    return G


ABS = {
    "AbsGraph": {"gen": _gen_graph, "real": _real_graph, "encode": _enc_di},
    "AbsDiGraph": {"gen": _gen_di, "real": _real_di, "encode": _enc_di},
    "AbsFormula": {"gen": lambda rng: rng.choice([0, 0, 1, 3, 7, 100, 2 ** 40]), "real": _formula,
                   "encode": lambda n: [n]},
    "AbsBipGraph": {"gen": _gen_bip, "real": _real_bip, "encode": _enc_bip},
}


# ------------------------------------------------------------------ argument generators
def gen_int(rng):
    r = rng.random()
    if r < 0.7:
        return rng.randint(-2, 9)
    if r < 0.93:
        return rng.randint(-60, 300)
    return rng.choice([-2 ** 40, 2 ** 33, 2 ** 64 + 1, 257, 65536])


def gen_value(rng, ty, hint=None, ctx=None):
    k = ty["k"]
    if hint is not None:
        return hint(rng, ctx or {})
    if k == "int":
        return gen_int(rng)
    if k == "bool":
        return rng.random() < 0.5
    if k == "str":
        return rng.choice(["", "a", "pred", "succ"])
    if k == "list":
        n = rng.choice([0, 1, 2, 2, 3, 3, 4])
        return [gen_value(rng, ty["e"]) for _ in range(n)]
    if k == "opt":
        return None if rng.random() < 0.4 else gen_value(rng, ty["e"])
    if k == "tuple":
        return tuple(gen_value(rng, t) for t in ty["es"])
    if k == "abs":
        return ABS[ty["name"]]["gen"](rng)
    if k == "effect_class":
        return rng.choice([0, 0, 1])
    if k == "het":
        return gen_value(rng, {"k": "list", "e": ty["e"]}) + [gen_value(rng, t) for t in ty["tails"]]
    if k == "erased":
        r = rng.random()
        if r < 0.5:
            return None
        if r < 0.8:
            return rng.choice(["x", "x{}", "y[{},{}]", "{0}{1}", "{0}"])
        return rng.choice(["z{}{}{}", "w{}{}{}{}", "{a}", "{", "}", "{}{0}", "{5}"])
    raise TypeError("no generator for " + k)


class ProbeStr(str):
    """a label whose `format` records how the call ended (the observer outcome of the translation)"""
    def format(self, *a, **kw):
        rec = getattr(self, "_rec", None)
        if rec is None:
            rec = self._rec = []
        try:
            r = str.format(self, *a, **kw)
            rec.append(None)
            return r
        except Exception as e:
            rec.append(type(e).__name__)
            raise


def small_ranges(rng, ctx):
    n = rng.choice([0, 1, 1, 2, 2, 3, 4])
    out = [rng.choice([0, 1, 1, 2, 2, 3, 4]) for _ in range(n)]
    if rng.random() < 0.1 and out:
        out[rng.randrange(len(out))] = rng.choice([-1, -3])
    return out


# per (class or function, parameter): generators aimed at the interesting region
def block_lit(rng, ctx):
    """a literal around the identifiers of the block"""
    nv = ctx.get("formula", 0)
    n = 1
    for r in ctx.get("ranges", []):
        n *= max(r, 0)
    v = rng.randint(nv - 1, nv + n + 2)
    if rng.random() < 0.1:
        v = gen_int(rng)
    return v if rng.random() < 0.6 else -v


def block_index(rng, ctx):
    rs = ctx.get("ranges", [])
    if rng.random() < 0.15:
        return [gen_int(rng) for _ in range(rng.choice([0, 1, 2, 3]))]
    return [rng.randint(1, max(r, 1)) if rng.random() < 0.9 else rng.randint(-1, max(r, 0) + 2) for r in rs]


def block_pattern(rng, ctx):
    rs = ctx.get("ranges", [])
    if rng.random() < 0.2:
        return []
    if rng.random() < 0.1:
        return [None] * rng.choice([1, 2, 3])
    return [None if rng.random() < 0.5 else rng.randint(0, max(r, 0) + 1) for r in rs]


def bin_n(rng, ctx):
    return rng.choice([0, 1, 1, 2, 3, 4, 5, -1])


def bin_m(rng, ctx):
    return rng.choice([0, 1, 2, 3, 4, 5, 6, 7, 8, 9, 13, 16, 17, 32, 33, 255, 256, 257, 1024, -1, -2])


def bin_lit(rng, ctx):
    nv = ctx.get("formula", 0)
    n, m = max(ctx.get("n", 0), 0), max(ctx.get("m", 0), 0)
    size = n * max(m - 1, 0).bit_length()
    v = rng.randint(nv - 1, nv + size + 2)
    if rng.random() < 0.1:
        v = gen_int(rng)
    return v if rng.random() < 0.6 else -v


def bin_pattern(rng, ctx):
    n, m = max(ctx.get("n", 0), 0), max(ctx.get("m", 0), 0)
    bits = max(m - 1, 0).bit_length()
    r = rng.random()
    if r < 0.15:
        return []
    if r < 0.25:
        return [gen_value(rng, {"k": "opt", "e": {"k": "int"}}) for _ in range(rng.choice([1, 3]))]
    return [None if rng.random() < 0.4 else rng.randint(0, n + 1), None if rng.random() < 0.4 else rng.randint(-1, bits + 1)]


def bin_index(rng, ctx):
    n, m = max(ctx.get("n", 0), 0), max(ctx.get("m", 0), 0)
    bits = max(m - 1, 0).bit_length()
    if rng.random() < 0.1:
        return [gen_int(rng) for _ in range(rng.choice([0, 1, 3]))]
    return [rng.randint(0, n + 1), rng.randint(-1, bits + 1)]


def bin_i(rng, ctx):
    return rng.randint(0, max(ctx.get("n", 0), 0) + 1)


def bin_j(rng, ctx):
    m = max(ctx.get("m", 0), 0)
    bits = max(m - 1, 0).bit_length()
    return rng.choice([rng.randint(0, 2 ** bits), rng.randint(-2 ** bits - 2, 2 ** bits + 2), 0, m])


def bip_lit(rng, ctx):
    nv = ctx.get("formula", 0)
    g = ctx.get("G", (0, 0, []))
    v = rng.randint(nv - 1, nv + len(g[2]) + 2)
    if rng.random() < 0.1:
        v = gen_int(rng)
    return v if rng.random() < 0.6 else -v


def bip_pattern(rng, ctx):
    l, r, es = ctx.get("G", (0, 0, []))
    x = rng.random()
    if x < 0.15:
        return []
    if x < 0.25:
        return [gen_value(rng, {"k": "opt", "e": {"k": "int"}}) for _ in range(rng.choice([1, 3]))]
    if x < 0.6 and es:
        u, v = rng.choice(es)
        return [u if rng.random() < 0.7 else None, v if rng.random() < 0.7 else None]
    return [None if rng.random() < 0.3 else rng.randint(-1, l + 1), None if rng.random() < 0.3 else rng.randint(-1, r + 1)]


def bip_index(rng, ctx):
    l, r, es = ctx.get("G", (0, 0, []))
    x = rng.random()
    if x < 0.7 and es:
        return list(rng.choice(es))
    if x < 0.8:
        return [gen_int(rng) for _ in range(rng.choice([0, 1, 3]))]
    return [rng.randint(-1, l + 1), rng.randint(-1, r + 1)]


def opb_constraint(rng, ctx):
    n = rng.choice([0, 1, 2, 3, 4, 5])
    terms = [(rng.choice([-3, -2, -1, 0, 1, 2, 3, 7, -2 ** 40]), rng.choice([-4, -3, -2, -1, 1, 2, 3, 4, 5])) for _ in range(n)]
    op = rng.choice(["<=", ">=", "<", ">", "==", "!=", "="])
    return terms + [op, rng.randint(-6, 8)]


def vdw_N(rng, ctx):
    return rng.choice([0, 1, 2, 3, 5, 8, 9, 12, 20, -1])


def vdw_k(rng, ctx):
    return rng.choice([1, 1, 2, 2, 3, 3, 4, 5, 9, 0, -1])


def wrap_lit(rng, ctx):
    nv = ctx.get("nv", 0)
    v = rng.randint(nv - 1, nv + ctx.get("nedges", 0) + 2)
    return v if rng.random() < 0.6 else -v


def wrap_index(rng, ctx):
    es = ctx.get("edges", [])
    n = ctx.get("n", 0)
    x = rng.random()
    if x < 0.7 and es:
        e = list(rng.choice(es))
        return e if rng.random() < 0.5 else e[::-1]
    if x < 0.8:
        return [gen_int(rng) for _ in range(rng.choice([0, 1, 3]))]
    return [rng.randint(0, n + 1), rng.randint(0, n + 1)]


def wrap_pattern(rng, ctx):
    es = ctx.get("edges", [])
    n = ctx.get("n", 0)
    x = rng.random()
    if x < 0.15:
        return []
    if x < 0.25:
        return [gen_value(rng, {"k": "opt", "e": {"k": "int"}}) for _ in range(rng.choice([1, 3]))]
    if x < 0.6 and es:
        u, v = rng.choice(es)
        if rng.random() < 0.5:
            u, v = v, u
        return [u if rng.random() < 0.7 else None, v if rng.random() < 0.7 else None]
    return [None if rng.random() < 0.3 else rng.randint(-1, n + 1), None if rng.random() < 0.3 else rng.randint(-1, n + 1)]


def unary_vertex(rng, ctx):
    l, r, es = ctx.get("G", (0, 0, []))
    return None if rng.random() < 0.3 else rng.randint(-1, max(l, r) + 1)


def single_lit(rng, ctx):
    nv = ctx.get("formula", 0)
    v = rng.choice([nv, nv + 1, nv + 1, nv + 2, 0, gen_int(rng)])
    return v if rng.random() < 0.6 else -v


def word_n(rng, ctx):
    return rng.choice([0, 1, 2, 3, 3, 4, 5, -1])


def word_k(rng, ctx):
    return rng.choice([0, 1, 2, 2, 3, -1])


def word_type(rng, ctx):
    return rng.choice(["combinations", "combinations_with_replacement", "permutations", "words"] * 3 + ["combination", ""])


def word_pattern(rng, ctx):
    n, k = max(ctx.get("n", 0), 0), max(ctx.get("k", 0), 0)
    x = rng.random()
    if x < 0.2:
        return []
    if x < 0.3:
        return [gen_value(rng, {"k": "opt", "e": {"k": "int"}}) for _ in range(rng.choice([1, 2, 3]))]
    return sorted(rng.randint(1, n + 1) for _ in range(k)) if rng.random() < 0.6 else [rng.randint(0, n + 1) for _ in range(k)]


def word_lit(rng, ctx):
    nv = ctx.get("formula", 0)
    v = rng.randint(nv - 1, nv + 12)
    return v if rng.random() < 0.6 else -v


def lin_lits(rng, ctx):
    n = rng.choice([0, 1, 2, 3, 4, 5, 6])
    ls = [rng.choice([-1, 1]) * rng.randint(1, 8) for _ in range(n)]
    if rng.random() < 0.08 and ls:
        ls[rng.randrange(len(ls))] = 0
    return ls


def graph_edge_index(rng, ctx):
    n, es = ctx.get("G", (0, []))
    if es and rng.random() < 0.75:
        u, v = rng.choice(es)
        return [u, v] if rng.random() < 0.5 else [v, u]
    return [rng.randint(0, n + 1), rng.randint(0, n + 1)]


def graph_edge_pattern(rng, ctx):
    n, es = ctx.get("G", (0, []))
    x = rng.random()
    if x < 0.15:
        return []
    if x < 0.25:
        return [None, None]
    if x < 0.6:
        w = rng.randint(0, n + 1)
        return [w, None] if rng.random() < 0.5 else [None, w]
    if x < 0.9:
        return [(None if a is None else a) for a in graph_edge_index(rng, ctx)]
    return [gen_value(rng, {"k": "opt", "e": {"k": "int"}}) for _ in range(rng.choice([1, 3]))]


def graph_edge_lit(rng, ctx):
    nv = ctx.get("formula", 0)
    n, es = ctx.get("G", (0, []))
    v = rng.randint(nv - 1, nv + len(es) + 2)
    return v if rng.random() < 0.6 else -v


HINTS = {
    ("GraphEdgesVariables", "G"): lambda rng, ctx: _gen_graph(rng),
    ("GraphEdgesVariables:_unsafe_index_to_lit", "index"): graph_edge_index,
    ("GraphEdgesVariables:__call__", "index"): graph_edge_pattern,
    ("GraphEdgesVariables", "pattern"): graph_edge_pattern,
    ("GraphEdgesVariables", "lit"): graph_edge_lit,
    ("GraphEdgesVariables", "formula"): lambda rng, ctx: rng.choice([0, 0, 3, 10]),
    ("PerfectMatchingPrinciple", "G"): lambda rng, ctx: _gen_graph(rng),
    ("CliqueFormula", "G"): lambda rng, ctx: _gen_graph(rng),
    ("CliqueFormula", "k"): lambda rng, ctx: rng.choice([0, 1, 2, 3, 4, -1]),
    ("non_edges", "G"): lambda rng, ctx: _gen_graph(rng),
    ("GraphColoringFormula", "G"): lambda rng, ctx: _gen_graph(rng),
    ("GraphColoringFormula", "colors"): lambda rng, ctx: rng.choice([0, 1, 2, 3, 4, -1]),
    ("EvenColoringFormula", "G"): lambda rng, ctx: _gen_even_graph(rng),
    ("TseitinFormula", "G"): lambda rng, ctx: _gen_graph(rng),
    ("TseitinFormula", "charges"): lambda rng, ctx: (None if rng.random() < 0.3 else
                                                    [rng.random() < 0.5 for _ in range(rng.choice([0, 1, 2, 3, 4, 5, 6, 7]))]),
    ("GraphPigeonholePrinciple", "G"): lambda rng, ctx: _gen_bip(rng),
    ("RelativizedPigeonholePrinciple", "pigeons"): lambda rng, ctx: rng.choice([0, 1, 2, 3, 4, -1]),
    ("RelativizedPigeonholePrinciple", "resting_places"): lambda rng, ctx: rng.choice([0, 1, 2, 3, 4, -1]),
    ("RelativizedPigeonholePrinciple", "holes"): lambda rng, ctx: rng.choice([0, 1, 2, 3, -1]),
    ("BinaryPigeonholePrinciple", "pigeons"): lambda rng, ctx: rng.choice([0, 1, 2, 3, 4, -1]),
    ("BinaryPigeonholePrinciple", "holes"): lambda rng, ctx: rng.choice([0, 1, 2, 3, 4, 5, 8, 9, -1]),
    ("PigeonholePrinciple", "pigeons"): lambda rng, ctx: rng.choice([0, 1, 2, 3, 4, 5, -1]),
    ("PigeonholePrinciple", "holes"): lambda rng, ctx: rng.choice([0, 1, 2, 3, 4, -1]),
    ("GraphOrderingPrinciple", "graph"): lambda rng, ctx: _gen_graph(rng),
    ("GraphOrderingPrinciple", "knuth"): lambda rng, ctx: rng.choice([0, 0, 2, 3, 1, 5]),
    ("OrderingPrinciple", "size"): lambda rng, ctx: rng.choice([0, 1, 2, 3, 4, 5, -1]),
    ("OrderingPrinciple", "knuth"): lambda rng, ctx: rng.choice([0, 0, 2, 3, 1, 5]),
    ("RamseyNumber", "s"): lambda rng, ctx: rng.choice([1, 2, 3, 4, 0, -1]),
    ("RamseyNumber", "k"): lambda rng, ctx: rng.choice([1, 2, 3, 4, 5, 0]),
    ("RamseyNumber", "N"): lambda rng, ctx: rng.choice([0, 1, 2, 3, 4, 5, 6, -1]),
    ("CountingPrinciple", "M"): lambda rng, ctx: rng.choice([0, 1, 2, 3, 4, 5, 6, 7, -1]),
    ("CountingPrinciple", "p"): lambda rng, ctx: rng.choice([1, 2, 3, 4, 8, 0, -1]),
    ("PythagoreanTriples", "N"): lambda rng, ctx: rng.choice([0, 1, 4, 5, 10, 13, 17, 20, 26, 30, -1]),
    ("VanDerWaerden", "N"): lambda rng, ctx: rng.choice([0, 1, 2, 3, 4, 5, 6, 8, 9, -1]),
    ("VanDerWaerden", "k1"): lambda rng, ctx: rng.choice([1, 2, 3, 4, 0, -1]),
    ("VanDerWaerden", "k2"): lambda rng, ctx: rng.choice([1, 2, 3, 4, 5, 0]),
    ("VanDerWaerden", "ks"): lambda rng, ctx: [rng.choice([1, 2, 3, 3, 4, 0]) for _ in range(rng.choice([0, 0, 0, 1, 2, 3]))],
    ("positive_int_seq", "value"): lambda rng, ctx: [rng.choice([1, 2, 3, 7, 0, -2, 2 ** 70]) for _ in range(rng.choice([0, 1, 2, 3, 4]))],
    ("non_negative_int", "value"): lambda rng, ctx: rng.choice([0, 1, -1, 5, -7, 2 ** 70]),
    ("positive_int", "value"): lambda rng, ctx: rng.choice([0, 1, -1, 5, -7, 2 ** 70]),
    ("CNFLinear", "lits"): lin_lits,
    ("CNFLinear", "op"): lambda rng, ctx: rng.choice(["<=", ">=", "<", ">", "==", "!="] * 3 + ["=", "=>"]),
    ("CNFLinear", "constant"): lambda rng, ctx: rng.randint(-2, 8),
    ("bipartite_shift", "N"): lambda rng, ctx: rng.choice([0, 1, 2, 3, 5, -1]),
    ("bipartite_shift", "M"): lambda rng, ctx: rng.choice([0, 1, 2, 3, 4, 7, -2]),
    ("bipartite_shift", "pattern"): lambda rng, ctx: [rng.randint(-9, 12) for _ in range(rng.choice([0, 1, 2, 3, 4]))],
    ("dag_path", "length"): lambda rng, ctx: rng.choice([0, 1, 2, 3, 7, 20, -1, -5]),
    ("dag_complete_binary_tree", "height"): lambda rng, ctx: rng.choice([0, 1, 2, 3, 4, 6, -1]),
    ("dag_pyramid", "height"): lambda rng, ctx: rng.choice([0, 1, 2, 3, 4, 7, -1]),
    ("WordOfIndicesVariables", "n"): word_n,
    ("WordOfIndicesVariables", "k"): word_k,
    ("WordOfIndicesVariables", "wordtype"): word_type,
    ("WordOfIndicesVariables", "pattern"): word_pattern,
    ("WordOfIndicesVariables", "index"): lambda rng, ctx: tuple(word_pattern(rng, ctx)),   # a dictionary key: hashable
    ("WordOfIndicesVariables", "lit"): word_lit,
    ("DiGraphEdgesVariables", "lit"): wrap_lit,
    ("DiGraphEdgesVariables", "index"): wrap_index,
    ("DiGraphEdgesVariables", "pattern"): wrap_pattern,
    ("GraphEdgesVariables", "lit"): wrap_lit,
    ("GraphEdgesVariables", "index"): wrap_index,
    ("UnaryMappingVariables", "lit"): bip_lit,
    ("UnaryMappingVariables", "pattern"): bip_pattern,
    ("UnaryMappingVariables", "index"): bip_pattern,
    ("UnaryMappingVariables:_unsafe_index_to_lit", "index"): bip_index,
    ("UnaryMappingVariables", "v"): unary_vertex,
    ("UnaryMappingVariables", "u"): unary_vertex,
    ("SingletonVariableGroup", "lit"): single_lit,
    ("SingletonVariableGroup", "pattern"): lambda rng, ctx: [] if rng.random() < 0.7 else [None],
    ("SingletonVariableGroup", "choices"): lambda rng, ctx: rng.choice([0, 0, -1, 1, -2, 5]),
    ("normalize_opb", "constraint"): opb_constraint,
    ("_vdw_ap_generator", "N"): vdw_N,
    ("_vdw_ap_generator", "k"): vdw_k,
    ("BipartiteEdgesVariables", "lit"): bip_lit,
    ("BipartiteEdgesVariables", "pattern"): bip_pattern,
    ("BipartiteEdgesVariables", "index"): bip_pattern,
    ("BipartiteEdgesVariables:_unsafe_index_to_lit", "index"): bip_index,
    ("BinaryMappingVariables", "n"): bin_n,
    ("BinaryMappingVariables", "m"): bin_m,
    ("BinaryMappingVariables", "lit"): bin_lit,
    ("BinaryMappingVariables", "pattern"): bin_pattern,
    ("BinaryMappingVariables", "index"): bin_pattern,
    ("BinaryMappingVariables", "i"): bin_i,
    ("BinaryMappingVariables", "j"): bin_j,
    ("BlockOfVariables", "ranges"): small_ranges,
    ("BlockOfVariables", "lit"): block_lit,
    ("BlockOfVariables", "index"): block_index,
    ("BlockOfVariables:__call__", "index"): block_pattern,
    ("BinaryMappingVariables:_unsafe_index_to_lit", "index"): bin_index,
    ("BlockOfVariables", "pattern"): block_pattern,
}


def hint_for(owner, pname, meth=None):
    return HINTS.get(("{}:{}".format(owner, meth), pname)) or HINTS.get((owner, pname))


# ------------------------------------------------------------------ one call: real code + request line
def real_module(source):
    rel = source.split(":")[0]
    return importlib.import_module(rel[:-3].replace("/", "."))


# ------------------------------------------------------------------ property oracles on the REAL code
# (independent of the model and of the translation: they are what turns a broken proof obligation into a failing input)
def _group_roundtrip_to_index(obj, args):
    lit = args[0]
    try:
        t = obj.to_index(lit)
    except ValueError:
        return None if abs(lit) not in obj.ids else {"to_index_refuses_own_literal": lit}
    if abs(lit) not in obj.ids:
        return {"to_index_accepts_foreign_literal": lit, "index": repr(t)}
    back = obj._unsafe_index_to_lit(tuple(t))
    if back != abs(lit):
        return {"lit": lit, "to_index": repr(t), "index_to_lit_of_it": back}
    if tuple(t) not in [tuple(x) for x in obj.indices()]:
        return {"lit": lit, "to_index": repr(t), "not_in_indices": True}
    return None


def _group_roundtrip_index(obj, args):
    idx = tuple(args[0])
    legal = [tuple(x) for x in obj.indices()]
    if idx not in legal:
        return None
    v = obj._unsafe_index_to_lit(idx)
    if v != obj.ids[legal.index(idx)]:
        return {"index": idx, "id": v, "expected_id": obj.ids[legal.index(idx)]}
    if tuple(obj.to_index(v)) != idx or tuple(obj.to_index(-v)) != idx:
        return {"index": idx, "id": v, "to_index": repr(obj.to_index(v))}
    return None


def _forbid_spec(obj, args):
    i, j = args
    bits = obj.bits()
    if not (1 <= i <= obj.domain_size and 0 <= j < 2 ** bits) or bits > 10:
        return None
    clause = obj.forbid(i, j)
    ids = {b: obj(i, b) for b in range(bits)}
    for value in range(2 ** bits):
        true = {ids[b] for b in range(bits) if (value >> b) & 1}
        holds = any((l > 0 and l in true) or (l < 0 and -l not in true) for l in clause)
        if holds == (value == j):
            return {"i": i, "j": j, "clause": clause, "bits_value": value, "clause_holds": holds}
    return None


def _vdw_spec(obj, args):
    N, k = args
    if k < 1 or N > 40:
        return None
    mod = importlib.import_module("cnfgen.families.ramsey")
    got = [tuple(a) for a in mod._vdw_ap_generator(N, k)]
    want = set()
    for i in range(1, N + 1):
        if k == 1:
            want.add((i,))
            continue
        for d in range(1, N + 1):
            if i + (k - 1) * d <= N:
                want.add(tuple(i + d * t for t in range(k)))
    if len(got) != len(set(got)) or set(got) != want:
        return {"N": N, "k": k, "yielded": got[:8], "missing": sorted(want - set(got))[:4], "extra": sorted(set(got) - want)[:4]}
    return None


def _normalize_spec(obj, args):
    import copy
    import itertools
    con = args[0]
    op = con[-2]
    if op not in ("<=", ">=", "<", ">", "==", "!="):
        return None
    mod = importlib.import_module("cnfgen.formula.baseopb")
    out = mod.normalize_opb(copy.deepcopy(con))
    vs = sorted({abs(l) for _, l in con[:-2]})
    if len(vs) > 6 or 0 in vs:
        return None

    def holds(c, true):
        sm = sum(co for co, l in c[:-2] if (l > 0 and l in true) or (l < 0 and -l not in true))
        return {"<=": sm <= c[-1], ">=": sm >= c[-1], "<": sm < c[-1], ">": sm > c[-1], "==": sm == c[-1], "!=": sm != c[-1]}[c[-2]]
    for r in range(len(vs) + 1):
        for true in itertools.combinations(vs, r):
            if holds(con, set(true)) != holds(out, set(true)):
                return {"constraint": con, "normalized": out, "assignment_true": list(true)}
    if any(co <= 0 for co, _ in out[:-2]) or (op != "!=" and out[-2] not in (">=", "==")):
        return {"constraint": con, "normalized": out, "not_normal_form": True}
    return None


def _dag_spec(which):
    def oracle(obj, args):
        h = args[0]
        if h < 0 or h > 9:
            return None
        mod = importlib.import_module("cnfgen.graphs")
        D = getattr(mod, which)(h)
        es = sorted(D.edges())
        n = D.number_of_vertices()
        if which == "dag_path":
            want_n, want = h + 1, [(i, i + 1) for i in range(1, h + 1)]
        elif which == "dag_complete_binary_tree":
            want_n = 2 ** (h + 1) - 1
            want = []
            # leaves 1..2^h, then level by level; the parent of children (2j-1, 2j) of a level is the j-th vertex of the next
            start, width = 1, 2 ** h
            while width > 1:
                nxt = start + width
                for j in range(width // 2):
                    want += [(start + 2 * j, nxt + j), (start + 2 * j + 1, nxt + j)]
                start, width = nxt, width // 2
        else:
            want_n = (h + 1) * (h + 2) // 2
            want = []
            start, width = 1, h + 1
            while width > 1:
                nxt = start + width
                for j in range(width - 1):
                    want += [(start + j, nxt + j), (start + j + 1, nxt + j)]
                start, width = nxt, width - 1
        if n != want_n or es != sorted(want):
            return {"height": h, "vertices": n, "expected_vertices": want_n, "edges": es[:12], "expected": sorted(want)[:12]}
        return None
    return oracle


def _shift_spec(obj, args):
    N, M, pattern = args
    if N < 1 or M < 1:
        return None
    mod = importlib.import_module("cnfgen.graphs")
    before = list(pattern)
    G = mod.bipartite_shift(N, M, pattern)
    want = sorted({(u, 1 + (u - 1 + o) % M) for u in range(1, N + 1) for o in before})
    got = sorted(G.edges())
    if got != want or pattern != before or (G.left_order(), G.right_order()) != (N, M):
        return {"N": N, "M": M, "pattern": before, "pattern_after": pattern, "edges": got[:10], "expected": want[:10]}
    return None


def _add_linear_spec(obj, args):
    import itertools
    lits, op, k, check = args
    if op not in ("<=", ">=", "<", ">", "==", "!=") or 0 in lits or len(lits) > 7:
        return None
    before = list(obj.clauses())
    obj.add_linear(list(lits), op, k, check)
    new = [list(c) for c in obj.clauses()][len(before):]
    vs = sorted({abs(l) for l in lits})
    for r in range(len(vs) + 1):
        for true in itertools.combinations(vs, r):
            t = set(true)
            cnt = sum(1 for l in lits if (l > 0 and l in t) or (l < 0 and -l not in t))
            want = {"<=": cnt <= k, ">=": cnt >= k, "<": cnt < k, ">": cnt > k, "==": cnt == k, "!=": cnt != k}[op]
            got = all(any((l > 0 and l in t) or (l < 0 and -l not in t) for l in c) for c in new)
            if want != got:
                return {"lits": lits, "op": op, "k": k, "true": list(true), "count": cnt, "clauses": new[:8], "clauses_hold": got}
    return None


def _brute_sat(F):
    import itertools
    n = F.number_of_variables()
    cs = [list(c) for c in F.clauses()]
    if n > 12:
        return None
    for bits in itertools.product([False, True], repeat=n):
        if all(any((l > 0) == bits[abs(l) - 1] for l in c) for c in cs):
            return True
    return False


def _php_spec(obj, args):
    m, n, functional, onto, cls = args
    if m < 0 or n < 0 or m * n > 12:
        return None
    from cnfgen.formula.cnf import CNF
    mod = importlib.import_module("cnfgen.families.pigeonhole")
    F = mod.PigeonholePrinciple(m, n, functional, onto, formula_class=CNF)
    if onto and functional:
        want = (m == n)
    elif onto:
        want = (m <= n) and (n == 0 or m > 0)
    else:
        want = (m <= n)
    got = _brute_sat(F)
    if F.number_of_variables() != m * n or got != want:
        return {"pigeons": m, "holes": n, "functional": functional, "onto": onto, "variables": F.number_of_variables(),
                "satisfiable": got, "expected": want}
    return None


ORACLES = {
    "PigeonholePrinciple": _php_spec,
    "CNFLinear.add_linear": _add_linear_spec,
    "bipartite_shift": _shift_spec,
    "dag_path": _dag_spec("dag_path"),
    "dag_complete_binary_tree": _dag_spec("dag_complete_binary_tree"),
    "dag_pyramid": _dag_spec("dag_pyramid"),
    "BlockOfVariables.to_index": _group_roundtrip_to_index,
    "BinaryMappingVariables.to_index": _group_roundtrip_to_index,
    "BipartiteEdgesVariables.to_index": _group_roundtrip_to_index,
    "UnaryMappingVariables.to_index": _group_roundtrip_to_index,
    "DiGraphEdgesVariables.to_index": _group_roundtrip_to_index,
    "GraphEdgesVariables.to_index": _group_roundtrip_to_index,
    "BlockOfVariables.index_to_lit": _group_roundtrip_index,
    "BinaryMappingVariables.index_to_lit": _group_roundtrip_index,
    "BipartiteEdgesVariables.index_to_lit": _group_roundtrip_index,
    "BinaryMappingVariables.forbid": _forbid_spec,
    "vdw_ap_generator": _vdw_spec,
    "normalize_opb": _normalize_spec,
}

def _rand_digraph(rng):
    n = rng.choice([0, 1, 2, 3, 4])
    pairs = [(u, v) for u in range(1, n + 1) for v in range(1, n + 1) if u != v]
    rng.shuffle(pairs)
    return n, pairs[:rng.randint(0, len(pairs))]


def _bip_fields(vg, nv):
    """(encoded constructor arguments of the BipartiteEdgesVariables `vg` for the driver)"""
    B = vg.G
    es = list(B.edges())
    return [nv, B.left_order(), B.right_order(), len(es)] + [x for e in es for x in e] + [0]


def _adapt_digraph(rng):
    from cnfgen.graphs import DirectedGraph
    from cnfgen.formula.variables import DiGraphEdgesVariables
    nv = rng.choice([0, 2, 9])
    n, es = _rand_digraph(rng)
    sortby = rng.choice(["pred", "succ"])

    def build():
        D = DirectedGraph(n)
        for u, v in es:
            D.add_edge(u, v)
        return DiGraphEdgesVariables(_formula(nv), D, sortby=sortby)
    obj = build()
    ctx = {"nv": nv, "edges": list(obj.VG.G.edges()), "n": n, "nedges": len(es)}
    return build, [len(sortby)] + [ord(c) for c in sortby] + _bip_fields(obj.VG, nv), ctx


def _adapt_graph(rng):
    from cnfgen.graphs import Graph
    from cnfgen.formula.variables import GraphEdgesVariables
    nv = rng.choice([0, 2, 9])
    n, es = _rand_digraph(rng)

    def build():
        G = Graph(n)
        for u, v in es:
            G.add_edge(u, v)
        return GraphEdgesVariables(_formula(nv), G)
    obj = build()
    ctx = {"nv": nv, "edges": list(obj.BG.G.edges()), "n": n, "nedges": obj.BG.G.number_of_edges()}
    return build, _bip_fields(obj.BG, nv), ctx


def _adapt_cnflinear(rng):
    def build():
        from cnfgen.formula.linear import CNFLinear
        return CNFLinear()
    return build, [], {}


FIELD_ADAPTERS = {"DiGraphEdgesVariables": _adapt_digraph, "GraphEdgesVariables": _adapt_graph,
                  "CNFLinear": _adapt_cnflinear}

OMIT = object()


def strip_omitted(args):
    """an omitted trailing argument (the label left to its default)"""
    args = list(args)
    while args and args[-1] is OMIT:
        args.pop()
    if any(a is OMIT for a in args):
        raise RuntimeError("only trailing arguments can be omitted")
    return args


def make_call(rng, fn, manifest):
    """returns (request builder → str, impl → canonical answer) for one random argument tuple"""
    cls = fn["cls"]
    mod = real_module(fn["source"])
    if fn["ret"].get("k") == "builder" and fn["ret"]["cls"] in BUILDER_HOME:
        # only in processes that test such a function: remember the commands its result received
        home = BUILDER_HOME[fn["ret"]["cls"]]
        _record_commands(home[0], fn["ret"]["cls"], home[1])
    pieces = []          # (type, value) in request order; outcome entries are filled after the real run
    probes = {}          # erased parameter name -> ProbeStr or None

    ctx = {}

    def defaults_of(owner, meth):
        import inspect
        target = getattr(mod, owner, None)
        f = getattr(target, meth or "__init__", None) if cls else getattr(mod, fn["py"], None)
        try:
            sig = inspect.signature(f)
        except (TypeError, ValueError):
            return {}
        return {n: (q.default is not inspect.Parameter.empty) for n, q in sig.parameters.items()}

    def args_for(params, owner, meth=None):
        real, enc = [], []
        for p, ty in params:
            if ty["k"] == "erased":
                v = gen_value(rng, ty)
                if v is None and not defaults_of(owner, meth).get(p, False):
                    v = "e[{},{}]"
                if v is None and p != params[-1][0]:
                    v = "p_{}"            # only a trailing argument can be left to its default
                if v is not None:
                    v = ProbeStr(v)
                probes[p] = v
                real.append(v if v is not None else OMIT)
                continue
            v = gen_value(rng, ty, hint_for(owner, p, meth), ctx)
            ctx[p] = v
            enc.append((ty, v))
            if ty["k"] == "effect_class":
                from cnfgen.formula.cnf import CNF
                from cnfgen.formula.opb import OPB
                real.append(OPB if v == 1 else CNF)
                continue
            real.append(ABS[ty["name"]]["real"](v) if ty["k"] == "abs" else v)
        return real, enc
    init = manifest["classes"][cls]["init"] if cls else None
    init_real = init_enc = None
    init_obs = []
    adapter = None
    if cls and not fn["is_init"]:
        if init is None:
            if cls not in FIELD_ADAPTERS:
                return None
            adapter = FIELD_ADAPTERS[cls](rng)
            ctx.update(adapter[2])
        else:
            init_real, init_enc = args_for(init["params"], cls, "__init__")
            init_obs = init["observers"]
    real, enc = args_for(fn["params"], cls or fn["py"], fn["py"])
    obs = fn["observers"]

    def outcome_of(o):
        name, ty, how = o
        probe = probes.get(how[1])
        rec = getattr(probe, "_rec", None) if probe is not None else None
        return rec[0] if rec else None

    def run():
        """canonical answer of the real code; afterwards the probes hold the observer outcomes"""
        if cls is None:
            f = getattr(mod, fn["py"])
            import copy
            args = copy.deepcopy(strip_omitted(real))
            if fn["vararg"]:
                # f(a, b, *seq, kwonly=…): parameters before the sequence are positional, those after it keyword-only
                names = [p for p, ty in fn["params"] if ty["k"] != "erased" or probes.get(p) is not None]
                i = names.index(fn["vararg"])
                r = f(*(args[:i] + list(args[i])), **dict(zip(names[i + 1:], args[i + 1:])))
            else:
                r = f(*args)
            return "OK " + canon(r, fn["ret"])
        C = getattr(mod, cls)
        if fn["is_init"]:
            obj = C(*strip_omitted(real))
            return "OK " + canon_obj(obj, cls, manifest)
        obj = adapter[0]() if adapter is not None else C(*strip_omitted(init_real))
        m = getattr(obj, fn["py"])
        import copy as _copy
        r = m(*real[0]) if fn["vararg"] else m(*_copy.deepcopy(strip_omitted(real)))
        if fn.get("effect_self"):
            r = obj            # a procedure: the observation is what it did to the object
        if fn["ret"]["k"] == "obj":
            return "OK " + canon_obj(r, fn["ret"]["cls"], manifest)
        return "OK " + canon(r, fn["ret"])

    def request():
        toks = [fn["index"]]
        if adapter is not None:
            toks += adapter[1]
        if init_enc is not None:
            for ty, v in init_enc:
                toks += encode(v, ty)
            for o in init_obs:
                toks.append(OUTCOME[outcome_of(o)])
        for ty, v in enc:
            toks += encode(v, ty)
        for o in obs:
            if o[1]["k"] == "fun":
                continue              # instantiated by the driver itself (specs: DRIVER_CALLS)
            toks.append(OUTCOME[outcome_of(o)])
        return "gen " + " ".join(str(t) for t in toks)
    info = {"fn": fn["lean"], "init": repr(init_real), "args": repr(real)}
    oracle = None
    if fn["lean"] in ORACLES:
        def oracle():
            import copy
            obj = None
            if cls is not None and not fn["is_init"]:
                try:
                    obj = adapter[0]() if adapter is not None else getattr(mod, cls)(*strip_omitted(init_real))
                except Exception:
                    return None
            a = copy.deepcopy(real[0] if fn["vararg"] else strip_omitted(real))
            return ORACLES[fn["lean"]](obj, a)
    run.oracle = oracle
    return run, request, info


def run_case(run):
    try:
        return run()
    except RecursionError as e:
        return "ERR " + type(e).__name__
    except Exception as e:       # the kind of exception is the observation
        return "ERR " + type(e).__name__


def generate(seed, per_function, only_property=None, manifest=None):
    """list of (lean name, request line, python answer, info)"""
    manifest = manifest or load_manifest()
    out = []
    for fn in manifest["functions"]:
        if not fn["driver"]:
            continue
        rng = random.Random("{}/{}".format(seed, fn["lean"]))
        for _ in range(per_function):
            made = make_call(rng, fn, manifest)
            if made is None:
                break
            run, request, info = made
            ans = run_case(run)
            out.append((fn["lean"], request(), ans, info))
    return out


def main():
    import argparse
    ap = argparse.ArgumentParser()
    ap.add_argument("--seed", type=int, default=0)
    ap.add_argument("--per-function", type=int, default=300)
    a = ap.parse_args()
    cases = generate(a.seed, a.per_function)
    p = subprocess.run([DRIVER], input=("\n".join(c[1] for c in cases) + "\n").encode(), stdout=subprocess.PIPE, check=True)
    lean = p.stdout.decode().split("\n")
    bad = 0
    stats = {}
    for (name, req, ans, info), got in zip(cases, lean):
        st = stats.setdefault(name, [0, 0, 0])
        st[0] += 1
        st[1] += ans.startswith("OK")
        if got != ans:
            bad += 1
            st[2] += 1
            if bad <= 10:
                print("MISMATCH", name, info, "\n  request:", req, "\n  python :", ans[:300], "\n  lean   :", got[:300])
    for name, (n, okc, b) in stats.items():
        print("{:45s} {:5d} calls, {:5d} returned a value, {} mismatches".format(name, n, okc, b))
    skipped = [f["lean"] for f in load_manifest()["functions"] if not f["driver"]]
    if skipped:
        print("not exercised (no driver request):", ", ".join(skipped))
    return 1 if bad else 0


if __name__ == "__main__":
    sys.exit(main())
