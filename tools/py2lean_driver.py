"""Driver requests for the generated functions (`gen <index> args…`) and the manifest read by the self-test.
Encoding of an argument by declared type (all integers on one line):
  Int → i | Bool → 0/1 | Str → n c₁…cₙ | List T → n x₁…xₙ | Option T → 0 | 1 x | tuple → components |
  outcome (Except Err Unit) → 0 ok, 1 IndexError, 2 ValueError, 3 KeyError, 4 TypeError |
  abstract interface → see ABS_PARSERS of the specs | object → the arguments of its (translated) constructor
Answer: `OK <canonical value>` / `ERR <PythonExceptionName>` (canonical: py2lean_selftest.canon)."""
from py2lean_types import (TInt, TBool, TStr, TNone, TRange, TErased, TList, TOpt, TTuple, TDict, TObj, TAbs, TExc,
                           TUnion, TVar, THet, TBuilder, TFun, TEffect, TEffectClass, resolve, proj)


def ty_json(t):
    t = resolve(t)
    if isinstance(t, (TInt, TVar)):
        return {"k": "int"}
    if isinstance(t, TBool):
        return {"k": "bool"}
    if isinstance(t, TStr):
        return {"k": "str"}
    if isinstance(t, TNone):
        return {"k": "none"}
    if isinstance(t, TRange):
        return {"k": "range"}
    if isinstance(t, TErased):
        return {"k": "erased"}
    if isinstance(t, TExc):
        return {"k": "outcome"}
    if isinstance(t, TList):
        return {"k": "list", "e": ty_json(t.elem)}
    if isinstance(t, TOpt):
        return {"k": "opt", "e": ty_json(t.elem)}
    if isinstance(t, TTuple):
        return {"k": "tuple", "es": [ty_json(e) for e in t.elems]}
    if isinstance(t, TDict):
        return {"k": "dict", "key": ty_json(t.k), "val": ty_json(t.v)}
    if isinstance(t, TObj):
        return {"k": "obj", "cls": t.cls}
    if isinstance(t, TAbs):
        return {"k": "abs", "name": t.name}
    if isinstance(t, TUnion):
        return {"k": "union", "a": ty_json(t.a), "b": ty_json(t.b)}
    if isinstance(t, THet):
        return {"k": "het", "e": ty_json(t.elem), "tails": [ty_json(x) for x in t.tails]}
    if isinstance(t, TFun):
        return {"k": "fun"}
    if isinstance(t, TEffect):
        return {"k": "effect", "name": t.name}
    if isinstance(t, TEffectClass):
        return {"k": "effect_class", "name": t.name}
    if isinstance(t, TBuilder):
        return {"k": "builder", "cls": t.cls, "ctor": ty_json(t.ctor_ty()), "cmd": t.cmd, "args": ty_json(t.cmd_ty())}
    raise ValueError(t)


class NoDriver(Exception):
    pass


def parser(t, reg, specs):
    """Lean term of type `P (Except Err T)`-free parser: `P T`; objects need their constructor: handled by caller"""
    t = resolve(t)
    if isinstance(t, (TInt, TVar)):
        return "int"
    if isinstance(t, TBool):
        return "bool"
    if isinstance(t, TStr):
        return "str"
    if isinstance(t, TExc):
        return "GenUtil.outcome"
    if isinstance(t, TEffectClass):
        return "int"                      # which class renders the result: 0 = CNF, 1 = OPB
    if isinstance(t, TEffect):
        raise NoDriver("an effect object as an argument")
    if isinstance(t, TList):
        return "(listOf {})".format(parser(t.elem, reg, specs))
    if isinstance(t, TOpt):
        return "(GenUtil.opt {})".format(parser(t.elem, reg, specs))
    if isinstance(t, TTuple) and len(t.elems) >= 1:
        ps = [parser(e, reg, specs) for e in t.elems]
        out = ps[-1]
        for p in reversed(ps[:-1]):
            out = "(GenUtil.pair {} {})".format(p, out)
        return out
    if isinstance(t, THet):
        return parser(TTuple([TList(t.elem)] + t.tails), reg, specs)
    if isinstance(t, TBuilder):
        # the state of an effect object at the call: no constructor arguments, an empty log
        if t.ctor:
            raise NoDriver("no parser for a builder with constructor arguments")
        return "(pure ((), ([] : List {})))".format(t.cmd_ty().lean())
    if isinstance(t, TFun):
        raise NoDriver("function-typed parameter")
    if isinstance(t, TAbs):
        p = getattr(specs, "ABS_PARSERS", {}).get(t.name)
        if p is None:
            raise NoDriver("no parser for " + t.name)
        return p
    raise NoDriver("no parser for " + t.lean())


def shower(t, x, reg):
    """Lean String expression printing `x : t`"""
    t = resolve(t)
    if isinstance(t, (TInt, TVar)):
        return "(toString {})".format(x)
    if isinstance(t, TBool):
        return '(if {} then "True" else "False")'.format(x)
    if isinstance(t, TNone):
        return '"None"'
    if isinstance(t, TStr):
        return "(GenUtil.showStr {})".format(x)
    if isinstance(t, TRange):
        return '("range(" ++ toString ({x}).start ++ "," ++ toString ({x}).stop ++ ")")'.format(x=x)
    if isinstance(t, TList):
        return "(GenUtil.showList (fun z => {}) {})".format(shower(t.elem, "z", reg), x)
    if isinstance(t, TOpt):
        return '(match {} with | none => "None" | some z => {})'.format(x, shower(t.elem, "z", reg))
    if isinstance(t, TTuple):
        n = len(t.elems)
        if n == 0:
            return '"()"'
        return '("(" ++ ' + ' ++ "," ++ '.join(shower(e, proj(x, i, n), reg) for i, e in enumerate(t.elems)) + ' ++ ")")'
    if isinstance(t, THet):
        return shower(TTuple([TList(t.elem)] + t.tails), x, reg)
    if isinstance(t, TBuilder):
        return shower(TTuple([t.ctor_ty(), TList(t.cmd_ty())]), x, reg)
    if isinstance(t, TEffect):
        # the formula, rendered by the class the request names (`Formula.toCNF` / `toOPB` of Build/Constr.lean)
        return "(fmtFormula «CLS» (Formula.mk ({x}).numvar.toNat ({x}).cons))".format(x=x)
    if isinstance(t, TDict):
        return "(GenUtil.showList (fun z => {} ++ \":\" ++ {}) {})".format(shower(t.k, "z.1", reg), shower(t.v, "z.2", reg), x)
    if isinstance(t, TUnion):
        return "(match {} with | .inl z => {} | .inr z => {})".format(x, shower(t.a, "z", reg), shower(t.b, "z", reg))
    if isinstance(t, TObj):
        ci = reg.classes[t.cls]
        parts = []
        for f, ft in ci.fields.items():
            ft = resolve(ft)
            if isinstance(ft, (TAbs, TErased)):
                continue
            parts.append('"{}=" ++ {}'.format(f, shower(ft, "({}).{}".format(x, f), reg)))
        return '("{}(" ++ '.format(t.cls) + ' ++ "," ++ '.join(parts) + ' ++ ")")' if parts else '"{}()"'.format(t.cls)
    raise NoDriver("no printer for " + t.lean())


def fn_params(fn):
    return [(p, t) for p, t in fn.params if not isinstance(t, TErased)] + [(n, t) for n, t, _ in fn.observers]


def construct(cls, prefix, lines, reg, specs):
    """(Lean term building an object of `cls` from parsed values, whether it is `Except Err cls`)"""
    ci = reg.classes[cls]
    init = ci.methods.get("__init__")
    if init is not None:
        if init.unsupported is not None:
            raise NoDriver("no constructor")
        names = []
        for p, t in fn_params(init):
            lines.append("let {}_{} ← {}".format(prefix, p, parser(t, reg, specs)))
            names.append("{}_{}".format(prefix, p))
        return "(" + " ".join([init.lean] + names) + ")", init.monadic
    # no translated constructor: the declared fields, objects through their own constructors
    binds, fields = [], []
    for f, t in ci.fields.items():
        t = resolve(t)
        if isinstance(t, TObj):
            term, mon = construct(t.cls, "{}_{}".format(prefix, f), lines, reg, specs)
            if mon:
                binds.append(("o_{}_{}".format(prefix, f), term))
                fields.append("{} := o_{}_{}".format(f, prefix, f))
            else:
                fields.append("{} := {}".format(f, term))
        else:
            lines.append("let {}_{} ← {}".format(prefix, f, parser(t, reg, specs)))
            fields.append("{} := {}_{}".format(f, prefix, f))
    term = "(Except.ok ({{ {} }} : {}))".format(", ".join(fields), cls)
    for nm, b in reversed(binds):
        term = "({} >>= fun {} => {})".format(b, nm, term)
    return term, True


def handler(i, fn, reg, specs):
    """Lean `do` block (in P) returning the answer string for function number i, or None"""
    if fn.unsupported is not None:
        return None
    lines = []
    call_self = None
    cm = True
    if fn.self_ty is not None and not fn.is_init:
        if isinstance(fn.self_ty, TEffect):
            raise NoDriver("a procedure on an effect object (exercised through the families that call it)")
        if isinstance(fn.self_ty, TBuilder):
            call_self, cm = "(((), ([] : List {})))".format(fn.self_ty.cmd_ty().lean()), False
        else:
            call_self, cm = construct(fn.cls, "c", lines, reg, specs)
    names = []
    for p, t in fn_params(fn):
        if isinstance(resolve(t), TFun):
            term = getattr(specs, "DRIVER_CALLS", {}).get((fn.cls, p)) or getattr(specs, "DRIVER_CALLS", {}).get((None, p))
            if term is None:
                raise NoDriver("no driver term for the abstract call " + p)
            names.append(term)
            continue
        lines.append("let a_{} ← {}".format(p, parser(t, reg, specs)))
        names.append("a_" + p)
    show = shower(fn.ret, "r", reg)
    cls_params = ["a_" + p for p, t in fn.params if isinstance(t, TEffectClass)]
    show = show.replace("«CLS»", cls_params[0] if cls_params else "0")
    names = [n for n in names if n not in cls_params]
    fuel = ["1000"] if getattr(fn, "recursive", False) else []
    if call_self is None:
        call = " ".join([fn.lean] + fuel + names)
        if fn.monadic:
            body = "pure (fmtExcept (fun r => {}) ({}))".format(show, call)
        else:
            body = "pure (ok ((fun r => {}) ({})))".format(show, call)
    else:
        call = " ".join([fn.lean] + fuel + ["self"] + names)
        inner = "fmtExcept (fun r => {}) ({})".format(show, call) if fn.monadic else "ok ((fun r => {}) ({}))".format(show, call)
        if cm:
            body = "pure (match {} with | .error e => err e | .ok self => {})".format(call_self, inner)
        else:
            body = "pure (let self := {}; {})".format(call_self, inner)
    return "\n".join("    " + l for l in lines + [body])


def emit_driver(reg, specs):
    L = ["/- GENERATED by tools/py2lean.py — driver requests `gen <index> args…` for the translated functions. -/",
         "import CnfgenModel.Driver.Util", "import CnfgenModel.Core.GenUtil", "import CnfgenModel.Generated.Funcs"]
    for imp in getattr(specs, "DRIVER_IMPORTS", []):
        L.append("import " + imp)
    L += ["set_option linter.unusedVariables false", "namespace Cnfgen.Driver.GenFuncs",
          "open Cnfgen Cnfgen.Driver Cnfgen.PyGen", ""]
    cases = []
    for i, fn in enumerate(reg.order):
        try:
            h = handler(i, fn, reg, specs)
        except NoDriver as e:
            h = None
            fn.no_driver = str(e)
        if h is None:
            continue
        L.append("/-- `{}` -/".format(fn.lean))
        L.append("def h{} : P String := do\n{}\n".format(i, h))
        cases.append(i)
        fn.driver_index = i
    L.append("def handle (op : String) (a : Args) : Option String :=")
    L.append('  if op != "gen" then none else')
    L.append("  match a with")
    for i in cases:
        L.append("  | {} :: rest => some ((run h{} rest).getD \"BAD args\")".format(i, i))
    L.append('  | _ => some "BAD function"')
    L.append("\nend Cnfgen.Driver.GenFuncs")
    return "\n".join(L) + "\n"


def manifest(reg, specs):
    out = {"functions": [], "classes": {}}
    for cname, ci in reg.classes.items():
        init = ci.methods.get("__init__")
        out["classes"][cname] = {
            "fields": [[f, ty_json(t)] for f, t in ci.fields.items()],
            "init": None if init is None or init.unsupported else
            {"params": [[p, ty_json(t)] for p, t in init.params],
             "observers": [[n, ty_json(t), list(how[:2]) + [how[2]]] for n, t, how in init.observers]},
        }
    for i, fn in enumerate(reg.order):
        out["functions"].append({
            "index": i, "lean": fn.lean, "py": fn.pyname, "cls": fn.cls, "source": fn.source, "property": getattr(fn, "prop", None),
            "unsupported": fn.unsupported, "driver": getattr(fn, "driver_index", None) == i,
            "no_driver": getattr(fn, "no_driver", None),
            "monadic": fn.monadic, "is_init": fn.is_init, "vararg": fn.vararg,
            "effect_self": isinstance(fn.self_ty, TBuilder),
            "params": [[p, ty_json(t)] for p, t in fn.params],
            "observers": [[n, ty_json(t), list(how[:2]) + [how[2]]] for n, t, how in fn.observers],
            "ret": ty_json(fn.ret) if fn.ret is not None else {"k": "none"},
        })
    return out
