def emit_driver(reg, specs):
    return "-- placeholder\n"
def manifest(reg, specs):
    return {}
