#!/usr/bin/env python3
"""Regenerates MANIFEST.json from tools/manifest_data.json and what exists on disk.
A property is claimed iff lean/Props/<id>.lean and harness/props/<id>.py both exist."""
import json, os
here = os.path.dirname(os.path.dirname(os.path.abspath(__file__)))
data = json.load(open(os.path.join(here, "tools", "manifest_data.json")))
mdir = os.path.join(here, "tools", "manifest")
if os.path.isdir(mdir):
    for f in sorted(os.listdir(mdir)):
        if f.endswith(".json"):
            data[f[:-5]] = json.load(open(os.path.join(mdir, f)))
props = [json.loads(l) for l in open(os.path.join(here, "properties.jsonl"))]
checks, na = [], []
for p in props:
    pid = p["id"]
    d = data.get(pid, {})
    have = (os.path.exists(os.path.join(here, "lean", "Props", pid + ".lean")) or
            os.path.isdir(os.path.join(here, "lean", "Props", pid))) and \
        any(f == pid + ".py" or (f.startswith(pid + "_") and f.endswith(".py"))
            for f in os.listdir(os.path.join(here, "harness", "props")))
    if have and d.get("claim", True):
        checks.append({
            "property_id": pid,
            "quick_cmd": "./check {} --tier quick".format(pid),
            "thorough_cmd": "./check {} --tier thorough".format(pid),
            "evidence_file": "evidence/{}.json".format(pid),
            "replay_cmd_template": "./check {} --replay {{path}}".format(pid),
            "engine": "lean-model+correspondence",
            "level_claimed": {"category": "proof", "text": d.get("text", ""), "design_ref": d.get("design_ref", "DESIGN.md §7 " + pid)},
            "level_note": d.get("note", ""),
            "technique": d.get("technique", "Lean 4 theorems over a hand-written executable model; differential correspondence model vs /repo; Python truth-table oracle only to find a failing input"),
        })
    else:
        na.append({"property_id": pid, "reason": d.get("na_reason", "not claimed yet: the Lean model, theorems and correspondence for this property are not built; no other technique is substituted")})
man = {
    "version": 1,
    "setup_cmd": "python3 tools/extract_tables.py && python3 tools/gen_roots.py && cd lean && lake build CnfgenModel driver $(python3 ../tools/gen_roots.py --list-props)",
    "hooks": {"guard": "CNFGEN_VERIF", "enable": "none needed: all instrumentation is monkeypatching inside the harness process; the guard name is reserved and unused",
              "baseline_off_cmd": "python3 tools/baseline.py", "source_commits": [], "add_only": True},
    "engines": [{"name": "lean-model+correspondence", "path": "lean/ harness/ check",
                 "serves_properties": [c["property_id"] for c in checks],
                 "kind_free_text": "Lean 4 project (model, lemmas, property theorems, native driver) + Python differential harness + failing-input oracles"}],
    "checks": checks,
    "not_applicable": na,
    "notes": data.get("_notes", ""),
}
json.dump(man, open(os.path.join(here, "MANIFEST.json"), "w"), indent=1)
print("claimed", [c["property_id"] for c in checks])
