#!/bin/sh
# usage: tools/try_seed.sh <seed-id> <property> [tier]   — apply a kept seeded change to a scratch worktree and run one check against it
cd "$(dirname "$0")/.."
d=$(mktemp -d /tmp/tryseed-XXXXXX)
git -C /repo worktree add --detach "$d/repo" HEAD >/dev/null 2>&1 || exit 2
git -C "$d/repo" apply "$PWD/seeded/$1/patch.diff" || { echo "patch does not apply"; git -C /repo worktree remove --force "$d/repo"; rm -rf "$d"; exit 2; }
keep=$(mktemp -d /tmp/evkeep-XXXXXX); cp -r evidence "$keep/"
CNFGEN_REPO="$d/repo" ./check "$2" --tier "${3:-quick}" 2>&1 | grep -v "^KNOWN" | tail -3 | cut -c1-220
rm -rf evidence; cp -r "$keep/evidence" evidence; rm -rf "$keep"
git -C /repo worktree remove --force "$d/repo"; rm -rf "$d"
python3 tools/extract_tables.py >/dev/null 2>&1
