#!/usr/bin/env python3
"""Run the checks against the seeded mutations kept under /verif/seeded/<id>/.

usage: python3 tools/run_seeded.py [--tier quick|thorough] [id …]
For every seeded change: apply patch.diff to a scratch worktree of /repo's HEAD (default; `--in-repo` applies it to /repo
itself and reverts it afterwards), run ./check <property> with CNFGEN_REPO pointing there (and the extra properties listed in
meta.json["also"]), record exit status / VIOLATION lines, revert.  /repo must be clean.  The scratch worktree is removed at the end.
Results go to seeded/RESULTS.json (and a table on stdout).  Never run concurrently with other checks.
"""
import json
import os
import subprocess
import sys
import time

HERE = os.path.dirname(os.path.dirname(os.path.abspath(__file__)))
SEEDED = os.path.join(HERE, "seeded")


def sh(cmd, **kw):
    p = subprocess.run(cmd, stdout=subprocess.PIPE, stderr=subprocess.STDOUT, **kw)
    return p.returncode, p.stdout.decode(errors="replace")


def main():
    args = sys.argv[1:]
    tier = "quick"
    if "--tier" in args:
        i = args.index("--tier")
        tier = args[i + 1]
        del args[i:i + 2]
    in_repo = "--in-repo" in args
    if in_repo:
        args.remove("--in-repo")
    target = "/repo"
    if not in_repo:
        import tempfile
        target = os.path.join(tempfile.mkdtemp(prefix="seedrun-"), "repo")
        rc, out = sh(["git", "-C", "/repo", "worktree", "add", "--detach", target, "HEAD"])
        if rc:
            print(out); return 2
    import shutil, tempfile as _tf
    keep = _tf.mkdtemp(prefix="evidence-keep-")          # evidence written while a patch is applied is not evidence
    shutil.copytree(os.path.join(HERE, "evidence"), os.path.join(keep, "evidence"))
    try:
        return run(args, tier, target)
    finally:
        shutil.rmtree(os.path.join(HERE, "evidence"), ignore_errors=True)
        shutil.copytree(os.path.join(keep, "evidence"), os.path.join(HERE, "evidence"))
        shutil.rmtree(keep, ignore_errors=True)
        if not in_repo:
            sh(["git", "-C", "/repo", "worktree", "remove", "--force", target])
            import shutil; shutil.rmtree(os.path.dirname(target), ignore_errors=True)
            # leave the generated tables describing /repo again
            sh(["python3", os.path.join(HERE, "tools", "extract_tables.py")], cwd=HERE)


def run(args, tier, target):
    ids = args or sorted(d for d in os.listdir(SEEDED) if os.path.isdir(os.path.join(SEEDED, d)))
    rc, out = sh(["git", "-C", "/repo", "status", "--porcelain"])
    if out.strip():
        print("/repo is not clean:\n" + out)
        return 2
    results = {}
    respath = os.path.join(SEEDED, "RESULTS.json")
    if os.path.exists(respath):
        results = json.load(open(respath))
    for sid in ids:
        d = os.path.join(SEEDED, sid)
        meta = json.load(open(os.path.join(d, "meta.json")))
        props = [meta["property"]] + list(meta.get("also", []))
        if meta.get("obsolete_since"):
            print(sid, "skipped (obsolete):", meta["obsolete_since"][:90])
            results[sid] = {"applied": False, "obsolete": meta["obsolete_since"]}
            continue
        rc, out = sh(["git", "-C", target, "apply", os.path.join(d, "patch.diff")])
        if rc != 0:
            print(sid, "PATCH DOES NOT APPLY", out[:200])
            results[sid] = {"applied": False}
            continue
        try:
            entry = {"applied": True, "tier": tier, "checks": {}}
            for p in props:
                t0 = time.time()
                rc, out = sh([os.path.join(HERE, "check"), p, "--tier", tier], cwd=HERE,
                             env=dict(os.environ, CNFGEN_REPO=target, VERIF_SEED=os.environ.get("VERIF_SEED", "1")))
                viol = [l for l in out.split("\n") if l.startswith("VIOLATION")]
                entry["checks"][p] = {"exit": rc, "violations": len(viol),
                                      "with_failing_input": sum(1 for l in viol if "no-failing-input-found" not in l),
                                      "first": viol[0] if viol else "", "summary": out.strip().split("\n")[-1][:200],
                                      "wall_s": round(time.time() - t0, 1)}
            entry["caught"] = any(c["exit"] == 1 for c in entry["checks"].values())
            entry["caught_with_input"] = any(c["with_failing_input"] > 0 for c in entry["checks"].values())
            results[sid] = entry
            print("{:10s} caught={} with_input={}  {}".format(
                sid, entry["caught"], entry["caught_with_input"],
                " | ".join("{}:{}".format(p, c["summary"][:70]) for p, c in entry["checks"].items())))
        finally:
            sh(["git", "-C", target, "checkout", "--", "."])
            # new files created by a patch
            sh(["git", "-C", target, "clean", "-fdq"])
        json.dump(results, open(respath, "w"), indent=1, sort_keys=True)
    return 0


if __name__ == "__main__":
    sys.exit(main())
