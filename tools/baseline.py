#!/usr/bin/env python3
"""Run the pinned baseline suite of /repo (guard off) and compare with BASELINE.json's stable_pass list.
exit 0 iff every stable test still passes."""
import json, os, subprocess, sys, tempfile, xml.etree.ElementTree as ET
base = json.load(open("/root/.vp/BASELINE.json"))
fd, junit = tempfile.mkstemp(suffix=".xml"); os.close(fd)
cmd = base["cmd"].replace("<file>", junit)
if len(sys.argv) > 1:          # optional: path of a scratch worktree instead of /repo
    cmd = cmd.replace("cd /repo", "cd " + sys.argv[1])
env = dict(os.environ); env.pop("CNFGEN_VERIF", None)
p = subprocess.run(cmd, shell=True, stdout=subprocess.PIPE, stderr=subprocess.STDOUT, env=env)
passed = set()
for tc in ET.parse(junit).getroot().iter("testcase"):
    if not any(ch.tag in ("failure", "error", "skipped") for ch in tc):
        passed.add("{}::{}".format(tc.get("classname"), tc.get("name")))
os.unlink(junit)
missing = [t for t in base["stable_pass"] if t not in passed]
print("passed", len(passed), "stable", len(base["stable_pass"]), "missing", len(missing))
for m in missing[:30]:
    print("MISSING", m)
sys.exit(1 if missing else 0)
