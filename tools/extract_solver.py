"""Translator part for property C20: the RESOURCE SKELETON of the three interface functions of
cnfgen/utils/solver.py (`_satsolve_stdin_stdout`, `_satsolve_filein_stdout`, `_satsolve_filein_fileout`).

For each function the statements that touch the outside world — temporary files, the rendering of the formula,
the solver process, the result file, `os.unlink` — are emitted, IN SOURCE ORDER AND WITH THEIR try/except/finally
NESTING, as a term of the Lean type `RProg`:

    RProg.op o rest                          one resource call `o`, then `rest`
    RProg.tryStmt body catchOS fin rest      try: body  [except OSError: pass]  finally: fin ; then `rest`
    RProg.done

Everything else (assignments of constants, `if verbose`, the parsing of the answer, the `raise RuntimeError` /
`return` at the end) is pure and is skipped: it is modelled by Solver/Parse.lean.  A statement that contains a
call into tempfile / os / subprocess / shutil / open / a file or process method and does NOT match one of the
templates below becomes `ROp.unknown "<source>"`: the table still compiles, but the `decide` theorem
`C20.current_source_is_documented` (generated table = reviewed snapshot in Solver/Run.lean) fails, and so does it
when a `finally` disappears, an `unlink` moves, a call changes place or a handler changes.

Templates (X, Y ∈ {cnf, sat}):
    X = tempfile.NamedTemporaryFile(delete=False)                         mktemp X
    X.write(F.to_dimacs().encode("ascii"))                                render ; write X
    X.close()                                                             close X
    p = subprocess.Popen(args=cmd.split() [+ [X.name, …]], stdin=PIPE, stdout=PIPE)     spawn [X, …]
    (output, _) = p.communicate()                                         communicate false
    (output, err) = p.communicate(F.to_dimacs().encode("ascii"))          render ; communicate true
    X = open(X.name, "r", encoding='ascii', errors='replace')             openRead X
    foutput = X.read().split()                                            read X
    os.unlink(X.name)                                                     unlink X
    if X is not None: <one statement>        (X initialised to None at the top of the function)
                                             unlinkIf X  when the statement is os.unlink(X.name), alone or inside
                                             try: … except OSError: pass
    try: … [except OSError: pass] [finally: …]                            tryStmt
"""
import ast

FUNCS = ["_satsolve_stdin_stdout", "_satsolve_filein_stdout", "_satsolve_filein_fileout"]
SLOTS = {"cnf": "RSlot.cnf", "sat": "RSlot.sat"}
RES_MODULES = {"tempfile", "os", "subprocess", "shutil", "io", "pathlib"}
RES_METHODS = {"write", "close", "read", "readlines", "readline", "communicate", "flush", "wait", "kill", "terminate",
               "to_dimacs", "to_file", "unlink", "remove", "seek", "truncate"}

PREAMBLE = '''
/-! ### resource skeleton of cnfgen/utils/solver.py (tools/extract_solver.py) -/

inductive RSlot where
  | cnf | sat
  deriving DecidableEq, Repr, Inhabited

inductive ROp where
  | mktemp (s : RSlot)
  | render
  | write (s : RSlot)
  | close (s : RSlot)
  | spawn (files : List RSlot)
  | communicate (input : Bool)
  | openRead (s : RSlot)
  | read (s : RSlot)
  | unlink (s : RSlot)
  | unlinkIf (s : RSlot)
  | unknown (what : String)
  deriving DecidableEq, Repr, Inhabited

inductive RProg where
  | done
  | op (o : ROp) (rest : RProg)
  | tryStmt (body : RProg) (catchOS : Bool) (fin : RProg) (rest : RProg)
  deriving DecidableEq, Repr, Inhabited
'''


def src(node):
    try:
        return ast.unparse(node)
    except Exception:
        return "?"


def lstr(s):
    s = str(s)
    out = s.replace("\\", "\\\\").replace('"', '\\"').replace("\n", "\\n").replace("\r", "\\r").replace("\t", "\\t")
    return '"' + out + '"'


def is_resource_call(c):
    f = c.func
    if isinstance(f, ast.Name):
        return f.id == "open"
    if isinstance(f, ast.Attribute):
        root = f.value
        while isinstance(root, ast.Attribute):
            root = root.value
        if isinstance(root, ast.Name) and root.id in RES_MODULES:
            return True
        if f.attr in RES_METHODS:
            return True
    return False


def touches(node):
    return any(isinstance(n, ast.Call) and is_resource_call(n) for n in ast.walk(node))


def same(node, text):
    """structural equality with the expression / statement written as `text`"""
    try:
        want = ast.parse(text).body[0]
        if isinstance(want, ast.Expr) and not isinstance(node, ast.stmt):
            want = want.value
        return ast.dump(node) == ast.dump(want)
    except SyntaxError:
        return False


RENDER = 'F.to_dimacs().encode("ascii")'


def simple(stmt, none_init):
    """list of op terms for one simple statement, or None if it does not match a template"""
    for x in SLOTS:
        if same(stmt, "{x} = tempfile.NamedTemporaryFile(delete=False)".format(x=x)):
            return ["ROp.mktemp " + SLOTS[x]]
        if same(stmt, "{x}.write({r})".format(x=x, r=RENDER)):
            return ["ROp.render", "ROp.write " + SLOTS[x]]
        if same(stmt, "{x}.close()".format(x=x)):
            return ["ROp.close " + SLOTS[x]]
        if same(stmt, "{x} = open({x}.name, 'r', encoding='ascii', errors='replace')".format(x=x)):
            return ["ROp.openRead " + SLOTS[x]]
        if same(stmt, "foutput = {x}.read().split()".format(x=x)):
            return ["ROp.read " + SLOTS[x]]
        if same(stmt, "os.unlink({x}.name)".format(x=x)):
            return ["ROp.unlink " + SLOTS[x]]
    popen = "p = subprocess.Popen(args={a}, stdin=subprocess.PIPE, stdout=subprocess.PIPE)"
    for files in ([], ["cnf"], ["cnf", "sat"], ["sat"], ["sat", "cnf"]):
        a = "cmd.split()" + ("" if not files else " + [" + ", ".join(f + ".name" for f in files) + "]")
        if same(stmt, popen.format(a=a)):
            return ["ROp.spawn [" + ", ".join(SLOTS[f] for f in files) + "]"]
    for second in ("_", "err"):
        if same(stmt, "(output, {s}) = p.communicate()".format(s=second)):
            return ["ROp.communicate false"]
        if same(stmt, "(output, {s}) = p.communicate({r})".format(s=second, r=RENDER)):
            return ["ROp.render", "ROp.communicate true"]
    return None


def os_pass_handler(h):
    return isinstance(h.type, ast.Name) and h.type.id == "OSError" and h.name is None and \
        len(h.body) == 1 and isinstance(h.body[0], ast.Pass)


def block(stmts, none_init):
    """list of items; an item is ("op", term) or ("try", body_items, catchOS, fin_items)"""
    out = []
    for s in stmts:
        if not touches(s):
            # bookkeeping: `X = None` at this level makes `if X is not None` meaningful
            for x in SLOTS:
                if same(s, "{} = None".format(x)):
                    none_init.add(x)
            if same(s, "cnf = sat = None") or same(s, "sat = cnf = None"):
                none_init.update(SLOTS)
            continue
        if isinstance(s, ast.Try):
            ok = not s.orelse and (len(s.handlers) == 0 or (len(s.handlers) == 1 and os_pass_handler(s.handlers[0])))
            if not ok:
                out.append(("op", "ROp.unknown " + lstr("try with handlers/else outside the fragment: " + src(s)[:120])))
                continue
            out.append(("try", block(s.body, none_init), len(s.handlers) == 1, block(s.finalbody, none_init)))
            continue
        if isinstance(s, ast.If):
            done = False
            for x in SLOTS:
                if same(s.test, "{} is not None".format(x)) and not s.orelse and len(s.body) == 1 and x in none_init:
                    inner = s.body[0]
                    if same(inner, "os.unlink({}.name)".format(x)):
                        out.append(("op", "ROp.unlinkIf " + SLOTS[x]))
                        done = True
                    elif isinstance(inner, ast.Try) and not inner.orelse and not inner.finalbody and \
                            len(inner.handlers) == 1 and os_pass_handler(inner.handlers[0]) and \
                            len(inner.body) == 1 and same(inner.body[0], "os.unlink({}.name)".format(x)):
                        out.append(("try", [("op", "ROp.unlinkIf " + SLOTS[x])], True, []))
                        done = True
            if not done:
                out.append(("op", "ROp.unknown " + lstr("if: " + src(s)[:120])))
            continue
        ops = simple(s, none_init)
        if ops is None:
            out.append(("op", "ROp.unknown " + lstr(src(s)[:160])))
        else:
            out += [("op", o) for o in ops]
    return out


def term(items):
    if not items:
        return "RProg.done"
    head, rest = items[0], items[1:]
    if head[0] == "op":
        return "(RProg.op ({}) {})".format(head[1], term(rest))
    _, body, catch, fin = head
    return "(RProg.tryStmt {} {} {} {})".format(term(body), "true" if catch else "false", term(fin), term(rest))


def pretty(items, ind=2):
    """the same term, one resource call per line (readable diff when the source changes)"""
    pad = " " * ind
    if not items:
        return pad + "RProg.done"
    head, rest = items[0], items[1:]
    if head[0] == "op":
        return pad + "RProg.op ({}) <|\n".format(head[1]) + pretty(rest, ind)
    _, body, catch, fin = head
    return (pad + "RProg.tryStmt (\n" + pretty(body, ind + 4) + ")\n" + pad + "  " + ("true" if catch else "false") +
            " (\n" + pretty(fin, ind + 4) + ") <|\n" + pretty(rest, ind))


def skeletons(tree):
    found = {}
    for n in tree.body:
        if isinstance(n, ast.FunctionDef) and n.name in FUNCS:
            found[n.name] = block(n.body, set())
    return found


def wrappers(cnfio_tree):
    """how CNFio.solve / CNFio.is_satisfiable use sat_solve: (method, source of the returned expression)"""
    out = []
    for n in ast.walk(cnfio_tree):
        if isinstance(n, ast.FunctionDef) and n.name in ("solve", "is_satisfiable"):
            body = [s for s in n.body if not (isinstance(s, ast.Expr) and isinstance(s.value, ast.Constant))]
            text = "; ".join(src(s) for s in body)
            out.append((n.name, " ".join(text.split())))
    return sorted(out)


def emit(solver_tree, cnfio_tree):
    L = [PREAMBLE]
    sk = skeletons(solver_tree)
    for fn in FUNCS:
        name = "solverProg" + fn
        if fn in sk:
            L.append("/-- resource skeleton of `{}` -/".format(fn))
            L.append("def {} : RProg :=\n{}\n".format(name, pretty(sk[fn])))
        else:
            L.append("/-- `{}` not found in solver.py -/".format(fn))
            L.append("def {} : RProg := RProg.op (ROp.unknown \"function missing\") RProg.done\n".format(name))
    L.append("/-- (method of CNFio, its body without the docstring) -/")
    L.append("def solverWrappers : List (String × String) := [{}]\n".format(
        ", ".join("({}, {})".format(lstr(a), lstr(b)) for a, b in wrappers(cnfio_tree))))
    return "\n".join(L)
