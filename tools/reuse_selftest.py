#!/usr/bin/env python3
"""Self-test of the reuse-history facility of harness/common.py (LiveArg / gen_reuse_edit / value_after):
random objects of every kind and form, six owner's edits each; after every edit the harness's bookkeeping must agree
with the real object (cnfgen objects: their own views; networkx objects: what from_networkx makes of them) and DAG
histories must stay topological.  usage: PYTHONPATH=/repo:. /venv/bin/python tools/reuse_selftest.py [seed]"""
import os
import sys

sys.path[:0] = [os.environ.get("CNFGEN_REPO", "/repo"), os.path.dirname(os.path.dirname(os.path.abspath(__file__)))]
from harness import common                                              # noqa: E402
from cnfgen.graphs import Graph, DirectedGraph, BipartiteGraph          # noqa: E402

rng = common.sub_rng(int(sys.argv[1]) if len(sys.argv) > 1 else 0, "reuse-selftest")
count = {}
for trial in range(3000):
    kind = rng.choice(["simple", "digraph", "bipartite"])
    form = rng.choice(["cnfgen", "nx"])
    if kind == "bipartite":
        l, r = rng.randint(0, 4), rng.randint(0, 4)
        v = common.gvalue(kind, (l, r), [(a, b) for a in range(1, l + 1) for b in range(1, r + 1) if rng.random() < .5])
    else:
        n = rng.randint(0, 6)
        up = rng.random() < .5
        v = common.gvalue(kind, n, [(a, b) for a in range(1, n + 1) for b in range(1, n + 1)
                                    if a != b and (a < b or (kind == "digraph" and not up)) and rng.random() < .4])
    live = common.LiveArg(v, form, trial)
    dag = kind == "digraph" and all(a < b for a, b in v["edges"]) and rng.random() < .7
    for step in range(6):
        name, ops = common.gen_reuse_edit(rng, live.value, form, dag=dag)
        count[(kind, form, name)] = count.get((kind, form, name), 0) + 1
        for op in ops:
            live.apply(op)
        assert not dag or all(a < b for a, b in live.value["edges"]), (name, ops)
        K = {"simple": Graph, "digraph": DirectedGraph, "bipartite": BipartiteGraph}[kind]
        o = live.obj if form == "cnfgen" else K.from_networkx(live.obj)
        want = [tuple(e) for e in live.value["edges"]]
        if kind == "bipartite":
            assert (o.left_order(), o.right_order(), sorted(o.edges())) == (live.value["l"], live.value["r"], want), (name, ops)
        else:
            assert (o.number_of_vertices(), sorted(o.edges())) == (live.value["n"], want), (name, ops)
for k in sorted(count):
    print(*k, count[k])
print("ok")
