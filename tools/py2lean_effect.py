"""Effect objects (the formula under construction) in tools/py2lean.py.

An effect object is a Lean value of a hand-written state type (specs: EFFECTS) that is threaded through the
statements.  Its methods are either PRIMITIVES (hand-written Lean functions: `PyF.add_clause` …, declared in the specs
with their parameters and defaults) or PROCEDURES translated from the source whose `self` is the effect object
(`VariablesManager.new_mapping`, `force_complete_mapping` …; several typed variants of one Python method are allowed,
chosen by the static type of the arguments).  Effectful calls are accepted as statements and as the right-hand side of
a simple assignment (`p = F.new_mapping(…)`).
"""
import ast

from py2lean_types import (Unsupported, Impure, TInt, TBool, TStr, TNone, TRange, TErased, TList, TOpt, TTuple, TDict, TObj,
                           TAbs, TExc, TUnion, TVar, TEffect, TEffectClass, INT, BOOL, STR, NONE, RANGE, ERASED,
                           resolve, unify, join, coerce, proj)
from py2lean_expr import src, indent


class EffectMixin:
    # ------------------------------------------------------------ which expression denotes an effect object
    def effect_key(self, node, env):
        """canonical env key of the effect object `node` denotes, or None"""
        key = src(node)
        seen = set()
        while key in self.effect_alias and key not in seen:
            seen.add(key)
            key = self.effect_alias[key]
        if isinstance(node, ast.Attribute) and src(node.value) == "self" and node.attr in self.self_aliases:
            key = "self"
        if key in env and isinstance(resolve(env[key][1]), TEffect):
            return key
        return None

    def effect_call_parts(self, v, env):
        if isinstance(v, ast.Call) and isinstance(v.func, ast.Attribute):
            key = self.effect_key(v.func.value, env)
            if key is not None:
                return key, v.func.attr
        return None

    # ------------------------------------------------------------ statements
    def effect_new(self, v, env):
        """`formula_class(description=…)`"""
        if isinstance(v, ast.Call) and isinstance(v.func, ast.Name) and v.func.id in env \
                and isinstance(resolve(env[v.func.id][1]), TEffectClass):
            eff = self.reg.effects[resolve(env[v.func.id][1]).name]
            return eff["new"], TEffect(resolve(env[v.func.id][1]).name, eff["lean"])
        return None

    def effect_ctor_stmt(self, v, target, env, nxt):
        """`B = BipartiteGraph(L, R)` where the class is an effect object in this function"""
        name = v.func.id
        eff = self.reg.effects[name]
        ctor = eff["ctor"]
        if v.keywords or len(v.args) != len(ctor["params"]):
            raise Unsupported("constructor form " + src(v))
        et = TEffect(name, eff["lean"])

        def fin(vs):
            code = " ".join([ctor["lean"]] + [paren(coerce(c, t, pt)) for (c, t), pt in zip(vs, ctor["params"])])

            def after(r, _t):
                env2 = dict(env)
                env2[target.id] = (r, et)
                return nxt(env2)
            if ctor.get("raises"):
                return self.bind(code, et, after, self.lname(target.id))
            nm = self.lname(target.id)
            return "let {} := {}\n{}".format(nm, code, after(nm, None))
        return self.exprs(list(v.args), env, fin)

    def effect_stmt(self, v, target, env, nxt):
        """`recv.m(args)` (statement) or `target = recv.m(args)`"""
        key, name = self.effect_call_parts(v, env)
        recv_code, et = env[key]
        et = resolve(et)
        eff = self.reg.effects[et.name]
        prim = eff["methods"].get(name)
        if prim is not None:
            return self.effect_primitive(prim, key, v, target, env, nxt)
        variants = self.reg.effect_procs.get(et.name, {}).get(name, [])
        if self.current_method is not None and name == self.current_method.pyname and self.effect_self \
                and key == "self" and not variants:
            variants = [self.current_method]
        if not variants:
            raise Unsupported("method {} of the {} object is neither a primitive nor translated".format(name, et.name))
        return self.effect_procedure(variants, key, v, target, env, nxt)

    def bind_args(self, params, defaults, v, env, k, vararg=None, nested_lits=False):
        """evaluate the arguments of a call against (name, type) parameters; k(list of Lean codes)"""
        names = [p for p, _ in params]
        given = {}
        if any(isinstance(a, ast.Starred) for a in v.args):
            raise Unsupported("call form " + src(v))
        if vararg is not None:
            # every positional argument goes into the sequence parameter
            given[vararg] = ast.List(elts=list(v.args), ctx=ast.Load())
        elif len(v.args) > len(params):
            raise Unsupported("call form " + src(v))
        for i, a in enumerate(v.args):
            if vararg is not None:
                break
            given[names[i]] = a
        for kw in v.keywords:
            if kw.arg not in names:
                raise Unsupported("unknown keyword {} in {}".format(kw.arg, src(v)))
            given[kw.arg] = kw.value
        todo = []
        for p, t in params:
            if isinstance(t, TErased):
                continue
            node = given.get(p, defaults.get(p))
            if node is None:
                raise Unsupported("missing argument {} in {}".format(p, src(v)))
            todo.append((p, t, node))

        # the arguments are evaluated first (left to right); what the callee then does with an argument of the wrong
        # shape (a scalar where a sequence is expected: TypeError; a sequence among the literals: ValueError of the
        # checked builder methods) comes after all of them
        def late(j, vals, acc):
            if j == len(vals):
                return k(acc, given)
            c, tc, tt = vals[j]
            if isinstance(tt, TList) and isinstance(tc, (TUnion, TOpt)):
                return self.as_list(c, tc, lambda l, el: late(j, vals[:j] + [(l, TList(el), tt)] + vals[j + 1:], acc))
            if isinstance(tt, TList) and isinstance(resolve(tt.elem), TInt) and isinstance(tc, TList) \
                    and isinstance(resolve(tc.elem), TUnion) and isinstance(resolve(resolve(tc.elem).a), TInt):
                if not nested_lits:
                    raise Unsupported("a scalar-or-sequence entry in a list of literals: " + src(v))
                return self.bind("PyF.lits {}".format(paren(c)), tt, lambda l, _t: late(j + 1, vals, acc + [l]), "ls")
            return late(j + 1, vals, acc + [coerce(c, tc, tt)])

        def go(i, vals):
            if i == len(todo):
                return late(0, vals, [])
            p, t, node = todo[i]
            if not isinstance(node, ast.AST):                  # a python constant default
                node = ast.Constant(value=node)
            return self.expr(node, env, lambda c, tc: go(i + 1, vals + [(c, resolve(tc), resolve(t))]))
        return go(0, [])

    def effect_primitive(self, prim, key, v, target, env, nxt):
        params = [(p[0], p[1]) for p in prim["params"]]
        defaults = {p[0]: p[2] for p in prim["params"] if len(p) > 2}
        recv = env[key][0]

        def fin(codes, _given):
            call = " ".join([prim["lean"], recv] + [paren(c) for c in codes])
            if prim.get("ret") is not None:
                # an observer: the state is unchanged
                if target is None:
                    return nxt(env)
                if prim.get("raises"):
                    return self.bind(call, prim["ret"], lambda c, t: self.finish_assign(target, c, t, v, env, nxt), "o")
                return self.finish_assign(target, "(" + call + ")", prim["ret"], v, env, nxt)
            if target is not None:
                raise Unsupported("the result of {} is None".format(src(v)))

            def after(r, _t):
                env2 = dict(env)
                env2[key] = (r, env[key][1])
                return nxt(env2)
            if prim.get("raises", True):
                return self.bind(call, env[key][1], after, self.lname(key))
            nm = self.lname(key)
            return "let {} := {}\n{}".format(nm, call, after(nm, None))
        # `check=True` (constant or default): an entry of the literal list that is itself a list is a ValueError
        chk = [kw.value for kw in v.keywords if kw.arg == "check"]
        checked = prim.get("nested_valueerror", False) and (
            (not chk and defaults.get("check") is True and len(v.args) < 1 + [p for p, _ in params].index("check"))
            or (chk and isinstance(chk[0], ast.Constant) and chk[0].value is True))
        return self.bind_args(params, defaults, v, env, fin, nested_lits=checked)

    def effect_procedure(self, variants, key, v, target, env, nxt):
        """a translated procedure whose `self` is the effect object; the variant is chosen by the argument types"""
        last = None
        for fn in variants:
            if fn.unsupported is not None:
                last = Unsupported("callee {} is outside the subset".format(fn.lean))
                continue
            try:
                return self.effect_procedure_one(fn, key, v, target, env, nxt)
            except VariantMismatch as e:
                last = Unsupported(str(e))
        raise last or Unsupported("no variant of the procedure fits " + src(v))

    def effect_procedure_one(self, fn, key, v, target, env, nxt):
        # static dispatch on object-typed parameters
        names = [p for p, _ in fn.params]
        given = {}
        for i, a in enumerate(v.args):
            if i < len(names):
                given[names[i]] = a
        for kw in v.keywords:
            given[kw.arg] = kw.value
        for p, t in fn.params:
            t = resolve(t)
            if isinstance(t, TObj) and p in given:
                try:
                    _c, ta = self.pure_expr(given[p], env)
                except (Impure, Unsupported):
                    continue
                ta = resolve(ta)
                if isinstance(ta, TObj) and ta.cls != t.cls:
                    raise VariantMismatch("{} expects a {}".format(fn.lean, t.cls))
        recv = env[key][0]
        recursive = fn is self.current_method
        if recursive:
            self.recursive = True

        def fin(codes, given_nodes):
            obs = []
            code_of = {}
            ci = 0
            for pn, pt in fn.params:
                if isinstance(pt, TErased):
                    continue
                code_of[pn] = codes[ci]
                ci += 1
            for oname, oty, how in fn.observers:
                obs.append(self.observer_for_effect_call(fn, oname, oty, how, given_nodes, code_of))
            if recursive or getattr(fn, "recursive", False):
                raise Unsupported("recursive procedure on an effect object")
            call = " ".join([fn.lean, recv] + [paren(c) for c in codes] + obs)
            rt = resolve(fn.ret)

            def after(r, _t):
                env2 = dict(env)
                if isinstance(rt, TTuple):            # (value, state)
                    env2[key] = (proj(r, 1, 2), env[key][1])
                    if target is None:
                        return nxt(env2)
                    return self.finish_assign(target, proj(r, 0, 2), rt.elems[0], v, env2, nxt)
                env2[key] = (r, env[key][1])
                if target is not None:
                    raise Unsupported("the result of {} is None".format(src(v)))
                return nxt(env2)
            if fn.monadic:
                return self.bind(call, rt, after, "r" if isinstance(rt, TTuple) else self.lname(key))
            tmp = self.fresh("r")
            return "let {} := {}\n{}".format(tmp, call, after(tmp, None))
        return self.bind_args(list(fn.params), fn.defaults, v, env, fin, vararg=fn.vararg)

    def observer_for_effect_call(self, fn, oname, oty, how, given, code_of=None):
        """an abstract-outcome parameter of the callee (a label check): evaluated here when the label is a constant"""
        kind, pname, call_args = how
        node = given.get(pname, fn.defaults.get(pname))
        if isinstance(node, ast.Constant) and isinstance(node.value, str) and isinstance(call_args, tuple) \
                and call_args[0] == "star" and code_of is not None and call_args[1] in code_of:
            # `label.format(*seq)` with a constant label: IndexError iff seq is shorter than the label needs
            need = None
            for k in range(0, 12):
                try:
                    node.value.format(*([1] * k))
                    need = k
                    break
                except IndexError:
                    continue
                except KeyError:
                    return "(Except.error Err.keyError)"
                except ValueError:
                    return "(Except.error Err.valueError)"
            if need is None:
                raise Unsupported("label needs more than 11 arguments")
            return "(if (Py.len {}) ≥ ({} : Int) then Except.ok () else Except.error Err.indexError)".format(
                code_of[call_args[1]], need)
        if isinstance(node, ast.Constant) and isinstance(node.value, str) and isinstance(call_args, list):
            try:
                node.value.format(*call_args)
                return "(Except.ok ())"
            except IndexError:
                return "(Except.error Err.indexError)"
            except KeyError:
                return "(Except.error Err.keyError)"
            except ValueError:
                return "(Except.error Err.valueError)"
        if isinstance(node, ast.Name):
            return self.observer_param(kind, node.id, call_args)
        raise Unsupported("label argument of {} is neither a constant nor a parameter".format(fn.lean))


class VariantMismatch(Exception):
    pass


def paren(c):
    if " " in c and not (c.startswith("(") and c.endswith(")")) and not c.startswith("["):
        return "(" + c + ")"
    return c
