#!/usr/bin/env python3
"""Python-lite → Lean translator for PURE functions of cnfgen.

Reads the CURRENT source of cnfgen ($CNFGEN_REPO or /repo) with `ast` (no import, no execution) and regenerates
  lean/CnfgenModel/Generated/Funcs.lean      total Lean definitions, one per translated function / method
  lean/CnfgenModel/Driver/GenFuncs.lean      driver requests `gen <index> args…` (differential self-test)
  tools/py2lean_manifest.json                 what was translated (read by tools/py2lean_selftest.py)
What is translated is listed in tools/py2lean_specs.py.  The subset, its semantics and the trusted part are
described in notes/translator.md.  A function outside the subset becomes an `opaque` constant of the declared
type: everything still compiles, but the theorem that ties it to the hand-written model can no longer be proved,
so nothing is skipped silently.  Files are rewritten only when their content changes.
"""
import ast
import json
import os
import sys

sys.path.insert(0, os.path.dirname(os.path.abspath(__file__)))
from py2lean_types import (Unsupported, Impure, TInt, TBool, TStr, TNone, TRange, TErased, TList, TOpt,  # noqa: E402
                           TTuple, TDict, TObj, TAbs, TExc, TUnion, TVar, THet, TBuilder, TFun, TEffect, TEffectClass, INT, BOOL, STR, NONE, RANGE, ERASED,
                           resolve, unify, join, coerce, proj)
from py2lean_expr import ExprMixin, TyRef, src, indent  # noqa: E402
from py2lean_calls import CallMixin  # noqa: E402
from py2lean_stmt import StmtMixin  # noqa: E402
from py2lean_effect import EffectMixin  # noqa: E402
import py2lean_types  # noqa: E402

REPO = os.environ.get("CNFGEN_REPO", "/repo")
HERE = os.path.dirname(os.path.dirname(os.path.abspath(__file__)))
OUT = os.path.join(HERE, "lean", "CnfgenModel", "Generated", "Funcs.lean")
OUT_DRIVER = os.path.join(HERE, "lean", "CnfgenModel", "Driver", "GenFuncs.lean")
OUT_MANIFEST = os.path.join(HERE, "tools", "py2lean_manifest.json")


class FnInfo:
    def __init__(self, pyname, lean, params, vararg=None, defaults=None):
        self.pyname = pyname
        self.lean = lean
        self.params = params            # [(name, Ty)]  (self excluded)
        self.vararg = vararg
        self.defaults = defaults or {}
        self.ret = None
        self.monadic = True
        self.observers = []             # [(lean param, Ty, how)]
        self.code = None
        self.unsupported = None
        self.self_ty = None             # TObj for methods
        self.source = ""
        self.is_init = False


class ClassInfo:
    def __init__(self, name, node, bases):
        self.name = name
        self.node = node
        self.bases = bases
        self.fields = {}                # ordered: name -> Ty
        self.methods = {}               # python name -> FnInfo
        self.declared_fields = None


class Registry:
    def __init__(self):
        self.classes = {}
        self.functions = {}
        self.abstracts = {}             # abstract type -> {observer: ([param types], ret, raises)}
        self.abs_isinstance = {}
        self.order = []                 # FnInfo in emission order
        self.class_nodes = {}           # every class of the parsed files (for base-class lookup)
        self.builders = {}              # classes that are only constructed and sent commands
        self.effects = {}               # effect objects: name -> {lean, new, methods, views}
        self.effect_procs = {}          # effect name -> {python method: [FnInfo, …]} (translated procedures)
        self.abs_ctors = {}             # constructors of abstract interface objects (hand-written glue)

    def method(self, ci, name):
        return ci.methods.get(name)

    def init_of(self, cls):
        fn = self.classes[cls].methods.get("__init__")
        if fn is None:
            raise Unsupported("constructor of {} is not translated".format(cls))
        return fn

    def mro(self, clsname):
        """linearisation by single inheritance inside the parsed files"""
        out = []
        while clsname in self.class_nodes:
            node = self.class_nodes[clsname]
            out.append(node)
            bases = [b.id for b in node.bases if isinstance(b, ast.Name) and b.id in self.class_nodes]
            if len(bases) != 1:
                break
            clsname = bases[0]
        return out

    def find_method(self, clsname, meth):
        for node in self.mro(clsname):
            for b in node.body:
                if isinstance(b, ast.FunctionDef) and b.name == meth:
                    return node.name, b
        return None, None


class FnTranslator(ExprMixin, CallMixin, StmtMixin, EffectMixin):
    def __init__(self, reg, cls=None, in_init=False):
        self.reg = reg
        self.cls = cls
        self.in_init = in_init
        self.monadic = True
        self.pure_mode = False
        self.raised = 0
        self.counter = 0
        self.prefix = ""
        self.aliased = set()
        self.fresh_rows = set()         # lists whose entries are distinct fresh lists (`[[] for … in …]`)
        self.effect_self = False
        self.effect_alias = {}
        self.self_aliases = set()
        self.erased_attrs = set()
        self.assume_false = set()
        self.erased_locals = set()      # local variables holding display texts (specs: erased_locals)
        self.loop_falls = []            # continuations "end of this iteration" of the enclosing for loops
        self.effect_ctors = set()       # classes whose constructor call creates an effect object here (specs)
        self.local_defs = {}            # generator functions defined inside the function (inlined where they are called)
        self.current_method = None
        self.recursive = False
        self.returns = []
        self.ret_codes = {}
        self.observers = []

    def fresh_id(self):
        self.counter += 1
        return self.counter

    def fresh(self, hint="t"):
        return "{}{}'".format(hint, self.fresh_id())      # the prime keeps it apart from every Python identifier

    # self(...) is self.__call__(...)
    def e_Call(self, e, env, k):
        if isinstance(e.func, ast.Name) and e.func.id == "self" and self.cls is not None:
            fn = self.reg.method(self.cls, "__call__")
            if fn is None:
                raise Unsupported("__call__ is not translated")
            return self.call_function(fn, "self", e, env, k)
        return CallMixin.e_Call(self, e, env, k)

    def inline_init(self, base, call, env, nxt):
        """Base.__init__(self, a, b, …): the statements of the base constructor, on our own `self`"""
        _owner, node = self.reg.find_method(base, "__init__")
        if node is None or not self.in_init:
            raise Unsupported("base constructor " + base)
        params = [a.arg for a in node.args.args][1:]
        defaults = dict(zip(reversed(params), reversed(node.args.defaults)))
        given = {}
        for p, a in zip(params, call.args[1:]):
            given[p] = a
        for kw in call.keywords:
            given[kw.arg] = kw.value
        order = [p for p in params if p in given or p in defaults]
        if len(order) != len(params):
            raise Unsupported("missing argument of the base constructor")
        saved_prefix = self.prefix
        inner_prefix = saved_prefix + base[:1].lower() + "_"

        def fin(vs):
            env_b = {kk: v for kk, v in env.items() if kk.startswith("self.") or kk == "self"}
            lets = []
            self.prefix = inner_prefix
            for p, (c, t) in zip(order, vs):
                if isinstance(resolve(t), TErased):
                    env_b[p] = ("()", ERASED)
                    continue
                nm = self.lname(p)
                env_b[p] = (nm, t)
                lets.append("let {} := {}".format(nm, c))

            def after(env_after):
                self.prefix = saved_prefix
                env2 = dict(env)
                for kk, v in env_after.items():
                    if kk.startswith("self."):
                        env2[kk] = v
                return nxt(env2)
            body = self.block(node.body, env_b, after)
            self.prefix = saved_prefix
            return "".join(l + "\n" for l in lets) + body
        nodes = [given.get(p, defaults.get(p)) for p in order]
        return self.exprs_erasing(nodes, env, fin)

    def exprs_erasing(self, nodes, env, k, acc=None):
        acc = acc or []
        if not nodes:
            return k(acc)
        n = nodes[0]
        if self.is_erased_expr(n, env) or (isinstance(n, (ast.Name, ast.Attribute)) and src(n) in env
                                           and isinstance(env[src(n)][1], TErased)):
            return self.exprs_erasing(nodes[1:], env, k, acc + [("()", ERASED)])
        return self.expr(n, env, lambda c, t: self.exprs_erasing(nodes[1:], env, k, acc + [(c, t)]))


# ---------------------------------------------------------------------------------------------- driving
def translate_function(reg, fn, node, cls=None, declared_ret=None):
    """fills fn.code / fn.ret / fn.monadic / fn.observers, or fn.unsupported"""
    fn.source = getattr(node, "_file", "?")      # no line number: an unrelated edit of the file must not touch the output
    is_init = fn.is_init

    def attempt(monadic):
        tr = FnTranslator(reg, cls, in_init=is_init)
        tr.monadic = monadic
        env = {}
        if cls is not None:
            env["self"] = ("self", fn.self_ty)
            tr.effect_self = isinstance(fn.self_ty, (TBuilder, TEffect))
            tr.current_method = fn
            tr.self_aliases = set(getattr(fn, "self_aliases", ()))
            tr.erased_attrs = set(getattr(fn, "erased_attrs", ()))
        tr.assume_false = set(getattr(fn, "assume_false", ()))
        tr.erased_locals = set(getattr(fn, "erased_locals", ()))
        tr.effect_ctors = set(getattr(fn, "effect_ctors", ()))
        for p, t in fn.params:
            env[p] = (("()" if isinstance(t, (TErased, TEffectClass)) else p), t)
        def own_nodes(root):
            """the nodes of the function, without the bodies of the functions defined inside it"""
            for ch in ast.iter_child_nodes(root):
                if isinstance(ch, (ast.FunctionDef, ast.Lambda)):
                    continue
                yield ch
                yield from own_nodes(ch)
        is_gen = any(isinstance(n, (ast.Yield, ast.YieldFrom)) for n in own_nodes(node))
        if is_gen:
            tv = TVar()
            env["«yield»"] = ("out_", TList(tv))

        def fall(env_end):
            if is_init:
                fields = [(k[5:], v) for k, v in env_end.items() if k.startswith("self.")]
                decl = cls.declared_fields
                out = []
                for name, (c, t) in fields:
                    if isinstance(resolve(t), TErased):
                        continue
                    out.append((name, c, t))
                tr.final_fields = out
                body = "{ " + ", ".join("{} := {}".format(n, c) for n, c, _ in out) + " }"
                if decl is not None and [n for n, _, _ in out] != list(decl):
                    raise Unsupported("constructor assigns {} but {} were declared".format([n for n, _, _ in out], list(decl)))
                return tr.ret(body)
            if is_gen:
                return tr.finish_return(*env_end["«yield»"])
            if getattr(tr, "effect_self", False):
                return tr.finish_return(*env_end["self"])        # a procedure on an effect object: its final state
            return tr.finish_return("()", NONE)
        code = tr.block(node.body, env, fall)
        if is_gen:
            code = "let out_ := ([] : List {})\n".format(TyRef(tv)) + code
        return tr, code
    try:
        tr, code = attempt(True)
        if tr.raised == 0:
            tr, code = attempt(False)
        fn.monadic = tr.monadic
        fn.observers = tr.observers
        # return type
        if is_init:
            for n, c, t in tr.final_fields:
                t = resolve(t)
                if n in cls.fields and resolve(cls.fields[n]) != t:
                    raise Unsupported("field {} : {} declared as {}".format(n, t.lean(), cls.fields[n].lean()))
                cls.fields[n] = t
            fn.ret = TObj(cls.name)
        else:
            rt = None
            for key, (c, t) in tr.ret_codes.items():
                if key not in code:
                    continue
                rt = t if rt is None else (join(rt, t) or _union(rt, t))
            if rt is None:
                rt = NONE
            if declared_ret is not None:
                j = join(rt, declared_ret)
                if j is None or resolve(j) != resolve(declared_ret):
                    raise Unsupported("returns {} but {} was declared".format(resolve(rt).lean(), declared_ret.lean()))
                rt = declared_ret
            rt = resolve(rt)
            for key, (c, t) in tr.ret_codes.items():
                v = _into(c, t, rt)
                code = code.replace(key, v if v.startswith("(") or v.startswith("[") or v.replace("_", "a").replace(".", "a").isalnum() else "(" + v + ")")
            fn.ret = rt
        if getattr(tr, "recursive", False):
            fn.recursive = True
            code = "match fuel with\n| 0 => Except.error Err.recursion\n| fuel + 1 =>\n" + indent(code)
        fn.code = TyRef.subst(code)
        if "«" in fn.code:
            raise Unsupported("internal: unresolved placeholder")
    except Unsupported as u:
        fn.unsupported = str(u)
        fn.code = None
        if is_init:
            fn.ret = TObj(cls.name)
        if fn.ret is None:
            fn.ret = declared_ret
    except Impure:
        fn.unsupported = "internal: impurity analysis failed"
        fn.code = None
        if fn.ret is None:
            fn.ret = declared_ret


def _union(a, b):
    a, b = resolve(a), resolve(b)
    if isinstance(a, TUnion):
        if join(a.a, b) is not None or join(a.b, b) is not None:
            return a
        raise Unsupported("more than two return types")
    # scalar first, sequence second
    if isinstance(b, (TList, TRange)) and not isinstance(a, (TList, TRange)):
        return TUnion(a, b if isinstance(b, TList) else TList(INT))
    if isinstance(a, (TList, TRange)) and not isinstance(b, (TList, TRange)):
        return TUnion(b, a if isinstance(a, TList) else TList(INT))
    raise Unsupported("return types {} and {}".format(a.lean(), b.lean()))


def _into(c, t, rt):
    t, rt = resolve(t), resolve(rt)
    if isinstance(rt, TUnion) and not isinstance(t, TUnion):
        if join(t, rt.b) is not None and isinstance(t, (TList, TRange, TTuple)):
            return "Sum.inr {}".format(coerce(c, t, rt.b))
        return "Sum.inl {}".format(coerce(c, t, rt.a))
    if isinstance(rt, TNone):
        return "()"
    return coerce(c, t, rt)


def parse_file(reg, rel):
    path = os.path.join(REPO, rel)
    with open(path, encoding="utf-8") as fh:
        tree = ast.parse(fh.read())
    for n in ast.walk(tree):
        if isinstance(n, (ast.FunctionDef, ast.ClassDef)):
            n._file = rel
    for n in tree.body:
        if isinstance(n, ast.ClassDef):
            reg.class_nodes[n.name] = n
    return tree


def run_specs(specs):
    """specs: see tools/py2lean_specs.py"""
    reg = Registry()
    reg.abstracts = specs.ABSTRACTS
    reg.abs_isinstance = specs.ABS_ISINSTANCE
    reg.builders = getattr(specs, "BUILDERS", {})
    reg.effects = getattr(specs, "EFFECTS", {})
    reg.abs_ctors = getattr(specs, "ABS_CONSTRUCTORS", {})
    reg.identity_calls = getattr(specs, "IDENTITY_CALLS", [])
    for ename, eff in reg.effects.items():
        py2lean_types.EFFECT_VIEWS[ename] = eff.get("views", {})
    trees = {}
    for item in specs.ITEMS:
        rel = item["file"]
        if rel not in trees:
            try:
                trees[rel] = parse_file(reg, rel)
            except (OSError, SyntaxError) as e:
                trees[rel] = None
                print("py2lean: cannot parse {}: {}".format(rel, e), file=sys.stderr)
    for item in specs.ITEMS:
        tree = trees[item["file"]]
        if "class" in item:
            cname = item["class"]
            node = reg.class_nodes.get(cname)
            ci = ClassInfo(cname, node, [])
            ci.declared_fields = None
            for fname, fty in item.get("fields", {}).items():
                ci.fields[fname] = fty
            reg.classes[cname] = ci
            undeclared = None
            if ci.fields and "__init__" not in item["methods"]:
                # declared fields: the real constructor must at least assign them
                _o, init_node = (None, None) if node is None else reg.find_method(cname, "__init__")
                assigned = set()
                if init_node is not None:
                    for n in ast.walk(init_node):
                        if isinstance(n, ast.Attribute) and isinstance(n.ctx, ast.Store) and src(n.value) == "self":
                            assigned.add(n.attr)
                missing = [f for f in ci.fields if f not in assigned]
                if missing:
                    undeclared = "the constructor no longer assigns the declared field(s) " + ", ".join(missing)
            todo = []
            for meth, msp in item["methods"].items():
                for one in (msp if isinstance(msp, list) else [msp]):
                    todo.append((meth, one))
            for meth, msp in todo:
                lean = "{}.{}".format(cname, msp.get("lean", meth.strip("_")))
                fn = FnInfo(meth, lean, list(msp["params"].items()), vararg=msp.get("vararg"))
                fn.self_ty = TObj(cname)
                if item.get("self_effect"):
                    ename = item["self_effect"]
                    fn.self_ty = TEffect(ename, reg.effects[ename]["lean"])
                    fn.self_aliases = item.get("self_alias", [])
                    fn.erased_attrs = item.get("erased_attrs", [])
                    reg.effect_procs.setdefault(ename, {}).setdefault(meth, []).append(fn)
                fn.assume_false = item.get("assume_false", [])
                fn.effect_ctors = item.get("effect_ctors", [])
                if item.get("self_builder"):
                    b = reg.builders[cname]
                    fn.self_ty = TBuilder(cname, [t for t in b["ctor"] if not isinstance(t, TErased)], b["command"], b["args"])
                fn.is_init = (meth == "__init__")
                fn.ret = msp.get("ret")
                fn.cls = cname
                fn.prop = item.get("property")
                owner, mnode = (None, None) if node is None else reg.find_method(cname, meth)
                if undeclared is not None:
                    fn.unsupported = undeclared
                elif mnode is None:
                    fn.unsupported = "method {}.{} not found in the source".format(cname, meth)
                else:
                    mnode._file = getattr(reg.class_nodes[owner], "_file", item["file"])
                    pnames = [a.arg for a in mnode.args.args][1:] + ([mnode.args.vararg.arg] if mnode.args.vararg else []) \
                        + [a.arg for a in mnode.args.kwonlyargs]
                    if pnames != [p for p, _ in fn.params]:
                        fn.unsupported = "signature changed: ({}) in the source, ({}) declared".format(
                            ", ".join(pnames), ", ".join(p for p, _ in fn.params))
                    elif (mnode.args.vararg is not None) != (fn.vararg is not None) or mnode.args.kwarg:
                        fn.unsupported = "signature form changed"
                    else:
                        ps = [a.arg for a in mnode.args.args][1:]
                        fn.defaults = dict(zip(reversed(ps), reversed(mnode.args.defaults)))
                        for a, d in zip(mnode.args.kwonlyargs, mnode.args.kw_defaults):
                            if d is not None:
                                fn.defaults[a.arg] = d
                        translate_function(reg, fn, mnode, cls=ci, declared_ret=msp.get("ret"))
                if fn.is_init and fn.unsupported:
                    # the structure must exist: fall back to the declared fields
                    for fname, fty in msp.get("fields_if_unsupported", {}).items():
                        ci.fields.setdefault(fname, fty)
                ci.methods.setdefault(meth, fn)
                reg.order.append(fn)
        else:
            name = item["function"]
            fn = FnInfo(name, item.get("lean", name.lstrip("_")), list(item["params"].items()), vararg=item.get("vararg"))
            fn.ret = item.get("ret")
            fn.cls = None
            fn.prop = item.get("property")
            fn.assume_false = item.get("assume_false", [])
            fn.erased_locals = item.get("erased_locals", [])
            fn.effect_ctors = item.get("effect_ctors", [])
            node = None
            if tree is not None:
                for n in tree.body:
                    if isinstance(n, ast.FunctionDef) and n.name == name:
                        node = n
            if node is None:
                fn.unsupported = "function {} not found in {}".format(name, item["file"])
            else:
                pnames = [a.arg for a in node.args.args] + ([node.args.vararg.arg] if node.args.vararg else []) \
                    + [a.arg for a in node.args.kwonlyargs]
                if pnames != [p for p, _ in fn.params]:
                    fn.unsupported = "signature changed: ({}) in the source".format(", ".join(pnames))
                else:
                    ps = [a.arg for a in node.args.args]
                    fn.defaults = dict(zip(reversed(ps), reversed(node.args.defaults)))
                    for a, d in zip(node.args.kwonlyargs, node.args.kw_defaults):
                        if d is not None:
                            fn.defaults[a.arg] = d
                    translate_function(reg, fn, node, declared_ret=item.get("ret"))
            reg.functions[name] = fn
            reg.order.append(fn)
    return reg


# ---------------------------------------------------------------------------------------------- emission
HEADER = """/- GENERATED by tools/py2lean.py from the current cnfgen source — do not edit.
Each definition is the translation of one Python function / method (source position in its doc comment);
the semantics of every construct is `CnfgenModel/Core/Py.lean` (see notes/translator.md).
`opaque` = the function left the translated subset: the theorems tying it to the model cannot be proved. -/
import CnfgenModel.Core.Py
import CnfgenModel.Core.PyFormula
import CnfgenModel.Generated.FuncsAbs
import CnfgenModel.Vars.GenGlue
set_option linter.unusedVariables false
namespace Cnfgen.PyGen
open Cnfgen Cnfgen.Py

"""

HEADER_ABS = """/- GENERATED by tools/py2lean.py — the abstract interfaces (records of observers) of the translated functions.
They are instantiated with the model's objects by the hand-written `CnfgenModel/Vars/GenGlue.lean`. -/
import CnfgenModel.Core.Py
namespace Cnfgen.PyGen
open Cnfgen Cnfgen.Py

"""


def emit_abs(reg):
    L = [HEADER_ABS]
    for aname, obs in reg.abstracts.items():
        L.append("/-- abstract interface `{}`: the observers the translated code uses -/".format(aname))
        L.append("structure {} where".format(aname))
        for oname, (ptys, rty, raises) in obs.items():
            r = "Except Err {}".format(rty.lean()) if raises else rty.lean()
            L.append("  {} : {}".format(oname, " → ".join([t.lean() for t in ptys] + [r])))
        L.append("")
    L.append("end Cnfgen.PyGen")
    return "\n".join(L) + "\n"



def signature(fn):
    ps = []
    if getattr(fn, "recursive", False):
        ps.append("(fuel : Nat)")
    if fn.self_ty is not None and not fn.is_init:
        ps.append("(self : {})".format(fn.self_ty.lean()))
    for p, t in fn.params:
        if isinstance(t, (TErased, TEffectClass)):
            continue
        ps.append("({} : {})".format(p, t.lean()))
    for n, t, _how in fn.observers:
        ps.append("({} : {})".format(n, t.lean()))
    return " ".join(ps)


def ret_type(fn):
    t = fn.ret.lean() if fn.ret is not None else "Unit"
    return "Except Err {}".format(t) if fn.monadic else t


def emit(reg):
    L = [HEADER]
    done_structs = set()

    def struct(ci):
        if ci.name in done_structs:
            return
        done_structs.add(ci.name)
        L.append("/-- fields of `{}` (assigned by its constructor) -/".format(ci.name))
        L.append("structure {} where".format(ci.name))
        if not ci.fields:
            L.append("  mk ::")
        for f, t in ci.fields.items():
            L.append("  {} : {}".format(f, resolve(t).lean()))
        L.append("")
    for fn in reg.order:
        if fn.cls is not None:
            struct(reg.classes[fn.cls])
        if fn.unsupported is not None:
            L.append("/-- `{}` ({}) — OUTSIDE THE TRANSLATED SUBSET: {} -/".format(
                fn.pyname, fn.source, fn.unsupported.replace("-/", "- /")))
            if fn.ret is None:
                fn.ret = NONE
            fn.monadic = True
            sig = signature(fn)
            L.append("opaque {}{} : {}\n".format(fn.lean, (" " + sig) if sig else "", ret_type(fn)))
        else:
            L.append("/-- `{}` ({}) -/".format(fn.pyname if fn.cls is None else fn.cls + "." + fn.pyname, fn.source))
            sig = signature(fn)
            L.append("def {}{} : {} :=".format(fn.lean, (" " + sig) if sig else "", ret_type(fn)))
            L.append(indent(fn.code))
            L.append("")
    L.append("/-- names of the functions that left the translated subset (empty when all is well) -/")
    L.append("def unsupportedFunctions : List String := [{}]\n".format(
        ", ".join('"{}"'.format(fn.lean) for fn in reg.order if fn.unsupported is not None)))
    L.append("end Cnfgen.PyGen")
    return "\n".join(L) + "\n"


def write_if_changed(path, text):
    os.makedirs(os.path.dirname(path), exist_ok=True)
    if os.path.exists(path) and open(path, encoding="utf-8").read() == text:
        return False
    with open(path, "w", encoding="utf-8") as fh:
        fh.write(text)
    return True


def elaboration_errors(text):
    """lines of `text` (as Generated/Funcs.lean) on which Lean reports an error; None if Lean cannot be asked"""
    import re
    import shutil
    import subprocess
    import tempfile
    if shutil.which("lake") is None:
        return None
    lean_dir = os.path.join(HERE, "lean")
    d = tempfile.mkdtemp(prefix="py2lean-", dir=os.path.join(lean_dir, ".lake") if os.path.isdir(os.path.join(lean_dir, ".lake")) else None)
    try:
        f = os.path.join(d, "FuncsCheck.lean")
        with open(f, "w", encoding="utf-8") as fh:
            fh.write(text)
        try:
            p = subprocess.run(["lake", "env", "lean", f], cwd=lean_dir, stdout=subprocess.PIPE, stderr=subprocess.STDOUT, timeout=300)
        except (OSError, subprocess.TimeoutExpired):
            return None
        out = p.stdout.decode(errors="replace")
        if "does not exist" in out and "object file" in out:
            return None                  # the run-time library is not built yet (first setup): lake build will tell
        errs = []
        for m in re.finditer(r"FuncsCheck\.lean:(\d+):(\d+): error[^:]*: ([^\n]*)", out):
            errs.append((int(m.group(1)), m.group(3)))
        return errs
    finally:
        shutil.rmtree(d, ignore_errors=True)


def emit_checked(reg):
    """emit; a definition Lean rejects (an edit of the source that makes the translation ill-typed) becomes an
    opaque marker too, so that the model and the driver always build and only the owning theorems break"""
    text = emit(reg)
    if os.path.exists(OUT) and open(OUT, encoding="utf-8").read() == text:
        return text                      # unchanged since it was last checked and built
    for _ in range(6):
        errs = elaboration_errors(text)
        if not errs:
            break
        lines = text.split("\n")
        starts = {}
        for fn in reg.order:
            if fn.unsupported is None:
                key = "def {} ".format(fn.lean)
                alt = "def {} :".format(fn.lean)
                for i, l in enumerate(lines):
                    if l.startswith(key) or l.startswith(alt):
                        starts[i + 1] = fn
        hit = False
        for ln, msg in errs:
            owner = None
            for st in sorted(starts):
                if st <= ln:
                    owner = starts[st]
            if owner is not None and owner.unsupported is None:
                owner.unsupported = "the translation does not elaborate: " + msg[:160]
                hit = True
        if not hit:
            break
        text = emit(reg)
    return text


def main():
    import py2lean_specs as specs
    reg = run_specs(specs)
    write_if_changed(os.path.join(os.path.dirname(OUT), "FuncsAbs.lean"), emit_abs(reg))
    text = emit_checked(reg)
    write_if_changed(OUT, text)
    import py2lean_driver
    if "--show" in sys.argv:
        print(text)
    write_if_changed(OUT_DRIVER, py2lean_driver.emit_driver(reg, specs))
    write_if_changed(OUT_MANIFEST, json.dumps(py2lean_driver.manifest(reg, specs), indent=1, sort_keys=True) + "\n")
    bad = [fn for fn in reg.order if fn.unsupported is not None]
    for fn in bad:
        print("py2lean: {} is outside the subset: {}".format(fn.lean, fn.unsupported), file=sys.stderr)
    return 0


if __name__ == "__main__":
    sys.exit(main())
