"""Types of the Python-lite subset handled by tools/py2lean.py and their Lean renderings."""


class Unsupported(Exception):
    """construct outside the subset: the function becomes an opaque marker"""


class Impure(Exception):
    """raised in pure mode when an expression needs a monadic bind"""


class Ty:
    def lean(self):
        raise NotImplementedError

    def __eq__(self, o):
        return type(self) is type(o) and self.__dict__ == o.__dict__

    def __hash__(self):
        return hash(repr(self))

    def __repr__(self):
        return self.lean()


class TInt(Ty):
    def lean(self):
        return "Int"


class TBool(Ty):
    def lean(self):
        return "Bool"


class TStr(Ty):
    def lean(self):
        return "String"


class TNone(Ty):
    """the type of the literal None before it is joined with something"""
    def lean(self):
        return "Unit"


class TRange(Ty):
    def lean(self):
        return "Py.Range"


class TErased(Ty):
    """values the translation abstracts away (label format strings): never rendered"""
    def lean(self):
        raise Unsupported("erased value used")


class TList(Ty):
    def __init__(self, elem):
        self.elem = elem

    def lean(self):
        return "(List {})".format(self.elem.lean())


class TOpt(Ty):
    def __init__(self, elem):
        self.elem = elem

    def lean(self):
        return "(Option {})".format(self.elem.lean())


class TTuple(Ty):
    def __init__(self, elems):
        self.elems = list(elems)

    def lean(self):
        if not self.elems:
            return "Unit"
        return "(" + " × ".join(e.lean() for e in self.elems) + ")"


class TDict(Ty):
    def __init__(self, k, v):
        self.k, self.v = k, v

    def lean(self):
        return "(List ({} × {}))".format(self.k.lean(), self.v.lean())


class TObj(Ty):
    """instance of a translated class (a generated structure)"""
    def __init__(self, cls):
        self.cls = cls

    def lean(self):
        return self.cls


class TAbs(Ty):
    """abstract interface object: a hand-declared record of observers"""
    def __init__(self, name):
        self.name = name

    def lean(self):
        return self.name


class TExc(Ty):
    """outcome of an abstract call that may raise: Except Err Unit"""
    def lean(self):
        return "(Except Err Unit)"


class TFun(Ty):
    """an abstract callable handed to the translated function (an observer that takes arguments)"""
    def __init__(self, args, ret, raises):
        self.args, self.ret, self.raises = list(args), ret, raises

    def lean(self):
        r = "Except Err {}".format(self.ret.lean()) if self.raises else self.ret.lean()
        return "(" + " → ".join([a.lean() for a in self.args] + [r]) + ")"


class TUnion(Ty):
    """value of one of two types (a function returning a scalar or a sequence): Lean `Sum`"""
    def __init__(self, a, b):
        self.a, self.b = a, b

    def lean(self):
        return "(Sum {} {})".format(self.a.lean(), self.b.lean())


class THet(Ty):
    """a Python list used as a record: a homogeneous prefix followed by a fixed tail of other values
    (`[(c, l), …, op, value]`): Lean `(List elem × t₁ × … × tₙ)`"""
    def __init__(self, elem, tails):
        self.elem, self.tails = elem, list(tails)

    def lean(self):
        return "(" + " × ".join([TList(self.elem).lean()] + [t.lean() for t in self.tails]) + ")"


class TBuilder(Ty):
    """an object that is only constructed and then sent commands (`D = DirectedGraph(n, name)`, `D.add_edge(u, v)`):
    the constructor arguments and the log of the commands, in order"""
    def __init__(self, cls, ctor, cmd, cmd_types):
        self.cls, self.ctor, self.cmd, self.cmd_types = cls, list(ctor), cmd, list(cmd_types)

    def ctor_ty(self):
        return TTuple(self.ctor) if len(self.ctor) != 1 else self.ctor[0]

    def cmd_ty(self):
        return TTuple(self.cmd_types) if len(self.cmd_types) != 1 else self.cmd_types[0]

    def lean(self):
        return "({} × (List {}))".format(self.ctor_ty().lean(), self.cmd_ty().lean())


class TEffect(Ty):
    """an object with state that the translated code changes by calling its methods (the formula under construction):
    a Lean value of a hand-written state type, threaded through the statements"""
    def __init__(self, name, lean_ty):
        self.name, self.lean_ty = name, lean_ty

    def lean(self):
        return self.lean_ty


class TEffectClass(Ty):
    """a class argument (`formula_class`) whose only use is to create the effect object"""
    def __init__(self, name):
        self.name = name

    def lean(self):
        raise Unsupported("class argument used as a value")


class TMaybe(Ty):
    """a local variable that is assigned on some paths only (reading it elsewhere is UnboundLocalError)"""
    def __init__(self, elem):
        self.elem = elem

    def lean(self):
        return "(Option {})".format(self.elem.lean())


class TVar(Ty):
    """unification variable (element type of `[]` before the first append)"""
    count = 0

    def __init__(self):
        TVar.count += 1
        self.id = TVar.count
        self.ref = None

    def lean(self):
        t = resolve(self)
        if isinstance(t, TVar):
            return "Int"        # never constrained: any inhabited type will do
        return t.lean()

    def __eq__(self, o):
        return self is o

    def __hash__(self):
        return id(self)


EFFECT_VIEWS = {}        # effect name -> {abstract interface: Lean template}, filled from the specs

INT, BOOL, STR, NONE, RANGE, ERASED = TInt(), TBool(), TStr(), TNone(), TRange(), TErased()


def resolve(t):
    while isinstance(t, TVar) and t.ref is not None:
        t = t.ref
    if isinstance(t, TList):
        return TList(resolve(t.elem))
    if isinstance(t, TOpt):
        return TOpt(resolve(t.elem))
    if isinstance(t, TTuple):
        return TTuple([resolve(e) for e in t.elems])
    if isinstance(t, TDict):
        return TDict(resolve(t.k), resolve(t.v))
    if isinstance(t, THet):
        return THet(resolve(t.elem), [resolve(x) for x in t.tails])
    if isinstance(t, TMaybe):
        return TMaybe(resolve(t.elem))
    return t


def unify(a, b):
    """make a and b equal by binding type variables; False if impossible"""
    a, b = _head(a), _head(b)
    if a is b:
        return True
    if isinstance(a, TVar):
        a.ref = b
        return True
    if isinstance(b, TVar):
        b.ref = a
        return True
    if type(a) is not type(b):
        return False
    if isinstance(a, (TList, TOpt)):
        return unify(a.elem, b.elem)
    if isinstance(a, TTuple):
        return len(a.elems) == len(b.elems) and all(unify(x, y) for x, y in zip(a.elems, b.elems))
    if isinstance(a, TDict):
        return unify(a.k, b.k) and unify(a.v, b.v)
    return a == b


def _head(t):
    while isinstance(t, TVar) and t.ref is not None:
        t = t.ref
    return t


def join(a, b):
    """least type both can be coerced to, or None"""
    a, b = _head(a), _head(b)
    if isinstance(a, TVar) or isinstance(b, TVar):
        return a if unify(a, b) else None
    if a == b:
        return a
    if isinstance(a, TMaybe) or isinstance(b, TMaybe):
        ia = a.elem if isinstance(a, TMaybe) else a
        ib = b.elem if isinstance(b, TMaybe) else b
        j = join(ia, ib)
        return TMaybe(j) if j is not None else None
    if isinstance(a, TNone):
        return b if isinstance(b, TOpt) else TOpt(b)
    if isinstance(b, TNone):
        return a if isinstance(a, TOpt) else TOpt(a)
    if isinstance(a, TOpt) and not isinstance(b, TOpt):
        j = join(a.elem, b)
        return TOpt(j) if j is not None else None
    if isinstance(b, TOpt) and not isinstance(a, TOpt):
        j = join(a, b.elem)
        return TOpt(j) if j is not None else None
    if isinstance(a, TOpt) and isinstance(b, TOpt):
        j = join(a.elem, b.elem)
        return TOpt(j) if j is not None else None
    if isinstance(a, TList) and isinstance(b, TList):
        j = join(a.elem, b.elem)
        return TList(j) if j is not None else None
    if isinstance(a, TRange) and isinstance(b, TList):
        return b if unify(b.elem, INT) else None
    if isinstance(b, TRange) and isinstance(a, TList):
        return a if unify(a.elem, INT) else None
    if isinstance(a, TRange) and isinstance(b, TTuple) and all(unify(e, INT) for e in b.elems):
        return TList(INT)
    if isinstance(b, TRange) and isinstance(a, TTuple) and all(unify(e, INT) for e in a.elems):
        return TList(INT)
    if isinstance(a, TTuple) and isinstance(b, TList) and all(unify(e, b.elem) for e in a.elems):
        return b
    if isinstance(b, TTuple) and isinstance(a, TList) and all(unify(e, a.elem) for e in b.elems):
        return a
    if isinstance(a, TTuple) and isinstance(b, TTuple) and len(a.elems) == len(b.elems):
        js = [join(x, y) for x, y in zip(a.elems, b.elems)]
        return TTuple(js) if all(j is not None for j in js) else None
    # scalar-or-sequence ⊔ one of its two components
    if isinstance(a, TUnion) and (resolve(a.a) == b or resolve(a.b) == b):
        return a
    if isinstance(b, TUnion) and (resolve(b.a) == a or resolve(b.b) == a):
        return b
    return None


def coerce(code, frm, to):
    """Lean code of `code : frm` seen as `to` (frm must join into to)"""
    frm, to = resolve(frm), resolve(to)
    if isinstance(to, TUnion) and not isinstance(frm, (TUnion, TVar)):
        if resolve(to.a) == frm:
            return "(Sum.inl {})".format(code)
        if resolve(to.b) == frm:
            return "(Sum.inr {})".format(code)
    if isinstance(frm, TBool) and isinstance(to, TInt):
        # a bool used as a number (bool is a subclass of int: True == 1)
        return "(if {} = true then (1 : Int) else (0 : Int))".format(code)
    if frm == to or isinstance(frm, TVar) or isinstance(to, TVar):
        unify(frm, to)
        return code
    if isinstance(frm, TEffect) and isinstance(to, TAbs) and to.name in EFFECT_VIEWS.get(frm.name, {}):
        return EFFECT_VIEWS[frm.name][to.name].format(c=code)
    if isinstance(to, TMaybe):
        if isinstance(frm, TMaybe):
            if frm.elem == to.elem:
                return code
            return "(({}).map (fun z => {}))".format(code, coerce("z", frm.elem, to.elem))
        return "(some {})".format(coerce(code, frm, to.elem))
    if isinstance(to, TOpt):
        if isinstance(frm, TNone):
            return "(none : {})".format(to.lean())
        if isinstance(frm, TOpt):
            if frm.elem == to.elem:
                return code
            return "(({}).map (fun z => {}))".format(code, coerce("z", frm.elem, to.elem))
        return "(some {})".format(coerce(code, frm, to.elem))
    if isinstance(to, TList):
        if isinstance(frm, TRange):
            return "(Py.Range.toList {})".format(code)
        if isinstance(frm, TTuple):
            n = len(frm.elems)
            return "[" + ", ".join(coerce(proj(code, i, n), frm.elems[i], to.elem) for i in range(n)) + "]"
        if isinstance(frm, TList):
            if isinstance(resolve(frm.elem), TVar) or frm.elem == to.elem:
                unify(frm.elem, to.elem)
                return code
            return "(({}).map (fun z => {}))".format(code, coerce("z", frm.elem, to.elem))
    if isinstance(to, TTuple) and isinstance(frm, TTuple) and len(to.elems) == len(frm.elems):
        n = len(to.elems)
        return "(" + ", ".join(coerce(proj(code, i, n), frm.elems[i], to.elems[i]) for i in range(n)) + ")"
    raise Unsupported("cannot see {} as {}".format(frm.lean(), to.lean()))


def proj(code, i, n):
    """i-th component (0-based) of an n-tuple (right-nested pairs)"""
    if n == 1:
        return code
    s = "({})".format(code) if not _atomic(code) else code
    for _ in range(i):
        s += ".2"
    if i < n - 1:
        s += ".1"
    return s


def _atomic(code):
    return code.replace("_", "a").replace(".", "a").replace("'", "a").isalnum()


def iter_elem(t):
    """element type when iterating over a value of type t, and the list view of the value"""
    t = resolve(t)
    if isinstance(t, TList):
        return t.elem, (lambda c: c)
    if isinstance(t, TRange):
        return INT, (lambda c: "(Py.Range.toList {})".format(c))
    if isinstance(t, TTuple) and t.elems and all(e == t.elems[0] for e in t.elems):
        return t.elems[0], (lambda c: coerce(c, t, TList(t.elems[0])))
    if isinstance(t, TDict):
        return t.k, (lambda c: "(({}).map (·.1))".format(c))
    raise Unsupported("iteration over " + t.lean())
