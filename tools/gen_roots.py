#!/usr/bin/env python3
"""Regenerates the root files of the Lean project from what is on disk:
  lean/CnfgenModel.lean                                      (import list; stale Lemmas.lean / Props.lean roots are removed:
                                                              lemma and property modules are built module by module)
  lean/Main.lean                                             (driver: one handler per Driver/<Name>.lean)
Files are rewritten only when their content changes (keeps lake's cache valid)."""
import os
here = os.path.dirname(os.path.dirname(os.path.abspath(__file__)))
lean = os.path.join(here, "lean")

def modules(sub):
    out = []
    for root, dirs, files in os.walk(os.path.join(lean, sub)):
        dirs.sort()
        for f in sorted(files):
            if f.endswith(".lean"):
                rel = os.path.relpath(os.path.join(root, f), lean)[:-5]
                out.append(rel.replace(os.sep, "."))
    return sorted(out)

def write(path, text):
    if os.path.exists(path) and open(path).read() == text:
        return
    with open(path, "w") as fh:
        fh.write(text)

# Only the model has a root (it is one program: the driver).  Lemma and property files are built
# module by module (`lake build Props.C01.Php …`): files written for different properties are never
# imported together, so they need no global name discipline.
write(os.path.join(lean, "CnfgenModel.lean"), "".join("import {}\n".format(m) for m in modules("CnfgenModel")))
for stale in ("Lemmas.lean", "Props.lean"):
    if os.path.exists(os.path.join(lean, stale)):
        os.remove(os.path.join(lean, stale))
if "--list-props" in __import__("sys").argv:
    print(" ".join(modules("Props")))

drivers = [m.split(".")[-1] for m in modules("CnfgenModel/Driver") if not m.endswith(".Util")]
main = "import CnfgenModel\n" + "open Cnfgen Cnfgen.Driver\n\n"
main += "def handlers : List (String → Args → Option String) := [" + ", ".join(d + ".handle" for d in drivers) + "]\n"
main += '''
def dispatch (line : String) : String :=
  match (line.splitOn " ").filter (· ≠ "") with
  | [] => "BAD empty"
  | opname :: rest =>
    match rest.mapM String.toInt? with
    | none => "BAD args"
    | some a =>
      match handlers.findSome? (fun h => h opname a) with
      | some r => r
      | none => "BAD op"

partial def loop (hin : IO.FS.Stream) (hout : IO.FS.Stream) : IO Unit := do
  let line ← hin.getLine
  if line.isEmpty then return ()
  hout.putStrLn (dispatch line.trimAscii.toString)
  loop hin hout

def main : IO Unit := do
  let hin ← IO.getStdin
  let hout ← IO.getStdout
  loop hin hout
  hout.flush
'''
write(os.path.join(lean, "Main.lean"), main)
