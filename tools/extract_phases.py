#!/usr/bin/env python3
"""Translator, C07 part: regenerates lean/CnfgenModel/Generated/Phases.lean from the CURRENT source of cnfgen
(path: $CNFGEN_REPO or /repo) with Python's `ast` (no import, no execution).  Called by tools/extract_tables.py.

What is extracted (all of it data; the theorems over it are closed by `decide +kernel`):

  * toolPhases      — for cnfgen, pbgen, cnfshuffle, kthlist2pebbling: the `--seed` option (type=, action=, and what the
                      action class does in `__call__`: stores the value / calls random.seed(values) / draws) and the ORDER
                      of the phase events of `cli()`: parse, random.seed(...) with its guard and argument, reading the
                      input, build_formula, the transform_cnf loop, Shuffle, header['random seed'] with its guard,
                      header['command line'], every output call, and every other direct `random.*` call of `cli()`
  * randomSites     — every call of a function of the `random` module (and of the networkx generators that draw from the
                      module-level generator) in cnfgen/**: file, enclosing function, callee, and the ROOTS it is reachable
                      from in a name-based (over-approximating) call graph: `import` (module level), `setup` (what cli() runs
                      before parsing), `topaction` (an argparse action of a tool's own option), `action` (an argparse action
                      of a sub-command: graph arguments), `build` (build_formula), `transform` (transform_cnf), `cli`
  * graphArguments  — where graph arguments are materialised: every add_argument(..., action=<Action class>) of the
                      helpers, with the class; and for every Action class whether `__call__` calls make_graph_from_spec
  * seededGenerators— every function of cnfgen/** with a parameter `seed`: the guard of its `random.seed(seed)` and
                      whether that statement precedes everything that can draw
  * hazards         — static sources of process dependence (see HAZARD KINDS below)
The file is only rewritten when its content changes.
"""
import ast
import os
import sys

REPO = os.environ.get("CNFGEN_REPO", "/repo")
HERE = os.path.dirname(os.path.dirname(os.path.abspath(__file__)))
OUT = os.path.join(HERE, "lean", "CnfgenModel", "Generated", "Phases.lean")

TOOLS = (("cnfgen", "cnfgen/clitools/cnfgen.py"), ("pbgen", "cnfgen/clitools/pbgen.py"),
         ("cnfshuffle", "cnfgen/clitools/cnfshuffle.py"), ("kthlist2pebbling", "cnfgen/clitools/kthlist2pebbling.py"))

# functions of the module `random` that consume the generator (seed / getstate / setstate do not)
DRAW_FNS = {"random", "randint", "randrange", "choice", "choices", "sample", "shuffle", "getrandbits", "uniform",
            "gauss", "betavariate", "expovariate", "gammavariate", "lognormvariate", "normalvariate", "paretovariate",
            "triangular", "vonmisesvariate", "weibullvariate", "randbytes", "binomialvariate"}
OUTPUT_ATTRS = {"to_file", "to_dimacs", "to_latex", "to_opb"}


def lstr(s):
    s = str(s)
    out = s.replace("\\", "\\\\").replace('"', '\\"').replace("\n", "\\n").replace("\r", "\\r").replace("\t", "\\t")
    return '"' + out + '"'


def llist(xs, f=lstr):
    return "[" + ", ".join(f(x) for x in xs) + "]"


def lbool(b):
    return "true" if b else "false"


def src(node):
    try:
        return " ".join(ast.unparse(node).split())
    except Exception:
        return "?"


def read(rel):
    with open(os.path.join(REPO, rel), encoding="utf-8") as fh:
        return fh.read()


def parse(rel):
    return ast.parse(read(rel))


def package_files():
    out = []
    base = os.path.join(REPO, "cnfgen")
    for root, dirs, files in os.walk(base):
        dirs[:] = sorted(d for d in dirs if d != "__pycache__")
        for f in sorted(files):
            if f.endswith(".py"):
                out.append(os.path.relpath(os.path.join(root, f), REPO).replace(os.sep, "/"))
    return sorted(out)


# ---------------------------------------------------------------- names bound to the `random` module
class Mod:
    """one module: its tree, which local names denote the module `random` / functions of it / networkx"""

    def __init__(self, rel):
        self.rel = rel
        self.tree = parse(rel)
        self.random_names = set()      # names bound to the module random (import random [as r])
        self.random_fns = {}           # local name -> function of random (from random import sample [as s])
        self.nx_names = set()          # names bound to networkx
        self.nx_fns = {}               # local name -> networkx function
        for n in ast.walk(self.tree):
            if isinstance(n, ast.Import):
                for a in n.names:
                    if a.name == "random":
                        self.random_names.add(a.asname or "random")
                    if a.name == "networkx" or a.name.startswith("networkx."):
                        self.nx_names.add((a.asname or a.name).split(".")[0])
            elif isinstance(n, ast.ImportFrom) and n.module:
                if n.module == "random":
                    for a in n.names:
                        self.random_fns[a.asname or a.name] = a.name
                if n.module == "networkx" or n.module.startswith("networkx."):
                    for a in n.names:
                        self.nx_fns[a.asname or a.name] = a.name


def random_call(mod, call):
    """`random.<fn>(...)` / `<fn imported from random>(...)` / a networkx random generator: callee name or None"""
    f = call.func
    if isinstance(f, ast.Attribute) and isinstance(f.value, ast.Name) and f.value.id in mod.random_names:
        return "random." + f.attr
    if isinstance(f, ast.Name) and f.id in mod.random_fns:
        return "random." + mod.random_fns[f.id]
    # random.Random(...) instances and their methods are hazards (see below), not sites of the module-level generator
    if isinstance(f, ast.Attribute) and "random" in f.attr and isinstance(f.value, ast.Name) and f.value.id in mod.nx_names:
        if not any(k.arg == "seed" for k in call.keywords):
            return "networkx." + f.attr
    if isinstance(f, ast.Name) and f.id in mod.nx_fns and "random" in mod.nx_fns[f.id]:
        if not any(k.arg == "seed" for k in call.keywords):
            return "networkx." + mod.nx_fns[f.id]
    return None


def is_draw(callee):
    if callee.startswith("networkx."):
        return True
    return callee.split(".", 1)[1] in DRAW_FNS


# ---------------------------------------------------------------- functions, call graph
class Fn:
    def __init__(self, mod, qual, node, cls=None):
        self.mod, self.qual, self.node, self.cls = mod, qual, node, cls
        self.calls = set()     # simple names called
        self.sites = []        # (callee, src) direct random calls
        self.key = mod.rel + "::" + qual


def own_nodes(node):
    """nodes of a function body, without descending into nested function / class definitions"""
    stack = list(ast.iter_child_nodes(node))
    while stack:
        n = stack.pop()
        yield n
        if isinstance(n, (ast.FunctionDef, ast.AsyncFunctionDef, ast.ClassDef, ast.Lambda)):
            if isinstance(n, ast.Lambda):
                stack.extend(ast.iter_child_nodes(n))
            continue
        stack.extend(ast.iter_child_nodes(n))


def collect_functions(mods):
    fns = []

    def visit(mod, node, prefix, cls):
        for ch in ast.iter_child_nodes(node):
            if isinstance(ch, (ast.FunctionDef, ast.AsyncFunctionDef)):
                f = Fn(mod, prefix + ch.name, ch, cls)
                fns.append(f)
                visit(mod, ch, prefix + ch.name + ".", None)
            elif isinstance(ch, ast.ClassDef):
                visit(mod, ch, prefix + ch.name + ".", ch)
            elif isinstance(ch, (ast.If, ast.Try, ast.With, ast.For, ast.While)):
                visit(mod, ch, prefix, cls)
    for mod in mods:
        visit(mod, mod.tree, "", None)
    for f in fns:
        for n in own_nodes(f.node):
            if isinstance(n, ast.Call):
                rc = random_call(f.mod, n)
                if rc is not None:
                    f.sites.append((rc, src(n)))
                    continue
                if isinstance(n.func, ast.Name):
                    f.calls.add(n.func.id)
                elif isinstance(n.func, ast.Attribute):
                    f.calls.add(n.func.attr)
            # a function passed as a value (callbacks, tables of constructions) counts as called
            elif isinstance(n, ast.Name) and isinstance(n.ctx, ast.Load):
                f.calls.add(n.id)
        # functions nested directly in the body are reachable from the enclosing one (methods of a class defined
        # inside a function are not: they run when the object is used)
        stack = list(ast.iter_child_nodes(f.node))
        while stack:
            ch = stack.pop()
            if isinstance(ch, ast.ClassDef):
                continue
            if isinstance(ch, (ast.FunctionDef, ast.AsyncFunctionDef)):
                f.calls.add(ch.name)
                continue
            stack.extend(ast.iter_child_nodes(ch))
        f.calls = {c for c in f.calls if not (c.startswith("__") and c.endswith("__"))}
    return fns


def module_level(mod):
    """(names called, random sites) of the statements executed at import time"""
    calls, sites = set(), []
    for st in mod.tree.body:
        if isinstance(st, (ast.FunctionDef, ast.AsyncFunctionDef, ast.ClassDef, ast.Import, ast.ImportFrom)):
            if isinstance(st, ast.ClassDef):
                for b in st.body:
                    if not isinstance(b, (ast.FunctionDef, ast.AsyncFunctionDef)):
                        for n in ast.walk(b):
                            if isinstance(n, ast.Call):
                                rc = random_call(mod, n)
                                if rc:
                                    sites.append((rc, src(n)))
                                elif isinstance(n.func, ast.Name):
                                    calls.add(n.func.id)
            continue
        if isinstance(st, ast.If) and src(st.test).replace('"', "'") == "__name__ == '__main__'":
            continue
        for n in ast.walk(st):
            if isinstance(n, (ast.FunctionDef, ast.AsyncFunctionDef)):
                continue
            if isinstance(n, ast.Call):
                rc = random_call(mod, n)
                if rc:
                    sites.append((rc, src(n)))
                elif isinstance(n.func, ast.Name):
                    calls.add(n.func.id)
                elif isinstance(n.func, ast.Attribute):
                    calls.add(n.func.attr)
    return calls, sites


class Graph:
    def __init__(self):
        self.mods = [Mod(rel) for rel in package_files()]
        self.fns = collect_functions(self.mods)
        self.by_name = {}
        for f in self.fns:
            self.by_name.setdefault(f.qual.split(".")[-1], []).append(f)
        # a class name resolves to its constructor
        self.ctor = {}
        for f in self.fns:
            parts = f.qual.split(".")
            if len(parts) >= 2 and parts[-1] == "__init__":
                self.ctor.setdefault(parts[-2], []).append(f)

        # module-level tables of functions (`constructions = {'gnp': obtain_gnp, ...}`): reading the table reaches them
        self.tables = {}
        for mod in self.mods:
            for st in mod.tree.body:
                if isinstance(st, ast.Assign) and len(st.targets) == 1 and isinstance(st.targets[0], ast.Name) \
                        and isinstance(st.value, (ast.Dict, ast.List, ast.Tuple, ast.Set)):
                    names = {n.id for n in ast.walk(st.value) if isinstance(n, ast.Name)}
                    names = {n for n in names if n in self.by_name or n in self.ctor}
                    if names:
                        self.tables.setdefault(st.targets[0].id, set()).update(names)

    def resolve(self, name):
        out = self.by_name.get(name, []) + self.ctor.get(name, [])
        for member in self.tables.get(name, ()):
            out = out + self.by_name.get(member, []) + self.ctor.get(member, [])
        return out

    def reach(self, names, start_fns=()):
        """functions reachable from the given called names / functions"""
        seen = {}
        stack = list(start_fns)
        for nm in names:
            stack += self.resolve(nm)
        while stack:
            f = stack.pop()
            if f.key in seen:
                continue
            seen[f.key] = f
            for nm in f.calls:
                for g in self.resolve(nm):
                    if g.key not in seen:
                        stack.append(g)
        return seen

    def fn(self, rel, qual):
        for f in self.fns:
            if f.mod.rel == rel and f.qual == qual:
                return f
        return None


def is_action_class(cls):
    return any(src(b).endswith("Action") for b in cls.bases)


def action_classes(G):
    """(file, class name) -> __call__ Fn for every class deriving from an ...Action class"""
    out = {}
    for f in G.fns:
        if f.cls is not None and f.qual.endswith(".__call__") and is_action_class(f.cls):
            out[(f.mod.rel, f.cls.name)] = f
    return out


TOOL_FILES = [r for _, r in TOOLS]


def action_uses(G):
    """for every `add_argument(..., action=<expr>)` with a non-constant action: (file, names mentioned in <expr>)"""
    uses = []
    for mod in G.mods:
        # local variables holding an action (`action = compose_two_parsers(p1, p2)`): the names of the value
        assigned = {}
        for n in ast.walk(mod.tree):
            if isinstance(n, ast.Assign) and len(n.targets) == 1 and isinstance(n.targets[0], ast.Name):
                assigned.setdefault(n.targets[0].id, set()).update(
                    {x.id for x in ast.walk(n.value) if isinstance(x, ast.Name)} |
                    {x.attr for x in ast.walk(n.value) if isinstance(x, ast.Attribute)})
        for n in ast.walk(mod.tree):
            if isinstance(n, ast.Call) and isinstance(n.func, ast.Attribute) and n.func.attr == "add_argument":
                for k in n.keywords:
                    if k.arg == "action" and not isinstance(k.value, ast.Constant):
                        names = {x.id for x in ast.walk(k.value) if isinstance(x, ast.Name)} | \
                                {x.attr for x in ast.walk(k.value) if isinstance(x, ast.Attribute)}
                        for nm in list(names):
                            names |= assigned.get(nm, set())
                        uses.append((mod.rel, names))
    return uses


def classify_action(G, rel, f, uses):
    """(is an action of a tool's own option, is an action of a sub-command's argument).  A class is matched by
    its name or by the name of the function it is defined in (factories: print_help, compose_two_parsers); a use
    inside a tool file refers to the class of that file when the file defines one of that name."""
    cname = f.cls.name
    names = {cname} | set(f.qual.split(".")[:-2])
    top = sub = False
    for urel, unames in uses:
        if not (names & unames):
            continue
        if rel in TOOL_FILES and urel in TOOL_FILES and urel != rel:
            continue                      # the other tool's private class of the same name
        if urel.startswith("cnfgen/clihelpers/"):
            sub = True
        else:
            top = True
    if not top and not sub:
        top = sub = True                  # use not found: assume the worst
    return top, sub


def calls_before_parse(cli_node):
    """names called by the statements of cli() that precede the parse event (parser construction)"""
    names = set()
    for st in cli_node.body:
        found = False
        for n in ast.walk(st):
            if isinstance(n, ast.Call) and is_parse_call(n):
                found = True
        if found:
            break
        for n in ast.walk(st):
            if isinstance(n, ast.Call):
                if isinstance(n.func, ast.Name):
                    names.add(n.func.id)
                elif isinstance(n.func, ast.Attribute):
                    names.add(n.func.attr)
    return names


# ---------------------------------------------------------------- phase events of cli()
def is_parse_call(n):
    f = n.func
    return (isinstance(f, ast.Name) and f.id == "parse_command_line") or \
        (isinstance(f, ast.Attribute) and f.attr in ("parse_args", "parse_known_args"))


def guard_kind(test, has_seed_dest):
    """classify the condition of an `if` around random.seed / header['random seed'] as a condition on args.seed"""
    t = src(test).replace('"', "'")
    pre = "hasattr(args, 'seed') and "
    if t.startswith(pre):
        if not has_seed_dest:
            return ("other", t)
        t = t[len(pre):]
    if t == "args.seed is not None":
        return ("isNotNone", "")
    if t == "args.seed":
        return ("truthy", "")
    if t == "seed is not None":
        return ("isNotNone", "")
    if t == "seed":
        return ("truthy", "")
    return ("other", t)


def seed_arg_kind(call):
    if not call.args and not call.keywords:
        return ("noArgument", "")
    if len(call.args) == 1 and not call.keywords:
        a = src(call.args[0])
        if a == "args.seed":
            return ("argsSeed", "")
        if a == "values":
            return ("actionValue", "")
        if a == "seed":
            return ("argsSeed", "")
        return ("other", a)
    return ("other", src(call))


def header_key(target):
    if isinstance(target, ast.Subscript) and isinstance(target.value, ast.Attribute) and target.value.attr == "header":
        sl = target.slice
        if isinstance(sl, ast.Constant) and isinstance(sl.value, str):
            return sl.value
    return None


def phase_events(mod, cli_node, has_seed_dest, family_names):
    """events of cli() in statement order; `guards` = stack of enclosing if-tests"""
    evs = []

    def calls_in(node):
        out = []
        for n in ast.walk(node):
            if isinstance(n, ast.Call):
                out.append(n)
        out.sort(key=lambda c: (c.lineno, c.col_offset))
        return out

    def expr_events(node, guards):
        for c in calls_in(node):
            rc = random_call(mod, c)
            f = c.func
            if rc == "random.seed":
                g = guard_kind(guards[-1], has_seed_dest) if guards else ("always", "")
                evs.append(("seed", g, seed_arg_kind(c)))
            elif rc is not None and is_draw(rc):
                evs.append(("draw", rc))
            elif is_parse_call(c):
                evs.append(("parse", src(f)))
            elif isinstance(f, ast.Attribute) and f.attr == "build_formula":
                evs.append(("build", src(f)))
            elif isinstance(f, ast.Attribute) and f.attr == "transform_cnf":
                evs.append(("transforms", src(f)))
            elif isinstance(f, ast.Name) and f.id == "Shuffle":
                evs.append(("shuffle",))
            elif isinstance(f, ast.Name) and f.id in family_names:
                evs.append(("build", f.id))
            elif (isinstance(f, ast.Attribute) and f.attr == "from_file") or \
                    (isinstance(f, ast.Name) and f.id in ("readGraph", "read_graph_from_input")):
                evs.append(("readInput", src(f)))
            elif isinstance(f, ast.Attribute) and f.attr in OUTPUT_ATTRS:
                evs.append(("output", f.attr))

    def walk(stmts, guards):
        for st in stmts:
            if isinstance(st, (ast.FunctionDef, ast.AsyncFunctionDef, ast.ClassDef)):
                continue
            if isinstance(st, ast.If):
                expr_events(st.test, guards)
                walk(st.body, guards + [st.test])
                walk(st.orelse, guards)
            elif isinstance(st, (ast.With, ast.AsyncWith)):
                for it in st.items:
                    expr_events(it.context_expr, guards)
                walk(st.body, guards)
            elif isinstance(st, ast.Try):
                walk(st.body, guards)
                for h in st.handlers:
                    walk(h.body, guards)
                walk(st.orelse, guards)
                walk(st.finalbody, guards)
            elif isinstance(st, (ast.For, ast.While)):
                if isinstance(st, ast.For):
                    expr_events(st.iter, guards)
                else:
                    expr_events(st.test, guards)
                walk(st.body, guards)
                walk(st.orelse, guards)
            elif isinstance(st, ast.Assign):
                keys = [header_key(t) for t in st.targets]
                expr_events(st.value, guards)
                for k in keys:
                    if k == "random seed":
                        g = guard_kind(guards[-1], has_seed_dest) if guards else ("always", "")
                        evs.append(("headerSeed", g, src(st.value)))
                    elif k == "command line":
                        # "<tool> " + " ".join(argv[1:])
                        v = st.value
                        pre = "?"
                        if isinstance(v, ast.BinOp) and isinstance(v.op, ast.Add) and isinstance(v.left, ast.Constant) \
                                and isinstance(v.left.value, str) and src(v.right).replace('"', "'") == "' '.join(argv[1:])":
                            pre = v.left.value
                        evs.append(("headerCmdline", pre))
            else:
                expr_events(st, guards)
    walk(cli_node.body, [])
    return evs


def seed_option(mod, G):
    """the add_argument call whose flags contain --seed: type, action, default, and what a custom action does"""
    for n in ast.walk(mod.tree):
        if isinstance(n, ast.Call) and isinstance(n.func, ast.Attribute) and n.func.attr == "add_argument":
            flags = [a.value for a in n.args if isinstance(a, ast.Constant) and isinstance(a.value, str)]
            if "--seed" not in flags:
                continue
            kws = {k.arg: k.value for k in n.keywords if k.arg}
            ty = src(kws["type"]) if "type" in kws else ""
            dflt = src(kws["default"]) if "default" in kws else ""
            act = kws.get("action")
            stores, seeds, draws, action = True, False, False, "store"
            if act is not None and isinstance(act, ast.Constant):
                action = str(act.value)
                stores = action == "store"
            elif act is not None:
                action = src(act)
                stores = False
                cls = None
                for c in ast.walk(mod.tree):
                    if isinstance(c, ast.ClassDef) and c.name == action:
                        cls = c
                call = None
                if cls is not None:
                    for b in cls.body:
                        if isinstance(b, ast.FunctionDef) and b.name == "__call__":
                            call = b
                if call is None:
                    action = "UNRESOLVED " + action
                else:
                    # straight-line body only: anything conditional is outside the fragment
                    straight = all(isinstance(st, ast.Expr) for st in call.body)
                    for st in call.body:
                        for c in ast.walk(st):
                            if isinstance(c, ast.Call):
                                rc = random_call(mod, c)
                                if rc == "random.seed" and seed_arg_kind(c)[0] == "actionValue":
                                    seeds = True
                                elif rc is not None and is_draw(rc):
                                    draws = True
                                elif isinstance(c.func, ast.Name) and c.func.id == "setattr" and \
                                        src(c) == "setattr(args, self.dest, values)":
                                    stores = True
                    if not straight:
                        action = "CONDITIONAL " + action
                        seeds = False
            return {"flags": flags, "ty": ty, "default": dflt, "action": action, "stores": stores, "seeds": seeds,
                    "draws": draws}
    return None


def family_imports(mod):
    names = set()
    for n in ast.walk(mod.tree):
        if isinstance(n, ast.ImportFrom) and n.module and n.module.startswith("cnfgen.families"):
            for a in n.names:
                names.add(a.asname or a.name)
    return names


def tool_phases(G):
    res = []
    for tool, rel in TOOLS:
        mod = next(m for m in G.mods if m.rel == rel)
        cli = None
        for n in mod.tree.body:
            if isinstance(n, ast.FunctionDef) and n.name == "cli":
                cli = n
        so = seed_option(mod, G)
        evs = phase_events(mod, cli, so is not None, family_imports(mod)) if cli is not None else []
        # does cli() set up the parsers of the helper classes before parsing (sub-commands with their own actions)?
        loads = False
        if cli is not None:
            reached = G.reach(calls_before_parse(cli))
            loads = any(f.mod.rel.startswith("cnfgen/clihelpers/") and f.qual.endswith(".setup_command_line")
                        for f in reached.values())
        res.append({"tool": tool, "seedOpt": so, "events": evs, "loadsHelpers": loads})
    return res


# ---------------------------------------------------------------- random sites with their roots
def random_sites(G):
    actions = action_classes(G)
    uses = action_uses(G)
    roots = {}      # root kind -> set of function keys

    def add(kind, reached):
        roots.setdefault(kind, set()).update(reached.keys())
    for (rel, name), f in actions.items():
        top, sub = classify_action(G, rel, f, uses)
        r = G.reach([], [f])
        if top:
            add("topaction", r)
        if sub:
            add("action", r)
    for f in G.fns:
        last = f.qual.split(".")[-1]
        if f.mod.rel.startswith("cnfgen/clihelpers/") and last == "build_formula":
            add("build", G.reach([], [f]))
        if f.mod.rel.startswith("cnfgen/clihelpers/") and last == "transform_cnf":
            add("transform", G.reach([], [f]))
    for tool, rel in TOOLS:
        f = G.fn(rel, "cli")
        if f is not None:
            add("setup", G.reach(calls_before_parse(f.node)))
    import_sites = []
    for mod in G.mods:
        calls, sites = module_level(mod)
        add("import", G.reach(calls))
        for callee, text in sites:
            import_sites.append((mod.rel, "<module>", callee, text))
    out = []
    for f in G.fns:
        for callee, text in f.sites:
            rs = sorted(k for k, keys in roots.items() if f.key in keys)
            if f.qual == "cli" and f.mod.rel in TOOL_FILES:
                rs = sorted(set(rs) | {"cli"})      # direct calls of cli(): events of the phase tables
            out.append({"file": f.mod.rel[len("cnfgen/"):], "fn": f.qual, "callee": callee, "roots": rs, "text": text})
    for rel, fn, callee, text in import_sites:
        out.append({"file": rel[len("cnfgen/"):], "fn": fn, "callee": callee, "roots": ["import"], "text": text})
    out.sort(key=lambda s: (s["file"], s["fn"], s["callee"], s["text"]))
    return out


def why(G, start_names, target_key):
    """debugging aid: one call path from the given names to a function"""
    prev, stack = {}, []
    for nm in start_names:
        for f in G.resolve(nm):
            if f.key not in prev:
                prev[f.key] = (None, nm)
                stack.append(f)
    while stack:
        f = stack.pop()
        if f.key == target_key:
            path = []
            k = f.key
            while k is not None:
                p, nm = prev[k]
                path.append("{} (via {})".format(k, nm))
                k = p
            return list(reversed(path))
        for nm in sorted(f.calls):
            for g in G.resolve(nm):
                if g.key not in prev:
                    prev[g.key] = (f.key, nm)
                    stack.append(g)
    return None


def graph_arguments(G):
    """(helper file, class, dest, action) for every add_argument of the helpers whose action is an Action class;
    plus (action class, calls make_graph_from_spec in __call__)"""
    actions = action_classes(G)
    action_names = {name for _, name in actions}
    args = []
    for mod in G.mods:
        if not mod.rel.startswith("cnfgen/clihelpers/"):
            continue
        for cls in mod.tree.body:
            if not isinstance(cls, ast.ClassDef):
                continue
            for n in ast.walk(cls):
                if isinstance(n, ast.Call) and isinstance(n.func, ast.Attribute) and n.func.attr == "add_argument":
                    for k in n.keywords:
                        if k.arg == "action" and isinstance(k.value, ast.Name) and k.value.id in action_names:
                            flags = [a.value for a in n.args if isinstance(a, ast.Constant)]
                            args.append((mod.rel[len("cnfgen/clihelpers/"):], cls.name, str(flags[0]) if flags else "?",
                                         k.value.id, n.lineno))
    args.sort(key=lambda a: (a[0], a[4]))
    classes = []
    uses = action_uses(G)
    for (rel, name), f in sorted(actions.items()):
        makes = any(isinstance(n, ast.Call) and isinstance(n.func, ast.Name) and n.func.id == "make_graph_from_spec"
                    for n in ast.walk(f.node))
        top, sub = classify_action(G, rel, f, uses)
        classes.append((name, rel[len("cnfgen/"):], makes, top, sub))
    return [a[:4] for a in args], classes


# ---------------------------------------------------------------- seeded library generators
def seeded_generators(G):
    """functions with a parameter `seed`: guard of `random.seed(seed)`, and whether it is the first statement that
    touches the generator (no draw site and no call reaching one before it, in statement order)"""
    draw_fns = set()
    for f in G.fns:
        if any(is_draw(c) for c, _ in f.sites):
            draw_fns.add(f.key)

    def can_draw(mod, node):
        for n in ast.walk(node):
            if isinstance(n, ast.Call):
                rc = random_call(mod, n)
                if rc is not None and is_draw(rc):
                    return True
                nm = n.func.id if isinstance(n.func, ast.Name) else (n.func.attr if isinstance(n.func, ast.Attribute) else None)
                if nm is not None:
                    for g in G.reach([nm]).values():
                        if g.key in draw_fns:
                            return True
        return False
    out = []
    for f in G.fns:
        params = [a.arg for a in f.node.args.args] + [a.arg for a in f.node.args.kwonlyargs]
        if "seed" not in params:
            continue
        guard, arg, first, found = ("none", ""), ("none", ""), True, False
        for st in f.node.body:
            hit = None
            if isinstance(st, ast.If):
                for n in ast.walk(st):
                    if isinstance(n, ast.Call) and random_call(f.mod, n) == "random.seed":
                        hit = (guard_kind(st.test, True), seed_arg_kind(n))
            elif isinstance(st, ast.Expr) and isinstance(st.value, ast.Call) and \
                    random_call(f.mod, st.value) == "random.seed":
                hit = (("always", ""), seed_arg_kind(st.value))
            if hit is not None:
                guard, arg = hit
                found = True
                break
            if can_draw(f.mod, st):
                first = False
        # what the seed is used for when random.seed is never called with it: passed on to another seeded function?
        passes = sorted({(n.func.id if isinstance(n.func, ast.Name) else n.func.attr)
                         for n in ast.walk(f.node) if isinstance(n, ast.Call)
                         and isinstance(n.func, (ast.Name, ast.Attribute))
                         and any(k.arg == "seed" and src(k.value) == "seed" for k in n.keywords)})
        draws = f.key in draw_fns or any(g.key in draw_fns for g in G.reach(list(f.calls)).values())
        out.append({"file": f.mod.rel[len("cnfgen/"):], "fn": f.qual, "guard": guard, "arg": arg,
                    "seedFirst": found and first, "passesSeedTo": passes, "draws": draws})
    out.sort(key=lambda s: (s["file"], s["fn"]))
    return out


# ---------------------------------------------------------------- hazards
HAZARD_CALLS = {
    # callee text -> kind
    "id": "id", "hash": "hash",
    "os.getcwd": "cwd", "os.getcwdb": "cwd", "os.environ": "environ", "os.getenv": "environ", "os.getpid": "pid",
    "os.urandom": "urandom", "os.times": "time", "os.listdir": "listdir", "os.scandir": "listdir", "os.walk": "listdir",
    "glob.glob": "listdir",
    "uuid.uuid1": "uuid", "uuid.uuid4": "uuid", "random.Random": "privateGenerator",
    "random.SystemRandom": "systemRandom", "SystemRandom": "systemRandom", "secrets.token_hex": "urandom",
    "socket.gethostname": "host", "platform.node": "host", "getpass.getuser": "host",
    "tempfile.mkstemp": "tempname", "tempfile.mkdtemp": "tempname", "tempfile.NamedTemporaryFile": "tempname",
    "tempfile.mktemp": "tempname", "tempfile.TemporaryDirectory": "tempname",
    "subprocess.check_output": "subprocess", "subprocess.run": "subprocess", "subprocess.Popen": "subprocess",
    "subprocess.call": "subprocess", "subprocess.check_call": "subprocess", "os.system": "subprocess",
    "os.popen": "subprocess",
}
TIME_MODULES = {"time", "datetime"}


def set_typed_names(fnode):
    """local names assigned from a set / frozenset expression inside one function (one pass, no flow analysis)"""
    names = set()
    for n in ast.walk(fnode):
        if isinstance(n, ast.Assign) and len(n.targets) == 1 and isinstance(n.targets[0], ast.Name):
            if is_set_expr(n.value, names):
                names.add(n.targets[0].id)
        if isinstance(n, ast.AnnAssign) and isinstance(n.target, ast.Name) and n.value is not None:
            if is_set_expr(n.value, names):
                names.add(n.target.id)
    return names


SET_ATTRS = set()      # attribute names assigned a set somewhere in the package (`self.edgeset = set()`)


def is_keys_view(e):
    return isinstance(e, ast.Call) and isinstance(e.func, ast.Attribute) and e.func.attr in ("keys", "items") and not e.args


def is_set_expr(e, setnames=()):
    if isinstance(e, (ast.Set, ast.SetComp)):
        return True
    if isinstance(e, ast.Attribute) and e.attr in SET_ATTRS:
        return True
    if isinstance(e, ast.Call) and ((isinstance(e.func, ast.Name) and e.func.id in SET_FUNCS) or
                                    (isinstance(e.func, ast.Attribute) and e.func.attr in SET_FUNCS)):
        return True
    if isinstance(e, ast.Call) and isinstance(e.func, ast.Name) and e.func.id in ("set", "frozenset"):
        return True
    if isinstance(e, ast.Name) and e.id in setnames:
        return True
    if isinstance(e, ast.BinOp) and isinstance(e.op, (ast.BitOr, ast.BitAnd, ast.Sub, ast.BitXor)):
        # set algebra; on dictionary views (`a.keys() & b.keys()`) it produces a set as well
        return is_set_expr(e.left, setnames) or is_set_expr(e.right, setnames) or \
            is_keys_view(e.left) or is_keys_view(e.right)
    if isinstance(e, ast.Call) and isinstance(e.func, ast.Attribute) and \
            e.func.attr in ("union", "intersection", "difference", "symmetric_difference") and \
            is_set_expr(e.func.value, setnames):
        return True
    return False


ORDER_FREE = {"sorted", "len", "sum", "min", "max", "any", "all", "set", "frozenset"}


def is_dict_view(e):
    return isinstance(e, ast.Call) and isinstance(e.func, ast.Attribute) and e.func.attr in ("items", "keys", "values") \
        and not e.args


def contains_dict_view(e):
    return any(is_dict_view(n) for n in ast.walk(e))


def import_aliases(mod):
    """local name -> dotted name it stands for (import a.b as c; from a import b as c)"""
    al = {}
    for n in ast.walk(mod.tree):
        if isinstance(n, ast.Import):
            for a in n.names:
                if a.asname:
                    al[a.asname] = a.name
        elif isinstance(n, ast.ImportFrom) and n.module and n.level == 0:
            for a in n.names:
                al[a.asname or a.name] = n.module + "." + a.name
    return al


def dotted(func, aliases):
    """the dotted name a call's function denotes, import aliases resolved (`from time import time` -> time.time)"""
    parts = []
    e = func
    while isinstance(e, ast.Attribute):
        parts.append(e.attr)
        e = e.value
    if not isinstance(e, ast.Name):
        return None
    base = aliases.get(e.id, e.id)
    return ".".join([base] + list(reversed(parts)))


HAZARD_PREFIXES = (("secrets.", "urandom"), ("numpy.random.", "otherGenerator"), ("time.", "time"), ("datetime.", "time"),
                   ("uuid.uuid", "uuid"), ("pathlib.Path.cwd", "cwd"), ("pathlib.Path.home", "environ"))
HAZARD_CALLS.update({"os.path.abspath": "abspath", "os.path.realpath": "abspath", "os.path.expanduser": "environ",
                     "os.path.expandvars": "environ", "os.getlogin": "host", "os.uname": "host", "sys.getrefcount": "id",
                     "locale.getlocale": "environ", "locale.getpreferredencoding": "environ", "gc.get_objects": "id"})
SET_FUNCS = set()      # names of functions of the package that return a set expression


def hazards(G):
    out = []
    SET_ATTRS.clear()
    SET_FUNCS.clear()
    for f in G.fns:
        for n in own_nodes(f.node):
            if isinstance(n, ast.Return) and n.value is not None and is_set_expr(n.value, set_typed_names(f.node)):
                SET_FUNCS.add(f.qual.split(".")[-1])
    for mod in G.mods:
        for n in ast.walk(mod.tree):
            if isinstance(n, ast.Assign) and len(n.targets) == 1 and isinstance(n.targets[0], ast.Attribute) \
                    and is_set_expr(n.value):
                SET_ATTRS.add(n.targets[0].attr)

    alias_cache = {}

    def add(mod, qual, kind, node):
        out.append({"file": mod.rel[len("cnfgen/"):], "fn": qual, "kind": kind, "text": src(node)[:160]})

    def scan(mod, qual, node, nodes):
        aliases = alias_cache.setdefault(mod.rel, import_aliases(mod))
        setnames = set_typed_names(node) if not isinstance(node, ast.Module) else set()
        objnames = object_names(node)
        parents = {}
        for n in nodes:
            for ch in ast.iter_child_nodes(n):
                parents[id(ch)] = n
        for n in nodes:
            # calls of the listed functions
            if isinstance(n, ast.Call):
                t = src(n.func)
                kind = HAZARD_CALLS.get(t)
                full = dotted(n.func, aliases)
                if kind is None and full is not None:
                    kind = HAZARD_CALLS.get(full)
                    if kind is None:
                        for pre, k in HAZARD_PREFIXES:
                            if full.startswith(pre):
                                kind = k
                                break
                if kind is None and isinstance(n.func, ast.Attribute) and isinstance(n.func.value, ast.Name) and \
                        n.func.value.id in TIME_MODULES:
                    kind = "time"
                if kind is None and isinstance(n.func, ast.Attribute) and isinstance(n.func.value, ast.Attribute) and \
                        isinstance(n.func.value.value, ast.Name) and n.func.value.value.id == "datetime":
                    kind = "time"
                if kind is None and random_call(mod, n) == "random.seed" and not n.args and not n.keywords:
                    kind = "seedWithoutArgument"
                if kind is not None:
                    add(mod, qual, kind, n)
                # default object repr in format strings
                if isinstance(n.func, ast.Attribute) and n.func.attr == "format":
                    for a in list(n.args) + [k.value for k in n.keywords]:
                        if isinstance(a, ast.Name) and a.id in objnames:
                            add(mod, qual, "objectInFormat", n)
                            break
                if isinstance(n.func, ast.Name) and n.func.id in ("str", "repr") and len(n.args) == 1 and \
                        isinstance(n.args[0], ast.Name) and n.args[0].id in objnames:
                    add(mod, qual, "objectInFormat", n)
            if isinstance(n, ast.Attribute) and src(n) == "os.environ":
                p = parents.get(id(n))
                if not (isinstance(p, ast.Attribute) or (isinstance(p, ast.Call) and p.func is n)):
                    add(mod, qual, "environ", p if p is not None else n)
                elif isinstance(p, ast.Attribute):
                    add(mod, qual, "environ", parents.get(id(p), p))
            if isinstance(n, ast.JoinedStr):
                for v in n.values:
                    if isinstance(v, ast.FormattedValue) and isinstance(v.value, ast.Name) and v.value.id in objnames:
                        add(mod, qual, "objectInFormat", n)
                        break
            if isinstance(n, ast.BinOp) and isinstance(n.op, ast.Mod) and isinstance(n.left, ast.Constant) and \
                    isinstance(n.left.value, str):
                rs = n.right.elts if isinstance(n.right, ast.Tuple) else [n.right]
                if any(isinstance(a, ast.Name) and a.id in objnames for a in rs):
                    add(mod, qual, "objectInFormat", n)
            # iteration over a hash-ordered container
            iters = []
            if isinstance(n, (ast.For, ast.AsyncFor)):
                iters.append(n.iter)
            if isinstance(n, (ast.ListComp, ast.GeneratorExp, ast.DictComp, ast.SetComp)):
                # a comprehension consumed by an order-insensitive function is harmless
                p = parents.get(id(n))
                if isinstance(n, ast.SetComp):
                    pass
                elif isinstance(p, ast.Call) and isinstance(p.func, ast.Name) and p.func.id in ORDER_FREE:
                    pass
                else:
                    iters += [g.iter for g in n.generators]
            for it in iters:
                if is_set_expr(it, setnames):
                    add(mod, qual, "setIteration", it)
                elif is_dict_view(it):
                    add(mod, qual, "dictView", it)
            # a dictionary view turned into a sequence (list(d.keys()), iter(d.items()), sorted(...) is order free)
            if isinstance(n, ast.Call) and isinstance(n.func, ast.Name) and n.func.id in ("list", "tuple", "enumerate", "iter", "zip", "next") \
                    and any(is_dict_view(a) for a in n.args):
                add(mod, qual, "dictView", n)
            if isinstance(n, ast.Call) and isinstance(n.func, ast.Attribute) and n.func.attr == "join" \
                    and any(is_dict_view(a) for a in n.args):
                add(mod, qual, "dictView", n)
            if isinstance(n, ast.Call) and isinstance(n.func, ast.Attribute) and n.func.attr == "isatty":
                add(mod, qual, "tty", n)
            # list(set) / tuple(set) / join(set) / enumerate(set) / next(iter(set)) / set.pop()
            if isinstance(n, ast.Call) and isinstance(n.func, ast.Name) and n.func.id in ("list", "tuple", "enumerate", "iter", "zip") \
                    and any(is_set_expr(a, setnames) for a in n.args):
                add(mod, qual, "setIteration", n)
            if isinstance(n, ast.Call) and isinstance(n.func, ast.Attribute) and n.func.attr == "join" \
                    and any(is_set_expr(a, setnames) for a in n.args):
                add(mod, qual, "setIteration", n)
            if isinstance(n, ast.Call) and isinstance(n.func, ast.Attribute) and n.func.attr == "pop" and not n.args \
                    and is_set_expr(n.func.value, setnames):
                add(mod, qual, "setIteration", n)

    for mod in G.mods:
        # module level (without function bodies)
        top = []
        stack = list(ast.iter_child_nodes(mod.tree))
        while stack:
            n = stack.pop()
            if isinstance(n, (ast.FunctionDef, ast.AsyncFunctionDef)):
                continue
            top.append(n)
            stack.extend(ast.iter_child_nodes(n))
        scan(mod, "<module>", mod.tree, top)
    for f in G.fns:
        scan(f.mod, f.qual, f.node, list(own_nodes(f.node)))
    # de-duplicate, stable order, no line numbers (moving code does not change the table)
    seen, res = set(), []
    for h in sorted(out, key=lambda h: (h["file"], h["fn"], h["kind"], h["text"])):
        k = (h["file"], h["fn"], h["kind"], h["text"])
        if k not in seen:
            seen.add(k)
            res.append(h)
    return res


OBJECT_NAMES = {"G", "H", "B", "D", "F", "T", "G1", "G2", "graph", "Graph", "formula", "cnf", "opb", "dag", "bipartite"}
GRAPH_METHODS = {"number_of_vertices", "number_of_edges", "order", "vertices", "edges", "neighbors", "has_edge",
                 "add_edge", "left_order", "right_order", "parts", "predecessors", "successors", "is_dag", "degree",
                 "nodes", "number_of_variables", "clauses", "all_variable_labels", "to_dimacs", "header",
                 "update_vertex_number", "right_neighbors", "left_neighbors", "name", "copy"}


def object_names(fnode):
    """names that are used as objects inside the function: some graph / formula method or attribute of them is
    accessed (a crude type inference; `x.name`-style access marks `x`, not the string `x.name`)"""
    names = set()
    for n in ast.walk(fnode):
        if isinstance(n, ast.Attribute) and isinstance(n.value, ast.Name) and n.attr in GRAPH_METHODS:
            names.add(n.value.id)
    # names conventionally bound to graphs and formulas in this code base
    for n in ast.walk(fnode):
        if isinstance(n, ast.Name) and n.id in OBJECT_NAMES:
            names.add(n.id)
    return names - {"self", "args", "parser", "cls"}


# ---------------------------------------------------------------- emit
DECLS = """
/-- the condition under which a statement about the seed runs, as a condition on `args.seed`
(`hasattr(args, 'seed') and` is dropped when the tool's parser defines the option) -/
inductive Guard where
  | always
  | isNotNone        -- `args.seed is not None`
  | truthy           -- `args.seed`
  | other (src : String)
  deriving Repr, DecidableEq

/-- the argument of a `random.seed(...)` call -/
inductive SeedArg where
  | argsSeed         -- `random.seed(args.seed)` / `random.seed(seed)`
  | actionValue      -- `random.seed(values)` inside an argparse action
  | noArgument       -- `random.seed()`: operating-system entropy
  | other (src : String)
  deriving Repr, DecidableEq

/-- one phase event of `cli()`, in statement order -/
inductive Ev where
  | parse (call : String)                    -- parse_command_line(...) / parser.parse_args(...): option actions run here
  | seed (g : Guard) (a : SeedArg)           -- random.seed(...)
  | draw (callee : String)                   -- any other function of `random` called by cli() itself
  | readInput (call : String)                -- CNF.from_file(args.input) / readGraph(...)
  | build (call : String)                    -- args.generator.build_formula(...) / a direct library call
  | transforms (call : String)               -- (the loop over) transform_cnf
  | shuffle                                  -- Shuffle(F, ...)
  | headerSeed (g : Guard) (value : String)  -- X.header['random seed'] = ...
  | headerCmdline (pre : String)             -- X.header['command line'] = pre + " ".join(argv[1:])   ("?" = other)
  | output (how : String)                    -- to_file / to_dimacs / to_opb / to_latex
  deriving Repr, DecidableEq

/-- the `--seed` option of a tool -/
structure SeedOpt where
  flags : List String
  ty : String              -- type=
  default : String
  action : String          -- "store", or the name of the action class
  stores : Bool            -- the value reaches `args.seed`
  seeds : Bool             -- the action calls `random.seed(values)` (unconditionally)
  draws : Bool             -- the action draws
  deriving Repr, DecidableEq

structure ToolPhases where
  tool : String
  seedOpt : Option SeedOpt
  loadsHelpers : Bool      -- cli() sets up the helpers' sub-command parsers (whose argparse actions run while parsing)
  events : List Ev
  deriving Repr, DecidableEq

/-- a call of a function of `random` (or of a networkx generator drawing from the module-level generator) -/
structure Site where
  file : String
  fn : String
  callee : String
  draws : Bool             -- consumes the generator (everything but random.seed / getstate / setstate)
  roots : List String      -- import / setup / topaction / action / build / transform / cli   ([] = library only)
  deriving Repr, DecidableEq

/-- a function with a `seed` parameter -/
structure SeededGen where
  file : String
  fn : String
  guard : Guard
  arg : SeedArg
  seedFirst : Bool             -- `random.seed(seed)` is reached before anything that can draw
  passesSeedTo : List String   -- callees that receive `seed=seed`
  draws : Bool                 -- the function can reach a draw
  deriving Repr, DecidableEq

structure Hazard where
  file : String
  fn : String
  kind : String
  text : String
  deriving Repr, DecidableEq
"""


def lguard(g):
    return ".{}".format(g[0]) if g[0] != "other" else "(.other {})".format(lstr(g[1]))


def lev(e):
    tag = e[0]
    if tag == "seed":
        return "(.seed {} {})".format(lguard(e[1]), lguard(e[2]))
    if tag == "headerSeed":
        return "(.headerSeed {} {})".format(lguard(e[1]), lstr(e[2]))
    if tag == "shuffle":
        return "." + tag
    return "(.{} {})".format(tag, lstr(e[1]))


def emit():
    G = Graph()
    L = ["/- GENERATED by tools/extract_phases.py from the current cnfgen source — do not edit. -/",
         "namespace Cnfgen.GenPh", DECLS]
    rows = []
    for t in tool_phases(G):
        so = t["seedOpt"]
        sos = "none" if so is None else "(some ⟨{}, {}, {}, {}, {}, {}, {}⟩)".format(
            llist(so["flags"]), lstr(so["ty"]), lstr(so["default"]), lstr(so["action"]), lbool(so["stores"]),
            lbool(so["seeds"]), lbool(so["draws"]))
        rows.append("  ⟨{}, {}, {},\n    [{}]⟩".format(lstr(t["tool"]), sos, lbool(t["loadsHelpers"]),
                                                     ",\n     ".join(lev(e) for e in t["events"])))
    L.append("def toolPhases : List ToolPhases := [\n" + ",\n".join(rows) + "\n]\n")
    sites = random_sites(G)
    L.append("def randomSites : List Site := [\n" + ",\n".join(
        "  ⟨{}, {}, {}, {}, {}⟩".format(lstr(s["file"]), lstr(s["fn"]), lstr(s["callee"]), lbool(is_draw(s["callee"])),
                                      llist(s["roots"])) for s in sites) + "\n]\n")
    gargs, gclasses = graph_arguments(G)
    L.append("/-- (helper file, helper class, argument, action class): arguments materialised by an argparse action -/")
    L.append("def actionArguments : List (String × String × String × String) := [\n" + ",\n".join(
        "  ({}, {}, {}, {})".format(*(lstr(x) for x in a)) for a in gargs) + "\n]\n")
    L.append("/-- (action class, file, `__call__` calls make_graph_from_spec, used by a tool's own option, used by a sub-command) -/")
    L.append("def actionClasses : List (String × String × Bool × Bool × Bool) := [\n" + ",\n".join(
        "  ({}, {}, {}, {}, {})".format(lstr(a[0]), lstr(a[1]), lbool(a[2]), lbool(a[3]), lbool(a[4])) for a in gclasses) + "\n]\n")
    sg = seeded_generators(G)
    L.append("def seededGenerators : List SeededGen := [\n" + ",\n".join(
        "  ⟨{}, {}, {}, {}, {}, {}, {}⟩".format(lstr(s["file"]), lstr(s["fn"]), lguard(s["guard"]) if s["guard"][0] != "none" else "(.other \"absent\")",
                                          lguard(s["arg"]) if s["arg"][0] != "none" else "(.other \"absent\")",
                                          lbool(s["seedFirst"]), llist(s["passesSeedTo"]), lbool(s["draws"])) for s in sg) + "\n]\n")
    hz = hazards(G)
    L.append("def hazards : List Hazard := [\n" + ",\n".join(
        "  ⟨{}, {}, {}, {}⟩".format(lstr(h["file"]), lstr(h["fn"]), lstr(h["kind"]), lstr(h["text"])) for h in hz) + "\n]\n")
    L.append("end Cnfgen.GenPh")
    return "\n".join(L) + "\n"


def main():
    text = emit()
    if "--print" in sys.argv:
        sys.stdout.write(text)
        return 0
    os.makedirs(os.path.dirname(OUT), exist_ok=True)
    if os.path.exists(OUT) and open(OUT, encoding="utf-8").read() == text:
        return 0
    with open(OUT, "w", encoding="utf-8") as fh:
        fh.write(text)
    return 0


if __name__ == "__main__":
    sys.exit(main())
