#!/usr/bin/env python3
"""Translator: regenerates lean/CnfgenModel/Generated/Tables.lean from the CURRENT source of
cnfgen (path: $CNFGEN_REPO or /repo) with Python's `ast` (no import, no execution).

What is extracted (all of it data, so that theorems over it are closed by `decide`):
  * helpers     — every command-line helper class of cnfgen/clihelpers/*.py: its sub-command name, kind
                  (formula / transformation), the ordered add_argument calls (dest, flags, type=, action=,
                  choices, default), the attributes of `args` it reads, the attributes set by the custom
                  argparse actions of its module, and every call of a library generator / transformation
                  it makes (function, positional argument expressions, keyword arguments, and whether
                  `formula_class=formula_class` is forwarded)
  * tools       — for cnfgen, pbgen, cnfshuffle, kthlist2pebbling: option dests defined / attributes read
  * signatures  — parameters and leading argument checks (positive_int(x,'x') …) of every generator
  * intGuards   — the integer validators of clitools/cmdline.py and cnfgen/localtypes.py as Lean predicates
  * tables      — `operators` of add_linear, `_SATSOLVER_INTERFACE`, comment-prefix map, clauses_per_page …
The file is only rewritten when its content changes.
"""
import ast
import os
import sys

sys.path.insert(0, os.path.dirname(os.path.abspath(__file__)))
import extract_dispatch  # noqa: E402  (call templates of the helpers, see that file)
import extract_solver    # noqa: E402  (resource skeleton of cnfgen/utils/solver.py, property C20)

REPO = os.environ.get("CNFGEN_REPO", "/repo")
HERE = os.path.dirname(os.path.dirname(os.path.abspath(__file__)))
OUT = os.path.join(HERE, "lean", "CnfgenModel", "Generated", "Tables.lean")


def parse(rel):
    with open(os.path.join(REPO, rel), encoding="utf-8") as fh:
        return ast.parse(fh.read())


def lstr(s):
    s = str(s)
    out = s.replace("\\", "\\\\").replace('"', '\\"').replace("\n", "\\n").replace("\r", "\\r").replace("\t", "\\t")
    return '"' + out + '"'


def llist(xs, f=lstr):
    return "[" + ", ".join(f(x) for x in xs) + "]"


def src(node):
    try:
        return ast.unparse(node)
    except Exception:
        return "?"


# ---------------------------------------------------------------- argparse calls
def dest_of(call):
    kws = {k.arg: k.value for k in call.keywords if k.arg}
    if "dest" in kws and isinstance(kws["dest"], ast.Constant):
        return str(kws["dest"].value)
    names = [a.value for a in call.args if isinstance(a, ast.Constant) and isinstance(a.value, str)]
    if not names:
        return "?"
    longs = [n for n in names if n.startswith("--")]
    if longs:
        return longs[0][2:].replace("-", "_")
    if names[0].startswith("-"):
        return names[0].lstrip("-").replace("-", "_")
    return names[0]


def argspec(call):
    kws = {k.arg: k.value for k in call.keywords if k.arg}
    flags = [a.value for a in call.args if isinstance(a, ast.Constant) and isinstance(a.value, str)]

    def kw(name):
        v = kws.get(name)
        if v is None:
            return ""
        if isinstance(v, ast.Constant):
            return str(v.value)
        return src(v)
    choices = []
    if isinstance(kws.get("choices"), (ast.List, ast.Tuple)):
        choices = [str(e.value) for e in kws["choices"].elts if isinstance(e, ast.Constant)]
    return {"dest": dest_of(call), "flags": flags, "ty": kw("type"), "action": kw("action"),
            "nargs": kw("nargs"), "choices": choices, "default": kw("default"),
            "optional": bool(flags) and flags[0].startswith("-")}


def add_argument_calls(node):
    out = []
    for n in ast.walk(node):
        if isinstance(n, ast.Call) and isinstance(n.func, ast.Attribute) and n.func.attr == "add_argument":
            out.append(n)
    out.sort(key=lambda c: (c.lineno, c.col_offset))
    return out


def args_reads(node, argname="args"):
    """attributes of the namespace `args` that the code reads"""
    out = []
    for n in ast.walk(node):
        if isinstance(n, ast.Attribute) and isinstance(n.value, ast.Name) and n.value.id == argname:
            if isinstance(n.ctx, ast.Load):
                out.append(n.attr)
        if isinstance(n, ast.Call) and isinstance(n.func, ast.Name) and n.func.id in ("hasattr", "getattr") \
                and len(n.args) >= 2 and isinstance(n.args[0], ast.Name) and n.args[0].id == argname \
                and isinstance(n.args[1], ast.Constant):
            out.append(str(n.args[1].value))
    seen = []
    for x in out:
        if x not in seen:
            seen.append(x)
    return seen


def setattr_names(node):
    out = []
    for n in ast.walk(node):
        if isinstance(n, ast.Call) and isinstance(n.func, ast.Name) and n.func.id == "setattr" \
                and len(n.args) >= 2 and isinstance(n.args[1], ast.Constant):
            out.append(str(n.args[1].value))
    return out


def library_imports(tree):
    """names imported from cnfgen.families.*, cnfgen.transformations.* and cnfgen.graphs"""
    names = {}
    for n in ast.walk(tree):
        if isinstance(n, ast.ImportFrom) and n.module and (
                n.module.startswith("cnfgen.families") or n.module.startswith("cnfgen.transformations")
                or n.module in ("cnfgen", "cnfgen.graphs", "cnfgen.utils.parsedimacs")):
            for a in n.names:
                names[a.asname or a.name] = n.module
    return names


def calls_of(node, libnames):
    out = []
    for n in ast.walk(node):
        if isinstance(n, ast.Call) and isinstance(n.func, ast.Name) and n.func.id in libnames \
                and (libnames[n.func.id].startswith("cnfgen.families")
                     or libnames[n.func.id].startswith("cnfgen.transformations")):
            kws = [(k.arg, src(k.value)) for k in n.keywords if k.arg]
            fwd = any(k.arg == "formula_class" and isinstance(k.value, ast.Name) and k.value.id == "formula_class"
                      for k in n.keywords)
            out.append({"fn": n.func.id, "pos": [src(a) for a in n.args], "kw": kws, "fwd": fwd,
                        "line": n.lineno})
    out.sort(key=lambda c: c["line"])
    return out


def helpers():
    res = []
    d = os.path.join(REPO, "cnfgen", "clihelpers")
    for f in sorted(os.listdir(d)):
        if not f.endswith(".py") or f == "__init__.py":
            continue
        tree = parse(os.path.join("cnfgen", "clihelpers", f))
        libnames = library_imports(tree)
        module_sets = []
        helper_classes = []
        for node in tree.body:
            if isinstance(node, ast.ClassDef):
                name = None
                for b in node.body:
                    if isinstance(b, ast.Assign) and len(b.targets) == 1 and isinstance(b.targets[0], ast.Name) \
                            and b.targets[0].id == "name" and isinstance(b.value, ast.Constant):
                        name = str(b.value.value)
                methods = {b.name: b for b in node.body if isinstance(b, ast.FunctionDef)}
                if name is not None and "setup_command_line" in methods and \
                        ("build_formula" in methods or "transform_cnf" in methods):
                    helper_classes.append((node, name, methods))
                else:
                    # custom argparse actions and friends: what they define on the namespace
                    module_sets += setattr_names(node)
                    module_sets += [dest_of(c) for c in add_argument_calls(node)]
            elif isinstance(node, ast.FunctionDef):
                module_sets += setattr_names(node)
        for node, name, methods in helper_classes:
            kind = "formula" if "build_formula" in methods else "transformation"
            body = methods.get("build_formula") or methods.get("transform_cnf")
            # nested parsers (compose_two_parsers) live inside setup_command_line too
            specs = [argspec(c) for c in add_argument_calls(methods["setup_command_line"])]
            res.append({"cls": node.name, "name": name, "kind": kind, "file": f, "args": specs,
                        "reads": args_reads(body), "sets": sorted(set(module_sets)),
                        "calls": calls_of(body, libnames)})
    res.sort(key=lambda h: (h["kind"], h["name"]))
    return res


def cli_specs():
    """options + call templates of every helper class (same classes, same order as `helpers()`)"""
    res = []
    d = os.path.join(REPO, "cnfgen", "clihelpers")
    for f in sorted(os.listdir(d)):
        if not f.endswith(".py") or f == "__init__.py":
            continue
        tree = parse(os.path.join("cnfgen", "clihelpers", f))
        libnames = {k: v for k, v in library_imports(tree).items()
                    if v.startswith("cnfgen.families") or v.startswith("cnfgen.transformations")}
        for node in tree.body:
            if not isinstance(node, ast.ClassDef):
                continue
            name = None
            for b in node.body:
                if isinstance(b, ast.Assign) and len(b.targets) == 1 and isinstance(b.targets[0], ast.Name) \
                        and b.targets[0].id == "name" and isinstance(b.value, ast.Constant):
                    name = str(b.value.value)
            methods = {b.name: b for b in node.body if isinstance(b, ast.FunctionDef)}
            if name is None or "setup_command_line" not in methods or \
                    not ("build_formula" in methods or "transform_cnf" in methods):
                continue
            kind = "formula" if "build_formula" in methods else "transformation"
            body = methods.get("build_formula") or methods.get("transform_cnf")
            setup = methods["setup_command_line"]
            pname = setup.args.args[0].arg if setup.args.args else "parser"
            res.append({"cls": node.name, "name": name, "kind": kind,
                        "opts": [extract_dispatch.optspec(c, pname, extract_dispatch.option_groups(setup, pname),
                                                          extract_dispatch.local_parsers(setup),
                                                          extract_dispatch.compositions(setup))
                                 for c in add_argument_calls(setup)],
                        "templates": extract_dispatch.method_templates(body, libnames)})
    res.sort(key=lambda h: (h["kind"], h["name"]))
    return res


def tool_templates():
    res = []
    for tool, rel in (("kthlist2pebbling", "cnfgen/clitools/kthlist2pebbling.py"),):
        tree = parse(rel)
        libnames = {k: v for k, v in library_imports(tree).items() if v.startswith("cnfgen.families")}
        fn = fn_named(tree, "cli")
        res.append((tool, extract_dispatch.tool_templates(fn, libnames) if fn is not None else []))
    return res


def tools():
    res = []
    for tool, rel in (("cnfgen", "cnfgen/clitools/cnfgen.py"), ("pbgen", "cnfgen/clitools/pbgen.py"),
                      ("cnfshuffle", "cnfgen/clitools/cnfshuffle.py"),
                      ("kthlist2pebbling", "cnfgen/clitools/kthlist2pebbling.py")):
        tree = parse(rel)
        specs, reads = [], []
        for node in tree.body:
            if isinstance(node, ast.FunctionDef):
                for c in add_argument_calls(node):
                    specs.append(argspec(c))
                reads += args_reads(node)
        seen = []
        for r in reads:
            if r not in seen:
                seen.append(r)
        res.append({"tool": tool, "args": specs, "reads": seen})
    return res


CHECKS = ("positive_int", "non_negative_int", "any_int", "positive_int_seq", "non_negative_int_seq",
          "probability_value", "one_of_values")


def signatures():
    res = []
    for sub in ("families", "transformations"):
        d = os.path.join(REPO, "cnfgen", sub)
        for f in sorted(os.listdir(d)):
            if not f.endswith(".py") or f == "__init__.py":
                continue
            tree = parse(os.path.join("cnfgen", sub, f))
            for node in tree.body:
                if isinstance(node, ast.FunctionDef) and not node.name.startswith("_"):
                    params = [a.arg for a in node.args.args] + \
                        (["*" + node.args.vararg.arg] if node.args.vararg else []) + \
                        [a.arg for a in node.args.kwonlyargs]
                    checks = []
                    for st in node.body:
                        if isinstance(st, ast.Expr) and isinstance(st.value, ast.Call) and \
                                isinstance(st.value.func, ast.Name) and st.value.func.id in CHECKS and \
                                st.value.args and isinstance(st.value.args[0], ast.Name):
                            checks.append((st.value.args[0].id, st.value.func.id))
                    res.append({"fn": node.name, "file": sub + "/" + f, "params": params, "checks": checks})
    return res


# ---------------------------------------------------------------- integer guards -> Lean
class Unsupported(Exception):
    pass


def lean_int_expr(e, var):
    if isinstance(e, ast.Name):
        return "v"
    if isinstance(e, ast.Constant) and isinstance(e.value, int) and not isinstance(e.value, bool):
        return "({} : Int)".format(e.value)
    if isinstance(e, ast.Constant) and isinstance(e.value, float) and float(e.value).is_integer():
        return "({} : Int)".format(int(e.value))
    if isinstance(e, ast.BinOp) and isinstance(e.op, (ast.Add, ast.Sub, ast.Mult, ast.Mod)):
        op = {ast.Add: "+", ast.Sub: "-", ast.Mult: "*", ast.Mod: "%"}[type(e.op)]
        return "({} {} {})".format(lean_int_expr(e.left, var), op, lean_int_expr(e.right, var))
    if isinstance(e, ast.UnaryOp) and isinstance(e.op, ast.USub):
        return "(-{})".format(lean_int_expr(e.operand, var))
    raise Unsupported(src(e))


def lean_bool_expr(e, var):
    """condition under which the validator RAISES, as a Lean Bool over `v : Int`;
    isinstance tests are true for integers"""
    if isinstance(e, ast.BoolOp):
        op = " && " if isinstance(e.op, ast.And) else " || "
        return "(" + op.join(lean_bool_expr(x, var) for x in e.values) + ")"
    if isinstance(e, ast.UnaryOp) and isinstance(e.op, ast.Not):
        return "(!" + lean_bool_expr(e.operand, var) + ")"
    if isinstance(e, ast.Call) and isinstance(e.func, ast.Name) and e.func.id == "isinstance":
        return "true"
    if isinstance(e, ast.Compare):
        parts = []
        left = e.left
        for op, right in zip(e.ops, e.comparators):
            sym = {ast.Lt: "<", ast.LtE: "≤", ast.Gt: ">", ast.GtE: "≥", ast.Eq: "=", ast.NotEq: "≠"}.get(type(op))
            if sym is None:
                raise Unsupported(src(e))
            parts.append("decide ({} {} {})".format(lean_int_expr(left, var), sym, lean_int_expr(right, var)))
            left = right
        return "(" + " && ".join(parts) + ")"
    raise Unsupported(src(e))


def int_guards():
    """for each integer validator: name -> Lean Bool expression `rejects v`"""
    out = []
    for rel, names in (("cnfgen/clitools/cmdline.py", ("positive_int", "nonnegative_int", "positive_even_int")),
                       ("cnfgen/localtypes.py", ("positive_int", "non_negative_int", "any_int"))):
        tree = parse(rel)
        prefix = "cli_" if "cmdline" in rel else "lib_"
        fns = {n.name: n for n in tree.body if isinstance(n, ast.FunctionDef)}
        for name in names:
            fn = fns.get(name)
            if fn is None:
                continue
            conds = []
            try:
                for st in fn.body:
                    if isinstance(st, ast.If) and any(isinstance(x, ast.Raise) for x in st.body):
                        conds.append(lean_bool_expr(st.test, "v"))
                    # positive_even_int delegates to positive_int first
                    if isinstance(st, ast.Assign) and isinstance(st.value, ast.Call) and \
                            isinstance(st.value.func, ast.Name) and st.value.func.id in fns and \
                            st.value.func.id != "int":
                        conds.append("{}{}_rejects v".format(prefix, st.value.func.id))
                expr = " || ".join(conds) if conds else "false"
            except Unsupported as u:
                # outside the supported fragment: an opaque, unprovable obligation
                expr = None
                out.append((prefix + name, None, str(u)))
                continue
            out.append((prefix + name, expr, ""))
    return out


# ---------------------------------------------------------------- misc tables
def find_assign(tree, name):
    for n in ast.walk(tree):
        if isinstance(n, ast.Assign) and len(n.targets) == 1 and isinstance(n.targets[0], ast.Name) \
                and n.targets[0].id == name:
            return n.value
    return None


def misc():
    out = {}
    v = find_assign(parse("cnfgen/formula/linear.py"), "operators")
    out["linearOperators"] = [e.value for e in v.elts] if isinstance(v, ast.List) else []
    v = find_assign(parse("cnfgen/utils/solver.py"), "_SATSOLVER_INTERFACE")
    iface = []
    if isinstance(v, ast.Dict):
        for k, val in zip(v.keys, v.values):
            iface.append((k.value if isinstance(k, ast.Constant) else src(k), src(val)))
    out["satsolverInterface"] = iface
    v = find_assign(parse("cnfgen/clitools/cnfgen.py"), "comment_char")
    cc = []
    if isinstance(v, ast.Dict):
        for k, val in zip(v.keys, v.values):
            cc.append((k.value, val.value))
    out["commentChar"] = cc
    cpp = None
    for n in ast.walk(parse("cnfgen/utils/latexoutput.py")):
        if isinstance(n, ast.Assign) and isinstance(n.targets[0], ast.Name) and n.targets[0].id == "clauses_per_page" \
                and isinstance(n.value, ast.Constant):
            cpp = n.value.value
    out["clausesPerPage"] = cpp
    # opchoices of the "k" substitutions
    v = find_assign(parse("cnfgen/transformations/substitutions.py"), "opchoices")
    out["opchoices"] = [e.value for e in v.elts] if isinstance(v, (ast.List, ast.Tuple)) else []
    return out


# ---------------------------------------------------------------- numeric constants of the samplers
def nat_expr(e):
    """arithmetic over named naturals: names, constants, + * // (Lean `/` on Nat is floor division)"""
    if isinstance(e, ast.Name):
        return e.id
    if isinstance(e, ast.Constant) and isinstance(e.value, int):
        return str(e.value)
    if isinstance(e, ast.BinOp) and isinstance(e.op, (ast.Add, ast.Mult, ast.FloorDiv, ast.Sub)):
        op = {ast.Add: "+", ast.Mult: "*", ast.FloorDiv: "/", ast.Sub: "-"}[type(e.op)]
        return "({} {} {})".format(nat_expr(e.left), op, nat_expr(e.right))
    raise Unsupported(src(e))


def names_in(e):
    return sorted({n.id for n in ast.walk(e) if isinstance(n, ast.Name)})


def fn_named(tree, name):
    for n in ast.walk(tree):
        if isinstance(n, ast.FunctionDef) and n.name == name:
            return n
    return None


def sampler_constants():
    """(lean name, parameter names, lean expression or None, description)"""
    out = []

    def add(name, expr_node, descr):
        if expr_node is None:
            out.append((name, [], None, descr + " (NOT FOUND)"))
            return
        try:
            out.append((name, names_in(expr_node), nat_expr(expr_node), descr))
        except Unsupported as u:
            out.append((name, names_in(expr_node), None, descr + " (unsupported: {})".format(u)))

    def while_bound(fn, var):
        if fn is None:
            return None
        for n in ast.walk(fn):
            if isinstance(n, ast.While):
                for c in ast.walk(n.test):
                    if isinstance(c, ast.Compare) and isinstance(c.left, ast.Name) and c.left.id == var \
                            and isinstance(c.ops[0], ast.Lt):
                        return c.comparators[0]
        return None

    def for_range(fn, var=None):
        if fn is None:
            return None
        for n in ast.walk(fn):
            if isinstance(n, ast.For) and isinstance(n.iter, ast.Call) and isinstance(n.iter.func, ast.Name) \
                    and n.iter.func.id == "range" and len(n.iter.args) == 1 \
                    and (var is None or (isinstance(n.target, ast.Name) and n.target.id == var)):
                return n.iter.args[0]
        return None

    def if_gt(fn, var):
        if fn is None:
            return None
        for n in ast.walk(fn):
            if isinstance(n, ast.If) and isinstance(n.test, ast.Compare) and isinstance(n.test.left, ast.Name) \
                    and n.test.left.id == var and isinstance(n.test.ops[0], ast.Gt):
                return n.test.comparators[0]
        return None
    t = parse("cnfgen/families/randomformulas.py")
    add("kcnfRetryBudget", while_bound(fn_named(t, "sample_clauses") or t, "t"), "rejection rounds of random k-CNF sampling")
    t = parse("cnfgen/families/randomkxor.py")
    add("kxorRetryBudget", while_bound(t, "t"), "rejection rounds of random k-XOR sampling")
    t = parse("cnfgen/graphs.py")
    add("glrmDenseThreshold", if_gt(fn_named(t, "bipartite_random_m_edges"), "m"), "m above which glrm samples densely")
    add("regularRetries", for_range(fn_named(t, "bipartite_random_regular"), "retries"), "random tries per edge of `regular`")
    add("addEdgesRetries", for_range(fn_named(t, "add_random_missing_edges"), "_"), "sparse tries of addedges")

    # `if r <= sys.maxsize: neighbours = random.sample(R, d)` of bipartite_random_left_regular: the
    # largest r for which random.sample is asked (above it: the rejection loop over randint(1, r))
    def sample_limit(fn, var):
        if fn is None:
            return None
        for n in ast.walk(fn):
            if isinstance(n, ast.If) and isinstance(n.test, ast.Compare) and isinstance(n.test.left, ast.Name) \
                    and n.test.left.id == var and len(n.test.ops) == 1 and isinstance(n.test.ops[0], ast.LtE) \
                    and any(isinstance(c, ast.Call) and isinstance(c.func, ast.Attribute) and c.func.attr == "sample"
                            for b in n.body for c in ast.walk(b)) \
                    and any(isinstance(c, ast.Call) and isinstance(c.func, ast.Attribute) and c.func.attr == "randint"
                            for b in n.orelse for c in ast.walk(b)):
                return n.test.comparators[0]
        return None
    lim = sample_limit(fn_named(t, "bipartite_random_left_regular"), "r")
    descr = "largest r for which glrd asks random.sample (`sys.maxsize` of the 64 bit platform)"
    if lim is None:
        out.append(("glrdSampleLimit", [], None, descr + " (NOT FOUND)"))
    elif isinstance(lim, ast.Attribute) and isinstance(lim.value, ast.Name) and lim.value.id == "sys" \
            and lim.attr == "maxsize" and __import__("sys").maxsize == 2 ** 63 - 1:
        out.append(("glrdSampleLimit", [], "(2 ^ 63 - 1)", descr))
    else:
        out.append(("glrdSampleLimit", [], None, descr + " (unsupported: {})".format(src(lim))))

    # `if n <= sys.maxsize: return sorted(random.sample(range(1, n+1), k))` of sample_variables (randomformulas.py;
    # imported by randomkxor.py): the largest n for which random.sample is asked; the randint loop comes after the `if`
    def sample_limit_return(fn, var):
        if fn is None:
            return None
        for n in fn.body:
            if isinstance(n, ast.If) and isinstance(n.test, ast.Compare) and isinstance(n.test.left, ast.Name) \
                    and n.test.left.id == var and len(n.test.ops) == 1 and isinstance(n.test.ops[0], ast.LtE) \
                    and not n.orelse and n.body and isinstance(n.body[-1], ast.Return) \
                    and any(isinstance(c, ast.Call) and isinstance(c.func, ast.Attribute) and c.func.attr == "sample"
                            for b_ in n.body for c in ast.walk(b_)) \
                    and any(isinstance(c, ast.Call) and isinstance(c.func, ast.Attribute) and c.func.attr == "randint"
                            for later in fn.body[fn.body.index(n) + 1:] for c in ast.walk(later)):
                return n.test.comparators[0]
        return None
    tf = parse("cnfgen/families/randomformulas.py")
    lim = sample_limit_return(fn_named(tf, "sample_variables"), "n")
    descr = "largest n for which sample_variables asks random.sample (`sys.maxsize` of the 64 bit platform)"
    if lim is None:
        out.append(("sampleVariablesLimit", [], None, descr + " (NOT FOUND)"))
    elif isinstance(lim, ast.Attribute) and isinstance(lim.value, ast.Name) and lim.value.id == "sys" \
            and lim.attr == "maxsize" and __import__("sys").maxsize == 2 ** 63 - 1:
        out.append(("sampleVariablesLimit", [], "(2 ^ 63 - 1)", descr))
    else:
        out.append(("sampleVariablesLimit", [], None, descr + " (unsupported: {})".format(src(lim))))
    return out


# ---------------------------------------------------------------- emit
def emit():
    H = helpers()
    T = tools()
    S = signatures()
    G = int_guards()
    M = misc()
    L = []
    L.append("/- GENERATED by tools/extract_tables.py from the current cnfgen source — do not edit. -/")
    L.append("namespace Cnfgen.Gen\n")
    L.append("structure ArgSpec where\n  dest : String\n  flags : List String\n  ty : String\n  action : String\n"
             "  nargs : String\n  choices : List String\n  default : String\n  optional : Bool\n  deriving Repr, DecidableEq\n")
    L.append("structure CallSpec where\n  fn : String\n  pos : List String\n  kw : List (String × String)\n"
             "  forwardsClass : Bool\n  deriving Repr, DecidableEq\n")
    L.append("structure HelperSpec where\n  cls : String\n  name : String\n  kind : String\n  file : String\n"
             "  args : List ArgSpec\n  reads : List String\n  sets : List String\n  calls : List CallSpec\n  deriving Repr, DecidableEq\n")
    L.append("structure ToolSpec where\n  tool : String\n  args : List ArgSpec\n  reads : List String\n  deriving Repr, DecidableEq\n")
    L.append("structure SigSpec where\n  fn : String\n  file : String\n  params : List String\n"
             "  checks : List (String × String)\n  deriving Repr, DecidableEq\n")

    def arg(a):
        return "⟨{}, {}, {}, {}, {}, {}, {}, {}⟩".format(
            lstr(a["dest"]), llist(a["flags"]), lstr(a["ty"]), lstr(a["action"]), lstr(a["nargs"]),
            llist(a["choices"]), lstr(a["default"]), "true" if a["optional"] else "false")

    def call(c):
        return "⟨{}, {}, {}, {}⟩".format(lstr(c["fn"]), llist(c["pos"]),
                                         llist(c["kw"], lambda p: "({}, {})".format(lstr(p[0]), lstr(p[1]))),
                                         "true" if c["fwd"] else "false")
    L.append("def helpers : List HelperSpec := [")
    rows = []
    for h in H:
        rows.append("  ⟨{}, {}, {}, {},\n    {},\n    {}, {},\n    {}⟩".format(
            lstr(h["cls"]), lstr(h["name"]), lstr(h["kind"]), lstr(h["file"]), llist(h["args"], arg),
            llist(h["reads"]), llist(h["sets"]), llist(h["calls"], call)))
    L.append(",\n".join(rows))
    L.append("]\n")
    L.append("def tools : List ToolSpec := [")
    L.append(",\n".join("  ⟨{}, {}, {}⟩".format(lstr(t["tool"]), llist(t["args"], arg), llist(t["reads"])) for t in T))
    L.append("]\n")
    L.append("def signatures : List SigSpec := [")
    L.append(",\n".join("  ⟨{}, {}, {}, {}⟩".format(
        lstr(s["fn"]), lstr(s["file"]), llist(s["params"]),
        llist(s["checks"], lambda p: "({}, {})".format(lstr(p[0]), lstr(p[1])))) for s in S))
    L.append("]\n")
    for name, expr, why in G:
        if expr is None:
            L.append("/-- UNSUPPORTED guard expression `{}`: opaque, unprovable obligation -/".format(why))
            L.append("def {}_rejects (v : Int) : Bool := (v == v) && !(v == v) && unsupportedGuard_{}\n".format(name, name))
        else:
            L.append("def {}_rejects (v : Int) : Bool := {}\n".format(name, expr))
    L.append("def linearOperators : List String := {}\n".format(llist(M["linearOperators"])))
    L.append("def opchoices : List String := {}\n".format(llist(M["opchoices"])))
    L.append("def satsolverInterface : List (String × String) := {}\n".format(
        llist(M["satsolverInterface"], lambda p: "({}, {})".format(lstr(p[0]), lstr(p[1])))))
    L.append("def commentChar : List (String × String) := {}\n".format(
        llist(M["commentChar"], lambda p: "({}, {})".format(lstr(p[0]), lstr(p[1])))))
    L.append("def clausesPerPage : Nat := {}\n".format(M["clausesPerPage"] if M["clausesPerPage"] is not None else 0))
    for name, params, expr, descr in sampler_constants():
        L.append("/-- {} -/".format(descr))
        ps = "".join(" ({} : Nat)".format(p_) for p_ in params)
        if expr is None:
            L.append("def {}{} : Nat := unsupportedConstant_{}\n".format(name, ps, name))
        else:
            L.append("def {}{} : Nat := {}\n".format(name, ps, expr))
    L.append(extract_dispatch.emit(cli_specs(), tool_templates(),
                                   extract_dispatch.graph_actions(parse("cnfgen/clitools/graph_args.py")),
                                   extract_dispatch.graph_constructions(parse("cnfgen/clitools/graph_args.py")),
                                   goptions=extract_dispatch.graph_options(parse("cnfgen/clitools/graph_args.py")),
                                   gformats=extract_dispatch.graph_formats(parse("cnfgen/graphs.py"))))
    L.append(extract_solver.emit(parse("cnfgen/utils/solver.py"), parse("cnfgen/formula/cnfio.py")))
    L.append("end Cnfgen.Gen")
    return "\n".join(L) + "\n"


def snapshot_documented():
    """(deliberate, reviewed) lean/CnfgenModel/Cli/Documented.lean := the current tables of the handled
    sub-commands; the list of handled sub-commands is asked to the built driver"""
    import subprocess
    drv = os.path.join(HERE, "lean", ".lake", "build", "bin", "driver")
    p = subprocess.run([drv], input=b"dispatch_supported 0\ndispatch_supported 1\n", stdout=subprocess.PIPE, check=True)
    lines = p.stdout.decode().split("\n")
    names = {("formula", n) for n in lines[0].split()[1:]} | {("transformation", n) for n in lines[1].split()[1:]}
    specs = [s for s in cli_specs() if (s["kind"], s["name"]) in names]
    out = os.path.join(HERE, "lean", "CnfgenModel", "Cli", "Documented.lean")
    with open(out, "w", encoding="utf-8") as fh:
        fh.write(extract_dispatch.emit_snapshot(specs))
    print("wrote", out, len(specs), "sub-commands")
    return 0


def main():
    if "--snapshot-documented" in sys.argv:
        return snapshot_documented()
    # C07: phase order of cli(), call sites of `random`, static hazards -> Generated/Phases.lean
    import extract_phases
    extract_phases.main()
    # C19: how the generators use their graph objects -> Generated/GraphUses.lean
    import extract_graph_uses
    extract_graph_uses.main()
    text = emit()
    os.makedirs(os.path.dirname(OUT), exist_ok=True)
    if not (os.path.exists(OUT) and open(OUT, encoding="utf-8").read() == text):
        with open(OUT, "w", encoding="utf-8") as fh:
            fh.write(text)
    # function bodies: Generated/Funcs.lean + Driver/GenFuncs.lean (tools/py2lean.py, same source tree, same run)
    import py2lean
    return py2lean.main()


if __name__ == "__main__":
    sys.exit(main())
