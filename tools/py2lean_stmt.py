"""Statement half of tools/py2lean.py: a function body becomes one Lean term.
`block(stmts, env, fall)`: code of `stmts` followed by `fall(env)` (what comes after them)."""
import ast

from py2lean_types import (Unsupported, Impure, TInt, TBool, TStr, TNone, TRange, TErased, TList, TOpt, TTuple,
                           TDict, TObj, TAbs, TExc, TUnion, TVar, TMaybe, TBuilder, TEffect, INT, BOOL, STR, NONE, RANGE, ERASED,
                           resolve, unify, join, coerce, proj, iter_elem)
from py2lean_expr import src, indent, EXC, TyRef


def splice(code, key, text):
    """replace the placeholder `key` by the (multi-line) `text`, keeping the indentation of its line"""
    out = []
    for line in code.split("\n"):
        if line.strip() == key:
            pad = line[:len(line) - len(line.lstrip())]
            out += [pad + l if l else l for l in text.split("\n")]
        else:
            out.append(line.replace(key, text))
    return "\n".join(out)


def assigned_call_receivers(stmts):
    """receivers of `x = obj.method(…)`: obj may be an effect object whose state the call changes"""
    out = []
    for s in stmts:
        for n in ast.walk(s):
            if isinstance(n, ast.Assign) and isinstance(n.value, ast.Call) and isinstance(n.value.func, ast.Attribute) \
                    and isinstance(n.value.func.value, (ast.Name, ast.Attribute)):
                out.append(n.value.func.value)
    return out


def assigned_names(stmts):
    """python names (and `self.x` keys) assigned anywhere in the statements"""
    out = []

    def tgt(t):
        if isinstance(t, ast.Name):
            out.append(t.id)
        elif isinstance(t, ast.Attribute):
            out.append(src(t))
        elif isinstance(t, (ast.Tuple, ast.List)):
            for x in t.elts:
                tgt(x)
        elif isinstance(t, ast.Subscript):
            tgt(t.value)
    for s in stmts:
        for n in ast.walk(s):
            if isinstance(n, ast.Assign):
                for t in n.targets:
                    tgt(t)

            elif isinstance(n, (ast.AugAssign, ast.AnnAssign)):
                tgt(n.target)
            elif isinstance(n, ast.For):
                tgt(n.target)
            elif isinstance(n, ast.Expr) and isinstance(n.value, ast.Yield):
                out.append("«yield»")
            elif isinstance(n, ast.Expr) and isinstance(n.value, ast.Call) and isinstance(n.value.func, ast.Attribute) \
                    and isinstance(n.value.func.value, (ast.Name, ast.Attribute, ast.Subscript)):
                # a method call as a statement may change its receiver (append, pop, a command of an effect object):
                # the receiver is carried through loops and joins (an over-approximation is harmless)
                tgt(n.value.func.value)
    seen = []
    for x in out:
        if x not in seen:
            seen.append(x)
    return seen


class StmtMixin:
    # ------------------------------------------------------------ results
    def ret(self, code):
        return "Except.ok {}".format(code) if self.monadic else code

    def err(self, kind):
        if self.pure_mode:
            raise Impure()
        self.raised += 1
        return "Except.error Err{}".format(kind)

    # ------------------------------------------------------------ blocks
    def block(self, stmts, env, fall):
        if not stmts:
            return fall(env)
        s, rest = stmts[0], stmts[1:]
        m = getattr(self, "s_" + type(s).__name__, None)
        if m is None:
            raise Unsupported("statement " + type(s).__name__ + ": " + src(s).split("\n")[0])
        return m(s, env, lambda env2: self.block(rest, env2, fall))

    def s_FunctionDef(self, s, env, nxt):
        """a local generator function whose body is a sequence of `yield e` / `yield from e`: inlined at its calls"""
        a = s.args
        if a.vararg or a.kwarg or a.kwonlyargs or a.defaults or s.decorator_list:
            raise Unsupported("local function " + s.name)
        for st in s.body:
            if not (isinstance(st, ast.Expr) and (isinstance(st.value, (ast.Yield, ast.YieldFrom))
                                                  or isinstance(st.value, ast.Constant))):
                raise Unsupported("local function {} is not a plain generator".format(s.name))
        self.local_defs[s.name] = s
        return nxt(env)

    def s_Continue(self, s, env, nxt):
        if not self.loop_falls:
            raise Unsupported("continue outside a for loop")
        return self.loop_falls[-1](env)

    def s_Pass(self, s, env, nxt):
        return nxt(env)

    def s_Return(self, s, env, nxt):
        if "«yield»" in env:
            if s.value is not None:
                raise Unsupported("return with a value inside a generator")
            return self.finish_return(*env["«yield»"])
        if s.value is None:
            if self.effect_self:
                return self.finish_return(*env["self"])
            return self.finish_return("()", NONE)
        if self.effect_self:
            if not isinstance(resolve(env["self"][1]), TEffect):
                raise Unsupported("a procedure on an effect object returning a value")
            sc, st = env["self"]
            return self.expr(s.value, env, lambda c, t: self.finish_return("({}, {})".format(c, sc), TTuple([t, st])))
        return self.expr(s.value, env, self.finish_return)

    def finish_return(self, c, t):
        self.returns.append(t)
        key = "«RET{}»".format(len(self.returns) - 1)
        self.ret_codes[key] = (c, t)
        return self.ret(key)

    def s_Raise(self, s, env, nxt):
        exc = s.exc
        name = None
        if isinstance(exc, ast.Call) and isinstance(exc.func, ast.Name):
            name = exc.func.id
        elif isinstance(exc, ast.Name):
            name = exc.id
        if name not in EXC:
            raise Unsupported("raise " + src(s))
        return self.err(EXC[name])

    def s_Assert(self, s, env, nxt):
        return self.cond(s.test, env, lambda e2: nxt(e2), lambda e2: self.err(".assertion"))

    def s_Expr(self, s, env, nxt):
        v = s.value
        if isinstance(v, ast.Constant):          # docstring
            return nxt(env)
        if isinstance(v, ast.Call) and isinstance(v.func, ast.Name) and v.func.id in EXC:
            return nxt(env)                      # an exception object that is built and dropped (no `raise`)
        if isinstance(v, ast.Call) and isinstance(v.func, ast.Attribute) and isinstance(v.func.value, ast.Attribute) \
                and src(v.func.value.value) == "self" and v.func.value.attr in self.erased_attrs:
            return nxt(env)                      # bookkeeping on an attribute the translation erases
        if self.effect_call_parts(v, env) is not None and not (self.effect_self and isinstance(resolve(env["self"][1]), TBuilder)):
            return self.effect_stmt(v, None, env, nxt)
        if isinstance(v, ast.Yield) and v.value is not None and "«yield»" in env:
            # generator function: the yielded values are collected in order (laziness is not modelled)
            nm, t = env["«yield»"]
            t = resolve(t)

            def fin_y(c, tc):
                j = join(t.elem, tc)
                if j is None:
                    raise Unsupported("yield of {} after {}".format(resolve(tc).lean(), t.elem.lean()))
                env2 = dict(env)
                env2["«yield»"] = ("out_", TList(j))
                return "let out_ := {} ++ [{}]\n{}".format(coerce(nm, t, TList(j)), coerce(c, tc, j), nxt(env2))
            return self.expr(v.value, env, fin_y)
        if isinstance(v, ast.Call) and isinstance(v.func, ast.Attribute):
            f = v.func
            key = src(f.value)
            # Base.__init__(self, …): inline the base constructor
            if f.attr == "__init__" and isinstance(f.value, ast.Name) and v.args and src(v.args[0]) == "self":
                return self.inline_init(f.value.id, v, env, nxt)
            if f.attr == "append" and key in env and len(v.args) == 1:
                nm, t = env[key]
                t = resolve(t)
                if not isinstance(t, TList):
                    raise Unsupported("append on " + t.lean())
                self.check_mutable(key)

                def fin(c, tc):
                    j = join(t.elem, tc)
                    if j is None:
                        raise Unsupported("append of {} to {}".format(resolve(tc).lean(), t.lean()))
                    env2 = dict(env)
                    nm2 = self.lname(key)
                    env2[key] = (nm2, TList(j))
                    return "let {} := {} ++ [{}]\n{}".format(nm2, coerce(nm, t, TList(j)), coerce(c, tc, j), nxt(env2))
                return self.expr(v.args[0], env, fin)
            if f.attr == "append" and isinstance(f.value, ast.Subscript) and not isinstance(f.value.slice, ast.Slice) \
                    and isinstance(f.value.value, ast.Name) and f.value.value.id in env and len(v.args) == 1:
                # rows[i].append(x): the row is looked up (IndexError, negative indices), then the argument is
                # evaluated, then the entry is replaced — sound because the rows are distinct objects
                rkey = f.value.value.id
                nm, t = env[rkey]
                t = resolve(t)
                if rkey not in self.fresh_rows or not isinstance(t, TList) or not isinstance(resolve(t.elem), TList):
                    raise Unsupported("append to an entry of a list whose rows are not known to be distinct objects")
                self.check_mutable(rkey)
                trow = resolve(t.elem)

                def fin_i(ic, it):
                    def with_i(iv):
                        def with_row(row, _t):
                            def fin_v(c, tc):
                                unify(trow.elem, tc) if isinstance(resolve(trow.elem), TVar) else None
                                j = join(trow.elem, tc)
                                if j is None or j != resolve(trow.elem):
                                    raise Unsupported("append of {} to a row of {}".format(resolve(tc).lean(), t.lean()))
                                nm2 = self.lname(rkey)

                                def after(l, _tl):
                                    env2 = dict(env)
                                    env2[rkey] = (l, t)
                                    return nxt(env2)
                                return self.bind("Py.listSet {} {} ({} ++ [{}])".format(nm, iv, row, coerce(c, tc, j)),
                                                 t, after, "l")
                            return self.expr(v.args[0], env, fin_v)
                        return self.bind("Py.index {} {}".format(nm, iv), trow, with_row, "row")
                    return self.as_int(ic, it, with_i)
                return self.expr(f.value.slice, env, fin_i)
            if f.attr == "pop" and key in env and not v.args:
                return self.pop_stmt(key, None, env, nxt)
            if key in env and isinstance(resolve(env[key][1]), TBuilder) and resolve(env[key][1]).cmd == f.attr \
                    and self.command_keywords_ok(resolve(env[key][1]), v):
                nm, bt = env[key]
                bt = resolve(bt)
                if len(v.args) != len(bt.cmd_types):
                    raise Unsupported("arity of the command " + src(v))

                def fin_c(vs):
                    cs = [coerce(c, t, kt) for (c, t), kt in zip(vs, bt.cmd_types)]
                    cmd = cs[0] if len(cs) == 1 else "(" + ", ".join(cs) + ")"
                    env2 = dict(env)
                    nm2 = self.lname(key)
                    env2[key] = (nm2, bt)
                    return "let {} := ({}.1, {}.2 ++ [{}])\n{}".format(nm2, nm, nm, cmd, nxt(env2))
                return self.exprs(list(v.args), env, fin_c)
        if isinstance(v, ast.Call) and self.effect_self and isinstance(v.func, ast.Attribute) \
                and src(v.func.value) == "self":
            return self.effect_call(v, env, nxt)
        if isinstance(v, ast.Call):
            # a call for its exceptions only (argument validators)
            return self.expr(v, env, lambda c, t: nxt(env))
        raise Unsupported("expression statement " + src(s))

    def command_keywords_ok(self, bt, call):
        """keywords of a command must be the constants the specs declare (`check=False`)"""
        allowed = self.reg.builders[bt.cls].get("keywords", {})
        for kw in call.keywords:
            if kw.arg not in allowed or not isinstance(kw.value, ast.Constant) or kw.value.value != allowed[kw.arg]:
                return False
        return True

    def effect_call(self, v, env, nxt):
        """`self.m(…)` as a statement inside a procedure on an effect object: an abstract call (observer function) or a
        call of the procedure itself (recursion, bounded by `fuel` = Python's recursion limit)"""
        name = v.func.attr
        b = self.reg.builders[resolve(env["self"][1]).cls]
        calls = b.get("calls", {})
        if name in calls:
            ptys, rty, raises = calls[name]
            if v.keywords or len(v.args) != len(ptys):
                raise Unsupported("abstract call form " + src(v))
            ob = "self_" + name.strip("_")
            if not any(n == ob for n, _, _ in self.observers):
                from py2lean_types import TFun
                self.observers.append((ob, TFun(ptys, rty, raises), ("call", name, None)))

            def fin_o(vs):
                code = " ".join([ob] + [coerce(c, t, pt) for (c, t), pt in zip(vs, ptys)])
                if raises:
                    return self.bind(code, rty, lambda _c, _t: nxt(env), "u")
                return nxt(env)
            return self.exprs(list(v.args), env, fin_o)
        fn = self.current_method
        if fn is not None and name == fn.pyname:
            self.recursive = True
            params = list(fn.params)
            names = [p for p, _ in params]
            given = {}
            for i, a in enumerate(v.args):
                given[names[i]] = a
            for kw in v.keywords:
                if kw.arg not in names:
                    raise Unsupported("unknown keyword " + str(kw.arg))
                given[kw.arg] = kw.value
            order = [p for p in names if p in given or p in fn.defaults]
            if len(order) != len(names):
                raise Unsupported("missing argument in the recursive call")

            def fin_r(vs):
                codes = [coerce(c, t, pt) for (c, t), (_, pt) in zip(vs, params)]
                obs = [n for n, _, _ in self.observers_of_self()]
                call = " ".join([fn.lean, "fuel", env["self"][0]] + ["({})".format(c) if " " in c and not c.startswith("(") and not c.startswith("[") else c for c in codes] + obs)

                def after(r, _t):
                    env2 = dict(env)
                    env2["self"] = (r, env["self"][1])
                    return nxt(env2)
                return self.bind(call, env["self"][1], after, "self")
            return self.exprs([given.get(p, fn.defaults.get(p)) for p in names], env, fin_r)
        raise Unsupported("method self.{} of an effect object".format(name))

    def observers_of_self(self):
        """observer parameters must be passed on in a recursive call: all of them are declared up front"""
        b = self.reg.builders[self.current_method.self_ty.cls]
        out = []
        from py2lean_types import TFun
        for name, (ptys, rty, raises) in b.get("calls", {}).items():
            ob = "self_" + name.strip("_")
            if not any(n == ob for n, _, _ in self.observers):
                self.observers.append((ob, TFun(ptys, rty, raises), ("call", name, None)))
            out.append((ob, None, None))
        return out

    def mark_aliases(self, target, ty):
        """names bound to a mutable value that lives inside another object: mutating them is outside the subset"""
        ty = resolve(ty)
        if isinstance(target, ast.Name):
            if isinstance(ty, (TList, TDict)):
                self.aliased.add(target.id)
        elif isinstance(target, (ast.Tuple, ast.List)) and isinstance(ty, TTuple) and len(ty.elems) == len(target.elts):
            for tg, te in zip(target.elts, ty.elems):
                self.mark_aliases(tg, te)

    def check_mutable(self, key):
        if key in self.aliased:
            raise Unsupported("mutation of {} after it was aliased".format(key))

    def pop_stmt(self, key, target, env, nxt):
        nm, t = env[key]
        t = resolve(t)
        if not isinstance(t, TList):
            raise Unsupported("pop on " + t.lean())
        self.check_mutable(key)

        def k(p, _t):
            env2 = dict(env)
            nm2 = self.lname(key)
            env2[key] = (nm2, t)
            lines = "let {} := {}.2\n".format(nm2, p)
            if target is not None:
                env2, lets = self.assign_target(target, "{}.1".format(p), t.elem, env2)
                lines = "".join(l + "\n" for l in lets) + lines
            return lines + nxt(env2)
        return self.bind("Py.pop {}".format(nm), TTuple([t.elem, t]), k, "p")

    # ------------------------------------------------------------ assignments
    def lname(self, pyname):
        """Lean identifier of a python variable / self attribute"""
        if pyname == "«yield»":
            return "out_"
        n = pyname.replace("self.", "self_").replace(".", "_")
        if n in LEAN_KEYWORDS:
            n = n + "'"
        return self.prefix + n

    def assign_target(self, target, code, ty, env):
        """(env, let-lines) for `target = code : ty`"""
        ty = resolve(ty)
        if isinstance(target, ast.Name) or (isinstance(target, ast.Attribute) and src(target.value) == "self"):
            key = src(target)
            if isinstance(target, ast.Attribute) and not self.in_init:
                raise Unsupported("assignment to an attribute outside __init__")
            env2 = dict(env)
            if isinstance(ty, TErased):
                env2[key] = ("()", ERASED)
                return env2, []
            nm = self.lname(key)
            env2[key] = (nm, ty)
            return env2, ["let {} := {}".format(nm, code)]
        if isinstance(target, (ast.Tuple, ast.List)):
            if isinstance(ty, TTuple) and len(ty.elems) == len(target.elts):
                n = len(ty.elems)
                lets = []
                env2 = env
                for i, tg in enumerate(target.elts):
                    env2, more = self.assign_target(tg, proj(code, i, n), ty.elems[i], env2)
                    lets += more
                return env2, lets
            raise Unsupported("unpacking {} into {}".format(ty.lean(), src(target)))
        raise Unsupported("assignment target " + src(target))

    def s_Assign(self, s, env, nxt):
        if len(s.targets) != 1:
            raise Unsupported("chained assignment")
        target = s.targets[0]
        v = s.value
        if isinstance(target, ast.Name) and target.id in self.erased_locals:
            # a display text (declared in the specs): never evaluated
            env2, _ = self.assign_target(target, "()", ERASED, env)
            return nxt(env2)
        # effect objects: creation, another name for the same object, a method call with a result
        if isinstance(v, ast.Call) and isinstance(v.func, ast.Name) and v.func.id in self.effect_ctors \
                and isinstance(target, ast.Name):
            return self.effect_ctor_stmt(v, target, env, nxt)
        new = self.effect_new(v, env)
        if new is not None and isinstance(target, ast.Name):
            env2 = dict(env)
            nm = self.lname(target.id)
            env2[target.id] = (nm, new[1])
            return "let {} := {}\n{}".format(nm, new[0], nxt(env2))
        if isinstance(target, ast.Name) and isinstance(v, (ast.Name, ast.Attribute)) and self.effect_key(v, env) is not None:
            self.effect_alias[target.id] = self.effect_key(v, env)
            return nxt(env)
        if self.effect_call_parts(v, env) is not None and not (self.effect_self and isinstance(resolve(env["self"][1]), TBuilder)):
            return self.effect_stmt(v, target, env, nxt)
        # x = lst.pop()
        if isinstance(v, ast.Call) and isinstance(v.func, ast.Attribute) and v.func.attr == "pop" \
                and not v.args and src(v.func.value) in env:
            return self.pop_stmt(src(v.func.value), target, env, nxt)
        # `F.header['description'] = …` : a display text on the formula object
        if isinstance(target, ast.Subscript) and isinstance(target.value, ast.Attribute) and target.value.attr == "header" \
                and self.effect_key(target.value.value, env) is not None:
            return nxt(env)
        # d[k] = v on a dictionary
        if isinstance(target, ast.Subscript) and src(target.value) in env:
            key = src(target.value)
            nm, t = env[key]
            t = resolve(t)
            if isinstance(t, TDict):
                self.check_mutable(key)

                def fin(vs):
                    (kc, kt), (vc, vt) = vs
                    if not (unify(t.k, kt) or join(t.k, kt) == resolve(t.k)) or not (unify(t.v, vt) or join(t.v, vt) == resolve(t.v)):
                        raise Unsupported("dictionary entry of another type")
                    env2 = dict(env)
                    nm2 = self.lname(key)
                    env2[key] = (nm2, t)
                    return "let {} := Py.dictSet {} {} {}\n{}".format(nm2, nm, coerce(kc, kt, t.k), coerce(vc, vt, t.v), nxt(env2))
                return self.exprs([target.slice, v], env, fin)
            if isinstance(t, TList):
                self.check_mutable(key)

                def fin_l(vs):
                    (ic, it), (vc, vt) = vs
                    if join(t.elem, vt) is None or resolve(join(t.elem, vt)) != resolve(t.elem):
                        raise Unsupported("list entry of another type")

                    def done(nl, _t):
                        env2 = dict(env)
                        nm2 = self.lname(key)
                        env2[key] = (nm2, t)
                        return "let {} := {}\n{}".format(nm2, nl, nxt(env2))
                    return self.as_int(ic, it, lambda iv: self.bind(
                        "Py.listSet {} {} {}".format(nm, iv, coerce(vc, vt, t.elem)), t, done, "l"))
                return self.exprs([target.slice, v], env, fin_l)
            raise Unsupported("item assignment on " + t.lean())
        # a display name given to an object under construction
        if isinstance(target, ast.Attribute) and src(target.value) in env \
                and isinstance(resolve(env[src(target.value)][1]), TBuilder) and self.is_erased_expr(v, env):
            return nxt(env)
        # erased right-hand sides are not evaluated
        if self.is_erased_expr(v, env):
            env2, _ = self.assign_target(target, "()", ERASED, env)
            return nxt(env2)
        # empty dict literal
        if isinstance(v, ast.Dict) and not v.keys:
            tk, tv = TVar(), TVar()
            env2, lets = self.assign_target(target, "([] : List ({} × {}))".format(TyRef(tk), TyRef(tv)), TDict(tk, tv), env)
            return "".join(l + "\n" for l in lets) + nxt(env2)
        # unpacking a list of unknown length: exactly two entries or ValueError
        if isinstance(target, (ast.Tuple, ast.List)) and len(target.elts) == 2:
            def fin2(c, t):
                t = resolve(t)
                if isinstance(t, TList):
                    return self.bind("Py.unpack2 {}".format(c), TTuple([t.elem, t.elem]),
                                     lambda p, tp: self.finish_assign(target, p, tp, v, env, nxt), "p")
                return self.finish_assign(target, c, t, v, env, nxt)
            return self.expr(v, env, fin2)
        return self.expr(v, env, lambda c, t: self.finish_assign(target, c, t, v, env, nxt))

    def finish_assign(self, target, c, t, vnode, env, nxt):
        if isinstance(vnode, (ast.Name, ast.Attribute)) and isinstance(resolve(t), (TList, TDict)):
            self.aliased.add(src(vnode))
            self.aliased.add(src(target))
        if isinstance(vnode, ast.Subscript) and not isinstance(vnode.slice, ast.Slice):
            self.mark_aliases(target, t)      # `row = rows[i]`: an alias of the entry
        if isinstance(target, ast.Name):
            # rows created by `[[…] for … in …]` are distinct objects: `rows[i].append(x)` changes one entry
            if isinstance(vnode, ast.ListComp) and isinstance(vnode.elt, (ast.List, ast.ListComp)):
                self.fresh_rows.add(target.id)
            else:
                self.fresh_rows.discard(target.id)
        if isinstance(target, (ast.Tuple, ast.List)) and not (c.replace("_", "a").replace("'", "a").isalnum()):
            tmp = self.fresh("p")
            env2, lets = self.assign_target(target, tmp, t, env)
            lets = ["let {} := {}".format(tmp, c)] + lets
        else:
            env2, lets = self.assign_target(target, c, t, env)
        return "".join(l + "\n" for l in lets) + nxt(env2)

    def is_erased_expr(self, e, env):
        """a label text: an erased variable, or string constants / erased values combined with `+`, `*`,
        `.format(…)`, `.join(…)` — never evaluated by the translation"""
        def texty(x, top):
            if isinstance(x, (ast.Name, ast.Attribute)):
                return src(x) in env and isinstance(env[src(x)][1], TErased)
            if isinstance(x, ast.Constant) and isinstance(x.value, str):
                return not top              # a bare string constant is a value (e.g. an operator), not a label
            if isinstance(x, ast.BinOp) and isinstance(x.op, (ast.Add, ast.Mult)):
                return texty(x.left, False) or texty(x.right, False)
            if isinstance(x, ast.Call) and isinstance(x.func, ast.Attribute) and x.func.attr in ("format", "join"):
                return texty(x.func.value, False)
            return False
        return texty(e, True)

    def s_AugAssign(self, s, env, nxt):
        new = ast.Assign(targets=[s.target], value=ast.BinOp(left=_load(s.target), op=s.op, right=s.value))
        ast.copy_location(new, s)
        ast.fix_missing_locations(new)
        return self.s_Assign(new, env, nxt)

    # ------------------------------------------------------------ joins
    def with_join(self, make, env, names, nxt):
        """`make(fall)` translates a construct whose fall-through points call `fall(env_at_that_point)`;
        afterwards the variables `names` are re-bound from a tuple.  One fall-through point: the continuation
        is inlined there."""
        falls = []

        def fall(env_b):
            key = "«JOIN{}»".format(self.fresh_id())
            falls.append((key, env_b))
            return key
        before = self.raised
        code = make(fall)
        monadic_join = self.raised > before
        if not falls:
            return code                      # every path returns / raises: what follows is dead
        if len(falls) == 1:
            key, env_b = falls[0]
            return splice(code, key, nxt(env_b))
        # joined variables: defined at every fall-through point; a variable assigned on some paths only is "maybe bound"
        maybe = [n for n in names if n not in env and any(n in e for _, e in falls) and not all(n in e for _, e in falls)]
        names = [n for n in names if all(n in e for _, e in falls)] + maybe
        tys = []
        for n in names:
            t = None
            for _, e in falls:
                if n not in e:
                    continue
                t = e[n][1] if t is None else join(t, e[n][1])
                if t is None:
                    raise Unsupported("variable {} has incompatible types on two paths".format(n))
            tys.append(TMaybe(t) if n in maybe and not isinstance(resolve(t), TMaybe) else t)
        keep = [(n, t) for n, t in zip(names, tys) if not isinstance(resolve(t), TErased)]
        def at(env_b, n, t):
            if isinstance(resolve(t), TMaybe):
                if n in env_b:
                    return coerce(env_b[n][0], env_b[n][1], t)
                return "(none : {})".format(resolve(t).lean())
            return coerce(env_b[n][0], env_b[n][1], t)
        for key, env_b in falls:
            tup = tuple_code([at(env_b, n, t) for n, t in keep])
            code = code.replace(key, "Except.ok {}".format(tup) if monadic_join else tup)
        env2 = dict(env)
        st = self.lname(keep[0][0]) if len(keep) == 1 else self.fresh("st")
        lets = []
        for i, (n, t) in enumerate(keep):
            nm = self.lname(n)
            env2[n] = (nm, t)
            if len(keep) > 1:
                lets.append("let {} := {}".format(nm, proj(st, i, len(keep))))
        for n, t in zip(names, tys):
            if isinstance(resolve(t), TErased):
                env2[n] = ("()", ERASED)
        tail = "".join(l + "\n" for l in lets) + nxt(env2)
        if monadic_join:
            if not self.monadic:
                raise Impure()
            return "({}) >>= fun {} =>\n{}".format(code, st, tail)
        return "let {} := ({})\n{}".format(st, code, tail)

    # ------------------------------------------------------------ if
    def canon_names(self, names, env, stmts=()):
        names = list(names)
        for r in assigned_call_receivers(stmts):
            key = self.effect_key(r, env)
            if key is not None and key not in names:
                names.append(key)
        out = []
        for n in names:
            if n in self.effect_alias:
                n = self.effect_alias[n]
            if n.startswith("self.") and n[5:] in self.self_aliases:
                n = "self"
            if n not in out:
                out.append(n)
        return out

    def s_If(self, s, env, nxt):
        names = self.canon_names(assigned_names(s.body + s.orelse), env, s.body + s.orelse)
        # a test decided by the declared types (isinstance on an object of known class): only the live branch exists
        try:
            p0 = self.pure_prop(s.test, env)
        except (Impure, Unsupported):
            p0 = None
        if p0 is not None:
            p0 = p0.replace("(¬ True)", "False").replace("(¬ False)", "True")
            if p0 == "True":
                return self.block(s.body, env, nxt)
            if p0 == "False":
                return self.block(s.orelse, env, nxt)
        # label plumbing: an `if` that only assigns erased variables is skipped (its test must be pure)
        if names and all(n in env and isinstance(env[n][1], TErased) for n in names) and self.only_assigns(s):
            return nxt(env)
        narrowed = self.narrowing(s.test, env)

        def make(fall):
            if narrowed is not None:
                var, lean_var, inner, none_first = narrowed
                env_some = dict(env)
                env_some[var] = (lean_var, inner)
                a = self.block(s.body, env if none_first else env_some, fall)
                b = self.block(s.orelse, env_some if none_first else env, fall)
                none_code, some_code = (a, b) if none_first else (b, a)
                return "match {} with\n| none =>\n{}\n| some {} =>\n{}".format(
                    env[var][0], indent(none_code), lean_var, indent(some_code))
            return self.cond(s.test, env, lambda e2: self.block(s.body, e2, fall), lambda e2: self.block(s.orelse, e2, fall))
        return self.with_join(make, env, names, nxt)

    def only_assigns(self, s):
        return all(isinstance(x, (ast.Assign, ast.Pass)) for x in s.body + s.orelse)

    def narrowing(self, test, env):
        """`x is None` / `x is not None` on an optional variable: (py name, lean name, inner type, none_first)"""
        if isinstance(test, ast.Compare) and len(test.ops) == 1 and isinstance(test.ops[0], (ast.Is, ast.IsNot)) \
                and isinstance(test.comparators[0], ast.Constant) and test.comparators[0].value is None \
                and isinstance(test.left, ast.Name) and test.left.id in env:
            nm, t = env[test.left.id]
            t = resolve(t)
            if isinstance(t, TOpt):
                return test.left.id, self.lname(test.left.id), t.elem, isinstance(test.ops[0], ast.Is)
        return None

    # ------------------------------------------------------------ for
    def s_For(self, s, env, nxt):
        if s.orelse:
            raise Unsupported("for … else")
        for n in ast.walk(s):
            if isinstance(n, (ast.Return, ast.Break)):
                raise Unsupported("return / break inside a loop")
        state = [n for n in self.canon_names(assigned_names(s.body), env, s.body) if n in env]
        for n in state:
            self.check_mutable(n) if isinstance(resolve(env[n][1]), (TList, TDict)) else None

        def with_iter(c, t):
            return self.as_list(c, t, lambda l, el: self.loop(s, l, el, state, env, nxt))
        return self.expr(s.iter, env, with_iter)

    def loop(self, s, lst, el, state, env, nxt, tys=None):
        keep = [n for n in state if not isinstance(resolve(env[n][1]), TErased)]
        tys = tys or [env[n][1] for n in keep]
        st = self.lname(keep[0]) if len(keep) == 1 else self.fresh("st")
        x = self.lname(s.target.id) if isinstance(s.target, ast.Name) and s.target.id not in keep else self.fresh("x")
        env_in = dict(env)
        lets = []
        for i, (n, t) in enumerate(zip(keep, tys)):
            nm = self.lname(n)
            env_in[n] = (nm, t)
            if len(keep) > 1:
                lets.append("let {} := {}".format(nm, proj(st, i, len(keep))))
        unpack = None
        rel = resolve(el)
        if isinstance(s.target, (ast.Tuple, ast.List)) and isinstance(rel, TList) and len(s.target.elts) in (2, 3):
            # `for a, b, c in <list of lists>`: exactly that many entries, else ValueError
            k = len(s.target.elts)
            pv = self.fresh("p")
            unpack = "(Py.unpack{} {}) >>= fun {} =>\n".format(k, x, pv)
            self.raised += 1
            env_in, tl = self.bind_target(s.target, pv, TTuple([rel.elem] * k), env_in)
        else:
            env_in, tl = self.bind_target(s.target, x, el, env_in)
        self.mark_aliases(s.target, el)
        lets += tl
        if unpack is not None:
            lets = [l for l in lets if l not in tl]
        falls = []

        def fall(env_b):
            key = "«LOOP{}»".format(self.fresh_id())
            falls.append((key, env_b))
            return key
        before = self.raised
        saved_ret = len(self.returns)
        self.loop_falls.append(fall)          # `continue`: the end of this iteration, with the state at that point
        try:
            body = self.block(s.body, env_in, fall)
        finally:
            self.loop_falls.pop()
        monadic_loop = self.raised > before
        # loop-invariant types
        new_tys = []
        changed = False
        for n, t in zip(keep, tys):
            j = t
            for _, e in falls:
                j = join(j, e[n][1])
                if j is None:
                    raise Unsupported("loop variable {} changes type".format(n))
            changed = changed or resolve(j) != resolve(t)
            new_tys.append(j)
        if changed:
            del self.returns[saved_ret:]
            return self.loop(s, lst, el, state, env, nxt, new_tys)
        for key, env_b in falls:
            tup = tuple_code([coerce(env_b[n][0], env_b[n][1], t) for n, t in zip(keep, tys)])
            body = body.replace(key, "Except.ok {}".format(tup) if monadic_loop else tup)
        st_ty = TTuple(tys).lean() if len(tys) != 1 else resolve(tys[0]).lean()
        init = tuple_code([coerce(env[n][0], env[n][1], t) for n, t in zip(keep, tys)])
        if unpack is not None:
            body = unpack + "".join(l + "\n" for l in tl) + body
        fn = "(fun ({} : {}) ({} : {}) =>\n{})".format(st, st_ty, x, resolve(el).lean(),
                                                       indent("".join(l + "\n" for l in lets) + body))
        env2 = dict(env)
        st2 = self.lname(keep[0]) if len(keep) == 1 else self.fresh("st")
        out_lets = []
        for i, (n, t) in enumerate(zip(keep, tys)):
            nm = self.lname(n)
            env2[n] = (nm, t)
            if len(keep) > 1:
                out_lets.append("let {} := {}".format(nm, proj(st2, i, len(keep))))
        tail = "".join(l + "\n" for l in out_lets) + nxt(env2)
        if monadic_loop:
            if not self.monadic:
                raise Impure()
            return "(List.foldlM {} {} {}) >>= fun {} =>\n{}".format(fn, init, lst, st2, tail)
        return "let {} := List.foldl {} {} {}\n{}".format(st2, fn, init, lst, tail)

    # ------------------------------------------------------------ try (one idiom)
    def s_Try(self, s, env, nxt):
        """two idioms:  try: <abstract call> except K: raise E  (the outcome of the abstract call is an input);
        try: return d[k] except KeyError: pass  (dictionary lookup with fall-through)"""
        if not s.orelse and not s.finalbody and s.handlers and all(self.reraises_same(h) for h in s.handlers):
            # try: body  except E [as e]: raise E(message) [from e]   — the same exception class with another message:
            # transparent at the level of exception classes
            return self.block(s.body, env, nxt)
        if s.orelse or s.finalbody or len(s.handlers) != 1 or len(s.body) != 1:
            raise Unsupported("try statement outside the idiom")
        h = s.handlers[0]
        st = s.body[0]
        if isinstance(st, ast.Return) and isinstance(st.value, ast.Subscript) and isinstance(h.type, ast.Name) \
                and h.type.id == "KeyError" and h.name is None and len(h.body) == 1 and isinstance(h.body[0], ast.Pass) \
                and not isinstance(st.value.slice, ast.Slice):
            def fin_try(vs):
                (d, td), (kc, tk) = vs
                td = resolve(td)
                if not isinstance(td, TDict):
                    raise Unsupported("try around a subscript that is not a dictionary lookup")
                dd, key = self.dict_probe(d, td, kc, tk)
                self.raised += 1
                v = self.fresh("v")
                return "Py.tryExcept (Py.dictGet {} {}) Err.keyError (\n{}) (fun {} =>\n{})".format(
                    dd, key, indent(nxt(env)), v, indent(self.finish_return(v, td.v)))
            return self.exprs([st.value.value, st.value.slice], env, fin_try)
        if not (isinstance(st, ast.Expr) and isinstance(st.value, ast.Call) and isinstance(st.value.func, ast.Attribute)
                and isinstance(h.type, ast.Name) and h.type.id in EXC and h.name is None):
            raise Unsupported("try statement outside the idiom")
        call = st.value
        recv = src(call.func.value)
        if recv not in env or not isinstance(env[recv][1], TErased) or call.func.attr != "format":
            raise Unsupported("try around a concrete computation")
        consts = []
        for a in call.args:
            if isinstance(a, ast.Constant):
                consts.append(a.value)
            else:
                consts = None
                break
        if consts is None and len(call.args) == 1 and isinstance(call.args[0], ast.Starred) \
                and isinstance(call.args[0].value, ast.Name):
            consts = ("star", call.args[0].value.id)        # format(*seq): only the length of seq matters
        ob = self.observer_param("format", recv, consts)
        handler = self.block(h.body, env, lambda e: self.unsup_fall())
        self.raised += 1
        return "Py.tryExcept {} Err{} ({}) (fun _ =>\n{})".format(ob, EXC[h.type.id], handler, indent(nxt(env)))

    @staticmethod
    def reraises_same(h):
        if not (isinstance(h.type, ast.Name) and h.type.id in EXC and len(h.body) == 1 and isinstance(h.body[0], ast.Raise)):
            return False
        r = h.body[0]
        exc = r.exc
        if isinstance(exc, ast.Call):
            if any(not isinstance(a, (ast.Constant, ast.Name)) for a in exc.args) or exc.keywords:
                return False
            exc = exc.func
        if not (isinstance(exc, ast.Name) and exc.id == h.type.id):
            return False
        return r.cause is None or (isinstance(r.cause, ast.Name) and r.cause.id == h.name)

    def unsup_fall(self):
        raise Unsupported("exception handler that falls through")

    def observer_param(self, kind, recv, consts):
        name = "{}_{}".format(recv.replace(".", "_"), kind)
        for n, t, how in self.observers:
            if n == name:
                return n
        self.observers.append((name, TExc(), (kind, recv, consts)))
        return name


def tuple_code(cs):
    if not cs:
        return "()"
    if len(cs) == 1:
        return cs[0]
    return "(" + ", ".join(cs) + ")"


def _load(t):
    import copy
    t2 = copy.deepcopy(t)
    for n in ast.walk(t2):
        if hasattr(n, "ctx"):
            n.ctx = ast.Load()
    return t2


LEAN_KEYWORDS = {"def", "theorem", "fun", "let", "in", "if", "then", "else", "match", "with", "do", "end", "at", "from",
                 "have", "show", "by", "open", "import", "namespace", "section", "variable", "where", "deriving",
                 "instance", "class", "structure", "inductive", "Type", "Prop", "Sort", "for", "return", "mut", "this",
                 "local", "private", "protected", "partial", "unsafe", "macro", "syntax", "notation", "prefix", "infix",
                 "set_option", "universe", "example", "abbrev", "opaque", "axiom", "using", "calc", "nomatch", "fix"}
