#!/usr/bin/env python3
"""writes seeded/RESULTS.md from seeded/RESULTS.json and the meta files"""
import json, os
HERE = os.path.dirname(os.path.dirname(os.path.abspath(__file__)))
S = os.path.join(HERE, "seeded")
R = json.load(open(os.path.join(S, "RESULTS.json")))
rows = ["| id | change | needs | caught by | failing input reported | first round |", "|---|---|---|---|---|---|"]
for sid in sorted(R):
    m = json.load(open(os.path.join(S, sid, "meta.json")))
    r = R[sid]
    by = ", ".join("{} ({} disagreements / oracle: {})".format(p, (c["summary"].split("disagreements ")[1].split(" ")[0] if "disagreements " in c["summary"] else "?"),
                   (c["summary"].split("oracle-failures ")[1].split(" ")[0] if "oracle-failures " in c["summary"] else "?"))
                   for p, c in r.get("checks", {}).items() if c["exit"] == 1) or "—"
    rows.append("| {} | {} | {} | {} | {} | {} |".format(sid, m["summary"].replace("|", "/")[:260], m["needs"].replace("|", "/")[:200], by,
                "yes" if r.get("caught_with_input") else ("no-failing-input-found" if r.get("caught") else "MISSED"),
                m.get("first_round", "caught")))
open(os.path.join(S, "RESULTS.md"), "w").write("# Seeded changes and the checks that catch them\n\n" + "\n".join(rows) + "\n")
print(len(R), "entries;", sum(1 for r in R.values() if r.get("caught")), "caught;", sum(1 for r in R.values() if r.get("caught_with_input")), "with failing input")
