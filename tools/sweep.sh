#!/bin/sh
# multi-seed sweep on the clean tree: sh tools/sweep.sh "<quick seeds>" "<thorough seeds>"
# prints one line per run; a non-ok line on the unchanged tree is a false alarm or a flaky check
cd "$(dirname "$0")/.."
sh -c "$(python3 -c "import json;print(json.load(open('MANIFEST.json'))['setup_cmd'])")" > /dev/null 2>&1 || echo "SETUP FAILED"
props="C01 C02 C03 C04 C05 C06 C07 C08 C09 C10 C11 C12 C13 C14 C15 C16 C17 C18 C19 C20"
for s in $1; do for p in $props; do
  out=$(VERIF_SEED=$s timeout 1800 ./check $p --tier quick 2>&1 | grep -v "^KNOWN-FINDING" | tail -1); echo "quick seed=$s $out"
done; done
for s in $2; do for p in $props; do
  out=$(VERIF_SEED=$s timeout 3600 ./check $p --tier thorough 2>&1 | grep -v "^KNOWN-FINDING" | tail -1); echo "thorough seed=$s $out"
done; done
