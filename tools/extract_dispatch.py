"""Call templates of the command-line helpers (used by tools/extract_tables.py).

For every helper class of cnfgen/clihelpers/*.py the body of `build_formula` / `transform_cnf` is executed
SYMBOLICALLY, path by path, in a small fragment of Python:

  statements : `if/elif/else`, `return`, `raise`, `pass`, assignment of a local name
  expressions: args.X, hasattr(args,'X'), getattr(args,'X',d), constants, not/and/or, `is None`,
               `is not None`, one comparison (== != < <= > >=), `a if c else b`, `*e`, local names
               (replaced by what they were bound to), parameters of the method (F, formula_class)

Every path ends in one *call template*: the conjunction of the tests taken (`guard`), and either the
library generator that is returned with its positional / keyword argument expressions, or the exception
that is raised.  The paths of a body are disjoint and exhaustive, so "the first template whose guard holds"
is "the path the interpreter takes".  Anything outside the fragment is kept as an explicit node
`opaque "<source text>" [<option names it depends on>]` (expressions) or listed in `effects`
(statements; every local they mention becomes opaque) -- never dropped.

The options of the helper are emitted next to the templates (`OptSpec`): the `add_argument` calls made on the
parser that `setup_command_line` receives; calls on other (nested) parsers are flagged `nested`.
"""
import ast


def src(node):
    try:
        return ast.unparse(node)
    except Exception:
        return "?"


# ---------------------------------------------------------------- expression trees
def E(tag, *xs):
    return (tag,) + xs


def deps_of(e):
    """option names an expression tree mentions"""
    tag = e[0]
    if tag in ("arg", "hasattr"):
        return [e[1]]
    if tag == "getattr":
        return [e[1]] + deps_of(e[2])
    if tag == "opaque":
        return list(e[2])
    out = []
    for x in e[1:]:
        if isinstance(x, tuple):
            out += deps_of(x)
    seen = []
    for d in out:
        if d not in seen:
            seen.append(d)
    return seen


def uniq(xs):
    seen = []
    for x in xs:
        if x not in seen:
            seen.append(x)
    return seen


class Sym:
    """symbolic execution of one method body"""

    def __init__(self, libnames, params, argname):
        self.libnames = libnames
        self.params = params          # names of the parameters other than the namespace
        self.argname = argname        # name of the namespace parameter (`args`)
        self.out = []                 # finished paths

    # ---- expressions
    def opaque(self, node, env):
        deps = []
        for n in ast.walk(node):
            if isinstance(n, ast.Attribute) and isinstance(n.value, ast.Name) and n.value.id == self.argname:
                deps.append(n.attr)
            elif isinstance(n, ast.Call) and isinstance(n.func, ast.Name) and n.func.id in ("hasattr", "getattr") \
                    and len(n.args) >= 2 and isinstance(n.args[0], ast.Name) and n.args[0].id == self.argname \
                    and isinstance(n.args[1], ast.Constant):
                deps.append(str(n.args[1].value))
            elif isinstance(n, ast.Name) and isinstance(n.ctx, ast.Load) and n.id in env:
                deps += deps_of(env[n.id])
        return E("opaque", src(node), uniq(deps))

    def tx(self, e, env):
        an = self.argname
        if isinstance(e, ast.Attribute) and isinstance(e.value, ast.Name) and e.value.id == an:
            return E("arg", e.attr)
        if isinstance(e, ast.Name):
            if e.id in env:
                return env[e.id]
            if e.id in self.params:
                return E("name", e.id)
            return self.opaque(e, env)
        if isinstance(e, ast.Constant):
            v = e.value
            if v is None:
                return E("none")
            if isinstance(v, bool):
                return E("bool", v)
            if isinstance(v, int):
                return E("int", v)
            if isinstance(v, str):
                return E("str", v)
            return self.opaque(e, env)
        if isinstance(e, ast.Call) and isinstance(e.func, ast.Name) and e.func.id in ("hasattr", "getattr") \
                and not e.keywords and len(e.args) >= 2 and isinstance(e.args[0], ast.Name) \
                and e.args[0].id == an and isinstance(e.args[1], ast.Constant) and isinstance(e.args[1].value, str):
            if e.func.id == "hasattr" and len(e.args) == 2:
                return E("hasattr", e.args[1].value)
            if e.func.id == "getattr" and len(e.args) == 3:
                return E("getattr", e.args[1].value, self.tx(e.args[2], env))
            return self.opaque(e, env)
        if isinstance(e, ast.UnaryOp) and isinstance(e.op, ast.Not):
            return E("not", self.tx(e.operand, env))
        if isinstance(e, ast.UnaryOp) and isinstance(e.op, ast.USub) and isinstance(e.operand, ast.Constant) \
                and isinstance(e.operand.value, int) and not isinstance(e.operand.value, bool):
            return E("int", -e.operand.value)
        if isinstance(e, ast.BoolOp):
            tag = "and" if isinstance(e.op, ast.And) else "or"
            vals = [self.tx(v, env) for v in e.values]
            acc = vals[-1]
            for v in reversed(vals[:-1]):
                acc = E(tag, v, acc)
            return acc
        if isinstance(e, ast.Compare) and len(e.ops) == 1:
            op, right = e.ops[0], e.comparators[0]
            if isinstance(op, (ast.Is, ast.IsNot)) and isinstance(right, ast.Constant) and right.value is None:
                return E("isNone" if isinstance(op, ast.Is) else "isNotNone", self.tx(e.left, env))
            sym = {ast.Eq: "==", ast.NotEq: "!=", ast.Lt: "<", ast.LtE: "<=", ast.Gt: ">", ast.GtE: ">="}.get(type(op))
            if sym is not None:
                return E("cmp", sym, self.tx(e.left, env), self.tx(right, env))
            return self.opaque(e, env)
        if isinstance(e, ast.BinOp) and type(e.op) in (ast.Add, ast.Sub, ast.Mult, ast.Mod, ast.FloorDiv):
            sym = {ast.Add: "+", ast.Sub: "-", ast.Mult: "*", ast.Mod: "%", ast.FloorDiv: "//"}[type(e.op)]
            return E("binop", sym, self.tx(e.left, env), self.tx(e.right, env))
        if isinstance(e, ast.Call) and isinstance(e.func, ast.Attribute) and e.func.attr == "order" \
                and not e.args and not e.keywords:
            return E("order", self.tx(e.func.value, env))          # G.order(): number of vertices of a graph
        if isinstance(e, ast.Call) and isinstance(e.func, ast.Name) and e.func.id == "make_graph_from_spec" \
                and not e.keywords and len(e.args) == 2 and isinstance(e.args[0], ast.Constant) \
                and isinstance(e.args[0].value, str) and isinstance(e.args[1], ast.List) \
                and not any(isinstance(x, ast.Starred) for x in e.args[1].elts):
            acc = E("nil")
            for x in reversed(e.args[1].elts):
                acc = E("cons", self.tx(x, env), acc)
            return E("mkgraph", e.args[0].value, acc)
        if isinstance(e, ast.IfExp):
            return E("ite", self.tx(e.test, env), self.tx(e.body, env), self.tx(e.orelse, env))
        if isinstance(e, ast.Starred):
            return E("star", self.tx(e.value, env))
        return self.opaque(e, env)

    # ---- statements
    def finish(self, guard, effects, raises="", fn="", pos=(), kw=()):
        self.out.append({"guard": list(guard), "effects": list(effects), "raises": raises, "fn": fn,
                         "pos": list(pos), "kw": list(kw)})

    def taint(self, node, env, names=None):
        """every local mentioned (or assigned) by an uninterpreted statement becomes opaque"""
        touched = []
        for n in ast.walk(node):
            if isinstance(n, ast.Name) and (n.id in env or isinstance(n.ctx, ast.Store)):
                touched.append(n.id)
        for name in uniq(touched + list(names or [])):
            old = deps_of(env[name]) if name in env else []
            more = self.opaque(node, env)[2]
            env[name] = E("opaque", "{} after `{}`".format(name, src(node)), uniq(old + more))

    def run(self, stmts, env, guard, effects):
        """returns the list of states (env, guard, effects) that fall through the block"""
        states = [(env, guard, effects)]
        for st in stmts:
            nxt = []
            for (env, guard, effects) in states:
                nxt += self.step(st, dict(env), list(guard), list(effects))
            states = nxt
            if not states:
                break
        return states

    def step(self, st, env, guard, effects):
        if isinstance(st, ast.Expr) and isinstance(st.value, ast.Constant) and isinstance(st.value.value, str):
            return [(env, guard, effects)]                      # docstring
        if isinstance(st, ast.Pass):
            return [(env, guard, effects)]
        if isinstance(st, ast.Assign) and len(st.targets) == 1 and isinstance(st.targets[0], ast.Name):
            env[st.targets[0].id] = self.tx(st.value, env)
            return [(env, guard, effects)]
        if isinstance(st, ast.If):
            c = self.tx(st.test, env)
            a = self.run(st.body, dict(env), guard + [c], list(effects))
            b = self.run(st.orelse, dict(env), guard + [E("not", c)], list(effects))
            return a + b
        if isinstance(st, ast.Return):
            v = st.value
            if isinstance(v, ast.Call) and isinstance(v.func, ast.Name) and v.func.id in self.libnames \
                    and not any(k.arg is None for k in v.keywords):
                self.finish(guard, effects, fn=v.func.id, pos=[self.tx(a, env) for a in v.args],
                            kw=[(k.arg, self.tx(k.value, env)) for k in v.keywords])
            else:
                self.finish(guard, effects, fn="", pos=[self.tx(v, env) if v is not None else E("none")])
            return []
        if isinstance(st, ast.Raise):
            name = "?"
            if isinstance(st.exc, ast.Call) and isinstance(st.exc.func, ast.Name):
                name = st.exc.func.id
            elif isinstance(st.exc, ast.Name):
                name = st.exc.id
            self.finish(guard, effects, raises=name)
            return []
        # outside the fragment: remembered, and everything it touches becomes opaque
        effects.append(src(st))
        self.taint(st, env)
        return [(env, guard, effects)]

    def templates(self, fn):
        for (env, guard, effects) in self.run(fn.body, {}, [], []):
            self.finish(guard, effects, fn="", pos=[E("none")])   # falls off the end: returns None
        return self.out


def method_templates(fn, libnames):
    names = [a.arg for a in fn.args.args] + [a.arg for a in fn.args.kwonlyargs]
    argname = "args" if "args" in names else (names[0] if names else "args")
    params = [n for n in names if n != argname]
    return Sym(libnames, params, argname).templates(fn)


def tool_templates(fn, libnames, argname="args"):
    """library generators called anywhere in a tool's `cli()` (not only in `return`): used for
    kthlist2pebbling, which builds its formula with a plain assignment"""
    out = []
    env = {}
    s = Sym(libnames, [], argname)
    assigns = [st for st in ast.walk(fn)
               if isinstance(st, ast.Assign) and len(st.targets) == 1 and isinstance(st.targets[0], ast.Name)]
    assigns.sort(key=lambda st: (st.lineno, st.col_offset))
    for st in assigns:
        if True:
            v = st.value
            if isinstance(v, ast.Call) and isinstance(v.func, ast.Name) and v.func.id in libnames:
                out.append({"guard": [], "effects": [], "raises": "", "fn": v.func.id,
                            "pos": [s.tx(a, env) for a in v.args],
                            "kw": [(k.arg, s.tx(k.value, env)) for k in v.keywords if k.arg]})
            else:
                env[st.targets[0].id] = s.opaque(v, env)
    return out


# ---------------------------------------------------------------- options
def const_expr(node):
    """constants of add_argument keywords (const=, default=)"""
    if node is None:
        return None
    s = Sym({}, [], "args")
    return s.tx(node, {})


def dest_of(call):
    kws = {k.arg: k.value for k in call.keywords if k.arg}
    if "dest" in kws and isinstance(kws["dest"], ast.Constant):
        return str(kws["dest"].value)
    names = [a.value for a in call.args if isinstance(a, ast.Constant) and isinstance(a.value, str)]
    if not names:
        return "?"
    longs = [n for n in names if n.startswith("--")]
    if longs:
        return longs[0][2:].replace("-", "_")
    if names[0].startswith("-"):
        return names[0].lstrip("-").replace("-", "_")
    return names[0]


KNOWN_KW = {"type", "action", "nargs", "choices", "default", "const", "required", "dest", "help", "metavar"}


def local_parsers(setup):
    """local names bound to a fresh `CLIParser()` (the sub-parsers of compose_two_parsers)"""
    out = []
    for st in ast.walk(setup):
        if isinstance(st, ast.Assign) and len(st.targets) == 1 and isinstance(st.targets[0], ast.Name) \
                and isinstance(st.value, ast.Call) and isinstance(st.value.func, ast.Name) \
                and st.value.func.id == "CLIParser" and not st.value.args and not st.value.keywords:
            out.append(st.targets[0].id)
    return out


def compositions(setup):
    """local names bound to `compose_two_parsers(p1, p2)` (default test: "the first token is a number")"""
    out = {}
    lp = local_parsers(setup)
    for st in ast.walk(setup):
        if isinstance(st, ast.Assign) and len(st.targets) == 1 and isinstance(st.targets[0], ast.Name) \
                and isinstance(st.value, ast.Call) and isinstance(st.value.func, ast.Name) \
                and st.value.func.id == "compose_two_parsers" and not st.value.keywords \
                and len(st.value.args) == 2 and all(isinstance(a, ast.Name) and a.id in lp for a in st.value.args):
            out[st.targets[0].id] = [a.id for a in st.value.args]
    return out


def option_groups(setup, parser_name):
    """local names bound to `<parser>.add_mutually_exclusive_group()` / `.add_argument_group()`"""
    out = {}
    for st in ast.walk(setup):
        if isinstance(st, ast.Assign) and len(st.targets) == 1 and isinstance(st.targets[0], ast.Name) \
                and isinstance(st.value, ast.Call) and isinstance(st.value.func, ast.Attribute) \
                and isinstance(st.value.func.value, ast.Name) and st.value.func.value.id == parser_name \
                and st.value.func.attr in ("add_mutually_exclusive_group", "add_argument_group"):
            out[st.targets[0].id] = st.value.func.attr
    return out


def optspec(call, parser_name, groups=None, locals_=(), composes=None):
    groups = groups or {}
    composes = composes or {}
    kws = {k.arg: k.value for k in call.keywords if k.arg}
    flags = [a.value for a in call.args if isinstance(a, ast.Constant) and isinstance(a.value, str)]

    def kw(name):
        v = kws.get(name)
        if v is None:
            return ""
        if isinstance(v, ast.Constant):
            return str(v.value)
        return src(v)
    choices = []
    if "choices" in kws:
        if isinstance(kws["choices"], (ast.List, ast.Tuple)) and \
                all(isinstance(e, ast.Constant) and isinstance(e.value, str) for e in kws["choices"].elts):
            choices = [e.value for e in kws["choices"].elts]
        else:
            choices = ["<" + src(kws["choices"]) + ">"]
    recv = call.func.value.id if isinstance(call.func.value, ast.Name) else src(call.func.value)
    required = False
    if "required" in kws:
        required = bool(isinstance(kws["required"], ast.Constant) and kws["required"].value is True)
    # anything we do not understand about the call makes the option non-standard
    odd = sorted(set(kws) - KNOWN_KW) + (["**"] if any(k.arg is None for k in call.keywords) else []) + \
        (["positional-args"] if len(flags) != len(call.args) else [])
    group = ""
    if recv in groups:
        if groups[recv] == "add_mutually_exclusive_group":
            group = recv
        recv = parser_name
    compose = []
    action = kw("action")
    if isinstance(kws.get("action"), ast.Name) and kws["action"].id in composes:
        compose = composes[kws["action"].id]
        action = "compose_two_parsers"
    if recv != parser_name and recv not in locals_:
        odd.append("unknown-parser")
    sub = "" if recv == parser_name else recv
    return {"dest": dest_of(call), "flags": flags, "positional": not (bool(flags) and flags[0].startswith("-")),
            "action": action, "ty": kw("type"), "nargs": kw("nargs"), "choices": choices,
            "hasConst": "const" in kws, "const": const_expr(kws.get("const")) or E("none"),
            "hasDefault": "default" in kws, "default": const_expr(kws.get("default")) or E("none"),
            "required": required, "nested": recv != parser_name, "odd": odd,
            "parser": sub, "compose": compose, "group": group}


def graph_actions(tree):
    """argparse actions of graph_args.py that store `make_graph_from_spec(<kind>, values)`: name -> kind"""
    out = []
    for node in tree.body:
        if not isinstance(node, ast.ClassDef):
            continue
        for n in ast.walk(node):
            if isinstance(n, ast.Call) and isinstance(n.func, ast.Name) and n.func.id == "make_graph_from_spec" \
                    and len(n.args) == 2 and isinstance(n.args[0], ast.Constant) \
                    and isinstance(n.args[1], ast.Name) and n.args[1].id == "values":
                out.append((node.name, str(n.args[0].value)))
                break
    return out


# ---------------------------------------------------------------- Lean
def lstr(s):
    s = str(s)
    out = s.replace("\\", "\\\\").replace('"', '\\"').replace("\n", "\\n").replace("\r", "\\r").replace("\t", "\\t")
    return '"' + out + '"'


def llist(xs, f=lstr):
    return "[" + ", ".join(f(x) for x in xs) + "]"


def lexpr(e):
    tag = e[0]
    if tag in ("arg", "hasattr", "name", "str"):
        return "(.{} {})".format(tag, lstr(e[1]))
    if tag == "getattr":
        return "(.getattr {} {})".format(lstr(e[1]), lexpr(e[2]))
    if tag == "none":
        return ".none"
    if tag == "bool":
        return "(.bool {})".format("true" if e[1] else "false")
    if tag == "int":
        return "(.int ({}))".format(e[1])
    if tag in ("not", "isNone", "isNotNone", "star"):
        return "(.{} {})".format(tag, lexpr(e[1]))
    if tag in ("and", "or"):
        return "(.{} {} {})".format(tag, lexpr(e[1]), lexpr(e[2]))
    if tag == "cmp":
        return "(.cmp {} {} {})".format(lstr(e[1]), lexpr(e[2]), lexpr(e[3]))
    if tag == "binop":
        return "(.binop {} {} {})".format(lstr(e[1]), lexpr(e[2]), lexpr(e[3]))
    if tag == "order":
        return "(.order {})".format(lexpr(e[1]))
    if tag == "nil":
        return ".nil"
    if tag == "cons":
        return "(.cons {} {})".format(lexpr(e[1]), lexpr(e[2]))
    if tag == "mkgraph":
        return "(.mkgraph {} {})".format(lstr(e[1]), lexpr(e[2]))
    if tag == "ite":
        return "(.ite {} {} {})".format(lexpr(e[1]), lexpr(e[2]), lexpr(e[3]))
    if tag == "opaque":
        return "(.opaque {} {})".format(lstr(e[1]), llist(e[2]))
    raise ValueError(tag)


def lguard(conds):
    if not conds:
        return "(.bool true)"
    acc = lexpr(conds[-1])
    for c in reversed(conds[:-1]):
        acc = "(.and {} {})".format(lexpr(c), acc)
    return acc


def ltemplate(t):
    return "⟨{}, {}, {}, {}, {}, {}⟩".format(
        lguard(t["guard"]), lstr(t["raises"]), lstr(t["fn"]), llist(t["pos"], lexpr),
        llist(t["kw"], lambda p: "({}, {})".format(lstr(p[0]), lexpr(p[1]))), llist(t["effects"]))


def lopt(o):
    b = lambda x: "true" if x else "false"  # noqa
    return "⟨{}, {}, {}, {}, {}, {}, {}, {}, {}, {}, {}, {}, {}, {}, {}, {}, {}⟩".format(
        lstr(o["dest"]), llist(o["flags"]), b(o["positional"]), lstr(o["action"]), lstr(o["ty"]), lstr(o["nargs"]),
        llist(o["choices"]), b(o["hasConst"]), lexpr(o["const"]), b(o["hasDefault"]), lexpr(o["default"]),
        b(o["required"]), b(o["nested"]), llist(o["odd"]), lstr(o["parser"]), llist(o["compose"]), lstr(o["group"]))


DECLS = """
/-- argument and guard expressions of the helpers (`args` is the parsed namespace); `opaque` keeps the source
text of anything outside the fragment together with the option names it depends on -/
inductive Expr where
  | arg (dest : String)
  | hasattr (dest : String)
  | getattr (dest : String) (dflt : Expr)
  | none
  | bool (b : Bool)
  | int (i : Int)
  | str (s : String)
  | name (n : String)
  | not (e : Expr)
  | and (a b : Expr)
  | or (a b : Expr)
  | isNone (e : Expr)
  | isNotNone (e : Expr)
  | cmp (op : String) (a b : Expr)
  | ite (c t e : Expr)
  | star (e : Expr)
  | binop (op : String) (a b : Expr)          -- integer arithmetic  + - * % //
  | order (g : Expr)                          -- g.order()
  | nil                                       -- list literal of a graph specification
  | cons (h t : Expr)
  | mkgraph (kind : String) (spec : Expr)     -- make_graph_from_spec(kind, [ … ])
  | opaque (src : String) (deps : List String)
  deriving Repr, DecidableEq

/-- one path of `build_formula` / `transform_cnf`: the tests taken, and the library call returned
(`fn = ""`: the value returned is not a library call) or the exception raised (`raises ≠ ""`) -/
structure CallTemplate where
  guard : Expr
  raises : String
  fn : String
  pos : List Expr
  kw : List (String × Expr)
  effects : List String
  deriving Repr, DecidableEq

/-- one `add_argument` call -/
structure OptSpec where
  dest : String
  flags : List String
  positional : Bool
  action : String
  ty : String
  nargs : String
  choices : List String
  hasConst : Bool
  const : Expr
  hasDefault : Bool
  default : Expr
  required : Bool
  nested : Bool
  odd : List String
  parser : String           -- "" = the sub-command's parser, else the local `CLIParser()` it was added to
  compose : List String     -- [p1, p2] when the action is `compose_two_parsers(p1, p2)`
  group : String            -- mutually exclusive group it belongs to ("" = none)
  deriving Repr, DecidableEq

/-- the command-line side of a helper class: its options and the call templates of its method -/
structure CliSpec where
  cls : String
  name : String
  kind : String
  opts : List OptSpec
  templates : List CallTemplate
  deriving Repr, DecidableEq
"""


def lspecs(cli_specs):
    rows = []
    for s in cli_specs:
        rows.append("  ⟨{}, {}, {},\n    {},\n    {}⟩".format(
            lstr(s["cls"]), lstr(s["name"]), lstr(s["kind"]),
            "[" + ",\n     ".join(lopt(o) for o in s["opts"]) + "]",
            "[" + ",\n     ".join(ltemplate(t) for t in s["templates"]) + "]"))
    return ",\n".join(rows)


SNAPSHOT_HEADER = """/-
The DOCUMENTED command line -> library call table of the handled sub-commands: for each one its options
(validators, flags, defaults) and the library call it stands for.

This file is a reviewed SNAPSHOT, not regenerated by ./check: it was produced once by
`python3 tools/extract_tables.py --snapshot-documented` from the source at the time of review, compared
with the usage texts of the helpers and with the independent hand-written table of harness/props/C17.py
(`cli_vs_lib`), and committed.  Props/C17/Dispatch.lean proves that the tables regenerated from the
CURRENT source equal it (`current_source_is_documented`), so any change of a helper's options or of
the call it makes (a swapped argument, `onto=args.functional`, another validator) breaks a kernel-checked
proof, and the correspondence suite `d_*` then shows a command line on which the real tool no longer makes
the documented call.  After a deliberate change of the command-line interface: review, then re-snapshot.
-/
import CnfgenModel.Generated.Tables
namespace Cnfgen.Cli
open Cnfgen.Gen

"""


def emit_snapshot(cli_specs):
    return SNAPSHOT_HEADER + "def documentedSpecs : List CliSpec := [\n" + lspecs(cli_specs) + "\n]\n\nend Cnfgen.Cli\n"


def graph_constructions(tree):
    """the `constructions` table of graph_args.py: graph type -> names of the constructions"""
    for node in tree.body:
        if isinstance(node, ast.Assign) and len(node.targets) == 1 and isinstance(node.targets[0], ast.Name) \
                and node.targets[0].id == "constructions" and isinstance(node.value, ast.Dict):
            out = []
            for k, v in zip(node.value.keys, node.value.values):
                if isinstance(k, ast.Constant) and isinstance(v, ast.Dict):
                    out.append((str(k.value), [str(x.value) for x in v.keys if isinstance(x, ast.Constant)]))
            return out
    return []


def graph_options(tree):
    """the `options` table of graph_args.py: graph type -> option keywords, in the order of the source"""
    for node in tree.body:
        if isinstance(node, ast.Assign) and len(node.targets) == 1 and isinstance(node.targets[0], ast.Name) \
                and node.targets[0].id == "options" and isinstance(node.value, ast.Dict):
            out = []
            for k, v in zip(node.value.keys, node.value.values):
                if isinstance(k, ast.Constant) and isinstance(v, (ast.List, ast.Tuple)) \
                        and all(isinstance(x, ast.Constant) for x in v.elts):
                    out.append((str(k.value), [str(x.value) for x in v.elts]))
                else:
                    return []       # outside the fragment: the table theorems over it fail
            return out
    return []


def _const_str_list(node):
    if isinstance(node, (ast.List, ast.Tuple)) and all(isinstance(x, ast.Constant) and isinstance(x.value, str)
                                                      for x in node.elts):
        return [x.value for x in node.elts]
    return None


def graph_formats(graphs_tree):
    """`formats = supported_graph_formats()` of graph_args.py, read off graphs.py:
    graph type -> (formats when pydot can be imported, formats when it cannot).
    Fragment: `supported_graph_formats` returns a dict literal `{type: <Class>.supported_file_formats()}`
    and each class method is `if has_dot_library(): return [..] else: return [..]` (or one plain `return [..]`)."""
    per_class = {}
    mapping = None
    for node in graphs_tree.body:
        if isinstance(node, ast.ClassDef):
            for f in node.body:
                if isinstance(f, ast.FunctionDef) and f.name == "supported_file_formats":
                    body = [b for b in f.body if not (isinstance(b, ast.Expr) and isinstance(b.value, ast.Constant))]
                    if len(body) == 1 and isinstance(body[0], ast.Return):
                        l = _const_str_list(body[0].value)
                        if l is not None:
                            per_class[node.name] = (l, l)
                    elif len(body) == 1 and isinstance(body[0], ast.If) and isinstance(body[0].test, ast.Call) \
                            and isinstance(body[0].test.func, ast.Name) and body[0].test.func.id == "has_dot_library" \
                            and len(body[0].body) == 1 and len(body[0].orelse) == 1 \
                            and isinstance(body[0].body[0], ast.Return) and isinstance(body[0].orelse[0], ast.Return):
                        a = _const_str_list(body[0].body[0].value)
                        b = _const_str_list(body[0].orelse[0].value)
                        if a is not None and b is not None:
                            per_class[node.name] = (a, b)
        if isinstance(node, ast.FunctionDef) and node.name == "supported_graph_formats":
            for b in node.body:
                if isinstance(b, ast.Return) and isinstance(b.value, ast.Dict):
                    mapping = []
                    for k, v in zip(b.value.keys, b.value.values):
                        if isinstance(k, ast.Constant) and isinstance(v, ast.Call) and isinstance(v.func, ast.Attribute) \
                                and v.func.attr == "supported_file_formats" and isinstance(v.func.value, ast.Name):
                            mapping.append((str(k.value), v.func.value.id))
                        else:
                            return []
    if mapping is None:
        return []
    out = []
    for t, cls in mapping:
        if cls not in per_class:
            return []
        out.append((t, per_class[cls][0], per_class[cls][1]))
    return out


def emit(cli_specs, tool_tpls, gactions, gconstructions=(), goptions=None, gformats=None):
    L = [DECLS]
    L.append("def cliSpecs : List CliSpec := [")
    L.append(lspecs(cli_specs))
    L.append("]\n")
    L.append("/-- library generators called by the `cli()` of the stand-alone tools -/")
    L.append("def toolTemplates : List (String × List CallTemplate) := [")
    L.append(",\n".join("  ({}, {})".format(lstr(t), "[" + ", ".join(ltemplate(x) for x in ts) + "]")
                        for t, ts in tool_tpls))
    L.append("]\n")
    L.append("/-- argparse actions of graph_args.py that store `make_graph_from_spec(kind, values)` -/")
    L.append("def graphActions : List (String × String) := {}\n".format(
        llist(gactions, lambda p: "({}, {})".format(lstr(p[0]), lstr(p[1])))))
    L.append("/-- `constructions` of graph_args.py: the graph constructions of each graph type -/")
    L.append("def graphConstructions : List (String × List String) := {}\n".format(
        llist(gconstructions, lambda p: "({}, {})".format(lstr(p[0]), llist(p[1])))))
    if goptions is not None:
        L.append("/-- `options` of graph_args.py: the option keywords of each graph type -/")
        L.append("def graphOptions : List (String × List String) := {}\n".format(
            llist(goptions, lambda p: "({}, {})".format(lstr(p[0]), llist(p[1])))))
    if gformats is not None:
        L.append("/-- `formats` of graph_args.py (= `supported_graph_formats()` of graphs.py): graph type ->\n"
                 "(file formats when pydot can be imported, file formats when it cannot) -/")
        L.append("def graphFormats : List (String × List String × List String) := {}\n".format(
            llist(gformats, lambda p: "({}, {}, {})".format(lstr(p[0]), llist(p[1]), llist(p[2])))))
    return "\n".join(L)
