#!/usr/bin/env python3
"""kf.py fixed <ID> <PROP> <commit-subject-substring> <what>   — record / convert an entry to `fixed`"""
import json, subprocess, sys
kind, i, prop, sub, what = sys.argv[1:6]
log = subprocess.check_output(['git', '-C', '/repo', 'log', '--format=%h %s']).decode().strip().split('\n')
c = [l.split()[0] for l in log if sub in l][0]
p = '/verif/known_findings.json'
k = [e for e in json.load(open(p)) if e['id'] != i]
k.append({"id": i, "property": prop, "status": "fixed", "commit": c, "what": "fixed: property={} {} {}".format(prop, c, what)})
json.dump(k, open(p, 'w'), indent=1)
print(i, c)
